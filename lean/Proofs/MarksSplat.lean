import Proofs.MarksObj
/-!
C06: splat expressions.
-/
set_option linter.unusedSimpArgs false
namespace HclModel.Proofs
open Val

def splatAutoUp (sv : Val) : Bool := match sv.typeOf with | .tuple _ | .list _ => false | _ => true

def splatSrc (sv : Val) : Val := if splatAutoUp sv then (Val.tuple Fl.none [sv]).withFl sv.fl else sv

def splatResultTy (each : Val → Out) (sv : Val) : Ty × List Diag :=
  let eachTy (t : Ty) : Ty × List Diag :=
    let (v, ds) := each (Val.unk Fl.none t)
    (v.typeOf, ds)
  match sv.typeOf with
  | .list t => let (rt, ds) := eachTy t; (.list rt, ds)
  | .tuple ts =>
    let rs := ts.map eachTy
    (.tuple (rs.map (·.1)), rs.flatMap (·.2))
  | _ => (.dyn, [])

def splatItems (sv : Val) : List Val := match sv with | .list _ _ xs => xs | .tuple _ xs => xs | _ => []

def splatFinish (sv : Val) (sm : Fl) (resultTy : Ty × List Diag) (vals : List Val) (ds : List Diag) : Out :=
  match sv with
  | .list _ _ _ =>
    (match vals with
     | [] => (match resultTy.1 with
        | .list t => ((Val.list Fl.none t []).withFl sm, ds ++ resultTy.2)
        | _ => unsupportedOut "splat empty list")
     | v :: vs =>
       if vs.all (fun w => w.typeOf == v.typeOf) then ((Val.list Fl.none v.typeOf vals).withFl sm, ds)
       else unsupportedOut "splat: list elements of different types")
  | _ => ((Val.tuple Fl.none vals).withFl sm, ds)

theorem splatOut_eq (keep : Bool) (sv : Val) (sd : List Diag) (each : Val → Out) :
    splatOut keep (sv, sd) each =
      if hasErrors sd then (Val.dynVal, sd)
      else if sv.isNull then
        (if splatAutoUp sv then ((Val.tuple Fl.none []).withFl sv.fl, sd) else (Val.dynVal, sd ++ [⟨"Splat of null value", []⟩]))
      else if sv.typeOf == .dyn then (Val.dynVal.withFl sv.fl, sd)
      else
        let sv2 := splatSrc sv
        let rt := splatResultTy each sv2
        if !sv2.isKnown then ((Val.unk Fl.none rt.1).withFl sv2.fl, sd ++ rt.2)
        else
          let sv3 := sv2.unmark.1
          let sm := sv2.fl
          let rs := (splatItems sv3).map each
          let ds := sd ++ rs.flatMap (·.2)
          if splatAutoUp sv && !sv.isKnown then (Val.dynVal.withFl sm, ds)
          else if !(rs.all fun r => !hasErrors r.2) then
            ((Val.unk Fl.none rt.1).withFl sm, if keep then ds ++ rt.2 else ds)
          else splatFinish sv3 sm rt (rs.map (·.1)) ds := by
  unfold splatOut
  rfl

theorem splatSrc_fl (sv : Val) : (splatSrc sv).fl = sv.fl := by
  unfold splatSrc; split <;> simp

theorem splatFinish_marked (sv : Val) (sm : Fl) (rt : Ty × List Diag) (vals : List Val) (ds : List Diag)
    (hm : sm.m = true) (h : (splatFinish sv sm rt vals ds).2 = []) : (splatFinish sv sm rt vals ds).1.fl.m = true := by
  unfold splatFinish at h ⊢
  split
  · split
    · split <;> simp_all
    · split <;> simp_all
  · simp [hm]

theorem splatOut_marked (keep : Bool) (sv : Val) (sd : List Diag) (each : Val → Out) (hm : sv.fl.m = true)
    (h : (splatOut keep (sv, sd) each).2 = []) : (splatOut keep (sv, sd) each).1.fl.m = true := by
  rw [splatOut_eq] at h ⊢
  split
  · rename_i he; rw [if_pos he] at h; simp only [] at h; rw [h] at he; simp [hasErrors] at he
  rename_i he; rw [if_neg he] at h
  split
  · rename_i hn; rw [if_pos hn] at h
    split
    · simp [hm]
    · rename_i ha; rw [if_neg ha] at h; simp at h
  rename_i hn; rw [if_neg hn] at h
  split
  · simp [hm]
  rename_i hd; rw [if_neg hd] at h
  simp only [] at h ⊢
  split
  · simp [splatSrc_fl, hm]
  rename_i hk; rw [if_neg hk] at h
  split
  · simp [splatSrc_fl, hm]
  rename_i hu; rw [if_neg hu] at h
  split
  · simp [splatSrc_fl, hm]
  rename_i hok; rw [if_neg hok] at h
  exact splatFinish_marked _ _ _ _ _ (by simp [splatSrc_fl, hm]) h

theorem relC_splatAutoUp {a b : Val} (h : relC a b = true) : splatAutoUp a = splatAutoUp b := by
  cases a <;> cases b <;> simp_all [relC, splatAutoUp, typeOf]

theorem relC_splatSrc {a b : Val} (h : relC a b = true) : relC (splatSrc a) (splatSrc b) = true := by
  unfold splatSrc
  rw [← relC_splatAutoUp h]
  split
  · simp [withFl, setFl, relC, relL, relV_of_relC h]
  · exact h

theorem relC_splatItems {a b : Val} (h : relC a b = true) : relL (splatItems a) (splatItems b) = true := by
  cases a <;> cases b <;> simp_all [relC, splatItems, relL]

theorem relL_map_fst : ∀ {xs ys : List Val} (each each' : Val → Out), relL xs ys = true →
    (∀ p ∈ xs.zip ys, relV p.1 p.2 = true → relV (each p.1).1 (each' p.2).1 = true) →
    relL ((xs.map each).map (·.1)) ((ys.map each').map (·.1)) = true
  | [], [], _, _, _, _ => by simp [relL]
  | [], _ :: _, _, _, h, _ => by simp [relL] at h
  | _ :: _, [], _, _, h, _ => by simp [relL] at h
  | x :: xs, y :: ys, each, each', h, he => by
    simp only [relL, Bool.and_eq_true] at h
    simp only [List.map_cons, relL, Bool.and_eq_true]
    exact ⟨he (x, y) (by simp) h.1, relL_map_fst each each' h.2 (fun p hp => he p (by simp [hp]))⟩

theorem flatMap_nil_all (rs : List Out) (h : rs.flatMap (·.2) = []) : (rs.all fun r => !hasErrors r.2) = true := by
  simp only [List.flatMap_eq_nil_iff] at h
  simp only [List.all_eq_true]
  intro r hr
  simp [hasErrors, h r hr]

theorem splatFinish_diags (sv : Val) (sm : Fl) (rt : Ty × List Diag) (vals : List Val) (ds : List Diag)
    (h : (splatFinish sv sm rt vals ds).2 = []) : ds = [] := by
  unfold splatFinish at h
  split at h
  · split at h
    · split at h
      · simp only [List.append_eq_nil_iff] at h; exact h.1
      · simp at h
    · split at h
      · exact h
      · simp at h
  · exact h

theorem splatFinish_rel (sv sv' : Val) (sm sm' : Fl) (rt rt' : Ty × List Diag) (vals vals' : List Val)
    (ds ds' : List Diag) (hc : relC sv sv' = true) (hv : relL vals vals' = true)
    (hty : typeOf (splatFinish sv sm rt vals ds).1 = typeOf (splatFinish sv' sm' rt' vals' ds').1)
    (h1 : (splatFinish sv sm rt vals ds).2 = []) (h2 : (splatFinish sv' sm' rt' vals' ds').2 = []) :
    relV (splatFinish sv sm rt vals ds).1 (splatFinish sv' sm' rt' vals' ds').1 = true := by
  cases sv <;> cases sv' <;> simp [relC] at hc <;> simp only [splatFinish] at h1 h2 hty ⊢ <;>
    (try (simp [relV, withFl, setFl, hv]; done))
  -- list
  cases vals with
  | nil =>
    cases vals' with
    | cons _ _ => simp [relL] at hv
    | nil =>
      simp only [] at h1 h2 hty ⊢
      cases hrt : rt.1 <;> simp only [hrt] at h1 hty ⊢ <;> (try (simp at h1; done))
      cases hrt' : rt'.1 <;> simp only [hrt'] at h2 hty ⊢ <;> (try (simp at h2; done))
      simp [typeOf, withFl, setFl] at hty
      simp [relV, withFl, setFl, hty, relL]
  | cons v vs =>
    cases vals' with
    | nil => simp [relL] at hv
    | cons v' vs' =>
      simp only [] at h1 h2 hty ⊢
      split at h1
      · split at h2
        · rename_i ha ha'
          simp only [ha, ha', if_true] at hty ⊢
          simp [typeOf, withFl, setFl] at hty
          simp [relV, withFl, setFl, hty, hv]
        · simp at h2
      · simp at h1

/-- the items a splat iterates over (after the automatic upgrade of a non-sequence to a one-element tuple) -/
def splatElems (sv : Val) : List Val := splatItems (splatSrc sv).unmark.1

theorem splatOut_rel (so so' : Out) (each each' : Val → Out) (hr : relV so.1 so'.1 = true)
    (hty : bm so.1 so'.1 ∨ typeOf (splatOut true so each).1 = typeOf (splatOut true so' each').1)
    (heach : ¬ bm so.1 so'.1 → ∀ p ∈ (splatElems so.1).zip (splatElems so'.1), relV p.1 p.2 = true →
      (each p.1).2 = [] → (each' p.2).2 = [] → relV (each p.1).1 (each' p.2).1 = true)
    (h1 : (splatOut true so each).2 = []) (h2 : (splatOut true so' each').2 = []) :
    relV (splatOut true so each).1 (splatOut true so' each').1 = true := by
  obtain ⟨sv, sd⟩ := so
  obtain ⟨sv', sd'⟩ := so'
  simp only [] at hr hty heach
  by_cases hb : bm sv sv'
  · exact relV_top (splatOut_marked _ _ _ _ hb.1 h1) (splatOut_marked _ _ _ _ hb.2 h2)
  have hty : typeOf (splatOut true (sv, sd) each).1 = typeOf (splatOut true (sv', sd') each').1 := by
    rcases hty with h | h
    · exact absurd h hb
    · exact h
  have heach := heach hb
  have rc : relC sv sv' = true := by
    rcases relV_cases hr with h | h
    · exact absurd h hb
    · exact h
  rw [splatOut_eq] at h1 h2 hty ⊢
  rw [splatOut_eq] at hty ⊢
  simp only [] at h1 h2 hty ⊢
  have hau := relC_splatAutoUp rc
  have hnl := relC_isNull rc
  have hdy := relC_typeOf_dyn rc
  have hkn := relC_isKnown rc
  have rc2 := relC_splatSrc rc
  have hkn2 := relC_isKnown rc2
  rw [← hau, ← hnl, ← hdy, ← hkn, ← hkn2] at h2 hty ⊢
  cases sd with
  | cons d sd => simp [hasErrors] at h1
  | nil =>
  cases sd' with
  | cons d sd' => simp [hasErrors] at h2
  | nil =>
  simp only [hasErrors, List.isEmpty_nil, Bool.not_true, Bool.false_eq_true, if_false, List.nil_append] at h1 h2 hty ⊢
  cases hn : sv.isNull
  · simp only [hn, Bool.false_eq_true, if_false] at h1 h2 hty ⊢
    cases hd : (sv.typeOf == Ty.dyn)
    · simp only [hd, Bool.false_eq_true, if_false] at h1 h2 hty ⊢
      cases hk2 : (splatSrc sv).isKnown
      · simp only [hk2, Bool.not_false, if_true] at h1 h2 hty ⊢
        simp [typeOf, withFl, setFl] at hty
        simp [relV, withFl, setFl, hty]
      · simp only [hk2, Bool.not_true, Bool.false_eq_true, if_false] at h1 h2 hty ⊢
        cases hu : (splatAutoUp sv && !sv.isKnown)
        · simp only [hu, Bool.false_eq_true, if_false] at h1 h2 hty ⊢
          have hfl : ∀ (rs : List Out) (v : Val) (f : Fl) (rt : Ty × List Diag) (sv3 : Val),
              (if (!(rs.all fun r => !hasErrors r.2)) = true then
                  ((v.withFl f, if true = true then rs.flatMap (·.2) ++ rt.2 else rs.flatMap (·.2)) : Out)
                else splatFinish sv3 f rt (rs.map (·.1)) (rs.flatMap (·.2))).2 = [] → rs.flatMap (·.2) = [] := by
            intro rs v f rt sv3 h
            split at h
            · simp only [if_true, List.append_eq_nil_iff] at h; exact h.1
            · exact splatFinish_diags _ _ _ _ _ h
          have d1 := hfl _ _ _ _ _ h1
          have d2 := hfl _ _ _ _ _ h2
          have a1 := flatMap_nil_all _ d1
          have a2 := flatMap_nil_all _ d2
          simp only [hasErrors] at a1 a2
          simp only [a1, a2, Bool.not_true, Bool.false_eq_true, if_false] at h1 h2 hty ⊢
          have rc3 : relC (splatSrc sv).unmark.1 (splatSrc sv').unmark.1 = true := by simpa using rc2
          apply splatFinish_rel _ _ _ _ _ _ _ _ _ _ rc3 _ hty h1 h2
          apply relL_map_fst each each' (relC_splatItems rc3)
          intro p hp hrel
          simp only [List.flatMap_eq_nil_iff, List.mem_map, forall_exists_index, and_imp, forall_apply_eq_imp_iff₂] at d1 d2
          exact heach p hp hrel (d1 p.1 (List.of_mem_zip hp).1) (d2 p.2 (List.of_mem_zip hp).2)
        · simp only [hu, if_true]
          simp [relV, dynVal, withFl, setFl]
    · simp only [hd, if_true]
      simp [relV, dynVal, withFl, setFl]
  · simp only [hn, if_true] at h1 h2 hty ⊢
    cases ha : splatAutoUp sv
    · simp [ha] at h1
    · simp [ha, relV, withFl, setFl, relL]
theorem splatOut_nil {keep : Bool} {so : Out} {each : Val → Out} (h : (splatOut keep so each).2 = []) : so.2 = [] := by
  obtain ⟨sv, sd⟩ := so
  rw [splatOut_eq] at h
  cases sd with
  | nil => rfl
  | cons d sd => simp [hasErrors] at h
end HclModel.Proofs
