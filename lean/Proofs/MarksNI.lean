import Proofs.MarksStable
/-!
# C06: noninterference of expression evaluation
-/
set_option linter.unusedSimpArgs false
namespace HclModel.Proofs
open Val

/-! ### scopes -/

theorem relEnv_lookup : ∀ {ρ σ : Env}, relEnv ρ σ → ∀ x,
    (ρ.lookup x = none ∧ σ.lookup x = none) ∨ ∃ a b, ρ.lookup x = some a ∧ σ.lookup x = some b ∧ relV a b = true
  | [], [], _, x => by simp [Env.lookup, lookupKey]
  | [], _ :: _, h, _ => by simp [relEnv] at h
  | _ :: _, [], h, _ => by simp [relEnv] at h
  | (k, a) :: ρ, (l, b) :: σ, h, x => by
    simp only [relEnv] at h
    obtain ⟨rfl, hab, hr⟩ := h
    simp only [Env.lookup, lookupKey]
    by_cases hx : x = k
    · right; exact ⟨a, b, by simp [hx], by simp [hx], hab⟩
    · simpa [hx, Env.lookup] using relEnv_lookup hr x

theorem relEnv_cons {ρ σ : Env} (x : String) {a b : Val} (hab : relV a b = true) (h : relEnv ρ σ) :
    relEnv ((x, a) :: ρ) ((x, b) :: σ) := by
  simp [relEnv, hab, h]

theorem relEnv_bindIter {ρ σ : Env} (kv vv : String) {k k' v v' : Val} (hk : relV k k' = true)
    (hv : relV v v' = true) (h : relEnv ρ σ) : relEnv (bindIter ρ kv vv k v) (bindIter σ kv vv k' v') := by
  unfold bindIter
  split
  · exact relEnv_cons _ hv h
  · exact relEnv_cons _ hv (relEnv_cons _ hk h)

/-! ### sub-evaluations of an error-free evaluation are error-free -/

theorem getAttrOut_nil' {o : Out} {name : String} (h : (getAttrOut o name).2 = []) : o.2 = [] :=
  (getAttrOut_nil (v := o.1) (ds := o.2) h).1

theorem evalUn_nil' {op : UnOp} {o : Out} (h : (evalUn op o).2 = []) : o.2 = [] :=
  (evalUn_nil (g := o.1) (ds := o.2) h).1

theorem evalBin_nil' {op : BinOp} {lo ro : Out} (h : (evalBin true op lo ro).2 = []) : lo.2 = [] ∧ ro.2 = [] :=
  have := evalBin_nil (gl := lo.1) (ld := lo.2) (gr := ro.1) (rd := ro.2) h
  ⟨this.1, this.2.1⟩

theorem condPick_cd {rty : Ty} {ms : Fl} {cd : List Diag} {v : Val} {ds : List Diag} {site : String}
    (h : (condPick rty ms cd v ds site).2 = []) : cd = [] := by
  unfold condPick at h
  split at h <;> simp_all

theorem evalCondCore_cd {co to fo : Out} (h : (evalCondCore co to fo).2 = []) : co.2 = [] := by
  obtain ⟨cv, cd⟩ := co
  obtain ⟨tv, td⟩ := to
  obtain ⟨fv, fd⟩ := fo
  rw [evalCondCore_eq] at h
  cases hu : unifyCond tv fv with
  | error e => cases e <;> simp [hu] at h
  | ok o =>
    cases o with
    | none => simp [hu] at h
    | some rty =>
      simp only [hu] at h
      split at h
      · simp at h
      · split at h
        · unfold condUnknown at h
          split at h
          · exact h
          · split at h <;> (try split at h) <;> simp_all
        · unfold condKnown at h
          split at h
          · simp at h
          · split at h
            · exact condPick_cd h
            · exact condPick_cd h
            · exact h

theorem evalCond_nil' {co to fo : Out} (h : (evalCond true co to fo).2 = []) :
    co.2 = [] ∧ to.2 = [] ∧ fo.2 = [] := by
  obtain ⟨a, b, c, -⟩ := evalCond_nil h
  exact ⟨evalCondCore_cd a, b, c⟩

/-! ### the theorem -/

mutual
theorem ni_eval (F : Funcs) (hF : LawfulFuncs F) : ∀ (e : Expr) (ρ σ : Env), relEnv ρ σ →
    Stable (strictCx F) e ρ σ → (eval (strictCx F) ρ e).2 = [] → (eval (strictCx F) σ e).2 = [] →
    relV (eval (strictCx F) ρ e).1 (eval (strictCx F) σ e).1 = true
  | .lit v, ρ, σ, _, _, _, _ => by simp [eval_lit, relV_refl]
  | .var x, ρ, σ, hρ, _, h1, h2 => by
    rw [eval_var] at h1 h2 ⊢
    rw [eval_var]
    rcases relEnv_lookup hρ x with ⟨e1, e2⟩ | ⟨a, b, e1, e2, hab⟩
    · simp [e1] at h1
    · simp [e1, e2, hab]
  | .getAttr e name, ρ, σ, hρ, hs, h1, h2 => by
    simp only [Stable] at hs
    rw [eval_getAttr] at h1 h2 ⊢
    rw [eval_getAttr]
    exact getAttrOut_rel _ _ name (ni_eval F hF e ρ σ hρ hs (getAttrOut_nil' h1) (getAttrOut_nil' h2)) h1 h2
  | .index e k, ρ, σ, hρ, hs, h1, h2 => by
    simp only [Stable] at hs
    rw [eval_index] at h1 h2 ⊢
    rw [eval_index]
    have a := indexOut_nil h1
    have b := indexOut_nil h2
    exact indexOut_rel _ _ _ _ (ni_eval F hF e ρ σ hρ hs.1 a.1 b.1) (ni_eval F hF k ρ σ hρ hs.2.1 a.2.1 b.2.1)
      hs.2.2 h1 h2
  | .bin op l r, ρ, σ, hρ, hs, h1, h2 => by
    simp only [Stable] at hs
    rw [eval_bin] at h1 h2 ⊢
    rw [eval_bin]
    have a := evalBin_nil' h1
    have b := evalBin_nil' h2
    exact evalBin_rel op _ _ _ _ (ni_eval F hF l ρ σ hρ hs.1 a.1 b.1) (ni_eval F hF r ρ σ hρ hs.2 a.2 b.2) h1 h2
  | .un op e, ρ, σ, hρ, hs, h1, h2 => by
    simp only [Stable] at hs
    rw [eval_un] at h1 h2 ⊢
    rw [eval_un]
    exact evalUn_rel op _ _ (ni_eval F hF e ρ σ hρ hs.1 (evalUn_nil' h1) (evalUn_nil' h2)) hs.2 h1 h2
  | .cond c t f, ρ, σ, hρ, hs, h1, h2 => by
    simp only [Stable] at hs
    rw [eval_cond] at h1 h2 ⊢
    rw [eval_cond]
    have a := evalCond_nil' h1
    have b := evalCond_nil' h2
    exact evalCond_rel _ _ _ _ _ _ (ni_eval F hF c ρ σ hρ hs.1 a.1 b.1) (ni_eval F hF t ρ σ hρ hs.2.1 a.2.1 b.2.1)
      (ni_eval F hF f ρ σ hρ hs.2.2.1 a.2.2 b.2.2) hs.2.2.2 h1 h2
  | .tuple es, ρ, σ, hρ, hs, h1, h2 => by
    simp only [Stable] at hs
    rw [eval_tuple] at h1 h2 ⊢
    rw [eval_tuple]
    simp only [relV]
    simp [ni_list F hF es ρ σ hρ hs h1 h2]
  | .object items, ρ, σ, hρ, hs, h1, h2 => by
    simp only [Stable] at hs
    rw [eval_object] at h1 h2 ⊢
    rw [eval_object]
    rw [objectOut_diags] at h1 h2
    exact objectOut_rel (ni_items F hF items ρ σ hρ hs h1 h2)
  | .forTuple kv vv coll val none, ρ, σ, hρ, hs, h1, h2 => by
    simp only [Stable] at hs
    rw [eval_forTuple] at h1 h2 ⊢
    rw [eval_forTuple]
    simp only [Option.map_none] at h1 h2 ⊢
    have a := forOut_nil forTupleFin_diags (forTupleStep_diags _ _) h1
    have b := forOut_nil forTupleFin_diags (forTupleStep_diags _ _) h2
    refine forTuple_rel _ _ _ _ _ _ _ _ ?_ ?_ ?_ ?_ h1 h2
    · exact ni_eval F hF coll ρ σ hρ hs.1 a b
    · exact hs.2.1
    · rfl
    intro hb els els' e1 e2 p hp hrel
    have hst := hs.2.2 hb p (by simp only [iterEls, e1, e2, Option.getD_some]; exact hp)
    refine ⟨fun d1 d2 => ni_eval F hF val _ _ (relEnv_bindIter kv vv hrel.1 hrel.2 hρ) hst d1 d2, ?_⟩
    intro c c' hcn; cases hcn
  | .forTuple kv vv coll val (some ce), ρ, σ, hρ, hs, h1, h2 => by
    simp only [Stable] at hs
    rw [eval_forTuple] at h1 h2 ⊢
    rw [eval_forTuple]
    simp only [Option.map_some] at h1 h2 ⊢
    have a := forOut_nil forTupleFin_diags (forTupleStep_diags _ _) h1
    have b := forOut_nil forTupleFin_diags (forTupleStep_diags _ _) h2
    refine forTuple_rel _ _ _ _ _ _ _ _ ?_ ?_ ?_ ?_ h1 h2
    · exact ni_eval F hF coll ρ σ hρ hs.1 a b
    · exact hs.2.1
    · rfl
    intro hb els els' e1 e2 p hp hrel
    have hst := hs.2.2 hb p (by simp only [iterEls, e1, e2, Option.getD_some]; exact hp)
    refine ⟨fun d1 d2 => ni_eval F hF val _ _ (relEnv_bindIter kv vv hrel.1 hrel.2 hρ) hst.1 d1 d2, ?_⟩
    intro c c' hc hc' d1 d2
    cases hc; cases hc'
    exact ni_eval F hF ce _ _ (relEnv_bindIter kv vv hrel.1 hrel.2 hρ) hst.2 d1 d2
  | .forObject kv vv coll key val none g, ρ, σ, hρ, hs, h1, h2 => by
    simp only [Stable] at hs
    rw [eval_forObject] at h1 h2 ⊢
    rw [eval_forObject]
    simp only [Option.map_none] at h1 h2 ⊢
    have a := forOut_nil (forObjectFin_diags g) (forObjectStep_diags _ _ _ _) h1
    have b := forOut_nil (forObjectFin_diags g) (forObjectStep_diags _ _ _ _) h2
    refine forObject_rel g _ _ _ _ _ _ _ _ _ _ ?_ ?_ ?_ ?_ h1 h2
    · exact ni_eval F hF coll ρ σ hρ hs.1 a b
    · exact hs.2.1
    · rfl
    intro hb els els' e1 e2 p hp hrel
    have hst := hs.2.2 hb p (by simp only [iterEls, e1, e2, Option.getD_some]; exact hp)
    refine ⟨fun d1 d2 => ni_eval F hF key _ _ (relEnv_bindIter kv vv hrel.1 hrel.2 hρ) hst.1 d1 d2,
      fun d1 d2 => ni_eval F hF val _ _ (relEnv_bindIter kv vv hrel.1 hrel.2 hρ) hst.2 d1 d2, ?_⟩
    intro c c' hcn; cases hcn
  | .forObject kv vv coll key val (some ce) g, ρ, σ, hρ, hs, h1, h2 => by
    simp only [Stable] at hs
    rw [eval_forObject] at h1 h2 ⊢
    rw [eval_forObject]
    simp only [Option.map_some] at h1 h2 ⊢
    have a := forOut_nil (forObjectFin_diags g) (forObjectStep_diags _ _ _ _) h1
    have b := forOut_nil (forObjectFin_diags g) (forObjectStep_diags _ _ _ _) h2
    refine forObject_rel g _ _ _ _ _ _ _ _ _ _ ?_ ?_ ?_ ?_ h1 h2
    · exact ni_eval F hF coll ρ σ hρ hs.1 a b
    · exact hs.2.1
    · rfl
    intro hb els els' e1 e2 p hp hrel
    have hst := hs.2.2 hb p (by simp only [iterEls, e1, e2, Option.getD_some]; exact hp)
    refine ⟨fun d1 d2 => ni_eval F hF key _ _ (relEnv_bindIter kv vv hrel.1 hrel.2 hρ) hst.1 d1 d2,
      fun d1 d2 => ni_eval F hF val _ _ (relEnv_bindIter kv vv hrel.1 hrel.2 hρ) hst.2.1 d1 d2, ?_⟩
    intro c c' hc hc' d1 d2
    cases hc; cases hc'
    exact ni_eval F hF ce _ _ (relEnv_bindIter kv vv hrel.1 hrel.2 hρ) hst.2.2 d1 d2
  | .splat anon src each, ρ, σ, hρ, hs, h1, h2 => by
    simp only [Stable] at hs
    rw [eval_splat] at hs
    rw [eval_splat] at hs
    rw [eval_splat] at h1 h2 ⊢
    rw [eval_splat]
    refine splatOut_rel _ _ _ _ ?_ ?_ ?_ h1 h2
    · exact ni_eval F hF src ρ σ hρ hs.1 (splatOut_nil h1) (splatOut_nil h2)
    · exact hs.2.1
    · intro hb p hp hrel d1 d2
      exact ni_eval F hF each _ _ (relEnv_cons anon hrel hρ) (hs.2.2 hb p hp) d1 d2
  | .template parts, ρ, σ, hρ, hs, h1, h2 => by
    simp only [Stable] at hs
    rw [eval_template] at h1 h2 ⊢
    rw [eval_template]
    exact template_rel _ _ (ni_each F hF parts ρ σ hρ hs (template_nil _ h1) (template_nil _ h2)) h1 h2
  | .tjoin t, ρ, σ, hρ, hs, h1, h2 => by
    simp only [Stable] at hs
    rw [eval_tjoin] at h1 h2 ⊢
    rw [eval_tjoin]
    exact tjoinOut_rel _ _ (ni_eval F hF t ρ σ hρ hs.1 (tjoinOut_nil h1) (tjoinOut_nil h2)) hs.2.1 hs.2.2 h1 h2
  | .call fn args none, ρ, σ, hρ, hs, h1, h2 => by
    simp only [Stable] at hs
    rw [eval_call] at h1 h2 ⊢
    rw [eval_call]
    simp only [strictCx] at h1 h2 ⊢
    cases hfn : F fn with
    | none => simp [hfn] at h1
    | some spec =>
      simp only [hfn] at h1 h2 ⊢
      refine callOut_rel spec (hF.impl_erased fn spec hfn) (hF.retTy_erased fn spec hfn) _ _ _ _ ?_ ?_ h1 h2
      · intro n1 n2
        exact ni_each F hF args ρ σ hρ hs (callOut_outs_nil h1 n1) (callOut_outs_nil h2 n2)
      · left; simp [relL]
  | .call fn args (some le), ρ, σ, hρ, hs, h1, h2 => by
    simp only [Stable] at hs
    rw [eval_call] at h1 h2 ⊢
    rw [eval_call]
    simp only [strictCx] at h1 h2 ⊢
    cases hfn : F fn with
    | none => simp [hfn] at h1
    | some spec =>
      simp only [hfn] at h1 h2 ⊢
      refine callOut_rel spec (hF.impl_erased fn spec hfn) (hF.retTy_erased fn spec hfn) _ _ _ _ ?_ ?_ h1 h2
      · intro n1 n2
        exact ni_each F hF args ρ σ hρ hs.1 (callOut_outs_nil h1 n1) (callOut_outs_nil h2 n2)
      · exact expandOut_ExpRel _ _ (ni_eval F hF le ρ σ hρ hs.2.1 (callOut_expand_nil h1) (callOut_expand_nil h2))
          hs.2.2.1 hs.2.2.2
theorem ni_list (F : Funcs) (hF : LawfulFuncs F) : ∀ (es : List Expr) (ρ σ : Env), relEnv ρ σ →
    StableList (strictCx F) es ρ σ → (evalList (strictCx F) ρ es).2 = [] → (evalList (strictCx F) σ es).2 = [] →
    relL (evalList (strictCx F) ρ es).1 (evalList (strictCx F) σ es).1 = true
  | [], _, _, _, _, _, _ => by simp [evalList, relL]
  | e :: es, ρ, σ, hρ, hs, h1, h2 => by
    simp only [StableList] at hs
    rw [evalList_cons] at h1 h2 ⊢
    rw [evalList_cons]
    simp only [List.append_eq_nil_iff] at h1 h2
    simp only [relL, Bool.and_eq_true]
    exact ⟨ni_eval F hF e ρ σ hρ hs.1 h1.1 h2.1, ni_list F hF es ρ σ hρ hs.2 h1.2 h2.2⟩
theorem ni_each (F : Funcs) (hF : LawfulFuncs F) : ∀ (es : List Expr) (ρ σ : Env), relEnv ρ σ →
    StableList (strictCx F) es ρ σ → (∀ o ∈ evalEach (strictCx F) ρ es, o.2 = []) →
    (∀ o ∈ evalEach (strictCx F) σ es, o.2 = []) →
    relOuts (evalEach (strictCx F) ρ es) (evalEach (strictCx F) σ es)
  | [], _, _, _, _, _, _ => by simp only [evalEach]; exact .nil
  | e :: es, ρ, σ, hρ, hs, h1, h2 => by
    simp only [StableList] at hs
    rw [evalEach_cons] at h1 h2 ⊢
    rw [evalEach_cons]
    exact .cons (ni_eval F hF e ρ σ hρ hs.1 (h1 _ (by simp)) (h2 _ (by simp)))
      (ni_each F hF es ρ σ hρ hs.2 (fun o ho => h1 o (by simp [ho])) (fun o ho => h2 o (by simp [ho])))
theorem ni_items (F : Funcs) (hF : LawfulFuncs F) : ∀ (items : List (Expr × Expr)) (ρ σ : Env), relEnv ρ σ →
    StableItems (strictCx F) items ρ σ → (evalItems (strictCx F) ρ items).1.diags = [] →
    (evalItems (strictCx F) σ items).1.diags = [] →
    IInv (evalItems (strictCx F) ρ items) (evalItems (strictCx F) σ items)
  | [], _, _, _, _, _, _ => by simp only [evalItems]; exact IInv_init
  | (ke, ve) :: rest, ρ, σ, hρ, hs, h1, h2 => by
    simp only [StableItems] at hs
    rw [evalItems_cons] at h1 h2 ⊢
    rw [evalItems_cons]
    obtain ⟨a1, a2, a3⟩ := itemStep_diags h1
    obtain ⟨b1, b2, b3⟩ := itemStep_diags h2
    exact itemStep_inv (ni_items F hF rest ρ σ hρ hs.2.2.2 a3 b3) (ni_eval F hF ke ρ σ hρ hs.1 a1 b1) hs.2.2.1
      (ni_eval F hF ve ρ σ hρ hs.2.1 a2 b2) h1 h2
end

end HclModel.Proofs
