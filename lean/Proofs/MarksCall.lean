import Proofs.MarksSplat
/-!
C06: function calls (`callFunc`, `convertArgs`, expansion of the final argument).
-/
set_option linter.unusedSimpArgs false
namespace HclModel.Proofs
open Val

mutual
theorem relV_of_eqErased : ∀ (a b : Val), eqErased a b = true → relV a b = true
  | .unk _ _, b, h | .null _ _, b, h | .str _ _, b, h | .num _ _, b, h | .bool _ _, b, h => by
    cases b <;> simp_all [eqErased, relV]
  | .list _ t xs, b, h => by
    cases b <;> simp_all [eqErased, relV]
    exact Or.inr (relL_of_eqErased xs _ h.2)
  | .tuple _ xs, b, h => by
    cases b <;> simp_all [eqErased, relV]
    exact Or.inr (relL_of_eqErased xs _ h)
  | .map _ t xs, b, h => by
    cases b <;> simp_all [eqErased, relV]
    exact Or.inr (relF_of_eqErased xs _ h.2)
  | .object _ xs, b, h => by
    cases b <;> simp_all [eqErased, relV]
    exact Or.inr (relF_of_eqErased xs _ h)
theorem relL_of_eqErased : ∀ (xs ys : List Val), eqErasedList xs ys = true → relL xs ys = true
  | [], ys, h => by cases ys <;> simp_all [eqErasedList, relL]
  | x :: xs, ys, h => by
    cases ys with
    | nil => simp [eqErasedList] at h
    | cons y ys =>
      simp only [eqErasedList, Bool.and_eq_true] at h
      simp [relL, relV_of_eqErased x y h.1, relL_of_eqErased xs ys h.2]
theorem relF_of_eqErased : ∀ (xs ys : List (String × Val)), eqErasedFields xs ys = true → relF xs ys = true
  | [], ys, h => by cases ys <;> simp_all [eqErasedFields, relF]
  | (k, x) :: xs, ys, h => by
    cases ys with
    | nil => simp [eqErasedFields] at h
    | cons y ys =>
      obtain ⟨l, y⟩ := y
      simp only [eqErasedFields, Bool.and_eq_true, beq_iff_eq] at h
      simp [relF, h.1.1, relV_of_eqErased x y h.1.2, relF_of_eqErased xs ys h.2]
end

theorem eqErasedAll_eq : ∀ (xs ys : List Val), eqErasedAll xs ys = eqErasedList xs ys
  | [], [] => by simp [eqErasedAll, eqErasedList]
  | [], _ :: _ => by simp [eqErasedAll, eqErasedList]
  | _ :: _, [] => by simp [eqErasedAll, eqErasedList]
  | x :: xs, y :: ys => by simp [eqErasedAll, eqErasedList, eqErasedAll_eq xs ys]

theorem fold_flags (args : List Val) (f0 : Fl) :
    args.foldl (fun f a => f.join (Val.flagsDeep a)) f0 = f0.join (flagsDeepList args) := by
  induction args generalizing f0 with
  | nil => simp [flagsDeepList]
  | cons a as ih => simp [List.foldl_cons, ih, flagsDeepList, join_assoc]

theorem eqErasedList_unmarkDeep : ∀ (xs ys : List Val),
    eqErasedList (xs.map unmarkDeep) (ys.map unmarkDeep) = eqErasedList xs ys
  | [], [] => by simp [eqErasedList]
  | [], _ :: _ => by simp [eqErasedList]
  | _ :: _, [] => by simp [eqErasedList]
  | x :: xs, y :: ys => by simp [eqErasedList, eqErased_unmarkDeep, eqErasedList_unmarkDeep xs ys]

/-- tests on argument lists that do not look at flags -/
theorem any_eqErased (p : Val → Bool) (hp : ∀ a, p (er a) = p a) : ∀ (xs ys : List Val),
    eqErasedList xs ys = true → xs.any p = ys.any p
  | [], [], _ => rfl
  | [], _ :: _, h => by simp [eqErasedList] at h
  | _ :: _, [], h => by simp [eqErasedList] at h
  | x :: xs, y :: ys, h => by
    simp only [eqErasedList, Bool.and_eq_true] at h
    have := er_eq_of_eqErased x y h.1
    simp only [List.any_cons, any_eqErased p hp xs ys h.2]
    rw [← hp x, ← hp y, this]

theorem callFunc_marked (spec : FuncSpec) (args : List Val) (v : Val) (hm : hasMarkDeepList args = true)
    (h : callFunc spec args = .ok v) : v.fl.m = true := by
  unfold callFunc at h
  have hf : (args.foldl (fun f a => f.join (Val.flagsDeep a)) Fl.none).m = true := by
    rw [fold_flags]; simpa [← hasMarkDeepList_eq] using hm
  split at h
  · exc
  · simp only [] at h
    split at h
    · simp only [pure, Except.pure] at h; cases h; simp [hf]
    · split at h
      · simp only [pure, Except.pure] at h; cases h; simp [hf]
      · simp only [bind, Except.bind] at h
        split at h
        · cases h
        · simp only [pure, Except.pure] at h; cases h; simp [hf]

theorem callFunc_rel (spec : FuncSpec)
    (himpl : ∀ args args', eqErasedAll args args' = true →
      (match spec.impl args, spec.impl args' with
       | .ok r, .ok r' => Val.eqErased r r' = true ∧ r.fl = r'.fl ∧ Val.hasMarkDeep r = false
       | .error _, .error _ => True
       | _, _ => False))
    (hret : ∀ args args', eqErasedAll args args' = true → spec.retTy args = spec.retTy args')
    (args args' : List Val) (v v' : Val) (hr : relL args args' = true)
    (h1 : callFunc spec args = .ok v) (h2 : callFunc spec args' = .ok v') : relV v v' = true := by
  cases he : eqErasedList args args'
  · have := rel_differ_markedL args args' hr he
    exact relV_top (callFunc_marked spec args v this.1 h1) (callFunc_marked spec args' v' this.2 h2)
  · have hu : eqErasedAll (args.map unmarkDeep) (args'.map unmarkDeep) = true := by
      rw [eqErasedAll_eq, eqErasedList_unmarkDeep]; exact he
    have a1 := any_eqErased Val.isNull isNull_er args args' he
    have a2 := any_eqErased (fun a => a.typeOf == .dyn) (by intro a; simp [typeOf_er]) args args' he
    have a3 := any_eqErased (fun a => !a.isKnown) (by intro a; simp) args args' he
    unfold callFunc at h1 h2
    rw [← a1, ← a2, ← a3] at h2
    split at h1
    · exc
    · rename_i hn
      simp only [hn, if_false] at h2
      simp only [] at h1 h2
      split at h1
      · rename_i hd
        simp only [hd, if_true, pure, Except.pure] at h1 h2
        cases h1; cases h2; simp [relV, withFl, setFl]
      · rename_i hd
        simp only [hd, if_false] at h2
        split at h1
        · rename_i hk
          simp only [hk, if_true, pure, Except.pure] at h1 h2
          cases h1; cases h2
          simp [relV, withFl, setFl, hret _ _ hu]
        · rename_i hk
          simp only [hk, if_false, bind, Except.bind] at h1 h2
          have := himpl _ _ hu
          cases e1 : spec.impl (args.map unmarkDeep) with
          | error e => simp [e1] at h1
          | ok r =>
            cases e2 : spec.impl (args'.map unmarkDeep) with
            | error e => simp [e2] at h2
            | ok r' =>
              rw [e1, e2] at this
              simp only [e1, e2, pure, Except.pure] at h1 h2
              cases h1; cases h2
              exact relV_withFl (relV_of_eqErased _ _ this.1) _ _

def nextParam (spec : FuncSpec) (ps : List Ty) : Option Ty × List Ty :=
  match ps with
  | p :: ps' => (some p, ps')
  | [] => (spec.varParam, [])

theorem convertArgs_cons (spec : FuncSpec) (v : Val) (vs : List Val) (ps : List Ty) :
    convertArgs spec (v :: vs) ps =
      match (nextParam spec ps).1 with
      | none => (v :: (convertArgs spec vs (nextParam spec ps).2).1, (convertArgs spec vs (nextParam spec ps).2).2)
      | some t =>
        match tryConvert v t with
        | .ok v' => (v' :: (convertArgs spec vs (nextParam spec ps).2).1, (convertArgs spec vs (nextParam spec ps).2).2)
        | .error d => (v :: (convertArgs spec vs (nextParam spec ps).2).1,
            (if d.isUnsupported then d else ⟨"Invalid function argument", []⟩) :: (convertArgs spec vs (nextParam spec ps).2).2) := by
  rw [convertArgs.eq_def]; rfl

theorem convertArgs_fl (spec : FuncSpec) : ∀ (vs : List Val) (ps : List Ty),
    (convertArgs spec vs ps).1.map Val.fl = vs.map Val.fl
  | [], _ => by simp [convertArgs]
  | v :: vs, ps => by
    rw [convertArgs_cons]
    cases hp : (nextParam spec ps).1 with
    | none => simp [convertArgs_fl spec vs]
    | some t =>
      simp only []
      cases c : tryConvert v t with
      | ok x => simp [convertArgs_fl spec vs, tryConvert_fl c]
      | error d => simp [convertArgs_fl spec vs]

theorem convertArgs_rel (spec : FuncSpec) : ∀ (vs vs' : List Val) (ps : List Ty), relL vs vs' = true →
    (convertArgs spec vs ps).2 = [] → (convertArgs spec vs' ps).2 = [] →
    relL (convertArgs spec vs ps).1 (convertArgs spec vs' ps).1 = true
  | [], [], _, _, _, _ => by simp [convertArgs, relL]
  | [], _ :: _, _, h, _, _ => by simp [relL] at h
  | _ :: _, [], _, h, _, _ => by simp [relL] at h
  | v :: vs, v' :: vs', ps, h, h1, h2 => by
    simp only [relL, Bool.and_eq_true] at h
    rw [convertArgs_cons] at h1 h2 ⊢
    rw [convertArgs_cons]
    cases hp : (nextParam spec ps).1 with
    | none =>
      simp only [hp] at h1 h2 ⊢
      simp [relL, h.1, convertArgs_rel spec vs vs' _ h.2 h1 h2]
    | some t =>
      simp only [hp] at h1 h2 ⊢
      cases c1 : tryConvert v t with
      | error d => simp [c1] at h1
      | ok x =>
        cases c2 : tryConvert v' t with
        | error d => simp [c2] at h2
        | ok y =>
          simp only [c1, c2] at h1 h2 ⊢
          simp [relL, tryConvert_rel h.1 c1 c2, convertArgs_rel spec vs vs' _ h.2 h1 h2]

theorem hasMarkDeepList_of_top : ∀ (vs : List Val), vs.any (fun v => v.fl.m) = true → hasMarkDeepList vs = true
  | [], h => by simp at h
  | v :: vs, h => by
    simp only [List.any_cons, Bool.or_eq_true] at h
    simp only [hasMarkDeepList, Bool.or_eq_true]
    rcases h with h | h
    · exact Or.inl (hasMarkDeep_of_top h)
    · exact Or.inr (hasMarkDeepList_of_top vs h)

theorem any_top_of_map_fl {xs ys : List Val} (h : xs.map Val.fl = ys.map Val.fl) :
    xs.any (fun v => v.fl.m) = ys.any (fun v => v.fl.m) := by
  have : ∀ zs : List Val, zs.any (fun v => v.fl.m) = (zs.map Val.fl).any (fun f => f.m) := by
    intro zs; simp [List.any_map]; rfl
  rw [this xs, this ys, h]

def expandElems (ev : Val) : List Val := match ev with | .list _ _ xs => xs | .tuple _ xs => xs | _ => []

/-- how the expansions of the final argument in the two runs correspond -/
def ExpRel (x x' : Except Out (List Val × List Diag)) : Prop :=
  match x, x' with
  | .error o, .error o' => o.2 = [] → o'.2 = [] → relV o.1 o'.1 = true
  | .ok (xs, _), .ok (xs', _) =>
    relL xs xs' = true ∨ (xs ≠ [] ∧ xs' ≠ [] ∧ (∀ x ∈ xs, x.fl.m = true) ∧ ∀ x ∈ xs', x.fl.m = true)
  | .error o, .ok _ => o.2 ≠ []
  | .ok _, .error o => o.2 ≠ []

theorem expandOut_ok {ev : Val} {ed : List Diag} {xs : List Val} {d : List Diag}
    (h : expandOut (ev, ed) = .ok (xs, d)) :
    xs = (expandElems ev).map (fun x => x.withFl ev.fl) ∧ ev.isKnown = true ∧ (ev.typeOf == .dyn) = false := by
  unfold expandOut at h
  simp only [] at h
  split at h
  · cases h
  · split at h
    · split at h <;> cases h
    · rename_i hd
      split at h
      · split at h
        · cases h
        · split at h
          · cases h
          · rename_i hk
            simp only [unmark, Except.ok.injEq, Prod.mk.injEq] at h
            refine ⟨?_, by simpa using hk, by simpa using hd⟩
            rw [← h.1]
            cases ev <;> simp [expandElems, setFl]
      · split at h
        · cases h
        · split at h
          · cases h
          · rename_i hk
            simp only [unmark, Except.ok.injEq, Prod.mk.injEq] at h
            refine ⟨?_, by simpa using hk, by simpa using hd⟩
            rw [← h.1]
            cases ev <;> simp [expandElems, setFl]
      · cases h

theorem expandOut_err {ev : Val} {ed : List Diag} {o : Out} (h : expandOut (ev, ed) = .error o) (hd : o.2 = []) :
    o.1 = Val.dynVal ∧ ((ev.typeOf == .dyn) = true ∨ ev.isKnown = false) := by
  unfold expandOut at h
  simp only [] at h
  split at h
  · rename_i he; cases h; simp only [] at hd; subst hd; simp [hasErrors] at he
  · split at h
    · rename_i hdy
      split at h
      · cases h; simp at hd
      · cases h; exact ⟨rfl, Or.inl hdy⟩
    · split at h
      · split at h
        · cases h; simp at hd
        · split at h
          · rename_i hk; cases h; exact ⟨rfl, Or.inr (by simpa using hk)⟩
          · cases h
      · split at h
        · cases h; simp at hd
        · split at h
          · rename_i hk; cases h; exact ⟨rfl, Or.inr (by simpa using hk)⟩
          · cases h
      · cases h; simp at hd

theorem relC_expandElems {a b : Val} (h : relC a b = true) : relL (expandElems a) (expandElems b) = true := by
  cases a <;> cases b <;> simp_all [relC, expandElems, relL]

theorem relL_map_withFl : ∀ {xs ys : List Val} (f g : Fl), relL xs ys = true →
    relL (xs.map fun x => x.withFl f) (ys.map fun x => x.withFl g) = true
  | [], [], _, _, _ => by simp [relL]
  | [], _ :: _, _, _, h => by simp [relL] at h
  | _ :: _, [], _, _, h => by simp [relL] at h
  | x :: xs, y :: ys, f, g, h => by
    simp only [relL, Bool.and_eq_true] at h
    simp [relL, relV_withFl h.1, relL_map_withFl f g h.2]

theorem expandOut_ExpRel (eo eo' : Out) (hr : relV eo.1 eo'.1 = true) (hs : shapeEq eo.1 eo'.1)
    (hemp : bm eo.1 eo'.1 → (expandElems eo.1 = [] ↔ expandElems eo'.1 = [])) :
    ExpRel (expandOut eo) (expandOut eo') := by
  obtain ⟨ev, ed⟩ := eo
  obtain ⟨ev', ed'⟩ := eo'
  simp only [] at hr hs hemp
  cases h1 : expandOut (ev, ed) with
  | error o =>
    cases h2 : expandOut (ev', ed') with
    | error o' =>
      intro d1 d2
      rw [(expandOut_err h1 d1).1, (expandOut_err h2 d2).1]; exact relV_refl _
    | ok p =>
      obtain ⟨xs', d'⟩ := p
      intro d1
      have a := (expandOut_err h1 d1).2
      have b := expandOut_ok h2
      rw [hs.1, hs.2, b.2.1, b.2.2] at a
      simp at a
  | ok p =>
    obtain ⟨xs, d⟩ := p
    cases h2 : expandOut (ev', ed') with
    | error o' =>
      intro d2
      have a := (expandOut_err h2 d2).2
      have b := expandOut_ok h1
      rw [← hs.1, ← hs.2, b.2.1, b.2.2] at a
      simp at a
    | ok p' =>
      obtain ⟨xs', d'⟩ := p'
      have a := (expandOut_ok h1).1
      have b := (expandOut_ok h2).1
      subst a; subst b
      simp only [ExpRel]
      by_cases hb : bm ev ev'
      · by_cases he : expandElems ev = []
        · left; rw [he, (hemp hb).1 he]; simp [relL]
        · right
          refine ⟨by simpa using he, by simpa using (fun h => he ((hemp hb).2 h)), ?_, ?_⟩
          · intro x hx; simp only [List.mem_map] at hx; obtain ⟨y, _, rfl⟩ := hx; simp [hb.1]
          · intro x hx; simp only [List.mem_map] at hx; obtain ⟨y, _, rfl⟩ := hx; simp [hb.2]
      · left
        have rc : relC ev ev' = true := by
          rcases relV_cases hr with h | h
          · exact absurd h hb
          · exact h
        exact relL_map_withFl _ _ (relC_expandElems rc)

theorem relOuts_fst {outs outs' : List Out} (h : relOuts outs outs') :
    relL (outs.map (·.1)) (outs'.map (·.1)) = true := by
  induction h with
  | nil => simp [relL]
  | cons hab _ ih => simp [relL, hab, ih]

/-- what is known about an error-free call whose final argument expanded successfully -/
theorem callOut_ok_nil {spec : FuncSpec} {extra : List Val} {ed : List Diag} {outs : List Out}
    (h : (callOut spec (.ok (extra, ed)) outs).2 = []) :
    ed = [] ∧ outs.flatMap (·.2) = [] ∧ (convertArgs spec (outs.map (·.1) ++ extra) spec.params).2 = [] ∧
      ∃ v, callFunc spec (convertArgs spec (outs.map (·.1) ++ extra) spec.params).1 = .ok v ∧
        callOut spec (.ok (extra, ed)) outs = (v, []) := by
  unfold callOut at h ⊢
  simp only [] at h ⊢
  split at h
  · simp at h
  · split at h
    · simp at h
    · rename_i hn1 hn2
      simp only [hn1, hn2, if_false]
      split at h
      · rename_i he
        simp only [] at h
        rw [h] at he; simp [hasErrors] at he
      · rename_i he
        have hd : ed ++ outs.flatMap (·.2) ++ (convertArgs spec (outs.map (·.1) ++ extra) spec.params).2 = [] := by
          cases hh : ed ++ outs.flatMap (·.2) ++ (convertArgs spec (outs.map (·.1) ++ extra) spec.params).2 with
          | nil => rfl
          | cons d ds => rw [hh] at he; simp [hasErrors] at he
        simp only [List.append_eq_nil_iff] at hd
        refine ⟨hd.1.1, hd.1.2, hd.2, ?_⟩
        split at h
        · rename_i v hv
          refine ⟨v, hv, ?_⟩
          simp [hd.1.1, hd.1.2, hd.2, hv, hasErrors]
        · simp at h
        · simp at h

theorem callOut_rel (spec : FuncSpec)
    (himpl : ∀ args args', eqErasedAll args args' = true →
      (match spec.impl args, spec.impl args' with
       | .ok r, .ok r' => Val.eqErased r r' = true ∧ r.fl = r'.fl ∧ Val.hasMarkDeep r = false
       | .error _, .error _ => True
       | _, _ => False))
    (hret : ∀ args args', eqErasedAll args args' = true → spec.retTy args = spec.retTy args')
    (x x' : Except Out (List Val × List Diag)) (outs outs' : List Out)
    (hro : (∀ o, x ≠ .error o) → (∀ o, x' ≠ .error o) → relOuts outs outs')
    (hx : ExpRel x x') (h1 : (callOut spec x outs).2 = []) (h2 : (callOut spec x' outs').2 = []) :
    relV (callOut spec x outs).1 (callOut spec x' outs').1 = true := by
  cases x with
  | error o =>
    cases x' with
    | error o' => exact hx h1 h2
    | ok p => exact absurd h1 hx
  | ok p =>
    obtain ⟨extra, ed⟩ := p
    cases x' with
    | error o' => exact absurd h2 hx
    | ok p' =>
      obtain ⟨extra', ed'⟩ := p'
      have hro := hro (by intro o h; cases h) (by intro o h; cases h)
      obtain ⟨-, -, c1, v, f1, e1⟩ := callOut_ok_nil h1
      obtain ⟨-, -, c2, v', f2, e2⟩ := callOut_ok_nil h2
      rw [e1, e2]
      simp only [ExpRel] at hx
      rcases hx with hx | ⟨n1, n2, m1, m2⟩
      · have hargs : relL (outs.map (·.1) ++ extra) (outs'.map (·.1) ++ extra') = true :=
          relL_append (relOuts_fst hro) hx
        exact callFunc_rel spec himpl hret _ _ v v' (convertArgs_rel spec _ _ _ hargs c1 c2) f1 f2
      · have mk : ∀ (outs : List Out) (extra : List Val), extra ≠ [] → (∀ x ∈ extra, x.fl.m = true) →
            hasMarkDeepList (convertArgs spec (outs.map (·.1) ++ extra) spec.params).1 = true := by
          intro outs extra hne hm
          apply hasMarkDeepList_of_top
          rw [any_top_of_map_fl (convertArgs_fl spec _ _)]
          cases extra with
          | nil => exact absurd rfl hne
          | cons x xs => simp [hm x (by simp)]
        exact relV_top (callFunc_marked spec _ v (mk outs extra n1 m1) f1)
          (callFunc_marked spec _ v' (mk outs' extra' n2 m2) f2)

theorem expandOut_diags {ev : Val} {ed : List Diag} :
    (∀ o, expandOut (ev, ed) = .error o → o.2 = [] → ed = []) ∧
    (∀ xs d, expandOut (ev, ed) = .ok (xs, d) → d = ed) := by
  unfold expandOut
  simp only []
  constructor
  · intro o h hd
    split at h
    · cases h; exact hd
    · split at h
      · split at h <;> (cases h; simp_all)
      · split at h
        · split at h
          · cases h; simp_all
          · split at h
            · cases h; exact hd
            · cases h
        · split at h
          · cases h; simp_all
          · split at h
            · cases h; exact hd
            · cases h
        · cases h; simp_all
  · intro xs d h
    split at h
    · cases h
    · split at h
      · split at h <;> cases h
      · split at h
        · split at h
          · cases h
          · split at h
            · cases h
            · simp only [unmark, Except.ok.injEq, Prod.mk.injEq] at h; exact h.2.symm
        · split at h
          · cases h
          · split at h
            · cases h
            · simp only [unmark, Except.ok.injEq, Prod.mk.injEq] at h; exact h.2.symm
        · cases h

theorem callOut_expand_nil {spec : FuncSpec} {eo : Out} {outs : List Out}
    (h : (callOut spec (expandOut eo) outs).2 = []) : eo.2 = [] := by
  obtain ⟨ev, ed⟩ := eo
  cases hx : expandOut (ev, ed) with
  | error o =>
    rw [hx] at h
    exact expandOut_diags.1 o hx h
  | ok p =>
    obtain ⟨xs, d⟩ := p
    rw [hx] at h
    have := (callOut_ok_nil h).1
    rw [expandOut_diags.2 xs d hx] at this
    exact this

theorem callOut_outs_nil {spec : FuncSpec} {x : Except Out (List Val × List Diag)} {outs : List Out}
    (h : (callOut spec x outs).2 = []) (hx : ∀ o, x ≠ .error o) : ∀ o ∈ outs, o.2 = [] := by
  cases x with
  | error o => exact absurd rfl (hx o)
  | ok p =>
    obtain ⟨xs, d⟩ := p
    have := (callOut_ok_nil h).2.1
    simpa [List.flatMap_eq_nil_iff] using this
end HclModel.Proofs
