import Proofs.TaintSound
import HclModel.Expr.Codec
/-!
C19: the theorems behind `Props/C19.lean`.
-/
set_option linter.unusedSimpArgs false
set_option linter.unusedVariables false
set_option linter.unusedTactic false
namespace HclModel.Proofs
open Val

/-- No diagnostic echoes tainted content: side condition `fclean [] e`, any configuration (the Go one and
    the repaired ones alike). -/
theorem taint_partial (C : Cx) (hF : TaintFuncs C.funcs) (e : Expr) (ρ : Env) (hρ : twEnv ρ)
    (he : fclean [] e = true) : fragsClean (eval C ρ e).2 :=
  fsound C hF e [] ρ (envOK_of_twEnv hρ []) he

/-- The value of an expression exposes no taint. -/
theorem taint_value (C : Cx) (hF : TaintFuncs C.funcs) (e : Expr) (ρ : Env) (hρ : twEnv ρ)
    (he : vclean [] e = true) : tw false (eval C ρ e).1 = true :=
  vsound C hF e [] ρ (envOK_of_twEnv hρ []) he

theorem exactEnv_tw {ρ : Env} (h : exactEnv ρ) : twEnv ρ := fun p hp => (h p hp).2

theorem taintFuncs_empty : TaintFuncs (fun _ => none) := by
  intro fn spec h; cases h

/-- implementations that return values without flags (as go-cty's do: `function.Call` re-applies the marks
    afterwards) satisfy the assumption -/
theorem taintFuncs_of_flagFree (F : Funcs)
    (h : ∀ fn spec, F fn = some spec → ∀ args r, spec.impl args = .ok r → untainted r = true) : TaintFuncs F := by
  intro fn spec hs args r _ hr
  have := h fn spec hs args r hr
  unfold untainted at this
  exact tw_of_untainted r false (by simpa using this)

/-! ### the simple syntactic condition implies the analysis -/

theorem tw_of_flagFree {v : Val} (h : flagFree v = true) : tw false v = true := by
  unfold flagFree at h
  simp only [Bool.and_eq_true, Bool.not_eq_true'] at h
  exact tw_of_untainted v false h.1

theorem dropIter_nil (kv vv : String) : dropIter kv vv [] = [] := rfl

mutual
theorem vclean_of_simple : ∀ (e : Expr) (b : Bool), simple b e = true → vclean [] e = true
  | .lit v, b, h => by simp only [simple] at h; simp only [vclean]; exact tw_of_flagFree h
  | .var x, b, h => by simp [vclean]
  | .getAttr e _, b, h => by
    simp only [simple] at h; simp only [vclean]; exact vclean_of_simple e b h
  | .index e k, b, h => by
    simp only [simple, Bool.and_eq_true] at h
    simp only [vclean, Bool.and_eq_true]
    exact ⟨vclean_of_simple e b h.1, vclean_of_simple k b h.2⟩
  | .bin _ l r, b, h => by
    simp only [simple, Bool.and_eq_true] at h
    simp only [vclean, Bool.and_eq_true]
    exact ⟨vclean_of_simple l b h.1, vclean_of_simple r b h.2⟩
  | .un _ e, b, h => by
    simp only [simple] at h; simp only [vclean]; exact vclean_of_simple e b h
  | .cond c t f, b, h => by
    simp only [simple, Bool.and_eq_true] at h
    simp only [vclean, Bool.and_eq_true]
    exact ⟨⟨vclean_of_simple c b h.1.1, vclean_of_simple t b h.1.2⟩, vclean_of_simple f b h.2⟩
  | .tuple es, b, h => by
    simp only [simple] at h; simp only [vclean]; exact vcleanList_of_simple es b h
  | .object items, b, h => by
    simp only [simple] at h; simp only [vclean]; exact vcleanItems_of_simple items b h
  | .forTuple kv vv coll val none, b, h => by
    simp only [simple, Bool.and_eq_true, Bool.and_true] at h
    simp only [vclean, dropIter_nil, Bool.and_eq_true, Bool.and_true]
    exact ⟨vclean_of_simple coll b h.1, vclean_of_simple val true h.2⟩
  | .forTuple kv vv coll val (some ce), b, h => by
    simp only [simple, Bool.and_eq_true] at h
    simp only [vclean, dropIter_nil, Bool.and_eq_true]
    exact ⟨⟨vclean_of_simple coll b h.1.1, vclean_of_simple val true h.1.2⟩, vclean_of_simple ce true h.2⟩
  | .forObject kv vv coll key val none g, b, h => by
    simp only [simple, Bool.and_eq_true, Bool.and_true] at h
    simp only [vclean, dropIter_nil, Bool.and_eq_true, Bool.and_true]
    exact ⟨⟨vclean_of_simple coll b h.1.1.2, vclean_of_simple key true h.1.2⟩, vclean_of_simple val true h.2⟩
  | .forObject kv vv coll key val (some ce) g, b, h => by
    simp only [simple, Bool.and_eq_true] at h
    simp only [vclean, dropIter_nil, Bool.and_eq_true]
    exact ⟨⟨⟨vclean_of_simple coll b h.1.1.1.2, vclean_of_simple key true h.1.1.2⟩, vclean_of_simple val true h.1.2⟩,
      vclean_of_simple ce true h.2⟩
  | .splat anon src each, b, h => by
    simp only [simple, Bool.and_eq_true] at h
    simp only [vclean, List.filter_nil, Bool.and_eq_true]
    exact ⟨vclean_of_simple src b h.1, vclean_of_simple each true h.2⟩
  | .template parts, b, h => by
    simp only [simple] at h; simp only [vclean]; exact vcleanList_of_simple parts b h
  | .tjoin t, b, h => by
    simp only [simple] at h; simp only [vclean]; exact vclean_of_simple t b h
  | .call _ args none, b, h => by
    simp only [simple, Bool.and_true] at h
    simp only [vclean, Bool.and_true]; exact vcleanList_of_simple args b h
  | .call _ args (some ex), b, h => by
    simp only [simple, Bool.and_eq_true] at h
    simp only [vclean, Bool.and_eq_true]
    exact ⟨vcleanList_of_simple args b h.1, vclean_of_simple ex b h.2⟩
theorem vcleanList_of_simple : ∀ (es : List Expr) (b : Bool), simpleList b es = true → vcleanList [] es = true
  | [], _, _ => by simp [vcleanList]
  | e :: es, b, h => by
    simp only [simpleList, Bool.and_eq_true] at h
    simp only [vcleanList, Bool.and_eq_true]
    exact ⟨vclean_of_simple e b h.1, vcleanList_of_simple es b h.2⟩
theorem vcleanItems_of_simple : ∀ (items : List (Expr × Expr)) (b : Bool), simpleItems b items = true →
    vcleanItems [] items = true
  | [], _, _ => by simp [vcleanItems]
  | (k, v) :: rest, b, h => by
    simp only [simpleItems, Bool.and_eq_true] at h
    simp only [vcleanItems, Bool.and_eq_true]
    exact ⟨⟨vclean_of_simple k b h.1.1, vclean_of_simple v b h.1.2⟩, vcleanItems_of_simple rest b h.2⟩
end

mutual
/-- inside a loop body: no non-grouping object `for` at all, so nothing can be echoed whatever the scope -/
theorem fclean_of_simple_body : ∀ (e : Expr) (L : List String), simple true e = true → fclean L e = true
  | .lit v, L, h => by simp [fclean]
  | .var x, L, h => by simp [fclean]
  | .getAttr e _, L, h => by
    simp only [simple] at h; simp only [fclean]; exact fclean_of_simple_body e L h
  | .index e k, L, h => by
    simp only [simple, Bool.and_eq_true] at h
    simp only [fclean, Bool.and_eq_true]
    exact ⟨fclean_of_simple_body e L h.1, fclean_of_simple_body k L h.2⟩
  | .bin _ l r, L, h => by
    simp only [simple, Bool.and_eq_true] at h
    simp only [fclean, Bool.and_eq_true]
    exact ⟨fclean_of_simple_body l L h.1, fclean_of_simple_body r L h.2⟩
  | .un _ e, L, h => by
    simp only [simple] at h; simp only [fclean]; exact fclean_of_simple_body e L h
  | .cond c t f, L, h => by
    simp only [simple, Bool.and_eq_true] at h
    simp only [fclean, Bool.and_eq_true]
    exact ⟨⟨fclean_of_simple_body c L h.1.1, fclean_of_simple_body t L h.1.2⟩, fclean_of_simple_body f L h.2⟩
  | .tuple es, L, h => by
    simp only [simple] at h; simp only [fclean]; exact fcleanList_of_simple_body es L h
  | .object items, L, h => by
    simp only [simple] at h; simp only [fclean]; exact fcleanItems_of_simple_body items L h
  | .forTuple kv vv coll val none, L, h => by
    simp only [simple, Bool.and_eq_true, Bool.and_true] at h
    simp only [fclean, Bool.and_eq_true, Bool.and_true]
    exact ⟨fclean_of_simple_body coll L h.1, fclean_of_simple_body val _ h.2⟩
  | .forTuple kv vv coll val (some ce), L, h => by
    simp only [simple, Bool.and_eq_true] at h
    simp only [fclean, Bool.and_eq_true]
    exact ⟨⟨fclean_of_simple_body coll L h.1.1, fclean_of_simple_body val _ h.1.2⟩, fclean_of_simple_body ce _ h.2⟩
  | .forObject kv vv coll key val none g, L, h => by
    simp only [simple, Bool.and_eq_true, Bool.and_true, Bool.not_true, Bool.or_false] at h
    simp only [fclean, Bool.and_eq_true, Bool.and_true, Bool.or_eq_true]
    exact ⟨⟨⟨fclean_of_simple_body coll L h.1.1.2, fclean_of_simple_body key _ h.1.2⟩,
      fclean_of_simple_body val _ h.2⟩, Or.inl (Or.inl h.1.1.1)⟩
  | .forObject kv vv coll key val (some ce) g, L, h => by
    simp only [simple, Bool.and_eq_true, Bool.not_true, Bool.or_false] at h
    simp only [fclean, Bool.and_eq_true, Bool.or_eq_true]
    exact ⟨⟨⟨⟨fclean_of_simple_body coll L h.1.1.1.2, fclean_of_simple_body key _ h.1.1.2⟩,
      fclean_of_simple_body val _ h.1.2⟩, fclean_of_simple_body ce _ h.2⟩, Or.inl (Or.inl h.1.1.1.1)⟩
  | .splat anon src each, L, h => by
    simp only [simple, Bool.and_eq_true] at h
    simp only [fclean, Bool.and_eq_true]
    exact ⟨fclean_of_simple_body src L h.1, fclean_of_simple_body each _ h.2⟩
  | .template parts, L, h => by
    simp only [simple] at h; simp only [fclean]; exact fcleanList_of_simple_body parts L h
  | .tjoin t, L, h => by
    simp only [simple] at h; simp only [fclean]; exact fclean_of_simple_body t L h
  | .call _ args none, L, h => by
    simp only [simple, Bool.and_true] at h
    simp only [fclean, Bool.and_true]; exact fcleanList_of_simple_body args L h
  | .call _ args (some ex), L, h => by
    simp only [simple, Bool.and_eq_true] at h
    simp only [fclean, Bool.and_eq_true]
    exact ⟨fcleanList_of_simple_body args L h.1, fclean_of_simple_body ex L h.2⟩
theorem fcleanList_of_simple_body : ∀ (es : List Expr) (L : List String), simpleList true es = true →
    fcleanList L es = true
  | [], _, _ => by simp [fcleanList]
  | e :: es, L, h => by
    simp only [simpleList, Bool.and_eq_true] at h
    simp only [fcleanList, Bool.and_eq_true]
    exact ⟨fclean_of_simple_body e L h.1, fcleanList_of_simple_body es L h.2⟩
theorem fcleanItems_of_simple_body : ∀ (items : List (Expr × Expr)) (L : List String),
    simpleItems true items = true → fcleanItems L items = true
  | [], _, _ => by simp [fcleanItems]
  | (k, v) :: rest, L, h => by
    simp only [simpleItems, Bool.and_eq_true] at h
    simp only [fcleanItems, Bool.and_eq_true]
    exact ⟨⟨fclean_of_simple_body k L h.1.1, fclean_of_simple_body v L h.1.2⟩, fcleanItems_of_simple_body rest L h.2⟩
end

mutual
theorem fclean_of_simple : ∀ (e : Expr), simple false e = true → fclean [] e = true
  | .lit v, h => by simp [fclean]
  | .var x, h => by simp [fclean]
  | .getAttr e _, h => by
    simp only [simple] at h; simp only [fclean]; exact fclean_of_simple e h
  | .index e k, h => by
    simp only [simple, Bool.and_eq_true] at h
    simp only [fclean, Bool.and_eq_true]
    exact ⟨fclean_of_simple e h.1, fclean_of_simple k h.2⟩
  | .bin _ l r, h => by
    simp only [simple, Bool.and_eq_true] at h
    simp only [fclean, Bool.and_eq_true]
    exact ⟨fclean_of_simple l h.1, fclean_of_simple r h.2⟩
  | .un _ e, h => by
    simp only [simple] at h; simp only [fclean]; exact fclean_of_simple e h
  | .cond c t f, h => by
    simp only [simple, Bool.and_eq_true] at h
    simp only [fclean, Bool.and_eq_true]
    exact ⟨⟨fclean_of_simple c h.1.1, fclean_of_simple t h.1.2⟩, fclean_of_simple f h.2⟩
  | .tuple es, h => by
    simp only [simple] at h; simp only [fclean]; exact fcleanList_of_simple es h
  | .object items, h => by
    simp only [simple] at h; simp only [fclean]; exact fcleanItems_of_simple items h
  | .forTuple kv vv coll val none, h => by
    simp only [simple, Bool.and_eq_true, Bool.and_true] at h
    simp only [fclean, Bool.and_eq_true, Bool.and_true]
    exact ⟨fclean_of_simple coll h.1, fclean_of_simple_body val _ h.2⟩
  | .forTuple kv vv coll val (some ce), h => by
    simp only [simple, Bool.and_eq_true] at h
    simp only [fclean, Bool.and_eq_true]
    exact ⟨⟨fclean_of_simple coll h.1.1, fclean_of_simple_body val _ h.1.2⟩, fclean_of_simple_body ce _ h.2⟩
  | .forObject kv vv coll key val none g, h => by
    simp only [simple, Bool.and_eq_true, Bool.and_true] at h
    simp only [fclean, Bool.and_eq_true, Bool.and_true, Bool.or_eq_true, dropIter_nil]
    exact ⟨⟨⟨fclean_of_simple coll h.1.1.2, fclean_of_simple_body key _ h.1.2⟩,
      fclean_of_simple_body val _ h.2⟩, Or.inr ⟨vclean_of_simple coll false h.1.1.2, vclean_of_simple key true h.1.2⟩⟩
  | .forObject kv vv coll key val (some ce) g, h => by
    simp only [simple, Bool.and_eq_true] at h
    simp only [fclean, Bool.and_eq_true, Bool.or_eq_true, dropIter_nil]
    exact ⟨⟨⟨⟨fclean_of_simple coll h.1.1.1.2, fclean_of_simple_body key _ h.1.1.2⟩,
      fclean_of_simple_body val _ h.1.2⟩, fclean_of_simple_body ce _ h.2⟩,
      Or.inr ⟨vclean_of_simple coll false h.1.1.1.2, vclean_of_simple key true h.1.1.2⟩⟩
  | .splat anon src each, h => by
    simp only [simple, Bool.and_eq_true] at h
    simp only [fclean, Bool.and_eq_true]
    exact ⟨fclean_of_simple src h.1, fclean_of_simple_body each _ h.2⟩
  | .template parts, h => by
    simp only [simple] at h; simp only [fclean]; exact fcleanList_of_simple parts h
  | .tjoin t, h => by
    simp only [simple] at h; simp only [fclean]; exact fclean_of_simple t h
  | .call _ args none, h => by
    simp only [simple, Bool.and_true] at h
    simp only [fclean, Bool.and_true]; exact fcleanList_of_simple args h
  | .call _ args (some ex), h => by
    simp only [simple, Bool.and_eq_true] at h
    simp only [fclean, Bool.and_eq_true]
    exact ⟨fcleanList_of_simple args h.1, fclean_of_simple ex h.2⟩
theorem fcleanList_of_simple : ∀ (es : List Expr), simpleList false es = true → fcleanList [] es = true
  | [], _ => by simp [fcleanList]
  | e :: es, h => by
    simp only [simpleList, Bool.and_eq_true] at h
    simp only [fcleanList, Bool.and_eq_true]
    exact ⟨fclean_of_simple e h.1, fcleanList_of_simple es h.2⟩
theorem fcleanItems_of_simple : ∀ (items : List (Expr × Expr)), simpleItems false items = true →
    fcleanItems [] items = true
  | [], _ => by simp [fcleanItems]
  | (k, v) :: rest, h => by
    simp only [simpleItems, Bool.and_eq_true] at h
    simp only [fcleanItems, Bool.and_eq_true]
    exact ⟨⟨fclean_of_simple k h.1.1, fclean_of_simple v h.1.2⟩, fcleanItems_of_simple rest h.2⟩
end

/-- The simple syntactic condition: flag-free literals, and no non-grouping object `for` inside the body of a
    `for` or splat. -/
theorem taint_simple (C : Cx) (hF : TaintFuncs C.funcs) (e : Expr) (ρ : Env) (hρ : twEnv ρ)
    (he : simple false e = true) : fragsClean (eval C ρ e).2 :=
  taint_partial C hF e ρ hρ (fclean_of_simple e he)

/-- the function library of the wire protocol (`stdFuncs`, the same definitions on the Go side) returns values
    without flags -/
theorem taintFuncs_std : TaintFuncs stdFuncs := by
  apply taintFuncs_of_flagFree
  intro fn spec hs args r hr
  unfold stdFuncs at hs
  split at hs <;> cases hs
  · simp only [fnAdd3, pure, Except.pure, throw, throwThe, MonadExceptOf.throw] at hr
    split at hr <;> cases hr
    rfl
  · simp only [fnCat, pure, Except.pure, throw, throwThe, MonadExceptOf.throw] at hr
    split at hr <;> cases hr
    rfl
  · simp only [fnCat2, pure, Except.pure, throw, throwThe, MonadExceptOf.throw] at hr
    split at hr <;> cases hr
    rfl
  · simp only [fnSumList, pure, Except.pure, throw, throwThe, MonadExceptOf.throw] at hr
    split at hr
    · split at hr <;> cases hr
      rfl
    · cases hr

end HclModel.Proofs
