import HclModel.Write.Nodes
/-!
Refinement proof for the pointer-level doubly linked list model of one `hclwrite.Body`
(`HclModel/Write/Nodes.lean`) against the simple list model `specStep`.

Structure:
* `Rep s cs` — the representation invariant: the duplicate-free address list `cs` is the child list of `s`
  (links, first/last, attached flags, bounds).  Preserved by `appendNode` (`cs ++ [s.next]`),
  `detach a` (`cs.filter (· ≠ a)`) and `setContent`.
* `walk_eq` — under `Rep s cs`, `s.children = cs`.
* `Inv s cs` — `Rep` plus the item-set invariants (items are children, no duplicates, attribute names and
  block ids unique among items).  Every `step` preserves it and commutes with `specStep` on `absOf s cs`.
-/
namespace HclModel.Nodes.Proofs
open HclModel.Nodes

/-! ### list helpers -/

theorem filterMap_congr' {α β} {f g : α → Option β} {l : List α} (h : ∀ x ∈ l, f x = g x) :
    l.filterMap f = l.filterMap g := by
  induction l with
  | nil => rfl
  | cons x xs ih =>
    have hx := h x (by simp)
    have := ih (fun y hy => h y (by simp [hy]))
    simp [List.filterMap_cons, hx, this]

theorem nodup_idx_inj {cs : List Nat} (hnd : cs.Nodup) {i j a : Nat}
    (hi : cs[i]? = some a) (hj : cs[j]? = some a) : i = j := by
  have hlt : i < cs.length := by
    have := List.getElem?_eq_some_iff.mp hi
    exact this.1
  exact (List.getElem?_inj hlt hnd).mp (hi.trans hj.symm)

theorem eraseIdx_eq_filter {cs : List Nat} (hnd : cs.Nodup) {k a : Nat} (hk : cs[k]? = some a) :
    cs.eraseIdx k = cs.filter (fun x => decide (x ≠ a)) := by
  induction cs generalizing k with
  | nil => simp at hk
  | cons x xs ih =>
    rw [List.nodup_cons] at hnd
    cases k with
    | zero =>
      simp at hk
      subst hk
      simp only [List.eraseIdx_cons_zero]
      rw [List.filter_cons]
      simp only [ne_eq, not_true_eq_false, decide_false, Bool.false_eq_true, ↓reduceIte]
      symm
      rw [List.filter_eq_self]
      intro y hy
      have : y ≠ x := fun h => hnd.1 (h ▸ hy)
      simp [this]
    | succ k =>
      simp at hk
      have hmem : a ∈ xs := List.mem_of_getElem? hk
      have : x ≠ a := fun h => hnd.1 (h ▸ hmem)
      simp [this, ih hnd.2 hk]

/-! ### the representation invariant -/

structure Rep (s : St) (cs : List Nat) : Prop where
  nodup : cs.Nodup
  first : s.first = cs.head?
  last : s.last = cs.getLast?
  att : ∀ a ∈ cs, (s.node a).attached = true ∧ a < s.next
  unatt : ∀ a, a ∉ cs → (s.node a).attached = false
  link : ∀ (i : Nat) (a : Nat), cs[i]? = some a →
      (s.node a).before = (if i = 0 then none else cs[i - 1]?) ∧ (s.node a).after = cs[i + 1]?
  len : cs.length ≤ s.next

theorem rep_init : Rep St.init [] := by
  constructor <;> simp [St.init]

/-- the walk lemma, generalised over suffixes -/
theorem walk_drop {s : St} {cs : List Nat} (h : Rep s cs) :
    ∀ (fuel k : Nat), cs.length ≤ fuel + k → walk s fuel cs[k]? = cs.drop k := by
  intro fuel
  induction fuel with
  | zero =>
    intro k hk
    have : cs.drop k = [] := List.drop_eq_nil_of_le (by omega)
    rw [this]; cases cs[k]? <;> rfl
  | succ fuel ih =>
    intro k hk
    cases hck : cs[k]? with
    | none =>
      have : cs.length ≤ k := List.getElem?_eq_none_iff.mp hck
      rw [List.drop_eq_nil_of_le this]; rfl
    | some a =>
      have hlt := (List.getElem?_eq_some_iff.mp hck)
      obtain ⟨hlt, hget⟩ := hlt
      rw [List.drop_eq_getElem_cons hlt, hget]
      simp only [walk]
      rw [(h.link k a hck).2, ih (k + 1) (by omega)]

theorem children_eq {s : St} {cs : List Nat} (h : Rep s cs) : s.children = cs := by
  unfold St.children
  rw [h.first, List.head?_eq_getElem?, walk_drop h s.next 0 (by have := h.len; omega)]
  simp

/-! ### `appendNode` -/

theorem appendNode_node {s : St} (c : Content) (hl : ∀ l, s.last = some l → l ≠ s.next) (x : Nat) :
    (appendNode s c).1.node x =
      if x = s.next then { content := c, attached := true, before := s.last, after := none }
      else if s.last = some x then { s.node x with after := some s.next } else s.node x := by
  unfold appendNode
  cases hlast : s.last with
  | none => simp [upd]
  | some l =>
    have hne := hl l hlast
    simp only [upd]
    by_cases h1 : x = s.next
    · subst h1; simp [Ne.symm hne]
    · by_cases h2 : x = l
      · subst h2; simp [h1]
      · have : l ≠ x := fun h => h2 h.symm
        simp [h1, h2, this]

theorem rep_last_ne {s : St} {cs : List Nat} (h : Rep s cs) : ∀ l, s.last = some l → l ≠ s.next := by
  intro l hl
  have : l ∈ cs := by
    rw [h.last] at hl
    exact List.mem_of_getLast? hl
  have := (h.att l this).2
  omega

theorem rep_append {s : St} {cs : List Nat} (h : Rep s cs) (c : Content) :
    Rep (appendNode s c).1 (cs ++ [s.next]) := by
  have hnode := appendNode_node c (rep_last_ne h)
  have hnotin : s.next ∉ cs := fun hm => by have := (h.att _ hm).2; omega
  refine ⟨?_, ?_, ?_, ?_, ?_, ?_, ?_⟩
  · rw [List.nodup_append]
    refine ⟨h.nodup, by simp, ?_⟩
    intro a ha b hb
    simp at hb; subst hb
    intro hab; subst hab; exact hnotin ha
  · show (match s.first with | none => some s.next | some f => some f) = _
    rw [h.first]
    cases cs <;> simp
  · show some s.next = _
    simp
  · intro a ha
    show ((appendNode s c).1.node a).attached = true ∧ a < s.next + 1
    rw [hnode]
    simp at ha
    rcases ha with ha | ha
    · have := h.att a ha
      have hne : a ≠ s.next := by omega
      simp only [hne, if_false]
      split <;> simp [this.1] <;> omega
    · subst ha; simp
  · intro a ha
    simp at ha
    rw [hnode]
    simp only [ha.2, if_false]
    have := h.unatt a ha.1
    split <;> simp [this]
  · intro i a hia
    rw [hnode]
    rw [List.getElem?_append] at hia
    by_cases hi : i < cs.length
    · simp only [hi, if_true] at hia
      have hmem : a ∈ cs := List.mem_of_getElem? hia
      have hne : a ≠ s.next := fun e => hnotin (e ▸ hmem)
      have hlk := h.link i a hia
      simp only [hne, if_false]
      have hpred : (if i = 0 then none else (cs ++ [s.next])[i - 1]?) = (if i = 0 then none else cs[i - 1]?) := by
        split
        · rfl
        · rw [List.getElem?_append]; simp [show i - 1 < cs.length by omega]
      rw [hpred]
      by_cases hlast : s.last = some a
      · simp only [hlast, if_true]
        refine ⟨hlk.1, ?_⟩
        rw [h.last, List.getLast?_eq_getElem?] at hlast
        have : cs.length - 1 = i := nodup_idx_inj h.nodup hlast hia
        rw [List.getElem?_append]
        simp [show ¬ (i + 1 < cs.length) by omega, show i + 1 - cs.length = 0 by omega]
      · simp only [hlast, if_false]
        refine ⟨hlk.1, ?_⟩
        rw [hlk.2, List.getElem?_append]
        by_cases hi1 : i + 1 < cs.length
        · simp [hi1]
        · exfalso
          apply hlast
          rw [h.last, List.getLast?_eq_getElem?, ← hia]
          congr 1; omega
    · simp only [hi, if_false] at hia
      have hi0 : i = cs.length := by
        by_cases h0 : i - cs.length = 0
        · omega
        · have : ([s.next])[i - cs.length]? = none := by
            apply List.getElem?_eq_none; simp; omega
          rw [this] at hia; cases hia
      subst hi0
      simp at hia
      subst hia
      simp only [if_true]
      refine ⟨?_, ?_⟩
      · show s.last = _
        rw [h.last, List.getLast?_eq_getElem?]
        by_cases h0 : cs.length = 0
        · simp [List.length_eq_zero_iff.mp h0]
        · simp only [h0, if_false]
          rw [List.getElem?_append]; simp [show cs.length - 1 < cs.length by omega]
      · show none = _
        symm; apply List.getElem?_eq_none; simp
  · show (cs ++ [s.next]).length ≤ s.next + 1
    have := h.len
    simp; omega

/-! ### `detach` -/

theorem detach_content (s : St) (a : Nat) (x : Nat) :
    ((detach s a).node x).content = (s.node x).content := by
  unfold detach
  by_cases hatt : (s.node a).attached = true
  case neg => simp [hatt]
  case pos =>
    simp only [hatt, Bool.not_true, Bool.false_eq_true, if_false]
    cases hb : (s.node a).before <;> cases hc : (s.node a).after <;> simp only [upd] <;>
      (repeat' split) <;> simp_all

theorem detach_attached {s : St} {a : Nat} (hatt : (s.node a).attached = true) (x : Nat) :
    ((detach s a).node x).attached = if x = a then false else (s.node x).attached := by
  unfold detach
  simp only [hatt, Bool.not_true, Bool.false_eq_true, if_false]
  cases hb : (s.node a).before <;> cases hc : (s.node a).after <;> simp only [upd] <;>
      (repeat' split) <;> simp_all

theorem detach_before {s : St} {a : Nat} (hatt : (s.node a).attached = true) (x : Nat) :
    ((detach s a).node x).before = if x = a then none else
      if (s.node a).after = some x then (s.node a).before else (s.node x).before := by
  unfold detach
  simp only [hatt, Bool.not_true, Bool.false_eq_true, if_false]
  cases hb : (s.node a).before <;> cases hc : (s.node a).after <;> simp only [upd] <;>
      (repeat' split) <;> simp_all

theorem detach_after {s : St} {a : Nat} (hatt : (s.node a).attached = true) (x : Nat) :
    ((detach s a).node x).after = if x = a then none else
      if (s.node a).before = some x then (s.node a).after else (s.node x).after := by
  unfold detach
  simp only [hatt, Bool.not_true, Bool.false_eq_true, if_false]
  cases hb : (s.node a).before <;> cases hc : (s.node a).after <;> simp only [upd] <;>
      (repeat' split) <;> simp_all

theorem detach_first {s : St} {a : Nat} (hatt : (s.node a).attached = true) :
    (detach s a).first = if s.first = some a then (s.node a).after else s.first := by
  unfold detach; simp [hatt]

theorem detach_last {s : St} {a : Nat} (hatt : (s.node a).attached = true) :
    (detach s a).last = if s.last = some a then (s.node a).before else s.last := by
  unfold detach; simp [hatt]

theorem detach_next (s : St) (a : Nat) : (detach s a).next = s.next := by
  unfold detach; by_cases h : (s.node a).attached = true <;> simp [h]

theorem detach_items (s : St) (a : Nat) : (detach s a).items = s.items := by
  unfold detach; by_cases h : (s.node a).attached = true <;> simp [h]

theorem rep_detach {s : St} {cs : List Nat} (h : Rep s cs) {a : Nat} (ha : a ∈ cs) :
    Rep (detach s a) (cs.filter (fun x => decide (x ≠ a))) := by
  obtain ⟨k, hk⟩ := List.getElem?_of_mem ha
  have hatt := (h.att a ha).1
  have hklt : k < cs.length := (List.getElem?_eq_some_iff.mp hk).1
  have hlk := h.link k a hk
  have heq := eraseIdx_eq_filter h.nodup hk
  refine ⟨?_, ?_, ?_, ?_, ?_, ?_, ?_⟩
  · exact h.nodup.sublist List.filter_sublist
  · rw [detach_first hatt, ← heq, List.head?_eq_getElem?, List.getElem?_eraseIdx, h.first,
      List.head?_eq_getElem?]
    by_cases hk0 : k = 0
    · subst hk0; simp [hk, hlk.2]
    · have : cs[0]? ≠ some a := fun e => hk0 (nodup_idx_inj h.nodup hk e)
      simp [this, Nat.pos_of_ne_zero hk0]
  · rw [detach_last hatt, ← heq, List.getLast?_eq_getElem?, List.getElem?_eraseIdx, h.last,
      List.getLast?_eq_getElem?, List.length_eraseIdx]
    simp only [hklt, if_true]
    by_cases hkl : k = cs.length - 1
    · have : cs[cs.length - 1]? = some a := hkl ▸ hk
      simp only [this, if_true, hlk.1]
      by_cases hk0 : k = 0
      · have : cs.length = 1 := by omega
        simp [hk0, this]
      · simp only [hk0, if_false]
        rw [if_pos (by omega)]
        congr 1; omega
    · have : cs[cs.length - 1]? ≠ some a := fun e => hkl (nodup_idx_inj h.nodup hk e)
      simp only [this, if_false]
      rw [if_neg (by omega)]
      congr 1; omega
  · intro b hb
    simp at hb
    rw [detach_attached hatt, detach_next]
    simp [hb.2, h.att b hb.1]
  · intro b hb
    rw [detach_attached hatt]
    by_cases hba : b = a
    · simp [hba]
    · simp only [hba, if_false]
      apply h.unatt
      intro hm; apply hb; simp [hm, hba]
  · intro j b hjb
    rw [← heq] at hjb ⊢
    rw [List.getElem?_eraseIdx] at hjb
    rw [detach_before hatt, detach_after hatt, hlk.1, hlk.2]
    simp only [List.getElem?_eraseIdx]
    by_cases hjk : j < k
    · simp only [hjk, if_true] at hjb
      have hba : b ≠ a := fun e => by
        have := nodup_idx_inj h.nodup hjb (e ▸ hk); omega
      have hlb := h.link j b hjb
      have h1 : cs[k + 1]? ≠ some b := fun e => by
        have := nodup_idx_inj h.nodup hjb e; omega
      simp only [hba, if_false, h1, hlb.1, hlb.2]
      refine ⟨?_, ?_⟩
      · by_cases hj0 : j = 0
        · simp [hj0]
        · simp only [hj0, if_false]; rw [if_pos (by omega)]
      · by_cases hk0 : k = 0
        · omega
        · simp only [hk0, if_false]
          by_cases hj1 : j + 1 < k
          · have : cs[k - 1]? ≠ some b := fun e => by
              have := nodup_idx_inj h.nodup hjb e; omega
            simp [this, hj1]
          · have hjk1 : j = k - 1 := by omega
            have : cs[k - 1]? = some b := hjk1 ▸ hjb
            simp only [this, if_true, hj1, if_false]
            congr 1; omega
    · simp only [hjk, if_false] at hjb
      have hba : b ≠ a := fun e => by
        have := nodup_idx_inj h.nodup hjb (e ▸ hk); omega
      have hlb := h.link (j + 1) b hjb
      have h1 : (if k = 0 then none else cs[k - 1]?) ≠ some b := by
        split
        · simp
        · intro e
          have := nodup_idx_inj h.nodup hjb e; omega
      simp only [hba, if_false, h1, hlb.1, hlb.2]
      refine ⟨?_, ?_⟩
      · simp only [Nat.add_sub_cancel, show j + 1 ≠ 0 by omega, if_false]
        by_cases hjk' : j = k
        · have : cs[k + 1]? = some b := hjk' ▸ hjb
          simp only [this, if_true]
          subst hjk'
          by_cases hj0 : j = 0
          · simp [hj0]
          · simp only [hj0, if_false]; rw [if_pos (by omega)]
        · have : cs[k + 1]? ≠ some b := fun e => by
            have := nodup_idx_inj h.nodup hjb e; omega
          simp only [this, if_false]
          rw [if_neg (by omega), if_neg (by omega)]
          congr 1; omega
      · rw [if_neg (by omega)]
  · rw [detach_next]
    exact Nat.le_trans (List.length_filter_le _ _) h.len

/-! ### `setContent` -/

theorem rep_setContent {s : St} {cs : List Nat} (h : Rep s cs) (a : Nat) (c : Content) :
    Rep (setContent s a c) cs := by
  have hn : ∀ x, ((setContent s a c).node x).attached = (s.node x).attached ∧
      ((setContent s a c).node x).before = (s.node x).before ∧
      ((setContent s a c).node x).after = (s.node x).after := by
    intro x
    simp only [setContent, upd]
    split
    · subst_vars; simp
    · simp
  refine ⟨h.nodup, h.first, h.last, ?_, ?_, ?_, h.len⟩
  · intro b hb; rw [(hn b).1]; exact h.att b hb
  · intro b hb; rw [(hn b).1]; exact h.unatt b hb
  · intro i b hib; rw [(hn b).2.1, (hn b).2.2]; exact h.link i b hib

theorem setContent_content (s : St) (a : Nat) (c : Content) (x : Nat) :
    ((setContent s a c).node x).content = if x = a then c else (s.node x).content := by
  simp only [setContent, upd]
  split <;> simp

/-! ### the abstraction over an explicit child list -/

def item? : Content → Option Item
  | .attr n e => some (.attr n e)
  | .block t l i => some (.block t l i)
  | .tokens _ => none

def view (s : St) (a : Nat) : Option Item :=
  if a ∈ s.items then item? (s.node a).content else none

def absOf (s : St) (cs : List Nat) : List Item := cs.filterMap (view s)

theorem abs_eq {s : St} {cs : List Nat} (h : Rep s cs) : abs s = absOf s cs := by
  unfold abs St.itemList absOf
  rw [children_eq h, List.filterMap_filter]
  apply filterMap_congr'
  intro x _
  simp only [view, List.contains_eq_mem, decide_eq_true_eq]
  split
  · unfold item?; cases (s.node x).content <;> rfl
  · rfl

theorem mem_absOf {s : St} {cs : List Nat} {it : Item} :
    it ∈ absOf s cs ↔ ∃ a ∈ cs, a ∈ s.items ∧ item? (s.node a).content = some it := by
  simp only [absOf, List.mem_filterMap, view]
  constructor
  · rintro ⟨a, ha, h⟩
    split at h
    · exact ⟨a, ha, ‹_›, h⟩
    · cases h
  · rintro ⟨a, ha, hi, h⟩
    exact ⟨a, ha, by simp [hi, h]⟩

theorem item?_attr {c : Content} {n : String} {e : Nat} : item? c = some (.attr n e) ↔ c = .attr n e := by
  cases c <;> simp [item?]

theorem item?_block {c : Content} {t : String} {l : List String} {i : Nat} :
    item? c = some (.block t l i) ↔ c = .block t l i := by
  cases c <;> simp [item?]

/-- representation invariant plus item-set invariants -/
structure Inv (s : St) (cs : List Nat) : Prop where
  rep : Rep s cs
  sub : ∀ a ∈ s.items, a ∈ cs
  inodup : s.items.Nodup
  names : ∀ a ∈ s.items, ∀ b ∈ s.items, ∀ n e e',
    (s.node a).content = .attr n e → (s.node b).content = .attr n e' → a = b
  ids : ∀ a ∈ s.items, ∀ b ∈ s.items, ∀ t l t' l' i,
    (s.node a).content = .block t l i → (s.node b).content = .block t' l' i → a = b

theorem inv_init : Inv St.init [] := by
  refine ⟨rep_init, ?_, ?_, ?_, ?_⟩ <;> simp [St.init]

theorem rep_items {s : St} {cs : List Nat} (h : Rep s cs) (its : List Nat) :
    Rep { s with items := its } cs :=
  ⟨h.nodup, h.first, h.last, h.att, h.unatt, h.link, h.len⟩

theorem appendNode_content {s : St} {cs : List Nat} (h : Rep s cs) (c : Content) (x : Nat) :
    ((appendNode s c).1.node x).content = if x = s.next then c else (s.node x).content := by
  rw [appendNode_node c (rep_last_ne h)]
  split
  · rfl
  · split <;> rfl

theorem inv_lt {s : St} {cs : List Nat} (h : Inv s cs) {a : Nat} (ha : a ∈ s.items) : a ≠ s.next := by
  have := (h.rep.att a (h.sub a ha)).2
  omega

/-- appending a node that becomes an item -/
theorem inv_append_item {s : St} {cs : List Nat} (h : Inv s cs) (c : Content)
    (hname : ∀ n e, c = .attr n e → ∀ b ∈ s.items, ∀ e', (s.node b).content ≠ .attr n e')
    (hid : ∀ t l i, c = .block t l i → ∀ b ∈ s.items, ∀ t' l', (s.node b).content ≠ .block t' l' i) :
    Inv { (appendNode s c).1 with items := s.next :: s.items } (cs ++ [s.next]) ∧
    absOf { (appendNode s c).1 with items := s.next :: s.items } (cs ++ [s.next]) =
      absOf s cs ++ (item? c).toList := by
  have hc := appendNode_content h.rep c
  refine ⟨⟨rep_items (rep_append h.rep c) _, ?_, ?_, ?_, ?_⟩, ?_⟩
  · intro a ha
    simp only [List.mem_cons] at ha
    rcases ha with ha | ha
    · simp [ha]
    · simp [h.sub a ha]
  · show (s.next :: s.items).Nodup
    rw [List.nodup_cons]
    exact ⟨fun hm => inv_lt h hm rfl, h.inodup⟩
  · intro a ha b hb n e e' hca hcb
    simp only [List.mem_cons] at ha hb
    change ((appendNode s c).1.node a).content = _ at hca
    change ((appendNode s c).1.node b).content = _ at hcb
    rw [hc] at hca hcb
    rcases ha with ha | ha <;> rcases hb with hb | hb
    · rw [ha, hb]
    · rw [if_pos ha] at hca; rw [if_neg (inv_lt h hb)] at hcb
      exact absurd hcb (hname n e hca b hb e')
    · rw [if_pos hb] at hcb; rw [if_neg (inv_lt h ha)] at hca
      exact absurd hca (hname n e' hcb a ha e)
    · rw [if_neg (inv_lt h ha)] at hca; rw [if_neg (inv_lt h hb)] at hcb
      exact h.names a ha b hb n e e' hca hcb
  · intro a ha b hb t l t' l' i hca hcb
    simp only [List.mem_cons] at ha hb
    change ((appendNode s c).1.node a).content = _ at hca
    change ((appendNode s c).1.node b).content = _ at hcb
    rw [hc] at hca hcb
    rcases ha with ha | ha <;> rcases hb with hb | hb
    · rw [ha, hb]
    · rw [if_pos ha] at hca; rw [if_neg (inv_lt h hb)] at hcb
      exact absurd hcb (hid t l i hca b hb t' l')
    · rw [if_pos hb] at hcb; rw [if_neg (inv_lt h ha)] at hca
      exact absurd hca (hid t' l' i hcb a ha t l)
    · rw [if_neg (inv_lt h ha)] at hca; rw [if_neg (inv_lt h hb)] at hcb
      exact h.ids a ha b hb t l t' l' i hca hcb
  · unfold absOf
    rw [List.filterMap_append]
    congr 1
    · apply filterMap_congr'
      intro x hx
      have hne : x ≠ s.next := fun e => by have := (h.rep.att x hx).2; omega
      simp only [view, List.mem_cons, hne, false_or]
      rw [hc, if_neg hne]
    · simp only [List.filterMap_cons, List.filterMap_nil, view, List.mem_cons, true_or, if_true]
      rw [hc, if_pos rfl]
      cases item? c <;> rfl

/-- appending a node that is not an item (a newline) -/
theorem inv_append_plain {s : St} {cs : List Nat} (h : Inv s cs) (c : Content) :
    Inv (appendNode s c).1 (cs ++ [s.next]) ∧
    absOf (appendNode s c).1 (cs ++ [s.next]) = absOf s cs := by
  have hc := appendNode_content h.rep c
  have hnotin : s.next ∉ s.items := fun hm => inv_lt h hm rfl
  refine ⟨⟨rep_append h.rep c, ?_, h.inodup, ?_, ?_⟩, ?_⟩
  · intro a ha
    have : a ∈ s.items := ha
    simp [h.sub a this]
  · intro a ha b hb n e e' hca hcb
    rw [hc, if_neg (inv_lt h ha)] at hca
    rw [hc, if_neg (inv_lt h hb)] at hcb
    exact h.names a ha b hb n e e' hca hcb
  · intro a ha b hb t l t' l' i hca hcb
    rw [hc, if_neg (inv_lt h ha)] at hca
    rw [hc, if_neg (inv_lt h hb)] at hcb
    exact h.ids a ha b hb t l t' l' i hca hcb
  · unfold absOf
    rw [List.filterMap_append]
    have : [s.next].filterMap (view (appendNode s c).1) = [] := by
      have : s.next ∉ (appendNode s c).1.items := hnotin
      simp [view, this]
    rw [this, List.append_nil]
    apply filterMap_congr'
    intro x hx
    have hne : x ≠ s.next := fun e => by have := (h.rep.att x hx).2; omega
    simp only [view]
    rw [hc, if_neg hne]
    rfl

/-- detaching an item and dropping it from the item set -/
theorem inv_remove {s : St} {cs : List Nat} (h : Inv s cs) {a : Nat} (ha : a ∈ s.items) :
    Inv { detach s a with items := (detach s a).items.filter (fun x => decide (x ≠ a)) }
        (cs.filter (fun x => decide (x ≠ a))) ∧
    absOf { detach s a with items := (detach s a).items.filter (fun x => decide (x ≠ a)) }
        (cs.filter (fun x => decide (x ≠ a))) =
      cs.filterMap (fun x => if x ≠ a then view s x else none) := by
  have hitems : ∀ x, x ∈ (detach s a).items.filter (fun x => decide (x ≠ a)) ↔ x ∈ s.items ∧ x ≠ a := by
    intro x; rw [detach_items]; simp
  refine ⟨⟨rep_items (rep_detach h.rep (h.sub a ha)) _, ?_, ?_, ?_, ?_⟩, ?_⟩
  · intro x hx
    have := (hitems x).mp hx
    simp [h.sub x this.1, this.2]
  · show ((detach s a).items.filter _).Nodup
    rw [detach_items]
    exact h.inodup.sublist List.filter_sublist
  · intro x hx y hy n e e' hcx hcy
    change ((detach s a).node x).content = _ at hcx
    change ((detach s a).node y).content = _ at hcy
    rw [detach_content] at hcx hcy
    exact h.names x ((hitems x).mp hx).1 y ((hitems y).mp hy).1 n e e' hcx hcy
  · intro x hx y hy t l t' l' i hcx hcy
    change ((detach s a).node x).content = _ at hcx
    change ((detach s a).node y).content = _ at hcy
    rw [detach_content] at hcx hcy
    exact h.ids x ((hitems x).mp hx).1 y ((hitems y).mp hy).1 t l t' l' i hcx hcy
  · unfold absOf
    rw [List.filterMap_filter]
    apply filterMap_congr'
    intro x _
    by_cases hxa : x = a
    · simp [hxa]
    · simp only [ne_eq, hxa, not_false_eq_true, decide_true, if_true]
      unfold view
      have : (x ∈ (detach s a).items.filter (fun x => decide (x ≠ a))) ↔ x ∈ s.items := by
        rw [hitems]; simp [hxa]
      simp only [this]
      rw [detach_content]

/-- what removing does on the spec side, for any filter that drops exactly the removed item -/
theorem remove_filter {s : St} {cs : List Nat} {a : Nat} (ha : a ∈ s.items)
    (p : Item → Bool)
    (hpa : ∀ it, item? (s.node a).content = some it → p it = false)
    (hpo : ∀ x ∈ s.items, x ≠ a → ∀ it, item? (s.node x).content = some it → p it = true) :
    cs.filterMap (fun x => if x ≠ a then view s x else none) = (absOf s cs).filter p := by
  unfold absOf
  rw [List.filter_filterMap]
  apply filterMap_congr'
  intro x _
  by_cases hxa : x = a
  · subst hxa
    simp only [ne_eq, not_true_eq_false, if_false, view, ha, if_true]
    cases hi : item? (s.node x).content with
    | none => rfl
    | some it => simp [Option.filter, hpa it hi]
  · simp only [ne_eq, hxa, not_false_eq_true, if_true, view]
    split
    · rename_i hx
      cases hi : item? (s.node x).content with
      | none => rfl
      | some it => simp [Option.filter, hpo x hx hxa it hi]
    · rfl

/-- updating the content of an attribute item (same name, or a name no item has) -/
theorem inv_setContent {s : St} {cs : List Nat} (h : Inv s cs) {a : Nat} (ha : a ∈ s.items)
    {n : String} {e : Nat} (hca : (s.node a).content = .attr n e) (n' : String) (e' : Nat)
    (hn' : n' = n ∨ ∀ b ∈ s.items, ∀ e'', (s.node b).content ≠ .attr n' e'')
    (g : Item → Item) (hg : g (.attr n e) = .attr n' e')
    (hg' : ∀ it, (∀ e'', it ≠ .attr n e'') → g it = it) :
    Inv (setContent s a (.attr n' e')) cs ∧
    absOf (setContent s a (.attr n' e')) cs = (absOf s cs).map g := by
  have hc := setContent_content s a (.attr n' e')
  refine ⟨⟨rep_setContent h.rep a _, h.sub, h.inodup, ?_, ?_⟩, ?_⟩
  · intro x hx y hy m e1 e2 hcx hcy
    have hx' : x ∈ s.items := hx
    have hy' : y ∈ s.items := hy
    rw [hc] at hcx hcy
    by_cases hxa : x = a <;> by_cases hya : y = a
    · rw [hxa, hya]
    · rw [if_pos hxa] at hcx; rw [if_neg hya] at hcy
      injection hcx with hm _
      subst hm
      rcases hn' with hn' | hn'
      · subst hn'
        rw [hxa]; exact h.names a ha y hy' _ _ _ hca hcy
      · exact absurd hcy (hn' y hy' e2)
    · rw [if_pos hya] at hcy; rw [if_neg hxa] at hcx
      injection hcy with hm _
      subst hm
      rcases hn' with hn' | hn'
      · subst hn'
        rw [hya]; exact h.names x hx' a ha _ _ _ hcx hca
      · exact absurd hcx (hn' x hx' e1)
    · rw [if_neg hxa] at hcx; rw [if_neg hya] at hcy
      exact h.names x hx' y hy' m e1 e2 hcx hcy
  · intro x hx y hy t l t' l' i hcx hcy
    have hx' : x ∈ s.items := hx
    have hy' : y ∈ s.items := hy
    rw [hc] at hcx hcy
    by_cases hxa : x = a
    · rw [if_pos hxa] at hcx; cases hcx
    · by_cases hya : y = a
      · rw [if_pos hya] at hcy; cases hcy
      · rw [if_neg hxa] at hcx; rw [if_neg hya] at hcy
        exact h.ids x hx' y hy' t l t' l' i hcx hcy
  · unfold absOf
    rw [List.map_filterMap]
    apply filterMap_congr'
    intro x _
    have hit : (setContent s a (.attr n' e')).items = s.items := rfl
    unfold view
    rw [hit, hc]
    by_cases hxa : x = a
    · subst hxa
      simp [ha, hca, item?, hg]
    · rw [if_neg hxa]
      split
      · rename_i hx
        cases hi : item? (s.node x).content with
        | none => rfl
        | some it =>
          simp only [Option.map_some]
          rw [hg' it]
          intro e'' hie
          subst hie
          exact hxa (h.names x hx a ha n e'' e (item?_attr.mp hi) hca)
      · rfl

/-! ### the spec side -/

def namedI (name : String) : Item → Bool
  | .attr n _ => n == name
  | _ => false

def notNamedI (name : String) : Item → Bool
  | .attr n _ => n != name
  | _ => true

def setI (name : String) (expr : Nat) : Item → Item
  | .attr n e => if n == name then .attr n expr else .attr n e
  | b => b

def renI (src dst : String) : Item → Item
  | .attr n e => if n == src then .attr dst e else .attr n e
  | b => b

def notIdI (id : Nat) : Item → Bool
  | .block _ _ i' => i' != id
  | _ => true

theorem specStep_setAttr (l : List Item) (name : String) (expr : Nat) :
    specStep l (.setAttr name expr) =
      if l.any (namedI name) then l.map (setI name expr) else l ++ [.attr name expr] := rfl

theorem specStep_removeAttr (l : List Item) (name : String) :
    specStep l (.removeAttr name) = l.filter (notNamedI name) := rfl

theorem specStep_renameAttr (l : List Item) (src dst : String) :
    specStep l (.renameAttr src dst) =
      if l.any (namedI src) && !l.any (namedI dst) then l.map (renI src dst) else l := rfl

theorem specStep_removeBlock (l : List Item) (id : Nat) :
    specStep l (.removeBlock id) = l.filter (notIdI id) := rfl

/-! ### `findAttr` / `findBlock` against the abstraction -/

theorem findAttr_some {s : St} {name : String} {a : Nat} (h : findAttr s name = some a) :
    a ∈ s.items ∧ ∃ e, (s.node a).content = .attr name e := by
  unfold findAttr at h
  refine ⟨List.mem_of_find?_eq_some h, ?_⟩
  have := List.find?_some h
  unfold isAttrNamed at this
  split at this
  · rename_i n e hc
    have : n = name := by simpa using this
    exact ⟨e, this ▸ hc⟩
  · cases this

theorem findAttr_none {s : St} {name : String} (h : findAttr s name = none) :
    ∀ b ∈ s.items, ∀ e, (s.node b).content ≠ .attr name e := by
  unfold findAttr at h
  rw [List.find?_eq_none] at h
  intro b hb e hc
  apply h b hb
  simp [isAttrNamed, hc]

theorem findBlock_some {s : St} {id : Nat} {a : Nat} (h : findBlock s id = some a) :
    a ∈ s.items ∧ ∃ t l, (s.node a).content = .block t l id := by
  unfold findBlock at h
  refine ⟨List.mem_of_find?_eq_some h, ?_⟩
  have := List.find?_some h
  split at this
  · rename_i t l i hc
    have : i = id := by simpa using this
    exact ⟨t, l, this ▸ hc⟩
  · cases this

theorem findBlock_none {s : St} {id : Nat} (h : findBlock s id = none) :
    ∀ b ∈ s.items, ∀ t l, (s.node b).content ≠ .block t l id := by
  unfold findBlock at h
  rw [List.find?_eq_none] at h
  intro b hb t l hc
  apply h b hb
  simp [hc]

theorem any_named_iff {s : St} {cs : List Nat} (h : Inv s cs) (name : String) :
    (absOf s cs).any (namedI name) = true ↔ ∃ b ∈ s.items, ∃ e, (s.node b).content = .attr name e := by
  rw [List.any_eq_true]
  constructor
  · rintro ⟨it, hit, hn⟩
    obtain ⟨b, _, hb, hi⟩ := mem_absOf.mp hit
    cases it with
    | attr n e =>
      have : n = name := by simpa [namedI] using hn
      subst this
      exact ⟨b, hb, e, item?_attr.mp hi⟩
    | block t l i => simp [namedI] at hn
  · rintro ⟨b, hb, e, hc⟩
    exact ⟨.attr name e, mem_absOf.mpr ⟨b, h.sub b hb, hb, item?_attr.mpr hc⟩, by simp [namedI]⟩

theorem any_named_of_some {s : St} {cs : List Nat} (h : Inv s cs) {name : String} {a : Nat}
    (hf : findAttr s name = some a) : (absOf s cs).any (namedI name) = true := by
  obtain ⟨ha, e, hc⟩ := findAttr_some hf
  exact (any_named_iff h name).mpr ⟨a, ha, e, hc⟩

theorem any_named_of_none {s : St} {cs : List Nat} (h : Inv s cs) {name : String}
    (hf : findAttr s name = none) : (absOf s cs).any (namedI name) = false := by
  rw [Bool.eq_false_iff]
  intro ht
  obtain ⟨b, hb, e, hc⟩ := (any_named_iff h name).mp ht
  exact findAttr_none hf b hb e hc

/-! ### one step -/

def freshFor (l : List Item) : Op → Prop
  | .appendBlock _ _ id => ∀ i ∈ l, match i with | .block _ _ i' => i' ≠ id | _ => True
  | _ => True

theorem step_sim {s : St} {cs : List Nat} (h : Inv s cs) (op : Op) (hf : freshFor (absOf s cs) op) :
    ∃ cs', Inv (step s op) cs' ∧ absOf (step s op) cs' = specStep (absOf s cs) op := by
  cases op with
  | setAttr name expr =>
    rw [specStep_setAttr]
    simp only [step]
    cases hfa : findAttr s name with
    | some a =>
      obtain ⟨ha, e, hc⟩ := findAttr_some hfa
      rw [any_named_of_some h hfa, if_pos rfl]
      refine ⟨cs, inv_setContent h ha hc name expr (Or.inl rfl) (setI name expr) (by simp [setI]) ?_⟩
      intro it hit
      cases it with
      | attr n e2 =>
        have : n ≠ name := fun e => hit e2 (e ▸ rfl)
        simp [setI, this]
      | block t l i => rfl
    | none =>
      rw [any_named_of_none h hfa]
      simp only [Bool.false_eq_true, if_false]
      refine ⟨cs ++ [s.next], ?_⟩
      have := inv_append_item h (.attr name expr)
        (fun n e hne b hb e' => by injection hne with h1 _; subst h1; exact findAttr_none hfa b hb e')
        (fun t l i hne => by cases hne)
      exact this
  | removeAttr name =>
    rw [specStep_removeAttr]
    simp only [step]
    cases hfa : findAttr s name with
    | some a =>
      obtain ⟨ha, e, hc⟩ := findAttr_some hfa
      refine ⟨cs.filter (fun x => decide (x ≠ a)), (inv_remove h ha).1, ?_⟩
      rw [(inv_remove h ha).2]
      apply remove_filter ha
      · intro it hit
        rw [hc] at hit
        simp only [item?, Option.some.injEq] at hit
        subst hit; simp [notNamedI]
      · intro x hx hxa it hit
        cases it with
        | attr n e2 =>
          have : n ≠ name := fun en => hxa (h.names x hx a ha name e2 e (en ▸ item?_attr.mp hit) hc)
          simp [notNamedI, this]
        | block t l i => rfl
    | none =>
      refine ⟨cs, h, ?_⟩
      symm
      rw [List.filter_eq_self]
      intro it hit
      obtain ⟨b, _, hb, hi⟩ := mem_absOf.mp hit
      cases it with
      | attr n e2 =>
        have : n ≠ name := fun en => findAttr_none hfa b hb e2 (en ▸ item?_attr.mp hi)
        simp [notNamedI, this]
      | block t l i => rfl
  | renameAttr src dst =>
    rw [specStep_renameAttr]
    simp only [step]
    cases hfs : findAttr s src with
    | none =>
      rw [any_named_of_none h hfs]
      exact ⟨cs, h, by simp⟩
    | some a =>
      obtain ⟨ha, e, hc⟩ := findAttr_some hfs
      cases hfd : findAttr s dst with
      | some b =>
        rw [any_named_of_some h hfd]
        exact ⟨cs, h, by simp⟩
      | none =>
        rw [any_named_of_some h hfs, any_named_of_none h hfd]
        simp only [hc, Bool.not_false, Bool.and_self, if_true]
        refine ⟨cs, inv_setContent h ha hc dst e (Or.inr (findAttr_none hfd)) (renI src dst)
          (by simp [renI]) ?_⟩
        intro it hit
        cases it with
        | attr n e2 =>
          have : n ≠ src := fun en => hit e2 (en ▸ rfl)
          simp [renI, this]
        | block t l i => rfl
  | appendBlock type labels id =>
    refine ⟨cs ++ [s.next], ?_⟩
    have := inv_append_item h (.block type labels id)
      (fun n e hne => by cases hne)
      (fun t l i hne b hb t' l' hcb => by
        injection hne with _ _ h3
        have := hf (.block t' l' i) (mem_absOf.mpr ⟨b, h.sub b hb, hb, item?_block.mpr hcb⟩)
        exact this h3.symm)
    exact this
  | removeBlock id =>
    rw [specStep_removeBlock]
    simp only [step]
    cases hfb : findBlock s id with
    | some a =>
      obtain ⟨ha, t, l, hc⟩ := findBlock_some hfb
      refine ⟨cs.filter (fun x => decide (x ≠ a)), (inv_remove h ha).1, ?_⟩
      rw [(inv_remove h ha).2]
      apply remove_filter ha
      · intro it hit
        rw [hc] at hit
        simp only [item?, Option.some.injEq] at hit
        subst hit; simp [notIdI]
      · intro x hx hxa it hit
        cases it with
        | attr n e2 => rfl
        | block t' l' i =>
          have : i ≠ id := fun en => hxa (h.ids x hx a ha t' l' t l id (en ▸ item?_block.mp hit) hc)
          simp [notIdI, this]
    | none =>
      refine ⟨cs, h, ?_⟩
      symm
      rw [List.filter_eq_self]
      intro it hit
      obtain ⟨b, _, hb, hi⟩ := mem_absOf.mp hit
      cases it with
      | attr n e2 => rfl
      | block t' l' i =>
        have : i ≠ id := fun en => findBlock_none hfb b hb t' l' (en ▸ item?_block.mp hi)
        simp [notIdI, this]
  | appendNewline =>
    exact ⟨cs ++ [s.next], inv_append_plain h (.tokens 10)⟩

/-! ### histories -/

theorem freshIds_cons {l : List Item} {op : Op} {rest : List Op} (h : freshIds l (op :: rest)) :
    freshFor l op ∧ freshIds (specStep l op) rest := by
  cases op <;> simp only [freshIds, freshFor] at h ⊢ <;> first | exact h | exact ⟨trivial, h⟩

theorem run_sim (ops : List Op) : ∀ {s : St} {cs : List Nat}, Inv s cs → freshIds (absOf s cs) ops →
    ∃ cs', Inv (runOps s ops) cs' ∧ absOf (runOps s ops) cs' = specRun (absOf s cs) ops := by
  induction ops with
  | nil => intro s cs h _; exact ⟨cs, h, rfl⟩
  | cons op rest ih =>
    intro s cs h hf
    obtain ⟨hf1, hf2⟩ := freshIds_cons hf
    obtain ⟨cs1, h1, e1⟩ := step_sim h op hf1
    rw [← e1] at hf2
    obtain ⟨cs2, h2, e2⟩ := ih h1 hf2
    refine ⟨cs2, h2, ?_⟩
    rw [e1] at e2
    exact e2

theorem wf_of_inv {s : St} {cs : List Nat} (h : Inv s cs) : WellFormed s := by
  unfold WellFormed
  rw [children_eq h.rep]
  exact ⟨h.rep.nodup, h.rep.first, h.rep.last, h.rep.att, fun a _ => h.rep.unatt a, h.rep.link,
    h.sub, h.inodup, h.names⟩

theorem specGet_some {l : List Item} {name : String} {e : Nat}
    (hu : ∀ e', Item.attr name e' ∈ l → e' = e) (hm : Item.attr name e ∈ l) :
    specGetAttribute l name = some e := by
  unfold specGetAttribute
  induction l with
  | nil => cases hm
  | cons it rest ih =>
    rw [List.findSome?_cons]
    cases it with
    | block t ls i =>
      simp only
      apply ih (fun e' h' => hu e' (List.mem_cons_of_mem _ h'))
      simpa using hm
    | attr n e2 =>
      by_cases hn : n = name
      · subst hn
        have : e2 = e := hu e2 (by simp)
        simp [this]
      · have hne : (n == name) = false := by simpa using hn
        simp only [hne, Bool.false_eq_true, if_false]
        apply ih (fun e' h' => hu e' (List.mem_cons_of_mem _ h'))
        have : Item.attr name e ≠ Item.attr n e2 := fun h => hn (by injection h with h1 _; exact h1.symm)
        simpa [this] using hm

theorem get_sim {s : St} {cs : List Nat} (h : Inv s cs) (name : String) :
    getAttribute s name = specGetAttribute (absOf s cs) name := by
  unfold getAttribute
  cases hfa : findAttr s name with
  | some a =>
    obtain ⟨ha, e, hc⟩ := findAttr_some hfa
    simp only [hc]
    symm
    apply specGet_some
    · intro e' hm
      obtain ⟨b, _, hb, hi⟩ := mem_absOf.mp hm
      have := h.names b hb a ha name e' e (item?_attr.mp hi) hc
      subst this
      rw [hc] at hi
      simp only [item?, Option.some.injEq, Item.attr.injEq, true_and] at hi
      exact hi.symm
    · exact mem_absOf.mpr ⟨a, h.sub a ha, ha, item?_attr.mpr hc⟩
  | none =>
    symm
    unfold specGetAttribute
    rw [List.findSome?_eq_none_iff]
    intro it hit
    obtain ⟨b, _, hb, hi⟩ := mem_absOf.mp hit
    cases it with
    | block t l i => rfl
    | attr n e =>
      have : n ≠ name := fun en => findAttr_none hfa b hb e (en ▸ item?_attr.mp hi)
      simp [this]

theorem absOf_init : absOf St.init [] = [] := rfl

/-! ### the results -/

theorem reachable_wellformed (ops : List Op) (h : freshIds [] ops) : WellFormed (runOps St.init ops) := by
  obtain ⟨cs, hi, _⟩ := run_sim ops inv_init (absOf_init ▸ h)
  exact wf_of_inv hi

theorem refines (ops : List Op) (h : freshIds [] ops) : abs (runOps St.init ops) = specRun [] ops := by
  obtain ⟨cs, hi, e⟩ := run_sim ops inv_init (absOf_init ▸ h)
  rw [abs_eq hi.rep, e, absOf_init]

theorem accessor_agrees (ops : List Op) (h : freshIds [] ops) (name : String) :
    getAttribute (runOps St.init ops) name = specGetAttribute (specRun [] ops) name := by
  obtain ⟨cs, hi, e⟩ := run_sim ops inv_init (absOf_init ▸ h)
  rw [get_sim hi name, e, absOf_init]

theorem untouched (l : List Item) (name other : String) (e e' : Nat) (hne : other ≠ name)
    (h : Item.attr name e ∈ l) :
    Item.attr name e ∈ specStep l (.setAttr other e') ∧ Item.attr name e ∈ specStep l (.removeAttr other) := by
  have hno : (name == other) = false := by simpa using Ne.symm hne
  constructor
  · rw [specStep_setAttr]
    split
    · rw [List.mem_map]
      exact ⟨.attr name e, h, by simp [setI, hno]⟩
    · simp [h]
  · rw [specStep_removeAttr, List.mem_filter]
    exact ⟨h, by simp [notNamedI, Ne.symm hne]⟩

end HclModel.Nodes.Proofs
