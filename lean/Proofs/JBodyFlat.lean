import HclModel.Json.Body
import Proofs.BodyNative
import Proofs.JBodyLit
/-!
C03, structure of layouts: the blocks a layout writes, as one flat list (`flatBlocks`), of which the
configuration denoted (`denoteBlocks`) and the blocks `unpackBlock` finds in the rendered JSON value are both
images; what `admBody` gives for each of them.
-/
namespace HclModel.JBody.Proofs
open HclModel HclModel.Body HclModel.Body.Proofs

/-- a block as written: type, labels, layout of the body -/
abbrev FBlock := String × List String × BodyL

mutual
def flatUnder (t : String) (labels : List String) : UnderL → List FBlock
  | .none => []
  | .one props => [(t, labels, .obj props)]
  | .many bodies => bodies.map fun b => (t, labels, b)
  | .labelsObj part => flatLabelProps t labels part
  | .labelsArr parts => flatLabelParts t labels parts
def flatLabelParts (t : String) (labels : List String) : List (List (String × UnderL)) → List FBlock
  | [] => []
  | p :: rest => flatLabelProps t labels p ++ flatLabelParts t labels rest
def flatLabelProps (t : String) (labels : List String) : List (String × UnderL) → List FBlock
  | [] => []
  | (k, u) :: rest => flatUnder t (labels ++ [k]) u ++ flatLabelProps t labels rest
end

def flatBlocks : List PropL → List FBlock
  | [] => []
  | .blocks t u :: rest => flatUnder t [] u ++ flatBlocks rest
  | _ :: rest => flatBlocks rest

/-- the properties of a body in reading order -/
def bodyProps : BodyL → List PropL
  | .obj props => props
  | .arr parts => parts.flatten

/-- the block `unpackBlock` makes -/
def toJ (fb : FBlock) : Block JBodyV := ⟨fb.1, fb.2.1, ⟨renderBody fb.2.2, []⟩⟩
/-- the block denoted -/
def toC (fb : FBlock) : CBlock := .mk fb.1 fb.2.1 (denoteBody fb.2.2)
/-- … as a block of the native body -/
def toN (fb : FBlock) : Block CBlock := ⟨fb.1, fb.2.1, toC fb⟩

mutual
theorem flatUnder_type : ∀ (t : String) (labels : List String) (u : UnderL) (fb : FBlock),
    fb ∈ flatUnder t labels u → fb.1 = t
  | t, labels, .none, fb, h => by simp [flatUnder] at h
  | t, labels, .one props, fb, h => by simp only [flatUnder, List.mem_singleton] at h; rw [h]
  | t, labels, .many bodies, fb, h => by
    simp only [flatUnder, List.mem_map] at h
    obtain ⟨b, _, rfl⟩ := h
    rfl
  | t, labels, .labelsObj part, fb, h => by
    simp only [flatUnder] at h; exact flatLabelProps_type t labels part fb h
  | t, labels, .labelsArr parts, fb, h => by
    simp only [flatUnder] at h; exact flatLabelParts_type t labels parts fb h
theorem flatLabelParts_type : ∀ (t : String) (labels : List String) (parts : List (List (String × UnderL)))
    (fb : FBlock), fb ∈ flatLabelParts t labels parts → fb.1 = t
  | t, labels, [], fb, h => by simp [flatLabelParts] at h
  | t, labels, p :: rest, fb, h => by
    simp only [flatLabelParts, List.mem_append] at h
    rcases h with h | h
    · exact flatLabelProps_type t labels p fb h
    · exact flatLabelParts_type t labels rest fb h
theorem flatLabelProps_type : ∀ (t : String) (labels : List String) (part : List (String × UnderL))
    (fb : FBlock), fb ∈ flatLabelProps t labels part → fb.1 = t
  | t, labels, [], fb, h => by simp [flatLabelProps] at h
  | t, labels, (k, u) :: rest, fb, h => by
    simp only [flatLabelProps, List.mem_append] at h
    rcases h with h | h
    · exact flatUnder_type t (labels ++ [k]) u fb h
    · exact flatLabelProps_type t labels rest fb h
end

/-! ### bodies are their property lists -/

theorem renderProps_append (a b : List PropL) : renderProps (a ++ b) = renderProps a ++ renderProps b := by
  induction a with
  | nil => simp [renderProps]
  | cons p rest ih => cases p <;> simp [renderProps, ih]

theorem denoteAttrs_append (a b : List PropL) : denoteAttrs (a ++ b) = denoteAttrs a ++ denoteAttrs b := by
  induction a with
  | nil => simp [denoteAttrs]
  | cons p rest ih => cases p <;> simp [denoteAttrs, ih]

theorem denoteBlocks_append (a b : List PropL) : denoteBlocks (a ++ b) = denoteBlocks a ++ denoteBlocks b := by
  induction a with
  | nil => simp [denoteBlocks]
  | cons p rest ih => cases p <;> simp [denoteBlocks, ih]

theorem admProps_append (st : STree) (a b : List PropL) :
    admProps st (a ++ b) = (admProps st a && admProps st b) := by
  induction a with
  | nil => simp [admProps]
  | cons p rest ih => cases p <;> simp [admProps, ih, Bool.and_assoc]

theorem denoteAttrsParts_eq (parts : List (List PropL)) : denoteAttrsParts parts = denoteAttrs parts.flatten := by
  induction parts with
  | nil => simp [denoteAttrsParts, denoteAttrs]
  | cons p rest ih => simp [denoteAttrsParts, denoteAttrs_append, ih]

theorem denoteBlocksParts_eq (parts : List (List PropL)) : denoteBlocksParts parts = denoteBlocks parts.flatten := by
  induction parts with
  | nil => simp [denoteBlocksParts, denoteBlocks]
  | cons p rest ih => simp [denoteBlocksParts, denoteBlocks_append, ih]

theorem admParts_eq (st : STree) (parts : List (List PropL)) : admParts st parts = admProps st parts.flatten := by
  induction parts with
  | nil => simp [admParts, admProps]
  | cons p rest ih => simp [admParts, admProps_append, ih]

theorem denoteBody_eq (L : BodyL) :
    denoteBody L = .mk (denoteAttrs (bodyProps L)) (denoteBlocks (bodyProps L)) := by
  cases L with
  | obj props => simp [denoteBody, bodyProps]
  | arr parts => simp [denoteBody, bodyProps, denoteAttrsParts_eq, denoteBlocksParts_eq]

theorem admBody_eq (st : STree) (L : BodyL) :
    admBody st L = (admProps st (bodyProps L) &&
      ((denoteAttrs (bodyProps L)).map (·.1)).eraseDups.length == (denoteAttrs (bodyProps L)).length) := by
  cases L with
  | obj props => simp [admBody, bodyProps]
  | arr parts => simp [admBody, bodyProps, denoteAttrsParts_eq, admParts_eq]

theorem collect_foldl (f : List (String × JV) × Bool → JV → List (String × JV) × Bool)
    (hf : ∀ acc props, f acc (.obj props) = (acc.1 ++ props, acc.2))
    (xs : List (List PropL)) (acc : List (String × JV) × Bool) :
    (renderParts xs).foldl f acc = (acc.1 ++ renderProps xs.flatten, acc.2) := by
  induction xs generalizing acc with
  | nil => simp [renderParts, renderProps]
  | cons p rest ih => simp [renderParts, ih, hf, renderProps_append]

theorem collect_renderBody (L : BodyL) :
    collectDeepAttrs (renderBody L) = (renderProps (bodyProps L), false) := by
  cases L with
  | obj props => simp [renderBody, collectDeepAttrs, bodyProps]
  | arr parts =>
    simp only [renderBody, collectDeepAttrs, bodyProps]
    rw [collect_foldl _ (fun _ _ => rfl)]
    simp

/-! ### the configuration denoted, through the flat list -/

mutual
theorem denoteUnder_eq : ∀ (t : String) (labels : List String) (u : UnderL),
    denoteUnder t labels u = (flatUnder t labels u).map toC
  | t, labels, .none => by simp [denoteUnder, flatUnder]
  | t, labels, .one props => by simp [denoteUnder, flatUnder, toC, denoteBody]
  | t, labels, .many bodies => by
    simp only [denoteUnder, flatUnder, List.map_map]
    induction bodies with
    | nil => simp [denoteMany]
    | cons b rest ih => simp [denoteMany, ih, toC]
  | t, labels, .labelsObj part => by simp only [denoteUnder, flatUnder, denoteLabelProps_eq]
  | t, labels, .labelsArr parts => by simp only [denoteUnder, flatUnder, denoteLabelParts_eq]
theorem denoteLabelParts_eq : ∀ (t : String) (labels : List String) (parts : List (List (String × UnderL))),
    denoteLabelParts t labels parts = (flatLabelParts t labels parts).map toC
  | t, labels, [] => by simp [denoteLabelParts, flatLabelParts]
  | t, labels, p :: rest => by
    simp only [denoteLabelParts, flatLabelParts, List.map_append, denoteLabelProps_eq t labels p,
      denoteLabelParts_eq t labels rest]
theorem denoteLabelProps_eq : ∀ (t : String) (labels : List String) (part : List (String × UnderL)),
    denoteLabelProps t labels part = (flatLabelProps t labels part).map toC
  | t, labels, [] => by simp [denoteLabelProps, flatLabelProps]
  | t, labels, (k, u) :: rest => by
    simp only [denoteLabelProps, flatLabelProps, List.map_append, denoteUnder_eq t (labels ++ [k]) u,
      denoteLabelProps_eq t labels rest]
end

theorem denoteBlocks_eq (ps : List PropL) : denoteBlocks ps = (flatBlocks ps).map toC := by
  induction ps with
  | nil => simp [denoteBlocks, flatBlocks]
  | cons p rest ih => cases p <;> simp [denoteBlocks, flatBlocks, ih, denoteUnder_eq]

theorem native_blocks (L : BodyL) : (denoteBody L).native.blocks = (flatBlocks (bodyProps L)).map toN := by
  rw [denoteBody_eq, denoteBlocks_eq]
  simp only [Cfg.native, Cfg.blocks, List.map_map]
  apply List.map_congr_left
  intro fb _
  simp [toN, toC, CBlock.type, CBlock.labels]

theorem native_attrs (L : BodyL) : (denoteBody L).native.attrs = denoteAttrs (bodyProps L) := by
  rw [denoteBody_eq]; rfl

/-! ### `unpackBlock` on rendered layouts -/

theorem unpack_succ (t : String) (k : Nat) (used : List String) (v : JV) :
    unpackBlock t (k+1) used v =
      if (collectDeepAttrs v).1.isEmpty then
        ([], (if (collectDeepAttrs v).2 then [JErr.incorrectType] else []) ++ [.missingLabel t])
      else
        ((unpackBlock.go t k used (collectDeepAttrs v).1).1,
         (if (collectDeepAttrs v).2 then [JErr.incorrectType] else []) ++
          (unpackBlock.go t k used (collectDeepAttrs v).1).2) := by
  rw [unpackBlock]

theorem unpack_succ_fst (t : String) (k : Nat) (used : List String) (v : JV) :
    (unpackBlock t (k+1) used v).1 = (unpackBlock.go t k used (collectDeepAttrs v).1).1 := by
  rw [unpack_succ]
  by_cases he : (collectDeepAttrs v).1.isEmpty = true
  · rw [if_pos he]
    rw [List.isEmpty_iff] at he
    simp [he, unpackBlock.go]
  · rw [if_neg he]

theorem unpack_succ_snd (t : String) (k : Nat) (used : List String) (v : JV) :
    (unpackBlock t (k+1) used v).2 =
      (if (collectDeepAttrs v).2 then [JErr.incorrectType] else []) ++
        (if (collectDeepAttrs v).1.isEmpty then [.missingLabel t]
         else (unpackBlock.go t k used (collectDeepAttrs v).1).2) := by
  rw [unpack_succ]
  by_cases he : (collectDeepAttrs v).1.isEmpty = true
  · rw [if_pos he, if_pos he]
  · rw [if_neg he, if_neg he]

theorem go_append (t : String) (k : Nat) (used : List String) (a b : List (String × JV)) :
    unpackBlock.go t k used (a ++ b) =
      ((unpackBlock.go t k used a).1 ++ (unpackBlock.go t k used b).1,
       (unpackBlock.go t k used a).2 ++ (unpackBlock.go t k used b).2) := by
  induction a with
  | nil => simp [unpackBlock.go]
  | cons p rest ih =>
    obtain ⟨k', sub⟩ := p
    simp [unpackBlock.go, ih]

/-- the label level written by `u` (for `k+1` labels left): its properties in reading order -/
def labelLevel : UnderL → List (String × UnderL)
  | .labelsObj part => part
  | .labelsArr parts => parts.flatten
  | _ => []

theorem renderLabelProps_append (a b : List (String × UnderL)) :
    renderLabelProps (a ++ b) = renderLabelProps a ++ renderLabelProps b := by
  induction a with
  | nil => simp [renderLabelProps]
  | cons p rest ih => obtain ⟨k, u⟩ := p; simp [renderLabelProps, ih]

theorem collect_labelParts_foldl (f : List (String × JV) × Bool → JV → List (String × JV) × Bool)
    (hf : ∀ acc props, f acc (.obj props) = (acc.1 ++ props, acc.2))
    (xs : List (List (String × UnderL))) (acc : List (String × JV) × Bool) :
    (renderLabelParts xs).foldl f acc = (acc.1 ++ renderLabelProps xs.flatten, acc.2) := by
  induction xs generalizing acc with
  | nil => simp [renderLabelParts, renderLabelProps]
  | cons p rest ih => simp [renderLabelParts, ih, hf, renderLabelProps_append]

/-- the properties read at a label level -/
theorem collect_renderUnder_labels (u : UnderL) (h : ∀ ps, u ≠ .one ps) (h' : ∀ bs, u ≠ .many bs) :
    collectDeepAttrs (renderUnder u) = (renderLabelProps (labelLevel u), false) := by
  cases u with
  | none => simp [renderUnder, collectDeepAttrs, labelLevel, renderLabelProps]
  | one ps => exact absurd rfl (h ps)
  | many bs => exact absurd rfl (h' bs)
  | labelsObj part => simp [renderUnder, collectDeepAttrs, labelLevel]
  | labelsArr parts =>
    simp only [renderUnder, collectDeepAttrs, labelLevel]
    rw [collect_labelParts_foldl _ (fun _ _ => rfl)]
    simp

theorem flatLabelProps_append (t : String) (labels : List String) (a b : List (String × UnderL)) :
    flatLabelProps t labels (a ++ b) = flatLabelProps t labels a ++ flatLabelProps t labels b := by
  induction a with
  | nil => simp [flatLabelProps]
  | cons p rest ih => obtain ⟨k, u⟩ := p; simp [flatLabelProps, ih]

theorem flatLabelParts_eq (t : String) (labels : List String) (parts : List (List (String × UnderL))) :
    flatLabelParts t labels parts = flatLabelProps t labels parts.flatten := by
  induction parts with
  | nil => simp [flatLabelParts, flatLabelProps]
  | cons p rest ih => simp [flatLabelParts, flatLabelProps_append, ih]

theorem admLabelProps_append (cst : STree) (k : Nat) (a b : List (String × UnderL)) :
    admLabelProps cst k (a ++ b) = (admLabelProps cst k a && admLabelProps cst k b) := by
  induction a with
  | nil => simp [admLabelProps]
  | cons p rest ih => obtain ⟨k', u⟩ := p; simp [admLabelProps, ih, Bool.and_assoc]

theorem admLabelParts_eq (cst : STree) (k : Nat) (parts : List (List (String × UnderL))) :
    admLabelParts cst k parts = admLabelProps cst k parts.flatten := by
  induction parts with
  | nil => simp [admLabelParts, admLabelProps]
  | cons p rest ih => simp [admLabelParts, admLabelProps_append, ih]

theorem renderBodies_eq (bodies : List BodyL) : renderBodies bodies = bodies.map renderBody := by
  induction bodies with
  | nil => simp [renderBodies]
  | cons b rest ih => simp [renderBodies, ih]

mutual
/-- the blocks found under a block type name / a label: exactly the blocks written there -/
theorem unpack_blocks : ∀ (cst : STree) (t : String) (k : Nat) (labels : List String) (u : UnderL),
    admUnder cst k u = true →
    (unpackBlock t k labels (renderUnder u)).1 = (flatUnder t labels u).map toJ
  | cst, t, 0, labels, .none, _ => by simp [renderUnder, unpackBlock, flatUnder]
  | cst, t, k+1, labels, .none, _ => by
    simp [renderUnder, unpack_succ_fst, collectDeepAttrs, flatUnder, unpackBlock.go]
  | cst, t, 0, labels, .one props, _ => by simp [renderUnder, unpackBlock, flatUnder, toJ, renderBody]
  | cst, t, 0, labels, .many bodies, _ => by
    simp [renderUnder, unpackBlock, flatUnder, toJ, renderBodies_eq]
  | cst, t, k+1, labels, .labelsObj part, h => by
    simp only [admUnder] at h
    rw [unpack_succ_fst, collect_renderUnder_labels _ (by simp) (by simp)]
    simp only [labelLevel, flatUnder]
    exact go_blocks cst t k labels part h
  | cst, t, k+1, labels, .labelsArr parts, h => by
    simp only [admUnder, admLabelParts_eq] at h
    rw [unpack_succ_fst, collect_renderUnder_labels _ (by simp) (by simp)]
    simp only [labelLevel, flatUnder, flatLabelParts_eq]
    exact go_blocks cst t k labels parts.flatten h
  | cst, t, 0, labels, .labelsObj _, h => by simp [admUnder] at h
  | cst, t, 0, labels, .labelsArr _, h => by simp [admUnder] at h
  | cst, t, k+1, labels, .one _, h => by simp [admUnder] at h
  | cst, t, k+1, labels, .many _, h => by simp [admUnder] at h
theorem go_blocks : ∀ (cst : STree) (t : String) (k : Nat) (labels : List String) (part : List (String × UnderL)),
    admLabelProps cst k part = true →
    (unpackBlock.go t k labels (renderLabelProps part)).1 = (flatLabelProps t labels part).map toJ
  | cst, t, k, labels, [], _ => by simp [renderLabelProps, unpackBlock.go, flatLabelProps]
  | cst, t, k, labels, (k', u) :: rest, h => by
    simp only [admLabelProps, Bool.and_eq_true] at h
    simp only [renderLabelProps, unpackBlock.go, flatLabelProps, List.map_append,
      unpack_blocks cst t k (labels ++ [k']) u h.1, go_blocks cst t k labels rest h.2]
end

end HclModel.JBody.Proofs
