import HclModel.Gohcl.Codec
import Proofs.Decode
/-!
C16, attribute level: `toCty` is total on well-typed values; a value converted to cty, written as a literal and
evaluated again (`reparse`), then converted to the implied type is the cty value itself; `fromCty` inverts
`toCty` on types without pointers.
-/
namespace HclModel.Gohcl.Proofs
open HclModel HclModel.Val HclModel.Body HclModel.Dec.Proofs

/-! ### `toCty` is total on well-typed values -/

mutual
theorem toCty_isSome : ∀ (t : GTy) (v : GVal), hasTy t v = true → (toCty t v).isSome = true
  | .str, .str _, _ => by simp [toCty]
  | .int, .int _, _ => by simp [toCty]
  | .bool, .bool _, _ => by simp [toCty]
  | .slice _, .slice none, _ => by simp [toCty]
  | .slice t, .slice (some xs), h => by
    simp only [hasTy] at h
    have := toCtyList_isSome t xs h
    simp only [toCty, Option.isSome_map, this]
  | .map _, .map none, _ => by simp [toCty]
  | .map t, .map (some kvs), h => by
    simp only [hasTy, Bool.and_eq_true] at h
    have := toCtyFields_isSome t kvs h.1
    simp only [toCty, Option.isSome_map, this]
  | .ptr _, .ptr none, _ => by simp [toCty]
  | .ptr t, .ptr (some v), h => by
    simp only [hasTy] at h
    simpa only [toCty] using toCty_isSome t v h
  | .str, .int _, h | .str, .bool _, h | .str, .slice _, h | .str, .map _, h | .str, .ptr _, h
  | .int, .str _, h | .int, .bool _, h | .int, .slice _, h | .int, .map _, h | .int, .ptr _, h
  | .bool, .str _, h | .bool, .int _, h | .bool, .slice _, h | .bool, .map _, h | .bool, .ptr _, h
  | .slice _, .str _, h | .slice _, .int _, h | .slice _, .bool _, h | .slice _, .map _, h | .slice _, .ptr _, h
  | .map _, .str _, h | .map _, .int _, h | .map _, .bool _, h | .map _, .slice _, h | .map _, .ptr _, h
  | .ptr _, .str _, h | .ptr _, .int _, h | .ptr _, .bool _, h | .ptr _, .slice _, h | .ptr _, .map _, h => by
    simp [hasTy] at h
theorem toCtyList_isSome : ∀ (t : GTy) (xs : List GVal), hasTyList t xs = true → (toCtyList t xs).isSome = true
  | _, [], _ => by simp [toCtyList]
  | t, x :: rest, h => by
    simp only [hasTyList, Bool.and_eq_true] at h
    have h1 := toCty_isSome t x h.1
    have h2 := toCtyList_isSome t rest h.2
    rw [Option.isSome_iff_exists] at h1 h2
    obtain ⟨a, ha⟩ := h1
    obtain ⟨b, hb⟩ := h2
    simp [toCtyList, ha, hb]
theorem toCtyFields_isSome : ∀ (t : GTy) (kvs : List (String × GVal)), hasTyFields t kvs = true →
    (toCtyFields t kvs).isSome = true
  | _, [], _ => by simp [toCtyFields]
  | t, (k, x) :: rest, h => by
    simp only [hasTyFields, Bool.and_eq_true] at h
    have h1 := toCty_isSome t x h.1
    have h2 := toCtyFields_isSome t rest h.2
    rw [Option.isSome_iff_exists] at h1 h2
    obtain ⟨a, ha⟩ := h1
    obtain ⟨b, hb⟩ := h2
    simp [toCtyFields, ha, hb]
end

/-! ### conversion of a reparsed literal -/

theorem ctyTy_beq_dyn (t : GTy) : (ctyTy t == Ty.dyn) = false := by
  induction t <;> simp_all [ctyTy, BEq.beq, Ty.beq]

theorem dyn_beq_ctyTy (t : GTy) : (Ty.dyn == ctyTy t) = false := by
  induction t <;> simp_all [ctyTy, BEq.beq, Ty.beq]

theorem ctyTy_ne_dyn (t : GTy) : ctyTy t ≠ Ty.dyn := by
  induction t <;> simp_all [ctyTy]

/-- the untyped null converts to the null of any (non-dynamic) type -/
theorem convert_null_dyn (f : Fl) (t : GTy) : convert (.null f .dyn) (ctyTy t) = .ok (.null f (ctyTy t)) := by
  rw [convert.eq_def]
  simp only [typeOf, dyn_beq_ctyTy, Bool.false_eq_true, if_false]
  split
  · rename_i h; exact absurd h (ctyTy_ne_dyn t)
  · have : convertible .dyn (ctyTy t) = some true := by
      rw [convertible.eq_def]; split <;> simp_all
    simp only [this]; rfl

theorem convert_tuple_list (f : Fl) (xs : List Val) (b : Ty) :
    convert (.tuple f xs) (.list b) = (convertList xs b >>= fun ys => pure (.list f b ys)) := by
  rw [convert.eq_def]
  have : (typeOf (.tuple f xs) == Ty.list b) = false := by simp [typeOf, BEq.beq, Ty.beq]
  simp only [this, Bool.false_eq_true, if_false]

theorem convert_object_map (f : Fl) (kvs : List (String × Val)) (b : Ty) :
    convert (.object f kvs) (.map b) = (convertFields kvs b >>= fun ys => pure (.map f b ys)) := by
  rw [convert.eq_def]
  have : (typeOf (.object f kvs) == Ty.map b) = false := by simp [typeOf, BEq.beq, Ty.beq]
  simp only [this, Bool.false_eq_true, if_false]

mutual
/-- a cty value produced by `toCty`, written out, read back and converted to the implied type, is itself -/
theorem convert_reparse : ∀ (t : GTy) (v : GVal) (c : Val), toCty t v = some c →
    convert (reparse c) (ctyTy t) = .ok c
  | .str, .str s, c, h => by
    simp only [toCty, Option.some.injEq] at h; subst h
    exact convert_self _ _ rfl
  | .int, .int n, c, h => by
    simp only [toCty, Option.some.injEq] at h; subst h
    exact convert_self _ _ rfl
  | .bool, .bool b, c, h => by
    simp only [toCty, Option.some.injEq] at h; subst h
    exact convert_self _ _ rfl
  | .slice t, .slice none, c, h => by
    simp only [toCty, Option.some.injEq] at h; subst h
    exact convert_null_dyn _ (.slice t)
  | .slice t, .slice (some xs), c, h => by
    simp only [toCty, Option.map_eq_some_iff] at h
    obtain ⟨vs, hvs, rfl⟩ := h
    simp only [reparse, ctyTy, convert_tuple_list, convertList_reparse t xs vs hvs]
    rfl
  | .map t, .map none, c, h => by
    simp only [toCty, Option.some.injEq] at h; subst h
    exact convert_null_dyn _ (.map t)
  | .map t, .map (some kvs), c, h => by
    simp only [toCty, Option.map_eq_some_iff] at h
    obtain ⟨vs, hvs, rfl⟩ := h
    simp only [reparse, ctyTy, convert_object_map, convertFields_reparse t kvs vs hvs]
    rfl
  | .ptr t, .ptr none, c, h => by
    simp only [toCty, Option.some.injEq] at h; subst h
    exact convert_null_dyn _ (.ptr t)
  | .ptr t, .ptr (some v), c, h => by
    simp only [toCty] at h
    exact convert_reparse t v c h
  | .str, .int _, _, h | .str, .bool _, _, h | .str, .slice _, _, h | .str, .map _, _, h | .str, .ptr _, _, h
  | .int, .str _, _, h | .int, .bool _, _, h | .int, .slice _, _, h | .int, .map _, _, h | .int, .ptr _, _, h
  | .bool, .str _, _, h | .bool, .int _, _, h | .bool, .slice _, _, h | .bool, .map _, _, h | .bool, .ptr _, _, h
  | .slice _, .str _, _, h | .slice _, .int _, _, h | .slice _, .bool _, _, h | .slice _, .map _, _, h
  | .slice _, .ptr _, _, h
  | .map _, .str _, _, h | .map _, .int _, _, h | .map _, .bool _, _, h | .map _, .slice _, _, h
  | .map _, .ptr _, _, h
  | .ptr _, .str _, _, h | .ptr _, .int _, _, h | .ptr _, .bool _, _, h | .ptr _, .slice _, _, h
  | .ptr _, .map _, _, h => by
    simp [toCty] at h
theorem convertList_reparse : ∀ (t : GTy) (xs : List GVal) (vs : List Val), toCtyList t xs = some vs →
    convertList (reparseList vs) (ctyTy t) = .ok vs
  | _, [], vs, h => by
    simp only [toCtyList, Option.some.injEq] at h; subst h
    simp only [reparseList]; rw [convertList.eq_def]; rfl
  | t, x :: rest, vs, h => by
    simp only [toCtyList] at h
    split at h
    · rename_i v vs' hv hvs
      simp only [Option.some.injEq] at h; subst h
      simp only [reparseList]
      rw [convertList.eq_def]
      simp only [ctyTy_beq_dyn, Bool.false_eq_true, if_false, convert_reparse t x v hv,
        convertList_reparse t rest vs' hvs]
      rfl
    · simp at h
theorem convertFields_reparse : ∀ (t : GTy) (kvs : List (String × GVal)) (vs : List (String × Val)),
    toCtyFields t kvs = some vs → convertFields (reparseFields vs) (ctyTy t) = .ok vs
  | _, [], vs, h => by
    simp only [toCtyFields, Option.some.injEq] at h; subst h
    simp only [reparseFields]; rw [convertFields.eq_def]; rfl
  | t, (k, x) :: rest, vs, h => by
    simp only [toCtyFields] at h
    split at h
    · rename_i v vs' hv hvs
      simp only [Option.some.injEq] at h; subst h
      simp only [reparseFields]
      rw [convertFields.eq_def]
      simp only [ctyTy_beq_dyn, Bool.false_eq_true, if_false, convert_reparse t x v hv,
        convertFields_reparse t rest vs' hvs]
      rfl
    · simp at h
end

/-! ### `fromCty` inverts `toCty` (no pointers) -/

mutual
theorem fromCty_toCty : ∀ (t : GTy) (v : GVal) (c : Val), noPtr t = true → hasTy t v = true → toCty t v = some c →
    fromCty t c = some v
  | .str, .str s, c, _, _, h => by
    simp only [toCty, Option.some.injEq] at h; subst h; simp [fromCty]
  | .int, .int n, c, _, ht, h => by
    simp only [toCty, Option.some.injEq] at h; subst h
    simp only [hasTy, decide_eq_true_eq] at ht
    simp [fromCty, ht]
  | .bool, .bool b, c, _, _, h => by
    simp only [toCty, Option.some.injEq] at h; subst h; simp [fromCty]
  | .slice t, .slice none, c, _, _, h => by
    simp only [toCty, Option.some.injEq] at h; subst h; simp [fromCty]
  | .slice t, .slice (some xs), c, hp, ht, h => by
    simp only [toCty, Option.map_eq_some_iff] at h
    obtain ⟨vs, hvs, rfl⟩ := h
    simp only [noPtr] at hp
    simp only [hasTy] at ht
    simp [fromCty, fromCtyList_toCtyList t xs vs hp ht hvs]
  | .map t, .map none, c, _, _, h => by
    simp only [toCty, Option.some.injEq] at h; subst h; simp [fromCty]
  | .map t, .map (some kvs), c, hp, ht, h => by
    simp only [toCty, Option.map_eq_some_iff] at h
    obtain ⟨vs, hvs, rfl⟩ := h
    simp only [noPtr] at hp
    simp only [hasTy, Bool.and_eq_true] at ht
    simp [fromCty, fromCtyFields_toCtyFields t kvs vs hp ht.1 hvs]
  | .ptr _, _, _, hp, _, _ => by simp [noPtr] at hp
  | .str, .int _, _, _, _, h | .str, .bool _, _, _, _, h | .str, .slice _, _, _, _, h | .str, .map _, _, _, _, h
  | .str, .ptr _, _, _, _, h
  | .int, .str _, _, _, _, h | .int, .bool _, _, _, _, h | .int, .slice _, _, _, _, h | .int, .map _, _, _, _, h
  | .int, .ptr _, _, _, _, h
  | .bool, .str _, _, _, _, h | .bool, .int _, _, _, _, h | .bool, .slice _, _, _, _, h | .bool, .map _, _, _, _, h
  | .bool, .ptr _, _, _, _, h
  | .slice _, .str _, _, _, _, h | .slice _, .int _, _, _, _, h | .slice _, .bool _, _, _, _, h
  | .slice _, .map _, _, _, _, h | .slice _, .ptr _, _, _, _, h
  | .map _, .str _, _, _, _, h | .map _, .int _, _, _, _, h | .map _, .bool _, _, _, _, h
  | .map _, .slice _, _, _, _, h | .map _, .ptr _, _, _, _, h => by
    simp [toCty] at h
theorem fromCtyList_toCtyList : ∀ (t : GTy) (xs : List GVal) (vs : List Val), noPtr t = true →
    hasTyList t xs = true → toCtyList t xs = some vs → fromCtyList t vs = some xs
  | _, [], vs, _, _, h => by
    simp only [toCtyList, Option.some.injEq] at h; subst h; simp [fromCtyList]
  | t, x :: rest, vs, hp, ht, h => by
    simp only [toCtyList] at h
    simp only [hasTyList, Bool.and_eq_true] at ht
    split at h
    · rename_i v vs' hv hvs
      simp only [Option.some.injEq] at h; subst h
      simp [fromCtyList, fromCty_toCty t x v hp ht.1 hv, fromCtyList_toCtyList t rest vs' hp ht.2 hvs]
    · simp at h
theorem fromCtyFields_toCtyFields : ∀ (t : GTy) (kvs : List (String × GVal)) (vs : List (String × Val)),
    noPtr t = true → hasTyFields t kvs = true → toCtyFields t kvs = some vs → fromCtyFields t vs = some kvs
  | _, [], vs, _, _, h => by
    simp only [toCtyFields, Option.some.injEq] at h; subst h; simp [fromCtyFields]
  | t, (k, x) :: rest, vs, hp, ht, h => by
    simp only [toCtyFields] at h
    simp only [hasTyFields, Bool.and_eq_true] at ht
    split at h
    · rename_i v vs' hv hvs
      simp only [Option.some.injEq] at h; subst h
      simp [fromCtyFields, fromCty_toCty t x v hp ht.1 hv, fromCtyFields_toCtyFields t rest vs' hp ht.2 hvs]
    · simp at h
end

/-- `Props/C16.lean`, `attr_roundtrip` -/
theorem attr_roundtrip (t : GTy) (v : GVal) (c : Val) (ht : hasTy t v = true) (hp : noPtr t = true)
    (hc : toCty t v = some c) : decodeExpr t (reparse c) = some v := by
  simp only [decodeExpr, convert_reparse t v c hc, fromCty_toCty t v c hp ht hc]

end HclModel.Gohcl.Proofs
