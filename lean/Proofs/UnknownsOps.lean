import Proofs.UnknownsConc
/-!
`convert` and the operator functions: known-in-known-out, result types, well-typedness, monotonicity for `conc`.
-/
set_option linter.unusedSimpArgs false
namespace HclModel.Proofs.Unk
open Val

/-! ### equations for the list forms of `convert` -/

theorem bind_ok {α β : Type} {x : R α} {f : α → R β} {r : β} :
    (x >>= f) = .ok r ↔ ∃ a, x = .ok a ∧ f a = .ok r := by
  cases x <;> simp [bind, Except.bind]

theorem convertList_nil (t : Ty) : convertList [] t = .ok [] := by
  rw [convertList.eq_def]; rfl

theorem convertList_cons_ok {x : Val} {xs : List Val} {t : Ty} {r : List Val} :
    convertList (x :: xs) t = .ok r ↔
      t ≠ .dyn ∧ ∃ y ys, convert x t = .ok y ∧ convertList xs t = .ok ys ∧ r = y :: ys := by
  rw [convertList.eq_def]
  by_cases ht : t = .dyn
  · subst ht; simp [bind, Except.bind, throw, throwThe, MonadExceptOf.throw]
  · have : (t == Ty.dyn) = false := by simpa using ht
    simp only [this]
    constructor
    · intro h
      obtain ⟨y, hy, h⟩ := bind_ok.mp h
      obtain ⟨ys, hys, h⟩ := bind_ok.mp h
      refine ⟨ht, y, ys, hy, hys, ?_⟩
      simp [pure, Except.pure] at h; exact h.symm
    · rintro ⟨_, y, ys, hy, hys, rfl⟩
      simp [hy, hys, bind, Except.bind, pure, Except.pure]

theorem convertFields_nil (t : Ty) : convertFields [] t = .ok [] := by
  rw [convertFields.eq_def]; rfl

theorem convertFields_cons_ok {k : String} {x : Val} {xs : List (String × Val)} {t : Ty}
    {r : List (String × Val)} :
    convertFields ((k, x) :: xs) t = .ok r ↔
      t ≠ .dyn ∧ ∃ y ys, convert x t = .ok y ∧ convertFields xs t = .ok ys ∧ r = (k, y) :: ys := by
  rw [convertFields.eq_def]
  by_cases ht : t = .dyn
  · subst ht; simp [bind, Except.bind, throw, throwThe, MonadExceptOf.throw]
  · have : (t == Ty.dyn) = false := by simpa using ht
    simp only [this]
    constructor
    · intro h
      obtain ⟨y, hy, h⟩ := bind_ok.mp h
      obtain ⟨ys, hys, h⟩ := bind_ok.mp h
      refine ⟨ht, y, ys, hy, hys, ?_⟩
      simp [pure, Except.pure] at h; exact h.symm
    · rintro ⟨_, y, ys, hy, hys, rfl⟩
      simp [hy, hys, bind, Except.bind, pure, Except.pure]

theorem convertPair_cons_ok {x : Val} {xs : List Val} {t : Ty} {ts : List Ty} {r : List Val} :
    convertPair (x :: xs) (t :: ts) = .ok r ↔
      ∃ y ys, convert x t = .ok y ∧ convertPair xs ts = .ok ys ∧ r = y :: ys := by
  rw [convertPair.eq_def]
  simp only
  constructor
  · intro h
    obtain ⟨y, hy, h⟩ := bind_ok.mp h
    obtain ⟨ys, hys, h⟩ := bind_ok.mp h
    refine ⟨y, ys, hy, hys, ?_⟩
    simp [pure, Except.pure] at h; exact h.symm
  · rintro ⟨y, ys, hy, hys, rfl⟩
    simp [hy, hys, bind, Except.bind, pure, Except.pure]

theorem convertPair_nil_left (ts : List Ty) : convertPair [] ts = .ok [] := by
  rw [convertPair.eq_def]; rfl
theorem convertPair_nil_right (xs : List Val) : convertPair xs [] = .ok [] := by
  rw [convertPair.eq_def]; cases xs <;> rfl

theorem convertFieldsTo_cons_ok {k l : String} {x : Val} {xs : List (String × Val)} {t : Ty}
    {ts : List (String × Ty)} {r : List (String × Val)} :
    convertFieldsTo ((k, x) :: xs) ((l, t) :: ts) = .ok r ↔
      ∃ y ys, convert x t = .ok y ∧ convertFieldsTo xs ts = .ok ys ∧ r = (k, y) :: ys := by
  rw [convertFieldsTo.eq_def]
  simp only
  constructor
  · intro h
    obtain ⟨y, hy, h⟩ := bind_ok.mp h
    obtain ⟨ys, hys, h⟩ := bind_ok.mp h
    refine ⟨y, ys, hy, hys, ?_⟩
    simp [pure, Except.pure] at h; exact h.symm
  · rintro ⟨y, ys, hy, hys, rfl⟩
    simp [hy, hys, bind, Except.bind, pure, Except.pure]

theorem convertFieldsTo_nil_left (ts : List (String × Ty)) : convertFieldsTo [] ts = .ok [] := by
  rw [convertFieldsTo.eq_def]; rfl
theorem convertFieldsTo_nil_right (xs : List (String × Val)) : convertFieldsTo xs [] = .ok [] := by
  rw [convertFieldsTo.eq_def]; cases xs <;> rfl

theorem convert_id {v : Val} {t : Ty} (h : v.typeOf = t) : convert v t = .ok v := by
  rw [convert.eq_def]; simp [h]; rfl

theorem convert_dyn (v : Val) : convert v .dyn = .ok v := by
  rw [convert.eq_def]; split <;> rfl

theorem convertPair_id : ∀ (xs : List Val), convertPair xs (typeOfList xs) = .ok xs
  | [] => convertPair_nil_left _
  | x :: xs => by
    simp only [typeOfList]
    exact convertPair_cons_ok.mpr ⟨x, xs, convert_id rfl, convertPair_id xs, rfl⟩

theorem convertFieldsTo_id : ∀ (xs : List (String × Val)), convertFieldsTo xs (typeOfFields xs) = .ok xs
  | [] => convertFieldsTo_nil_left _
  | (k, x) :: xs => by
    simp only [typeOfFields]
    exact convertFieldsTo_cons_ok.mpr ⟨x, xs, convert_id rfl, convertFieldsTo_id xs, rfl⟩

theorem sameKeys_typeOfFields : ∀ (xs : List (String × Val)), sameKeys xs (typeOfFields xs) = true
  | [] => rfl
  | (k, x) :: xs => by simp [typeOfFields, sameKeys, sameKeys_typeOfFields xs]

/-! ### inversion of `convert` by constructor -/

theorem convert_unk_inv {f : Fl} {s t : Ty} {v' : Val} (h : convert (.unk f s) t = .ok v') :
    (t = .dyn ∧ v' = .unk f s) ∨ v' = .unk f t := by
  rw [convert.eq_def] at h
  by_cases hty : s = t
  · subst hty; simp [typeOf, pure, Except.pure] at h; exact Or.inr h.symm
  · have : (typeOf (.unk f s) == t) = false := by simpa [typeOf] using hty
    simp only [this] at h
    cases t <;> simp [pure, Except.pure] at h
    case dyn => exact Or.inl ⟨rfl, h.symm⟩
    all_goals (split at h <;> simp [throw, throwThe, MonadExceptOf.throw] at h; exact Or.inr h.symm)

theorem convert_null_inv {f : Fl} {s t : Ty} {v' : Val} (h : convert (.null f s) t = .ok v') :
    (t = .dyn ∧ v' = .null f s) ∨ v' = .null f t := by
  rw [convert.eq_def] at h
  by_cases hty : s = t
  · subst hty; simp [typeOf, pure, Except.pure] at h; exact Or.inr h.symm
  · have : (typeOf (.null f s) == t) = false := by simpa [typeOf] using hty
    simp only [this] at h
    cases t <;> simp [pure, Except.pure] at h
    case dyn => exact Or.inl ⟨rfl, h.symm⟩
    all_goals (split at h <;> simp [throw, throwThe, MonadExceptOf.throw] at h; exact Or.inr h.symm)

def isFlat : Val → Bool
  | .list _ _ _ | .map _ _ _ | .tuple _ _ | .object _ _ => false
  | _ => true

/-- the flags of a non-collection value pass through `convert` unchanged -/
theorem convert_setFl_flat (a : Val) (f : Fl) (t : Ty) (hf : isFlat a = true) :
    convert (a.setFl f) t = (convert a t).map (fun x => x.setFl f) := by
  by_cases hty : a.typeOf = t
  · rw [convert_id hty, convert_id (by simpa using hty)]; rfl
  · have h1 : (typeOf a == t) = false := by simpa using hty
    have h2 : (typeOf (a.setFl f) == t) = false := by simpa using hty
    rw [convert.eq_def, convert.eq_def]
    simp only [h1, h2]
    cases a <;> simp [isFlat] at hf <;> cases t <;>
      simp [setFl, Except.map, pure, Except.pure, throw, throwThe, MonadExceptOf.throw]
    all_goals (try split) <;> (try split) <;> simp_all
    all_goals (try (subst_vars; rfl))

theorem convert_list_inv {f : Fl} {u t : Ty} {xs : List Val} {v' : Val}
    (h : convert (.list f u xs) t = .ok v') :
    ((t = .dyn ∨ t = .list u) ∧ v' = .list f u xs) ∨
      (∃ b ys, t = .list b ∧ convertList xs b = .ok ys ∧ v' = .list f b ys) := by
  by_cases hty : Ty.list u = t
  · subst hty; rw [convert_id (by simp [typeOf])] at h; cases h; exact Or.inl ⟨Or.inr rfl, rfl⟩
  · have h1 : (typeOf (.list f u xs) == t) = false := by simpa [typeOf] using hty
    rw [convert.eq_def] at h
    simp only [h1] at h
    cases t <;> simp [pure, Except.pure, throw, throwThe, MonadExceptOf.throw, Ty.isPrim] at h
    case dyn => exact Or.inl ⟨Or.inl rfl, h.symm⟩
    case list b =>
      obtain ⟨ys, hys, h⟩ := bind_ok.mp h
      simp [pure, Except.pure] at h
      exact Or.inr ⟨b, ys, rfl, hys, h.symm⟩

theorem convert_map_inv {f : Fl} {u t : Ty} {xs : List (String × Val)} {v' : Val}
    (h : convert (.map f u xs) t = .ok v') :
    ((t = .dyn ∨ t = .map u) ∧ v' = .map f u xs) ∨
      (∃ b ys, t = .map b ∧ convertFields xs b = .ok ys ∧ v' = .map f b ys) := by
  by_cases hty : Ty.map u = t
  · subst hty; rw [convert_id (by simp [typeOf])] at h; cases h; exact Or.inl ⟨Or.inr rfl, rfl⟩
  · have h1 : (typeOf (.map f u xs) == t) = false := by simpa [typeOf] using hty
    rw [convert.eq_def] at h
    simp only [h1] at h
    cases t <;> simp [pure, Except.pure, throw, throwThe, MonadExceptOf.throw, Ty.isPrim] at h
    case dyn => exact Or.inl ⟨Or.inl rfl, h.symm⟩
    case map b =>
      obtain ⟨ys, hys, h⟩ := bind_ok.mp h
      simp [pure, Except.pure] at h
      exact Or.inr ⟨b, ys, rfl, hys, h.symm⟩

theorem convert_tuple_inv {f : Fl} {t : Ty} {xs : List Val} {v' : Val}
    (h : convert (.tuple f xs) t = .ok v') :
    (t = .dyn ∧ v' = .tuple f xs) ∨
      (∃ b ys, t = .list b ∧ convertList xs b = .ok ys ∧ v' = .list f b ys) ∨
      (∃ bs ys, t = .tuple bs ∧ xs.length = bs.length ∧ convertPair xs bs = .ok ys ∧ v' = .tuple f ys) := by
  by_cases hty : Ty.tuple (typeOfList xs) = t
  · subst hty; rw [convert_id (by simp [typeOf])] at h; cases h
    exact Or.inr (Or.inr ⟨_, _, rfl, (typeOfList_length xs).symm, convertPair_id xs, rfl⟩)
  · have h1 : (typeOf (.tuple f xs) == t) = false := by simpa [typeOf] using hty
    rw [convert.eq_def] at h
    simp only [h1] at h
    cases t <;> simp [pure, Except.pure, throw, throwThe, MonadExceptOf.throw, Ty.isPrim] at h
    case dyn => exact Or.inl ⟨rfl, h.symm⟩
    case list b =>
      obtain ⟨ys, hys, h⟩ := bind_ok.mp h
      simp [pure, Except.pure] at h
      exact Or.inr (Or.inl ⟨b, ys, rfl, hys, h.symm⟩)
    case tuple bs =>
      split at h
      · rename_i hl
        obtain ⟨ys, hys, h⟩ := bind_ok.mp h
        simp [pure, Except.pure] at h
        exact Or.inr (Or.inr ⟨bs, ys, rfl, hl, hys, h.symm⟩)
      · simp at h

theorem convert_object_inv {f : Fl} {t : Ty} {xs : List (String × Val)} {v' : Val}
    (h : convert (.object f xs) t = .ok v') :
    (t = .dyn ∧ v' = .object f xs) ∨
      (∃ b ys, t = .map b ∧ convertFields xs b = .ok ys ∧ v' = .map f b ys) ∨
      (∃ gs ys, t = .object gs ∧ sameKeys xs gs = true ∧ convertFieldsTo xs gs = .ok ys ∧ v' = .object f ys) := by
  by_cases hty : Ty.object (typeOfFields xs) = t
  · subst hty; rw [convert_id (by simp [typeOf])] at h; cases h
    exact Or.inr (Or.inr ⟨_, _, rfl, sameKeys_typeOfFields xs, convertFieldsTo_id xs, rfl⟩)
  · have h1 : (typeOf (.object f xs) == t) = false := by simpa [typeOf] using hty
    rw [convert.eq_def] at h
    simp only [h1] at h
    cases t <;> simp [pure, Except.pure, throw, throwThe, MonadExceptOf.throw, Ty.isPrim] at h
    case dyn => exact Or.inl ⟨rfl, h.symm⟩
    case map b =>
      obtain ⟨ys, hys, h⟩ := bind_ok.mp h
      simp [pure, Except.pure] at h
      exact Or.inr (Or.inl ⟨b, ys, rfl, hys, h.symm⟩)
    case object gs =>
      split at h
      · rename_i hl
        obtain ⟨ys, hys, h⟩ := bind_ok.mp h
        simp [pure, Except.pure] at h
        exact Or.inr (Or.inr ⟨gs, ys, rfl, hl, hys, h.symm⟩)
      · simp at h

/-! ### what `convert` preserves -/

theorem convert_flat {v : Val} {t : Ty} {v' : Val} (hf : isFlat v = true) (h : convert v t = .ok v') :
    isFlat v' = true ∧ v'.isKnown = v.isKnown ∧ v'.isNull = v.isNull ∧
      ((t = .dyn ∧ v' = v) ∨ typeOf v' = t) := by
  by_cases hty : v.typeOf = t
  · rw [convert_id hty] at h; cases h; exact ⟨hf, rfl, rfl, Or.inr hty⟩
  · have h1 : (typeOf v == t) = false := by simpa using hty
    rw [convert.eq_def] at h
    simp only [h1] at h
    cases v <;> simp [isFlat] at hf <;> cases t <;>
      simp [pure, Except.pure, throw, throwThe, MonadExceptOf.throw] at h
    all_goals (try split at h) <;> (try split at h) <;> simp_all [isFlat, isKnown, isNull, typeOf]
    all_goals (try (subst_vars; simp [isFlat, isKnown, isNull, typeOf]))

theorem whollyKnown_flat {v : Val} (hf : isFlat v = true) : whollyKnown v = isKnown v := by
  cases v <;> simp_all [isFlat, whollyKnown, isKnown]
theorem wfVal_flat {v : Val} (hf : isFlat v = true) : wfVal v = true := by
  cases v <;> simp_all [isFlat, wfVal]

theorem wfList_of_wfElems {t : Ty} {xs : List Val} (h : wfElems t xs = true) : wfList xs = true :=
  wfList_of_mem fun x hx => (wfElems_mem h x hx).2
theorem wfFields_of_wfElemsF {t : Ty} {xs : List (String × Val)} (h : wfElemsF t xs = true) : wfFields xs = true :=
  wfFields_of_mem fun x hx => (wfElemsF_mem h x hx).2

/-- what `convert` preserves / establishes, for one value -/
def ConvP (v : Val) (t : Ty) (v' : Val) : Prop :=
  v'.isKnown = v.isKnown ∧ v'.isNull = v.isNull ∧ (whollyKnown v = true → whollyKnown v' = true) ∧
    (t.noDyn = true → typeOf v' = t ∧ (wfVal v = true → wfVal v' = true))

theorem ConvP_flat {v : Val} {t : Ty} {v' : Val} (hf : isFlat v = true) (h : convert v t = .ok v') :
    ConvP v t v' := by
  obtain ⟨h1, h2, h3, h4⟩ := convert_flat hf h
  refine ⟨h2, h3, ?_, ?_⟩
  · rw [whollyKnown_flat hf, whollyKnown_flat h1, h2]; exact id
  · intro hn
    refine ⟨?_, fun _ => wfVal_flat h1⟩
    rcases h4 with ⟨rfl, _⟩ | h4
    · simp [Ty.noDyn] at hn
    · exact h4

mutual
theorem convert_props : ∀ (v : Val) (t : Ty) (v' : Val), convert v t = .ok v' → ConvP v t v'
  | .unk f s, t, v', h => ConvP_flat rfl h
  | .null f s, t, v', h => ConvP_flat rfl h
  | .str f s, t, v', h => ConvP_flat rfl h
  | .num f s, t, v', h => ConvP_flat rfl h
  | .bool f s, t, v', h => ConvP_flat rfl h
  | .list f u xs, t, v', h => by
    rcases convert_list_inv h with ⟨ht, rfl⟩ | ⟨b, ys, rfl, hys, rfl⟩
    · refine ⟨rfl, rfl, id, fun hn => ⟨?_, id⟩⟩
      rcases ht with rfl | rfl
      · simp [Ty.noDyn] at hn
      · rfl
    · obtain ⟨p1, p2⟩ := convertList_props xs b ys hys
      refine ⟨rfl, rfl, ?_, fun hn => ⟨rfl, ?_⟩⟩
      · simpa [whollyKnown] using p1
      · simp only [wfVal, Ty.noDyn] at hn ⊢
        exact fun hw => p2 hn (wfList_of_wfElems hw)
  | .map f u xs, t, v', h => by
    rcases convert_map_inv h with ⟨ht, rfl⟩ | ⟨b, ys, rfl, hys, rfl⟩
    · refine ⟨rfl, rfl, id, fun hn => ⟨?_, id⟩⟩
      rcases ht with rfl | rfl
      · simp [Ty.noDyn] at hn
      · rfl
    · obtain ⟨p1, p2⟩ := convertFields_props xs b ys hys
      refine ⟨rfl, rfl, ?_, fun hn => ⟨rfl, ?_⟩⟩
      · simpa [whollyKnown] using p1
      · simp only [wfVal, Ty.noDyn] at hn ⊢
        exact fun hw => p2 hn (wfFields_of_wfElemsF hw)
  | .tuple f xs, t, v', h => by
    rcases convert_tuple_inv h with ⟨rfl, rfl⟩ | ⟨b, ys, rfl, hys, rfl⟩ | ⟨bs, ys, rfl, hl, hys, rfl⟩
    · exact ⟨rfl, rfl, id, fun hn => by simp [Ty.noDyn] at hn⟩
    · obtain ⟨p1, p2⟩ := convertList_props xs b ys hys
      refine ⟨rfl, rfl, ?_, fun hn => ⟨rfl, ?_⟩⟩
      · simpa [whollyKnown] using p1
      · simp only [wfVal, Ty.noDyn] at hn ⊢
        exact fun hw => p2 hn hw
    · obtain ⟨p1, p2⟩ := convertPair_props xs bs ys hl hys
      refine ⟨rfl, rfl, ?_, fun hn => ?_⟩
      · simpa [whollyKnown] using p1
      · simp only [wfVal, Ty.noDyn, typeOf] at hn ⊢
        obtain ⟨q1, q2⟩ := p2 hn
        exact ⟨by rw [q1], q2⟩
  | .object f xs, t, v', h => by
    rcases convert_object_inv h with ⟨rfl, rfl⟩ | ⟨b, ys, rfl, hys, rfl⟩ | ⟨bs, ys, rfl, hl, hys, rfl⟩
    · exact ⟨rfl, rfl, id, fun hn => by simp [Ty.noDyn] at hn⟩
    · obtain ⟨p1, p2⟩ := convertFields_props xs b ys hys
      refine ⟨rfl, rfl, ?_, fun hn => ⟨rfl, ?_⟩⟩
      · simpa [whollyKnown] using p1
      · simp only [wfVal, Ty.noDyn] at hn ⊢
        exact fun hw => p2 hn hw
    · obtain ⟨p1, p2⟩ := convertFieldsTo_props xs bs ys hl hys
      refine ⟨rfl, rfl, ?_, fun hn => ?_⟩
      · simpa [whollyKnown] using p1
      · simp only [wfVal, Ty.noDyn, typeOf] at hn ⊢
        obtain ⟨q1, q2⟩ := p2 hn
        exact ⟨by rw [q1], q2⟩
theorem convertList_props : ∀ (xs : List Val) (t : Ty) (ys : List Val), convertList xs t = .ok ys →
    (whollyKnownList xs = true → whollyKnownList ys = true) ∧
      (t.noDyn = true → wfList xs = true → wfElems t ys = true)
  | [], t, ys, h => by
    rw [convertList_nil] at h; cases h; exact ⟨id, fun _ _ => rfl⟩
  | x :: xs, t, ys, h => by
    obtain ⟨_, y, ys, hy, hys, rfl⟩ := convertList_cons_ok.mp h
    obtain ⟨_, _, p3, p4⟩ := convert_props x t y hy
    obtain ⟨q1, q2⟩ := convertList_props xs t ys hys
    constructor
    · simp only [whollyKnownList, Bool.and_eq_true]
      exact fun hk => ⟨p3 hk.1, q1 hk.2⟩
    · intro hn
      simp only [wfList, wfElems, Bool.and_eq_true, beq_iff_eq]
      exact fun hw => ⟨⟨(p4 hn).1, (p4 hn).2 hw.1⟩, q2 hn hw.2⟩
theorem convertFields_props : ∀ (xs : List (String × Val)) (t : Ty) (ys : List (String × Val)),
    convertFields xs t = .ok ys →
    (whollyKnownFields xs = true → whollyKnownFields ys = true) ∧
      (t.noDyn = true → wfFields xs = true → wfElemsF t ys = true)
  | [], t, ys, h => by
    rw [convertFields_nil] at h; cases h; exact ⟨id, fun _ _ => rfl⟩
  | (k, x) :: xs, t, ys, h => by
    obtain ⟨_, y, ys, hy, hys, rfl⟩ := convertFields_cons_ok.mp h
    obtain ⟨_, _, p3, p4⟩ := convert_props x t y hy
    obtain ⟨q1, q2⟩ := convertFields_props xs t ys hys
    constructor
    · simp only [whollyKnownFields, Bool.and_eq_true]
      exact fun hk => ⟨p3 hk.1, q1 hk.2⟩
    · intro hn
      simp only [wfFields, wfElemsF, Bool.and_eq_true, beq_iff_eq]
      exact fun hw => ⟨⟨(p4 hn).1, (p4 hn).2 hw.1⟩, q2 hn hw.2⟩
theorem convertPair_props : ∀ (xs : List Val) (ts : List Ty) (ys : List Val), xs.length = ts.length →
    convertPair xs ts = .ok ys →
    (whollyKnownList xs = true → whollyKnownList ys = true) ∧
      (Ty.noDynList ts = true → typeOfList ys = ts ∧ (wfList xs = true → wfList ys = true))
  | [], [], ys, _, h => by
    rw [convertPair_nil_left] at h; cases h; exact ⟨id, fun _ => ⟨rfl, id⟩⟩
  | [], _ :: _, ys, hl, h => by simp at hl
  | _ :: _, [], ys, hl, h => by simp at hl
  | x :: xs, t :: ts, ys, hl, h => by
    obtain ⟨y, ys, hy, hys, rfl⟩ := convertPair_cons_ok.mp h
    obtain ⟨_, _, p3, p4⟩ := convert_props x t y hy
    obtain ⟨q1, q2⟩ := convertPair_props xs ts ys (by simpa using hl) hys
    constructor
    · simp only [whollyKnownList, Bool.and_eq_true]
      exact fun hk => ⟨p3 hk.1, q1 hk.2⟩
    · simp only [Ty.noDynList, Bool.and_eq_true, typeOfList, wfList]
      intro hn
      refine ⟨by rw [(p4 hn.1).1, (q2 hn.2).1], fun hw => ⟨(p4 hn.1).2 hw.1, (q2 hn.2).2 hw.2⟩⟩
theorem convertFieldsTo_props : ∀ (xs : List (String × Val)) (ts : List (String × Ty)) (ys : List (String × Val)),
    sameKeys xs ts = true → convertFieldsTo xs ts = .ok ys →
    (whollyKnownFields xs = true → whollyKnownFields ys = true) ∧
      (Ty.noDynFields ts = true → typeOfFields ys = ts ∧ (wfFields xs = true → wfFields ys = true))
  | [], [], ys, _, h => by
    rw [convertFieldsTo_nil_left] at h; cases h; exact ⟨id, fun _ => ⟨rfl, id⟩⟩
  | [], _ :: _, ys, hl, h => by simp [sameKeys] at hl
  | (_, _) :: _, [], ys, hl, h => by simp [sameKeys] at hl
  | (k, x) :: xs, (l, t) :: ts, ys, hl, h => by
    obtain ⟨y, ys, hy, hys, rfl⟩ := convertFieldsTo_cons_ok.mp h
    simp only [sameKeys, Bool.and_eq_true, beq_iff_eq] at hl
    obtain ⟨_, _, p3, p4⟩ := convert_props x t y hy
    obtain ⟨q1, q2⟩ := convertFieldsTo_props xs ts ys hl.2 hys
    constructor
    · simp only [whollyKnownFields, Bool.and_eq_true]
      exact fun hk => ⟨p3 hk.1, q1 hk.2⟩
    · simp only [Ty.noDynFields, Bool.and_eq_true, typeOfFields, wfFields]
      intro hn
      refine ⟨by rw [(p4 hn.1).1, (q2 hn.2).1, hl.1], fun hw => ⟨(p4 hn.1).2 hw.1, (q2 hn.2).2 hw.2⟩⟩
end

/-! ### `convert` is monotone for `conc` -/

theorem conc_flat_eq {a v : Val} (hf : isFlat a = true) (hk : a.isKnown = true) (h : conc v a = true) :
    v = a.setFl v.fl := by
  cases a <;> simp [isFlat, isKnown] at hf hk <;> cases v <;> simp_all [conc, setFl, fl]

theorem convert_conc_flat {a v : Val} {t : Ty} {v' a' : Val} (hf : isFlat a = true) (hk : a.isKnown = true)
    (h : conc v a = true) (hv : convert v t = .ok v') (ha : convert a t = .ok a') : conc v' a' = true := by
  rw [conc_flat_eq hf hk h, convert_setFl_flat a _ t hf, ha] at hv
  simp [Except.map] at hv
  rw [← hv, conc_setFl_left]; exact conc_refl a'

mutual
theorem convert_conc : ∀ (a v : Val) (t : Ty) (v' a' : Val), conc v a = true → t.noDyn = true →
    convert v t = .ok v' → convert a t = .ok a' → conc v' a' = true
  | .unk g s, v, t, v', a', h, hn, hv, ha => by
    rcases convert_unk_inv ha with ⟨rfl, _⟩ | rfl
    · simp [Ty.noDyn] at hn
    · rw [conc_unk_iff]; exact Or.inr ((convert_props v t v' hv).2.2.2 hn).1
  | .null g s, v, t, v', a', h, hn, hv, ha => convert_conc_flat rfl rfl h hv ha
  | .str g s, v, t, v', a', h, hn, hv, ha => convert_conc_flat rfl rfl h hv ha
  | .num g s, v, t, v', a', h, hn, hv, ha => convert_conc_flat rfl rfl h hv ha
  | .bool g s, v, t, v', a', h, hn, hv, ha => convert_conc_flat rfl rfl h hv ha
  | .list g u ys, v, t, v', a', h, hn, hv, ha => by
    obtain ⟨f, xs, rfl, hl⟩ := conc_list_inv h
    by_cases ht : t = .list u
    · subst ht
      rw [convert_id (by simp [typeOf])] at hv ha; cases hv; cases ha; exact h
    · rcases convert_list_inv hv with ⟨h1 | h1, _⟩ | ⟨b, xs', rfl, hxs, rfl⟩
      · subst h1; simp [Ty.noDyn] at hn
      · exact absurd h1 ht
      · rcases convert_list_inv ha with ⟨h1 | h1, _⟩ | ⟨b', ys', hb, hys, rfl⟩
        · simp at h1
        · exact absurd h1 ht
        · cases hb
          simp only [conc, beq_self_eq_true, Bool.true_and]
          exact convertList_conc ys xs b xs' ys' hl (by simpa [Ty.noDyn] using hn) hxs hys
  | .map g u ys, v, t, v', a', h, hn, hv, ha => by
    obtain ⟨f, xs, rfl, hl⟩ := conc_map_inv h
    by_cases ht : t = .map u
    · subst ht
      rw [convert_id (by simp [typeOf])] at hv ha; cases hv; cases ha; exact h
    · rcases convert_map_inv hv with ⟨h1 | h1, _⟩ | ⟨b, xs', rfl, hxs, rfl⟩
      · subst h1; simp [Ty.noDyn] at hn
      · exact absurd h1 ht
      · rcases convert_map_inv ha with ⟨h1 | h1, _⟩ | ⟨b', ys', hb, hys, rfl⟩
        · simp at h1
        · exact absurd h1 ht
        · cases hb
          simp only [conc, beq_self_eq_true, Bool.true_and]
          exact convertFields_conc ys xs b xs' ys' hl (by simpa [Ty.noDyn] using hn) hxs hys
  | .tuple g ys, v, t, v', a', h, hn, hv, ha => by
    obtain ⟨f, xs, rfl, hl⟩ := conc_tuple_inv h
    rcases convert_tuple_inv hv with ⟨rfl, _⟩ | ⟨b, xs', rfl, hxs, rfl⟩ | ⟨bs, xs', rfl, hlen, hxs, rfl⟩
    · simp [Ty.noDyn] at hn
    · rcases convert_tuple_inv ha with ⟨h1, _⟩ | ⟨b', ys', hb, hys, rfl⟩ | ⟨bs, ys', hb, _, _, _⟩
      · simp at h1
      · cases hb
        simp only [conc, beq_self_eq_true, Bool.true_and]
        exact convertList_conc ys xs b xs' ys' hl (by simpa [Ty.noDyn] using hn) hxs hys
      · simp at hb
    · rcases convert_tuple_inv ha with ⟨h1, _⟩ | ⟨b', ys', hb, _, _⟩ | ⟨bs', ys', hb, _, hys, rfl⟩
      · simp at h1
      · simp at hb
      · cases hb
        simp only [conc]
        exact convertPair_conc ys xs bs xs' ys' hl (by simpa [Ty.noDyn] using hn) hxs hys
  | .object g ys, v, t, v', a', h, hn, hv, ha => by
    obtain ⟨f, xs, rfl, hl⟩ := conc_object_inv h
    rcases convert_object_inv hv with ⟨rfl, _⟩ | ⟨b, xs', rfl, hxs, rfl⟩ | ⟨bs, xs', rfl, hlen, hxs, rfl⟩
    · simp [Ty.noDyn] at hn
    · rcases convert_object_inv ha with ⟨h1, _⟩ | ⟨b', ys', hb, hys, rfl⟩ | ⟨bs, ys', hb, _, _, _⟩
      · simp at h1
      · cases hb
        simp only [conc, beq_self_eq_true, Bool.true_and]
        exact convertFields_conc ys xs b xs' ys' hl (by simpa [Ty.noDyn] using hn) hxs hys
      · simp at hb
    · rcases convert_object_inv ha with ⟨h1, _⟩ | ⟨b', ys', hb, _, _⟩ | ⟨bs', ys', hb, _, hys, rfl⟩
      · simp at h1
      · simp at hb
      · cases hb
        simp only [conc]
        exact convertFieldsTo_conc ys xs bs xs' ys' hl (by simpa [Ty.noDyn] using hn) hxs hys
theorem convertList_conc : ∀ (ys xs : List Val) (t : Ty) (xs' ys' : List Val), concL xs ys = true →
    t.noDyn = true → convertList xs t = .ok xs' → convertList ys t = .ok ys' → concL xs' ys' = true
  | [], [], t, xs', ys', _, _, hx, hy => by
    rw [convertList_nil] at hx hy; cases hx; cases hy; rfl
  | [], _ :: _, _, _, _, h, _, _, _ => by simp [concL] at h
  | _ :: _, [], _, _, _, h, _, _, _ => by simp [concL] at h
  | y :: ys, x :: xs, t, xs', ys', h, hn, hx, hy => by
    simp only [concL, Bool.and_eq_true] at h
    obtain ⟨_, x', xs', hx1, hx2, rfl⟩ := convertList_cons_ok.mp hx
    obtain ⟨_, y', ys', hy1, hy2, rfl⟩ := convertList_cons_ok.mp hy
    simp only [concL, Bool.and_eq_true]
    exact ⟨convert_conc y x t x' y' h.1 hn hx1 hy1, convertList_conc ys xs t xs' ys' h.2 hn hx2 hy2⟩
theorem convertFields_conc : ∀ (ys xs : List (String × Val)) (t : Ty) (xs' ys' : List (String × Val)),
    concF xs ys = true → t.noDyn = true → convertFields xs t = .ok xs' → convertFields ys t = .ok ys' →
    concF xs' ys' = true
  | [], [], t, xs', ys', _, _, hx, hy => by
    rw [convertFields_nil] at hx hy; cases hx; cases hy; rfl
  | [], (_, _) :: _, _, _, _, h, _, _, _ => by simp [concF] at h
  | (_, _) :: _, [], _, _, _, h, _, _, _ => by simp [concF] at h
  | (l, y) :: ys, (k, x) :: xs, t, xs', ys', h, hn, hx, hy => by
    simp only [concF, Bool.and_eq_true] at h
    obtain ⟨_, x', xs', hx1, hx2, rfl⟩ := convertFields_cons_ok.mp hx
    obtain ⟨_, y', ys', hy1, hy2, rfl⟩ := convertFields_cons_ok.mp hy
    simp only [concF, Bool.and_eq_true]
    exact ⟨⟨h.1.1, convert_conc y x t x' y' h.1.2 hn hx1 hy1⟩, convertFields_conc ys xs t xs' ys' h.2 hn hx2 hy2⟩
theorem convertPair_conc : ∀ (ys xs : List Val) (ts : List Ty) (xs' ys' : List Val), concL xs ys = true →
    Ty.noDynList ts = true → convertPair xs ts = .ok xs' → convertPair ys ts = .ok ys' → concL xs' ys' = true
  | [], [], t, xs', ys', _, _, hx, hy => by
    rw [convertPair_nil_left] at hx hy; cases hx; cases hy; rfl
  | [], _ :: _, _, _, _, h, _, _, _ => by simp [concL] at h
  | _ :: _, [], _, _, _, h, _, _, _ => by simp [concL] at h
  | y :: ys, x :: xs, [], xs', ys', h, hn, hx, hy => by
    rw [convertPair_nil_right] at hx hy; cases hx; cases hy; rfl
  | y :: ys, x :: xs, t :: ts, xs', ys', h, hn, hx, hy => by
    simp only [concL, Bool.and_eq_true] at h
    simp only [Ty.noDynList, Bool.and_eq_true] at hn
    obtain ⟨x', xs', hx1, hx2, rfl⟩ := convertPair_cons_ok.mp hx
    obtain ⟨y', ys', hy1, hy2, rfl⟩ := convertPair_cons_ok.mp hy
    simp only [concL, Bool.and_eq_true]
    exact ⟨convert_conc y x t x' y' h.1 hn.1 hx1 hy1, convertPair_conc ys xs ts xs' ys' h.2 hn.2 hx2 hy2⟩
theorem convertFieldsTo_conc : ∀ (ys xs : List (String × Val)) (ts : List (String × Ty))
    (xs' ys' : List (String × Val)), concF xs ys = true →
    Ty.noDynFields ts = true → convertFieldsTo xs ts = .ok xs' → convertFieldsTo ys ts = .ok ys' →
    concF xs' ys' = true
  | [], [], t, xs', ys', _, _, hx, hy => by
    rw [convertFieldsTo_nil_left] at hx hy; cases hx; cases hy; rfl
  | [], (_, _) :: _, _, _, _, h, _, _, _ => by simp [concF] at h
  | (_, _) :: _, [], _, _, _, h, _, _, _ => by simp [concF] at h
  | (l, y) :: ys, (k, x) :: xs, [], xs', ys', h, hn, hx, hy => by
    rw [convertFieldsTo_nil_right] at hx hy; cases hx; cases hy; rfl
  | (l, y) :: ys, (k, x) :: xs, (m, t) :: ts, xs', ys', h, hn, hx, hy => by
    simp only [concF, Bool.and_eq_true] at h
    simp only [Ty.noDynFields, Bool.and_eq_true] at hn
    obtain ⟨x', xs', hx1, hx2, rfl⟩ := convertFieldsTo_cons_ok.mp hx
    obtain ⟨y', ys', hy1, hy2, rfl⟩ := convertFieldsTo_cons_ok.mp hy
    simp only [concF, Bool.and_eq_true]
    exact ⟨⟨h.1.1, convert_conc y x t x' y' h.1.2 hn.1 hx1 hy1⟩,
      convertFieldsTo_conc ys xs ts xs' ys' h.2 hn.2 hx2 hy2⟩
end

/-- `convert` is monotone for `conc` when the target type is `any` or does not mention `any` -/
theorem convert_mono {a v : Val} {t : Ty} {v' a' : Val} (h : conc v a = true) (ht : t.paramOk = true)
    (hv : convert v t = .ok v') (ha : convert a t = .ok a') : conc v' a' = true := by
  simp only [Ty.paramOk, Bool.or_eq_true, beq_iff_eq] at ht
  rcases ht with rfl | ht
  · rw [convert_dyn] at hv ha; cases hv; cases ha; exact h
  · exact convert_conc a v t v' a' h ht hv ha

end HclModel.Proofs.Unk
