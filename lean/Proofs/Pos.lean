import HclModel.Lex.Pos
/-!
Proofs about the position model: the incremental bookkeeping of `emitAll` agrees with the recount
`refRanges`, tokens are ordered and non-overlapping, and the byte offsets tile the input.
-/
namespace HclModel.Pos.Proofs

theorem walk_append (p : P) (a b : List Cl) : walk p (a ++ b) = walk (walk p a) b := by
  simp [walk, List.foldl_append]

theorem walk_nil (p : P) : walk p [] = p := rfl

theorem walk_cons (p : P) (c : Cl) (cs : List Cl) : walk p (c :: cs) = walk (stepCl p c) cs := rfl

theorem walk_gapCls (n : Nat) (p : P) :
    walk p (gapCls n) = ⟨p.byte + n, p.line, p.col + n⟩ := by
  induction n generalizing p with
  | zero => simp [gapCls, walk]
  | succ n ih =>
    have h : gapCls (n + 1) = ⟨1, false⟩ :: gapCls n := by
      simp [gapCls, List.replicate_succ]
    rw [h, walk_cons, ih]
    simp [stepCl]
    omega

theorem foldl_len (cls : List Cl) (a : Nat) :
    cls.foldl (fun a c => a + c.len) a = a + cls.foldl (fun a c => a + c.len) 0 := by
  induction cls generalizing a with
  | nil => simp
  | cons c cs ih =>
    simp only [List.foldl_cons]
    rw [ih (a + c.len), ih (0 + c.len)]
    omega

theorem clBytes_nil : clBytes [] = 0 := rfl

theorem clBytes_cons (c : Cl) (cs : List Cl) : clBytes (c :: cs) = c.len + clBytes cs := by
  simp only [clBytes, List.foldl_cons]
  rw [foldl_len]
  omega

theorem clBytes_append (a b : List Cl) : clBytes (a ++ b) = clBytes a + clBytes b := by
  induction a with
  | nil => simp [clBytes_nil]
  | cons c cs ih => simp only [List.cons_append, clBytes_cons, ih]; omega

theorem clBytes_gapCls (n : Nat) : clBytes (gapCls n) = n := by
  induction n with
  | zero => simp [gapCls, clBytes]
  | succ n ih =>
    have h : gapCls (n + 1) = ⟨1, false⟩ :: gapCls n := by
      simp [gapCls, List.replicate_succ]
    rw [h, clBytes_cons, ih]
    exact Nat.add_comm 1 n

theorem stepCl_byte (p : P) (c : Cl) : (stepCl p c).byte = p.byte + c.len := by
  unfold stepCl; split <;> rfl

theorem walk_byte (cls : List Cl) (p : P) : (walk p cls).byte = p.byte + clBytes cls := by
  induction cls generalizing p with
  | nil => simp [walk_nil, clBytes_nil]
  | cons c cs ih =>
    rw [walk_cons, ih, stepCl_byte, clBytes_cons]
    omega

/-! ### agreement with the recount -/

theorem emitAll_eq_ref_gen (start : P) (segs : List Seg) :
    ∀ (pos : P) (g : Nat) (before : List Cl),
      walk start before = ⟨pos.byte + g, pos.line, pos.col + g⟩ →
      emitAll pos g segs = refRanges start before segs := by
  induction segs with
  | nil => intro pos g before _; simp [emitAll, refRanges]
  | cons s rest ih =>
    intro pos g before h
    cases s with
    | gap n =>
      simp only [emitAll, refRanges]
      apply ih
      rw [walk_append, h, walk_gapCls]
      simp [Nat.add_assoc]
    | tok ty cls =>
      simp only [emitAll, refRanges, emit, posAt]
      rw [walk_append, h]
      congr 1
      apply ih
      rw [walk_append, h]
      simp

theorem emitAll_eq_ref (start : P) (segs : List Seg) :
    emitAll start 0 segs = refRanges start [] segs := by
  apply emitAll_eq_ref_gen
  simp [walk_nil]

/-! ### order -/

theorem emitAll_ordered_gen (segs : List Seg) :
    ∀ (pos : P) (g : Nat),
      (emitAll pos g segs).Pairwise (fun a b => a.stop.byte ≤ b.start.byte) ∧
      (∀ r ∈ emitAll pos g segs, r.start.byte ≤ r.stop.byte) ∧
      (∀ r ∈ emitAll pos g segs, pos.byte + g ≤ r.start.byte) := by
  induction segs with
  | nil => intro pos g; simp [emitAll]
  | cons s rest ih =>
    intro pos g
    cases s with
    | gap n =>
      simp only [emitAll]
      obtain ⟨h1, h2, h3⟩ := ih pos (g + n)
      refine ⟨h1, h2, ?_⟩
      intro r hr
      have := h3 r hr
      omega
    | tok ty cls =>
      simp only [emitAll, emit]
      obtain ⟨h1, h2, h3⟩ := ih (walk ⟨pos.byte + g, pos.line, pos.col + g⟩ cls) 0
      have hb := walk_byte cls ⟨pos.byte + g, pos.line, pos.col + g⟩
      simp only at hb
      refine ⟨?_, ?_, ?_⟩
      · rw [List.pairwise_cons]
        refine ⟨?_, h1⟩
        intro r hr
        have := h3 r hr
        simpa using this
      · intro r hr
        rw [List.mem_cons] at hr
        rcases hr with rfl | hr
        · simp only [hb]; omega
        · exact h2 r hr
      · intro r hr
        rw [List.mem_cons] at hr
        rcases hr with rfl | hr
        · simp
        · have := h3 r hr
          omega

theorem emitAll_ordered (start : P) (segs : List Seg) :
    (emitAll start 0 segs).Pairwise (fun a b => a.stop.byte ≤ b.start.byte) ∧
    ∀ r ∈ emitAll start 0 segs, r.start.byte ≤ r.stop.byte :=
  ⟨(emitAll_ordered_gen segs start 0).1, (emitAll_ordered_gen segs start 0).2.1⟩

/-! ### tiling -/

theorem emitAll_last_gen (ty : Nat) (cls : List Cl) (segs : List Seg) :
    ∀ (pos : P) (g : Nat),
      ((emitAll pos g (segs ++ [.tok ty cls])).getLast?.map (·.stop.byte)) =
        some (pos.byte + g + clBytes (flatten (segs ++ [.tok ty cls]))) := by
  induction segs with
  | nil =>
    intro pos g
    simp [emitAll, emit, flatten, walk_byte]
  | cons s rest ih =>
    intro pos g
    cases s with
    | gap n =>
      simp only [List.cons_append, emitAll, flatten]
      rw [ih, clBytes_append, clBytes_gapCls]
      congr 1
      omega
    | tok ty' cls' =>
      simp only [List.cons_append, emitAll, emit, flatten]
      have hne : emitAll (walk ⟨pos.byte + g, pos.line, pos.col + g⟩ cls') 0
          (rest ++ [.tok ty cls]) ≠ [] := by
        intro h
        have := ih (walk ⟨pos.byte + g, pos.line, pos.col + g⟩ cls') 0
        rw [h] at this
        simp at this
      rw [List.getLast?_cons_of_ne_nil hne, ih, clBytes_append, walk_byte]
      congr 1
      simp only
      omega

theorem emitAll_last (start : P) (segs : List Seg) (ty : Nat) (cls : List Cl) :
    ((emitAll start 0 (segs ++ [.tok ty cls])).getLast?.map (·.stop.byte)) =
      some (start.byte + clBytes (flatten (segs ++ [.tok ty cls]))) := by
  have := emitAll_last_gen ty cls segs start 0
  simpa using this

end HclModel.Pos.Proofs
