import Proofs.DynBasic
/-!
`writeOut` (the specification of dynamic-block expansion): unfolding, fuel monotonicity.
-/
namespace HclModel.Dyn.Proofs
open HclModel HclModel.Body HclModel.Dyn

/-- the blocks one element of a `for_each` collection stands for -/
def wElem (ev : Env → Expr → Out) (ρf : Env) (fuel : Nat) (its : Iters) (t : String) (name : String) (m : Fl)
    (lexprs : List Expr) (content : SBody) (kv : Val × Val) : Option WBlock :=
  match (evalLabels ev (iterEnv ((name, kv.1, kv.2) :: its) ++ ρf) lexprs).1,
      writeOut ev ρf fuel ((name, kv.1, kv.2) :: its) m content with
  | some ls, some w => some (WBlock.mk t ls m w)
  | _, _ => none

/-- the written-out blocks one source block stands for (`per` in `writeOut`) -/
def wPer (ev : Env → Expr → Out) (ρf : Env) (fuel : Nat) (its : Iters) (blk : SBlock) : Option (List WBlock) :=
  match blk with
  | .static t ls body => (writeOut ev ρf fuel its Fl.none body).map fun w => [WBlock.mk t ls Fl.none w]
  | .dyn t fe itn labels content =>
    let o := ev (iterEnv its ++ ρf) fe
    if !o.2.isEmpty then none else
    if o.1.unmark.1.isNull || !o.1.unmark.1.isKnown then none else
    match elements o.1.unmark.1 with
    | none => none
    | some kvs => allSome (kvs.map (wElem ev ρf fuel its t (itn.getD t) o.1.unmark.2 (labels.getD []) content))

theorem writeOut_zero (ev : Env → Expr → Out) (ρf : Env) (its : Iters) (m : Fl) (src : SBody) :
    writeOut ev ρf 0 its m src = none := by
  cases src; rfl

theorem writeOut_succ (ev : Env → Expr → Out) (ρf : Env) (fuel : Nat) (its : Iters) (m : Fl)
    (attrs : List (String × Expr)) (blocks : List SBlock) :
    writeOut ev ρf (fuel + 1) its m (.mk attrs blocks) =
      (allSome (blocks.map (wPer ev ρf fuel its))).map fun bss =>
        WBody.mk (attrs.map fun p => (p.1, ⟨p.2, its, m, false⟩)) bss.flatten := by
  rfl

theorem wElem_mono (ev : Env → Expr → Out) (ρf : Env) (fuel : Nat)
    (ih : ∀ its m src w, writeOut ev ρf fuel its m src = some w → writeOut ev ρf (fuel + 1) its m src = some w)
    (its : Iters) (t name : String) (m : Fl) (lexprs : List Expr) (content : SBody) (kv : Val × Val) (wb : WBlock)
    (h : wElem ev ρf fuel its t name m lexprs content kv = some wb) :
    wElem ev ρf (fuel + 1) its t name m lexprs content kv = some wb := by
  unfold wElem at h ⊢
  split at h
  · rename_i ls w h1 h2
    rw [h1, ih _ _ _ _ h2]
    exact h
  · simp at h

theorem wPer_mono (ev : Env → Expr → Out) (ρf : Env) (fuel : Nat)
    (ih : ∀ its m src w, writeOut ev ρf fuel its m src = some w → writeOut ev ρf (fuel + 1) its m src = some w)
    (its : Iters) (blk : SBlock) (ws : List WBlock)
    (h : wPer ev ρf fuel its blk = some ws) : wPer ev ρf (fuel + 1) its blk = some ws := by
  cases blk with
  | static t ls body =>
    simp only [wPer, Option.map_eq_some_iff] at h ⊢
    obtain ⟨w, h1, h2⟩ := h
    exact ⟨w, ih _ _ _ _ h1, h2⟩
  | dyn t fe itn labels content =>
    simp only [wPer] at h ⊢
    split at h
    · simp at h
    · rename_i h1
      rw [if_neg h1]
      split at h
      · simp at h
      · rename_i h2
        rw [if_neg h2]
        split at h
        · simp at h
        · rename_i kvs h3
          exact allSome_map_mono _ _ _ _ (fun kv _ wb hwb => wElem_mono ev ρf fuel ih _ _ _ _ _ _ _ _ hwb) h

theorem writeOut_fuel_mono (ev : Env → Expr → Out) (ρf : Env) (fuel : Nat) (its : Iters) (m : Fl) (src : SBody) (w : WBody)
    (h : writeOut ev ρf fuel its m src = some w) : writeOut ev ρf (fuel + 1) its m src = some w := by
  induction fuel generalizing its m src w with
  | zero => rw [writeOut_zero] at h; simp at h
  | succ fuel ih =>
    obtain ⟨attrs, blocks⟩ := src
    rw [writeOut_succ] at h ⊢
    simp only [Option.map_eq_some_iff] at h ⊢
    obtain ⟨bss, h1, h2⟩ := h
    exact ⟨bss, allSome_map_mono _ _ _ _ (fun blk _ ws hws => wPer_mono ev ρf fuel ih its blk ws hws) h1, h2⟩

theorem writeOut_fuel_le (ev : Env → Expr → Out) (ρf : Env) (fuel fuel' : Nat) (its : Iters) (m : Fl) (src : SBody) (w : WBody)
    (hle : fuel ≤ fuel') (h : writeOut ev ρf fuel its m src = some w) : writeOut ev ρf fuel' its m src = some w := by
  induction hle with
  | refl => exact h
  | step _ ih => exact writeOut_fuel_mono _ _ _ _ _ _ _ ih

end HclModel.Dyn.Proofs
