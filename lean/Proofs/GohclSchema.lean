import HclModel.Gohcl.Codec
import Proofs.GohclQSort
import Proofs.BodyNative
/-!
C16: the implied schema of a struct type, characterised by membership (the sorting in `impliedSchema` is a
permutation, `Proofs/GohclQSort.lean`), and what well-formedness of the type gives: the schema has no
duplicate names, and the block schema found for a block type is the one of the (unique) field of that type.
-/
namespace HclModel.Gohcl.Proofs
open HclModel HclModel.Body HclModel.Body.Proofs

/-! ### names of fields -/

/-- attribute name / block type of a field (the function inside `STy.wf`) -/
def fieldName : Field → Option String
  | .attr n _ _ => some n
  | .block t _ _ => some t
  | .label _ => none

def names (fields : List Field) : List String := fields.filterMap fieldName

def attrNames : List Field → List String
  | [] => []
  | .attr n _ _ :: rest => n :: attrNames rest
  | _ :: rest => attrNames rest

def blockTypes : List Field → List String
  | [] => []
  | .block t _ _ :: rest => t :: blockTypes rest
  | _ :: rest => blockTypes rest

def isPtr : GTy → Bool
  | .ptr _ => true
  | _ => false

def attrSchemas : List Field → List AttrSchema
  | [] => []
  | .attr n opt t :: rest => ⟨n, !opt && !isPtr t⟩ :: attrSchemas rest
  | _ :: rest => attrSchemas rest

def blockSchemas : List Field → List BlockSchema
  | [] => []
  | .block t _ sty :: rest => ⟨t, (labelNames sty.fields).length⟩ :: blockSchemas rest
  | _ :: rest => blockSchemas rest

theorem wf_eq (fields : List Field) :
    STy.wf (.mk fields) = ((names fields).eraseDups.length == (names fields).length && fieldsWf fields) := by
  rw [STy.wf]; rfl

theorem names_cons_attr (n o t) (rest : List Field) : names (.attr n o t :: rest) = n :: names rest := rfl
theorem names_cons_block (n o t) (rest : List Field) : names (.block n o t :: rest) = n :: names rest := rfl
theorem names_cons_label (n) (rest : List Field) : names (.label n :: rest) = names rest := rfl

theorem mem_names_of_mem_attrNames : ∀ {fields : List Field} {n : String}, n ∈ attrNames fields → n ∈ names fields
  | .attr m _ _ :: rest, n, h => by
    simp only [attrNames, List.mem_cons] at h
    rw [names_cons_attr]
    rcases h with h | h
    · exact h ▸ List.mem_cons_self
    · exact List.mem_cons_of_mem _ (mem_names_of_mem_attrNames h)
  | .label _ :: rest, n, h => by
    simp only [attrNames] at h
    rw [names_cons_label]; exact mem_names_of_mem_attrNames h
  | .block _ _ _ :: rest, n, h => by
    simp only [attrNames] at h
    rw [names_cons_block]; exact List.mem_cons_of_mem _ (mem_names_of_mem_attrNames h)

theorem mem_names_of_mem_blockTypes : ∀ {fields : List Field} {n : String}, n ∈ blockTypes fields → n ∈ names fields
  | .block m _ _ :: rest, n, h => by
    simp only [blockTypes, List.mem_cons] at h
    rw [names_cons_block]
    rcases h with h | h
    · exact h ▸ List.mem_cons_self
    · exact List.mem_cons_of_mem _ (mem_names_of_mem_blockTypes h)
  | .label _ :: rest, n, h => by
    simp only [blockTypes] at h
    rw [names_cons_label]; exact mem_names_of_mem_blockTypes h
  | .attr _ _ _ :: rest, n, h => by
    simp only [blockTypes] at h
    rw [names_cons_attr]; exact List.mem_cons_of_mem _ (mem_names_of_mem_blockTypes h)

theorem attrNames_nodup : ∀ {fields : List Field}, (names fields).Nodup → (attrNames fields).Nodup
  | [], _ => by simp [attrNames]
  | .attr m _ _ :: rest, h => by
    rw [names_cons_attr, List.nodup_cons] at h
    simp only [attrNames, List.nodup_cons]
    exact ⟨fun hm => h.1 (mem_names_of_mem_attrNames hm), attrNames_nodup h.2⟩
  | .label _ :: rest, h => by
    rw [names_cons_label] at h
    simpa only [attrNames] using attrNames_nodup h
  | .block _ _ _ :: rest, h => by
    rw [names_cons_block, List.nodup_cons] at h
    simpa only [attrNames] using attrNames_nodup h.2

theorem blockTypes_nodup : ∀ {fields : List Field}, (names fields).Nodup → (blockTypes fields).Nodup
  | [], _ => by simp [blockTypes]
  | .block m _ _ :: rest, h => by
    rw [names_cons_block, List.nodup_cons] at h
    simp only [blockTypes, List.nodup_cons]
    exact ⟨fun hm => h.1 (mem_names_of_mem_blockTypes hm), blockTypes_nodup h.2⟩
  | .label _ :: rest, h => by
    rw [names_cons_label] at h
    simpa only [blockTypes] using blockTypes_nodup h
  | .attr _ _ _ :: rest, h => by
    rw [names_cons_attr, List.nodup_cons] at h
    simpa only [blockTypes] using blockTypes_nodup h.2

/-! ### `eraseDups` -/

theorem eraseDups_length_le (l : List String) : l.eraseDups.length ≤ l.length := by
  generalize hn : l.length = n
  induction n using Nat.strongRecOn generalizing l with
  | _ n ih =>
    cases l with
    | nil => simp
    | cons a l =>
      subst hn
      rw [List.eraseDups_cons]
      have h1 : (l.filter fun b => !b == a).length ≤ l.length := List.length_filter_le _ _
      have := ih _ (by simp only [List.length_cons]; omega) (l.filter fun b => !b == a) rfl
      simp only [List.length_cons]; omega

theorem nodup_of_eraseDups_length (l : List String) (h : l.eraseDups.length = l.length) : l.Nodup := by
  generalize hn : l.length = n
  induction n using Nat.strongRecOn generalizing l with
  | _ n ih =>
    cases l with
    | nil => simp
    | cons a l =>
      subst hn
      rw [List.eraseDups_cons] at h
      simp only [List.length_cons, Nat.add_right_cancel_iff] at h
      have h1 : (l.filter fun b => !b == a).length ≤ l.length := List.length_filter_le _ _
      have h2 := eraseDups_length_le (l.filter fun b => !b == a)
      have h3 : (l.filter fun b => !b == a).length = l.length := by omega
      have h4 : l.filter (fun b => !b == a) = l := List.filter_eq_self.2 (List.length_filter_eq_length_iff.1 h3)
      rw [h4] at h
      rw [List.nodup_cons]
      refine ⟨?_, ih _ (by simp) l h rfl⟩
      intro hm
      have := List.length_filter_eq_length_iff.1 h3 a hm
      simp at this

theorem names_nodup_of_wf {fields : List Field} (h : STy.wf (.mk fields) = true) : (names fields).Nodup := by
  rw [wf_eq, Bool.and_eq_true, beq_iff_eq] at h
  exact nodup_of_eraseDups_length _ h.1

theorem fieldsWf_of_wf {fields : List Field} (h : STy.wf (.mk fields) = true) : fieldsWf fields = true := by
  rw [wf_eq, Bool.and_eq_true] at h
  exact h.2

/-! ### the implied schema -/

theorem impliedSchema_eq (fields : List Field) :
    impliedSchema (.mk fields) =
      ⟨((attrSchemas fields).toArray.qsort (fun a b => a.name < b.name)).toList,
       ((blockSchemas fields).toArray.qsort (fun a b => a.type < b.type)).toList⟩ := by
  unfold impliedSchema
  have key : ∀ (a a' : List AttrSchema) (b b' : List BlockSchema), a = a' → b = b' →
      (⟨(a.toArray.qsort (fun x y => x.name < y.name)).toList,
        (b.toArray.qsort (fun x y => x.type < y.type)).toList⟩ : Schema) =
      ⟨(a'.toArray.qsort (fun x y => x.name < y.name)).toList,
        (b'.toArray.qsort (fun x y => x.type < y.type)).toList⟩ := by
    intro a a' b b' h1 h2; rw [h1, h2]
  refine key _ _ _ _ ?_ ?_
  · simp only [STy.fields]
    induction fields with
    | nil => rfl
    | cons f rest ih =>
      cases f with
      | attr n o t => simp only [List.filterMap_cons, attrSchemas, ih]; cases t <;> rfl
      | label n => simp only [List.filterMap_cons, attrSchemas, ih]
      | block t sh sty => simp only [List.filterMap_cons, attrSchemas, ih]
  · simp only [STy.fields]
    induction fields with
    | nil => rfl
    | cons f rest ih =>
      cases f with
      | attr n o t => simp only [List.filterMap_cons, blockSchemas, ih]
      | label n => simp only [List.filterMap_cons, blockSchemas, ih]
      | block t sh sty => simp only [List.filterMap_cons, blockSchemas, ih]; cases sty; rfl

theorem attrSchemas_names : ∀ fields : List Field, (attrSchemas fields).map (·.name) = attrNames fields
  | [] => rfl
  | .attr _ _ _ :: rest => by simp [attrSchemas, attrNames, attrSchemas_names rest]
  | .label _ :: rest => by simp [attrSchemas, attrNames, attrSchemas_names rest]
  | .block _ _ _ :: rest => by simp [attrSchemas, attrNames, attrSchemas_names rest]

theorem blockSchemas_types : ∀ fields : List Field, (blockSchemas fields).map (·.type) = blockTypes fields
  | [] => rfl
  | .attr _ _ _ :: rest => by simp [blockSchemas, blockTypes, blockSchemas_types rest]
  | .label _ :: rest => by simp [blockSchemas, blockTypes, blockSchemas_types rest]
  | .block _ _ _ :: rest => by simp [blockSchemas, blockTypes, blockSchemas_types rest]

theorem mem_schema_attrs (fields : List Field) (a : AttrSchema) :
    a ∈ (impliedSchema (.mk fields)).attrs ↔ a ∈ attrSchemas fields := by
  rw [impliedSchema_eq]; simp only [mem_qsort]

theorem mem_schema_blocks (fields : List Field) (b : BlockSchema) :
    b ∈ (impliedSchema (.mk fields)).blocks ↔ b ∈ blockSchemas fields := by
  rw [impliedSchema_eq]; simp only [mem_qsort]

theorem schema_nodup {fields : List Field} (h : (names fields).Nodup) : (impliedSchema (.mk fields)).nodup := by
  rw [impliedSchema_eq]
  constructor
  · have p := (qsort_perm (attrSchemas fields).toArray (fun a b => decide (a.name < b.name)) 0
      ((attrSchemas fields).toArray.size - 1)).map (·.name)
    refine p.nodup_iff.2 ?_
    simp only [attrSchemas_names]
    exact attrNames_nodup h
  · have p := (qsort_perm (blockSchemas fields).toArray (fun a b => decide (a.type < b.type)) 0
      ((blockSchemas fields).toArray.size - 1)).map (·.type)
    refine p.nodup_iff.2 ?_
    simp only [blockSchemas_types]
    exact blockTypes_nodup h

theorem mem_attrNames_iff (fields : List Field) (n : String) :
    n ∈ attrNames fields ↔ ∃ a ∈ (impliedSchema (.mk fields)).attrs, a.name = n := by
  rw [← attrSchemas_names]
  simp only [List.mem_map, mem_schema_attrs]

/-- the block schema of a field of block type -/
theorem mem_blockSchemas_of_field : ∀ {fields : List Field} {t : String} {sh : Shape} {sty : STy},
    Field.block t sh sty ∈ fields → (⟨t, (labelNames sty.fields).length⟩ : BlockSchema) ∈ blockSchemas fields
  | .attr _ _ _ :: rest, t, sh, sty, h => by
    simp only [List.mem_cons, reduceCtorEq, false_or] at h
    simpa only [blockSchemas] using mem_blockSchemas_of_field h
  | .label _ :: rest, t, sh, sty, h => by
    simp only [List.mem_cons, reduceCtorEq, false_or] at h
    simpa only [blockSchemas] using mem_blockSchemas_of_field h
  | .block t' sh' sty' :: rest, t, sh, sty, h => by
    simp only [List.mem_cons, Field.block.injEq] at h
    simp only [blockSchemas, List.mem_cons]
    rcases h with ⟨rfl, -, rfl⟩ | h
    · exact Or.inl rfl
    · exact Or.inr (mem_blockSchemas_of_field h)

/-- two entries of a list with the same key are equal when the keys have no duplicates -/
theorem eq_of_nodup_map {α β : Type} (f : α → β) : ∀ {l : List α} {a b : α}, (l.map f).Nodup → a ∈ l → b ∈ l →
    f a = f b → a = b
  | x :: l, a, b, hn, ha, hb, e => by
    simp only [List.map_cons, List.nodup_cons, List.mem_map, not_exists, not_and] at hn
    simp only [List.mem_cons] at ha hb
    rcases ha with rfl | ha <;> rcases hb with rfl | hb
    · rfl
    · exact absurd e.symm (hn.1 b hb)
    · exact absurd e (hn.1 a ha)
    · exact eq_of_nodup_map f hn.2 ha hb e

/-- with unique names, the block schema `Content` uses for a block type is the one of its field -/
theorem wanted_of_field {fields : List Field} (hn : (names fields).Nodup) {t : String} {sh : Shape} {sty : STy}
    (hf : Field.block t sh sty ∈ fields) :
    wanted (impliedSchema (.mk fields)) t = some ⟨t, (labelNames sty.fields).length⟩ := by
  have hm := mem_blockSchemas_of_field hf
  obtain ⟨bs, hbs⟩ := (wanted_isSome_iff (impliedSchema (.mk fields)) t).2
    ⟨_, (mem_schema_blocks fields _).2 hm, rfl⟩
  have ⟨h1, h2⟩ := wanted_some hbs
  rw [mem_schema_blocks] at h1
  have hnd : ((blockSchemas fields).map (·.type)).Nodup := by
    rw [blockSchemas_types]; exact blockTypes_nodup hn
  rw [hbs, eq_of_nodup_map (·.type) hnd h1 hm h2]

/-! ### what `Content` with the implied schema returns -/

/-- every block `Content` returns has the number of labels of the schema entry for its type -/
theorem content_block_labels {β : Type} (b : NBody Val β) (s : Schema) (hh : b.hiddenBlocks = []) :
    ∀ blk ∈ (b.content s).1.blocks, ∃ bs, wanted s blk.type = some bs ∧ blk.labels.length = bs.labelCount := by
  intro blk hblk
  rw [content_fst, partial_blocks, hh, List.mem_filter] at hblk
  have h := hblk.2
  simp only [bgood, List.contains_nil, Bool.not_false, Bool.true_and] at h
  split at h
  · rename_i bs hw
    exact ⟨bs, hw, by simpa using h⟩
  · simp at h

/-- `Props/C16.lean`, `labels_in_range` (uniqueness of the attribute names of the body is not needed) -/
theorem labels_in_range (ty : STy) (body : GBody) (hty : ty.wf = true) :
    ∀ blk ∈ (body.native.content (impliedSchema ty)).1.blocks,
      ∀ shape sty, Field.block blk.type shape sty ∈ ty.fields →
        blk.labels.length = (labelNames sty.fields).length := by
  obtain ⟨fields⟩ := ty
  intro blk hblk shape sty hf
  obtain ⟨bs, hw, hl⟩ := content_block_labels body.native _ rfl blk hblk
  rw [wanted_of_field (names_nodup_of_wf hty) hf, Option.some.injEq] at hw
  rw [hl, ← hw]

theorem mem_blockTypes_of_field : ∀ {fields : List Field} {t : String} {sh : Shape} {sty : STy},
    Field.block t sh sty ∈ fields → t ∈ blockTypes fields
  | .attr _ _ _ :: rest, t, sh, sty, h => by
    simp only [List.mem_cons, reduceCtorEq, false_or] at h
    simpa only [blockTypes] using mem_blockTypes_of_field h
  | .label _ :: rest, t, sh, sty, h => by
    simp only [List.mem_cons, reduceCtorEq, false_or] at h
    simpa only [blockTypes] using mem_blockTypes_of_field h
  | .block t' sh' sty' :: rest, t, sh, sty, h => by
    simp only [List.mem_cons, Field.block.injEq] at h
    simp only [blockTypes, List.mem_cons]
    rcases h with ⟨rfl, -, rfl⟩ | h
    · exact Or.inl rfl
    · exact Or.inr (mem_blockTypes_of_field h)

/-! ### `findAttr` -/

theorem findAttr_eq_none {α : Type} {n : String} {l : List (String × α)} (h : n ∉ l.map (·.1)) :
    findAttr n l = none := by
  cases hf : findAttr n l with
  | none => rfl
  | some x =>
    have := (findAttr_isSome_iff n l).1 (by simp [hf])
    obtain ⟨p, hp, e⟩ := this
    exact absurd (List.mem_map.2 ⟨p, hp, e⟩) h

/-- looking a name up in the attributes `Content` returns = looking it up in the body, for names of the schema -/
theorem findAttr_content {α : Type} (A : List (String × α)) (n : String) : ∀ (l : List AttrSchema),
    (∃ a ∈ l, a.name = n) →
    findAttr n (l.filterMap fun a => (findAttr a.name A).map fun x => (a.name, x)) = findAttr n A
  | [], h => by simp at h
  | a :: l, h => by
    by_cases e : a.name = n
    · cases hf : findAttr a.name A with
      | none =>
        simp only [List.filterMap_cons, hf, Option.map_none]
        by_cases h' : ∃ a ∈ l, a.name = n
        · exact findAttr_content A n l h'
        · rw [← e, hf]
          apply findAttr_eq_none
          intro hm
          simp only [List.map_filterMap, List.mem_filterMap] at hm
          obtain ⟨a', ha', hx⟩ := hm
          cases hfa : findAttr a'.name A with
          | none => simp [hfa] at hx
          | some y =>
            simp only [hfa, Option.map_some, Option.some.injEq] at hx
            exact h' ⟨a', ha', hx.trans e⟩
      | some x =>
        simp only [List.filterMap_cons, hf, Option.map_some]
        simp [findAttr, e, ← hf]
    · have h' : ∃ a ∈ l, a.name = n := by
        obtain ⟨a', ha', e'⟩ := h
        simp only [List.mem_cons] at ha'
        rcases ha' with rfl | ha'
        · exact absurd e' e
        · exact ⟨a', ha', e'⟩
      cases hf : findAttr a.name A with
      | none =>
        simp only [List.filterMap_cons, hf, Option.map_none]
        exact findAttr_content A n l h'
      | some x =>
        simp only [List.filterMap_cons, hf, Option.map_some]
        simp only [findAttr, beq_iff_eq, e, if_false]
        exact findAttr_content A n l h'

end HclModel.Gohcl.Proofs
