import HclModel.Write.Loader
/-!
Proofs about the writer's loader model (`HclModel/Write/Loader.lean`): every token slice cut off by the
partition helpers ends up in the tree exactly once (`flatten_build_perm`), and in source order provided no
attribute node carries "stragglers" behind its line comment / newline (`flatten_build`, hypothesis `tight`).
The unconditional order statement is false for the model (and for `parseAttribute` in hclwrite/parser.go, which
appends `lineComments`, `newline` and only then the remaining `from` tokens): `flatten_build_unconditional_false`.
-/
namespace HclModel.Loader

/-- An `"attr"` node is *tight* when the stragglers (tokens of the attribute's range after its expression,
    last child) are empty, or there is no line comment / newline for them to be moved behind. -/
def attrTight : List Tree → Bool
  | [_, _, _, _, _, _, _, .toks lc, .toks nl, .toks r3] => r3.isEmpty || (lc.isEmpty && nl.isEmpty)
  | _ => true

mutual
/-- every attribute node in the tree is tight -/
def tight : Tree → Bool
  | .toks _ => true
  | .node tag kids => (tag != "attr" || attrTight kids) && tightAll kids
def tightAll : List Tree → Bool
  | [] => true
  | t :: rest => tight t && tightAll rest
end

end HclModel.Loader

namespace HclModel.Loader.Proofs
open HclModel.Loader

theorem slice3_concat (toks : List Tok) {s e : Nat} (h : s ≤ e) {a b c : List Tok}
    (hs : slice3 toks s e = (a, b, c)) : a ++ b ++ c = toks := by
  simp only [slice3, Prod.mk.injEq] at hs
  obtain ⟨rfl, rfl, rfl⟩ := hs
  have : toks.drop e = (toks.drop s).drop (e - s) := by
    rw [List.drop_drop]; congr 1; omega
  rw [this, List.append_assoc, List.take_append_drop, List.take_append_drop]

theorem findIdx?_lt {α} (p : α → Bool) (l : List α) {i : Nat} (h : l.findIdx? p = some i) : i < l.length := by
  have := (List.findIdx?_eq_some_iff_getElem.mp h)
  exact this.1

theorem partIdx_le (toks : List Tok) (rng : Rng) : (partIdx toks rng).1 ≤ (partIdx toks rng).2 := by
  unfold partIdx
  split
  · simp
  · rename_i s hs
    have := findIdx?_lt _ _ hs
    split
    · simp; omega
    · simp

theorem partIdx_fst_le (toks : List Tok) (rng : Rng) : (partIdx toks rng).1 ≤ toks.length := by
  unfold partIdx
  split
  · simp
  · rename_i s hs
    have := findIdx?_lt _ _ hs
    split <;> simp <;> omega

theorem partition_eq {toks : List Tok} {rng : Rng} {a b c : List Tok}
    (h : partition toks rng = (a, b, c)) : a ++ b ++ c = toks := by
  unfold partition at h
  have hle := partIdx_le toks rng
  rcases hp : partIdx toks rng with ⟨s, e⟩
  rw [hp] at h hle
  exact slice3_concat toks hle h

theorem partition_concat (toks : List Tok) (rng : Rng) :
    (partition toks rng).1 ++ (partition toks rng).2.1 ++ (partition toks rng).2.2 = toks :=
  partition_eq rfl

theorem partitionType_eq {toks : List Tok} {ty : TT} {a b c : List Tok}
    (h : partitionType toks ty = some (a, b, c)) : a ++ b ++ c = toks := by
  unfold partitionType at h
  split at h
  · simp only [Option.some.injEq] at h
    exact slice3_concat toks (Nat.le_succ _) h
  · simp at h

theorem lineEnd_le (l : List Tok) (i : Nat) {ac an : Nat} (h : lineEnd l i = some (ac, an)) : ac ≤ an := by
  induction l generalizing i with
  | nil => simp [lineEnd] at h; omega
  | cons t rest ih =>
    simp only [lineEnd] at h
    split at h
    · simp at h; omega
    · exact ih _ h
    · simp at h; omega
    · simp at h; omega
    · simp at h

theorem leadCommentStart_le (l : List Tok) : leadCommentStart l ≤ l.length := by
  unfold leadCommentStart; omega

theorem partitionIncludingComments_eq {toks : List Tok} {rng : Rng} {a b c : List Tok}
    (h : partitionIncludingComments toks rng = some (a, b, c)) : a ++ b ++ c = toks := by
  unfold partitionIncludingComments at h
  have hle := partIdx_le toks rng
  rcases hp : partIdx toks rng with ⟨s, e⟩
  rw [hp] at h hle
  simp only at h hle
  split at h
  · simp at h
  · simp only [Option.some.injEq] at h
    refine slice3_concat toks ?_ h
    have := leadCommentStart_le (toks.take s)
    simp only [List.length_take] at this
    omega

/-- `take ac ++ take (an-ac) (drop ac) ++ drop an` -/
theorem take_mid_drop (l : List Tok) {ac an : Nat} (h : ac ≤ an) :
    l.take ac ++ (l.drop ac).take (an - ac) ++ l.drop an = l :=
  slice3_concat l h rfl


theorem flattenAll_append (xs ys : List Tree) : flattenAll (xs ++ ys) = flattenAll xs ++ flattenAll ys := by
  induction xs with
  | nil => simp [flattenAll]
  | cons x xs ih => simp [flattenAll, ih]

theorem buildStep_concat {s : StepAst} {from_ b a : List Tok} {t : Tree}
    (h : buildStep s from_ = some (b, t, a)) : b ++ flatten t ++ a = from_ := by
  cases s with
  | name rng =>
    simp only [buildStep] at h
    rcases hp : partition from_ rng with ⟨before, within, after⟩
    rw [hp] at h
    cases hq : partitionType within .ident with
    | none => simp [hq] at h
    | some q =>
      obtain ⟨x, y, z⟩ := q
      simp [hq] at h
      obtain ⟨rfl, rfl, rfl⟩ := h
      simp [flatten, flattenAll, ← partition_eq hp, ← partitionType_eq hq]
  | index rng key =>
    simp only [buildStep] at h
    rcases hp : partition from_ rng with ⟨before, within, after⟩
    rw [hp] at h
    cases hd : partitionType within .dot with
    | some q =>
      obtain ⟨inBefore, dot, rest⟩ := q
      cases hn : partitionType rest .number with
      | none => simp [hd, hn] at h
      | some q2 =>
        obtain ⟨vb, vt, va⟩ := q2
        simp [hd, hn] at h
        obtain ⟨rfl, rfl, rfl⟩ := h
        simp [flatten, flattenAll, ← partition_eq hp, ← partitionType_eq hd, ← partitionType_eq hn]
    | none =>
      cases ho : partitionType within .obrack with
      | none => simp [hd, ho] at h
      | some q =>
        obtain ⟨inBefore, ob, rest⟩ := q
        cases hc : partitionType rest .cbrack with
        | none => simp [hd, ho, hc] at h
        | some q2 =>
          obtain ⟨keyToks, cb, rest'⟩ := q2
          cases key with
          | str =>
            simp [hd, ho, hc] at h
            obtain ⟨rfl, rfl, rfl⟩ := h
            simp [flatten, flattenAll, ← partition_eq hp, ← partitionType_eq ho, ← partitionType_eq hc]
          | other =>
            simp [hd, ho, hc] at h
            obtain ⟨rfl, rfl, rfl⟩ := h
            simp [flatten, flattenAll, ← partition_eq hp, ← partitionType_eq ho, ← partitionType_eq hc]
          | num =>
            cases hn : partitionType keyToks .number with
            | none => simp [hd, ho, hc, hn] at h
            | some q3 =>
              obtain ⟨vb, vt, va⟩ := q3
              simp [hd, ho, hc, hn] at h
              obtain ⟨rfl, rfl, rfl⟩ := h
              simp [flatten, flattenAll, ← partition_eq hp, ← partitionType_eq ho, ← partitionType_eq hc,
                ← partitionType_eq hn]

theorem buildSteps_concat {ss : List StepAst} {from_ rest : List Tok} {trees : List Tree}
    (h : buildSteps ss from_ = some (trees, rest)) : flattenAll trees ++ rest = from_ := by
  induction ss generalizing from_ rest trees with
  | nil => simp [buildSteps] at h; obtain ⟨rfl, rfl⟩ := h; simp [flattenAll]
  | cons s ss ih =>
    simp only [buildSteps] at h
    cases hs : buildStep s from_ with
    | none => simp [hs] at h
    | some q =>
      obtain ⟨before, step, after⟩ := q
      cases hr : buildSteps ss after with
      | none => simp [hs, hr] at h
      | some q2 =>
        obtain ⟨trees', rest'⟩ := q2
        simp [hs, hr] at h
        obtain ⟨rfl, rfl⟩ := h
        simp [flatten, flattenAll, ← buildStep_concat hs, ← ih hr]

/-- nothing is lost by `parseTraversal` except the returned `dropped` remainder -/
theorem buildTrav_concat {t : TravAst} {from_ b a d : List Tok} {tree : Tree}
    (h : buildTrav t from_ = some (b, tree, a, d)) : b ++ flatten tree ++ d ++ a = from_ := by
  simp only [buildTrav] at h
  rcases hp : partition from_ t.rng with ⟨before, within, after⟩
  rw [hp] at h
  cases hs : buildSteps t.steps within with
  | none => simp [hs] at h
  | some q =>
    obtain ⟨trees, rest⟩ := q
    simp [hs] at h
    obtain ⟨rfl, rfl, rfl, rfl⟩ := h
    simp [flatten, ← partition_eq hp, ← buildSteps_concat hs]

theorem buildTravs_concat {ts : List TravAst} {from_ rest : List Tok} {trees : List Tree}
    (h : buildTravs ts from_ = some (trees, rest, true)) : flattenAll trees ++ rest = from_ := by
  induction ts generalizing from_ rest trees with
  | nil => simp [buildTravs] at h; obtain ⟨rfl, rfl⟩ := h; simp [flattenAll]
  | cons t ts ih =>
    simp only [buildTravs] at h
    cases ht : buildTrav t from_ with
    | none => simp [ht] at h
    | some q =>
      obtain ⟨before, trav, after, dropped⟩ := q
      cases hr : buildTravs ts after with
      | none => simp [ht, hr] at h
      | some q2 =>
        obtain ⟨trees', rest', ok⟩ := q2
        simp [ht, hr] at h
        obtain ⟨rfl, rfl, rfl, rfl⟩ := h
        have := buildTrav_concat ht
        simp at this
        simp [flatten, flattenAll, ← this, ← ih hr]

theorem buildExpr_concat {e : ExprAst} {from_ : List Tok} {tree : Tree}
    (h : buildExpr e from_ = some (tree, true)) : flatten tree = from_ := by
  simp only [buildExpr] at h
  cases ht : buildTravs e.travs from_ with
  | none => simp [ht] at h
  | some q =>
    obtain ⟨trees, rest, ok⟩ := q
    simp [ht] at h
    obtain ⟨rfl, rfl⟩ := h
    simp [flatten, flattenAll, flattenAll_append, buildTravs_concat ht]

theorem buildLabels_nonfirst {rs : List Rng} {from_ b rest : List Tok} {trees : List Tree}
    (h : buildLabels rs from_ false = some (b, trees, rest)) : b = [] := by
  cases rs with
  | nil => simp [buildLabels] at h; exact h.1
  | cons r rs =>
    simp only [buildLabels] at h
    rcases hp : partition from_ r with ⟨before, label, after⟩
    rw [hp] at h
    cases hr : buildLabels rs after false with
    | none => simp [hr] at h
    | some q =>
      obtain ⟨x, trees', rest'⟩ := q
      simp [hr] at h
      exact h.1

theorem buildLabels_concat {rs : List Rng} {from_ b rest : List Tok} {trees : List Tree} {first : Bool}
    (h : buildLabels rs from_ first = some (b, trees, rest)) : b ++ flattenAll trees ++ rest = from_ := by
  induction rs generalizing from_ b rest trees first with
  | nil => simp [buildLabels] at h; obtain ⟨rfl, rfl, rfl⟩ := h; simp [flattenAll]
  | cons r rs ih =>
    simp only [buildLabels] at h
    rcases hp : partition from_ r with ⟨before, label, after⟩
    rw [hp] at h
    cases hr : buildLabels rs after false with
    | none => simp [hr] at h
    | some q =>
      obtain ⟨x, trees', rest'⟩ := q
      have hx := buildLabels_nonfirst hr
      subst hx
      have := ih hr
      simp at this
      cases first with
      | true =>
        simp [hr] at h
        obtain ⟨rfl, rfl, rfl⟩ := h
        simp [flatten, flattenAll, ← partition_eq hp, ← this]
      | false =>
        simp [hr] at h
        obtain ⟨rfl, rfl, rfl⟩ := h
        simp [flatten, flattenAll, ← partition_eq hp, ← this]

theorem perm_swap_tail (P X R A : List Tok) : (P ++ (X ++ R) ++ A).Perm (P ++ (R ++ X) ++ A) :=
  ((List.perm_append_comm).append_left P).append_right A

/-- `l` is a rearrangement of the source slice `src`, and equal to it when the tree is tight -/
def Good (l : List Tok) (t : Bool) (src : List Tok) : Prop := l.Perm src ∧ (t = true → l = src)

theorem Good.mid {l src : List Tok} {t t' : Bool} (h : Good l t src) (ht : t' = true → t = true)
    (P Q : List Tok) : Good (P ++ l ++ Q) t' (P ++ src ++ Q) :=
  ⟨(h.1.append_left P).append_right Q, fun h' => by rw [h.2 (ht h')]⟩

theorem buildItem_attr {fuel : Nat} {rng nameRng eqRng : Rng} {expr : ExprAst} {from_ b a : List Tok} {tree : Tree}
    (h : buildItem (fuel+1) (.attr rng nameRng eqRng expr) from_ = some (b, tree, a, true)) :
    Good (b ++ flatten tree ++ a) (tight tree) from_ := by
  simp only [buildItem] at h
  rcases hp : partition from_ rng with ⟨before0, within, after0⟩
  rw [hp] at h
  simp only at h
  cases hl : lineEnd after0 0 with
  | none => simp [hl] at h
  | some q =>
    obtain ⟨ac, an⟩ := q
    simp only [hl] at h
    rcases hp1 : partition within nameRng with ⟨b1, nm, r1⟩
    simp only [hp1] at h
    rcases hp2 : partition r1 eqRng with ⟨b2, eq, r2⟩
    simp only [hp2] at h
    rcases hp3 : partition r2 expr.rng with ⟨b3, exprToks, r3⟩
    simp only [hp3] at h
    split at h
    · simp at h
    · cases he : buildExpr expr exprToks with
      | none => simp [he] at h
      | some q =>
        obtain ⟨exprTree, ok⟩ := q
        simp [he] at h
        obtain ⟨rfl, rfl, rfl, rfl⟩ := h
        have hafter := take_mid_drop after0 (lineEnd_le _ _ hl)
        generalize after0.take ac = lcs at hafter ⊢
        generalize (after0.drop ac).take (an - ac) = nl at hafter ⊢
        generalize after0.drop an = aft at hafter ⊢
        have hbefore := List.take_append_drop (leadCommentStart before0) before0
        generalize before0.take (leadCommentStart before0) = bf at hbefore ⊢
        generalize before0.drop (leadCommentStart before0) = ldc at hbefore ⊢
        have e0 := partition_eq hp
        have e1 := partition_eq hp1
        have e2 := partition_eq hp2
        have e3 := partition_eq hp3
        have e4 := buildExpr_concat he
        subst hafter hbefore e1 e2 e3
        have L : bf ++ flatten (Tree.node "attr" [.toks ldc, .toks b1, .toks nm, .toks b2, .toks eq, .toks b3,
              exprTree, .toks lcs, .toks nl, .toks r3]) ++ aft
            = (bf ++ ldc ++ b1 ++ nm ++ b2 ++ eq ++ b3 ++ exprToks) ++ ((lcs ++ nl) ++ r3) ++ aft := by
          simp [flatten, flattenAll, e4]
        have R : from_ = (bf ++ ldc ++ b1 ++ nm ++ b2 ++ eq ++ b3 ++ exprToks) ++ (r3 ++ (lcs ++ nl)) ++ aft := by
          simp [← e0]
        rw [L, R]
        refine ⟨perm_swap_tail _ _ _ _, ?_⟩
        intro ht
        simp [tight, tightAll, attrTight] at ht
        rcases ht with rfl | ⟨rfl, rfl⟩ <;> simp

theorem buildItem_block {fuel : Nat} {rng typeRng oBrace cBrace bodyRng : Rng} {labelRngs : List Rng}
    {items : List ItemAst} {from_ b a : List Tok} {tree : Tree}
    (ihBody : ∀ rng items from_ b tree a, buildBody fuel rng items from_ = some (b, tree, a, true) →
      Good (b ++ flatten tree ++ a) (tight tree) from_)
    (h : buildItem (fuel+1) (.block rng typeRng labelRngs oBrace cBrace bodyRng items) from_ = some (b, tree, a, true)) :
    Good (b ++ flatten tree ++ a) (tight tree) from_ := by
  simp only [buildItem] at h
  rcases hp : partition from_ rng with ⟨before0, within, after0⟩
  rw [hp] at h
  simp only at h
  cases hl : lineEnd after0 0 with
  | none => simp [hl] at h
  | some q =>
    obtain ⟨ac, an⟩ := q
    simp only [hl] at h
    rcases hp1 : partition within typeRng with ⟨b1, ty, r1⟩
    simp only [hp1] at h
    split at h
    · simp at h
    · cases hlb : buildLabels labelRngs r1 true with
      | none => simp [hlb] at h
      | some q =>
        obtain ⟨bl, labelTrees, r2⟩ := q
        simp only [hlb, bind, Option.bind] at h
        rcases hp2 : partition r2 oBrace with ⟨b2, ob, r3⟩
        simp only [hp2] at h
        rcases hp3 : partition r3 cBrace with ⟨bodyToks, cb, r4⟩
        simp only [hp3] at h
        cases hb : buildBody fuel bodyRng items bodyToks with
        | none => simp [hb] at h
        | some q =>
          obtain ⟨bb, bodyTree, ba, ok⟩ := q
          simp [hb] at h
          obtain ⟨rfl, rfl, rfl, rfl⟩ := h
          have hafter := take_mid_drop after0 (lineEnd_le _ _ hl)
          generalize after0.take ac = lcs at hafter ⊢
          generalize (after0.drop ac).take (an - ac) = nl at hafter ⊢
          generalize after0.drop an = aft at hafter ⊢
          have hbefore := List.take_append_drop (leadCommentStart before0) before0
          generalize before0.take (leadCommentStart before0) = bf at hbefore ⊢
          generalize before0.drop (leadCommentStart before0) = ldc at hbefore ⊢
          have e0 := partition_eq hp
          have e1 := partition_eq hp1
          have e2 := partition_eq hp2
          have e3 := partition_eq hp3
          have e4 := buildLabels_concat hlb
          have G := ihBody _ _ _ _ _ _ hb
          subst hafter hbefore e1 e2 e3 e4
          have L : bf ++ flatten (Tree.node "block" [.toks ldc, .toks b1, .toks ty, .toks bl,
                .node "labels" labelTrees, .toks b2, .toks ob, .toks bb, bodyTree, .toks ba, .toks cb, .toks r4,
                .toks lcs, .toks nl]) ++ aft
              = (bf ++ ldc ++ b1 ++ ty ++ bl ++ flattenAll labelTrees ++ b2 ++ ob) ++ (bb ++ flatten bodyTree ++ ba)
                ++ (cb ++ r4 ++ lcs ++ nl ++ aft) := by
            simp [flatten, flattenAll]
          have R : from_ = (bf ++ ldc ++ b1 ++ ty ++ bl ++ flattenAll labelTrees ++ b2 ++ ob) ++ bodyToks
                ++ (cb ++ r4 ++ lcs ++ nl ++ aft) := by
            simp [← e0]
          rw [L, R]
          refine G.mid ?_ _ _
          intro ht
          simp [tight, tightAll] at ht
          exact ht.2

theorem build_all (fuel : Nat) :
    (∀ it from_ b tree a, buildItem fuel it from_ = some (b, tree, a, true) →
      Good (b ++ flatten tree ++ a) (tight tree) from_) ∧
    (∀ rng items from_ b tree a, buildBody fuel rng items from_ = some (b, tree, a, true) →
      Good (b ++ flatten tree ++ a) (tight tree) from_) ∧
    (∀ items from_ trees, buildItems fuel items from_ = some (trees, true) →
      Good (flattenAll trees) (tightAll trees) from_) := by
  induction fuel with
  | zero => simp [buildItem, buildBody, buildItems]
  | succ fuel ih =>
    obtain ⟨ihItem, ihBody, ihItems⟩ := ih
    refine ⟨?_, ?_, ?_⟩
    · intro it from_ b tree a h
      cases it with
      | attr => exact buildItem_attr h
      | block => exact buildItem_block ihBody h
    · intro rng items from_ b tree a h
      simp only [buildBody] at h
      cases hp : partitionIncludingComments from_ rng with
      | none => simp [hp] at h
      | some q =>
        obtain ⟨before, within, after⟩ := q
        cases hi : buildItems fuel items within with
        | none => simp [hp, hi] at h
        | some q =>
          obtain ⟨trees, ok⟩ := q
          simp [hp, hi] at h
          obtain ⟨rfl, rfl, rfl, rfl⟩ := h
          have G := ihItems _ _ _ hi
          rw [← partitionIncludingComments_eq hp]
          simp only [flatten]
          refine G.mid ?_ _ _
          intro ht
          simpa [tight] using ht
    · intro items from_ trees h
      cases items with
      | nil =>
        simp [buildItems] at h
        subst h
        simp [flatten, flattenAll, tight, tightAll, Good]
      | cons it rest =>
        simp only [buildItems] at h
        cases hi : buildItem fuel it from_ with
        | none => simp [hi] at h
        | some q =>
          obtain ⟨bi, item, ai, ok1⟩ := q
          cases hr : buildItems fuel rest ai with
          | none => simp [hi, hr] at h
          | some q =>
            obtain ⟨trees', ok2⟩ := q
            simp [hi, hr] at h
            obtain ⟨rfl, rfl, rfl⟩ := h
            have G1 := ihItem _ _ _ _ _ hi
            have G2 := ihItems _ _ _ hr
            refine ⟨?_, ?_⟩
            · have := (G2.1.append_left (bi ++ flatten item)).trans G1.1
              simpa [flatten, flattenAll] using this
            · intro ht
              simp [tight, tightAll] at ht
              have e1 := G1.2 ht.1
              have e2 := G2.2 ht.2
              simp only [flatten, flattenAll, e2]
              simpa using e1

/-- `buildFile`: the saved tree is a rearrangement of the source tokens, and equal to them when tight -/
theorem buildFile_good (fuel : Nat) (rng : Rng) (items : List ItemAst) (toks : List Tok) (tree : Tree)
    (h : buildFile fuel rng items toks = some (tree, true)) : Good (flatten tree) (tight tree) toks := by
  simp only [buildFile] at h
  cases hb : buildBody fuel rng items toks with
  | none => simp [hb] at h
  | some q =>
    obtain ⟨before, body, after, ok⟩ := q
    simp [hb] at h
    obtain ⟨rfl, rfl⟩ := h
    have G := (build_all fuel).2.1 _ _ _ _ _ _ hb
    refine ⟨?_, ?_⟩
    · simpa [flatten, flattenAll] using G.1
    · intro ht
      simp [tight, tightAll] at ht
      simpa [flatten, flattenAll] using G.2 ht

/-- Nothing is dropped or duplicated: the saved token sequence is a permutation of the source tokens. -/
theorem flatten_build_perm (fuel : Nat) (rng : Rng) (items : List ItemAst) (toks : List Tok) (tree : Tree)
    (h : buildFile fuel rng items toks = some (tree, true)) : (flatten tree).Perm toks :=
  (buildFile_good fuel rng items toks tree h).1

/-- ... and nothing is reordered when every attribute node is tight. -/
theorem flatten_build (fuel : Nat) (rng : Rng) (items : List ItemAst) (toks : List Tok) (tree : Tree)
    (h : buildFile fuel rng items toks = some (tree, true)) (ht : tight tree = true) : flatten tree = toks :=
  (buildFile_good fuel rng items toks tree h).2 ht

/-! ### the unconditional statement is false -/

def cexToks : List Tok :=
  [⟨0, .ident, 0⟩, ⟨2, .other, 1⟩, ⟨4, .number, 2⟩, ⟨6, .other, 3⟩, ⟨8, .newline, 4⟩, ⟨9, .eof, 5⟩]
def cexItems : List ItemAst := [.attr ⟨0, 8⟩ ⟨0, 1⟩ ⟨2, 3⟩ ⟨⟨4, 5⟩, []⟩]

theorem cex_eval : (buildFile 4 ⟨0, 9⟩ cexItems cexToks).map (fun p => ((flatten p.1).map (·.id), p.2))
    = some ([0, 1, 2, 4, 3, 5], true) := by decide

/-- The statement as first written (no tightness hypothesis) does not hold: an attribute whose range extends
    past its expression's range gets the tokens in between (`stragglers`) re-attached AFTER the line's
    comment/newline tokens (`parseAttribute`: `lineComments`, `newline`, then `from`). -/
theorem flatten_build_unconditional_false :
    ¬ ∀ (fuel : Nat) (rng : Rng) (items : List ItemAst) (toks : List Tok) (tree : Tree),
      buildFile fuel rng items toks = some (tree, true) → flatten tree = toks := by
  intro H
  have c := cex_eval
  cases hb : buildFile 4 ⟨0, 9⟩ cexItems cexToks with
  | none => simp [hb] at c
  | some p =>
    obtain ⟨tree, ok⟩ := p
    simp only [hb, Option.map, Option.some.injEq, Prod.mk.injEq] at c
    obtain ⟨c1, rfl⟩ := c
    rw [H _ _ _ _ _ hb] at c1
    exact absurd c1 (by decide)
end HclModel.Loader.Proofs
