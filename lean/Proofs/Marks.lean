import Proofs.MarksNI
import Proofs.MarksStrict
/-!
# C06 — marks propagate (expression evaluation): the results used by `Props/C06.lean`

* `noninterference_partial`: two scopes related by `relEnv`, both evaluations free of diagnostics in the strict
  configuration, and the side condition `Stable` (see `Proofs/MarksStable.lean`): the results are related.
  The statement without `Stable` is false (witnesses in `Props/C06.lean`).
* `noninterference_plain`: for expressions built from literals, variables, attribute access, binary operators,
  tuple constructors and templates only, `Stable` holds trivially.
* `rel_differ_marked` (in `Proofs/MarksVal.lean`): related values that differ carry the mark, both of them.
* `strict_agrees` (in `Proofs/MarksStrict.lean`): with no failing sub-evaluation, `keepDropped` is immaterial.
-/
namespace HclModel.Proofs

theorem noninterference_partial (F : Funcs) (hF : LawfulFuncs F) (e : Expr) (ρ σ : Env) (h : relEnv ρ σ)
    (hs : Stable (strictCx F) e ρ σ)
    (h₁ : (eval (strictCx F) ρ e).2 = []) (h₂ : (eval (strictCx F) σ e).2 = []) :
    relV (eval (strictCx F) ρ e).1 (eval (strictCx F) σ e).1 = true :=
  ni_eval F hF e ρ σ h hs h₁ h₂

mutual
/-- expressions without any construct that has a clause in `Stable`: literals, variables, attribute access,
    binary operators, tuple constructors, templates -/
def plain : Expr → Bool
  | .lit _ => true
  | .var _ => true
  | .getAttr e _ => plain e
  | .bin _ l r => plain l && plain r
  | .tuple es => plainList es
  | .template parts => plainList parts
  | _ => false
def plainList : List Expr → Bool
  | [] => true
  | e :: es => plain e && plainList es
end

mutual
theorem stable_of_plain (F : Cx) : ∀ (e : Expr) (ρ σ : Env), plain e = true → Stable F e ρ σ
  | .lit _, _, _, _ => by simp only [Stable]
  | .var _, _, _, _ => by simp only [Stable]
  | .getAttr e _, ρ, σ, h => by
    simp only [plain] at h
    simp only [Stable]; exact stable_of_plain F e ρ σ h
  | .bin _ l r, ρ, σ, h => by
    simp only [plain, Bool.and_eq_true] at h
    simp only [Stable]; exact ⟨stable_of_plain F l ρ σ h.1, stable_of_plain F r ρ σ h.2⟩
  | .tuple es, ρ, σ, h => by
    simp only [plain] at h
    simp only [Stable]; exact stableList_of_plain F es ρ σ h
  | .template es, ρ, σ, h => by
    simp only [plain] at h
    simp only [Stable]; exact stableList_of_plain F es ρ σ h
  | .index _ _, _, _, h | .un _ _, _, _, h | .cond _ _ _, _, _, h | .object _, _, _, h
  | .forTuple _ _ _ _ _, _, _, h | .forObject _ _ _ _ _ _ _, _, _, h | .splat _ _ _, _, _, h
  | .tjoin _, _, _, h | .call _ _ _, _, _, h => by simp [plain] at h
theorem stableList_of_plain (F : Cx) : ∀ (es : List Expr) (ρ σ : Env), plainList es = true → StableList F es ρ σ
  | [], _, _, _ => by simp only [StableList]
  | e :: es, ρ, σ, h => by
    simp only [plainList, Bool.and_eq_true] at h
    simp only [StableList]; exact ⟨stable_of_plain F e ρ σ h.1, stableList_of_plain F es ρ σ h.2⟩
end

theorem noninterference_plain (F : Funcs) (hF : LawfulFuncs F) (e : Expr) (hp : plain e = true) (ρ σ : Env)
    (h : relEnv ρ σ) (h₁ : (eval (strictCx F) ρ e).2 = []) (h₂ : (eval (strictCx F) σ e).2 = []) :
    relV (eval (strictCx F) ρ e).1 (eval (strictCx F) σ e).1 = true :=
  noninterference_partial F hF e ρ σ h (stable_of_plain _ e ρ σ hp) h₁ h₂

end HclModel.Proofs
