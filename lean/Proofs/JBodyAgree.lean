import Proofs.JBodyContent
/-!
C03, main theorem: consuming the JSON rendering of an admissible layout level by level gives what consuming
the native body of the configuration denoted gives.
-/
namespace HclModel.JBody.Proofs
open HclModel HclModel.Body HclModel.Body.Proofs

/-! ### the native body of the configuration denoted -/

theorem native_fresh (st : STree) (L : BodyL) (hL : admBody st L = true) :
    (denoteBody L).native.hiddenAttrs = [] ∧ (denoteBody L).native.hiddenBlocks = [] ∧
      ((denoteBody L).native.attrs.map (·.1)).Nodup :=
  ⟨rfl, rfl, by rw [native_attrs]; exact adm_nodup st L hL⟩

/-- a block the native schema processing returns -/
def ngood (s : Schema) (blk : Block CBlock) : Bool :=
  match wanted s blk.type with
  | some bs => blk.labels.length == bs.labelCount
  | none => false

theorem native_content (st : STree) (L : BodyL) (hst : st.wf = true) (hL : admBody st L = true) :
    ((denoteBody L).native.content st.schema).1.attrs =
      st.schema.attrs.filterMap
        (fun as => (findAttr as.name (denoteAttrs (bodyProps L))).map fun a => (as.name, a)) ∧
    ((denoteBody L).native.content st.schema).1.blocks =
      ((flatBlocks (bodyProps L)).map toN).filter (ngood st.schema) := by
  have h := Body.Proofs.content_exact (denoteBody L).native st.schema (native_fresh st L hL) (wf_nodup hst)
  rw [native_attrs, native_blocks] at h
  exact h

/-! ### looking attributes up -/

theorem lookupAttr_eq_findAttr {α : Type} (n : String) (l : List (String × α)) :
    lookupAttr n l = findAttr n l := by
  induction l with
  | nil => rfl
  | cons p rest ih => obtain ⟨k, v⟩ := p; simp [lookupAttr, findAttr, ih]

theorem findAttr_filter {α : Type} (P : String → Bool) (n : String) (l : List (String × α)) :
    findAttr n (l.filter fun p => P p.1) = if P n then findAttr n l else none := by
  induction l with
  | nil => simp [findAttr]
  | cons p rest ih =>
    obtain ⟨k, v⟩ := p
    by_cases hk : P k = true
    · simp only [List.filter_cons, hk, if_true, findAttr, ih]
      by_cases e : k = n
      · subst e; simp [hk]
      · have : (k == n) = false := by simpa using e
        simp [this]
    · simp only [List.filter_cons, hk, Bool.false_eq_true, if_false]
      rw [ih]
      by_cases e : k = n
      · subst e; simp [hk]
      · have : (k == n) = false := by simpa using e
        simp [findAttr, this]

theorem findAttr_schema {α : Type} (D : List (String × α)) (n : String) (attrs : List AttrSchema) :
    findAttr n (attrs.filterMap fun as => (findAttr as.name D).map fun a => (as.name, a)) =
      if attrs.any (·.name == n) then findAttr n D else none := by
  induction attrs with
  | nil => simp [findAttr]
  | cons a rest ih =>
    simp only [List.filterMap_cons, List.any_cons]
    cases hf : findAttr a.name D with
    | none =>
      simp only [Option.map_none, ih]
      by_cases e : a.name = n
      · subst e; simp [hf]
      · have : (a.name == n) = false := by simpa using e
        simp [this]
    | some v =>
      simp only [Option.map_some, findAttr, ih]
      by_cases e : a.name = n
      · subst e; simp [hf]
      · have : (a.name == n) = false := by simpa using e
        simp [this]

theorem findAttr_mem {α : Type} {n : String} {l : List (String × α)} {v : α} (h : findAttr n l = some v) :
    (n, v) ∈ l := by
  induction l with
  | nil => simp [findAttr] at h
  | cons p rest ih =>
    obtain ⟨k, w⟩ := p
    simp only [findAttr] at h
    by_cases e : k = n
    · subst e; simp at h; simp [h]
    · have : (k == n) = false := by simpa using e
      simp only [this, Bool.false_eq_true, if_false] at h
      exact List.mem_cons_of_mem _ (ih h)

/-! ### list plumbing -/

theorem filterMap_filter_map {α β γ : Type} (F : List α) (f : α → β) (q : β → Bool) (g : β → Option γ) :
    ((F.map f).filter q).filterMap g = F.filterMap (fun a => if q (f a) then g (f a) else none) := by
  induction F with
  | nil => rfl
  | cons a rest ih =>
    by_cases h : q (f a) = true
    · simp [h, List.filterMap_cons, ih]
    · simp [h, ih]

theorem filterMap_filter' {α γ : Type} (F : List α) (p : α → Bool) (g : α → Option γ) :
    (F.filter p).filterMap g = F.filterMap (fun a => if p a then g a else none) := by
  induction F with
  | nil => rfl
  | cons a rest ih =>
    by_cases h : p a = true
    · simp [h, List.filterMap_cons, ih]
    · simp [h, ih]

theorem filterMap_congr' {α γ : Type} {F : List α} {f g : α → Option γ} (h : ∀ a ∈ F, f a = g a) :
    F.filterMap f = F.filterMap g := by
  induction F with
  | nil => rfl
  | cons a rest ih =>
    simp only [List.filterMap_cons, h a (by simp)]
    rw [ih fun b hb => h b (by simp [hb])]

/-! ### the main theorem -/

/-- attribute values of an admissible layout have no repeated keys -/
theorem adm_attr_unique (st : STree) (L : BodyL) (hL : admBody st L = true) {n : String} {v : JV}
    (h : (n, v) ∈ denoteAttrs (bodyProps L)) : uniqueKeys v = true :=
  (((admProps_iff st _).1 (adm_props st L hL) _ (mem_denoteAttrs.1 h)).attr n v rfl).2.2

theorem resolve_agree (ev : Expr → Val × Bool) (hev : ∀ v, uniqueKeys v = true → ev (litExpr v) = jsonValue v) :
    ∀ (n : Nat) (st : STree) (L : BodyL), st.wf = true → admBody st L = true →
      resolveJ n st ⟨renderBody L, []⟩ = resolveN ev n st (denoteBody L) := by
  intro n
  induction n with
  | zero => intro st L _ _; simp [resolveJ, resolveN]
  | succ fuel ih =>
    intro st L hst hL
    obtain ⟨hna, hnb⟩ := native_content st L hst hL
    simp only [resolveJ, resolveN, content_attrs st L hst hL, content_blocks st L hst hL, hna, hnb,
      RTree.mk.injEq]
    constructor
    · -- arguments
      apply List.map_congr_left
      intro as has
      have hany : st.schema.attrs.any (·.name == as.name) = true := by
        simp only [List.any_eq_true, beq_iff_eq]; exact ⟨as, has, rfl⟩
      simp only [lookupAttr_eq_findAttr, Prod.mk.injEq, true_and]
      rw [findAttr_filter (fun n => st.schema.attrs.any (·.name == n)), findAttr_schema, hany]
      simp only [if_true]
      cases hf : findAttr as.name (denoteAttrs (bodyProps L)) with
      | none => rfl
      | some v =>
        simp only [Option.map_some, Option.some.injEq]
        exact (hev v (adm_attr_unique st L hL (findAttr_mem hf))).symm
    · -- blocks, type by type
      apply List.map_congr_left
      intro bs _
      simp only [Prod.mk.injEq, true_and]
      conv => lhs; rw [filterMap_filter_map, filterMap_filter']
      conv => rhs; rw [List.filter_filter, filterMap_filter_map]
      apply filterMap_congr'
      intro fb hfb
      cases hw : wanted st.schema fb.1 with
      | none => simp [toN, ngood, hw]
      | some bs' =>
        obtain ⟨cst, hc, hcwf, hlen, hadm⟩ := adm_flatBlocks hst (adm_props st L hL) hfb hw
        have := ih cst fb.2.2 hcwf hadm
        simp [toJ, toN, toC, ngood, hw, hlen, hc, this, CBlock.body]

end HclModel.JBody.Proofs
