import Proofs.MarksBin
/-!
C06: the conditional (`evalCond`).
-/
set_option linter.unusedSimpArgs false
namespace HclModel.Proofs
open Val

/-- the result of a conditional whose condition is unknown (`tv`, `fv` already unmarked) -/
def condUnknown (rty : Ty) (ms : Fl) (tv fv : Val) (cd : List Diag) : Out :=
  if tv.isNull && fv.isNull then ((Val.null Fl.none rty).withFl ms, cd)
  else
    match tv, fv with
    | .num _ _, _ | _, .num _ _ =>
      if tv.typeOf == .num && fv.typeOf == .num then unsupportedOut "conditional: numeric range refinement"
      else ((Val.unk Fl.none rty).withFl ms, cd)
    | .list _ t xs, .list _ u ys =>
      if t == u && xs.length = ys.length then
        ((Val.list Fl.none t (List.replicate xs.length (Val.unk Fl.none t))).withFl ms, cd)
      else ((Val.unk Fl.none rty).withFl ms, cd)
    | .map _ t xs, .map _ u ys =>
      if t == u && xs.length = ys.length && xs.length = 0 then ((Val.map Fl.none t []).withFl ms, cd)
      else ((Val.unk Fl.none rty).withFl ms, cd)
    | _, _ => ((Val.unk Fl.none rty).withFl ms, cd)

def condPick (rty : Ty) (ms : Fl) (cd : List Diag) (v : Val) (ds : List Diag) (site : String) : Out :=
  match tryConvert v rty with
  | .ok v' => (v'.withFl ms, cd ++ ds)
  | .error d => ((Val.unk Fl.none rty).withFl ms, cd ++ ds ++ [if d.isUnsupported then d else ⟨site, []⟩])

def condKnown (rty : Ty) (ms : Fl) (cv tv fv : Val) (cd td fd : List Diag) : Out :=
  match tryConvert cv .bool with
  | .error d => (Val.unk Fl.none rty, cd ++ [if d.isUnsupported then d else ⟨"Incorrect condition type", []⟩])
  | .ok cb =>
    match cb with
    | .bool _ true => condPick rty ms cd tv td "Inconsistent conditional result types: true"
    | .bool _ false => condPick rty ms cd fv fd "Inconsistent conditional result types: false"
    | _ => ((Val.unk Fl.none rty).withFl ms, cd)

theorem evalCondCore_eq (cv tv fv : Val) (cd td fd : List Diag) :
    evalCondCore (cv, cd) (tv, td) (fv, fd) =
      match unifyCond tv fv with
      | .error (.unsupported w) => unsupportedOut w
      | .error (.fail _) => errOut "Inconsistent conditional result types"
      | .ok none => errOut "Inconsistent conditional result types"
      | .ok (some rty) =>
        if cv.isNull then (Val.unk Fl.none rty, cd ++ [⟨"Null condition", []⟩])
        else
          let ms := (cv.fl.join tv.fl).join fv.fl
          if !cv.isKnown then condUnknown rty ms tv.unmark.1 fv.unmark.1 cd
          else condKnown rty ms cv.unmark.1 tv.unmark.1 fv.unmark.1 cd td fd := by
  cases hu : unifyCond tv fv with
  | error e => cases e <;> simp only [evalCondCore, hu]
  | ok o =>
    cases o with
    | none => simp only [evalCondCore, hu]
    | some rty =>
      simp only [evalCondCore, hu]
      split
      · rfl
      · simp only [unmark, isKnown_setFl]
        split <;> rfl

theorem condUnknown_marked (rty : Ty) (ms : Fl) (tv fv : Val) (cd : List Diag) (hm : ms.m = true)
    (h : (condUnknown rty ms tv fv cd).2 = []) : (condUnknown rty ms tv fv cd).1.fl.m = true := by
  unfold condUnknown at h ⊢
  split
  · simp [hm]
  · split <;> (try split) <;> simp_all

theorem condPick_marked (rty : Ty) (ms : Fl) (cd : List Diag) (v : Val) (ds : List Diag) (site : String)
    (hm : ms.m = true) : (condPick rty ms cd v ds site).1.fl.m = true := by
  unfold condPick; split <;> simp [hm]

theorem condKnown_marked (rty : Ty) (ms : Fl) (cv tv fv : Val) (cd td fd : List Diag) (hm : ms.m = true)
    (h : (condKnown rty ms cv tv fv cd td fd).2 = []) : (condKnown rty ms cv tv fv cd td fd).1.fl.m = true := by
  unfold condKnown at h ⊢
  cases hc : tryConvert cv .bool with
  | error d => simp [hc] at h
  | ok cb =>
    simp only [hc] at h ⊢
    split
    · exact condPick_marked _ _ _ _ _ _ hm
    · exact condPick_marked _ _ _ _ _ _ hm
    · simp [hm]

theorem evalCondCore_marked (cv tv fv : Val) (cd td fd : List Diag)
    (hm : ((cv.fl.join tv.fl).join fv.fl).m = true)
    (h : (evalCondCore (cv, cd) (tv, td) (fv, fd)).2 = []) :
    (evalCondCore (cv, cd) (tv, td) (fv, fd)).1.fl.m = true := by
  rw [evalCondCore_eq] at h ⊢
  cases hu : unifyCond tv fv with
  | error e => cases e <;> simp [hu] at h
  | ok o =>
    cases o with
    | none => simp [hu] at h
    | some rty =>
      simp only [hu] at h ⊢
      cases hn : cv.isNull
      · cases hk : cv.isKnown
        · simp only [hn, hk, Bool.false_eq_true, if_false, Bool.not_false, if_true] at h ⊢
          exact condUnknown_marked _ _ _ _ _ hm h
        · simp only [hn, hk, Bool.false_eq_true, if_false, Bool.not_true, if_true] at h ⊢
          exact condKnown_marked _ _ _ _ _ _ _ _ hm h
      · simp [hn] at h

theorem relF_length : ∀ {xs ys : List (String × Val)}, relF xs ys = true → xs.length = ys.length
  | [], [], _ => rfl
  | [], _ :: _, h => by simp [relF] at h
  | _ :: _, [], h => by simp [relF] at h
  | (_, _) :: xs, (_, _) :: ys, h => by
    simp only [relF, Bool.and_eq_true] at h
    simp [relF_length h.2]

theorem relV_ite (c : Prop) [Decidable c] (a b a' b' : Out) (h1 : relV a.1 a'.1 = true)
    (h2 : relV b.1 b'.1 = true) : relV (if c then a else b).1 (if c then a' else b').1 = true := by
  split <;> assumption

theorem condUnknown_relC (rty : Ty) (ms ms' : Fl) (tv tv' fv fv' : Val) (cd cd' : List Diag)
    (ht : relC tv tv' = true) (hf : relC fv fv' = true) :
    relV (condUnknown rty ms tv fv cd).1 (condUnknown rty ms' tv' fv' cd').1 = true := by
  cases tv <;> cases tv' <;> simp [relC] at ht <;> cases fv <;> cases fv' <;> simp [relC] at hf <;>
    (try subst ht) <;> (try subst hf) <;>
    simp [condUnknown, isNull, typeOf, relV, relV_refl, unsupportedOut, withFl, setFl]
  all_goals
    first
    | (split <;> simp_all [relV, relV_refl]; done)
    | (apply relV_ite <;> simp [relV, relV_refl]; done)
    | (obtain ⟨rfl, ht⟩ := ht; obtain ⟨rfl, hf⟩ := hf
       (try rw [relL_length ht, relL_length hf]); (try rw [relF_length ht, relF_length hf])
       split <;> simp_all [relV, relL_refl, relF_refl])

theorem condPick_rel (rty : Ty) (ms ms' : Fl) (cd cd' : List Diag) (v v' : Val) (ds ds' : List Diag) (site : String)
    (hv : relV v v' = true) (h1 : (condPick rty ms cd v ds site).2 = [])
    (h2 : (condPick rty ms' cd' v' ds' site).2 = []) :
    relV (condPick rty ms cd v ds site).1 (condPick rty ms' cd' v' ds' site).1 = true := by
  unfold condPick at h1 h2 ⊢
  cases c1 : tryConvert v rty with
  | error d => simp [c1] at h1
  | ok x =>
    cases c2 : tryConvert v' rty with
    | error d => simp [c2] at h2
    | ok y => simp only []; exact relV_withFl (tryConvert_rel hv c1 c2) _ _

theorem condKnown_rel (rty : Ty) (ms ms' : Fl) (cv cv' tv tv' fv fv' : Val) (cd cd' td td' fd fd' : List Diag)
    (hc : relC cv cv' = true) (hm : cv.fl.m = false) (_hm' : cv'.fl.m = false)
    (ht : relV tv tv' = true) (hf : relV fv fv' = true)
    (h1 : (condKnown rty ms cv tv fv cd td fd).2 = []) (h2 : (condKnown rty ms' cv' tv' fv' cd' td' fd').2 = []) :
    relV (condKnown rty ms cv tv fv cd td fd).1 (condKnown rty ms' cv' tv' fv' cd' td' fd').1 = true := by
  unfold condKnown at h1 h2 ⊢
  cases c1 : tryConvert cv .bool with
  | error d => simp [c1] at h1
  | ok cb =>
    cases c2 : tryConvert cv' .bool with
    | error d => simp [c2] at h2
    | ok cb' =>
      simp only [c1, c2] at h1 h2 ⊢
      have r := tryConvert_rel (relV_of_relC hc) c1 c2
      have f1 := tryConvert_fl c1
      have f2 := tryConvert_fl c2
      have rc : relC cb cb' = true := by
        rcases relV_cases r with ⟨m, _⟩ | rc
        · rw [f1, hm] at m; cases m
        · exact rc
      cases cb <;> cases cb' <;> simp [relC] at rc
      case bool.bool f b f' b' =>
        subst rc
        cases b
        · exact condPick_rel _ _ _ _ _ _ _ _ _ _ hf h1 h2
        · exact condPick_rel _ _ _ _ _ _ _ _ _ _ ht h1 h2
      all_goals simp [relV, withFl, setFl]

theorem evalCond_nil {co to fo : Out} (h : (evalCond true co to fo).2 = []) :
    (evalCondCore co to fo).2 = [] ∧ to.2 = [] ∧ fo.2 = [] ∧
      (evalCond true co to fo).1 = (evalCondCore co to fo).1 := by
  unfold evalCond at h ⊢
  simp only [if_true, List.append_eq_nil_iff] at h ⊢
  exact ⟨h.1.1, h.1.2, h.2, trivial⟩

theorem evalCond_rel (co co' to to' fo fo' : Out) (hc : relV co.1 co'.1 = true) (ht : relV to.1 to'.1 = true)
    (hf : relV fo.1 fo'.1 = true)
    (hsite : bm co.1 co'.1 ∨ bm to.1 to'.1 ∨ bm fo.1 fo'.1 ∨ unifyCond to.1 fo.1 = unifyCond to'.1 fo'.1)
    (h1 : (evalCond true co to fo).2 = []) (h2 : (evalCond true co' to' fo').2 = []) :
    relV (evalCond true co to fo).1 (evalCond true co' to' fo').1 = true := by
  obtain ⟨k1, -, -, e1⟩ := evalCond_nil h1
  obtain ⟨k2, -, -, e2⟩ := evalCond_nil h2
  rw [e1, e2]
  obtain ⟨cv, cd⟩ := co
  obtain ⟨tv, td⟩ := to
  obtain ⟨fv, fd⟩ := fo
  obtain ⟨cv', cd'⟩ := co'
  obtain ⟨tv', td'⟩ := to'
  obtain ⟨fv', fd'⟩ := fo'
  simp only [] at hc ht hf hsite
  have mk : (bm cv cv' ∨ bm tv tv' ∨ bm fv fv') →
      relV (evalCondCore (cv, cd) (tv, td) (fv, fd)).1 (evalCondCore (cv', cd') (tv', td') (fv', fd')).1 = true := by
    intro hb
    apply relV_top
    · apply evalCondCore_marked _ _ _ _ _ _ _ k1
      rcases hb with hb | hb | hb <;> simp [hb.1]
    · apply evalCondCore_marked _ _ _ _ _ _ _ k2
      rcases hb with hb | hb | hb <;> simp [hb.2]
  rcases relV_cases hc with hb | rc
  · exact mk (Or.inl hb)
  rcases relV_cases ht with hb | rt
  · exact mk (Or.inr (Or.inl hb))
  rcases relV_cases hf with hb | rf
  · exact mk (Or.inr (Or.inr hb))
  rcases hsite with hb | hb | hb | hu
  · exact mk (Or.inl hb)
  · exact mk (Or.inr (Or.inl hb))
  · exact mk (Or.inr (Or.inr hb))
  rw [evalCondCore_eq] at k1 k2 ⊢
  rw [evalCondCore_eq]
  rw [← hu] at k2 ⊢
  cases hu1 : unifyCond tv fv with
  | error e => cases e <;> simp [hu1] at k1
  | ok o =>
    cases o with
    | none => simp [hu1] at k1
    | some rty =>
      simp only [hu1] at k1 k2 ⊢
      have hn := relC_isNull rc
      have hk := relC_isKnown rc
      cases hn1 : cv.isNull
      · rw [hn1] at hn
        cases hk1 : cv.isKnown
        · rw [hk1] at hk
          simp only [hn1, ← hn, hk1, ← hk, Bool.false_eq_true, if_false, Bool.not_false, if_true] at k1 k2 ⊢
          exact condUnknown_relC _ _ _ _ _ _ _ _ _ (by simpa using rt) (by simpa using rf)
        · rw [hk1] at hk
          simp only [hn1, ← hn, hk1, ← hk, Bool.false_eq_true, if_false, Bool.not_true, if_true] at k1 k2 ⊢
          exact condKnown_rel _ _ _ _ _ _ _ _ _ _ _ _ _ _ _ (by simpa using rc) (by simp) (by simp)
            (relV_of_relC (by simpa using rt)) (relV_of_relC (by simpa using rf)) k1 k2
      · simp [hn1] at k1
end HclModel.Proofs
