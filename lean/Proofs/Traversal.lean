import HclModel.Syntax.Traversal
import Proofs.StringLit
/-!
The two readers of static traversals agree wherever the stand-alone parser accepts, and both read back what
`TokensForTraversal` writes.
-/
namespace HclModel.Trav.Proofs
open HclModel.Trav HclModel.StringLit

/-- Whatever the stand-alone traversal parser accepts, the expression parser reads as the same steps. -/
theorem exprSteps_of_standaloneSteps : ∀ (f : Nat) (ts : List Tok) (ss : List Step),
    standaloneSteps f ts = some ss → exprSteps f ts = some ss
  | 0, _, _, h => by simp [standaloneSteps] at h
  | f+1, ts, ss, h => by
    unfold standaloneSteps at h
    unfold exprSteps
    cases h1 : skip ts with
    | nil => simpa [h1] using h
    | cons t r =>
      rw [h1] at h
      cases t with
      | dot =>
        simp only at h ⊢
        cases h2 : skip r with
        | nil => simp [h2] at h
        | cons t2 r2 =>
          rw [h2] at h
          cases t2 with
          | ident n =>
            simp only at h ⊢
            cases h3 : standaloneSteps f r2 with
            | none => simp [h3] at h
            | some ss' =>
              rw [h3] at h
              rw [exprSteps_of_standaloneSteps f r2 ss' h3]
              exact h
          | dot => simp at h
          | obrack => simp at h
          | cbrack => simp at h
          | num m d => simp at h
          | str cs => simp at h
          | star => simp at h
          | newline => simp at h
          | junk => simp at h
      | obrack =>
        simp only at h ⊢
        cases h2 : skip r with
        | nil => simp [h2] at h
        | cons t2 r2 =>
          rw [h2] at h
          cases t2 with
          | num m d =>
            simp only at h ⊢
            cases hc : closeBrack r2 with
            | none => simp [hc] at h
            | some r3 =>
              rw [hc] at h
              simp only at h ⊢
              cases h3 : standaloneSteps f r3 with
              | none => simp [h3] at h
              | some ss' =>
                rw [h3] at h
                rw [exprSteps_of_standaloneSteps f r3 ss' h3]
                exact h
          | str cs =>
            simp only at h ⊢
            cases hq : parseQuoted cs with
            | none => simp [hq] at h
            | some s =>
              cases hc : closeBrack r2 with
              | none => simp [hq, hc] at h
              | some r3 =>
                rw [hq, hc] at h
                simp only at h ⊢
                cases h3 : standaloneSteps f r3 with
                | none => simp [h3] at h
                | some ss' =>
                  rw [h3] at h
                  rw [exprSteps_of_standaloneSteps f r3 ss' h3]
                  exact h
          | ident s => simp at h
          | dot => simp at h
          | obrack => simp at h
          | cbrack => simp at h
          | star => simp at h
          | newline => simp at h
          | junk => simp at h
      | ident s => simp at h
      | cbrack => simp at h
      | num m d => simp at h
      | str cs => simp at h
      | star => simp at h
      | newline => simp at h
      | junk => simp at h

theorem viaExpression_of_standalone (ts : List Tok) (t : T) (h : standalone ts = some t) :
    viaExpression ts = some t := by
  unfold standalone at h
  unfold viaExpression
  cases h1 : skip ts with
  | nil => simp [h1] at h
  | cons t1 r =>
    rw [h1] at h
    cases t1 with
    | ident root =>
      simp only at h ⊢
      cases h2 : standaloneSteps (r.length + 1) r with
      | none => simp [h2] at h
      | some ss =>
        rw [h2] at h
        rw [exprSteps_of_standaloneSteps _ r ss h2]
        exact h
    | dot => simp at h
    | obrack => simp at h
    | cbrack => simp at h
    | num m d => simp at h
    | str cs => simp at h
    | star => simp at h
    | newline => simp at h
    | junk => simp at h

/-! ## reading back what the generator writes -/

theorem skip_cons_ne (t : Tok) (r : List Tok) (h : t ≠ .newline) : skip (t :: r) = t :: r := by
  cases t <;> simp_all [skip]

theorem standaloneSteps_gen (isPrint : Char → Bool) (hb : isPrint '{' = true) :
    ∀ (ss : List Step) (f : Nat), ss.length + 1 ≤ f →
      standaloneSteps f (ss.flatMap (genStep isPrint)) = some ss
  | [], f, hf => by
    obtain ⟨f, rfl⟩ : ∃ g, f = g + 1 := ⟨f - 1, by omega⟩
    simp [standaloneSteps, skip]
  | s :: ss, f, hf => by
    obtain ⟨f, rfl⟩ : ∃ g, f = g + 1 := ⟨f - 1, by simp at hf; omega⟩
    have ih := standaloneSteps_gen isPrint hb ss f (by simp at hf; omega)
    cases s with
    | attr n => simp [standaloneSteps, genStep, skip, ih]
    | index k =>
      cases k with
      | num m => simp [standaloneSteps, genStep, skip, closeBrack, ih]
      | str s =>
        have hq := HclModel.StringLit.Proofs.parseQuoted_escape isPrint hb s
        simp [standaloneSteps, genStep, skip, closeBrack, ih, hq]

theorem genStep_length_pos (isPrint : Char → Bool) (s : Step) : 1 ≤ (genStep isPrint s).length := by
  cases s with
  | attr n => simp [genStep]
  | index k => cases k <;> simp [genStep]

theorem flatMap_genStep_length (isPrint : Char → Bool) (ss : List Step) :
    ss.length ≤ (ss.flatMap (genStep isPrint)).length := by
  induction ss with
  | nil => simp
  | cons s ss ih =>
    have := genStep_length_pos isPrint s
    simp only [List.flatMap_cons, List.length_append, List.length_cons]
    omega

theorem standalone_gen (isPrint : Char → Bool) (hb : isPrint '{' = true) (t : T) :
    standalone (gen isPrint t) = some t := by
  have hl := flatMap_genStep_length isPrint t.steps
  have h := standaloneSteps_gen isPrint hb t.steps ((t.steps.flatMap (genStep isPrint)).length + 1) (by omega)
  unfold standalone gen
  rw [skip_cons_ne _ _ (by simp)]
  simp only [h, Option.map_some]

end HclModel.Trav.Proofs
