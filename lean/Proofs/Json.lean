import HclModel.Json.Grammar
import Proofs.JsonNumber
import Proofs.JsonString
import Proofs.JsonScan
import Proofs.JsonParse
/-!
C13: the JSON scanner + parser model accepts exactly the RFC 8259 grammar (`JsonText`) and computes the
denoted value, for any grapheme segmentation `adv` (the scanner clamps cluster steps, `clampAdv`).
-/
namespace HclModel.Json.Proofs
open HclModel.Json

/-! ### specialised scanner inversions -/

theorem punct_ty_ne {c : Byte} {ty : TT} (h : punct c = some ty) :
    ty ≠ .eof ∧ ty ≠ .string ∧ ty ≠ .number ∧ ty ≠ .keyword ∧ ty ≠ .invalid := by
  rcases punct_cases h with h | h | h | h | h | h | h <;> (rw [h.2]; decide)

theorem punct_inj {b c : Byte} {ty : TT} (hb : punct b = some ty) (hc : punct c = some ty) : b = c := by
  rcases punct_cases hb with h | h | h | h | h | h | h <;>
    rcases punct_cases hc with h' | h' | h' | h' | h' | h' | h' <;>
    first
      | exact absurd (h.2.symm.trans h'.2) (by decide)
      | (rw [h.1, h'.1])

theorem S_inv_punct {adv : List Byte → Nat} {buf : List Byte} {pos : Nat} {t : Token} {ts : List Token}
    (c : Byte) {ty : TT} (hc : punct c = some ty) (h : S adv buf pos = t :: ts) (hty : t.ty = ty) :
    ∃ w r pos', buf = w ++ c :: r ∧ AllWs w ∧ ts = S adv r pos' := by
  obtain ⟨w, buf1, hb, hw, hcase⟩ := S_inv h
  obtain ⟨n1, n2, n3, n4, n5⟩ := punct_ty_ne hc
  rw [← hty] at n1 n2 n3 n4 n5
  rcases hcase with ⟨_, h2, _⟩ | ⟨b, r, pos', h1, h2, h3⟩ | ⟨_, _, _, _, h2 | h2 | h2⟩ | h2
  · exact absurd h2 n1
  · rw [hty] at h2
    have := punct_inj h2 hc
    subst this
    exact ⟨w, r, pos', by rw [hb, h1], hw, h3⟩
  · exact absurd h2 n2
  · exact absurd h2 n3
  · exact absurd h2 n4
  · exact absurd h2 n5

theorem S_inv_lit {adv : List Byte → Nat} {buf : List Byte} {pos : Nat} {t : Token} {ts : List Token}
    (h : S adv buf pos = t :: ts) (hty : t.ty = .string ∨ t.ty = .number ∨ t.ty = .keyword) :
    ∃ w buf2 pos', buf = w ++ t.bytes ++ buf2 ∧ AllWs w ∧ ts = S adv buf2 pos' := by
  obtain ⟨w, buf1, hb, hw, hcase⟩ := S_inv h
  rcases hcase with ⟨_, h2, _⟩ | ⟨b, r, pos', h1, h2, h3⟩ | ⟨buf2, pos', h1, h2, _⟩ | h2
  · rw [h2] at hty; simp at hty
  · obtain ⟨n1, n2, n3, n4, n5⟩ := punct_ty_ne h2
    rcases hty with h | h | h
    · exact absurd h n2
    · exact absurd h n3
    · exact absurd h n4
  · exact ⟨w, buf2, pos', by rw [hb, h1, List.append_assoc], hw, h2⟩
  · rw [h2] at hty; simp at hty

theorem S_inv_eof {adv : List Byte → Nat} {buf : List Byte} {pos : Nat} {t : Token}
    (h : S adv buf pos = [t]) (hty : t.ty = .eof) : AllWs buf := by
  obtain ⟨w, buf1, hb, hw, hcase⟩ := S_inv h
  rcases hcase with ⟨h1, _, _⟩ | ⟨b, r, pos', h1, h2, h3⟩ | ⟨_, _, _, _, h2 | h2 | h2⟩ | h2
  · rw [hb, h1, List.append_nil]; exact hw
  · exact absurd hty (punct_ty_ne h2).1
  · rw [hty] at h2; cases h2
  · rw [hty] at h2; cases h2
  · rw [hty] at h2; cases h2
  · rw [hty] at h2; cases h2

/-! ### soundness

A string token may carry trailing whitespace (the validator strips it, `dropTrailingWs`), so a parsed value
is located in the input as `w ++ v ++ w'` with both `w`, `w'` whitespace. -/

theorem allWs_nil : AllWs [] := fun _ h => by cases h

theorem allWs_append {a b : List Byte} (ha : AllWs a) (hb : AllWs b) : AllWs (a ++ b) := by
  intro x hx
  rcases List.mem_append.mp hx with h | h
  · exact ha x h
  · exact hb x h

/-- an accepted string token: a JSON string followed by whitespace -/
theorem string_token_sound {bs d : List Byte} (h : parseStringBytes bs = some d) :
    ∃ s w, bs = s ++ w ∧ AllWs w ∧ IsString s d := by
  obtain ⟨w, hb, hw⟩ := dropTrailingWs_spec bs
  exact ⟨_, w, hb, hw, parseStringBytes_sound h⟩

theorem parse_sound (adv : List Byte → Nat) : ∀ f,
    (∀ buf pos n ts, parseValue f (S adv buf pos) = some (n, ts) →
      ∃ w v w' buf' pos', buf = w ++ v ++ w' ++ buf' ∧ AllWs w ∧ AllWs w' ∧ Value v n ∧ ts = S adv buf' pos') ∧
    (∀ buf pos ns ts, parseElems f (S adv buf pos) = some (ns, ts) →
      ∃ body buf' pos', buf = body ++ 93 :: buf' ∧ Elems body ns ∧ ts = S adv buf' pos') ∧
    (∀ buf pos ms ts, parseMembers f (S adv buf pos) = some (ms, ts) →
      ∃ body buf' pos', buf = body ++ 125 :: buf' ∧ Members body ms ∧ ts = S adv buf' pos') := by
  intro f
  induction f with
  | zero => simp [parseValue_zero, parseElems_zero, parseMembers_zero]
  | succ f ih =>
    obtain ⟨ihv, ihe, ihm⟩ := ih
    refine ⟨?_, ?_, ?_⟩
    · intro buf pos n ts h
      rw [parseValue_iff] at h
      generalize hS : S adv buf pos = toks at h
      cases h
      case emptyObj t c h1 h2 =>
        obtain ⟨w, r, pos1, rfl, hw, hr⟩ := S_inv_punct 123 rfl hS h1
        obtain ⟨w', r', pos2, rfl, hw', hr'⟩ := S_inv_punct 125 rfl hr.symm h2
        exact ⟨w, 123 :: w' ++ [125], [], r', pos2, by simp, hw, allWs_nil, Value.emptyObj w' hw', hr'⟩
      case obj t c rest ms h1 h2 h3 =>
        obtain ⟨w, r, pos1, rfl, hw, hr⟩ := S_inv_punct 123 rfl hS h1
        rw [hr] at h3
        obtain ⟨body, buf', pos2, rfl, hm, hts⟩ := ihm _ _ _ _ h3
        exact ⟨w, 123 :: body ++ [125], [], buf', pos2, by simp, hw, allWs_nil, Value.obj body ms hm, hts⟩
      case emptyArr t c h1 h2 =>
        obtain ⟨w, r, pos1, rfl, hw, hr⟩ := S_inv_punct 91 rfl hS h1
        obtain ⟨w', r', pos2, rfl, hw', hr'⟩ := S_inv_punct 93 rfl hr.symm h2
        exact ⟨w, 91 :: w' ++ [93], [], r', pos2, by simp, hw, allWs_nil, Value.emptyArr w' hw', hr'⟩
      case arr t c rest ns h1 h2 h3 =>
        obtain ⟨w, r, pos1, rfl, hw, hr⟩ := S_inv_punct 91 rfl hS h1
        rw [hr] at h3
        obtain ⟨body, buf', pos2, rfl, hm, hts⟩ := ihe _ _ _ _ h3
        exact ⟨w, 91 :: body ++ [93], [], buf', pos2, by simp, hw, allWs_nil, Value.arr body ns hm, hts⟩
      case num t m e h1 h2 =>
        obtain ⟨w, buf2, pos1, rfl, hw, hr⟩ := S_inv_lit hS (Or.inr (Or.inl h1))
        exact ⟨w, t.bytes, [], buf2, pos1, by simp, hw, allWs_nil,
          Value.vnum _ _ _ (parseNumberBytes_sound h2), hr⟩
      case str t d h1 h2 =>
        obtain ⟨w, buf2, pos1, rfl, hw, hr⟩ := S_inv_lit hS (Or.inl h1)
        obtain ⟨s, w', hb, hw', hstr⟩ := string_token_sound h2
        exact ⟨w, s, w', buf2, pos1, by rw [hb]; simp, hw, hw', Value.vstr _ _ hstr, hr⟩
      case ktrue t h1 h2 =>
        obtain ⟨w, buf2, pos1, rfl, hw, hr⟩ := S_inv_lit hS (Or.inr (Or.inr h1))
        exact ⟨w, t.bytes, [], buf2, pos1, by simp, hw, allWs_nil, h2 ▸ Value.vtrue, hr⟩
      case kfalse t h1 h2 =>
        obtain ⟨w, buf2, pos1, rfl, hw, hr⟩ := S_inv_lit hS (Or.inr (Or.inr h1))
        exact ⟨w, t.bytes, [], buf2, pos1, by simp, hw, allWs_nil, h2 ▸ Value.vfalse, hr⟩
      case knull t h1 h2 =>
        obtain ⟨w, buf2, pos1, rfl, hw, hr⟩ := S_inv_lit hS (Or.inr (Or.inr h1))
        exact ⟨w, t.bytes, [], buf2, pos1, by simp, hw, allWs_nil, h2 ▸ Value.vnull, hr⟩
    · intro buf pos ns ts h
      rw [parseElems_iff] at h
      cases h
      case one v sep h2 h1 =>
        obtain ⟨w, bv, w', buf', pos1, rfl, hw, hw', hv, hr⟩ := ihv _ _ _ _ h1
        obtain ⟨w2, r, pos2, rfl, hw2, hr2⟩ := S_inv_punct 93 rfl hr.symm h2
        exact ⟨w ++ bv ++ (w' ++ w2), r, pos2, by simp,
          Elems.one w bv (w' ++ w2) v hw (allWs_append hw' hw2) hv, hr2⟩
      case cons v sep rest ns' h1 h2 h3 =>
        obtain ⟨w, bv, w', buf', pos1, rfl, hw, hw', hv, hr⟩ := ihv _ _ _ _ h1
        obtain ⟨w2, r, pos2, rfl, hw2, hr2⟩ := S_inv_punct 44 rfl hr.symm h2
        rw [hr2] at h3
        obtain ⟨body, buf'', pos3, rfl, he, hts⟩ := ihe _ _ _ _ h3
        exact ⟨w ++ bv ++ (w' ++ w2) ++ 44 :: body, buf'', pos3, by simp,
          Elems.cons w bv (w' ++ w2) body v ns' hw (allWs_append hw' hw2) hv he, hts⟩
    · intro buf pos ms ts h
      rw [parseMembers_iff] at h
      generalize hS : S adv buf pos = toks at h
      cases h
      case one k colon toks' name v sep h1 h2 h3 h5 h4 =>
        obtain ⟨w1, buf2, pos1, rfl, hw1, hr1⟩ := S_inv_lit hS (Or.inl h1)
        obtain ⟨ks, kw, hkb, hkw, hkstr⟩ := string_token_sound h3
        obtain ⟨w2, r2, pos2, rfl, hw2, hr2⟩ := S_inv_punct 58 rfl hr1.symm h2
        rw [hr2] at h4
        obtain ⟨w3, bv, w3', buf', pos3, rfl, hw3, hw3', hv, hr3⟩ := ihv _ _ _ _ h4
        obtain ⟨w4, r4, pos4, rfl, hw4, hr4⟩ := S_inv_punct 125 rfl hr3.symm h5
        exact ⟨w1 ++ ks ++ (kw ++ w2) ++ 58 :: w3 ++ bv ++ (w3' ++ w4), r4, pos4, by rw [hkb]; simp,
          Members.one w1 ks (kw ++ w2) w3 bv (w3' ++ w4) name v hw1 (allWs_append hkw hw2) hw3
            (allWs_append hw3' hw4) hkstr hv, hr4⟩
      case cons k colon toks' name v sep rest ms' h1 h2 h3 h4 h5 h6 =>
        obtain ⟨w1, buf2, pos1, rfl, hw1, hr1⟩ := S_inv_lit hS (Or.inl h1)
        obtain ⟨ks, kw, hkb, hkw, hkstr⟩ := string_token_sound h3
        obtain ⟨w2, r2, pos2, rfl, hw2, hr2⟩ := S_inv_punct 58 rfl hr1.symm h2
        rw [hr2] at h4
        obtain ⟨w3, bv, w3', buf', pos3, rfl, hw3, hw3', hv, hr3⟩ := ihv _ _ _ _ h4
        obtain ⟨w4, r4, pos4, rfl, hw4, hr4⟩ := S_inv_punct 44 rfl hr3.symm h5
        rw [hr4] at h6
        obtain ⟨body, buf'', pos5, rfl, hm, hts⟩ := ihm _ _ _ _ h6
        exact ⟨w1 ++ ks ++ (kw ++ w2) ++ 58 :: w3 ++ bv ++ (w3' ++ w4) ++ 44 :: body, buf'', pos5,
          by rw [hkb]; simp,
          Members.cons w1 ks (kw ++ w2) w3 bv (w3' ++ w4) body name v ms' hw1 (allWs_append hkw hw2) hw3
            (allWs_append hw3' hw4) hkstr hv hm, hts⟩

theorem accept_sound (adv : List Byte → Nat) (bs : List Byte) (n : Node)
    (h : parseExpression adv bs = some n) : JsonText bs n := by
  unfold parseExpression at h
  rw [scan_eq_S] at h
  dsimp only at h
  split at h
  · rename_i n' t hpv
    split at h
    · rename_i hty
      cases h
      obtain ⟨w, v, w', buf', pos', hb, hw, hw', hv, hts⟩ := (parse_sound adv _).1 _ _ _ _ hpv
      exact ⟨w, v, w' ++ buf', by rw [hb]; simp, hw, allWs_append hw' (S_inv_eof hts.symm hty), hv⟩
    · cases h
  · cases h

/-! ### completeness -/

theorem parseValue_head {f : Nat} {toks : List Token} {n : Node} {ts : List Token}
    (h : parseValue f toks = some (n, ts)) : ∃ t rest, toks = t :: rest ∧ t.ty ≠ .brackC ∧ t.ty ≠ .braceC := by
  cases f with
  | zero => rw [parseValue_zero] at h; cases h
  | succ f =>
    rw [parseValue_iff] at h
    cases h
    all_goals
      refine ⟨_, _, rfl, ?_, ?_⟩ <;>
        (intro hc
         first
           | (rename_i h1 _ _; rw [hc] at h1; cases h1; done)
           | (rename_i h1 _; rw [hc] at h1; cases h1; done))

theorem parseElems_head {f : Nat} {toks : List Token} {ns : List Node} {ts : List Token}
    (h : parseElems f toks = some (ns, ts)) : ∃ t rest, toks = t :: rest ∧ t.ty ≠ .brackC := by
  cases f with
  | zero => rw [parseElems_zero] at h; cases h
  | succ f =>
    rw [parseElems_iff] at h
    cases h
    case one h2 h1 => obtain ⟨t, rest, h, h3, _⟩ := parseValue_head h1; exact ⟨t, rest, h, h3⟩
    case cons h1 h2 h3 => obtain ⟨t, rest, h, h3, _⟩ := parseValue_head h1; exact ⟨t, rest, h, h3⟩

theorem parseMembers_head {f : Nat} {toks : List Token} {ms : List (List Byte × Node)} {ts : List Token}
    (h : parseMembers f toks = some (ms, ts)) : ∃ t rest, toks = t :: rest ∧ t.ty ≠ .braceC := by
  cases f with
  | zero => rw [parseMembers_zero] at h; cases h
  | succ f =>
    rw [parseMembers_iff] at h
    cases h
    case one h1 h2 h3 h5 h4 => exact ⟨_, _, rfl, by rw [h1]; decide⟩
    case cons h1 h2 h3 h4 h5 h6 => exact ⟨_, _, rfl, by rw [h1]; decide⟩

theorem follow_sep {w : List Byte} (hw : AllWs w) {c : Byte} (hc : c = 44 ∨ c = 93 ∨ c = 125) (r : List Byte) :
    Follow (w ++ c :: r) := by
  apply Follow.ws hw
  rcases hc with rfl | rfl | rfl <;> exact Follow.cons _ (by decide) (by decide)

theorem S_punct_ws (adv : List Byte → Nat) {w : List Byte} (hw : AllWs w) {c : Byte} {ty : TT}
    (hc : punct c = some ty) (r : List Byte) (pos : Nat) :
    ∃ pos', S adv (w ++ c :: r) pos = ⟨ty, [c], pos + w.length⟩ :: S adv r pos' :=
  ⟨_, by rw [S_ws adv hw, S_punct adv hc]⟩

theorem S_string_ws (adv : List Byte → Nat) {w : List Byte} (hw : AllWs w) {k name : List Byte}
    (hk : IsString k name) (r : List Byte) (pos : Nat) :
    ∃ pos', S adv (w ++ k ++ r) pos = ⟨.string, k, pos + w.length⟩ :: S adv r pos' := by
  cases hk with
  | mk s d hc =>
    have : (34 :: s ++ [34]) ++ r = 34 :: s ++ 34 :: r := by simp
    exact ⟨_, by rw [List.append_assoc, S_ws adv hw, this, S_string adv (Chars.okBody hc)]⟩

mutual
theorem complete_value (adv : List Byte → Nat) {v : List Byte} {n : Node} (h : Value v n)
    (rest : List Byte) (pos : Nat) (hf : Follow rest) :
    ∃ f pos', parseValue f (S adv (v ++ rest) pos) = some (n, S adv rest pos') :=
  match h with
  | .vtrue => by
    refine ⟨1, ?_⟩
    apply Exists.intro
    rw [show kwTrue = 116 :: [114, 117, 101] from rfl, S_keyword adv (by decide) (by decide) hf, parseValue_iff]
    exact PV.ktrue _ _ rfl rfl
  | .vfalse => by
    refine ⟨1, ?_⟩
    apply Exists.intro
    rw [show kwFalse = 102 :: [97, 108, 115, 101] from rfl, S_keyword adv (by decide) (by decide) hf, parseValue_iff]
    exact PV.kfalse _ _ rfl rfl
  | .vnull => by
    refine ⟨1, ?_⟩
    apply Exists.intro
    rw [show kwNull = 110 :: [117, 108, 108] from rfl, S_keyword adv (by decide) (by decide) hf, parseValue_iff]
    exact PV.knull _ _ rfl rfl
  | .vnum bs m e hn => by
    obtain ⟨⟨b, r, rfl, hb⟩, hall⟩ := IsNumber.scan_facts hn
    refine ⟨1, ?_⟩
    apply Exists.intro
    rw [S_number adv hb hall hf, parseValue_iff]
    exact PV.num _ _ _ _ rfl (parseNumberBytes_complete hn)
  | .vstr bs d hstr => by
    obtain ⟨pos', hS⟩ := S_string_ws adv (w := []) (fun _ h => by cases h) hstr rest pos
    refine ⟨1, pos', ?_⟩
    rw [List.nil_append] at hS
    rw [hS, parseValue_iff]
    exact PV.str _ _ _ rfl (parseStringBytes_complete hstr)
  | .emptyArr w hw => by
    obtain ⟨pos', hS⟩ := S_punct_ws adv hw (c := 93) rfl rest (pos + 1)
    refine ⟨1, pos', ?_⟩
    have : (91 :: w ++ [93]) ++ rest = 91 :: (w ++ 93 :: rest) := by simp
    rw [this, S_punct adv (b := 91) rfl, hS, parseValue_iff]
    exact PV.emptyArr _ _ _ rfl rfl
  | .arr body vs he => by
    obtain ⟨f, pos', hE⟩ := complete_elems adv he rest (pos + 1)
    obtain ⟨t, ts, hts, hne⟩ := parseElems_head hE
    refine ⟨f + 1, pos', ?_⟩
    have : (91 :: body ++ [93]) ++ rest = 91 :: (body ++ 93 :: rest) := by simp
    rw [this, S_punct adv (b := 91) rfl, parseValue_iff]
    rw [hts] at hE ⊢
    exact PV.arr _ _ _ _ _ rfl hne hE
  | .emptyObj w hw => by
    obtain ⟨pos', hS⟩ := S_punct_ws adv hw (c := 125) rfl rest (pos + 1)
    refine ⟨1, pos', ?_⟩
    have : (123 :: w ++ [125]) ++ rest = 123 :: (w ++ 125 :: rest) := by simp
    rw [this, S_punct adv (b := 123) rfl, hS, parseValue_iff]
    exact PV.emptyObj _ _ _ rfl rfl
  | .obj body ms hm => by
    obtain ⟨f, pos', hE⟩ := complete_members adv hm rest (pos + 1)
    obtain ⟨t, ts, hts, hne⟩ := parseMembers_head hE
    refine ⟨f + 1, pos', ?_⟩
    have : (123 :: body ++ [125]) ++ rest = 123 :: (body ++ 125 :: rest) := by simp
    rw [this, S_punct adv (b := 123) rfl, parseValue_iff]
    rw [hts] at hE ⊢
    exact PV.obj _ _ _ _ _ rfl hne hE

theorem complete_elems (adv : List Byte → Nat) {body : List Byte} {ns : List Node}
    (h : Elems body ns) (rest : List Byte) (pos : Nat) :
    ∃ f pos', parseElems f (S adv (body ++ 93 :: rest) pos) = some (ns, S adv rest pos') :=
  match h with
  | .one w1 v w2 n hw1 hw2 hv => by
    obtain ⟨f, pos1, hV⟩ := complete_value adv hv (w2 ++ 93 :: rest) (pos + w1.length)
      (follow_sep hw2 (Or.inr (Or.inl rfl)) rest)
    obtain ⟨pos2, hS⟩ := S_punct_ws adv hw2 (c := 93) rfl rest pos1
    refine ⟨f + 1, pos2, ?_⟩
    have : (w1 ++ v ++ w2) ++ 93 :: rest = w1 ++ (v ++ (w2 ++ 93 :: rest)) := by simp
    rw [this, S_ws adv hw1, parseElems_iff]
    rw [hS] at hV
    exact PE.one _ _ _ _ hV rfl
  | .cons w1 v w2 r n ns' hw1 hw2 hv he => by
    obtain ⟨f1, pos1, hV⟩ := complete_value adv hv (w2 ++ 44 :: (r ++ 93 :: rest)) (pos + w1.length)
      (follow_sep hw2 (Or.inl rfl) _)
    obtain ⟨pos2, hS⟩ := S_punct_ws adv hw2 (c := 44) rfl (r ++ 93 :: rest) pos1
    obtain ⟨f2, pos3, hE⟩ := complete_elems adv he rest pos2
    refine ⟨max f1 f2 + 1, pos3, ?_⟩
    have : (w1 ++ v ++ w2 ++ 44 :: r) ++ 93 :: rest = w1 ++ (v ++ (w2 ++ 44 :: (r ++ 93 :: rest))) := by simp
    rw [this, S_ws adv hw1, parseElems_iff]
    rw [hS] at hV
    exact PE.cons _ _ _ _ _ _ (parseValue_mono (Nat.le_max_left _ _) hV) rfl
      (parseElems_mono (Nat.le_max_right _ _) hE)

theorem complete_members (adv : List Byte → Nat) {body : List Byte}
    {ms : List (List Byte × Node)} (h : Members body ms) (rest : List Byte) (pos : Nat) :
    ∃ f pos', parseMembers f (S adv (body ++ 125 :: rest) pos) = some (ms, S adv rest pos') :=
  match h with
  | .one w1 k w2 w3 v w4 name n hw1 hw2 hw3 hw4 hk hv => by
    obtain ⟨p1, hS1⟩ := S_string_ws adv hw1 hk (w2 ++ 58 :: (w3 ++ (v ++ (w4 ++ 125 :: rest)))) pos
    obtain ⟨p2, hS2⟩ := S_punct_ws adv hw2 (c := 58) rfl (w3 ++ (v ++ (w4 ++ 125 :: rest))) p1
    obtain ⟨f, p3, hV⟩ := complete_value adv hv (w4 ++ 125 :: rest) (p2 + w3.length)
      (follow_sep hw4 (Or.inr (Or.inr rfl)) rest)
    obtain ⟨p4, hS4⟩ := S_punct_ws adv hw4 (c := 125) rfl rest p3
    refine ⟨f + 1, p4, ?_⟩
    have : (w1 ++ k ++ w2 ++ 58 :: w3 ++ v ++ w4) ++ 125 :: rest
        = w1 ++ k ++ (w2 ++ 58 :: (w3 ++ (v ++ (w4 ++ 125 :: rest)))) := by simp
    rw [this, hS1, hS2, parseMembers_iff]
    rw [hS4] at hV
    rw [S_ws adv hw3]
    exact PM.one _ _ _ _ _ _ _ rfl rfl (parseStringBytes_complete hk) hV rfl
  | .cons w1 k w2 w3 v w4 r name n ms' hw1 hw2 hw3 hw4 hk hv hm => by
    obtain ⟨p1, hS1⟩ := S_string_ws adv hw1 hk (w2 ++ 58 :: (w3 ++ (v ++ (w4 ++ 44 :: (r ++ 125 :: rest))))) pos
    obtain ⟨p2, hS2⟩ := S_punct_ws adv hw2 (c := 58) rfl (w3 ++ (v ++ (w4 ++ 44 :: (r ++ 125 :: rest)))) p1
    obtain ⟨f1, p3, hV⟩ := complete_value adv hv (w4 ++ 44 :: (r ++ 125 :: rest)) (p2 + w3.length)
      (follow_sep hw4 (Or.inl rfl) _)
    obtain ⟨p4, hS4⟩ := S_punct_ws adv hw4 (c := 44) rfl (r ++ 125 :: rest) p3
    obtain ⟨f2, p5, hM⟩ := complete_members adv hm rest p4
    refine ⟨max f1 f2 + 1, p5, ?_⟩
    have : (w1 ++ k ++ w2 ++ 58 :: w3 ++ v ++ w4 ++ 44 :: r) ++ 125 :: rest
        = w1 ++ k ++ (w2 ++ 58 :: (w3 ++ (v ++ (w4 ++ 44 :: (r ++ 125 :: rest))))) := by simp
    rw [this, hS1, hS2, parseMembers_iff]
    rw [hS4] at hV
    rw [S_ws adv hw3]
    exact PM.cons _ _ _ _ _ _ _ _ _ rfl rfl (parseStringBytes_complete hk)
      (parseValue_mono (Nat.le_max_left _ _) hV) rfl (parseMembers_mono (Nat.le_max_right _ _) hM)
end

theorem accept_complete (adv : List Byte → Nat) (bs : List Byte) (n : Node)
    (h : JsonText bs n) : parseExpression adv bs = some n := by
  obtain ⟨w1, v, w2, rfl, hw1, hw2, hv⟩ := h
  have hf : Follow w2 := by
    have := Follow.ws hw2 Follow.nil
    rwa [List.append_nil] at this
  obtain ⟨f, pos', hV⟩ := complete_value adv hv w2 (0 + w1.length) hf
  have hw2' : S adv w2 pos' = [⟨.eof, [], pos' + w2.length⟩] := by
    have := S_ws adv hw2 [] pos'
    rwa [List.append_nil, S_nil] at this
  rw [hw2'] at hV
  have hS : scan adv (w1 ++ v ++ w2) = S adv (v ++ w2) (0 + w1.length) := by
    rw [scan_eq_S, List.append_assoc, S_ws adv hw1]
  have hV' := parseValue_suff hV
  unfold parseExpression
  rw [hS]
  dsimp only
  rw [hV']
  rfl

theorem file_accept_iff (adv : List Byte → Nat) (bs : List Byte) (n : Node) :
    parseFile adv bs = some n ↔ (JsonText bs n ∧ ((∃ a, n = .obj a) ∨ (∃ a, n = .arr a))) := by
  constructor
  · intro h
    unfold parseFile at h
    split at h
    · rename_i a ha
      cases h
      exact ⟨accept_sound adv bs _ ha, Or.inl ⟨a, rfl⟩⟩
    · rename_i a ha
      cases h
      exact ⟨accept_sound adv bs _ ha, Or.inr ⟨a, rfl⟩⟩
    · cases h
  · rintro ⟨hj, ho⟩
    have := accept_complete adv bs n hj
    unfold parseFile
    rw [this]
    rcases ho with ⟨a, rfl⟩ | ⟨a, rfl⟩ <;> rfl

end HclModel.Json.Proofs
