import HclModel.Expr.FreeVars
/-!
Evaluation depends only on the free variables (`fv`) of an expression.
-/
namespace HclModel.Proofs

theorem agree_mono {S S' : List String} {ρ σ : Env} (h : AgreeOn S ρ σ)
    (hs : ∀ x, x ∈ S' → x ∈ S) : AgreeOn S' ρ σ :=
  fun x hx => h x (hs x hx)

theorem lookup_cons (ρ : Env) (k : String) (v : Val) (x : String) :
    Env.lookup ((k, v) :: ρ) x = if x = k then some v else Env.lookup ρ x := by
  simp [Env.lookup, lookupKey]

/-- extending both scopes with the same binding -/
theorem agree_cons {S : List String} {ρ σ : Env} (k : String) (v : Val)
    (h : ∀ x, x ∈ S → x ≠ k → ρ.lookup x = σ.lookup x) :
    AgreeOn S ((k, v) :: ρ) ((k, v) :: σ) := by
  intro x hx
  rw [lookup_cons, lookup_cons]
  split
  · rfl
  · rename_i hne; exact h x hx hne

theorem agree_bindIter {S : List String} {ρ σ : Env} (kv vv : String) (k v : Val)
    (h : ∀ x, x ∈ S → x ∉ iterNames kv vv → ρ.lookup x = σ.lookup x) :
    AgreeOn S (bindIter ρ kv vv k v) (bindIter σ kv vv k v) := by
  unfold bindIter
  by_cases hkv : kv = ""
  · simp only [hkv, if_true]
    apply agree_cons
    intro x hx hne
    apply h x hx
    simp [iterNames, hkv, hne]
  · simp only [hkv, if_false]
    apply agree_cons
    intro x hx hne
    rw [lookup_cons, lookup_cons]
    split
    · rfl
    · rename_i hne2
      apply h x hx
      simp [iterNames, hkv, hne, hne2]

set_option smartUnfolding false in
/-- One unfolding step of `eval`.  The equation lemmas of `eval` cannot be generated automatically
    ("failed to generate equational theorem"), so `simp [eval]` / `unfold eval` are unavailable;
    `eval._sunfold` is the body of the definition with the recursive calls folded, and it is definitionally
    equal to `eval` on every constructor (checked with smart unfolding off, i.e. through `brecOn`). -/
theorem eval_unfold (F : Cx) (ρ : Env) (e : Expr) : eval F ρ e = eval._sunfold F ρ e := by
  cases e with
  | forTuple kv vv coll val cond => cases cond <;> rfl
  | forObject kv vv coll key val cond g => cases cond <;> rfl
  | call fn args ex => cases ex <;> rfl
  | _ => rfl

mutual
theorem eval_agree (F : Cx) : ∀ (e : Expr) (ρ σ : Env), AgreeOn (fv e) ρ σ → eval F ρ e = eval F σ e
  | .lit v, ρ, σ, h => rfl
  | .var x, ρ, σ, h => by
      have := h x (by simp [fv])
      rw [eval_unfold F ρ, eval_unfold F σ]; unfold eval._sunfold; simp only [this]
  | .getAttr e name, ρ, σ, h => by
      have he := eval_agree F e ρ σ (agree_mono h (by intro x hx; simp [fv, hx]))
      rw [eval_unfold F ρ, eval_unfold F σ]; unfold eval._sunfold; simp only [he]
  | .index e k, ρ, σ, h => by
      have he := eval_agree F e ρ σ (agree_mono h (by intro x hx; simp [fv, hx]))
      have hk := eval_agree F k ρ σ (agree_mono h (by intro x hx; simp [fv, hx]))
      rw [eval_unfold F ρ, eval_unfold F σ]; unfold eval._sunfold; simp only [he, hk]
  | .bin op l r, ρ, σ, h => by
      have hl := eval_agree F l ρ σ (agree_mono h (by intro x hx; simp [fv, hx]))
      have hr := eval_agree F r ρ σ (agree_mono h (by intro x hx; simp [fv, hx]))
      rw [eval_unfold F ρ, eval_unfold F σ]; unfold eval._sunfold; simp only [hl, hr]
  | .un op e, ρ, σ, h => by
      have he := eval_agree F e ρ σ (agree_mono h (by intro x hx; simp [fv, hx]))
      rw [eval_unfold F ρ, eval_unfold F σ]; unfold eval._sunfold; simp only [he]
  | .cond c t f, ρ, σ, h => by
      have hc := eval_agree F c ρ σ (agree_mono h (by intro x hx; simp [fv, hx]))
      have ht := eval_agree F t ρ σ (agree_mono h (by intro x hx; simp [fv, hx]))
      have hf := eval_agree F f ρ σ (agree_mono h (by intro x hx; simp [fv, hx]))
      rw [eval_unfold F ρ, eval_unfold F σ]; unfold eval._sunfold; simp only [hc, ht, hf]
  | .tuple es, ρ, σ, h => by
      have he := evalList_agree F es ρ σ (agree_mono h (by intro x hx; simp [fv, hx]))
      rw [eval_unfold F ρ, eval_unfold F σ]; unfold eval._sunfold; simp only [he]
  | .object items, ρ, σ, h => by
      have he := evalItems_agree F items ρ σ (agree_mono h (by intro x hx; simp [fv, hx]))
      rw [eval_unfold F ρ, eval_unfold F σ]; unfold eval._sunfold; simp only [he]
  | .forTuple kv vv coll val none, ρ, σ, h => by
      have hc := eval_agree F coll ρ σ (agree_mono h (by intro x hx; simp [fv, hx]))
      have hv : ∀ k v, eval F (bindIter ρ kv vv k v) val = eval F (bindIter σ kv vv k v) val := by
        intro k v
        apply eval_agree F val
        apply agree_bindIter
        intro x hx hni
        apply h
        simp [fv, hx, hni]
      rw [eval_unfold F ρ, eval_unfold F σ]; unfold eval._sunfold; simp only [hc, hv]
  | .forTuple kv vv coll val (some ce), ρ, σ, h => by
      have hc := eval_agree F coll ρ σ (agree_mono h (by intro x hx; simp [fv, hx]))
      have hv : ∀ k v, eval F (bindIter ρ kv vv k v) val = eval F (bindIter σ kv vv k v) val := by
        intro k v
        apply eval_agree F val
        apply agree_bindIter
        intro x hx hni
        apply h
        simp [fv, hx, hni]
      have hce : ∀ k v, eval F (bindIter ρ kv vv k v) ce = eval F (bindIter σ kv vv k v) ce := by
        intro k v
        apply eval_agree F ce
        apply agree_bindIter
        intro x hx hni
        apply h
        simp [fv, hx, hni]
      rw [eval_unfold F ρ, eval_unfold F σ]; unfold eval._sunfold; simp only [hc, hv, hce]
  | .forObject kv vv coll key val none g, ρ, σ, h => by
      have hc := eval_agree F coll ρ σ (agree_mono h (by intro x hx; simp [fv, hx]))
      have hk : ∀ k v, eval F (bindIter ρ kv vv k v) key = eval F (bindIter σ kv vv k v) key := by
        intro k v
        apply eval_agree F key
        apply agree_bindIter
        intro x hx hni
        apply h
        simp [fv, hx, hni]
      have hv : ∀ k v, eval F (bindIter ρ kv vv k v) val = eval F (bindIter σ kv vv k v) val := by
        intro k v
        apply eval_agree F val
        apply agree_bindIter
        intro x hx hni
        apply h
        simp [fv, hx, hni]
      rw [eval_unfold F ρ, eval_unfold F σ]; unfold eval._sunfold; simp only [hc, hk, hv]
  | .forObject kv vv coll key val (some ce) g, ρ, σ, h => by
      have hc := eval_agree F coll ρ σ (agree_mono h (by intro x hx; simp [fv, hx]))
      have hk : ∀ k v, eval F (bindIter ρ kv vv k v) key = eval F (bindIter σ kv vv k v) key := by
        intro k v
        apply eval_agree F key
        apply agree_bindIter
        intro x hx hni
        apply h
        simp [fv, hx, hni]
      have hv : ∀ k v, eval F (bindIter ρ kv vv k v) val = eval F (bindIter σ kv vv k v) val := by
        intro k v
        apply eval_agree F val
        apply agree_bindIter
        intro x hx hni
        apply h
        simp [fv, hx, hni]
      have hce : ∀ k v, eval F (bindIter ρ kv vv k v) ce = eval F (bindIter σ kv vv k v) ce := by
        intro k v
        apply eval_agree F ce
        apply agree_bindIter
        intro x hx hni
        apply h
        simp [fv, hx, hni]
      rw [eval_unfold F ρ, eval_unfold F σ]; unfold eval._sunfold; simp only [hc, hk, hv, hce]
  | .splat anon src each, ρ, σ, h => by
      have hs := eval_agree F src ρ σ (agree_mono h (by intro x hx; simp [fv, hx]))
      have he : ∀ v, eval F ((anon, v) :: ρ) each = eval F ((anon, v) :: σ) each := by
        intro v
        apply eval_agree F each
        apply agree_cons
        intro x hx hne
        apply h
        simp [fv, hx, hne]
      rw [eval_unfold F ρ, eval_unfold F σ]; unfold eval._sunfold; simp only [hs, he]
  | .template parts, ρ, σ, h => by
      have he := evalEach_agree F parts ρ σ (agree_mono h (by intro x hx; simp [fv, hx]))
      rw [eval_unfold F ρ, eval_unfold F σ]; unfold eval._sunfold; simp only [he]
  | .tjoin t, ρ, σ, h => by
      have he := eval_agree F t ρ σ (agree_mono h (by intro x hx; simp [fv, hx]))
      rw [eval_unfold F ρ, eval_unfold F σ]; unfold eval._sunfold; simp only [he]
  | .call fn args none, ρ, σ, h => by
      have ha := evalEach_agree F args ρ σ (agree_mono h (by intro x hx; simp [fv, hx]))
      rw [eval_unfold F ρ, eval_unfold F σ]; unfold eval._sunfold; simp only [ha]
  | .call fn args (some ex), ρ, σ, h => by
      have ha := evalEach_agree F args ρ σ (agree_mono h (by intro x hx; simp [fv, hx]))
      have he := eval_agree F ex ρ σ (agree_mono h (by intro x hx; simp [fv, hx]))
      rw [eval_unfold F ρ, eval_unfold F σ]; unfold eval._sunfold; simp only [ha, he]
theorem evalList_agree (F : Cx) : ∀ (es : List Expr) (ρ σ : Env), AgreeOn (fvList es) ρ σ →
    evalList F ρ es = evalList F σ es
  | [], _, _, _ => by simp only [evalList]
  | e :: es, ρ, σ, h => by
      have h1 := eval_agree F e ρ σ (agree_mono h (by intro x hx; simp [fvList, hx]))
      have h2 := evalList_agree F es ρ σ (agree_mono h (by intro x hx; simp [fvList, hx]))
      simp only [evalList, h1, h2]
theorem evalEach_agree (F : Cx) : ∀ (es : List Expr) (ρ σ : Env), AgreeOn (fvList es) ρ σ →
    evalEach F ρ es = evalEach F σ es
  | [], _, _, _ => by simp only [evalEach]
  | e :: es, ρ, σ, h => by
      have h1 := eval_agree F e ρ σ (agree_mono h (by intro x hx; simp [fvList, hx]))
      have h2 := evalEach_agree F es ρ σ (agree_mono h (by intro x hx; simp [fvList, hx]))
      simp only [evalEach, h1, h2]
theorem evalItems_agree (F : Cx) : ∀ (items : List (Expr × Expr)) (ρ σ : Env), AgreeOn (fvItems items) ρ σ →
    evalItems F ρ items = evalItems F σ items
  | [], _, _, _ => by simp only [evalItems]
  | (ke, ve) :: rest, ρ, σ, h => by
      have h1 := eval_agree F ke ρ σ (agree_mono h (by intro x hx; simp [fvItems, hx]))
      have h2 := eval_agree F ve ρ σ (agree_mono h (by intro x hx; simp [fvItems, hx]))
      have h3 := evalItems_agree F rest ρ σ (agree_mono h (by intro x hx; simp [fvItems, hx]))
      simp only [evalItems, h1, h2, h3]
end

theorem lookup_filter (S : List String) (ρ : Env) (x : String) (hx : x ∈ S) :
    Env.lookup (ρ.filter fun p => S.contains p.1) x = Env.lookup ρ x := by
  induction ρ with
  | nil => rfl
  | cons p ρ ih =>
    obtain ⟨k, v⟩ := p
    by_cases hk : k ∈ S
    · simp only [List.filter_cons, List.contains_iff_mem, hk, if_true]
      rw [lookup_cons, lookup_cons, ih]
    · have hne : x ≠ k := by intro e; subst e; exact hk hx
      simp only [List.filter_cons, List.contains_iff_mem, hk, if_false]
      rw [lookup_cons, ih]; simp [hne]

theorem eval_pruned (F : Cx) (e : Expr) (ρ : Env) :
    eval F (ρ.filter fun p => (fv e).contains p.1) e = eval F ρ e :=
  eval_agree F e _ _ (fun x hx => lookup_filter (fv e) ρ x hx)

theorem forTuple_bound (kv vv : String) (coll val : Expr) (cond : Option Expr) (x : String)
    (hx : x ∈ iterNames kv vv) (hc : x ∉ fv coll) : x ∉ fv (.forTuple kv vv coll val cond) := by
  cases cond <;> simp [fv, hx, hc]

theorem forObject_bound (kv vv : String) (coll key val : Expr) (cond : Option Expr) (g : Bool) (x : String)
    (hx : x ∈ iterNames kv vv) (hc : x ∉ fv coll) : x ∉ fv (.forObject kv vv coll key val cond g) := by
  cases cond <;> simp [fv, hx, hc]

theorem splat_bound (anon : String) (src each : Expr) (hs : anon ∉ fv src) :
    anon ∉ fv (.splat anon src each) := by
  simp [fv, hs]

end HclModel.Proofs
