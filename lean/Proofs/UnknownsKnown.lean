import Proofs.UnknownsEval
/-!
Known-in-known-out (`known_in_known_out`), construct by construct.
-/
set_option linter.unusedSimpArgs false
set_option linter.unusedSectionVars false
namespace HclModel.Proofs.Unk
open Val

@[simp] theorem strict_kd (F : Funcs) : (strictCx F).keepDropped = true := rfl
@[simp] theorem strict_kk (F : Funcs) : (strictCx F).keepKeyMarks = true := rfl
@[simp] theorem strict_funcs (F : Funcs) : (strictCx F).funcs = F := rfl

theorem hasErrors_nil : hasErrors [] = false := rfl
theorem hasErrors_false {ds : List Diag} (h : hasErrors ds = false) : ds = [] := by
  cases ds <;> simp_all [hasErrors]

theorem knownEnv_lookup {ρ : Env} (hρ : knownEnv ρ) {x : String} {v : Val} (h : ρ.lookup x = some v) :
    whollyKnown v = true := hρ (x, v) (lookupKey_mem h)

theorem knownEnv_cons {ρ : Env} (hρ : knownEnv ρ) {x : String} {v : Val} (hv : whollyKnown v = true) :
    knownEnv ((x, v) :: ρ) := by
  intro p hp
  rcases List.mem_cons.mp hp with rfl | hp
  · exact hv
  · exact hρ p hp

theorem knownEnv_bindIter {ρ : Env} (hρ : knownEnv ρ) {kv vv : String} {k v : Val}
    (hk : whollyKnown k = true) (hv : whollyKnown v = true) : knownEnv (bindIter ρ kv vv k v) := by
  unfold bindIter
  split
  · exact knownEnv_cons hρ hv
  · exact knownEnv_cons (knownEnv_cons hρ hk) hv

section
variable (F : Funcs)

theorem kiko_var (ρ : Env) (x : String) (hρ : knownEnv ρ) (h : (eval (strictCx F) ρ (.var x)).2 = []) :
    whollyKnown (eval (strictCx F) ρ (.var x)).1 = true := by
  rw [eval_var] at h ⊢
  cases hl : ρ.lookup x with
  | none => simp [hl, errOut] at h
  | some v => simpa [hl] using knownEnv_lookup hρ hl

theorem kiko_getAttr (ρ : Env) (e : Expr) (n : String)
    (ih : (eval (strictCx F) ρ e).2 = [] → whollyKnown (eval (strictCx F) ρ e).1 = true)
    (h : (eval (strictCx F) ρ (.getAttr e n)).2 = []) :
    whollyKnown (eval (strictCx F) ρ (.getAttr e n)).1 = true := by
  rw [eval_getAttr] at h ⊢
  split at h
  · rename_i he; simp only at h; rw [h] at he; cases he
  · simp only [List.append_eq_nil_iff] at h
    rename_i he
    simp only [he, Bool.false_eq_true, if_false]
    exact getAttr_known (ih h.1) h.2

theorem kiko_index (ρ : Env) (e k : Expr)
    (ih1 : (eval (strictCx F) ρ e).2 = [] → whollyKnown (eval (strictCx F) ρ e).1 = true)
    (ih2 : (eval (strictCx F) ρ k).2 = [] → whollyKnown (eval (strictCx F) ρ k).1 = true)
    (h : (eval (strictCx F) ρ (.index e k)).2 = []) :
    whollyKnown (eval (strictCx F) ρ (.index e k)).1 = true := by
  rw [eval_index] at h ⊢
  simp only [List.append_eq_nil_iff] at h
  exact index_known h.2 (ih1 h.1.1) (ih2 h.1.2)

theorem kiko_bin (ρ : Env) (op : BinOp) (l r : Expr)
    (ih1 : (eval (strictCx F) ρ l).2 = [] → whollyKnown (eval (strictCx F) ρ l).1 = true)
    (ih2 : (eval (strictCx F) ρ r).2 = [] → whollyKnown (eval (strictCx F) ρ r).1 = true)
    (h : (eval (strictCx F) ρ (.bin op l r)).2 = []) :
    whollyKnown (eval (strictCx F) ρ (.bin op l r)).1 = true := by
  rw [eval_bin] at h ⊢
  have hd := evalBin_diag h
  exact evalBin_known h (ih1 hd.1) (ih2 hd.2)

theorem kiko_un (ρ : Env) (op : UnOp) (e : Expr)
    (ih : (eval (strictCx F) ρ e).2 = [] → whollyKnown (eval (strictCx F) ρ e).1 = true)
    (h : (eval (strictCx F) ρ (.un op e)).2 = []) :
    whollyKnown (eval (strictCx F) ρ (.un op e)).1 = true := by
  rw [eval_un] at h ⊢
  exact evalUn_known h (ih (evalUn_diag h))

theorem kiko_cond (ρ : Env) (c t f : Expr)
    (ih1 : (eval (strictCx F) ρ c).2 = [] → whollyKnown (eval (strictCx F) ρ c).1 = true)
    (ih2 : (eval (strictCx F) ρ t).2 = [] → whollyKnown (eval (strictCx F) ρ t).1 = true)
    (ih3 : (eval (strictCx F) ρ f).2 = [] → whollyKnown (eval (strictCx F) ρ f).1 = true)
    (h : (eval (strictCx F) ρ (.cond c t f)).2 = []) :
    whollyKnown (eval (strictCx F) ρ (.cond c t f)).1 = true := by
  rw [eval_cond] at h ⊢
  simp only [strict_kd] at h ⊢
  obtain ⟨h1, h2, h3, h4⟩ := evalCond_diag h
  rw [h4]
  have hc := evalCondCore_diag h1
  generalize eval (strictCx F) ρ c = co at *
  generalize eval (strictCx F) ρ t = to at *
  generalize eval (strictCx F) ρ f = fo at *
  obtain ⟨cv, cd⟩ := co; obtain ⟨tv, td⟩ := to; obtain ⟨fv, fd⟩ := fo
  exact evalCondCore_known h1 (ih1 hc) (ih2 h2) (ih3 h3)
end

/-- a known, non-null value converts to a string constant -/
theorem conv_str_known {k ks : Val} (hk : k.isKnown = true) (hn : k.isNull = false)
    (h : convert k .str = .ok ks) : ∃ f s, ks = .str f s := by
  obtain ⟨p1, p2, _, p4⟩ := convert_props k .str ks h
  rcases shape_str (p4 rfl).1 with ⟨f, rfl⟩ | ⟨f, rfl⟩ | h
  · rw [hk] at p1; simp [isKnown] at p1
  · rw [hn] at p2; simp [isNull] at p2
  · exact h

/-! ### grouped key/value lists -/

/-- every group is non-empty and all its values satisfy `P` -/
def GInv (P : Val → Prop) (kvs : List (String × List Val)) : Prop :=
  ∀ p ∈ kvs, p.2 ≠ [] ∧ ∀ v ∈ p.2, P v

theorem GInv_nil (P : Val → Prop) : GInv P [] := by intro p hp; simp at hp

theorem GInv_groupInsert {P : Val → Prop} {k : String} {v : Val} :
    ∀ {kvs : List (String × List Val)}, GInv P kvs → P v → GInv P (groupInsert k v kvs)
  | [], _, hv => by
    intro p hp
    simp only [groupInsert, List.mem_singleton] at hp
    subst hp
    exact ⟨by simp, by simpa using hv⟩
  | (k', vs) :: rest, h, hv => by
    have h1 := h (k', vs) (by simp)
    have h2 : GInv P rest := fun p hp => h p (by simp [hp])
    simp only [groupInsert]
    split
    · intro p hp
      rcases List.mem_cons.mp hp with rfl | hp
      · exact ⟨by simp, by simpa using hv⟩
      · exact h p hp
    · split
      · intro p hp
        rcases List.mem_cons.mp hp with rfl | hp
        · refine ⟨by simp, ?_⟩
          intro w hw
          rcases List.mem_append.mp hw with hw | hw
          · exact h1.2 w hw
          · simp at hw; subst hw; exact hv
        · exact h2 p hp
      · intro p hp
        rcases List.mem_cons.mp hp with rfl | hp
        · exact h1
        · exact GInv_groupInsert h2 hv p hp

theorem wkFields_headD {kvs : List (String × List Val)} (h : GInv (fun v => whollyKnown v = true) kvs) :
    whollyKnownFields (kvs.map fun (k, vs) => (k, vs.headD Val.dynVal)) = true := by
  apply whollyKnownFields_of_mem
  intro p hp
  obtain ⟨q, hq, rfl⟩ := List.mem_map.mp hp
  obtain ⟨k, vs⟩ := q
  obtain ⟨hne, hall⟩ := h _ hq
  cases vs with
  | nil => exact absurd rfl hne
  | cons v vs => exact hall v (by simp)

theorem wkFields_tuple {kvs : List (String × List Val)} (h : GInv (fun v => whollyKnown v = true) kvs) :
    whollyKnownFields (kvs.map fun (k, vs) => (k, Val.tuple Fl.none vs)) = true := by
  apply whollyKnownFields_of_mem
  intro p hp
  obtain ⟨q, hq, rfl⟩ := List.mem_map.mp hp
  obtain ⟨k, vs⟩ := q
  simp only [whollyKnown]
  exact whollyKnownList_of_mem (h _ hq).2

section
variable (F : Funcs)

theorem kiko_items_step (ρ : Env) (ke ve : Expr) (rest : List (Expr × Expr))
    (ihk : (eval (strictCx F) ρ ke).2 = [] → whollyKnown (eval (strictCx F) ρ ke).1 = true)
    (ihv : (eval (strictCx F) ρ ve).2 = [] → whollyKnown (eval (strictCx F) ρ ve).1 = true)
    (ihr : (evalItems (strictCx F) ρ rest).1.diags = [] → (evalItems (strictCx F) ρ rest).2 = true ∧
      GInv (fun v => whollyKnown v = true) (evalItems (strictCx F) ρ rest).1.kvs)
    (h : (evalItems (strictCx F) ρ ((ke, ve) :: rest)).1.diags = []) :
    (evalItems (strictCx F) ρ ((ke, ve) :: rest)).2 = true ∧
      GInv (fun v => whollyKnown v = true) (evalItems (strictCx F) ρ ((ke, ve) :: rest)).1.kvs := by
  simp only [evalItems] at h ⊢
  generalize eval (strictCx F) ρ ke = ko at *
  generalize eval (strictCx F) ρ ve = vo at *
  generalize evalItems (strictCx F) ρ rest = ro at *
  obtain ⟨k, kd⟩ := ko; obtain ⟨v, vd⟩ := vo; obtain ⟨st, known⟩ := ro
  simp only at h ihk ihv ihr ⊢
  split at h
  · rename_i he
    simp only [List.append_eq_nil_iff] at h
    rw [h.1.1] at he; cases he
  · rename_i he
    have hkd := hasErrors_false (by simpa using he)
    subst hkd
    split at h
    · simp at h
    · rename_i hn
      have kk := ihk rfl
      have hks : ∃ f s, tryConvert k.unmark.1 .str = .ok (.str f s) := by
        rcases tryConvert_cases k.unmark.1 .str with ⟨ks, h1, h2⟩ | ⟨d, h1⟩
        · obtain ⟨f, s, rfl⟩ := conv_str_known (by rw [isKnown_unmark]; exact isKnown_of_whollyKnown kk)
            (by rw [isNull_unmark]; simpa using hn) h2
          exact ⟨f, s, h1⟩
        · rw [h1] at h; simp at h
      obtain ⟨f, s, hks⟩ := hks
      rw [hks] at h ⊢
      simp only [he, Bool.false_eq_true, if_false, hn] at h ⊢
      simp only [List.nil_append, List.append_eq_nil_iff] at h
      obtain ⟨ihr1, ihr2⟩ := ihr h.2
      refine ⟨ihr1, ?_⟩
      split
      · exact ihr2
      · exact GInv_groupInsert ihr2 (ihv h.1)
end

/-! ### loops -/

theorem foldl_diags_nil {α : Type} (step : ForSt → α → ForSt)
    (hext : ∀ st x, ∃ l, (step st x).diags = st.diags ++ l) :
    ∀ (els : List α) (st : ForSt), (els.foldl step st).diags = [] → st.diags = []
  | [], st, h => h
  | x :: els, st, h => by
    have := foldl_diags_nil step hext els (step st x) h
    obtain ⟨l, hl⟩ := hext st x
    rw [hl] at this
    exact (List.append_eq_nil_iff.mp this).1

theorem foldl_inv {α : Type} (step : ForSt → α → ForSt)
    (hext : ∀ st x, ∃ l, (step st x).diags = st.diags ++ l) (P : ForSt → Prop) :
    ∀ (els : List α), (∀ st x, x ∈ els → P st → (step st x).diags = [] → P (step st x)) →
      ∀ st, P st → (els.foldl step st).diags = [] → P (els.foldl step st)
  | [], _, st, hp, _ => hp
  | x :: els, hstep, st, hp, h => by
    have h1 := foldl_diags_nil step hext els (step st x) h
    exact foldl_inv step hext P els (fun st y hy => hstep st y (by simp [hy])) (step st x)
      (hstep st x (by simp) hp h1) h

theorem ftVal_ext (F : Cx) (ρ' : Env) (val : Expr) (st : ForSt) :
    ∃ l, (ftVal F ρ' val st).diags = st.diags ++ l := ⟨_, rfl⟩

theorem ftStep_ext (F : Cx) (ρ : Env) (kv vv : String) (val : Expr) (cond : Option Expr) (st : ForSt)
    (x : Val × Val) : ∃ l, (ftStep F ρ kv vv val cond st x).diags = st.diags ++ l := by
  unfold ftStep
  cases cond with
  | none => exact ftVal_ext _ _ _ _
  | some ce =>
    simp only
    split
    · split
      · exact ⟨_, by simp only [List.append_assoc]; rfl⟩
      · exact ⟨_, rfl⟩
    · split
      · exact ⟨_, rfl⟩
      · split
        · split
          · exact ⟨_, by simp only [List.append_assoc]; rfl⟩
          · exact ⟨_, rfl⟩
        · exact ⟨_, rfl⟩
        · obtain ⟨l, hl⟩ := ftVal_ext F (bindIter ρ kv vv x.1 x.2) val
            { st with diags := st.diags ++ (eval F (bindIter ρ kv vv x.1 x.2) ce).2,
                      marks := st.marks.join (eval F (bindIter ρ kv vv x.1 x.2) ce).1.fl }
          exact ⟨_, by rw [hl]; simp only [List.append_assoc]; rfl⟩

theorem probeCond_stop (o : Out) (h : (probeCond o).2.2 = true) : (probeCond o).1 ≠ [] := by
  obtain ⟨r, pd⟩ := o
  unfold probeCond at h ⊢
  simp only at h ⊢
  by_cases hn : r.isNull = true
  · simp [hn]
  · simp only [hn, Bool.false_eq_true, if_false] at h ⊢
    cases hc : tryConvert r .bool with
    | error d => simp [hc]
    | ok b =>
      simp only [hc] at h ⊢
      intro e; subst e; simp [hasErrors] at h

theorem forProbe_stop (F : Cx) (ρ : Env) (kv vv : String) (cond : Option Expr)
    (h : ((forProbe F ρ kv vv cond).map (·.2.2)).getD false = true) :
    ((forProbe F ρ kv vv cond).map (·.1)).getD [] ≠ [] := by
  cases cond with
  | none => simp [forProbe] at h
  | some ce =>
    simp only [forProbe, Option.map_some, Option.getD_some] at h ⊢
    exact probeCond_stop _ h

/-- the elements of a wholly known collection -/
theorem elements_known {cv : Val} (hk : whollyKnown cv = true) (hn : cv.isNull = false)
    (hc : canIterate cv.typeOf = true) :
    ∃ els, elements cv = some els ∧ ∀ kv ∈ els, whollyKnown kv.1 = true ∧ whollyKnown kv.2 = true := by
  cases cv <;> simp [whollyKnown, isNull, typeOf, canIterate] at hk hn hc
  case list f t xs =>
    refine ⟨_, rfl, ?_⟩
    intro kv hkv
    simp only [List.mem_map] at hkv
    obtain ⟨⟨i, x⟩, hix, rfl⟩ := hkv
    exact ⟨rfl, whollyKnownList_mem hk x (List.of_mem_zip hix).2⟩
  case tuple f xs =>
    refine ⟨_, rfl, ?_⟩
    intro kv hkv
    simp only [List.mem_map] at hkv
    obtain ⟨⟨i, x⟩, hix, rfl⟩ := hkv
    exact ⟨rfl, whollyKnownList_mem hk x (List.of_mem_zip hix).2⟩
  case map f t kvs =>
    refine ⟨_, rfl, ?_⟩
    intro kv hkv
    simp only [List.mem_map] at hkv
    obtain ⟨⟨k, x⟩, hix, rfl⟩ := hkv
    exact ⟨rfl, whollyKnownFields_mem hk _ hix⟩
  case object f kvs =>
    refine ⟨_, rfl, ?_⟩
    intro kv hkv
    simp only [List.mem_map] at hkv
    obtain ⟨⟨k, x⟩, hix, rfl⟩ := hkv
    exact ⟨rfl, whollyKnownFields_mem hk _ hix⟩

section
variable (F : Funcs)

/-- a known, non-null condition value converts to a boolean constant (via `tryConvert`) -/
theorem tryConvert_bool_known {v : Val} (hk : whollyKnown v = true) (hn : v.isNull = false) :
    (∃ f b, tryConvert v .bool = .ok (.bool f b)) ∨ (∃ d, tryConvert v .bool = .error d) := by
  rcases tryConvert_cases v .bool with ⟨x, h1, h2⟩ | h
  · obtain ⟨f, b, rfl⟩ := cond_bool (isKnown_of_whollyKnown hk) hn h2
    exact Or.inl ⟨f, b, h1⟩
  · exact Or.inr h

theorem kiko_ftVal (ρ' : Env) (val : Expr) (st : ForSt)
    (ihv : (eval (strictCx F) ρ' val).2 = [] → whollyKnown (eval (strictCx F) ρ' val).1 = true)
    (hp : st.known = true ∧ whollyKnownList st.vals = true)
    (h : (ftVal (strictCx F) ρ' val st).diags = []) :
    (ftVal (strictCx F) ρ' val st).known = true ∧ whollyKnownList (ftVal (strictCx F) ρ' val st).vals = true := by
  simp only [ftVal] at h ⊢
  simp only [List.append_eq_nil_iff] at h
  exact ⟨hp.1, whollyKnownList_append hp.2 (by simp [whollyKnownList, ihv h.2])⟩

theorem kiko_ftStep (ρ : Env) (kv vv : String) (val : Expr) (cond : Option Expr)
    (ihv : ∀ ρ', knownEnv ρ' → (eval (strictCx F) ρ' val).2 = [] → whollyKnown (eval (strictCx F) ρ' val).1 = true)
    (ihce : ∀ ce, cond = some ce → ∀ ρ', knownEnv ρ' → (eval (strictCx F) ρ' ce).2 = [] →
      whollyKnown (eval (strictCx F) ρ' ce).1 = true)
    (hρ : knownEnv ρ) (st : ForSt) (x : Val × Val) (hx : whollyKnown x.1 = true ∧ whollyKnown x.2 = true)
    (hp : st.known = true ∧ whollyKnownList st.vals = true)
    (h : (ftStep (strictCx F) ρ kv vv val cond st x).diags = []) :
    (ftStep (strictCx F) ρ kv vv val cond st x).known = true ∧
      whollyKnownList (ftStep (strictCx F) ρ kv vv val cond st x).vals = true := by
  have hρ' := knownEnv_bindIter (kv := kv) (vv := vv) hρ hx.1 hx.2
  unfold ftStep at h ⊢
  cases cond with
  | none => exact kiko_ftVal F _ val st (ihv _ hρ') hp h
  | some ce =>
    simp only at h ⊢
    have ihc := ihce ce rfl _ hρ'
    generalize eval (strictCx F) (bindIter ρ kv vv x.1 x.2) ce = co at *
    obtain ⟨inc, id⟩ := co
    simp only at h ihc ⊢
    by_cases hn : inc.isNull = true
    · simp [hn, hp.1] at h
    · simp only [hn, Bool.false_eq_true, if_false] at h ⊢
      by_cases hk : inc.isKnown = true
      · simp only [hk, Bool.not_true, Bool.false_eq_true, if_false] at h ⊢
        rcases tryConvert_cases inc .bool with ⟨b, hb, hb'⟩ | ⟨d, hb⟩
        · obtain ⟨f, bb, rfl⟩ := cond_bool hk (by simpa using hn) hb'
          rw [hb] at h ⊢
          cases bb
          · exact hp
          · exact kiko_ftVal F _ val _ (ihv _ hρ') hp h
        · rw [hb] at h; simp [hp.1] at h
      · simp only [hk, Bool.not_false, if_true] at h
        simp only [List.append_eq_nil_iff] at h
        exact absurd (isKnown_of_whollyKnown (ihc h.2)) hk

/-- the common shell of the two `for` forms -/
def forShell (F : Cx) (ρ : Env) (kv vv : String) (co : Out) (cond : Option Expr)
    (step : ForSt → Val × Val → ForSt) (fin : ForSt → Val) : Out :=
  let (cv, cd) := co
  if cv.isNull then (Val.dynVal, cd ++ [⟨"Iteration over null value", []⟩])
  else if cv.typeOf == .dyn then (Val.dynVal, cd)
  else
    let (cv, cm) := cv.unmark
    if !canIterate cv.typeOf then (Val.dynVal, cd ++ [⟨"Iteration over non-iterable value", []⟩])
    else
      let probe := forProbe F ρ kv vv cond
      let pd := (probe.map (·.1)).getD []
      let pm := (probe.map (·.2.1)).getD Fl.none
      let pstop := (probe.map (·.2.2)).getD false
      if pstop then (Val.dynVal, cd ++ pd)
      else
        match elements cv with
        | none => (Val.dynVal.withFl (cm.join ⟨pm.m, pm.g⟩), cd ++ pd)
        | some els =>
          let st := els.foldl step ({ diags := cd ++ pd, marks := cm } : ForSt)
          if !st.known then (Val.dynVal.withFl st.marks, st.diags)
          else (fin st, st.diags)

theorem eval_forTuple' (F : Cx) (ρ : Env) (kv vv : String) (coll val : Expr) (cond : Option Expr) :
    eval F ρ (.forTuple kv vv coll val cond) =
      forShell F ρ kv vv (eval F ρ coll) cond (ftStep F ρ kv vv val cond)
        (fun st => Val.tuple st.marks st.vals) := by
  rw [eval_forTuple]; rfl

theorem eval_forObject' (F : Cx) (ρ : Env) (kv vv : String) (coll key val : Expr) (cond : Option Expr)
    (group : Bool) :
    eval F ρ (.forObject kv vv coll key val cond group) =
      forShell F ρ kv vv (eval F ρ coll) cond (foStep F ρ kv vv key val cond group)
        (fun st => if group then Val.object st.marks (st.kvs.map fun (k, vs) => (k, Val.tuple Fl.none vs))
          else Val.object st.marks (st.kvs.map fun (k, vs) => (k, vs.headD Val.dynVal))) := by
  rw [eval_forObject]
  cases group <;> rfl

theorem shell_known (ρ : Env) (kv vv : String) (co : Out) (cond : Option Expr)
    (step : ForSt → Val × Val → ForSt) (fin : ForSt → Val) (P : ForSt → Prop)
    (hext : ∀ st x, ∃ l, (step st x).diags = st.diags ++ l)
    (ihc : co.2 = [] → whollyKnown co.1 = true)
    (hstep : ∀ st x, whollyKnown x.1 = true ∧ whollyKnown x.2 = true → P st → (step st x).diags = [] →
      P (step st x))
    (hinit : ∀ ds ms, P ({ diags := ds, marks := ms } : ForSt))
    (hfin : ∀ st, P st → st.known = true ∧ whollyKnown (fin st) = true)
    (h : (forShell (strictCx F) ρ kv vv co cond step fin).2 = []) :
    whollyKnown (forShell (strictCx F) ρ kv vv co cond step fin).1 = true := by
  unfold forShell at h ⊢
  obtain ⟨cv, cd⟩ := co
  simp only at h ihc ⊢
  by_cases hn : cv.isNull = true
  · simp [hn] at h
  · simp only [hn, Bool.false_eq_true, if_false] at h ⊢
    by_cases hd : (cv.typeOf == Ty.dyn) = true
    · simp only [hd, if_true] at h
      have := ihc h
      exact absurd (by simpa using hd) (typeOf_ne_dyn (isKnown_of_whollyKnown this) (by simpa using hn))
    · simp only [hd, Bool.false_eq_true, if_false] at h ⊢
      by_cases hci : canIterate cv.unmark.1.typeOf = true
      · simp only [hci, Bool.not_true, Bool.false_eq_true, if_false] at h ⊢
        by_cases hs : ((forProbe (strictCx F) ρ kv vv cond).map (·.2.2)).getD false = true
        · simp only [hs, if_true] at h
          exact absurd (List.append_eq_nil_iff.mp h).2 (forProbe_stop _ _ _ _ _ hs)
        · simp only [hs, Bool.false_eq_true, if_false] at h ⊢
          cases hel : elements cv.unmark.1 with
          | none =>
            simp only [hel] at h
            have hk := ihc (List.append_eq_nil_iff.mp h).1
            obtain ⟨els, he, _⟩ := elements_known (cv := cv.unmark.1) (by simpa using hk) (by simpa using hn) hci
            rw [he] at hel; cases hel
          | some els =>
            simp only [hel] at h ⊢
            have hfd : (els.foldl step
                  ({ diags := cd ++ ((forProbe (strictCx F) ρ kv vv cond).map (·.1)).getD [],
                     marks := cv.unmark.2 } : ForSt)).diags = [] := by
              split at h <;> exact h
            have hcd : cd = [] := by
              have := foldl_diags_nil _ hext _ _ hfd
              exact (List.append_eq_nil_iff.mp this).1
            have hk := ihc hcd
            obtain ⟨els', he, hels⟩ := elements_known (cv := cv.unmark.1) (by simpa using hk) (by simpa using hn) hci
            rw [he] at hel; cases hel
            have hinv := foldl_inv step hext P els
              (fun st x hx hp hd => hstep st x (hels x hx) hp hd) _ (hinit _ _) hfd
            obtain ⟨f1, f2⟩ := hfin _ hinv
            simp only [f1, Bool.not_true, Bool.false_eq_true, if_false]
            exact f2
      · have hci' : canIterate cv.unmark.1.typeOf = false := by simpa using hci
        simp only [hci', Bool.not_false, if_true] at h
        simp at h

theorem kiko_forTuple (ρ : Env) (kv vv : String) (coll val : Expr) (cond : Option Expr)
    (ihc : (eval (strictCx F) ρ coll).2 = [] → whollyKnown (eval (strictCx F) ρ coll).1 = true)
    (ihv : ∀ ρ', knownEnv ρ' → (eval (strictCx F) ρ' val).2 = [] → whollyKnown (eval (strictCx F) ρ' val).1 = true)
    (ihce : ∀ ce, cond = some ce → ∀ ρ', knownEnv ρ' → (eval (strictCx F) ρ' ce).2 = [] →
      whollyKnown (eval (strictCx F) ρ' ce).1 = true)
    (hρ : knownEnv ρ) (h : (eval (strictCx F) ρ (.forTuple kv vv coll val cond)).2 = []) :
    whollyKnown (eval (strictCx F) ρ (.forTuple kv vv coll val cond)).1 = true := by
  rw [eval_forTuple'] at h ⊢
  exact shell_known F ρ kv vv _ cond _ _ (fun st => st.known = true ∧ whollyKnownList st.vals = true)
    (ftStep_ext _ ρ kv vv val cond) ihc
    (fun st x hx hp hd => kiko_ftStep F ρ kv vv val cond ihv ihce hρ st x hx hp hd)
    (fun _ _ => ⟨rfl, rfl⟩) (fun st hp => ⟨hp.1, by simpa [whollyKnown] using hp.2⟩) h

theorem foVal_ext (F : Cx) (ρ' : Env) (key val : Expr) (group : Bool) (st : ForSt) :
    ∃ l, (foVal F ρ' key val group st).diags = st.diags ++ l := by
  unfold foVal
  simp only
  split
  · split
    · exact ⟨_, by simp only [List.append_assoc]; rfl⟩
    · exact ⟨_, rfl⟩
  · split
    · exact ⟨_, rfl⟩
    · split
      · split
        · exact ⟨_, by simp only [List.append_assoc]; rfl⟩
        · exact ⟨_, rfl⟩
      · split
        · split
          · exact ⟨_, by simp only [List.append_assoc]; rfl⟩
          · split
            · exact ⟨_, by simp only [List.append_assoc]; rfl⟩
            · exact ⟨_, by simp only [List.append_assoc]; rfl⟩
        · exact ⟨_, rfl⟩

theorem foStep_ext (F : Cx) (ρ : Env) (kv vv : String) (key val : Expr) (cond : Option Expr) (group : Bool)
    (st : ForSt) (x : Val × Val) : ∃ l, (foStep F ρ kv vv key val cond group st x).diags = st.diags ++ l := by
  unfold foStep
  cases cond with
  | none => exact foVal_ext _ _ _ _ _ _
  | some ce =>
    simp only
    split
    · split
      · exact ⟨_, by simp only [List.append_assoc]; rfl⟩
      · exact ⟨_, rfl⟩
    · split
      · split
        · exact ⟨_, by simp only [List.append_assoc]; rfl⟩
        · exact ⟨_, rfl⟩
      · split
        · exact ⟨_, rfl⟩
        · split
          · exact ⟨_, rfl⟩
          · obtain ⟨l, hl⟩ := foVal_ext F (bindIter ρ kv vv x.1 x.2) key val group
              { st with diags := st.diags ++ (eval F (bindIter ρ kv vv x.1 x.2) ce).2,
                        marks := st.marks.join (eval F (bindIter ρ kv vv x.1 x.2) ce).1.fl }
            exact ⟨_, by rw [hl]; simp only [List.append_assoc]; rfl⟩

theorem kiko_foVal (ρ' : Env) (key val : Expr) (group : Bool) (st : ForSt)
    (ihk : (eval (strictCx F) ρ' key).2 = [] → whollyKnown (eval (strictCx F) ρ' key).1 = true)
    (ihv : (eval (strictCx F) ρ' val).2 = [] → whollyKnown (eval (strictCx F) ρ' val).1 = true)
    (hp : st.known = true ∧ GInv (fun v => whollyKnown v = true) st.kvs)
    (h : (foVal (strictCx F) ρ' key val group st).diags = []) :
    (foVal (strictCx F) ρ' key val group st).known = true ∧
      GInv (fun v => whollyKnown v = true) (foVal (strictCx F) ρ' key val group st).kvs := by
  unfold foVal at h ⊢
  generalize eval (strictCx F) ρ' key = ko at *
  generalize eval (strictCx F) ρ' val = vo at *
  obtain ⟨kr, kd⟩ := ko; obtain ⟨v, vd⟩ := vo
  simp only at h ihk ihv ⊢
  by_cases hn : kr.isNull = true
  · simp [hn, hp.1] at h
  · simp only [hn, Bool.false_eq_true, if_false] at h ⊢
    by_cases hk : kr.isKnown = true
    · simp only [hk, Bool.not_true, Bool.false_eq_true, if_false] at h ⊢
      rcases tryConvert_cases kr .str with ⟨ks, hb, hb'⟩ | ⟨d, hb⟩
      · obtain ⟨f, s, rfl⟩ := conv_str_known hk (by simpa using hn) hb'
        rw [hb] at h ⊢
        simp only [unmark_fst, setFl] at h ⊢
        cases group
        · simp only [Bool.false_eq_true, if_false] at h ⊢
          split at h
          · simp at h
          · rename_i hl
            simp only [hl, Bool.false_eq_true, if_false]
            simp only [List.append_eq_nil_iff] at h
            exact ⟨hp.1, GInv_groupInsert hp.2 (ihv h.2)⟩
        · simp only [if_true] at h ⊢
          simp only [List.append_eq_nil_iff] at h
          exact ⟨hp.1, GInv_groupInsert hp.2 (ihv h.2)⟩
      · rw [hb] at h; simp [hp.1] at h
    · simp only [hk, Bool.not_false, if_true] at h
      simp only [List.append_eq_nil_iff] at h
      exact absurd (isKnown_of_whollyKnown (ihk h.2)) hk

theorem kiko_foStep (ρ : Env) (kv vv : String) (key val : Expr) (cond : Option Expr) (group : Bool)
    (ihk : ∀ ρ', knownEnv ρ' → (eval (strictCx F) ρ' key).2 = [] → whollyKnown (eval (strictCx F) ρ' key).1 = true)
    (ihv : ∀ ρ', knownEnv ρ' → (eval (strictCx F) ρ' val).2 = [] → whollyKnown (eval (strictCx F) ρ' val).1 = true)
    (ihce : ∀ ce, cond = some ce → ∀ ρ', knownEnv ρ' → (eval (strictCx F) ρ' ce).2 = [] →
      whollyKnown (eval (strictCx F) ρ' ce).1 = true)
    (hρ : knownEnv ρ) (st : ForSt) (x : Val × Val) (hx : whollyKnown x.1 = true ∧ whollyKnown x.2 = true)
    (hp : st.known = true ∧ GInv (fun v => whollyKnown v = true) st.kvs)
    (h : (foStep (strictCx F) ρ kv vv key val cond group st x).diags = []) :
    (foStep (strictCx F) ρ kv vv key val cond group st x).known = true ∧
      GInv (fun v => whollyKnown v = true) (foStep (strictCx F) ρ kv vv key val cond group st x).kvs := by
  have hρ' := knownEnv_bindIter (kv := kv) (vv := vv) hρ hx.1 hx.2
  unfold foStep at h ⊢
  cases cond with
  | none => exact kiko_foVal F _ key val group st (ihk _ hρ') (ihv _ hρ') hp h
  | some ce =>
    simp only at h ⊢
    have ihc := ihce ce rfl _ hρ'
    generalize eval (strictCx F) (bindIter ρ kv vv x.1 x.2) ce = co at *
    obtain ⟨inc, id⟩ := co
    simp only at h ihc ⊢
    by_cases hn : inc.isNull = true
    · simp [hn, hp.1] at h
    · simp only [hn, Bool.false_eq_true, if_false] at h ⊢
      rcases tryConvert_cases inc .bool with ⟨b, hb, hb'⟩ | ⟨d, hb⟩
      · rw [hb] at h ⊢
        simp only at h ⊢
        by_cases hk : b.isKnown = true
        · simp only [hk, Bool.not_true, Bool.false_eq_true, if_false] at h ⊢
          have hki : inc.isKnown = true := by rw [← (convert_props _ _ _ hb').1]; exact hk
          obtain ⟨f, bb, rfl⟩ := cond_bool hki (by simpa using hn) hb'
          cases bb
          · exact hp
          · exact kiko_foVal F _ key val group _ (ihk _ hρ') (ihv _ hρ') hp h
        · simp only [hk, Bool.not_false, if_true] at h
          simp only [List.append_eq_nil_iff] at h
          have := isKnown_of_whollyKnown (ihc h.2)
          rw [← (convert_props _ _ _ hb').1] at this
          exact absurd this hk
      · rw [hb] at h; simp [hp.1] at h

theorem kiko_forObject (ρ : Env) (kv vv : String) (coll key val : Expr) (cond : Option Expr) (group : Bool)
    (ihc : (eval (strictCx F) ρ coll).2 = [] → whollyKnown (eval (strictCx F) ρ coll).1 = true)
    (ihk : ∀ ρ', knownEnv ρ' → (eval (strictCx F) ρ' key).2 = [] → whollyKnown (eval (strictCx F) ρ' key).1 = true)
    (ihv : ∀ ρ', knownEnv ρ' → (eval (strictCx F) ρ' val).2 = [] → whollyKnown (eval (strictCx F) ρ' val).1 = true)
    (ihce : ∀ ce, cond = some ce → ∀ ρ', knownEnv ρ' → (eval (strictCx F) ρ' ce).2 = [] →
      whollyKnown (eval (strictCx F) ρ' ce).1 = true)
    (hρ : knownEnv ρ) (h : (eval (strictCx F) ρ (.forObject kv vv coll key val cond group)).2 = []) :
    whollyKnown (eval (strictCx F) ρ (.forObject kv vv coll key val cond group)).1 = true := by
  rw [eval_forObject'] at h ⊢
  refine shell_known F ρ kv vv _ cond _ _ (fun st => st.known = true ∧ GInv (fun v => whollyKnown v = true) st.kvs)
    (foStep_ext _ ρ kv vv key val cond group) ihc
    (fun st x hx hp hd => kiko_foStep F ρ kv vv key val cond group ihk ihv ihce hρ st x hx hp hd)
    (fun _ _ => ⟨rfl, GInv_nil _⟩) (fun st hp => ⟨hp.1, ?_⟩) h
  cases group
  · simpa [whollyKnown] using wkFields_headD hp.2
  · simpa [whollyKnown] using wkFields_tuple hp.2
end


section
variable (F : Funcs)

theorem items_known {sv : Val} (hk : whollyKnown sv = true) :
    ∀ it ∈ splatItems sv, whollyKnown it = true := by
  cases sv <;> simp [whollyKnown, splatItems] at hk ⊢
  · exact whollyKnownList_mem hk
  · exact whollyKnownList_mem hk

theorem kiko_splat (ρ : Env) (anon : String) (src each : Expr)
    (ihs : (eval (strictCx F) ρ src).2 = [] → whollyKnown (eval (strictCx F) ρ src).1 = true)
    (ihe : ∀ ρ', knownEnv ρ' → (eval (strictCx F) ρ' each).2 = [] → whollyKnown (eval (strictCx F) ρ' each).1 = true)
    (hρ : knownEnv ρ) (h : (eval (strictCx F) ρ (.splat anon src each)).2 = []) :
    whollyKnown (eval (strictCx F) ρ (.splat anon src each)).1 = true := by
  rw [eval_splat] at h ⊢
  generalize eval (strictCx F) ρ src = so at *
  obtain ⟨sv, sd⟩ := so
  simp only at h ihs ⊢
  by_cases he : hasErrors sd = true
  · simp only [he, if_true] at h; rw [h] at he; cases he
  · have hsd := hasErrors_false (by simpa using he)
    subst hsd
    have ksv := ihs rfl
    simp only [he, Bool.false_eq_true, if_false] at h ⊢
    by_cases hn : sv.isNull = true
    · simp only [hn, if_true] at h ⊢
      cases hau : splatAutoUp sv.typeOf
      · simp [hau] at h
      · simp [whollyKnown, whollyKnownList]
    · simp only [hn, Bool.false_eq_true, if_false] at h ⊢
      have hnd : (sv.typeOf == Ty.dyn) = false := by
        simpa using typeOf_ne_dyn (isKnown_of_whollyKnown ksv) (by simpa using hn)
      simp only [hnd, Bool.false_eq_true, if_false, isKnown_of_whollyKnown ksv, Bool.not_true, Bool.and_false] at h ⊢
      have ksv' : whollyKnown (if splatAutoUp sv.typeOf = true then (Val.tuple Fl.none [sv]).withFl sv.fl else sv) = true := by
        split
        · simp [whollyKnown, whollyKnownList, ksv]
        · exact ksv
      generalize (if splatAutoUp sv.typeOf = true then (Val.tuple Fl.none [sv]).withFl sv.fl else sv) = sv' at *
      have kk := isKnown_of_whollyKnown ksv'
      simp only [kk, Bool.not_true, Bool.false_eq_true, if_false] at h ⊢
      have kit := items_known (sv := sv'.unmark.1) (by simpa using ksv')
      generalize hrs : (splatItems sv'.unmark.1).map (fun it => eval (strictCx F) ((anon, it) :: ρ) each) = rs at *
      -- all element evaluations are free of diagnostics
      have hds : rs.flatMap (·.2) = [] := by
        by_cases hok : (rs.all fun r => !hasErrors r.2) = true
        · simp only [hok, Bool.not_true, Bool.false_eq_true, if_false] at h
          split at h
          · split at h
            · split at h
              · simpa using (List.append_eq_nil_iff.mp h).1
              · simp [unsupportedOut] at h
            · split at h
              · simpa using h
              · simp [unsupportedOut] at h
          · simpa using h
        · simp only [hok, Bool.not_false, if_true] at h
          simp only [strict_kd, if_true, List.nil_append, List.append_eq_nil_iff] at h
          exact h.1
      have hall : ∀ r ∈ rs, r.2 = [] := List.flatMap_eq_nil_iff.mp hds
      have hok : (rs.all fun r => !hasErrors r.2) = true := by
        rw [List.all_eq_true]
        intro r hr; simp [hall r hr, hasErrors]
      have hvals : ∀ v ∈ rs.map (·.1), whollyKnown v = true := by
        intro v hv
        obtain ⟨r, hr, rfl⟩ := List.mem_map.mp hv
        have hr' := hr
        rw [← hrs] at hr'
        obtain ⟨it, hit, rfl⟩ := List.mem_map.mp hr'
        exact ihe _ (knownEnv_cons hρ (kit it hit)) (hall _ hr)
      simp only [hok, Bool.not_true, Bool.false_eq_true, if_false] at h ⊢
      have hvl := whollyKnownList_of_mem hvals
      cases hsv'' : sv'.unmark.1
      case list f t xs =>
        simp only [hsv''] at h ⊢
        cases hvs : rs.map (·.1) with
        | nil =>
          simp only [hvs] at h ⊢
          cases hrt : (splatResultTy (strictCx F) ρ anon each sv').1 <;> simp only [hrt] at h ⊢ <;>
            first
              | (simp [unsupportedOut] at h; done)
              | simp [whollyKnown, whollyKnownList]
        | cons v vs =>
          rw [hvs] at hvl
          simp only [hvs] at h ⊢
          by_cases hall2 : (vs.all fun w => w.typeOf == v.typeOf) = true
          · simp only [hall2, if_true, whollyKnown_withFl, whollyKnown]; exact hvl
          · simp only [hall2, Bool.false_eq_true, if_false] at h; simp [unsupportedOut] at h
      all_goals
        simp only [hsv''] at h ⊢
        simp only [whollyKnown_withFl, whollyKnown]
        exact hvl

/-! ### templates -/

theorem tmplStep_ext (st : List Diag × Bool × Fl × String) (o : Out) :
    ∃ l, (tmplStep st o).1 = st.1 ++ l := by
  obtain ⟨ds, known, ms, buf⟩ := st
  obtain ⟨pv, pd⟩ := o
  unfold tmplStep
  simp only
  split
  · exact ⟨_, by simp only [List.append_assoc]; rfl⟩
  · split
    · exact ⟨_, rfl⟩
    · split
      · exact ⟨_, by simp only [List.append_assoc]; rfl⟩
      · exact ⟨_, rfl⟩
      · exact ⟨_, rfl⟩

theorem tmpl_fold_diag : ∀ (outs : List Out) (st : List Diag × Bool × Fl × String),
    (outs.foldl tmplStep st).1 = [] → st.1 = []
  | [], st, h => h
  | o :: outs, st, h => by
    have := tmpl_fold_diag outs (tmplStep st o) h
    obtain ⟨l, hl⟩ := tmplStep_ext st o
    rw [hl] at this
    exact (List.append_eq_nil_iff.mp this).1

theorem tmplStep_known (st : List Diag × Bool × Fl × String) (o : Out)
    (ho : o.2 = [] → whollyKnown o.1 = true) (hk : st.2.1 = true) (h : (tmplStep st o).1 = []) :
    (tmplStep st o).2.1 = true := by
  obtain ⟨ds, known, ms, buf⟩ := st
  obtain ⟨pv, pd⟩ := o
  unfold tmplStep at h ⊢
  simp only at h ho hk ⊢
  split
  · exact hk
  · split
    · rename_i hn hu
      simp only [hn, Bool.false_eq_true, if_false, hu, if_true, List.append_eq_nil_iff] at h
      have := isKnown_of_whollyKnown (ho h.2)
      simp [this] at hu
    · split <;> exact hk

theorem tmpl_fold_known : ∀ (outs : List Out), (∀ o ∈ outs, o.2 = [] → whollyKnown o.1 = true) →
    ∀ (st : List Diag × Bool × Fl × String), st.2.1 = true → (outs.foldl tmplStep st).1 = [] →
      (outs.foldl tmplStep st).2.1 = true
  | [], _, st, hk, _ => hk
  | o :: outs, ho, st, hk, h => by
    have h1 := tmpl_fold_diag outs (tmplStep st o) h
    exact tmpl_fold_known outs (fun o' ho' => ho o' (by simp [ho'])) _
      (tmplStep_known st o (ho o (by simp)) hk h1) h

theorem kiko_template (ρ : Env) (parts : List Expr)
    (ih : ∀ o ∈ evalEach (strictCx F) ρ parts, o.2 = [] → whollyKnown o.1 = true)
    (h : (eval (strictCx F) ρ (.template parts)).2 = []) :
    whollyKnown (eval (strictCx F) ρ (.template parts)).1 = true := by
  rw [eval_template] at h ⊢
  simp only at h ⊢
  have hd : ((evalEach (strictCx F) ρ parts).foldl tmplStep (([] : List Diag), true, Fl.none, "")).1 = [] := by
    split at h <;> exact h
  have := tmpl_fold_known _ ih _ rfl hd
  simp only [this, if_true]
  rfl

/-! ### `tjoin` -/

theorem tjoinLoop_ext (tm : Fl) : ∀ (xs : List Val) (ds : List Diag) (ms : Fl) (buf : String),
    ∃ l, (tjoinLoop tm xs ds ms buf).2 = ds ++ l
  | [], ds, ms, buf => ⟨[], by simp [tjoinLoop]⟩
  | x :: xs, ds, ms, buf => by
    unfold tjoinLoop
    split
    · obtain ⟨l, hl⟩ := tjoinLoop_ext tm xs (ds ++ [⟨"Invalid template interpolation value: null iteration result", []⟩]) ms buf
      exact ⟨_, by rw [hl, List.append_assoc]⟩
    · split
      · exact ⟨[], by simp⟩
      · split
        · rename_i d _
          obtain ⟨l, hl⟩ := tjoinLoop_ext tm xs (ds ++ [if d.isUnsupported then d else ⟨"Invalid template interpolation value", []⟩]) ms buf
          exact ⟨_, by rw [hl, List.append_assoc]⟩
        · split
          · exact ⟨[], by simp⟩
          · split
            · exact tjoinLoop_ext tm xs ds _ _
            · exact tjoinLoop_ext tm xs ds _ _

theorem tjoinLoop_known (tm : Fl) : ∀ (xs : List Val) (ds : List Diag) (ms : Fl) (buf : String),
    whollyKnownList xs = true → (tjoinLoop tm xs ds ms buf).2 = [] →
      whollyKnown (tjoinLoop tm xs ds ms buf).1 = true
  | [], ds, ms, buf, _, _ => by simp [tjoinLoop, whollyKnown]
  | x :: xs, ds, ms, buf, hk, h => by
    simp only [whollyKnownList, Bool.and_eq_true] at hk
    unfold tjoinLoop at h ⊢
    by_cases hn : x.isNull = true
    · simp only [hn, if_true] at h
      obtain ⟨l, hl⟩ := tjoinLoop_ext tm xs (ds ++ [⟨"Invalid template interpolation value: null iteration result", []⟩]) ms buf
      rw [hl] at h; simp at h
    · simp only [hn, Bool.false_eq_true, if_false] at h ⊢
      have hnd : (x.typeOf == Ty.dyn) = false := by
        simpa using typeOf_ne_dyn (isKnown_of_whollyKnown hk.1) (by simpa using hn)
      simp only [hnd, Bool.false_eq_true, if_false] at h ⊢
      rcases tryConvert_cases x .str with ⟨sv, hb, hb'⟩ | ⟨d, hb⟩
      · rw [hb] at h ⊢
        simp only [isKnown_of_whollyKnown hk.1, Bool.not_true, Bool.false_eq_true, if_false] at h ⊢
        split
        · exact tjoinLoop_known tm xs ds _ _ hk.2 (by simpa using h)
        · rename_i hs
          split at h
          · rename_i f s; exact absurd rfl (hs f s)
          · exact tjoinLoop_known tm xs ds _ _ hk.2 h
      · rw [hb] at h
        simp only at h
        obtain ⟨l, hl⟩ := tjoinLoop_ext tm xs (ds ++ [if d.isUnsupported then d else ⟨"Invalid template interpolation value", []⟩]) ms buf
        rw [hl] at h; simp at h

theorem kiko_tjoin (ρ : Env) (t : Expr)
    (ih : (eval (strictCx F) ρ t).2 = [] → whollyKnown (eval (strictCx F) ρ t).1 = true)
    (hnn : (eval (strictCx F) ρ t).1.isNull = false)
    (h : (eval (strictCx F) ρ (.tjoin t)).2 = []) :
    whollyKnown (eval (strictCx F) ρ (.tjoin t)).1 = true := by
  rw [eval_tjoin] at h ⊢
  generalize eval (strictCx F) ρ t = to at *
  obtain ⟨tv, ds⟩ := to
  simp only at h ih hnn ⊢
  have hds : ds = [] := by
    split at h
    · exact h
    · split at h
      · exact h
      · split at h
        · obtain ⟨l, hl⟩ := tjoinLoop_ext tv.unmark.2 (by assumption) ds tv.unmark.2 ""
          rw [hl] at h; exact (List.append_eq_nil_iff.mp h).1
        · simp [unsupportedOut] at h
  have hk := ih hds
  have hnd : (tv.typeOf == Ty.dyn) = false := by
    simpa using typeOf_ne_dyn (isKnown_of_whollyKnown hk) hnn
  simp only [hnd, Bool.false_eq_true, if_false, isKnown_of_whollyKnown hk, Bool.not_true] at h ⊢
  cases htv : tv.unmark.1 <;> simp only [htv] at h ⊢ <;> (try (simp [unsupportedOut] at h; done))
  rename_i f xs
  refine tjoinLoop_known _ xs ds _ _ ?_ h
  have : whollyKnown tv.unmark.1 = true := by simpa using hk
  rw [htv] at this
  simpa [whollyKnown] using this

/-! ### function calls -/

def argTy (spec : FuncSpec) (ps : List Ty) : Option Ty :=
  match ps with | p :: _ => some p | [] => spec.varParam

theorem convertArgs_cons (spec : FuncSpec) (v : Val) (vs : List Val) (ps : List Ty) :
    convertArgs spec (v :: vs) ps =
      match argTy spec ps with
      | none => (v :: (convertArgs spec vs ps.tail).1, (convertArgs spec vs ps.tail).2)
      | some t =>
        match tryConvert v t with
        | .ok v' => (v' :: (convertArgs spec vs ps.tail).1, (convertArgs spec vs ps.tail).2)
        | .error d => (v :: (convertArgs spec vs ps.tail).1,
            (if d.isUnsupported then d else ⟨"Invalid function argument", []⟩) :: (convertArgs spec vs ps.tail).2) := by
  cases ps <;> (conv => lhs; unfold convertArgs) <;> rfl

theorem convertArgs_known (spec : FuncSpec) : ∀ (vs : List Val) (ps : List Ty),
    (convertArgs spec vs ps).2 = [] → (∀ v ∈ vs, whollyKnown v = true) →
      ∀ v ∈ (convertArgs spec vs ps).1, whollyKnown v = true
  | [], _, _, _ => by simp [convertArgs]
  | v :: vs, ps, h, hk => by
    rw [convertArgs_cons] at h ⊢
    have ih := convertArgs_known spec vs ps.tail
    cases hpt : argTy spec ps with
    | none =>
      simp only [hpt] at h ⊢
      intro w hw
      rcases List.mem_cons.mp hw with rfl | hw
      · exact hk _ (by simp)
      · exact ih h (fun v hv => hk v (by simp [hv])) w hw
    | some t =>
      simp only [hpt] at h ⊢
      rcases tryConvert_cases v t with ⟨v', hb, hb'⟩ | ⟨d, hb⟩
      · rw [hb] at h ⊢
        simp only at h ⊢
        intro w hw
        rcases List.mem_cons.mp hw with rfl | hw
        · exact (convert_props _ _ _ hb').2.2.1 (hk _ (by simp))
        · exact ih h (fun v hv => hk v (by simp [hv])) w hw
      · rw [hb] at h; simp at h

theorem foldl_any_false {α : Type} (p : α → Bool) (xs : List α) (h : ∀ x ∈ xs, p x = false) :
    xs.any p = false := by
  rw [List.any_eq_false]; intro x hx; simp [h x hx]

theorem callFunc_known (spec : FuncSpec)
    (hF : ∀ args r, (∀ a ∈ args, whollyKnown a = true) → spec.impl args = .ok r → whollyKnown r = true)
    (vals : List Val) (r : Val) (hk : ∀ v ∈ vals, whollyKnown v = true) (h : callFunc spec vals = .ok r) :
    whollyKnown r = true := by
  unfold callFunc at h
  split at h
  · simp [throw, throwThe, MonadExceptOf.throw] at h
  · rename_i hnull
    have hnn : ∀ v ∈ vals, v.isNull = false := by
      intro v hv
      have := List.any_eq_false.mp (by simpa using hnull) v hv
      simpa using this
    have h1 : (vals.any fun a => a.typeOf == Ty.dyn) = false := by
      apply foldl_any_false
      intro v hv
      simpa using typeOf_ne_dyn (isKnown_of_whollyKnown (hk v hv)) (hnn v hv)
    have h2 : (vals.any fun a => !a.isKnown) = false := by
      apply foldl_any_false
      intro v hv
      simp [isKnown_of_whollyKnown (hk v hv)]
    simp only [h1, h2, Bool.false_eq_true, if_false] at h
    obtain ⟨r', hr', h⟩ := bind_ok.mp h
    simp [pure, Except.pure] at h
    subst h
    rw [whollyKnown_withFl]
    refine hF _ _ ?_ hr'
    intro a ha
    obtain ⟨v, hv, rfl⟩ := List.mem_map.mp ha
    rw [whollyKnown_unmarkDeep]; exact hk v hv

theorem callExpand_known (ρ : Env) (expand : Option Expr)
    (ih : ∀ le, expand = some le → (eval (strictCx F) ρ le).2 = [] → whollyKnown (eval (strictCx F) ρ le).1 = true) :
    (∀ o, callExpand (strictCx F) ρ expand = .error o → o.2 ≠ []) ∧
    (∀ extra ed, callExpand (strictCx F) ρ expand = .ok (extra, ed) → ed = [] →
      ∀ v ∈ extra, whollyKnown v = true) := by
  cases expand with
  | none =>
    constructor
    · intro o h; simp [callExpand] at h
    · intro extra ed h _
      simp only [callExpand, Except.ok.injEq, Prod.mk.injEq] at h
      rw [← h.1]; simp
  | some le =>
    have ih := ih le rfl
    simp only [callExpand]
    generalize eval (strictCx F) ρ le = eo at *
    obtain ⟨ev, ed⟩ := eo
    try simp only at ih ⊢
    by_cases he : hasErrors ed = true
    · simp only [he, if_true]
      constructor
      · intro o h; cases h; intro e; simp only at e; rw [e] at he; cases he
      · intro extra ed' h; cases h
    · have hed := hasErrors_false (by simpa using he)
      subst hed
      have hk := ih rfl
      have he' : hasErrors ([] : List Diag) = false := rfl
      simp only [he', Bool.false_eq_true, if_false]
      by_cases hn : ev.isNull = true
      · simp only [hn, if_true]
        constructor
        · intro o h
          repeat' split at h
          all_goals (cases h; simp)
        · intro extra ed' h
          repeat' split at h
          all_goals cases h
      · have hnd : (ev.typeOf == Ty.dyn) = false := by
          simpa using typeOf_ne_dyn (isKnown_of_whollyKnown hk) (by simpa using hn)
        simp only [hnd, Bool.false_eq_true, if_false, hn, isKnown_of_whollyKnown hk, Bool.not_true]
        constructor
        · intro o h
          split at h
          · cases h
          · cases h
          · cases h; simp
        · intro extra ed' h _
          have kit := items_known (sv := ev.unmark.1) (by simpa using hk)
          split at h
          all_goals first
            | (cases h; done)
            | skip
          all_goals
            simp only [Except.ok.injEq, Prod.mk.injEq] at h
            rw [← h.1]
            intro v hv
            obtain ⟨x, hx, rfl⟩ := List.mem_map.mp hv
            rw [whollyKnown_withFl]
            exact kit x (by simpa [splatItems] using hx)

theorem kiko_call (hF : SoundFuncs F) (ρ : Env) (fn : String) (args : List Expr) (expand : Option Expr)
    (iha : ∀ o ∈ evalEach (strictCx F) ρ args, o.2 = [] → whollyKnown o.1 = true)
    (ihe : ∀ le, expand = some le → (eval (strictCx F) ρ le).2 = [] → whollyKnown (eval (strictCx F) ρ le).1 = true)
    (h : (eval (strictCx F) ρ (.call fn args expand)).2 = []) :
    whollyKnown (eval (strictCx F) ρ (.call fn args expand)).1 = true := by
  rw [eval_call] at h ⊢
  simp only [strict_funcs] at h ⊢
  cases hf : F fn with
  | none => simp [hf, errOut] at h
  | some spec =>
    simp only [hf] at h ⊢
    obtain ⟨hx1, hx2⟩ := callExpand_known F ρ expand ihe
    cases hce : callExpand (strictCx F) ρ expand with
    | error o => simp only [hce] at h; exact absurd h (hx1 o hce)
    | ok p =>
      obtain ⟨extra, ed⟩ := p
      simp only [hce] at h ⊢
      unfold callBody at h ⊢
      simp only at h ⊢
      split at h
      · simp at h
      · split at h
        · simp at h
        · rename_i h1 h2
          simp only [h1, h2, if_false]
          generalize hca : convertArgs spec ((evalEach (strictCx F) ρ args).map (·.1) ++ extra) spec.params = ca at h ⊢
          obtain ⟨vals, cds⟩ := ca
          simp only at h ⊢
          split at h
          · rename_i he; simp only at h; rw [h] at he; cases he
          · rename_i he
            have hds := hasErrors_false (by simpa using he)
            simp only [he, if_false]
            simp only [List.append_eq_nil_iff] at hds
            obtain ⟨hed, hfm, hcds⟩ := hds
            have hargs : ∀ v ∈ (evalEach (strictCx F) ρ args).map (·.1) ++ extra, whollyKnown v = true := by
              intro v hv
              rcases List.mem_append.mp hv with hv | hv
              · obtain ⟨o, ho, rfl⟩ := List.mem_map.mp hv
                exact iha o ho (List.flatMap_eq_nil_iff.mp hfm o ho)
              · exact hx2 extra ed hce hed v hv
            have hvals : ∀ v ∈ vals, whollyKnown v = true := by
              have := convertArgs_known spec _ spec.params (by rw [hca]; exact hcds) hargs
              rw [hca] at this; exact this
            cases hcf : callFunc spec vals with
            | ok v =>
              simp only [hcf]
              exact callFunc_known spec (hF.known fn spec hf) vals v hvals hcf
            | error e => rw [hcf] at h; cases e <;> simp at h
end


theorem forShell_not_null (F : Cx) (ρ : Env) (kv vv : String) (co : Out) (cond : Option Expr)
    (step : ForSt → Val × Val → ForSt) (fin : ForSt → Val) (hfin : ∀ st, (fin st).isNull = false) :
    (forShell F ρ kv vv co cond step fin).1.isNull = false := by
  unfold forShell
  obtain ⟨cv, cd⟩ := co
  simp only
  repeat' split
  all_goals first | rfl | exact hfin _

theorem tupleForm_not_null (F : Cx) (ρ : Env) (t : Expr) (h : isTupleForm t = true) :
    (eval F ρ t).1.isNull = false := by
  cases t <;> simp [isTupleForm] at h
  case tuple es => rw [eval_tuple]; rfl
  case forTuple kv vv coll val cond =>
    rw [eval_forTuple']
    exact forShell_not_null _ _ _ _ _ _ _ _ (fun _ => rfl)

section
variable (F : Funcs) (hF : SoundFuncs F)
include hF

mutual
theorem kiko : ∀ (e : Expr) (ρ : Env), knownOk e = true → knownEnv ρ → (eval (strictCx F) ρ e).2 = [] →
    whollyKnown (eval (strictCx F) ρ e).1 = true
  | .lit v, ρ, ho, _, _ => by rw [eval_lit]; simpa [knownOk] using ho
  | .var x, ρ, _, hρ, h => kiko_var F ρ x hρ h
  | .getAttr e n, ρ, ho, hρ, h => by
    simp only [knownOk] at ho
    exact kiko_getAttr F ρ e n (kiko e ρ ho hρ) h
  | .index e k, ρ, ho, hρ, h => by
    simp only [knownOk, Bool.and_eq_true] at ho
    exact kiko_index F ρ e k (kiko e ρ ho.1 hρ) (kiko k ρ ho.2 hρ) h
  | .bin op l r, ρ, ho, hρ, h => by
    simp only [knownOk, Bool.and_eq_true] at ho
    exact kiko_bin F ρ op l r (kiko l ρ ho.1 hρ) (kiko r ρ ho.2 hρ) h
  | .un op e, ρ, ho, hρ, h => by
    simp only [knownOk] at ho
    exact kiko_un F ρ op e (kiko e ρ ho hρ) h
  | .cond c t f, ρ, ho, hρ, h => by
    simp only [knownOk, Bool.and_eq_true] at ho
    exact kiko_cond F ρ c t f (kiko c ρ ho.1.1 hρ) (kiko t ρ ho.1.2 hρ) (kiko f ρ ho.2 hρ) h
  | .tuple es, ρ, ho, hρ, h => by
    simp only [knownOk] at ho
    rw [eval_tuple] at h ⊢
    simpa [whollyKnown] using kiko_list es ρ ho hρ h
  | .object items, ρ, ho, hρ, h => by
    simp only [knownOk] at ho
    rw [eval_object] at h ⊢
    have hd : (evalItems (strictCx F) ρ items).1.diags = [] := by split at h <;> exact h
    obtain ⟨h1, h2⟩ := kiko_items items ρ ho hρ hd
    simp only [h1, Bool.not_true, Bool.false_eq_true, if_false, whollyKnown]
    exact wkFields_headD h2
  | .forTuple kv vv coll val none, ρ, ho, hρ, h => by
    simp only [knownOk, Bool.and_eq_true] at ho
    exact kiko_forTuple F ρ kv vv coll val none (kiko coll ρ ho.1.1 hρ) (fun ρ' => kiko val ρ' ho.1.2)
      (fun ce hce => by cases hce) hρ h
  | .forTuple kv vv coll val (some ce), ρ, ho, hρ, h => by
    simp only [knownOk, Bool.and_eq_true] at ho
    exact kiko_forTuple F ρ kv vv coll val (some ce) (kiko coll ρ ho.1.1 hρ) (fun ρ' => kiko val ρ' ho.1.2)
      (fun ce' hce => by cases hce; exact fun ρ' => kiko ce ρ' ho.2) hρ h
  | .forObject kv vv coll key val none g, ρ, ho, hρ, h => by
    simp only [knownOk, Bool.and_eq_true] at ho
    exact kiko_forObject F ρ kv vv coll key val none g (kiko coll ρ ho.1.1.1 hρ)
      (fun ρ' => kiko key ρ' ho.1.1.2) (fun ρ' => kiko val ρ' ho.1.2)
      (fun ce hce => by cases hce) hρ h
  | .forObject kv vv coll key val (some ce) g, ρ, ho, hρ, h => by
    simp only [knownOk, Bool.and_eq_true] at ho
    exact kiko_forObject F ρ kv vv coll key val (some ce) g (kiko coll ρ ho.1.1.1 hρ)
      (fun ρ' => kiko key ρ' ho.1.1.2) (fun ρ' => kiko val ρ' ho.1.2)
      (fun ce' hce => by cases hce; exact fun ρ' => kiko ce ρ' ho.2) hρ h
  | .splat anon src each, ρ, ho, hρ, h => by
    simp only [knownOk, Bool.and_eq_true] at ho
    exact kiko_splat F ρ anon src each (kiko src ρ ho.1 hρ) (fun ρ' => kiko each ρ' ho.2) hρ h
  | .template parts, ρ, ho, hρ, h => by
    simp only [knownOk] at ho
    exact kiko_template F ρ parts (kiko_each parts ρ ho hρ) h
  | .tjoin t, ρ, ho, hρ, h => by
    simp only [knownOk, Bool.and_eq_true] at ho
    exact kiko_tjoin F ρ t (kiko t ρ ho.2 hρ) (tupleForm_not_null _ ρ t ho.1) h
  | .call fn args none, ρ, ho, hρ, h => by
    simp only [knownOk, Bool.and_eq_true] at ho
    exact kiko_call F hF ρ fn args none (kiko_each args ρ ho.1 hρ) (fun le hle => by cases hle) h
  | .call fn args (some le), ρ, ho, hρ, h => by
    simp only [knownOk, Bool.and_eq_true] at ho
    exact kiko_call F hF ρ fn args (some le) (kiko_each args ρ ho.1 hρ)
      (fun le' hle => by cases hle; exact kiko le ρ ho.2 hρ) h
theorem kiko_list : ∀ (es : List Expr) (ρ : Env), knownOkList es = true → knownEnv ρ →
    (evalList (strictCx F) ρ es).2 = [] → whollyKnownList (evalList (strictCx F) ρ es).1 = true
  | [], _, _, _, _ => by simp [evalList, whollyKnownList]
  | e :: es, ρ, ho, hρ, h => by
    simp only [knownOkList, Bool.and_eq_true] at ho
    simp only [evalList, List.append_eq_nil_iff] at h ⊢
    simp only [whollyKnownList, Bool.and_eq_true]
    exact ⟨kiko e ρ ho.1 hρ h.1, kiko_list es ρ ho.2 hρ h.2⟩
theorem kiko_each : ∀ (es : List Expr) (ρ : Env), knownOkList es = true → knownEnv ρ →
    ∀ o ∈ evalEach (strictCx F) ρ es, o.2 = [] → whollyKnown o.1 = true
  | [], _, _, _ => by simp [evalEach]
  | e :: es, ρ, ho, hρ => by
    simp only [knownOkList, Bool.and_eq_true] at ho
    intro o hmem
    simp only [evalEach, List.mem_cons] at hmem
    rcases hmem with rfl | hmem
    · exact kiko e ρ ho.1 hρ
    · exact kiko_each es ρ ho.2 hρ o hmem
theorem kiko_items : ∀ (items : List (Expr × Expr)) (ρ : Env), knownOkItems items = true → knownEnv ρ →
    (evalItems (strictCx F) ρ items).1.diags = [] → (evalItems (strictCx F) ρ items).2 = true ∧
      GInv (fun v => whollyKnown v = true) (evalItems (strictCx F) ρ items).1.kvs
  | [], _, _, _, _ => by simp [evalItems]; exact GInv_nil _
  | (ke, ve) :: rest, ρ, ho, hρ, h => by
    simp only [knownOkItems, Bool.and_eq_true] at ho
    exact kiko_items_step F ρ ke ve rest (kiko ke ρ ho.1.1 hρ) (kiko ve ρ ho.1.2 hρ)
      (kiko_items rest ρ ho.2 hρ) h
end
end

end HclModel.Proofs.Unk
