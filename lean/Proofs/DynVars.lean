import Proofs.DynWf
/-!
`expandVars` reports enough variables to perform the expansion: two scopes that agree on them give the same
`shapeX`.
-/
namespace HclModel.Dyn.Proofs
open HclModel HclModel.Body HclModel.Dyn HclModel.Body.Proofs

/-! ## scopes -/

theorem lookupKey_append {α : Type} (x : String) (a b : List (String × α)) :
    lookupKey x (a ++ b) = match lookupKey x a with | some v => some v | none => lookupKey x b := by
  induction a with
  | nil => rfl
  | cons p rest ih =>
    obtain ⟨k, v⟩ := p
    simp only [List.cons_append, lookupKey]
    split
    · rfl
    · exact ih

theorem lookupKey_ne_none_of_mem {α : Type} (x : String) (a : List (String × α)) (h : x ∈ a.map (·.1)) :
    lookupKey x a ≠ none := by
  induction a with
  | nil => simp at h
  | cons p rest ih =>
    obtain ⟨k, v⟩ := p
    simp only [lookupKey]
    split
    · simp
    · rename_i hne
      simp only [List.map_cons, List.mem_cons] at h
      rcases h with h | h
      · simp [h] at hne
      · exact ih h

theorem iterEnv_names (its : Iters) : (iterEnv its).map (·.1) = its.map (·.1) := by
  simp [iterEnv, Function.comp_def]

/-- scopes that agree outside the iterator names agree once the iterators are bound -/
theorem agree_iter (its : Iters) (S : List String) (ρf σf : Env)
    (h : ∀ x ∈ S, x ∉ its.map (·.1) → ρf.lookup x = σf.lookup x) :
    AgreeOn S (iterEnv its ++ ρf) (iterEnv its ++ σf) := by
  intro x hx
  simp only [Env.lookup, lookupKey_append]
  cases hl : lookupKey x (iterEnv its) with
  | some v => rfl
  | none =>
    apply h x hx
    intro hm
    exact lookupKey_ne_none_of_mem x (iterEnv its) (by rw [iterEnv_names]; exact hm) hl

/-! ## `expandVars`, block by block -/

/-- the variables one source block contributes -/
def vSeg (fuel : Nat) (st : STree) (inherited : List String) : SBlock → List String
  | .static t ls body =>
    if (st.schema.blocks.any fun bs => bs.type == t && bs.labelCount == ls.length) then
      match st.child t with
      | some cst => expandVars fuel cst inherited body
      | none => []
    else []
  | .dyn t fe itn labels content =>
    if (st.schema.blocks.any (·.type == t)) then
      (fv fe).filter (fun x => !inherited.contains x) ++
      ((labels.getD []).map fv).flatten.filter (fun x => x != itn.getD t && !inherited.contains x) ++
      (match st.child t with
        | some cst => expandVars fuel cst (itn.getD t :: inherited) content
        | none => [])
    else []

theorem expandVars_succ (fuel : Nat) (st : STree) (inherited : List String) (attrs : List (String × Expr))
    (blocks : List SBlock) :
    expandVars (fuel + 1) st inherited (.mk attrs blocks) = (blocks.map (vSeg fuel st inherited)).flatten := by
  rw [expandVars]
  congr 1
  apply List.map_congr_left
  intro blk _
  cases blk <;> rfl

theorem mem_expandVars_succ {fuel : Nat} {st : STree} {inherited : List String} {src : SBody} {blk : SBlock}
    {x : String} (hblk : blk ∈ src.blocks) (hx : x ∈ vSeg fuel st inherited blk) :
    x ∈ expandVars (fuel + 1) st inherited src := by
  cases src with
  | mk attrs blocks =>
    rw [expandVars_succ, List.mem_flatten]
    exact ⟨_, List.mem_map.2 ⟨blk, hblk, rfl⟩, hx⟩

/-! ## one dynamic block in two scopes -/

section frame
variable (ev : Env → Expr → Out) (hev : ∀ e ρ σ, AgreeOn (fv e) ρ σ → ev ρ e = ev σ e)
include hev

theorem evalLabels_agree (ρ σ : Env) (es : List Expr) (h : ∀ e ∈ es, AgreeOn (fv e) ρ σ) :
    evalLabels ev ρ es = evalLabels ev σ es := by
  induction es with
  | nil => rfl
  | cons e rest ih =>
    unfold evalLabels
    rw [hev e ρ σ (h e (by simp)), ih (fun e' he' => h e' (by simp [he']))]

theorem genBlocks_agree (ρf σf : Env) (its : Iters) (name : String) (m : Fl) (lexprs : List Expr)
    (type : String) (content : SBody) (unknown : Option Fl) (kvs : List (Val × Val))
    (h : ∀ e ∈ lexprs, ∀ x ∈ fv e, x ≠ name → x ∉ its.map (·.1) → ρf.lookup x = σf.lookup x) :
    (genBlocks ev ρf its name m lexprs type content unknown kvs).1 =
      (genBlocks ev σf its name m lexprs type content unknown kvs).1 := by
  induction kvs with
  | nil => rfl
  | cons kv rest ih =>
    obtain ⟨k, v⟩ := kv
    rw [genBlocks_cons_fst, genBlocks_cons_fst, ih]
    rw [evalLabels_agree ev hev (iterEnv ((name, k, v) :: its) ++ ρf) (iterEnv ((name, k, v) :: its) ++ σf) lexprs]
    intro e he
    apply agree_iter
    intro x hx hn
    simp only [List.map_cons, List.mem_cons, not_or] at hn
    exact h e he x hx hn.1 hn.2

theorem decodeSpec_agree (ρf σf : Env) (its : Iters) (lc : Nat) (t : String) (fe : Expr)
    (itn : Option String) (labels : Option (List Expr))
    (h : ∀ x ∈ fv fe, x ∉ its.map (·.1) → ρf.lookup x = σf.lookup x) :
    decodeSpec ev ρf its lc t fe itn labels = decodeSpec ev σf its lc t fe itn labels := by
  unfold decodeSpec
  rw [hev fe (iterEnv its ++ ρf) (iterEnv its ++ σf) (agree_iter its (fv fe) ρf σf h)]

end frame

theorem decodeSpec_name (ev : Env → Expr → Out) (ρf : Env) (its : Iters) (lc : Nat) (t : String) (fe : Expr)
    (itn : Option String) (labels : Option (List Expr)) :
    (∀ name m lexprs kvs, decodeSpec ev ρf its lc t fe itn labels = .known name m lexprs kvs →
      name = itn.getD t ∧ lexprs = labels.getD []) ∧
    (∀ name m lexprs, decodeSpec ev ρf its lc t fe itn labels = .unknown name m lexprs →
      name = itn.getD t ∧ lexprs = labels.getD []) := by
  unfold decodeSpec
  constructor
  · intro name m lexprs kvs h
    repeat' split at h
    all_goals first | (simp only [SpecRes.known.injEq] at h; exact ⟨h.1.symm, h.2.2.1.symm⟩) | simp at h
  · intro name m lexprs h
    repeat' split at h
    all_goals first | (simp only [SpecRes.unknown.injEq] at h; exact ⟨h.1.symm, h.2.2.symm⟩) | simp at h

/-- where the blocks of a dynamic block come from -/
theorem expandDyn_mem (ev : Env → Expr → Out) (ρf : Env) (its : Iters) (lc : Nat) (t : String) (fe : Expr)
    (itn : Option String) (labels : Option (List Expr)) (content : SBody) (xb : XBlock)
    (h : xb ∈ (expandDyn ev ρf its lc t fe itn labels content).1) :
    xb.type = t ∧ xb.body.src = content ∧ xb.body.hiddenAttrs = [] ∧ xb.body.hiddenBlocks = [] ∧
    ∃ k v, xb.body.its = (itn.getD t, k, v) :: its := by
  unfold expandDyn at h
  have hn := decodeSpec_name ev ρf its lc t fe itn labels
  split at h
  · simp at h
  · rename_i name m lexprs kvs hd
    obtain ⟨h1, _, h3, _, _, h6, h7, k, v, _, h8⟩ := genBlocks_mem _ _ _ _ _ _ _ _ _ _ _ h
    exact ⟨h1, h3, h6, h7, k, v, by rw [h8, (hn.1 _ _ _ _ hd).1]⟩
  · rename_i name m lexprs hd
    obtain ⟨h1, _, h3, _, _, h6, h7, k, v, _, h8⟩ := genBlocks_mem _ _ _ _ _ _ _ _ _ _ _ h
    exact ⟨h1, h3, h6, h7, k, v, by rw [h8, (hn.2 _ _ _ hd).1]⟩

section frame2
variable (ev : Env → Expr → Out) (hev : ∀ e ρ σ, AgreeOn (fv e) ρ σ → ev ρ e = ev σ e)
include hev

theorem expandDyn_agree (ρf σf : Env) (its : Iters) (lc : Nat) (t : String) (fe : Expr)
    (itn : Option String) (labels : Option (List Expr)) (content : SBody)
    (h1 : ∀ x ∈ fv fe, x ∉ its.map (·.1) → ρf.lookup x = σf.lookup x)
    (h2 : ∀ e ∈ labels.getD [], ∀ x ∈ fv e, x ≠ itn.getD t → x ∉ its.map (·.1) → ρf.lookup x = σf.lookup x) :
    (expandDyn ev ρf its lc t fe itn labels content).1 = (expandDyn ev σf its lc t fe itn labels content).1 := by
  unfold expandDyn
  rw [← decodeSpec_agree ev hev ρf σf its lc t fe itn labels h1]
  have hn := decodeSpec_name ev ρf its lc t fe itn labels
  split
  · rfl
  · rename_i name m lexprs kvs hd
    obtain ⟨rfl, rfl⟩ := hn.1 _ _ _ _ hd
    exact genBlocks_agree ev hev ρf σf its _ m _ t content none kvs h2
  · rename_i name m lexprs hd
    obtain ⟨rfl, rfl⟩ := hn.2 _ _ _ hd
    exact genBlocks_agree ev hev ρf σf its _ m _ t content (some m) _ h2

/-- one source block expands identically in two scopes that agree on the variables it contributes -/
theorem xSeg_agree (ρf σf : Env) (its : Iters) (st : STree) (fuel : Nat) (blk : SBlock)
    (h : AgreeOn (vSeg fuel st (its.map (·.1)) blk) ρf σf) :
    xSeg ev ρf its [] st.schema blk = xSeg ev σf its [] st.schema blk := by
  cases blk with
  | static t ls body => rfl
  | dyn t fe itn labels content =>
    simp only [xSeg, List.any_nil, Bool.false_eq_true, if_false]
    cases hf : st.schema.blocks.find? (fun b => b.type == t) with
    | none => rfl
    | some bs =>
      have hany : st.schema.blocks.any (fun b => b.type == t) = true := by
        rw [List.any_eq_true]
        exact ⟨bs, List.mem_of_find?_eq_some hf, List.find?_some hf⟩
      simp only [vSeg, hany, if_true] at h
      simp only
      apply expandDyn_agree ev hev
      · intro x hx hn
        apply h x
        simp only [List.mem_append, List.mem_filter]
        exact Or.inl (Or.inl ⟨hx, by simpa using hn⟩)
      · intro e he x hx hne hn
        apply h x
        simp only [List.mem_append, List.mem_filter, List.mem_flatten, List.mem_map]
        refine Or.inl (Or.inr ⟨⟨fv e, ⟨e, he, rfl⟩, hx⟩, ?_⟩)
        simpa using ⟨hne, hn⟩

end frame2

/-- where the blocks of one source block come from, and which variables their own expansion needs -/
theorem xSeg_mem (ev : Env → Expr → Out) (ρf : Env) (its : Iters) (st : STree) (hst : st.ok = true) (fuel : Nat)
    (blk : SBlock) (hblk : BlockOk blk) (xb : XBlock) (h : xb ∈ xSeg ev ρf its [] st.schema blk) :
    xb.body.src.ok = true ∧ xb.body.hiddenBlocks = [] ∧
    ∀ cst, st.child xb.type = some cst →
      ∀ x ∈ expandVars fuel cst (xb.body.its.map (·.1)) xb.body.src, x ∈ vSeg fuel st (its.map (·.1)) blk := by
  cases blk with
  | static t ls body =>
    simp only [xSeg, List.any_nil, Bool.false_eq_true, if_false] at h
    split at h
    · rename_i bs hw
      split at h
      · rename_i hl
        simp only [List.mem_singleton] at h
        subst h
        refine ⟨hblk.2, rfl, ?_⟩
        intro cst hc x hx
        have hany : (st.schema.blocks.any fun b => b.type == t && b.labelCount == ls.length) = true := by
          rw [List.any_eq_true]
          obtain ⟨hm, ht⟩ := wanted_some hw
          exact ⟨bs, hm, by simp [ht, hl]⟩
        simp only [vSeg, hany, if_true]
        simp only at hc
        rw [hc]
        exact hx
      · simp at h
    · simp at h
  | dyn t fe itn labels content =>
    simp only [xSeg, List.any_nil, Bool.false_eq_true, if_false] at h
    split at h
    · simp at h
    · rename_i bs hf
      obtain ⟨h1, h2, _, h4, k, v, h5⟩ := expandDyn_mem _ _ _ _ _ _ _ _ _ _ h
      refine ⟨by rw [h2]; exact hblk.2, h4, ?_⟩
      intro cst hc x hx
      have hany : st.schema.blocks.any (fun b => b.type == t) = true := by
        rw [List.any_eq_true]
        exact ⟨bs, List.mem_of_find?_eq_some hf, List.find?_some hf⟩
      simp only [vSeg, hany, if_true]
      rw [h1] at hc
      rw [hc]
      rw [h2, h5] at hx
      simp only [List.mem_append]
      exact Or.inr hx

/-! ## a level, with the `unknownBody` wrapper -/

/-- `unknownBody.fixupContent` on one block -/
def fixB : Option Fl → XBlock → XBlock
  | none, blk => blk
  | some um, blk => { blk with body := { blk.body with unknown := some um } }

theorem contentCore_blocks_gen (ev : Env → Expr → Out) (ρf : Env) (b : XBody) (s : Schema) (pm : Bool)
    (hdyn : ∀ bs ∈ b.hiddenBlocks, bs.type ≠ "dynamic") (hst : StaticOk b.src.blocks) :
    (b.contentCore ev ρf s pm).1.blocks =
      (b.src.blocks.flatMap (xSeg ev ρf b.its b.hiddenBlocks s)).map (fixB b.unknown) := by
  cases hu : b.unknown with
  | none =>
    rw [contentCore_blocks ev ρf b s pm hu hdyn hst]
    simp [fixB]
  | some um =>
    rw [contentCore_unknown' ev ρf b um s pm hu,
      show (fixupUnknown um ({ b with unknown := none }.contentCore ev ρf s pm).1).blocks =
        ({ b with unknown := none }.contentCore ev ρf s pm).1.blocks.map (fixB (some um)) from rfl,
      contentCore_blocks ev ρf { b with unknown := none } s pm rfl hdyn hst]

theorem filterMap_congr' {α β : Type} (f g : α → Option β) (l : List α) (h : ∀ a ∈ l, f a = g a) :
    l.filterMap f = l.filterMap g := by
  induction l with
  | nil => rfl
  | cons a l ih =>
    rw [List.filterMap_cons, List.filterMap_cons, h a (by simp), ih (fun a' ha' => h a' (by simp [ha']))]

/-! ## the theorem -/

def gX (F : STree → XBody → Shape) (st : STree) (blk : XBlock) : Option (String × List String × Bool × Shape) :=
  (st.child blk.type).map fun cst => (blk.type, blk.labels, blk.body.unknown.isSome, F cst blk.body)

theorem shapeX_succ (ev : Env → Expr → Out) (ρf : Env) (n : Nat) (st : STree) (b : XBody) :
    shapeX ev ρf (n + 1) st b = .mk ((b.content ev ρf st.schema).1.blocks.filterMap (gX (shapeX ev ρf n) st)) := rfl

theorem expand_vars_sufficient_gen (ev : Env → Expr → Out)
    (hev : ∀ e ρ σ, AgreeOn (fv e) ρ σ → ev ρ e = ev σ e) (ρf σf : Env) (n : Nat) :
    ∀ (st : STree) (b : XBody), st.ok = true → b.src.ok = true → b.hiddenBlocks = [] →
      AgreeOn (expandVars n st (b.its.map (·.1)) b.src) ρf σf →
      shapeX ev ρf n st b = shapeX ev σf n st b := by
  induction n with
  | zero => intros; rfl
  | succ n ih =>
    intro st b hst hsrc hhid h
    have hb : okAll b.src.blocks = true := SBody.ok_blocks hsrc
    have hb' := (okAll_iff _).1 hb
    have hsok := staticOk_of_okAll hb
    rw [shapeX_succ, shapeX_succ]
    simp only [XBody.content]
    rw [contentCore_blocks_gen ev ρf b st.schema false (by simp [hhid]) hsok,
      contentCore_blocks_gen ev σf b st.schema false (by simp [hhid]) hsok, hhid]
    -- the same blocks at this level
    have hlev : b.src.blocks.flatMap (xSeg ev ρf b.its [] st.schema) =
        b.src.blocks.flatMap (xSeg ev σf b.its [] st.schema) := by
      apply List.flatMap_congr
      intro blk hblk
      apply xSeg_agree ev hev ρf σf b.its st n blk
      intro x hx
      exact h x (mem_expandVars_succ hblk hx)
    rw [← hlev]
    congr 1
    apply filterMap_congr'
    intro xb hxb
    obtain ⟨xb0, hxb0, rfl⟩ := List.mem_map.1 hxb
    obtain ⟨blk, hblk, hseg⟩ := List.mem_flatMap.1 hxb0
    obtain ⟨h1, h2, h3⟩ := xSeg_mem ev ρf b.its st hst n blk (hb' blk hblk) xb0 hseg
    have hty : (fixB b.unknown xb0).type = xb0.type := by cases b.unknown <;> rfl
    have hsrc' : (fixB b.unknown xb0).body.src = xb0.body.src := by cases b.unknown <;> rfl
    have hits' : (fixB b.unknown xb0).body.its = xb0.body.its := by cases b.unknown <;> rfl
    have hhb' : (fixB b.unknown xb0).body.hiddenBlocks = xb0.body.hiddenBlocks := by cases b.unknown <;> rfl
    simp only [gX, hty]
    cases hc : st.child xb0.type with
    | none => rfl
    | some cst =>
      simp only [Option.map_some]
      rw [ih cst (fixB b.unknown xb0).body (STree.ok_child hst hc) (by rw [hsrc']; exact h1) (by rw [hhb']; exact h2)]
      rw [hsrc', hits']
      intro x hx
      exact h x (mem_expandVars_succ hblk (h3 cst hc x hx))

theorem expand_vars_sufficient (ev : Env → Expr → Out)
    (hev : ∀ e ρ σ, AgreeOn (fv e) ρ σ → ev ρ e = ev σ e)
    (st : STree) (src : SBody) (ρf σf : Env) (n : Nat) (hst : st.ok = true) (hsrc : src.ok = true)
    (h : AgreeOn (expandVars n st [] src) ρf σf) :
    shapeX ev ρf n st { src := src } = shapeX ev σf n st { src := src } :=
  expand_vars_sufficient_gen ev hev ρf σf n st { src := src } hst hsrc rfl h

end HclModel.Dyn.Proofs
