import Proofs.DynWf
/-!
`expandVars` reports enough variables to perform the expansion: two scopes that agree on them give the same
`shapeX`.
-/
namespace HclModel.Dyn.Proofs
open HclModel HclModel.Body HclModel.Dyn HclModel.Body.Proofs

/-! ## scopes -/

theorem lookupKey_append {α : Type} (x : String) (a b : List (String × α)) :
    lookupKey x (a ++ b) = match lookupKey x a with | some v => some v | none => lookupKey x b := by
  induction a with
  | nil => rfl
  | cons p rest ih =>
    obtain ⟨k, v⟩ := p
    simp only [List.cons_append, lookupKey]
    split
    · rfl
    · exact ih

theorem lookupKey_ne_none_of_mem {α : Type} (x : String) (a : List (String × α)) (h : x ∈ a.map (·.1)) :
    lookupKey x a ≠ none := by
  induction a with
  | nil => simp at h
  | cons p rest ih =>
    obtain ⟨k, v⟩ := p
    simp only [lookupKey]
    split
    · simp
    · rename_i hne
      simp only [List.map_cons, List.mem_cons] at h
      rcases h with h | h
      · simp [h] at hne
      · exact ih h

theorem iterEnv_names (its : Iters) : (iterEnv its).map (·.1) = its.map (·.1) := by
  simp [iterEnv, Function.comp_def]

/-- scopes that agree outside the iterator names agree once the iterators are bound -/
theorem agree_iter (its : Iters) (S : List String) (ρf σf : Env)
    (h : ∀ x ∈ S, x ∉ its.map (·.1) → ρf.lookup x = σf.lookup x) :
    AgreeOn S (iterEnv its ++ ρf) (iterEnv its ++ σf) := by
  intro x hx
  simp only [Env.lookup, lookupKey_append]
  cases hl : lookupKey x (iterEnv its) with
  | some v => rfl
  | none =>
    apply h x hx
    intro hm
    exact lookupKey_ne_none_of_mem x (iterEnv its) (by rw [iterEnv_names]; exact hm) hl

/-! ## `expandVars`, block by block -/

/-- the variables one source block contributes -/
def vSeg (fuel : Nat) (st : STree) (inherited : List String) (blk : SBlock) : List String :=
  expandVars (fuel + 1) st inherited (.mk [] [blk])

theorem expandVars_succ (fuel : Nat) (st : STree) (inherited : List String) (attrs : List (String × Expr))
    (blocks : List SBlock) :
    expandVars (fuel + 1) st inherited (.mk attrs blocks) = (blocks.map (vSeg fuel st inherited)).flatten := by
  rw [expandVars]
  congr 1
  apply List.map_congr_left
  intro blk _
  simp only [vSeg, expandVars, List.map_cons, List.map_nil, List.flatten_cons, List.flatten_nil, List.append_nil]

theorem vSeg_static {fuel : Nat} {st : STree} {inh : List String} {t : String} {ls : List String} {body : SBody}
    {cst : STree}
    (hany : (st.schema.blocks.any fun bs => bs.type == t && bs.labelCount == ls.length) = true)
    (hc : st.child t = some cst) :
    vSeg fuel st inh (.static t ls body) = expandVars fuel cst inh body := by
  simp only [vSeg, expandVars, List.map_cons, List.map_nil, List.flatten_cons, List.flatten_nil, List.append_nil,
    hany, if_true, hc]

theorem mem_vSeg_dyn {fuel : Nat} {st : STree} {inh : List String} {t : String} {fe : Expr} {itn : Option String}
    {labels : Option (List Expr)} {content : SBody} (x : String) :
    (x ∈ fv fe → x ∉ inh → x ∈ vSeg fuel st inh (.dyn t fe itn labels content)) ∧
    (∀ e ∈ labels.getD [], x ∈ fv e → x ≠ itn.getD t → x ∉ inh → x ∈ vSeg fuel st inh (.dyn t fe itn labels content)) ∧
    (∀ cst, st.child t = some cst → x ∈ expandVars fuel cst (itn.getD t :: inh) content →
      x ∈ vSeg fuel st inh (.dyn t fe itn labels content)) := by
  have e : vSeg fuel st inh (.dyn t fe itn labels content) =
      (fv fe).filter (fun x => !inh.contains x) ++
      ((labels.getD []).map fv).flatten.filter (fun x => x != itn.getD t && !inh.contains x) ++
      (match st.child t with
        | some cst => expandVars fuel cst (itn.getD t :: inh) content
        | none => []) := by
    simp only [vSeg, expandVars, List.map_cons, List.map_nil, List.flatten_cons, List.flatten_nil, List.append_nil] <;> rfl
  rw [e]
  simp only [List.mem_append, List.mem_filter, List.mem_flatten, List.mem_map, Bool.and_eq_true, bne_iff_ne, ne_eq,
    Bool.not_eq_true', List.contains_eq_mem, decide_eq_false_iff_not]
  refine ⟨?_, ?_, ?_⟩
  · intro h1 h2
    exact Or.inl (Or.inl ⟨h1, h2⟩)
  · intro e he h1 h2 h3
    exact Or.inl (Or.inr ⟨⟨_, ⟨e, he, rfl⟩, h1⟩, h2, h3⟩)
  · intro cst hc h1
    rw [hc]
    exact Or.inr h1
theorem mem_expandVars_succ {fuel : Nat} {st : STree} {inherited : List String} {src : SBody} {blk : SBlock}
    {x : String} (hblk : blk ∈ src.blocks) (hx : x ∈ vSeg fuel st inherited blk) :
    x ∈ expandVars (fuel + 1) st inherited src := by
  cases src with
  | mk attrs blocks =>
    rw [expandVars_succ, List.mem_flatten]
    exact ⟨_, List.mem_map.2 ⟨blk, hblk, rfl⟩, hx⟩

/-! ## one dynamic block in two scopes -/

section frame
variable (ev : Env → Expr → Out) (hev : ∀ e ρ σ, AgreeOn (fv e) ρ σ → ev ρ e = ev σ e)
include hev

theorem evalLabels_agree (ρ σ : Env) (es : List Expr) (h : ∀ e ∈ es, AgreeOn (fv e) ρ σ) :
    evalLabels ev ρ es = evalLabels ev σ es := by
  induction es with
  | nil => rfl
  | cons e rest ih =>
    unfold evalLabels
    rw [hev e ρ σ (h e (by simp)), ih (fun e' he' => h e' (by simp [he']))]

theorem genBlocks_agree (ρf σf : Env) (its : Iters) (name : String) (m : Fl) (lexprs : List Expr)
    (type : String) (content : SBody) (unknown : Option Fl) (kvs : List (Val × Val))
    (h : ∀ e ∈ lexprs, ∀ x ∈ fv e, x ≠ name → x ∉ its.map (·.1) → ρf.lookup x = σf.lookup x) :
    (genBlocks ev ρf its name m lexprs type content unknown kvs).1 =
      (genBlocks ev σf its name m lexprs type content unknown kvs).1 := by
  induction kvs with
  | nil => rfl
  | cons kv rest ih =>
    obtain ⟨k, v⟩ := kv
    rw [genBlocks_cons_fst, genBlocks_cons_fst, ih]
    rw [evalLabels_agree ev hev (iterEnv ((name, k, v) :: its) ++ ρf) (iterEnv ((name, k, v) :: its) ++ σf) lexprs]
    intro e he
    apply agree_iter
    intro x hx hn
    simp only [List.map_cons, List.mem_cons, not_or] at hn
    exact h e he x hx hn.1 hn.2

theorem decodeSpec_agree (ρf σf : Env) (its : Iters) (lc : Nat) (t : String) (fe : Expr)
    (itn : Option String) (labels : Option (List Expr))
    (h : ∀ x ∈ fv fe, x ∉ its.map (·.1) → ρf.lookup x = σf.lookup x) :
    decodeSpec ev ρf its lc t fe itn labels = decodeSpec ev σf its lc t fe itn labels := by
  unfold decodeSpec
  rw [hev fe (iterEnv its ++ ρf) (iterEnv its ++ σf) (agree_iter its (fv fe) ρf σf h)]

end frame

def specInfo : SpecRes → Option (String × List Expr)
  | .err _ => none
  | .known n _ l _ => some (n, l)
  | .unknown n _ l => some (n, l)

theorem decodeSpec_info (ev : Env → Expr → Out) (ρf : Env) (its : Iters) (lc : Nat) (t : String) (fe : Expr)
    (itn : Option String) (labels : Option (List Expr)) :
    specInfo (decodeSpec ev ρf its lc t fe itn labels) = none ∨
    specInfo (decodeSpec ev ρf its lc t fe itn labels) = some (itn.getD t, labels.getD []) := by
  unfold decodeSpec
  split
  · left; rfl
  · split
    · left; rfl
    · simp only
      repeat' split
      all_goals first | (left; rfl) | (right; rfl)

theorem decodeSpec_name (ev : Env → Expr → Out) (ρf : Env) (its : Iters) (lc : Nat) (t : String) (fe : Expr)
    (itn : Option String) (labels : Option (List Expr)) :
    (∀ name m lexprs kvs, decodeSpec ev ρf its lc t fe itn labels = .known name m lexprs kvs →
      name = itn.getD t ∧ lexprs = labels.getD []) ∧
    (∀ name m lexprs, decodeSpec ev ρf its lc t fe itn labels = .unknown name m lexprs →
      name = itn.getD t ∧ lexprs = labels.getD []) := by
  have h := decodeSpec_info ev ρf its lc t fe itn labels
  constructor
  · intro name m lexprs kvs hd
    rw [hd] at h
    simpa [specInfo] using h
  · intro name m lexprs hd
    rw [hd] at h
    simpa [specInfo] using h

/-- where the blocks of a dynamic block come from -/
theorem expandDyn_mem (ev : Env → Expr → Out) (ρf : Env) (its : Iters) (lc : Nat) (t : String) (fe : Expr)
    (itn : Option String) (labels : Option (List Expr)) (content : SBody) (xb : XBlock)
    (h : xb ∈ (expandDyn ev ρf its lc t fe itn labels content).1) :
    xb.type = t ∧ xb.body.src = content ∧ xb.body.hiddenAttrs = [] ∧ xb.body.hiddenBlocks = [] ∧
    ∃ k v, xb.body.its = (itn.getD t, k, v) :: its := by
  unfold expandDyn at h
  have hn := decodeSpec_name ev ρf its lc t fe itn labels
  split at h
  · simp at h
  · rename_i name m lexprs kvs hd
    obtain ⟨h1, _, h3, _, _, h6, h7, k, v, _, h8⟩ := genBlocks_mem _ _ _ _ _ _ _ _ _ _ _ h
    exact ⟨h1, h3, h6, h7, k, v, by rw [h8, (hn.1 _ _ _ _ hd).1]⟩
  · rename_i name m lexprs hd
    obtain ⟨h1, _, h3, _, _, h6, h7, k, v, _, h8⟩ := genBlocks_mem _ _ _ _ _ _ _ _ _ _ _ h
    exact ⟨h1, h3, h6, h7, k, v, by rw [h8, (hn.2 _ _ _ hd).1]⟩

section frame2
variable (ev : Env → Expr → Out) (hev : ∀ e ρ σ, AgreeOn (fv e) ρ σ → ev ρ e = ev σ e)
include hev

theorem expandDyn_agree (ρf σf : Env) (its : Iters) (lc : Nat) (t : String) (fe : Expr)
    (itn : Option String) (labels : Option (List Expr)) (content : SBody)
    (h1 : ∀ x ∈ fv fe, x ∉ its.map (·.1) → ρf.lookup x = σf.lookup x)
    (h2 : ∀ e ∈ labels.getD [], ∀ x ∈ fv e, x ≠ itn.getD t → x ∉ its.map (·.1) → ρf.lookup x = σf.lookup x) :
    (expandDyn ev ρf its lc t fe itn labels content).1 = (expandDyn ev σf its lc t fe itn labels content).1 := by
  unfold expandDyn
  rw [← decodeSpec_agree ev hev ρf σf its lc t fe itn labels h1]
  have hn := decodeSpec_name ev ρf its lc t fe itn labels
  split
  · rfl
  · rename_i name m lexprs kvs hd
    obtain ⟨rfl, rfl⟩ := hn.1 _ _ _ _ hd
    exact genBlocks_agree ev hev ρf σf its _ m _ t content none kvs h2
  · rename_i name m lexprs hd
    obtain ⟨rfl, rfl⟩ := hn.2 _ _ _ hd
    exact genBlocks_agree ev hev ρf σf its _ m _ t content (some m) _ h2

/-- one source block expands identically in two scopes that agree on the variables it contributes -/
theorem xSeg_agree (ρf σf : Env) (its : Iters) (st : STree) (fuel : Nat) (blk : SBlock)
    (h : AgreeOn (vSeg fuel st (its.map (·.1)) blk) ρf σf) :
    xSeg ev ρf its [] st.schema blk = xSeg ev σf its [] st.schema blk := by
  cases blk with
  | static t ls body => rfl
  | dyn t fe itn labels content =>
    simp only [xSeg, List.any_nil, Bool.false_eq_true, if_false]
    cases hf : st.schema.blocks.find? (fun b => b.type == t) with
    | none => rfl
    | some bs =>
      simp only
      apply expandDyn_agree ev hev
      · intro x hx hn
        exact h x ((mem_vSeg_dyn x).1 hx hn)
      · intro e he x hx hne hn
        exact h x ((mem_vSeg_dyn x).2.1 e he hx hne hn)

end frame2

/-- where the blocks of one source block come from, and which variables their own expansion needs -/
theorem xSeg_mem (ev : Env → Expr → Out) (ρf : Env) (its : Iters) (st : STree) (fuel : Nat)
    (blk : SBlock) (hblk : BlockOk blk) (xb : XBlock) (h : xb ∈ xSeg ev ρf its [] st.schema blk) :
    xb.body.src.ok = true ∧ xb.body.hiddenBlocks = [] ∧
    ∀ cst, st.child xb.type = some cst →
      ∀ x ∈ expandVars fuel cst (xb.body.its.map (·.1)) xb.body.src, x ∈ vSeg fuel st (its.map (·.1)) blk := by
  cases blk with
  | static t ls body =>
    simp only [xSeg, List.any_nil, Bool.false_eq_true, if_false] at h
    split at h
    · rename_i bs hw
      split at h
      · rename_i hl
        simp only [List.mem_singleton] at h
        subst h
        refine ⟨hblk.2, rfl, ?_⟩
        intro cst hc x hx
        have hany : (st.schema.blocks.any fun b => b.type == t && b.labelCount == ls.length) = true := by
          rw [List.any_eq_true]
          obtain ⟨hm, ht⟩ := wanted_some hw
          exact ⟨bs, hm, by simp [ht, hl]⟩
        simp only at hc
        rw [vSeg_static hany hc]
        exact hx
      · simp at h
    · simp at h
  | dyn t fe itn labels content =>
    simp only [xSeg, List.any_nil, Bool.false_eq_true, if_false] at h
    split at h
    · simp at h
    · rename_i bs hf
      obtain ⟨h1, h2, _, h4, k, v, h5⟩ := expandDyn_mem _ _ _ _ _ _ _ _ _ _ h
      refine ⟨by rw [h2]; exact hblk.2, h4, ?_⟩
      intro cst hc x hx
      rw [h1] at hc
      rw [h2, h5] at hx
      exact (mem_vSeg_dyn x).2.2 cst hc hx

/-! ## a level, with the `unknownBody` wrapper -/

/-- `unknownBody.fixupContent` on one block -/
def fixB : Option Fl → XBlock → XBlock
  | none, blk => blk
  | some um, blk => { blk with body := { blk.body with unknown := some um } }

theorem fixB_none : fixB none = id := by funext blk; rfl

theorem contentCore_blocks_gen (ev : Env → Expr → Out) (ρf : Env) (b : XBody) (s : Schema) (pm : Bool)
    (hdyn : ∀ bs ∈ b.hiddenBlocks, bs.type ≠ "dynamic") (hst : StaticOk b.src.blocks) :
    (b.contentCore ev ρf s pm).1.blocks =
      (b.src.blocks.flatMap (xSeg ev ρf b.its b.hiddenBlocks s)).map (fixB b.unknown) := by
  cases hu : b.unknown with
  | none =>
    rw [contentCore_blocks ev ρf b s pm hu hdyn hst, fixB_none, List.map_id]
  | some um =>
    rw [contentCore_unknown' ev ρf b um s pm hu]
    simp only [fixupUnknown]
    rw [contentCore_blocks ev ρf { b with unknown := none } s pm rfl hdyn hst]
    rfl

theorem flatMap_congr' {α β : Type} (f g : α → List β) (l : List α) (h : ∀ a ∈ l, f a = g a) :
    l.flatMap f = l.flatMap g := by
  induction l with
  | nil => rfl
  | cons a l ih =>
    rw [List.flatMap_cons, List.flatMap_cons, h a (by simp), ih (fun a' ha' => h a' (by simp [ha']))]

theorem filterMap_congr' {α β : Type} (f g : α → Option β) (l : List α) (h : ∀ a ∈ l, f a = g a) :
    l.filterMap f = l.filterMap g := by
  induction l with
  | nil => rfl
  | cons a l ih =>
    rw [List.filterMap_cons, List.filterMap_cons, h a (by simp), ih (fun a' ha' => h a' (by simp [ha']))]

/-! ## the theorem -/

def gX (F : STree → XBody → Shape) (st : STree) (blk : XBlock) : Option (String × List String × Bool × Shape) :=
  (st.child blk.type).map fun cst => (blk.type, blk.labels, blk.body.unknown.isSome, F cst blk.body)

theorem shapeX_succ (ev : Env → Expr → Out) (ρf : Env) (n : Nat) (st : STree) (b : XBody) :
    shapeX ev ρf (n + 1) st b = .mk ((b.content ev ρf st.schema).1.blocks.filterMap (gX (shapeX ev ρf n) st)) := rfl

theorem shapeX_zero (ev : Env → Expr → Out) (ρf : Env) (st : STree) (b : XBody) :
    shapeX ev ρf 0 st b = .mk [] := rfl

theorem expand_vars_sufficient_gen (ev : Env → Expr → Out)
    (hev : ∀ e ρ σ, AgreeOn (fv e) ρ σ → ev ρ e = ev σ e) (ρf σf : Env) (n : Nat) :
    ∀ (st : STree) (b : XBody), st.ok = true → b.src.ok = true → b.hiddenBlocks = [] →
      AgreeOn (expandVars n st (b.its.map (·.1)) b.src) ρf σf →
      shapeX ev ρf n st b = shapeX ev σf n st b := by
  induction n with
  | zero => intros; rw [shapeX_zero, shapeX_zero]
  | succ n ih =>
    intro st b hst hsrc hhid h
    have hb : okAll b.src.blocks = true := SBody.ok_blocks hsrc
    have hb' := (okAll_iff _).1 hb
    have hsok := staticOk_of_okAll hb
    rw [shapeX_succ, shapeX_succ]
    simp only [XBody.content]
    rw [contentCore_blocks_gen ev ρf b st.schema false (by simp [hhid]) hsok,
      contentCore_blocks_gen ev σf b st.schema false (by simp [hhid]) hsok, hhid]
    -- the same blocks at this level
    have hlev : b.src.blocks.flatMap (xSeg ev ρf b.its [] st.schema) =
        b.src.blocks.flatMap (xSeg ev σf b.its [] st.schema) := by
      apply flatMap_congr'
      intro blk hblk
      apply xSeg_agree ev hev ρf σf b.its st n blk
      intro x hx
      exact h x (mem_expandVars_succ hblk hx)
    rw [← hlev]
    congr 1
    apply filterMap_congr'
    intro xb hxb
    obtain ⟨xb0, hxb0, rfl⟩ := List.mem_map.1 hxb
    obtain ⟨blk, hblk, hseg⟩ := List.mem_flatMap.1 hxb0
    obtain ⟨h1, h2, h3⟩ := xSeg_mem ev ρf b.its st n blk (hb' blk hblk) xb0 hseg
    have hty : (fixB b.unknown xb0).type = xb0.type := by cases b.unknown <;> rfl
    have hsrc' : (fixB b.unknown xb0).body.src = xb0.body.src := by cases b.unknown <;> rfl
    have hits' : (fixB b.unknown xb0).body.its = xb0.body.its := by cases b.unknown <;> rfl
    have hhb' : (fixB b.unknown xb0).body.hiddenBlocks = xb0.body.hiddenBlocks := by cases b.unknown <;> rfl
    simp only [gX, hty]
    cases hc : st.child xb0.type with
    | none => simp only [Option.map_none]
    | some cst =>
      simp only [Option.map_some]
      rw [ih cst (fixB b.unknown xb0).body (STree.ok_child hst hc) (by rw [hsrc']; exact h1) (by rw [hhb']; exact h2)]
      rw [hsrc', hits']
      intro x hx
      exact h x (mem_expandVars_succ hblk (h3 cst hc x hx))

theorem expand_vars_sufficient (ev : Env → Expr → Out)
    (hev : ∀ e ρ σ, AgreeOn (fv e) ρ σ → ev ρ e = ev σ e)
    (st : STree) (src : SBody) (ρf σf : Env) (n : Nat) (hst : st.ok = true) (hsrc : src.ok = true)
    (h : AgreeOn (expandVars n st [] src) ρf σf) :
    shapeX ev ρf n st { src := src } = shapeX ev σf n st { src := src } :=
  expand_vars_sufficient_gen ev hev ρf σf n st { src := src } hst hsrc rfl h

end HclModel.Dyn.Proofs
