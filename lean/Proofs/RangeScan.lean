import HclModel.Lex.RangeScan
import Proofs.Pos
/-!
Proofs about the `RangeScanner` model: the loop's `end`/`new` bookkeeping equals a walk over the token's
clusters / the window's clusters, the reported ranges equal the recount from the start of the buffer, they
are ordered, contiguous at window boundaries, and cover exactly the token when it ends on a cluster boundary.
-/
namespace HclModel.Pos.Proofs

theorem tokPrefix_done (tokLen adv : Nat) (cls : List Cl) (h : ¬ adv < tokLen) :
    tokPrefix tokLen adv cls = [] := by
  cases cls with
  | nil => rfl
  | cons c cs => simp [tokPrefix, h]

/-- the loop: `new` walks the whole window; `end` walks the token's clusters, or stays when there are none -/
theorem scanLoop_eq (tokLen : Nat) (cls : List Cl) :
    ∀ (new stop : P) (adv : Nat),
      scanLoop tokLen new stop adv cls =
        (if tokPrefix tokLen adv cls = [] then stop else walk new (tokPrefix tokLen adv cls), walk new cls) := by
  induction cls with
  | nil => intro new stop adv; simp [scanLoop, tokPrefix, walk_nil]
  | cons c cs ih =>
    intro new stop adv
    simp only [scanLoop]
    rw [ih]
    by_cases h : adv < tokLen
    · simp only [h, if_true, tokPrefix, walk_cons]
      simp only [reduceCtorEq, if_false]
      congr 1
      split
      · rename_i h0; rw [h0, walk_nil]
      · rfl
    · have h' : ¬ adv + c.len < tokLen := by omega
      simp only [h, if_false, tokPrefix, tokPrefix_done tokLen (adv + c.len) cs h', if_true, walk_cons]

theorem scanWin_eq (pos : P) (w : Win) :
    scanWin pos w = (⟨0, pos, walk pos (tokPrefix w.tokLen 0 w.cls)⟩, walk pos w.cls) := by
  simp only [scanWin, scanLoop_eq]
  split
  · rename_i h; rw [h, walk_nil]
  · rfl

theorem scanAll_eq_ref_gen (start : P) (wins : List Win) :
    ∀ (before : List Cl), scanAll (walk start before) wins = refScan start before wins := by
  induction wins with
  | nil => intro before; simp [scanAll, refScan]
  | cons w ws ih =>
    intro before
    simp only [scanAll, scanWin_eq, refScan, posAt, walk_append]
    congr 1
    rw [← walk_append]
    exact ih (before ++ w.cls)

theorem scanAll_eq_ref (start : P) (wins : List Win) :
    scanAll start wins = refScan start [] wins := by
  have := scanAll_eq_ref_gen start wins []
  simpa [walk_nil] using this

theorem clBytes_tokPrefix_le (tokLen : Nat) (cls : List Cl) :
    ∀ adv, clBytes (tokPrefix tokLen adv cls) ≤ clBytes cls := by
  induction cls with
  | nil => intro adv; simp [tokPrefix]
  | cons c cs ih =>
    intro adv
    simp only [tokPrefix]
    split
    · rw [clBytes_cons, clBytes_cons]
      have := ih (adv + c.len)
      omega
    · simp [clBytes_nil]

/-- ranges are in buffer order, do not overlap, and none starts before the running position -/
theorem scanAll_ordered_gen (wins : List Win) :
    ∀ (pos : P),
      (scanAll pos wins).Pairwise (fun a b => a.stop.byte ≤ b.start.byte) ∧
      (∀ r ∈ scanAll pos wins, r.start.byte ≤ r.stop.byte) ∧
      (∀ r ∈ scanAll pos wins, pos.byte ≤ r.start.byte) := by
  induction wins with
  | nil => intro pos; simp [scanAll]
  | cons w ws ih =>
    intro pos
    simp only [scanAll, scanWin_eq]
    obtain ⟨h1, h2, h3⟩ := ih (walk pos w.cls)
    have hb := walk_byte w.cls pos
    have hp := walk_byte (tokPrefix w.tokLen 0 w.cls) pos
    have hle := clBytes_tokPrefix_le w.tokLen w.cls 0
    refine ⟨?_, ?_, ?_⟩
    · rw [List.pairwise_cons]
      refine ⟨?_, h1⟩
      intro r hr
      have := h3 r hr
      simp only [hp]
      omega
    · intro r hr
      rw [List.mem_cons] at hr
      rcases hr with rfl | hr
      · simp only [hp]; omega
      · exact h2 r hr
    · intro r hr
      rw [List.mem_cons] at hr
      rcases hr with rfl | hr
      · simp
      · have := h3 r hr
        omega

/-- when the token ends on a cluster boundary the range covers exactly the token's bytes -/
theorem scanWin_covers (pos : P) (w : Win) (h : w.aligned) :
    (scanWin pos w).1.start = pos ∧ (scanWin pos w).1.stop.byte = pos.byte + w.tokLen := by
  rw [scanWin_eq]
  refine ⟨rfl, ?_⟩
  simp only [walk_byte]
  unfold Win.aligned at h
  omega

/-- the next window's range starts exactly where the previous window ends (same byte, line and column) -/
theorem scanAll_contiguous (pos : P) (w : Win) (ws : List Win) :
    scanAll pos (w :: ws) = (scanWin pos w).1 :: scanAll (walk pos w.cls) ws := by
  simp [scanAll, scanWin_eq]

end HclModel.Pos.Proofs
