import Proofs.MarksVal
/-!
Operation-level lemmas for C06: `convert`, `callBin`, `callUn`, `index`, `getAttr`, … map related inputs
to related outputs when both results are error-free.
-/
set_option linter.unusedSimpArgs false
namespace HclModel.Proofs
open Val

macro "exc" : tactic => `(tactic| simp_all [Functor.map, Except.map, pure, Except.pure, bind, Except.bind, throw, throwThe, MonadExceptOf.throw, setFl, Ty.isPrim])

theorem map_eq_ok {α β ε : Type} (f : α → β) (e : Except ε α) (x : β) :
    (f <$> e = .ok x) ↔ ∃ v, e = .ok v ∧ f v = x := by
  cases e <;> simp [Functor.map, Except.map]

theorem bind_eq_ok {α β ε : Type} (e : Except ε α) (f : α → Except ε β) (x : β) :
    (e >>= f = .ok x) ↔ ∃ v, e = .ok v ∧ f v = .ok x := by
  cases e <;> simp [bind, Except.bind]

/-! ### `convert` -/

theorem convert_dyn (v : Val) : convert v .dyn = .ok v := by
  rw [convert.eq_def]; split <;> rfl

theorem convert_same (v : Val) (t : Ty) (h : v.typeOf = t) : convert v t = .ok v := by
  rw [convert.eq_def]; simp [h]; rfl

/-- conversion does not look at the flags of the top node, and keeps them -/
theorem convert_setFl (a : Val) (t : Ty) (g : Fl) :
    convert (a.setFl g) t = (convert a t).map (·.setFl g) := by
  by_cases h : a.typeOf = t
  · rw [convert_same _ _ h, convert_same _ _ (by simpa using h)]; rfl
  · by_cases hd : t = .dyn
    · subst hd; simp [convert_dyn]; rfl
    · cases a <;> (rw [convert.eq_def, convert.eq_def]; simp only [setFl, typeOf] at h ⊢; simp only [beq_iff_eq, h, if_false])
      all_goals (split <;> try exc)
      all_goals (split <;> try exc)
      all_goals (split <;> try exc)

theorem convert_props (a : Val) (t : Ty) (x : Val) (h : convert a t = .ok x) :
    x.fl = a.fl ∧ x.isKnown = a.isKnown ∧ x.isNull = a.isNull := by
  by_cases h1 : a.typeOf = t
  · rw [convert_same _ _ h1] at h; cases h; simp
  · by_cases hd : t = .dyn
    · subst hd; rw [convert_dyn] at h; cases h; simp
    · cases a <;> (rw [convert.eq_def] at h; simp only [typeOf] at h1; simp only [typeOf, beq_iff_eq, h1, if_false] at h)
      all_goals (split at h <;> try exc)
      all_goals (try (split at h <;> try exc))
      all_goals (try (split at h <;> try exc))
      all_goals (try (subst h; simp [Val.fl, isKnown, isNull]))

theorem convert_fl {a : Val} {t : Ty} {x : Val} (h : convert a t = .ok x) : x.fl = a.fl :=
  (convert_props a t x h).1
theorem convert_isKnown {a : Val} {t : Ty} {x : Val} (h : convert a t = .ok x) : x.isKnown = a.isKnown :=
  (convert_props a t x h).2.1
theorem convert_isNull {a : Val} {t : Ty} {x : Val} (h : convert a t = .ok x) : x.isNull = a.isNull :=
  (convert_props a t x h).2.2

/-! self-conversion -/

theorem convertPair_self : ∀ xs : List Val, convertPair xs (typeOfList xs) = .ok xs
  | [] => by simp [convertPair, typeOfList]; rfl
  | x :: xs => by
    simp [convertPair, typeOfList, convert_same x _ rfl, convertPair_self xs, bind, Except.bind]; rfl

theorem convertFieldsTo_self : ∀ xs : List (String × Val), convertFieldsTo xs (typeOfFields xs) = .ok xs
  | [] => by simp [convertFieldsTo, typeOfFields]; rfl
  | (k, x) :: xs => by
    simp [convertFieldsTo, typeOfFields, convert_same x _ rfl, convertFieldsTo_self xs, bind, Except.bind]; rfl

theorem sameKeys_self : ∀ xs : List (String × Val), sameKeys xs (typeOfFields xs) = true
  | [] => by simp [sameKeys, typeOfFields]
  | (k, x) :: xs => by simp [sameKeys, typeOfFields, sameKeys_self xs]

theorem typeOfList_length : ∀ xs : List Val, (typeOfList xs).length = xs.length
  | [] => rfl
  | _ :: xs => by simp [typeOfList, typeOfList_length xs]

/-- tuple to tuple, without the shortcut -/
theorem convert_tuple_tuple (f : Fl) (xs : List Val) (bs : List Ty) :
    convert (.tuple f xs) (.tuple bs) =
      if xs.length = bs.length then (convertPair xs bs).map (Val.tuple f) else .error (.fail "tuple length") := by
  by_cases h : typeOfList xs = bs
  · subst h
    rw [convert_same _ _ (by simp [typeOf])]
    simp [typeOfList_length, convertPair_self, Except.map]
  · rw [convert.eq_def]; simp [typeOf, h]
    split <;> exc

theorem convert_object_object (f : Fl) (kvs : List (String × Val)) (gs : List (String × Ty)) :
    convert (.object f kvs) (.object gs) =
      if sameKeys kvs gs then (convertFieldsTo kvs gs).map (Val.object f)
      else .error (.unsupported "object attribute sets differ") := by
  by_cases h : typeOfFields kvs = gs
  · subst h
    rw [convert_same _ _ (by simp [typeOf])]
    simp [sameKeys_self, convertFieldsTo_self, Except.map]
  · rw [convert.eq_def]; simp [typeOf, h]
    split <;> exc

theorem rel_setFl_self (x : Val) (g : Fl) : relV x (x.setFl g) = true := by
  apply relV_of_relC
  have := relC_setFl x x x.fl g
  simpa [relC_refl] using this

theorem convert_rel_leaf (a b : Val) (t : Ty) (x y : Val) (hb : b = a.setFl b.fl)
    (hx : convert a t = .ok x) (hy : convert b t = .ok y) : relV x y = true := by
  rw [hb, convert_setFl, hx] at hy
  simp [Except.map] at hy
  subst hy
  exact rel_setFl_self _ _

theorem relC_list_inv {f t xs b} (h : relC (.list f t xs) b = true) :
    ∃ g ys, b = .list g t ys ∧ relL xs ys = true := by
  cases b <;> simp [relC] at h
  obtain ⟨rfl, h⟩ := h; exact ⟨_, _, rfl, h⟩
theorem relC_map_inv {f t xs b} (h : relC (.map f t xs) b = true) :
    ∃ g ys, b = .map g t ys ∧ relF xs ys = true := by
  cases b <;> simp [relC] at h
  obtain ⟨rfl, h⟩ := h; exact ⟨_, _, rfl, h⟩
theorem relC_tuple_inv {f xs b} (h : relC (.tuple f xs) b = true) :
    ∃ g ys, b = .tuple g ys ∧ relL xs ys = true := by
  cases b <;> simp [relC] at h
  exact ⟨_, _, rfl, h⟩
theorem relC_object_inv {f xs b} (h : relC (.object f xs) b = true) :
    ∃ g ys, b = .object g ys ∧ relF xs ys = true := by
  cases b <;> simp [relC] at h
  exact ⟨_, _, rfl, h⟩

theorem emap_eq_ok {α β ε : Type} (f : α → β) (e : Except ε α) (x : β) :
    (Except.map f e = .ok x) ↔ ∃ v, e = .ok v ∧ f v = x := by
  cases e <;> simp [Except.map]

mutual
theorem convert_rel : ∀ (a b : Val) (t : Ty) (x y : Val), relV a b = true →
    convert a t = .ok x → convert b t = .ok y → relV x y = true
  | .unk f s, b, t, x, y, h, hx, hy | .null f s, b, t, x, y, h, hx, hy | .str f s, b, t, x, y, h, hx, hy
  | .num f s, b, t, x, y, h, hx, hy | .bool f s, b, t, x, y, h, hx, hy => by
    rcases relV_cases h with ⟨h1, h2⟩ | h
    · exact relV_top (by rw [convert_fl hx]; exact h1) (by rw [convert_fl hy]; exact h2)
    · apply convert_rel_leaf _ b t x y _ hx hy
      cases b <;> simp_all [relC, setFl, Val.fl]
  | .list f s xs, b, t, x, y, h, hx, hy => by
    rcases relV_cases h with ⟨h1, h2⟩ | h
    · exact relV_top (by rw [convert_fl hx]; exact h1) (by rw [convert_fl hy]; exact h2)
    · obtain ⟨g, ys, rfl, hl⟩ := relC_list_inv h
      by_cases h1 : Ty.list s = t
      · rw [convert_same _ _ (by simpa [typeOf] using h1)] at hx hy
        cases hx; cases hy; exact relV_of_relC h
      · cases t <;> (rw [convert.eq_def] at hx hy; simp [typeOf, h1] at hx hy <;> try (exc; done))
        rename_i b
        rw [map_eq_ok] at hx hy
        obtain ⟨xs', hxs, rfl⟩ := hx
        obtain ⟨ys', hys, rfl⟩ := hy
        have := convertList_rel xs ys b xs' ys' hl hxs hys
        simp [relV, this]
  | .map f s xs, b, t, x, y, h, hx, hy => by
    rcases relV_cases h with ⟨h1, h2⟩ | h
    · exact relV_top (by rw [convert_fl hx]; exact h1) (by rw [convert_fl hy]; exact h2)
    · obtain ⟨g, ys, rfl, hl⟩ := relC_map_inv h
      by_cases h1 : Ty.map s = t
      · rw [convert_same _ _ (by simpa [typeOf] using h1)] at hx hy
        cases hx; cases hy; exact relV_of_relC h
      · cases t <;> (rw [convert.eq_def] at hx hy; simp [typeOf, h1] at hx hy <;> try (exc; done))
        rename_i b
        rw [map_eq_ok] at hx hy
        obtain ⟨xs', hxs, rfl⟩ := hx
        obtain ⟨ys', hys, rfl⟩ := hy
        have := convertFields_rel xs ys b xs' ys' hl hxs hys
        simp [relV, this]
  | .tuple f xs, b, t, x, y, h, hx, hy => by
    rcases relV_cases h with ⟨h1, h2⟩ | h
    · exact relV_top (by rw [convert_fl hx]; exact h1) (by rw [convert_fl hy]; exact h2)
    · obtain ⟨g, ys, rfl, hl⟩ := relC_tuple_inv h
      cases t with
      | tuple bs =>
        rw [convert_tuple_tuple] at hx hy
        split at hx <;> try (exc; done)
        split at hy <;> try (exc; done)
        rw [emap_eq_ok] at hx hy
        obtain ⟨xs', hxs, rfl⟩ := hx
        obtain ⟨ys', hys, rfl⟩ := hy
        have := convertPair_rel xs ys bs xs' ys' hl hxs hys
        simp [relV, this]
      | list b =>
        rw [convert.eq_def] at hx hy; simp [typeOf] at hx hy
        rw [map_eq_ok] at hx hy
        obtain ⟨xs', hxs, rfl⟩ := hx
        obtain ⟨ys', hys, rfl⟩ := hy
        have := convertList_rel xs ys b xs' ys' hl hxs hys
        simp [relV, this]
      | dyn => rw [convert_dyn] at hx hy; cases hx; cases hy; exact relV_of_relC h
      | _ => rw [convert.eq_def] at hx; simp [typeOf] at hx <;> exc
  | .object f xs, b, t, x, y, h, hx, hy => by
    rcases relV_cases h with ⟨h1, h2⟩ | h
    · exact relV_top (by rw [convert_fl hx]; exact h1) (by rw [convert_fl hy]; exact h2)
    · obtain ⟨g, ys, rfl, hl⟩ := relC_object_inv h
      cases t with
      | object gs =>
        rw [convert_object_object] at hx hy
        split at hx <;> try (exc; done)
        split at hy <;> try (exc; done)
        rw [emap_eq_ok] at hx hy
        obtain ⟨xs', hxs, rfl⟩ := hx
        obtain ⟨ys', hys, rfl⟩ := hy
        have := convertFieldsTo_rel xs ys gs xs' ys' hl hxs hys
        simp [relV, this]
      | map b =>
        rw [convert.eq_def] at hx hy; simp [typeOf] at hx hy
        rw [map_eq_ok] at hx hy
        obtain ⟨xs', hxs, rfl⟩ := hx
        obtain ⟨ys', hys, rfl⟩ := hy
        have := convertFields_rel xs ys b xs' ys' hl hxs hys
        simp [relV, this]
      | dyn => rw [convert_dyn] at hx hy; cases hx; cases hy; exact relV_of_relC h
      | _ => rw [convert.eq_def] at hx; simp [typeOf] at hx <;> exc
theorem convertList_rel : ∀ (xs ys : List Val) (t : Ty) (xs' ys' : List Val), relL xs ys = true →
    convertList xs t = .ok xs' → convertList ys t = .ok ys' → relL xs' ys' = true
  | [], ys, t, xs', ys', h, hx, hy => by
    cases ys <;> simp_all [relL, convertList, pure, Except.pure]
  | x :: xs, ys, t, xs', ys', h, hx, hy => by
    cases ys with
    | nil => simp [relL] at h
    | cons y ys =>
      simp only [relL, Bool.and_eq_true] at h
      by_cases hd : t = .dyn
      · simp [convertList, hd, bind, Except.bind, throw, throwThe, MonadExceptOf.throw] at hx
      simp only [convertList, beq_iff_eq, hd, if_false, bind, Except.bind, pure, Except.pure] at hx hy
      cases hx1 : convert x t with
      | error e => simp [hx1] at hx
      | ok x' =>
      cases hy1 : convert y t with
      | error e => simp [hy1] at hy
      | ok y' =>
      cases hx2 : convertList xs t with
      | error e => simp [hx1, hx2] at hx
      | ok xs1 =>
      cases hy2 : convertList ys t with
      | error e => simp [hy1, hy2] at hy
      | ok ys1 =>
      simp [hx1, hx2] at hx; simp [hy1, hy2] at hy
      subst hx; subst hy
      simp [relL, convert_rel x y t x' y' h.1 hx1 hy1, convertList_rel xs ys t xs1 ys1 h.2 hx2 hy2]
theorem convertFields_rel : ∀ (xs ys : List (String × Val)) (t : Ty) (xs' ys' : List (String × Val)), relF xs ys = true →
    convertFields xs t = .ok xs' → convertFields ys t = .ok ys' → relF xs' ys' = true
  | [], ys, t, xs', ys', h, hx, hy => by
    cases ys <;> simp_all [relF, convertFields, pure, Except.pure]
  | (k, x) :: xs, ys, t, xs', ys', h, hx, hy => by
    cases ys with
    | nil => simp [relF] at h
    | cons y ys =>
      obtain ⟨l, y⟩ := y
      simp only [relF, Bool.and_eq_true, beq_iff_eq] at h
      by_cases hd : t = .dyn
      · simp [convertFields, hd, bind, Except.bind, throw, throwThe, MonadExceptOf.throw] at hx
      simp only [convertFields, beq_iff_eq, hd, if_false, bind, Except.bind, pure, Except.pure] at hx hy
      cases hx1 : convert x t with
      | error e => simp [hx1] at hx
      | ok x' =>
      cases hy1 : convert y t with
      | error e => simp [hy1] at hy
      | ok y' =>
      cases hx2 : convertFields xs t with
      | error e => simp [hx1, hx2] at hx
      | ok xs1 =>
      cases hy2 : convertFields ys t with
      | error e => simp [hy1, hy2] at hy
      | ok ys1 =>
      simp [hx1, hx2] at hx; simp [hy1, hy2] at hy
      subst hx; subst hy
      simp [relF, h.1.1, convert_rel x y t x' y' h.1.2 hx1 hy1, convertFields_rel xs ys t xs1 ys1 h.2 hx2 hy2]
theorem convertPair_rel : ∀ (xs ys : List Val) (ts : List Ty) (xs' ys' : List Val), relL xs ys = true →
    convertPair xs ts = .ok xs' → convertPair ys ts = .ok ys' → relL xs' ys' = true
  | [], ys, t, xs', ys', h, hx, hy => by
    cases ys <;> simp_all [relL, convertPair, pure, Except.pure]
  | x :: xs, ys, ts, xs', ys', h, hx, hy => by
    cases ys with
    | nil => simp [relL] at h
    | cons y ys =>
      simp only [relL, Bool.and_eq_true] at h
      cases ts with
      | nil => simp [convertPair, pure, Except.pure] at hx hy; subst hx; subst hy; simp [relL]
      | cons t ts =>
        simp only [convertPair, bind_eq_ok, pure, Except.pure] at hx hy
        obtain ⟨x', hx1, xs1, hx2, hx3⟩ := hx
        obtain ⟨y', hy1, ys1, hy2, hy3⟩ := hy
        cases hx3; cases hy3
        simp [relL, convert_rel x y t x' y' h.1 hx1 hy1, convertPair_rel xs ys ts xs1 ys1 h.2 hx2 hy2]
theorem convertFieldsTo_rel : ∀ (xs ys : List (String × Val)) (ts : List (String × Ty)) (xs' ys' : List (String × Val)), relF xs ys = true →
    convertFieldsTo xs ts = .ok xs' → convertFieldsTo ys ts = .ok ys' → relF xs' ys' = true
  | [], ys, t, xs', ys', h, hx, hy => by
    cases ys <;> simp_all [relF, convertFieldsTo, pure, Except.pure]
  | (k, x) :: xs, ys, ts, xs', ys', h, hx, hy => by
    cases ys with
    | nil => simp [relF] at h
    | cons y ys =>
      obtain ⟨l, y⟩ := y
      simp only [relF, Bool.and_eq_true, beq_iff_eq] at h
      cases ts with
      | nil => simp [convertFieldsTo, pure, Except.pure] at hx hy; subst hx; subst hy; simp [relF]
      | cons t ts =>
        obtain ⟨kt, t⟩ := t
        simp only [convertFieldsTo, bind_eq_ok, pure, Except.pure] at hx hy
        obtain ⟨x', hx1, xs1, hx2, hx3⟩ := hx
        obtain ⟨y', hy1, ys1, hy2, hy3⟩ := hy
        cases hx3; cases hy3
        simp [relF, h.1.1, convert_rel x y t x' y' h.1.2 hx1 hy1, convertFieldsTo_rel xs ys ts xs1 ys1 h.2 hx2 hy2]
end

/-! ### `tryConvert` -/

theorem tryConvert_ok {a : Val} {t : Ty} {x : Val} (h : tryConvert a t = .ok x) : convert a t = .ok x := by
  unfold tryConvert at h
  split at h <;> simp_all

theorem tryConvert_rel {a b : Val} {t : Ty} {x y : Val} (h : relV a b = true)
    (hx : tryConvert a t = .ok x) (hy : tryConvert b t = .ok y) : relV x y = true :=
  convert_rel a b t x y h (tryConvert_ok hx) (tryConvert_ok hy)

theorem tryConvert_fl {a : Val} {t : Ty} {x : Val} (h : tryConvert a t = .ok x) : x.fl = a.fl :=
  convert_fl (tryConvert_ok h)
theorem tryConvert_isKnown {a : Val} {t : Ty} {x : Val} (h : tryConvert a t = .ok x) : x.isKnown = a.isKnown :=
  convert_isKnown (tryConvert_ok h)
theorem tryConvert_isNull {a : Val} {t : Ty} {x : Val} (h : tryConvert a t = .ok x) : x.isNull = a.isNull :=
  convert_isNull (tryConvert_ok h)

theorem convert_num_cases (a : Val) (x : Val) (h : convert a .num = .ok x) (hn : a.isNull = false) :
    (∃ q, x = .num a.fl q) ∨ x = .unk a.fl .num := by
  by_cases h1 : a.typeOf = .num
  · rw [convert_same _ _ h1] at h; cases h
    cases a <;> simp_all [typeOf, isNull]
  · cases a <;> (rw [convert.eq_def] at h; simp only [typeOf] at h1; simp only [typeOf, beq_iff_eq, h1, if_false] at h)
    all_goals (try (split at h <;> try exc))
    all_goals (try (split at h <;> try exc))
    all_goals (try (split at h <;> try exc))
    all_goals (try (subst h; simp))
    all_goals (first | (simp [isNull] at hn; done) | exc)

theorem convert_str_cases (a : Val) (x : Val) (h : convert a .str = .ok x) (hn : a.isNull = false) :
    (∃ q, x = .str a.fl q) ∨ x = .unk a.fl .str := by
  by_cases h1 : a.typeOf = .str
  · rw [convert_same _ _ h1] at h; cases h
    cases a <;> simp_all [typeOf, isNull]
  · cases a <;> (rw [convert.eq_def] at h; simp only [typeOf] at h1; simp only [typeOf, beq_iff_eq, h1, if_false] at h)
    all_goals (try (split at h <;> try exc))
    all_goals (try (split at h <;> try exc))
    all_goals (try (split at h <;> try exc))
    all_goals (try (subst h; simp))
    all_goals (first | (simp [isNull] at hn; done) | exc)

theorem convert_bool_cases (a : Val) (x : Val) (h : convert a .bool = .ok x) (hn : a.isNull = false) :
    (∃ q, x = .bool a.fl q) ∨ x = .unk a.fl .bool := by
  by_cases h1 : a.typeOf = .bool
  · rw [convert_same _ _ h1] at h; cases h
    cases a <;> simp_all [typeOf, isNull]
  · cases a <;> (rw [convert.eq_def] at h; simp only [typeOf] at h1; simp only [typeOf, beq_iff_eq, h1, if_false] at h)
    all_goals (try (split at h <;> try exc))
    all_goals (try (split at h <;> try exc))
    all_goals (try (split at h <;> try exc))
    all_goals (try (subst h; simp))
    all_goals (first | (simp [isNull] at hn; done) | exc)

end HclModel.Proofs
