import HclModel.Skel.IR
namespace HclModel.Skel

theorem fnOk_spec {body : Stmt} (h : fnOk body = true) :
    ∃ outs, ae body = some outs ∧ ∀ k d, (k, d) ∈ outs → (k = .norm ∨ k = .ret) ∧ d = 0 := by
  unfold fnOk at h
  cases hae : ae body with
  | none => simp [hae] at h
  | some outs =>
    refine ⟨outs, rfl, ?_⟩
    intro k d hm
    simp only [hae, List.all_eq_true] at h
    have := h (k, d) hm
    simp only [Bool.and_eq_true, Bool.or_eq_true, beq_iff_eq] at this
    exact ⟨this.1, this.2⟩

theorem balanced_fn {prog : List Stmt} (hb : balanced prog = true) {f : Nat} {body : Stmt}
    (hf : prog[f]? = some body) : fnOk body = true := by
  unfold balanced at hb
  rw [List.all_eq_true] at hb
  exact hb body (List.mem_of_getElem? hf)

theorem sound (prog : List Stmt) (hb : balanced prog = true) :
    ∀ s d k d', Exec prog s d k d' → ∀ outs, ae s = some outs → (k, d' - d) ∈ outs := by
  intro s d k d' h
  induction h with
  | push d => intro outs h; simp [ae] at h; subst h; simp; omega
  | pop d => intro outs h; simp [ae] at h; subst h; simp; omega
  | skip d => intro outs h; simp [ae] at h; subst h; simp
  | brk n d => intro outs h; simp [ae] at h; subst h; simp
  | cont n d => intro outs h; simp [ae] at h; subst h; simp
  | ret d => intro outs h; simp [ae] at h; subst h; simp
  | callN f body d d' hf _ ih =>
    intro outs h; simp [ae] at h; subst h
    obtain ⟨o, ho, hall⟩ := fnOk_spec (balanced_fn hb hf)
    have := (hall _ _ (ih o ho)).2
    simp [this]
  | callR f body d d' hf _ ih =>
    intro outs h; simp [ae] at h; subst h
    obtain ⟨o, ho, hall⟩ := fnOk_spec (balanced_fn hb hf)
    have := (hall _ _ (ih o ho)).2
    simp [this]
  | choiceL a b d k d' _ ih =>
    intro outs h
    simp only [ae, bind, Option.bind] at h
    cases ha : ae a with
    | none => simp [ha] at h
    | some x =>
      cases hb' : ae b with
      | none => simp [ha, hb'] at h
      | some y =>
        simp [ha, hb', pure] at h; subst h
        exact List.mem_eraseDups.mpr (List.mem_append_left _ (ih x ha))
  | choiceR a b d k d' _ ih =>
    intro outs h
    simp only [ae, bind, Option.bind] at h
    cases ha : ae a with
    | none => simp [ha] at h
    | some x =>
      cases hb' : ae b with
      | none => simp [ha, hb'] at h
      | some y =>
        simp [ha, hb', pure] at h; subst h
        exact List.mem_eraseDups.mpr (List.mem_append_right _ (ih y hb'))
  | seqN a b d d1 k d2 _ _ iha ihb =>
    intro outs h
    simp only [ae, bind, Option.bind] at h
    cases ha : ae a with
    | none => simp [ha] at h
    | some x =>
      cases hb' : ae b with
      | none => simp [ha, hb'] at h
      | some y =>
        simp [ha, hb', pure] at h; subst h
        rw [List.mem_eraseDups, List.mem_flatMap]
        refine ⟨(.norm, d1 - d), iha x ha, ?_⟩
        simp only [List.mem_map]
        refine ⟨(k, d2 - d1), ihb y hb', ?_⟩
        simp; omega
  | seqX a b d k d1 hk _ iha =>
    intro outs h
    simp only [ae, bind, Option.bind] at h
    cases ha : ae a with
    | none => simp [ha] at h
    | some x =>
      cases hb' : ae b with
      | none => simp [ha, hb'] at h
      | some y =>
        simp [ha, hb', pure] at h; subst h
        rw [List.mem_eraseDups, List.mem_flatMap]
        refine ⟨(k, d1 - d), iha x ha, ?_⟩
        cases k <;> simp at hk ⊢
  | blkN body d d' _ ih =>
    intro outs h
    simp only [ae, bind, Option.bind] at h
    cases hx : ae body with
    | none => simp [hx] at h
    | some x =>
      simp [hx, pure] at h; subst h
      rw [List.mem_map]; exact ⟨_, ih x hx, by simp⟩
  | blkB0 body d d' _ ih =>
    intro outs h
    simp only [ae, bind, Option.bind] at h
    cases hx : ae body with
    | none => simp [hx] at h
    | some x =>
      simp [hx, pure] at h; subst h
      rw [List.mem_map]; exact ⟨_, ih x hx, by simp⟩
  | blkB body n d d' _ ih =>
    intro outs h
    simp only [ae, bind, Option.bind] at h
    cases hx : ae body with
    | none => simp [hx] at h
    | some x =>
      simp [hx, pure] at h; subst h
      rw [List.mem_map]; exact ⟨_, ih x hx, by simp⟩
  | blkC0 body d d' _ ih =>
    intro outs h
    simp only [ae, bind, Option.bind] at h
    cases hx : ae body with
    | none => simp [hx] at h
    | some x =>
      simp [hx, pure] at h; subst h
      rw [List.mem_map]; exact ⟨_, ih x hx, by simp⟩
  | blkC body n d d' _ ih =>
    intro outs h
    simp only [ae, bind, Option.bind] at h
    cases hx : ae body with
    | none => simp [hx] at h
    | some x =>
      simp [hx, pure] at h; subst h
      rw [List.mem_map]; exact ⟨_, ih x hx, by simp⟩
  | blkR body d d' _ ih =>
    intro outs h
    simp only [ae, bind, Option.bind] at h
    cases hx : ae body with
    | none => simp [hx] at h
    | some x =>
      simp [hx, pure] at h; subst h
      rw [List.mem_map]; exact ⟨_, ih x hx, by simp⟩
  | loopExit body d =>
    intro outs h
    simp only [ae, bind, Option.bind] at h
    cases hx : ae body with
    | none => simp [hx] at h
    | some x =>
      simp only [hx] at h
      split at h
      · simp [pure] at h; subst h; simp
      · simp at h
  | loopN body d d1 k d2 _ _ ihb ihl =>
    intro outs h
    have h' := h
    simp only [ae, bind, Option.bind] at h
    cases hx : ae body with
    | none => simp [hx] at h
    | some x =>
      simp only [hx] at h
      split at h
      · rename_i hall
        have hm := ihb x hx
        rw [List.all_eq_true] at hall
        have := hall _ hm
        simp at this
        have e : d1 = d := by omega
        subst e
        exact ihl outs h'
      · simp at h
  | loopC body d d1 k d2 _ _ ihb ihl =>
    intro outs h
    have h' := h
    simp only [ae, bind, Option.bind] at h
    cases hx : ae body with
    | none => simp [hx] at h
    | some x =>
      simp only [hx] at h
      split at h
      · rename_i hall
        have hm := ihb x hx
        rw [List.all_eq_true] at hall
        have := hall _ hm
        simp at this
        have e : d1 = d := by omega
        subst e
        exact ihl outs h'
      · simp at h
  | loopB0 body d d' _ ih =>
    intro outs h
    simp only [ae, bind, Option.bind] at h
    cases hx : ae body with
    | none => simp [hx] at h
    | some x =>
      simp only [hx] at h
      split at h
      · simp [pure] at h; subst h
        refine List.mem_cons_of_mem _ ?_
        rw [List.mem_filterMap]; exact ⟨_, ih x hx, by simp⟩
      · simp at h
  | loopB body n d d' _ ih =>
    intro outs h
    simp only [ae, bind, Option.bind] at h
    cases hx : ae body with
    | none => simp [hx] at h
    | some x =>
      simp only [hx] at h
      split at h
      · simp [pure] at h; subst h
        refine List.mem_cons_of_mem _ ?_
        rw [List.mem_filterMap]; exact ⟨_, ih x hx, by simp⟩
      · simp at h
  | loopCn body n d d' _ ih =>
    intro outs h
    simp only [ae, bind, Option.bind] at h
    cases hx : ae body with
    | none => simp [hx] at h
    | some x =>
      simp only [hx] at h
      split at h
      · simp [pure] at h; subst h
        refine List.mem_cons_of_mem _ ?_
        rw [List.mem_filterMap]; exact ⟨_, ih x hx, by simp⟩
      · simp at h
  | loopR body d d' _ ih =>
    intro outs h
    simp only [ae, bind, Option.bind] at h
    cases hx : ae body with
    | none => simp [hx] at h
    | some x =>
      simp only [hx] at h
      split at h
      · simp [pure] at h; subst h
        refine List.mem_cons_of_mem _ ?_
        rw [List.mem_filterMap]; exact ⟨_, ih x hx, by simp⟩
      · simp at h

/-- every terminating execution of every function of a balanced program returns at its entry depth -/
theorem balanced_sound (prog : List Stmt) (hb : balanced prog = true) (f : Nat) (body : Stmt)
    (hf : prog[f]? = some body) (d d' : Int) (k : Kind) (h : Exec prog body d k d') : d' = d := by
  obtain ⟨o, ho, hall⟩ := fnOk_spec (balanced_fn hb hf)
  have := (hall _ _ (sound prog hb _ _ _ _ h o ho)).2
  omega




end HclModel.Skel
