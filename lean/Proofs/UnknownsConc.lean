import Proofs.UnknownsVal
import HclModel.Expr.Gamma
/-!
`conc` / `concL` / `concF`: reflexivity, inversion, lists, flag-erasure; `wfVal` basics.
-/
namespace HclModel.Proofs.Unk
open Val

/-! ### inversion -/

theorem conc_unk (v : Val) (f : Fl) (t : Ty) : conc v (.unk f t) = (t == .dyn || v.typeOf == t) := by
  cases v <;> simp [conc]

theorem conc_unk_iff {v : Val} {f : Fl} {t : Ty} : conc v (.unk f t) = true ↔ (t = .dyn ∨ v.typeOf = t) := by
  rw [conc_unk]; simp

theorem conc_null_inv {v : Val} {g : Fl} {u : Ty} (h : conc v (.null g u) = true) : ∃ f, v = .null f u := by
  cases v <;> simp [conc] at h
  subst h; exact ⟨_, rfl⟩

theorem conc_str_inv {v : Val} {g : Fl} {s : String} (h : conc v (.str g s) = true) : ∃ f, v = .str f s := by
  cases v <;> simp [conc] at h
  subst h; exact ⟨_, rfl⟩

theorem conc_num_inv {v : Val} {g : Fl} {q : Rat} (h : conc v (.num g q) = true) : ∃ f, v = .num f q := by
  cases v <;> simp [conc] at h
  subst h; exact ⟨_, rfl⟩

theorem conc_bool_inv {v : Val} {g : Fl} {b : Bool} (h : conc v (.bool g b) = true) : ∃ f, v = .bool f b := by
  cases v <;> simp [conc] at h
  subst h; exact ⟨_, rfl⟩

theorem conc_list_inv {v : Val} {g : Fl} {t : Ty} {ys : List Val} (h : conc v (.list g t ys) = true) :
    ∃ f xs, v = .list f t xs ∧ concL xs ys = true := by
  cases v <;> simp [conc] at h
  obtain ⟨h1, h2⟩ := h; subst h1; exact ⟨_, _, rfl, h2⟩

theorem conc_map_inv {v : Val} {g : Fl} {t : Ty} {ys : List (String × Val)} (h : conc v (.map g t ys) = true) :
    ∃ f xs, v = .map f t xs ∧ concF xs ys = true := by
  cases v <;> simp [conc] at h
  obtain ⟨h1, h2⟩ := h; subst h1; exact ⟨_, _, rfl, h2⟩

theorem conc_tuple_inv {v : Val} {g : Fl} {ys : List Val} (h : conc v (.tuple g ys) = true) :
    ∃ f xs, v = .tuple f xs ∧ concL xs ys = true := by
  cases v <;> simp [conc] at h
  exact ⟨_, _, rfl, h⟩

theorem conc_object_inv {v : Val} {g : Fl} {ys : List (String × Val)} (h : conc v (.object g ys) = true) :
    ∃ f xs, v = .object f xs ∧ concF xs ys = true := by
  cases v <;> simp [conc] at h
  exact ⟨_, _, rfl, h⟩

/-- a known abstract value forces the constructor of the concrete one -/
theorem conc_isKnown {v a : Val} (h : conc v a = true) (ha : a.isKnown = true) : v.isKnown = true := by
  cases a <;> cases v <;> simp_all [conc, isKnown]

theorem conc_isNull {v a : Val} (h : conc v a = true) (ha : a.isKnown = true) : v.isNull = a.isNull := by
  cases a <;> cases v <;> simp_all [conc, isKnown, isNull]

theorem conc_null_right {v a : Val} (h : conc v a = true) (ha : a.isNull = true) : v.isNull = true := by
  cases a <;> cases v <;> simp_all [conc, isNull]

/-- if the concrete value has the dynamic pseudo-type, so has the abstract one -/
theorem conc_dyn {v a : Val} (h : conc v a = true) (hv : v.typeOf = .dyn) : a.typeOf = .dyn := by
  cases a <;> cases v <;> simp_all [conc, typeOf]
  all_goals (rcases h with h | h; exact h; exact h.symm)

/-! ### shapes of values of a given type -/

theorem shape_str {v : Val} (h : v.typeOf = .str) :
    (∃ f, v = .unk f .str) ∨ (∃ f, v = .null f .str) ∨ (∃ f s, v = .str f s) := by
  cases v <;> simp_all [typeOf]
theorem shape_num {v : Val} (h : v.typeOf = .num) :
    (∃ f, v = .unk f .num) ∨ (∃ f, v = .null f .num) ∨ (∃ f q, v = .num f q) := by
  cases v <;> simp_all [typeOf]
theorem shape_bool {v : Val} (h : v.typeOf = .bool) :
    (∃ f, v = .unk f .bool) ∨ (∃ f, v = .null f .bool) ∨ (∃ f b, v = .bool f b) := by
  cases v <;> simp_all [typeOf]
theorem shape_dyn {v : Val} (h : v.typeOf = .dyn) :
    (∃ f, v = .unk f .dyn) ∨ (∃ f, v = .null f .dyn) := by
  cases v <;> simp_all [typeOf]
theorem shape_list {v : Val} {t : Ty} (h : v.typeOf = .list t) :
    (∃ f, v = .unk f (.list t)) ∨ (∃ f, v = .null f (.list t)) ∨ (∃ f xs, v = .list f t xs) := by
  cases v <;> simp_all [typeOf]
theorem shape_map {v : Val} {t : Ty} (h : v.typeOf = .map t) :
    (∃ f, v = .unk f (.map t)) ∨ (∃ f, v = .null f (.map t)) ∨ (∃ f xs, v = .map f t xs) := by
  cases v <;> simp_all [typeOf]
theorem shape_tuple {v : Val} {ts : List Ty} (h : v.typeOf = .tuple ts) :
    (∃ f, v = .unk f (.tuple ts)) ∨ (∃ f, v = .null f (.tuple ts)) ∨
      (∃ f xs, v = .tuple f xs ∧ typeOfList xs = ts) := by
  cases v <;> simp_all [typeOf]
  exact ⟨_, _, ⟨rfl, rfl⟩, h⟩
theorem shape_object {v : Val} {fs : List (String × Ty)} (h : v.typeOf = .object fs) :
    (∃ f, v = .unk f (.object fs)) ∨ (∃ f, v = .null f (.object fs)) ∨
      (∃ f xs, v = .object f xs ∧ typeOfFields xs = fs) := by
  cases v <;> simp_all [typeOf]
  exact ⟨_, _, ⟨rfl, rfl⟩, h⟩

/-! ### reflexivity -/

mutual
theorem conc_refl : ∀ v : Val, conc v v = true
  | .unk _ _ | .null _ _ | .str _ _ | .num _ _ | .bool _ _ => by simp [conc, typeOf]
  | .list _ _ xs => by simp [conc, concL_refl xs]
  | .tuple _ xs => by simp [conc, concL_refl xs]
  | .map _ _ xs => by simp [conc, concF_refl xs]
  | .object _ xs => by simp [conc, concF_refl xs]
theorem concL_refl : ∀ xs : List Val, concL xs xs = true
  | [] => rfl
  | x :: xs => by simp [concL, conc_refl x, concL_refl xs]
theorem concF_refl : ∀ xs : List (String × Val), concF xs xs = true
  | [] => rfl
  | (k, x) :: xs => by simp [concF, conc_refl x, concF_refl xs]
end

theorem concEnv_refl : ∀ ρ : Env, concEnv ρ ρ
  | [] => trivial
  | (_, v) :: ρ => ⟨rfl, conc_refl v, concEnv_refl ρ⟩

/-! ### lists -/

theorem concL_length : ∀ {xs ys : List Val}, concL xs ys = true → xs.length = ys.length
  | [], [], _ => rfl
  | [], _ :: _, h => by simp [concL] at h
  | _ :: _, [], h => by simp [concL] at h
  | x :: xs, y :: ys, h => by
    simp only [concL, Bool.and_eq_true] at h
    simp [concL_length h.2]

theorem concL_getElem? : ∀ {xs ys : List Val}, concL xs ys = true → ∀ i : Nat,
    match xs[i]?, ys[i]? with
    | some x, some y => conc x y = true
    | none, none => True
    | _, _ => False
  | [], [], _, i => by simp
  | [], _ :: _, h, _ => by simp [concL] at h
  | _ :: _, [], h, _ => by simp [concL] at h
  | x :: xs, y :: ys, h, i => by
    simp only [concL, Bool.and_eq_true] at h
    cases i with
    | zero => simpa using h.1
    | succ i => simpa using concL_getElem? h.2 i

theorem concL_append : ∀ {xs ys xs' ys' : List Val}, concL xs ys = true → concL xs' ys' = true →
    concL (xs ++ xs') (ys ++ ys') = true
  | [], [], _, _, _, h' => by simpa using h'
  | [], _ :: _, _, _, h, _ => by simp [concL] at h
  | _ :: _, [], _, _, h, _ => by simp [concL] at h
  | x :: xs, y :: ys, _, _, h, h' => by
    simp only [concL, Bool.and_eq_true] at h
    simp [concL, h.1, concL_append h.2 h']

theorem concL_singleton {x y : Val} (h : conc x y = true) : concL [x] [y] = true := by
  simp [concL, h]

theorem concL_map_withFl : ∀ {xs ys : List Val} (f g : Fl), concL xs ys = true →
    concL (xs.map fun x => x.withFl f) (ys.map fun x => x.withFl g) = true
  | [], [], _, _, _ => rfl
  | [], _ :: _, _, _, h => by simp [concL] at h
  | _ :: _, [], _, _, h => by simp [concL] at h
  | x :: xs, y :: ys, f, g, h => by
    simp only [concL, Bool.and_eq_true] at h
    simp [concL, h.1, concL_map_withFl f g h.2]

theorem concF_lookup : ∀ {xs ys : List (String × Val)}, concF xs ys = true → ∀ k : String,
    match lookupKey k xs, lookupKey k ys with
    | some x, some y => conc x y = true
    | none, none => True
    | _, _ => False
  | [], [], _, k => by simp [lookupKey]
  | [], _ :: _, h, _ => by simp [concF] at h
  | _ :: _, [], h, _ => by simp [concF] at h
  | (k1, x) :: xs, (k2, y) :: ys, h, k => by
    simp only [concF, Bool.and_eq_true, beq_iff_eq] at h
    obtain ⟨⟨h1, h2⟩, h3⟩ := h
    subst h1
    simp only [lookupKey]
    by_cases hk : k = k1
    · simp [hk, h2]
    · simp only [beq_iff_eq, hk, if_false]
      exact concF_lookup h3 k

theorem typeOfList_getElem? : ∀ (xs : List Val) (i : Nat), (typeOfList xs)[i]? = xs[i]?.map typeOf
  | [], i => by simp [typeOfList]
  | x :: xs, 0 => by simp [typeOfList]
  | x :: xs, i+1 => by simp [typeOfList, typeOfList_getElem? xs i]

theorem typeOfList_length : ∀ (xs : List Val), (typeOfList xs).length = xs.length
  | [] => rfl
  | x :: xs => by simp [typeOfList, typeOfList_length xs]

theorem typeOfFields_lookup : ∀ (xs : List (String × Val)) (k : String),
    lookupKey k (typeOfFields xs) = (lookupKey k xs).map typeOf
  | [], k => by simp [typeOfFields, lookupKey]
  | (k1, x) :: xs, k => by
    simp only [typeOfFields, lookupKey]
    split
    · simp
    · exact typeOfFields_lookup xs k

/-! ### `unmarkDeep` -/

mutual
theorem conc_unmarkDeep : ∀ (a v : Val), conc (unmarkDeep v) (unmarkDeep a) = conc v a
  | .unk _ _, v => by
    simp only [unmarkDeep, setFl, conc_unk, typeOf_unmarkDeep]
  | .null _ _, v => by cases v <;> simp [unmarkDeep, setFl, conc]
  | .str _ _, v => by cases v <;> simp [unmarkDeep, setFl, conc]
  | .num _ _, v => by cases v <;> simp [unmarkDeep, setFl, conc]
  | .bool _ _, v => by cases v <;> simp [unmarkDeep, setFl, conc]
  | .list _ _ ys, v => by cases v <;> simp [unmarkDeep, setFl, conc, concL_unmarkDeep ys]
  | .tuple _ ys, v => by cases v <;> simp [unmarkDeep, setFl, conc, concL_unmarkDeep ys]
  | .map _ _ ys, v => by cases v <;> simp [unmarkDeep, setFl, conc, concF_unmarkDeep ys]
  | .object _ ys, v => by cases v <;> simp [unmarkDeep, setFl, conc, concF_unmarkDeep ys]
theorem concL_unmarkDeep : ∀ (ys xs : List Val), concL (unmarkDeepList xs) (unmarkDeepList ys) = concL xs ys
  | [], xs => by cases xs <;> simp [unmarkDeepList, concL]
  | y :: ys, xs => by
    cases xs with
    | nil => simp [unmarkDeepList, concL]
    | cons x xs => simp [unmarkDeepList, concL, conc_unmarkDeep y x, concL_unmarkDeep ys xs]
theorem concF_unmarkDeep : ∀ (ys xs : List (String × Val)),
    concF (unmarkDeepFields xs) (unmarkDeepFields ys) = concF xs ys
  | [], xs => by
    cases xs with
    | nil => simp [unmarkDeepFields, concF]
    | cons x xs => obtain ⟨k, x⟩ := x; simp [unmarkDeepFields, concF]
  | (l, y) :: ys, xs => by
    cases xs with
    | nil => simp [unmarkDeepFields, concF]
    | cons x xs =>
      obtain ⟨k, x⟩ := x
      simp [unmarkDeepFields, concF, conc_unmarkDeep y x, concF_unmarkDeep ys xs]
end

theorem unmarkDeepList_eq_map (xs : List Val) : unmarkDeepList xs = xs.map unmarkDeep := by
  induction xs with
  | nil => rfl
  | cons x xs ih => simp [unmarkDeepList, ih]

/-! ### erasure of all flags -/

mutual
def er : Val → Val
  | .unk _ t => .unk Fl.none t
  | .null _ t => .null Fl.none t
  | .str _ s => .str Fl.none s
  | .num _ q => .num Fl.none q
  | .bool _ b => .bool Fl.none b
  | .list _ t xs => .list Fl.none t (erL xs)
  | .tuple _ xs => .tuple Fl.none (erL xs)
  | .map _ t kvs => .map Fl.none t (erF kvs)
  | .object _ kvs => .object Fl.none (erF kvs)
def erL : List Val → List Val
  | [] => []
  | x :: xs => er x :: erL xs
def erF : List (String × Val) → List (String × Val)
  | [] => []
  | (k, x) :: xs => (k, er x) :: erF xs
end

mutual
theorem eqErased_iff : ∀ (a b : Val), eqErased a b = true ↔ er a = er b
  | .unk _ _, b => by cases b <;> simp [eqErased, er]
  | .null _ _, b => by cases b <;> simp [eqErased, er]
  | .str _ _, b => by cases b <;> simp [eqErased, er]
  | .num _ _, b => by cases b <;> simp [eqErased, er]
  | .bool _ _, b => by cases b <;> simp [eqErased, er]
  | .list _ _ xs, b => by cases b <;> simp [eqErased, er, eqErasedList_iff xs]
  | .tuple _ xs, b => by cases b <;> simp [eqErased, er, eqErasedList_iff xs]
  | .map _ _ xs, b => by cases b <;> simp [eqErased, er, eqErasedFields_iff xs]
  | .object _ xs, b => by cases b <;> simp [eqErased, er, eqErasedFields_iff xs]
theorem eqErasedList_iff : ∀ (xs ys : List Val), eqErasedList xs ys = true ↔ erL xs = erL ys
  | [], ys => by cases ys <;> simp [eqErasedList, erL]
  | x :: xs, ys => by
    cases ys with
    | nil => simp [eqErasedList, erL]
    | cons y ys => simp [eqErasedList, erL, eqErased_iff x y, eqErasedList_iff xs ys]
theorem eqErasedFields_iff : ∀ (xs ys : List (String × Val)), eqErasedFields xs ys = true ↔ erF xs = erF ys
  | [], ys => by
    cases ys with
    | nil => simp [eqErasedFields, erF]
    | cons y ys => obtain ⟨l, y⟩ := y; simp [eqErasedFields, erF]
  | (k, x) :: xs, ys => by
    cases ys with
    | nil => simp [eqErasedFields, erF]
    | cons y ys =>
      obtain ⟨l, y⟩ := y
      simp [eqErasedFields, erF, eqErased_iff x y, eqErasedFields_iff xs ys, and_assoc]
end

mutual
theorem er_of_conc : ∀ (a v : Val), conc v a = true → whollyKnown a = true → er v = er a
  | .unk _ _, v, _, hk => by simp [whollyKnown] at hk
  | .null _ _, v, h, _ => by obtain ⟨f, rfl⟩ := conc_null_inv h; simp [er]
  | .str _ _, v, h, _ => by obtain ⟨f, rfl⟩ := conc_str_inv h; simp [er]
  | .num _ _, v, h, _ => by obtain ⟨f, rfl⟩ := conc_num_inv h; simp [er]
  | .bool _ _, v, h, _ => by obtain ⟨f, rfl⟩ := conc_bool_inv h; simp [er]
  | .list _ _ ys, v, h, hk => by
    obtain ⟨f, xs, rfl, h2⟩ := conc_list_inv h
    simp only [whollyKnown] at hk
    simp [er, erL_of_conc ys xs h2 hk]
  | .tuple _ ys, v, h, hk => by
    obtain ⟨f, xs, rfl, h2⟩ := conc_tuple_inv h
    simp only [whollyKnown] at hk
    simp [er, erL_of_conc ys xs h2 hk]
  | .map _ _ ys, v, h, hk => by
    obtain ⟨f, xs, rfl, h2⟩ := conc_map_inv h
    simp only [whollyKnown] at hk
    simp [er, erF_of_conc ys xs h2 hk]
  | .object _ ys, v, h, hk => by
    obtain ⟨f, xs, rfl, h2⟩ := conc_object_inv h
    simp only [whollyKnown] at hk
    simp [er, erF_of_conc ys xs h2 hk]
theorem erL_of_conc : ∀ (ys xs : List Val), concL xs ys = true → whollyKnownList ys = true → erL xs = erL ys
  | [], xs, h, _ => by cases xs <;> simp_all [concL, erL]
  | y :: ys, xs, h, hk => by
    cases xs with
    | nil => simp [concL] at h
    | cons x xs =>
      simp only [concL, Bool.and_eq_true] at h
      simp only [whollyKnownList, Bool.and_eq_true] at hk
      simp [erL, er_of_conc y x h.1 hk.1, erL_of_conc ys xs h.2 hk.2]
theorem erF_of_conc : ∀ (ys xs : List (String × Val)), concF xs ys = true → whollyKnownFields ys = true →
    erF xs = erF ys
  | [], xs, h, _ => by
    cases xs with
    | nil => rfl
    | cons x xs => obtain ⟨k, x⟩ := x; simp [concF] at h
  | (l, y) :: ys, xs, h, hk => by
    cases xs with
    | nil => simp [concF] at h
    | cons x xs =>
      obtain ⟨k, x⟩ := x
      simp only [concF, Bool.and_eq_true, beq_iff_eq] at h
      simp only [whollyKnownFields, Bool.and_eq_true] at hk
      simp [erF, h.1.1, er_of_conc y x h.1.2 hk.1, erF_of_conc ys xs h.2 hk.2]
end

mutual
theorem typeOf_er : ∀ a : Val, typeOf (er a) = typeOf a
  | .unk _ _ | .null _ _ | .str _ _ | .num _ _ | .bool _ _ | .list _ _ _ | .map _ _ _ => by simp [er, typeOf]
  | .tuple _ xs => by simp [er, typeOf, typeOfList_er xs]
  | .object _ xs => by simp [er, typeOf, typeOfFields_er xs]
theorem typeOfList_er : ∀ xs : List Val, typeOfList (erL xs) = typeOfList xs
  | [] => rfl
  | x :: xs => by simp [erL, typeOfList, typeOf_er x, typeOfList_er xs]
theorem typeOfFields_er : ∀ xs : List (String × Val), typeOfFields (erF xs) = typeOfFields xs
  | [] => rfl
  | (k, x) :: xs => by simp [erF, typeOfFields, typeOf_er x, typeOfFields_er xs]
end

mutual
theorem whollyKnown_er : ∀ a : Val, whollyKnown (er a) = whollyKnown a
  | .unk _ _ | .null _ _ | .str _ _ | .num _ _ | .bool _ _ => by simp [er, whollyKnown]
  | .list _ _ xs | .tuple _ xs => by simp [er, whollyKnown, whollyKnownList_er xs]
  | .map _ _ xs | .object _ xs => by simp [er, whollyKnown, whollyKnownFields_er xs]
theorem whollyKnownList_er : ∀ xs : List Val, whollyKnownList (erL xs) = whollyKnownList xs
  | [] => rfl
  | x :: xs => by simp [erL, whollyKnownList, whollyKnown_er x, whollyKnownList_er xs]
theorem whollyKnownFields_er : ∀ xs : List (String × Val), whollyKnownFields (erF xs) = whollyKnownFields xs
  | [] => rfl
  | (k, x) :: xs => by simp [erF, whollyKnownFields, whollyKnown_er x, whollyKnownFields_er xs]
end

/-- against a wholly known abstract value the concrete value is the same up to flags -/
theorem conc_whollyKnown {v a : Val} (h : conc v a = true) (hk : whollyKnown a = true) :
    typeOf v = typeOf a ∧ whollyKnown v = true := by
  have he := er_of_conc a v h hk
  constructor
  · rw [← typeOf_er v, he, typeOf_er]
  · rw [← whollyKnown_er v, he, whollyKnown_er, hk]

theorem eqErased_conc {v a w b : Val} (h1 : conc v a = true) (k1 : whollyKnown a = true)
    (h2 : conc w b = true) (k2 : whollyKnown b = true) : eqErased v w = eqErased a b := by
  have e1 := er_of_conc a v h1 k1
  have e2 := er_of_conc b w h2 k2
  rw [Bool.eq_iff_iff, eqErased_iff, eqErased_iff, e1, e2]

/-! ### well-typed values -/

@[simp] theorem wfVal_setFl (v : Val) (f : Fl) : wfVal (v.setFl f) = wfVal v := by
  cases v <;> simp [setFl, wfVal]
@[simp] theorem wfVal_withFl (v : Val) (f : Fl) : wfVal (v.withFl f) = wfVal v := by simp [withFl]

theorem wfElems_mem : ∀ {t : Ty} {xs : List Val}, wfElems t xs = true → ∀ x ∈ xs, typeOf x = t ∧ wfVal x = true
  | _, [], _, x, hx => by simp at hx
  | t, y :: ys, h, x, hx => by
    simp only [wfElems, Bool.and_eq_true, beq_iff_eq] at h
    rcases List.mem_cons.mp hx with rfl | hx
    · exact h.1
    · exact wfElems_mem h.2 x hx

theorem wfElems_of_mem : ∀ {t : Ty} {xs : List Val}, (∀ x ∈ xs, typeOf x = t ∧ wfVal x = true) → wfElems t xs = true
  | _, [], _ => rfl
  | t, y :: ys, h => by
    simp only [wfElems, Bool.and_eq_true, beq_iff_eq]
    exact ⟨h y (by simp), wfElems_of_mem fun x hx => h x (by simp [hx])⟩

theorem wfElemsF_lookup : ∀ {t : Ty} {xs : List (String × Val)}, wfElemsF t xs = true →
    ∀ {k x}, lookupKey k xs = some x → typeOf x = t ∧ wfVal x = true
  | _, [], _, k, x, hx => by simp [lookupKey] at hx
  | t, (k', y) :: ys, h, k, x, hx => by
    simp only [wfElemsF, Bool.and_eq_true, beq_iff_eq] at h
    simp only [lookupKey] at hx
    split at hx
    · cases hx; exact h.1
    · exact wfElemsF_lookup h.2 hx

theorem wfElemsF_mem : ∀ {t : Ty} {xs : List (String × Val)}, wfElemsF t xs = true →
    ∀ p ∈ xs, typeOf p.2 = t ∧ wfVal p.2 = true
  | _, [], _, x, hx => by simp at hx
  | t, (k, y) :: ys, h, x, hx => by
    simp only [wfElemsF, Bool.and_eq_true, beq_iff_eq] at h
    rcases List.mem_cons.mp hx with rfl | hx
    · exact h.1
    · exact wfElemsF_mem h.2 x hx

theorem wfList_mem : ∀ {xs : List Val}, wfList xs = true → ∀ x ∈ xs, wfVal x = true
  | [], _, x, hx => by simp at hx
  | y :: ys, h, x, hx => by
    simp only [wfList, Bool.and_eq_true] at h
    rcases List.mem_cons.mp hx with rfl | hx
    · exact h.1
    · exact wfList_mem h.2 x hx

theorem wfList_of_mem : ∀ {xs : List Val}, (∀ x ∈ xs, wfVal x = true) → wfList xs = true
  | [], _ => rfl
  | y :: ys, h => by
    simp only [wfList, Bool.and_eq_true]
    exact ⟨h y (by simp), wfList_of_mem fun x hx => h x (by simp [hx])⟩

theorem wfFields_mem : ∀ {xs : List (String × Val)}, wfFields xs = true → ∀ p ∈ xs, wfVal p.2 = true
  | [], _, x, hx => by simp at hx
  | (k, y) :: ys, h, x, hx => by
    simp only [wfFields, Bool.and_eq_true] at h
    rcases List.mem_cons.mp hx with rfl | hx
    · exact h.1
    · exact wfFields_mem h.2 x hx

theorem wfFields_of_mem : ∀ {xs : List (String × Val)}, (∀ p ∈ xs, wfVal p.2 = true) → wfFields xs = true
  | [], _ => rfl
  | (k, y) :: ys, h => by
    simp only [wfFields, Bool.and_eq_true]
    exact ⟨h (k, y) (by simp), wfFields_of_mem fun x hx => h x (by simp [hx])⟩

theorem lookupKey_mem {α : Type} : ∀ {xs : List (String × α)} {k : String} {x : α},
    lookupKey k xs = some x → (k, x) ∈ xs
  | [], k, x, h => by simp [lookupKey] at h
  | (k', y) :: ys, k, x, h => by
    simp only [lookupKey] at h
    split at h
    · rename_i hk; cases h; simp at hk; simp [hk]
    · exact List.mem_cons_of_mem _ (lookupKey_mem h)

theorem wfFields_lookup {xs : List (String × Val)} (h : wfFields xs = true) {k : String} {x : Val}
    (hx : lookupKey k xs = some x) : wfVal x = true :=
  wfFields_mem h (k, x) (lookupKey_mem hx)

mutual
theorem wfVal_unmarkDeep : ∀ v : Val, wfVal (unmarkDeep v) = wfVal v
  | .unk _ _ | .null _ _ | .str _ _ | .num _ _ | .bool _ _ => by simp [unmarkDeep, wfVal, setFl]
  | .list _ t xs => by simp [unmarkDeep, wfVal, wfElems_unmarkDeep t xs]
  | .tuple _ xs => by simp [unmarkDeep, wfVal, wfList_unmarkDeep xs]
  | .map _ t xs => by simp [unmarkDeep, wfVal, wfElemsF_unmarkDeep t xs]
  | .object _ xs => by simp [unmarkDeep, wfVal, wfFields_unmarkDeep xs]
theorem wfElems_unmarkDeep : ∀ (t : Ty) (xs : List Val), wfElems t (unmarkDeepList xs) = wfElems t xs
  | _, [] => rfl
  | t, x :: xs => by
    simp [unmarkDeepList, wfElems, typeOf_unmarkDeep x, wfVal_unmarkDeep x, wfElems_unmarkDeep t xs]
theorem wfElemsF_unmarkDeep : ∀ (t : Ty) (xs : List (String × Val)),
    wfElemsF t (unmarkDeepFields xs) = wfElemsF t xs
  | _, [] => rfl
  | t, (k, x) :: xs => by
    simp [unmarkDeepFields, wfElemsF, typeOf_unmarkDeep x, wfVal_unmarkDeep x, wfElemsF_unmarkDeep t xs]
theorem wfList_unmarkDeep : ∀ (xs : List Val), wfList (unmarkDeepList xs) = wfList xs
  | [] => rfl
  | x :: xs => by simp [unmarkDeepList, wfList, wfVal_unmarkDeep x, wfList_unmarkDeep xs]
theorem wfFields_unmarkDeep : ∀ (xs : List (String × Val)), wfFields (unmarkDeepFields xs) = wfFields xs
  | [] => rfl
  | (k, x) :: xs => by simp [unmarkDeepFields, wfFields, wfVal_unmarkDeep x, wfFields_unmarkDeep xs]
end

end HclModel.Proofs.Unk
