import Proofs.OpParser
import HclModel.Syntax.OpTable
/-!
`parenthesize` produces a well-parenthesised tree (`WP`) and only adds parentheses.
-/
namespace HclModel.OpParser.Proofs

theorem parenthesize_wp_gen (T : Tbl) : ∀ (e : E) (d : Nat), d ≤ T.L → opsKnown T e →
    WP T d (parenthesize T d e) := by
  intro e
  induction e with
  | atom n => intro d _ _; simp only [parenthesize]; exact WP.atom _ _
  | paren e ih =>
    intro d _ h
    simp only [parenthesize]
    exact WP.paren _ _ (ih T.L (Nat.le_refl _) h)
  | bin k l r ihl ihr =>
    intro d hd h
    obtain ⟨hk, hl, hr⟩ := h
    cases hlv : T.lv k with
    | none => rw [hlv] at hk; simp at hk
    | some j =>
      have hj := T.ok k j hlv
      have hbody : WP T j (E.bin k (parenthesize T j l) (parenthesize T (j - 1) r)) :=
        WP.bin _ k j _ _ hlv (Nat.le_refl _) (ihl j hj.2 hl) (ihr (j - 1) (by omega) hr)
      simp only [parenthesize, hlv]
      split
      · rename_i hle
        exact WP.bin _ k j _ _ hlv hle (ihl j hj.2 hl) (ihr (j - 1) (by omega) hr)
      · exact WP.paren _ _ (WP.bin _ k j _ _ hlv hj.2 (ihl j hj.2 hl) (ihr (j - 1) (by omega) hr))

theorem parenthesize_wp (T : Tbl) (e : E) (h : opsKnown T e) : WP T T.L (parenthesize T T.L e) :=
  parenthesize_wp_gen T e T.L (Nat.le_refl _) h

theorem parenthesize_erase (T : Tbl) (d : Nat) (e : E) :
    eraseParens (parenthesize T d e) = eraseParens e := by
  induction e generalizing d with
  | atom n => simp [parenthesize]
  | paren e ih => simp [parenthesize, eraseParens, ih]
  | bin k l r ihl ihr =>
    cases hlv : T.lv k with
    | none => simp [parenthesize, hlv]
    | some j =>
      simp only [parenthesize, hlv]
      split <;> simp [eraseParens, ihl, ihr]

end HclModel.OpParser.Proofs
