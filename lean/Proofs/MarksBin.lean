import Proofs.MarksRel
/-!
C06: binary operators (`callBin`, `shortCircuit`, `evalBin`).
-/
set_option linter.unusedSimpArgs false
namespace HclModel.Proofs
open Val

theorem equalsKnown_er (a b : Val) : equalsKnown a b = equalsKnown (er a) (er b) := by
  unfold equalsKnown
  simp only [isNull_er, isKnown_er]
  cases hna : a.isNull <;> cases hnb : b.isNull <;> cases ha : a.isKnown <;> cases hb : b.isKnown <;>
    simp [typeOf_er, whollyKnown_er, eqErased_er_left, eqErased_er_right] <;> simp only [typeOf_er]

theorem callBin_relC_other (op : BinOp) (hop : op ≠ .eq ∧ op ≠ .ne) {a a' b b' v v' : Val} (ha : relC a a' = true) (hb : relC b b' = true)
    (h1 : callBin op a b = .ok v) (h2 : callBin op a' b' = .ok v') : relC v v' = true := by
  cases op <;> simp at hop <;>
  cases a <;> cases a' <;> simp [relC] at ha <;> cases b <;> cases b' <;> simp [relC] at hb <;>
    (try subst ha) <;> (try subst hb) <;>
    simp [callBin, isNull, pure, Except.pure, throw, throwThe, MonadExceptOf.throw] at h1 h2 <;>
    (try (subst h1; subst h2; simp [relC]; done))
  all_goals
    (repeat' (split at h1)) <;> (try (simp at h1; done)) <;>
    (repeat' (split at h2)) <;> (try (simp at h2; done)) <;>
    (simp at h1 h2; subst h1; subst h2; simp [relC])

theorem callBin_eq_form (op : BinOp) (hop : op = .eq ∨ op = .ne) (a b v : Val) (h : callBin op a b = .ok v) :
    (v = .unk ((flagsDeep a).join (flagsDeep b)) .bool ∧ equalsKnown a.unmarkDeep b.unmarkDeep = .ok none) ∨
    (∃ r, v = .bool ((flagsDeep a).join (flagsDeep b)) (if op = .eq then r else !r) ∧
      equalsKnown a.unmarkDeep b.unmarkDeep = .ok (some r)) := by
  rcases hop with rfl | rfl <;>
  · simp only [callBin, bind, Except.bind] at h
    cases he : equalsKnown a.unmarkDeep b.unmarkDeep with
    | error e => simp [he] at h
    | ok o =>
      cases o with
      | none => simp [he, pure, Except.pure] at h; left; exact ⟨h.symm, rfl⟩
      | some r => simp [he, pure, Except.pure] at h; right; exact ⟨r, h.symm, rfl⟩

theorem callBin_eq_rel (op : BinOp) (hop : op = .eq ∨ op = .ne) {a a' b b' v v' : Val}
    (ha : relV a a' = true) (hb : relV b b' = true)
    (h1 : callBin op a b = .ok v) (h2 : callBin op a' b' = .ok v') : relV v v' = true := by
  have f1 := callBin_eq_form op hop a b v h1
  have f2 := callBin_eq_form op hop a' b' v' h2
  by_cases he : eqErased a a' = true ∧ eqErased b b' = true
  · have e1 := er_eq_of_eqErased _ _ he.1
    have e2 := er_eq_of_eqErased _ _ he.2
    have : equalsKnown a.unmarkDeep b.unmarkDeep = equalsKnown a'.unmarkDeep b'.unmarkDeep := by
      rw [equalsKnown_er, er_unmarkDeep, er_unmarkDeep, e1, e2, ← er_unmarkDeep a', ← er_unmarkDeep b', ← equalsKnown_er]
    rw [this] at f1
    rcases f1 with ⟨rfl, g1⟩ | ⟨r, rfl, g1⟩ <;> rcases f2 with ⟨rfl, g2⟩ | ⟨r', rfl, g2⟩
    · simp [relV]
    · rw [g1] at g2; simp at g2
    · rw [g1] at g2; simp at g2
    · rw [g1] at g2; simp at g2; subst g2; simp [relV]
  · have hm : ((flagsDeep a).join (flagsDeep b)).m = true ∧ ((flagsDeep a').join (flagsDeep b')).m = true := by
      have he : eqErased a a' = false ∨ eqErased b b' = false := by
        cases h1 : eqErased a a' <;> cases h2 : eqErased b b' <;> simp_all
      rcases he with he | he
      · have := rel_differ_marked _ _ ha he
        simp [← hasMarkDeep_eq, this.1, this.2]
      · have := rel_differ_marked _ _ hb he
        simp [← hasMarkDeep_eq, this.1, this.2]
    apply relV_top
    · rcases f1 with ⟨rfl, _⟩ | ⟨r, rfl, _⟩ <;> simpa using hm.1
    · rcases f2 with ⟨rfl, _⟩ | ⟨r, rfl, _⟩ <;> simpa using hm.2

theorem evalBin_nil {op : BinOp} {gl gr : Val} {ld rd : List Diag}
    (h : (evalBin true op (gl, ld) (gr, rd)).2 = []) :
    ld = [] ∧ rd = [] ∧ ∃ l r v, tryConvert gl op.paramTy = .ok l ∧ tryConvert gr op.paramTy = .ok r ∧
      ((∃ ds, shortCircuit op l.unmark.1 r.unmark.1 [] [] = some (v, ds)) ∨
        (shortCircuit op l.unmark.1 r.unmark.1 [] [] = none ∧ callBin op l.unmark.1 r.unmark.1 = .ok v)) ∧
      evalBin true op (gl, ld) (gr, rd) = (v.withFl (l.fl.join r.fl), []) := by
  unfold evalBin at h ⊢
  simp only [] at h ⊢
  split at h
  · rename_i l r hl hr
    simp only [hl, hr]
    simp only [unmark] at h ⊢
    split at h
    · rename_i v ds hs
      simp only [if_true, List.append_eq_nil_iff] at h
      obtain ⟨rfl, rfl⟩ := h
      refine ⟨rfl, rfl, l, r, v, rfl, rfl, Or.inl ⟨ds, hs⟩, ?_⟩
      simp [hs]
    · rename_i hs
      split at h
      · rename_i he
        simp only [] at h
        rw [h] at he; simp [hasErrors] at he
      · rename_i he
        have hd : ld ++ rd = [] := by
          cases hh : ld ++ rd with
          | nil => rfl
          | cons d ds => rw [hh] at he; simp [hasErrors] at he
        simp only [List.append_eq_nil_iff] at hd
        obtain ⟨rfl, rfl⟩ := hd
        split at h
        · rename_i v hv
          refine ⟨rfl, rfl, l, r, v, rfl, rfl, Or.inr ⟨hs, hv⟩, ?_⟩
          simp [hs, hv, hasErrors]
        · simp at h
        · simp at h
  · simp only [] at h
    rename_i cl cr hne
    cases hcl : tryConvert gl op.paramTy <;> cases hcr : tryConvert gr op.paramTy <;> simp [hcl, hcr] at h
    exact absurd hcr (by intro hcr; exact hne _ _ hcl hcr)
theorem evalBin_rel (op : BinOp) (lo lo' ro ro' : Out) (hl : relV lo.1 lo'.1 = true) (hr : relV ro.1 ro'.1 = true)
    (h1 : (evalBin true op lo ro).2 = []) (h2 : (evalBin true op lo' ro').2 = []) :
    relV (evalBin true op lo ro).1 (evalBin true op lo' ro').1 = true := by
  obtain ⟨gl, ld⟩ := lo
  obtain ⟨gr, rd⟩ := ro
  obtain ⟨gl', ld'⟩ := lo'
  obtain ⟨gr', rd'⟩ := ro'
  obtain ⟨-, -, l, r, v, c1, c2, hv, e1⟩ := evalBin_nil h1
  obtain ⟨-, -, l', r', v', c1', c2', hv', e2⟩ := evalBin_nil h2
  rw [e1, e2]
  simp only [] at hl hr ⊢
  have rl := tryConvert_rel hl c1 c1'
  have rr := tryConvert_rel hr c2 c2'
  rcases relV_cases rl with ⟨m, m'⟩ | cl
  · exact relV_withFl_top _ _ (by simp [m]) (by simp [m'])
  rcases relV_cases rr with ⟨m, m'⟩ | cr
  · exact relV_withFl_top _ _ (by simp [m]) (by simp [m'])
  apply relV_withFl
  have cl' : relC l.unmark.1 l'.unmark.1 = true := by simpa using cl
  have cr' : relC r.unmark.1 r'.unmark.1 = true := by simpa using cr
  have hs := shortCircuit_relC op cl' cr'
  rcases hv with ⟨ds, hv⟩ | ⟨hn, hv⟩ <;> rcases hv' with ⟨ds', hv'⟩ | ⟨hn', hv'⟩
  · rw [hs, hv'] at hv; cases hv; exact relV_refl _
  · rw [hs, hn'] at hv; cases hv
  · rw [hs, hv'] at hn; cases hn
  · by_cases hop : op = .eq ∨ op = .ne
    · exact callBin_eq_rel op hop (relV_of_relC cl') (relV_of_relC cr') hv hv'
    · exact relV_of_relC (callBin_relC_other op (by simpa [not_or] using hop) cl' cr' hv hv')
end HclModel.Proofs
