import Proofs.TaintLoops
import Proofs.MarksCall
/-!
C19: templates, template joins and function calls.
-/
set_option linter.unusedSimpArgs false
set_option linter.unusedVariables false
set_option linter.unusedTactic false
namespace HclModel.Proofs
open Val

theorem foldl_inv {σ α : Type} (P : σ → Prop) (stepf : σ → α → σ) :
    ∀ (els : List α) (st : σ), P st → (∀ st x, x ∈ els → P st → P (stepf st x)) → P (els.foldl stepf st)
  | [], st, h, _ => h
  | x :: els, st, h, hs => by
    simp only [List.foldl_cons]
    exact foldl_inv P stepf els _ (hs st x (by simp) h) (fun st y hy => hs st y (by simp [hy]))

/-! ### templates -/

theorem tmplStep_fl {st : TSt} {o : Out} (h : flOK st.2.2.1) (ho : tw false o.1 = true) :
    flOK (tmplStep st o).2.2.1 := by
  obtain ⟨ds, known, ms, buf⟩ := st
  obtain ⟨pv, pd⟩ := o
  have hj := flOK_join h (tw_flOK ho)
  unfold tmplStep
  dsimp only [unmark]
  repeat' split
  all_goals first
    | exact h
    | exact hj

theorem tmplStep_frags {st : TSt} {o : Out} (h : fragsClean st.1) (ho : fragsClean o.2) :
    fragsClean (tmplStep st o).1 := by
  obtain ⟨ds, known, ms, buf⟩ := st
  obtain ⟨pv, pd⟩ := o
  have hj := fragsClean_append h ho
  unfold tmplStep
  dsimp only [unmark]
  repeat' split
  all_goals first
    | exact hj
    | exact fragsClean_append hj (fragsClean_single_free rfl)
    | exact fragsClean_append hj (fragsClean_single_free (tryConvert_err_frags ‹_›))
    | exact fragsClean_append hj (fragsClean_single_free (frags_ite_free (tryConvert_err_frags ‹_›) rfl))

theorem tmplOut_tw {st : TSt} (h : flOK st.2.2.1) : tw false (tmplOut st).1 = true := by
  obtain ⟨ds, known, ms, buf⟩ := st
  unfold tmplOut
  dsimp only
  split
  · have := tw_unk_of h .str
    simpa [tw] using this
  · exact tw_unk_of h _

theorem tmplOut_snd (st : TSt) : (tmplOut st).2 = st.1 := by
  obtain ⟨ds, known, ms, buf⟩ := st
  unfold tmplOut
  dsimp only
  split <;> rfl

theorem template_tw (outs : List Out) (h : ∀ o ∈ outs, tw false o.1 = true) :
    tw false (tmplOut (outs.foldl tmplStep (([] : List Diag), true, Fl.none, ""))).1 = true :=
  tmplOut_tw (foldl_inv (fun st : TSt => flOK st.2.2.1) tmplStep outs _ flOK_none
    (fun st o ho hst => tmplStep_fl hst (h o ho)))

theorem template_frags (outs : List Out) (h : ∀ o ∈ outs, fragsClean o.2) :
    fragsClean (tmplOut (outs.foldl tmplStep (([] : List Diag), true, Fl.none, ""))).2 := by
  rw [tmplOut_snd]
  exact foldl_inv (fun st : TSt => fragsClean st.1) tmplStep outs _ fragsClean_nil
    (fun st o ho hst => tmplStep_frags hst (h o ho))

/-! ### template join -/

theorem tjoinLoop_tw (tm : Fl) (htm : flOK tm) : ∀ (xs : List Val) (ds : List Diag) (ms : Fl) (buf : String),
    (∀ x ∈ xs, tw tm.m x = true) → (tm.m = true → ms.m = true) → flOK ms →
    tw false (tjoinLoop tm xs ds ms buf).1 = true
  | [], ds, ms, buf, _, _, hms => by
    unfold tjoinLoop
    have := tw_unk_of hms .str
    simpa [tw] using this
  | x :: xs, ds, ms, buf, hx, hmono, hms => by
    have hxs : ∀ y ∈ xs, tw tm.m y = true := fun y hy => hx y (by simp [hy])
    unfold tjoinLoop
    split
    · exact tjoinLoop_tw tm htm xs _ _ _ hxs hmono hms
    · split
      · exact tw_withFl (tw_unk_of flOK_none _) htm
      · split
        · exact tjoinLoop_tw tm htm xs _ _ _ hxs hmono hms
        · rename_i sv hsv
          split
          · exact tw_withFl (tw_unk_of flOK_none _) htm
          · split
            · rename_i f s
              refine tjoinLoop_tw tm htm xs _ _ _ hxs (fun h => by simp [hmono h]) ?_
              intro hg
              simp only [join_g, join_m, Bool.or_eq_true] at hg ⊢
              rcases hg with hg | hg
              · exact Or.inl (hms hg)
              · have e : f = x.fl := by have := tryConvert_fl hsv; simpa using this
                rw [e] at hg ⊢
                rcases tw_top (hx x (by simp)) hg with h1 | h1
                · exact Or.inl (hmono h1)
                · exact Or.inr h1
            · exact tjoinLoop_tw tm htm xs _ _ _ hxs hmono hms

theorem tjoinLoop_frags (tm : Fl) : ∀ (xs : List Val) (ds : List Diag) (ms : Fl) (buf : String),
    fragsClean ds → fragsClean (tjoinLoop tm xs ds ms buf).2
  | [], ds, ms, buf, h => by unfold tjoinLoop; exact h
  | x :: xs, ds, ms, buf, h => by
    unfold tjoinLoop
    split
    · exact tjoinLoop_frags tm xs _ _ _ (fragsClean_append h (fragsClean_single_free rfl))
    · split
      · exact h
      · split
        · exact tjoinLoop_frags tm xs _ _ _
            (fragsClean_append h (fragsClean_single_free (frags_ite_free (tryConvert_err_frags ‹_›) rfl)))
        · split
          · exact h
          · split
            · exact tjoinLoop_frags tm xs _ _ _ h
            · exact tjoinLoop_frags tm xs _ _ _ h

theorem tjoinOut_tw (o : Out) (h : tw false o.1 = true) : tw false (tjoinOut o).1 = true := by
  obtain ⟨tv, ds⟩ := o
  unfold tjoinOut
  dsimp only
  split
  · exact tw_unk_of flOK_none _
  · split
    · exact tw_unk_of flOK_none _
    · dsimp only [unmark]
      split
      · rename_i f xs hxs
        have hu := tw_unmark h
        rw [unmark_fst, hxs, tw_tuple_iff, Bool.and_eq_true] at hu
        have hf : f.m = false := by
          have := congrArg (fun v => v.fl.m) hxs
          simpa using this.symm
        refine tjoinLoop_tw tv.fl (tw_flOK h) xs ds tv.fl "" ?_ (fun h => h) (tw_flOK h)
        intro x hx
        have := twL_mem hu.2 x hx
        simpa [hf] using this
      · exact tw_dynVal _

theorem tjoinOut_frags (o : Out) (h : fragsClean o.2) : fragsClean (tjoinOut o).2 := by
  obtain ⟨tv, ds⟩ := o
  unfold tjoinOut
  dsimp only
  repeat' (first | split | dsimp only [unmark])
  all_goals first
    | exact h
    | exact tjoinLoop_frags _ _ _ _ _ h
    | exact fragsClean_free (frags_unsupportedOut _)

/-! ### function calls -/

theorem flagsDeepList_flOK : ∀ {args : List Val}, (∀ a ∈ args, tw false a = true) → flOK (flagsDeepList args)
  | [], _ => by simp [flagsDeepList]; exact flOK_none
  | a :: as, h => by
    simp only [flagsDeepList]
    exact flOK_join (flagsDeep_flOK (h a (by simp))) (flagsDeepList_flOK fun x hx => h x (by simp [hx]))

theorem flagsDeepList_m_false : ∀ {args : List Val}, (flagsDeepList args).m = false →
    ∀ a ∈ args, (flagsDeep a).m = false
  | [], _, _, ha => by cases ha
  | b :: bs, h, a, ha => by
    simp only [flagsDeepList, join_m, Bool.or_eq_false_iff] at h
    rcases List.mem_cons.mp ha with rfl | ha
    · exact h.1
    · exact flagsDeepList_m_false h.2 a ha

theorem untainted_unmarkDeep {a : Val} (h : untainted a = true) : untainted (unmarkDeep a) = true := by
  unfold untainted at h ⊢
  rw [flagsDeep_unmarkDeep_g]; exact h

theorem callFunc_tw (spec : FuncSpec) (args : List Val) (v : Val) (hargs : ∀ a ∈ args, tw false a = true)
    (hlaw : ∀ as r, (∀ a ∈ as, untainted a = true) → spec.impl as = .ok r → tw false r = true)
    (h : callFunc spec args = .ok v) : tw false v = true := by
  have hfl : flOK (flagsDeepList args) := flagsDeepList_flOK hargs
  unfold callFunc at h
  rw [fold_flags, none_join] at h
  split at h
  · cases h
  · split at h
    · cases h
      exact tw_withFl (tw_unk_of flOK_none _) hfl
    · split at h
      · cases h
        exact tw_withFl (tw_unk_of flOK_none _) hfl
      · simp only [bind, Except.bind, pure, Except.pure] at h
        split at h
        · cases h
        · rename_i r hr
          cases h
          cases hm : (flagsDeepList args).m
          · refine tw_withFl (hlaw _ r ?_ hr) hfl
            intro a ha
            obtain ⟨b, hb, rfl⟩ := List.mem_map.mp ha
            exact untainted_unmarkDeep (untainted_of_tw (hargs b hb) (flagsDeepList_m_false hm b hb))
          · exact tw_withFl_marked _ hm

theorem convertArgs_tw (spec : FuncSpec) : ∀ (vs : List Val) (ps : List Ty), (∀ a ∈ vs, tw false a = true) →
    ∀ a ∈ (convertArgs spec vs ps).1, tw false a = true
  | [], _, _ => by simp [convertArgs]
  | v :: vs, ps, h => by
    have ih := convertArgs_tw spec vs (nextParam spec ps).2 (fun a ha => h a (by simp [ha]))
    have hv := h v (by simp)
    rw [convertArgs_cons]
    split
    · intro a ha
      rcases List.mem_cons.mp ha with rfl | ha
      · exact hv
      · exact ih a ha
    · split
      · intro a ha
        rcases List.mem_cons.mp ha with rfl | ha
        · exact tryConvert_tw hv ‹_›
        · exact ih a ha
      · intro a ha
        rcases List.mem_cons.mp ha with rfl | ha
        · exact hv
        · exact ih a ha

theorem convertArgs_frags (spec : FuncSpec) : ∀ (vs : List Val) (ps : List Ty),
    ∀ d ∈ (convertArgs spec vs ps).2, d.frags = []
  | [], _ => by simp [convertArgs]
  | v :: vs, ps => by
    have ih := convertArgs_frags spec vs (nextParam spec ps).2
    rw [convertArgs_cons]
    split
    · exact ih
    · split
      · exact ih
      · intro d hd
        rcases List.mem_cons.mp hd with rfl | hd
        · exact frags_ite_free (tryConvert_err_frags ‹_›) rfl
        · exact ih d hd

/-- what the expansion of the final argument hands on -/
def ExpTw (x : Except Out (List Val × List Diag)) : Prop :=
  match x with
  | .error o => tw false o.1 = true
  | .ok (xs, _) => ∀ a ∈ xs, tw false a = true

def ExpFrags (x : Except Out (List Val × List Diag)) : Prop :=
  match x with
  | .error o => fragsClean o.2
  | .ok (_, ed) => fragsClean ed

theorem expandOut_err_val {eo o : Out} (h : expandOut eo = .error o) : o.1 = Val.dynVal := by
  obtain ⟨ev, ed⟩ := eo
  unfold expandOut at h
  dsimp only at h
  repeat' (split at h)
  all_goals first
    | (cases h; rfl)
    | (cases h; done)

theorem expandOut_tw (eo : Out) (h : tw false eo.1 = true) : ExpTw (expandOut eo) := by
  obtain ⟨ev, ed⟩ := eo
  cases hx : expandOut (ev, ed) with
  | error o =>
    show tw false o.1 = true
    rw [expandOut_err_val hx]; exact tw_dynVal _
  | ok p =>
    obtain ⟨xs, d⟩ := p
    have e := (expandOut_ok hx).1
    subst e
    intro a ha
    obtain ⟨x, hx', rfl⟩ := List.mem_map.mp ha
    refine tw_withFl_cover (i := ev.fl.m) ?_ (fun h => h) (tw_flOK h)
    have := splatItems_tw h x (by unfold splatItems; unfold expandElems at hx'; exact hx')
    simpa using this

theorem expandOut_frags (eo : Out) (h : fragsClean eo.2) : ExpFrags (expandOut eo) := by
  obtain ⟨ev, ed⟩ := eo
  unfold expandOut
  dsimp only
  repeat' (first | split | dsimp only [unmark])
  all_goals first
    | exact h
    | exact fragsClean_append h (fragsClean_single_free rfl)

theorem callOut_tw (spec : FuncSpec) (x : Except Out (List Val × List Diag)) (outs : List Out)
    (hx : ExpTw x) (ho : ∀ o ∈ outs, tw false o.1 = true)
    (hlaw : ∀ as r, (∀ a ∈ as, untainted a = true) → spec.impl as = .ok r → tw false r = true) :
    tw false (callOut spec x outs).1 = true := by
  unfold callOut
  split
  · exact hx
  · rename_i extra ed
    dsimp only
    repeat' split
    all_goals first
      | exact tw_dynVal _
      | skip
    rename_i v hv
    refine callFunc_tw spec _ v ?_ hlaw hv
    refine convertArgs_tw spec _ _ ?_
    intro a ha
    rcases List.mem_append.mp ha with ha | ha
    · obtain ⟨o, ho', rfl⟩ := List.mem_map.mp ha
      exact ho o ho'
    · exact hx a ha

theorem callOut_frags (spec : FuncSpec) (x : Except Out (List Val × List Diag)) (outs : List Out)
    (hx : ExpFrags x) (ho : ∀ o ∈ outs, fragsClean o.2) : fragsClean (callOut spec x outs).2 := by
  unfold callOut
  split
  · exact hx
  · rename_i extra ed
    have hds : fragsClean (ed ++ outs.flatMap (·.2) ++ (convertArgs spec (outs.map (·.1) ++ extra) spec.params).2) :=
      fragsClean_append (fragsClean_append hx (fragsClean_flatMap _ _ ho)) (fragsClean_free (convertArgs_frags _ _ _))
    dsimp only
    repeat' split
    all_goals first
      | exact hds
      | exact fragsClean_append hx (fragsClean_single_free rfl)
      | exact fragsClean_append hds (fragsClean_single_free rfl)


end HclModel.Proofs
