import HclModel.Conc.SymbolTable
/-!
Proofs for C17: isolation of the per-evaluation-context symbol table.

* `isolation`: the projection of an interleaving on thread `i`'s keys is thread `i`'s program.
* locality (`run_restrict`): running the projection of a trace on a key class `owns`, from the restriction
  of the table to that class, yields the restriction of the final table and exactly the reads of that class.
* `concurrent_eq_sequential`, `no_residue` follow.
-/
namespace HclModel.Conc.Proofs
open HclModel.Conc

/-! ## ownership is preserved along an interleaving -/

theorem ownKeys_set {owner : Key → Nat} {ps : List (List Op)} (hown : OwnKeys owner ps)
    {j : Nat} {op : Op} {rest : List Op} (hj : ps[j]? = some (op :: rest)) :
    OwnKeys owner (ps.set j rest) := by
  intro i p hp op' hop'
  rw [List.getElem?_set] at hp
  split at hp
  · next h =>
    subst h
    split at hp
    · cases hp
      exact hown j _ hj op' (List.mem_cons_of_mem _ hop')
    · cases hp
  · exact hown i p hp op' hop'

theorem isolation (owner : Key → Nat) (ps : List (List Op)) (tr : List Op)
    (hown : OwnKeys owner ps) (hint : Interleaving ps tr) (i : Nat) (p : List Op) (hp : ps[i]? = some p) :
    project (fun k => owner k = i) tr = p := by
  induction hint generalizing p with
  | nil ps h =>
    have := h p (List.mem_of_getElem? hp)
    simp [project, this]
  | step ps j op rest tr hj _ ih =>
    have hown' := ownKeys_set hown hj
    have hk : owner op.key = j := hown j _ hj op List.mem_cons_self
    have hlt : j < ps.length := by
      rcases Nat.lt_or_ge j ps.length with h | h
      · exact h
      · rw [List.getElem?_eq_none h] at hj; cases hj
    by_cases hij : j = i
    · subst hij
      rw [hj] at hp
      cases hp
      have h1 := ih hown' rest (by rw [List.getElem?_set]; simp [hlt])
      simp only [project] at h1 ⊢
      rw [List.filter_cons_of_pos (by simp [hk]), h1]
    · have h1 := ih hown' p (by rw [List.getElem?_set]; simp [hij, hp])
      simp only [project] at h1 ⊢
      rw [List.filter_cons_of_neg (by simp [hk, hij]), h1]

/-! ## locality of the table -/

/-- the part of the table on the keys selected by `owns` -/
def restrict (owns : Key → Bool) (t : Table) : Table := t.filter fun p => owns p.1

theorem restrict_erase (owns : Key → Bool) (t : Table) (k : Key) :
    restrict owns (Table.erase t k) = Table.erase (restrict owns t) k := by
  simp only [restrict, Table.erase, List.filter_filter]
  congr 1
  funext p
  exact Bool.and_comm _ _

theorem restrict_erase_of_not (owns : Key → Bool) (t : Table) (k : Key) (h : owns k = false) :
    restrict owns (Table.erase t k) = restrict owns t := by
  simp only [restrict, Table.erase, List.filter_filter]
  apply List.filter_congr
  intro p _
  by_cases hp : p.1 = k
  · simp [hp, h]
  · simp [hp]

theorem lookup_restrict (owns : Key → Bool) (t : Table) (k : Key) (h : owns k = true) :
    Table.lookup (restrict owns t) k = Table.lookup t k := by
  induction t with
  | nil => rfl
  | cons kv t ih =>
    obtain ⟨k', v⟩ := kv
    by_cases hk : k' = k
    · subst hk
      simp [restrict, Table.lookup, h]
    · by_cases ho : owns k' = true
      · have : restrict owns ((k', v) :: t) = (k', v) :: restrict owns t := by
          simp [restrict, ho]
        rw [this]
        simp only [Table.lookup, hk, if_false]
        exact ih
      · have : restrict owns ((k', v) :: t) = restrict owns t := by
          simp [restrict, ho]
        rw [this]
        simp only [Table.lookup, hk, if_false]
        exact ih

/-- an operation on a selected key commutes with restriction -/
theorem step_restrict_own (owns : Key → Bool) (t : Table) (op : Op) (h : owns op.key = true) :
    step (restrict owns t) op = (restrict owns (step t op).1, (step t op).2) := by
  cases op with
  | set k v =>
    simp only [Op.key] at h
    simp only [step, ← restrict_erase]
    simp [restrict, h]
  | clear k => simp only [step, ← restrict_erase]
  | get k =>
    simp only [Op.key] at h
    simp only [step, lookup_restrict owns t k h]

/-- an operation on another key is invisible after restriction -/
theorem step_restrict_other (owns : Key → Bool) (t : Table) (op : Op) (h : owns op.key = false) :
    restrict owns (step t op).1 = restrict owns t := by
  cases op with
  | set k v =>
    simp only [Op.key] at h
    simp only [step]
    have : restrict owns ((k, v) :: Table.erase t k) = restrict owns (Table.erase t k) := by
      simp [restrict, h]
    rw [this, restrict_erase_of_not owns t k h]
  | clear k =>
    simp only [Op.key] at h
    simp only [step, restrict_erase_of_not owns t k h]
  | get k => rfl

theorem step_snd_none_of_not_get (t : Table) (op : Op) :
    (step t op).2 = none ∨ ∃ k, op = .get k := by
  cases op <;> simp [step]

/-- LOCALITY: the run of the projected trace from the restricted table computes the restriction of the final
    table and exactly the reads on the selected keys. -/
theorem run_restrict (owns : Key → Bool) (t : Table) (tr : List Op) :
    run (restrict owns t) (project owns tr) = (restrict owns (run t tr).1, readsOf owns t tr) := by
  induction tr generalizing t with
  | nil => simp [project, run, readsOf]
  | cons op tr ih =>
    by_cases h : owns op.key = true
    · have hp : project owns (op :: tr) = op :: project owns tr := by
        simp [project, h]
      rw [hp]
      simp only [run, readsOf]
      rw [step_restrict_own owns t op h]
      simp only [ih (step t op).1]
      cases (step t op).2 <;> simp [h]
    · have h' : owns op.key = false := by simpa using h
      have hp : project owns (op :: tr) = project owns tr := by
        simp [project, h']
      rw [hp]
      have := ih (step t op).1
      rw [step_restrict_other owns t op h'] at this
      rw [this]
      simp only [run, readsOf]
      cases op with
      | set k v => simp [step]
      | clear k => simp [step]
      | get k =>
        simp only [Op.key] at h'
        simp [step, Op.key, h']

theorem concurrent_eq_sequential (owner : Key → Nat) (ps : List (List Op)) (tr : List Op)
    (hown : OwnKeys owner ps) (hint : Interleaving ps tr) (i : Nat) (p : List Op) (hp : ps[i]? = some p) :
    readsOf (fun k => owner k = i) [] tr = (run [] p).2 := by
  have h := run_restrict (fun k => owner k = i) [] tr
  rw [isolation owner ps tr hown hint i p hp] at h
  have h0 : restrict (fun k => decide (owner k = i)) [] = [] := rfl
  rw [h0] at h
  rw [h]

/-! ## no residue -/

/-- every binding of the final table was present initially or was written by an operation of the trace -/
theorem mem_run (t : Table) (tr : List Op) (kv : Key × V) (h : kv ∈ (run t tr).1) :
    kv ∈ t ∨ ∃ op ∈ tr, op.key = kv.1 := by
  induction tr generalizing t with
  | nil => exact .inl h
  | cons op tr ih =>
    simp only [run] at h
    rcases ih _ h with h1 | ⟨op', hop', hk⟩
    · cases op with
      | set k v =>
        simp only [step, List.mem_cons] at h1
        rcases h1 with rfl | h1
        · exact .inr ⟨_, List.mem_cons_self, rfl⟩
        · exact .inl (List.mem_filter.mp h1).1
      | clear k => exact .inl (List.mem_filter.mp h1).1
      | get k => exact .inl h1
    · exact .inr ⟨op', List.mem_cons_of_mem _ hop', hk⟩

/-- every operation of an interleaving belongs to the program of some thread -/
theorem mem_interleaving {ps : List (List Op)} {tr : List Op} (hint : Interleaving ps tr)
    (op : Op) (h : op ∈ tr) : ∃ (j : Nat) (p : List Op), ps[j]? = some p ∧ op ∈ p := by
  induction hint with
  | nil ps _ => cases h
  | step ps j op' rest tr hj _ ih =>
    rcases List.mem_cons.mp h with rfl | h
    · exact ⟨j, _, hj, List.mem_cons_self⟩
    · obtain ⟨j', p, hp, hop⟩ := ih h
      rw [List.getElem?_set] at hp
      split at hp
      · next hjj =>
        subst hjj
        split at hp
        · cases hp
          exact ⟨j, _, hj, List.mem_cons_of_mem _ hop⟩
        · cases hp
      · exact ⟨j', p, hp, hop⟩

theorem no_residue (owner : Key → Nat) (ps : List (List Op)) (tr : List Op)
    (hown : OwnKeys owner ps) (hint : Interleaving ps tr)
    (hclean : ∀ p ∈ ps, (run [] p).1 = []) : (run [] tr).1 = [] := by
  apply List.eq_nil_iff_forall_not_mem.mpr
  intro kv hkv
  rcases mem_run [] tr kv hkv with h | ⟨op, hop, hk⟩
  · cases h
  · obtain ⟨j, p, hp, hopp⟩ := mem_interleaving hint op hop
    have hj : owner kv.1 = j := by rw [← hk]; exact hown j p hp op hopp
    have h := run_restrict (fun k => owner k = j) [] tr
    rw [isolation owner ps tr hown hint j p hp] at h
    have h0 : restrict (fun k => decide (owner k = j)) [] = [] := rfl
    rw [h0] at h
    have h1 : restrict (fun k => decide (owner k = j)) (run [] tr).1 = [] := by
      have := hclean p (List.mem_of_getElem? hp)
      rw [h] at this
      exact this
    have : kv ∈ restrict (fun k => decide (owner k = j)) (run [] tr).1 := by
      simp only [restrict, List.mem_filter]
      exact ⟨hkv, by simp [hj]⟩
    rw [h1] at this
    cases this

end HclModel.Conc.Proofs
