import HclModel.Syntax.Structure
/-!
Proofs for C02: the structural parser model inverts the renderer, whatever the layout, and rejects a
redefined attribute.

Plan: `okItems` is the parser's own duplicate check run over the rendering tree.  `sim_items` shows that
`parseBody`, on the peeked tokens of a rendering followed by any continuation, succeeds with the denoted
items exactly when `okItems` holds (with an explicit fuel bound: the number of peeked tokens).  Separately,
`okItems [] items = uniqueAttrs (denoteAll items)`.
-/
namespace HclModel.Structure.Proofs
open HclModel.Structure

/-! ### `eraseDups` and `Nodup` -/

theorem eraseDups_length_le (l : List String) : l.eraseDups.length ≤ l.length := by
  suffices h : ∀ n (l : List String), l.length ≤ n → l.eraseDups.length ≤ l.length from h _ l (Nat.le_refl _)
  intro n
  induction n with
  | zero => intro l hl; cases l <;> simp_all
  | succ n ih =>
    intro l hl
    cases l with
    | nil => simp
    | cons a l =>
      rw [List.eraseDups_cons]
      have h1 := List.length_filter_le (fun b => !b == a) l
      have h2 := ih (l.filter (fun b => !b == a)) (by simp at hl; omega)
      simp only [List.length_cons]
      omega

theorem eraseDups_length_eq_iff (l : List String) : l.eraseDups.length = l.length ↔ l.Nodup := by
  induction l with
  | nil => simp
  | cons a l ih =>
    rw [List.eraseDups_cons, List.nodup_cons]
    have h1 := List.length_filter_le (fun b => !b == a) l
    have h2 := eraseDups_length_le (l.filter (fun b => !b == a))
    simp only [List.length_cons]
    constructor
    · intro h
      have h3 : (l.filter (fun b => !b == a)).length = l.length := by omega
      have h4 : l.filter (fun b => !b == a) = l := by
        rw [List.filter_eq_self]; exact List.length_filter_eq_length_iff.mp h3
      rw [h4] at h
      refine ⟨?_, ih.mp (by omega)⟩
      intro hm
      have := List.filter_eq_self.mp h4 a hm
      simp at this
    · rintro ⟨hm, hn⟩
      have h4 : l.filter (fun b => !b == a) = l := by
        rw [List.filter_eq_self]
        intro b hb
        have : b ≠ a := fun h => hm (h ▸ hb)
        simpa using this
      rw [h4, ih.mpr hn]

/-! ### the parser's duplicate check, on the rendering tree -/

def seenAfter (seen : List String) : RItem → List String
  | .attr _ name _ _ _ => name :: seen
  | _ => seen

mutual
def okItem (seen : List String) : RItem → Bool
  | .attr _ name _ _ _ => !seen.contains name
  | .block _ _ _ _ body _ _ => okItems [] body
  | .oneLine .. => true
  | .emptyBlock .. => true
def okItems (seen : List String) : List RItem → Bool
  | [] => true
  | i :: rest => okItem seen i && okItems (seenAfter seen i) rest
end

theorem attrNames_denote_cons (i : RItem) (acc : List Item) :
    attrNames (denote i :: acc) = seenAfter (attrNames acc) i := by
  cases i <;> simp [denote, attrNames, seenAfter]

theorem uniqueAttrs_iff (l : List Item) :
    uniqueAttrs l = true ↔ (attrNames l).Nodup ∧ uniqueAttrsIn l = true := by
  rw [uniqueAttrs.eq_1]
  simp [eraseDups_length_eq_iff]

mutual
theorem okItem_iff (i : RItem) : ∀ seen, okItem seen i = true ↔
    ((∀ n ∈ attrNames [denote i], n ∉ seen) ∧ uniqueAttrsIn [denote i] = true) := by
  intro seen
  cases i with
  | attr pre name e mid eol => simp [okItem, denote, attrNames, uniqueAttrsIn]
  | block pre type labels ab body preClose eol =>
    have := okItems_iff body []
    simp [okItem, denote, attrNames, uniqueAttrsIn, uniqueAttrs_iff, this]
  | oneLine pre type labels name e eol =>
    simp [okItem, denote, attrNames, uniqueAttrsIn, uniqueAttrs_iff]
  | emptyBlock pre type labels eol =>
    simp [okItem, denote, attrNames, uniqueAttrsIn, uniqueAttrs_iff]
theorem okItems_iff (items : List RItem) : ∀ seen, okItems seen items = true ↔
    ((∀ n ∈ attrNames (denoteAll items), n ∉ seen) ∧ (attrNames (denoteAll items)).Nodup ∧
      uniqueAttrsIn (denoteAll items) = true) := by
  intro seen
  cases items with
  | nil => simp [okItems, denoteAll, attrNames, uniqueAttrsIn]
  | cons i rest =>
    have h1 := okItem_iff i seen
    have h2 := okItems_iff rest (seenAfter seen i)
    simp only [okItems, Bool.and_eq_true, h1, h2, denoteAll]
    cases i with
    | attr pre name e mid eol =>
      simp [denote, attrNames, uniqueAttrsIn, seenAfter]
      grind
    | block pre type labels ab body preClose eol =>
      simp [denote, attrNames, uniqueAttrsIn, seenAfter]
      grind
    | oneLine pre type labels name e eol =>
      simp [denote, attrNames, uniqueAttrsIn, seenAfter]
      grind
    | emptyBlock pre type labels eol =>
      simp [denote, attrNames, uniqueAttrsIn, seenAfter]
      grind
end

theorem okItems_eq_unique (items : List RItem) : okItems [] items = uniqueAttrs (denoteAll items) := by
  rw [Bool.eq_iff_iff, okItems_iff, uniqueAttrs_iff]
  simp

/-! ### the peeker on renderings -/

theorem peek_append (a b : List Raw) : peek (a ++ b) = peek a ++ peek b := by
  induction a with
  | nil => rfl
  | cons x a ih => cases x <;> simp [peek, ih]

/-- newlines contributed by layout noise (an inline comment contributes nothing) -/
def nlCount : List Noise → Nat
  | [] => 0
  | .inlineComment :: r => nlCount r
  | _ :: r => nlCount r + 1

theorem peek_noise (n : List Noise) : peek (noiseRaw n) = List.replicate (nlCount n) .nl := by
  induction n with
  | nil => rfl
  | cons x n ih => cases x <;> simp [noiseRaw, peek, ih, List.replicate_succ, nlCount]

theorem peek_sp (m : List Unit) : peek (sp m) = [] := by
  induction m with
  | nil => rfl
  | cons x m ih => simpa [sp, peek] using ih

/-- a label as the parser sees it -/
def labTok (l : Label) : Tok := if l.quoted then .qlabel l.text else .ident l.text

theorem peek_labels (ls : List Label) : peek (ls.map labelTok) = ls.map labTok := by
  induction ls with
  | nil => rfl
  | cons l ls ih =>
    simp only [List.map_cons, labelTok, labTok]
    split <;> simp [peek, ih]

theorem peek_eol (e : Eol) (r : List Raw) : peek (eolRaw e :: r) = .nl :: peek r := by
  cases e <;> rfl

mutual
/-- number of peeked tokens of a rendering -/
def isize : RItem → Nat
  | .attr pre _ _ _ _ => nlCount pre + 4
  | .block pre _ labels _ body preClose _ => nlCount pre + labels.length + 5 + isizes body + nlCount preClose
  | .oneLine pre _ labels _ _ _ => nlCount pre + labels.length + 7
  | .emptyBlock pre _ labels _ => nlCount pre + labels.length + 4
def isizes : List RItem → Nat
  | [] => 0
  | i :: rest => isize i + isizes rest
end

theorem toks_attr (pre name e mid eol) :
    peek (renderItem (.attr pre name e mid eol)) =
      List.replicate (nlCount pre) .nl ++ [.ident name, .eq, .expr e, .nl] := by
  simp [renderItem, peek_append, peek_noise, peek_sp, peek, peek_eol]

theorem toks_block (pre type labels ab body preClose eol) :
    peek (renderItem (.block pre type labels ab body preClose eol)) =
      List.replicate (nlCount pre) .nl ++ .ident type :: (labels.map labTok ++ .obrace :: .nl ::
        (peek (renderItems body) ++ (List.replicate (nlCount preClose) .nl ++ [.cbrace, .nl]))) := by
  simp [renderItem, peek_append, peek_noise, peek_labels, peek, peek_eol]

theorem toks_oneLine (pre type labels name e eol) :
    peek (renderItem (.oneLine pre type labels name e eol)) =
      List.replicate (nlCount pre) .nl ++ .ident type :: (labels.map labTok ++
        [.obrace, .ident name, .eq, .expr e, .cbrace, .nl]) := by
  simp [renderItem, peek_append, peek_noise, peek_labels, peek, peek_eol]

theorem toks_emptyBlock (pre type labels eol) :
    peek (renderItem (.emptyBlock pre type labels eol)) =
      List.replicate (nlCount pre) .nl ++ .ident type :: (labels.map labTok ++ [.obrace, .cbrace, .nl]) := by
  simp [renderItem, peek_append, peek_noise, peek_labels, peek, peek_eol]

mutual
theorem length_toks_item (i : RItem) : (peek (renderItem i)).length = isize i := by
  cases i with
  | attr pre name e mid eol => simp [toks_attr, isize]
  | block pre type labels ab body preClose eol =>
    simp [toks_block, isize, length_toks_items body]; omega
  | oneLine pre type labels name e eol => simp [toks_oneLine, isize]; omega
  | emptyBlock pre type labels eol => simp [toks_emptyBlock, isize]; omega
theorem length_toks_items (items : List RItem) : (peek (renderItems items)).length = isizes items := by
  cases items with
  | nil => simp [renderItems, peek, isizes]
  | cons i rest =>
    simp [renderItems, peek_append, isizes, length_toks_item i, length_toks_items rest]
end

/-! ### single parser steps -/

theorem parseBody_nls (stop : Tok) (hs : stop = .eof ∨ stop = .cbrace) (n fuel : Nat) (rest : List Tok)
    (acc : List Item) :
    parseBody stop (fuel + n) (List.replicate n .nl ++ rest) acc = parseBody stop fuel rest acc := by
  induction n with
  | zero => simp
  | succ n ih =>
    rw [← Nat.add_assoc, parseBody.eq_2]
    rcases hs with rfl | rfl <;> simp [List.replicate_succ, headTok, ih]

theorem parseBody_stop (stop : Tok) (fuel : Nat) (rest : List Tok) (acc : List Item) :
    parseBody stop (fuel + 1) (stop :: rest) acc = some (acc.reverse, rest) := by
  simp [parseBody, headTok]

/-- what `parseBody` does with the result of `parseItem` -/
def afterItem (stop : Tok) (fuel : Nat) (acc : List Item) :
    Option (Item × List Tok) → Option (List Item × List Tok)
  | none => none
  | some (.attr n e, rest) =>
    if (attrNames acc).contains n then none else parseBody stop fuel rest (.attr n e :: acc)
  | some (.block t l b, rest) => parseBody stop fuel rest (.block t l b :: acc)

theorem parseBody_ident (stop : Tok) (hs : stop = .eof ∨ stop = .cbrace) (fuel : Nat) (name : String)
    (ts : List Tok) (acc : List Item) :
    parseBody stop (fuel + 1) (.ident name :: ts) acc =
      afterItem stop fuel acc (parseItem fuel name ts) := by
  rw [parseBody.eq_2]
  rcases hs with rfl | rfl <;> simp only [headTok, List.headD_cons, List.tail_cons, reduceCtorEq, if_false] <;>
    cases parseItem fuel name ts with
    | none => rfl
    | some p => obtain ⟨item, rest⟩ := p; cases item <;> rfl

theorem parseItem_attr (fuel : Nat) (name : String) (e : Nat) (rest : List Tok) :
    parseItem (fuel + 1) name (.eq :: .expr e :: .nl :: rest) = some (.attr name e, rest) := by
  simp [parseItem, headTok]

theorem parseItem_block (fuel : Nat) (name : String) (labels : List Label) (r : List Tok) :
    parseItem (fuel + 1) name (labels.map labTok ++ .obrace :: r) =
      parseBlock fuel name [] (labels.map labTok ++ .obrace :: r) := by
  cases labels with
  | nil => simp [parseItem, headTok]
  | cons l ls =>
    simp only [List.map_cons, labTok]
    split <;> simp [parseItem, headTok]

theorem parseBlock_labels (type : String) (labels : List Label) :
    ∀ (fuel : Nat) (acc : List String) (r : List Tok),
    parseBlock (fuel + labels.length) type acc (labels.map labTok ++ .obrace :: r) =
      parseBlock fuel type (acc ++ labels.map (·.text)) (.obrace :: r) := by
  induction labels with
  | nil => simp
  | cons l ls ih =>
    intro fuel acc r
    simp only [List.length_cons, ← Nat.add_assoc, List.map_cons, labTok]
    split <;> simp [parseBlock, headTok, ih]

/-- the closing part of a block: after the body, the rest of the line -/
def finishBlock (type : String) (labels : List String) :
    Option (List Item × List Tok) → Option (Item × List Tok)
  | none => none
  | some (body, rest) =>
    match headTok rest with
    | .nl => some (.block type labels body, rest.tail)
    | .eof => some (.block type labels body, rest.tail)
    | _ => none

theorem parseBlock_obrace_nl (fuel : Nat) (type : String) (labels : List String) (ts : List Tok) :
    parseBlock (fuel + 2) type labels (.obrace :: .nl :: ts) =
      finishBlock type labels (parseBody .cbrace fuel ts []) := by
  rw [parseBlock.eq_2]
  simp only [headTok, List.headD_cons, List.tail_cons]
  rw [parseBody.eq_2]
  simp only [headTok, List.headD_cons, List.tail_cons]
  simp only [finishBlock, headTok]
  rfl

theorem parseBlock_obrace_cbrace (fuel : Nat) (type : String) (labels : List String) (ts : List Tok) :
    parseBlock (fuel + 2) type labels (.obrace :: .cbrace :: .nl :: ts) =
      some (.block type labels [], ts) := by
  simp [parseBlock, headTok, parseBody]

theorem parseBlock_oneLine (fuel : Nat) (type : String) (labels : List String) (name : String) (e : Nat)
    (ts : List Tok) :
    parseBlock (fuel + 1) type labels (.obrace :: .ident name :: .eq :: .expr e :: .cbrace :: .nl :: ts) =
      some (.block type labels [.attr name e], ts) := by
  simp [parseBlock, headTok]

/-! ### the simulation -/

mutual
theorem sim_item (i : RItem) : ∀ (stop : Tok) (_ : stop = .eof ∨ stop = .cbrace) (fuel : Nat)
    (rest : List Tok) (acc : List Item), isize i ≤ fuel →
    ∃ fuel', fuel ≤ fuel' + isize i ∧
      parseBody stop fuel (peek (renderItem i) ++ rest) acc =
        if okItem (attrNames acc) i then parseBody stop fuel' rest (denote i :: acc) else none := by
  intro stop hs fuel rest acc hf
  cases i with
  | attr pre name e mid eol =>
    simp only [isize] at hf ⊢
    obtain ⟨f, rfl⟩ : ∃ f, fuel = (f + 1 + 1) + nlCount pre := ⟨fuel - 2 - nlCount pre, by omega⟩
    refine ⟨f + 1, by omega, ?_⟩
    rw [toks_attr, List.append_assoc, parseBody_nls stop hs]
    simp only [List.cons_append, List.nil_append]
    rw [parseBody_ident stop hs, parseItem_attr]
    simp [afterItem, okItem, denote]
  | block pre type labels ab body preClose eol =>
    simp only [isize] at hf ⊢
    obtain ⟨g, rfl⟩ : ∃ g, fuel = (((g + 2) + labels.length) + 1 + 1) + nlCount pre :=
      ⟨fuel - 4 - labels.length - nlCount pre, by omega⟩
    obtain ⟨g', hg', hbody⟩ := sim_items body .cbrace (Or.inr rfl) g
      (List.replicate (nlCount preClose) .nl ++ .cbrace :: .nl :: rest) [] (by omega)
    change _ = (if okItems [] body = true then _ else none) at hbody
    refine ⟨g + 2 + labels.length + 1, by omega, ?_⟩
    rw [toks_block, List.append_assoc, parseBody_nls stop hs]
    simp only [List.cons_append, List.append_assoc, List.nil_append]
    rw [parseBody_ident stop hs, parseItem_block, parseBlock_labels, parseBlock_obrace_nl, hbody]
    have hok : okItem (attrNames acc) (.block pre type labels ab body preClose eol) = okItems [] body := by
      simp [okItem]
    by_cases h : okItems [] body = true
    case neg => simp [hok, h, finishBlock, afterItem]
    case pos =>
      obtain ⟨g3, rfl⟩ : ∃ g3, g' = (g3 + 1) + nlCount preClose := ⟨g' - 1 - nlCount preClose, by omega⟩
      rw [if_pos h, if_pos (hok.trans h), parseBody_nls .cbrace (Or.inr rfl), parseBody_stop]
      simp [finishBlock, headTok, afterItem, denote]
  | oneLine pre type labels name e eol =>
    simp only [isize] at hf ⊢
    obtain ⟨f, rfl⟩ : ∃ f, fuel = (((f + 1) + labels.length) + 1 + 1) + nlCount pre :=
      ⟨fuel - 3 - labels.length - nlCount pre, by omega⟩
    refine ⟨f + 1 + labels.length + 1, by omega, ?_⟩
    rw [toks_oneLine, List.append_assoc, parseBody_nls stop hs]
    simp only [List.cons_append, List.append_assoc, List.nil_append]
    rw [parseBody_ident stop hs, parseItem_block, parseBlock_labels, parseBlock_oneLine]
    simp [afterItem, okItem, denote]
  | emptyBlock pre type labels eol =>
    simp only [isize] at hf ⊢
    obtain ⟨f, rfl⟩ : ∃ f, fuel = (((f + 2) + labels.length) + 1 + 1) + nlCount pre :=
      ⟨fuel - 4 - labels.length - nlCount pre, by omega⟩
    refine ⟨f + 2 + labels.length + 1, by omega, ?_⟩
    rw [toks_emptyBlock, List.append_assoc, parseBody_nls stop hs]
    simp only [List.cons_append, List.append_assoc, List.nil_append]
    rw [parseBody_ident stop hs, parseItem_block, parseBlock_labels, parseBlock_obrace_cbrace]
    simp [afterItem, okItem, denote]
theorem sim_items (items : List RItem) : ∀ (stop : Tok) (_ : stop = .eof ∨ stop = .cbrace) (fuel : Nat)
    (rest : List Tok) (acc : List Item), isizes items ≤ fuel →
    ∃ fuel', fuel ≤ fuel' + isizes items ∧
      parseBody stop fuel (peek (renderItems items) ++ rest) acc =
        if okItems (attrNames acc) items then parseBody stop fuel' rest ((denoteAll items).reverse ++ acc)
        else none := by
  intro stop hs fuel rest acc hf
  cases items with
  | nil => exact ⟨fuel, by simp [isizes], by simp [renderItems, peek, okItems, denoteAll]⟩
  | cons i items =>
    simp only [isizes] at hf ⊢
    obtain ⟨f1, hf1, h1⟩ := sim_item i stop hs fuel (peek (renderItems items) ++ rest) acc (by omega)
    obtain ⟨f2, hf2, h2⟩ := sim_items items stop hs f1 rest (denote i :: acc) (by omega)
    refine ⟨f2, by omega, ?_⟩
    rw [renderItems, peek_append, List.append_assoc, h1, okItems]
    by_cases hi : okItem (attrNames acc) i = true
    case neg => simp [hi]
    case pos =>
      rw [if_pos hi, h2, attrNames_denote_cons]
      simp [denoteAll, hi]
end

/-- the parser on a rendered file: the written tree, unless the parser's duplicate check fails -/
theorem parseConfig_render (items : List RItem) (trailing : List Noise) :
    parseConfig (renderFile items trailing) =
      if okItems [] items then some (denoteAll items) else none := by
  have hlen : (peek (renderFile items trailing)).length = isizes items + nlCount trailing + 1 := by
    simp [renderFile, peek_append, peek_noise, peek, length_toks_items]; omega
  unfold parseConfig
  simp only [hlen]
  obtain ⟨f, hf, h⟩ := sim_items items .eof (Or.inl rfl) (isizes items + nlCount trailing + 1 + 1)
    (List.replicate (nlCount trailing) .nl ++ [.eof]) [] (by omega)
  have hp : peek (renderFile items trailing) =
      peek (renderItems items) ++ (List.replicate (nlCount trailing) .nl ++ [.eof]) := by
    simp [renderFile, peek_append, peek_noise, peek]
  change _ = (if okItems [] items = true then _ else none) at h
  rw [hp, h]
  by_cases hok : okItems [] items = true
  case neg => simp [hok]
  case pos =>
    obtain ⟨g, rfl⟩ : ∃ g, f = (g + 1) + nlCount trailing := ⟨f - 1 - nlCount trailing, by omega⟩
    rw [if_pos hok, if_pos hok, parseBody_nls .eof (Or.inl rfl), parseBody_stop]
    simp

theorem parse_render (items : List RItem) (trailing : List Noise)
    (hu : uniqueAttrs (denoteAll items) = true) :
    parseConfig (renderFile items trailing) = some (denoteAll items) := by
  rw [parseConfig_render, okItems_eq_unique, hu]; rfl

theorem dup_rejected (items : List RItem) (trailing : List Noise)
    (hd : uniqueAttrs (denoteAll items) = false) :
    parseConfig (renderFile items trailing) = none := by
  rw [parseConfig_render, okItems_eq_unique, hd]; rfl

end HclModel.Structure.Proofs
