import Proofs.MarksOps
import Proofs.MarksEval
/-!
Relational lemmas for the building blocks of `eval` (C06): related inputs, no diagnostics in either run,
hence related outputs.
-/
set_option linter.unusedSimpArgs false
namespace HclModel.Proofs
open Val

/-- marked in both runs -/
def bm (a b : Val) : Prop := a.fl.m = true ∧ b.fl.m = true

/-- both known or both unknown, both of the dynamic pseudo-type or neither -/
def shapeEq (a b : Val) : Prop := a.isKnown = b.isKnown ∧ (a.typeOf == .dyn) = (b.typeOf == .dyn)

@[simp] theorem errOut_diags (s : String) (fr : List Val) : (errOut s fr).2 ≠ [] := by simp [errOut]
@[simp] theorem unsupportedOut_diags (s : String) : (unsupportedOut s).2 ≠ [] := by simp [unsupportedOut]

/-! ### `getAttr` -/

theorem getAttr_marked (v : Val) (name : String) (hm : v.fl.m = true) (h : (getAttr v name).2 = []) :
    (getAttr v name).1.fl.m = true := by
  unfold getAttr at h ⊢
  split
  · simp_all
  · simp only []
    split
    · split
      · simp_all
      · split
        · split <;> simp_all
        · simp [hm]
    · split
      · split <;> simp_all
      · simp [hm]
    · simp [hm, dynVal]
    · simp_all

theorem getAttr_rel (v v' : Val) (name : String) (h : relV v v' = true)
    (h1 : (getAttr v name).2 = []) (h2 : (getAttr v' name).2 = []) :
    relV (getAttr v name).1 (getAttr v' name).1 = true := by
  rcases relV_cases h with ⟨m1, m2⟩ | hc
  · exact relV_top (getAttr_marked v name m1 h1) (getAttr_marked v' name m2 h2)
  · cases v <;> cases v' <;> simp [relC] at hc
    case unk.unk f t g u =>
      subst hc
      unfold getAttr
      simp [isNull, typeOf]
      split
      · split <;> simp [relV, errOut, relV_refl]
      · simp [relV]
      · simp [relV, dynVal, withFl, setFl]
      · simp [relV, errOut, relV_refl]
    case null.null f t g u => simp [getAttr, isNull, errOut] at h1
    case str.str => simp [getAttr, isNull, typeOf, errOut] at h1
    case num.num => simp [getAttr, isNull, typeOf, errOut] at h1
    case bool.bool => simp [getAttr, isNull, typeOf, errOut] at h1
    case list.list => simp [getAttr, isNull, typeOf, errOut] at h1
    case tuple.tuple => simp [getAttr, isNull, typeOf, errOut] at h1
    case map.map f t xs g u ys =>
      obtain ⟨rfl, hc⟩ := hc
      unfold getAttr at h1 h2 ⊢
      simp [isNull, typeOf] at h1 h2 ⊢
      rcases relF_lookup hc name with ⟨e1, e2⟩ | ⟨x, y, e1, e2, hxy⟩
      · simp [e1, errOut] at h1
      · simp [e1, e2]; exact relV_withFl hxy _ _
    case object.object f xs g ys =>
      unfold getAttr at h1 h2 ⊢
      simp [isNull, typeOf, lookup_typeOfFields] at h1 h2 ⊢
      rcases relF_lookup hc name with ⟨e1, e2⟩ | ⟨x, y, e1, e2, hxy⟩
      · simp [e1, errOut] at h1
      · simp [e1, e2]; exact relV_withFl hxy _ _

theorem getAttrOut_nil {v : Val} {ds : List Diag} {name : String} (h : (getAttrOut (v, ds) name).2 = []) :
    ds = [] ∧ (getAttr v name).2 = [] := by
  unfold getAttrOut at h
  cases ds with
  | nil => simpa [hasErrors] using h
  | cons d ds => simp [hasErrors] at h

theorem getAttrOut_rel (o o' : Out) (name : String) (h : relV o.1 o'.1 = true)
    (h1 : (getAttrOut o name).2 = []) (h2 : (getAttrOut o' name).2 = []) :
    relV (getAttrOut o name).1 (getAttrOut o' name).1 = true := by
  obtain ⟨v, ds⟩ := o
  obtain ⟨v', ds'⟩ := o'
  obtain ⟨rfl, h1⟩ := getAttrOut_nil h1
  obtain ⟨rfl, h2⟩ := getAttrOut_nil h2
  simpa [getAttrOut, hasErrors] using getAttr_rel v v' name h h1 h2

/-! ### `index` -/

def elemAt (xs : List Val) (q : Rat) (f : Fl) : Out :=
  match natIndex? q with
  | some i => match xs[i]? with
    | some x => (x.withFl f, [])
    | none => errOut "Invalid index: out of range"
  | none => errOut "Invalid index: not a whole non-negative number"

/-- `index` after the key conversion, list / tuple / map collections -/
def indexSeq (coll key : Val) : Out :=
  let cm := coll.fl
  let km := key.fl
  match coll, key with
  | .list _ _ xs, .num _ q => elemAt xs q (cm.join km)
  | .tuple _ xs, .num _ q => elemAt xs q (cm.join km)
  | .unk _ (.tuple ts), .num _ q =>
    (match natIndex? q with
     | some i => match ts[i]? with
       | some t => (Val.unk (cm.join km) t, [])
       | none => errOut "Invalid index: out of range"
     | none => errOut "Invalid index: not a whole non-negative number")
  | .map _ _ kvs, .str _ s =>
    (match lookupKey s kvs with
     | some x => (x.withFl (cm.join km), [])
     | none => errOut "Invalid index: no such key")
  | _, _ =>
    match coll.typeOf with
    | .tuple _ => (Val.dynVal.withFl cm, [])
    | .list t => (Val.unk cm t, [])
    | .map t => (Val.unk cm t, [])
    | _ => (Val.dynVal, [])

def indexObj (coll : Val) (fs : List (String × Ty)) (key : Val) : Out :=
  let cm := coll.fl
  match key with
  | .str kf s =>
    let rm : Fl := cm.join kf
    (match lookupKey s fs with
     | none => errOut "Invalid index: no such attribute"
     | some aty =>
       match coll with
       | .object _ kvs =>
         (match lookupKey s kvs with
          | some x => (x.withFl rm, [])
          | none => errOut "Invalid index: no such attribute")
       | _ => (Val.unk rm aty, []))
  | _ => (Val.dynVal.withFl cm, [])

def keyConv (key : Val) (want : Ty) (k : Val → Out) : Out :=
  match tryConvert key want with
  | .error d => if d.isUnsupported then (Val.dynVal, [d]) else errOut "Invalid index: key conversion"
  | .ok key => k key

theorem index_eq (coll key : Val) : index true coll key =
    if coll.isNull then errOut "Attempt to index null value"
    else if key.isNull then errOut "Invalid index: null key"
    else if key.typeOf == .dyn ∨ coll.typeOf == .dyn then (Val.dynVal.withFl coll.fl, [])
    else match coll.typeOf with
      | .list _ | .tuple _ => keyConv key .num (indexSeq coll)
      | .map _ => keyConv key .str (indexSeq coll)
      | .object fs => keyConv key .str (indexObj coll fs)
      | _ => errOut "Invalid index: not indexable" := by
  unfold index
  split
  · rfl
  split
  · rfl
  split
  · rfl
  cases h : coll.typeOf <;> (simp only [keyConv, indexSeq, indexObj, elemAt, h, ite_true]) <;> (try rfl)

theorem elemAt_marked (xs : List Val) (q : Rat) (f : Fl) (hf : f.m = true) (h : (elemAt xs q f).2 = []) :
    (elemAt xs q f).1.fl.m = true := by
  unfold elemAt at h ⊢
  split
  · split
    · simp [hf]
    · simp_all
  · simp_all

theorem elemAt_rel (xs ys : List Val) (q : Rat) (f g : Fl) (hl : relL xs ys = true)
    (h1 : (elemAt xs q f).2 = []) (_h2 : (elemAt ys q g).2 = []) :
    relV (elemAt xs q f).1 (elemAt ys q g).1 = true := by
  unfold elemAt at h1 ⊢
  split
  · rename_i i _
    rcases relL_getElem? hl i with ⟨e1, e2⟩ | ⟨x, y, e1, e2, hxy⟩
    · simp_all
    · simp [e1, e2]; exact relV_withFl hxy _ _
  · simp_all

theorem key_num_pair {key key' k2 k2' : Val} (hk : relV key key' = true) (hs : key.isKnown = key'.isKnown)
    (hn : key.isNull = false) (hn' : key'.isNull = false)
    (c1 : tryConvert key .num = .ok k2) (c2 : tryConvert key' .num = .ok k2') :
    (∃ q q', k2 = .num key.fl q ∧ k2' = .num key'.fl q' ∧ (q = q' ∨ bm key key')) ∨
      (k2 = .unk key.fl .num ∧ k2' = .unk key'.fl .num) := by
  have r := tryConvert_rel hk c1 c2
  have k1 := tryConvert_isKnown c1
  have k1' := tryConvert_isKnown c2
  rcases convert_num_cases _ _ (tryConvert_ok c1) hn with ⟨q, rfl⟩ | rfl <;>
  rcases convert_num_cases _ _ (tryConvert_ok c2) hn' with ⟨q', rfl⟩ | rfl
  · left; refine ⟨q, q', rfl, rfl, ?_⟩
    simp [relV, bm] at r ⊢; rcases r with r | r <;> simp [r]
  · rw [← k1, ← k1'] at hs; simp [isKnown] at hs
  · rw [← k1, ← k1'] at hs; simp [isKnown] at hs
  · right; exact ⟨rfl, rfl⟩

theorem key_str_pair {key key' k2 k2' : Val} (hk : relV key key' = true) (hs : key.isKnown = key'.isKnown)
    (hn : key.isNull = false) (hn' : key'.isNull = false)
    (c1 : tryConvert key .str = .ok k2) (c2 : tryConvert key' .str = .ok k2') :
    (∃ q q', k2 = .str key.fl q ∧ k2' = .str key'.fl q' ∧ (q = q' ∨ bm key key')) ∨
      (k2 = .unk key.fl .str ∧ k2' = .unk key'.fl .str) := by
  have r := tryConvert_rel hk c1 c2
  have k1 := tryConvert_isKnown c1
  have k1' := tryConvert_isKnown c2
  rcases convert_str_cases _ _ (tryConvert_ok c1) hn with ⟨q, rfl⟩ | rfl <;>
  rcases convert_str_cases _ _ (tryConvert_ok c2) hn' with ⟨q', rfl⟩ | rfl
  · left; refine ⟨q, q', rfl, rfl, ?_⟩
    simp [relV, bm] at r ⊢; rcases r with r | r <;> simp [r]
  · rw [← k1, ← k1'] at hs; simp [isKnown] at hs
  · rw [← k1, ← k1'] at hs; simp [isKnown] at hs
  · right; exact ⟨rfl, rfl⟩

theorem keyConv_nil {key : Val} {want : Ty} {k : Val → Out} (h : (keyConv key want k).2 = []) :
    ∃ k2, tryConvert key want = .ok k2 ∧ keyConv key want k = k k2 := by
  unfold keyConv at h ⊢
  split at h
  · split at h <;> simp_all
  · rename_i k2 hk; exact ⟨k2, hk, by simp [hk]⟩

def seqTy : Ty → Bool
  | .list _ | .tuple _ | .map _ => true
  | _ => false

theorem indexSeq_marked (coll k2 : Val) (hm : coll.fl.m = true) (hty : seqTy coll.typeOf = true)
    (h : (indexSeq coll k2).2 = []) : (indexSeq coll k2).1.fl.m = true := by
  unfold indexSeq at h ⊢
  split
  · exact elemAt_marked _ _ _ (by simp_all) h
  · exact elemAt_marked _ _ _ (by simp_all) h
  · split
    · split <;> simp_all
    · simp_all
  · split <;> simp_all
  · split <;> simp_all [seqTy, dynVal]

theorem indexObj_marked (coll : Val) (fs : List (String × Ty)) (k2 : Val) (hm : coll.fl.m = true)
    (h : (indexObj coll fs k2).2 = []) : (indexObj coll fs k2).1.fl.m = true := by
  unfold indexObj at h ⊢
  split
  · split
    · simp_all
    · split
      · split <;> simp_all
      · simp_all
  · simp_all [dynVal]

theorem index_coll_marked (coll key : Val) (hm : coll.fl.m = true) (h : (index true coll key).2 = []) :
    (index true coll key).1.fl.m = true := by
  rw [index_eq] at h ⊢
  by_cases hn1 : coll.isNull = true
  · simp [hn1] at h
  by_cases hn2 : key.isNull = true
  · simp [hn1, hn2] at h
  by_cases hd : (key.typeOf == Ty.dyn) = true ∨ (coll.typeOf == Ty.dyn) = true
  · simp only [hn1, hn2, if_false]; rw [if_pos hd]; simp [hm]
  simp only [hn1, hn2, hd, if_false] at h ⊢
  cases hty : coll.typeOf <;> simp only [hty] at h ⊢ <;> (try (simp at h; done))
  all_goals
    obtain ⟨k2, hk2, he⟩ := keyConv_nil h
    rw [he] at h ⊢
  · exact indexSeq_marked _ _ hm (by simp [hty, seqTy]) h
  · exact indexSeq_marked _ _ hm (by simp [hty, seqTy]) h
  · exact indexSeq_marked _ _ hm (by simp [hty, seqTy]) h
  · exact indexObj_marked _ _ _ hm h

/-- the converted keys of the two runs -/
inductive KeyPair : Val → Val → Prop
  | num (f f' : Fl) (q q' : Rat) (h : q = q' ∨ (f.m = true ∧ f'.m = true)) : KeyPair (.num f q) (.num f' q')
  | str (f f' : Fl) (s s' : String) (h : s = s' ∨ (f.m = true ∧ f'.m = true)) : KeyPair (.str f s) (.str f' s')
  | unk (f f' : Fl) (t : Ty) : KeyPair (.unk f t) (.unk f' t)

def unkTupleAt (ts : List Ty) (q : Rat) (f : Fl) : Out :=
  match natIndex? q with
  | some i => match ts[i]? with
    | some t => (Val.unk f t, [])
    | none => errOut "Invalid index: out of range"
  | none => errOut "Invalid index: not a whole non-negative number"

theorem unkTupleAt_rel (ts : List Ty) (q q' : Rat) (f f' : Fl) (h : q = q' ∨ (f.m = true ∧ f'.m = true))
    (h1 : (unkTupleAt ts q f).2 = []) (h2 : (unkTupleAt ts q' f').2 = []) :
    relV (unkTupleAt ts q f).1 (unkTupleAt ts q' f').1 = true := by
  rcases h with rfl | h
  · unfold unkTupleAt at *
    split
    · split <;> simp_all [relV]
    · simp_all
  · have m : ∀ (q : Rat) (f : Fl), f.m = true → (unkTupleAt ts q f).2 = [] → (unkTupleAt ts q f).1.fl.m = true := by
      intro q f hf hh
      unfold unkTupleAt at hh ⊢
      split
      · split <;> simp_all
      · simp_all
    exact relV_top (m q f h.1 h1) (m q' f' h.2 h2)

theorem lookupAt_rel (xs ys : List (String × Val)) (s : String) (f g : Fl) (site : String) (hl : relF xs ys = true)
    (h1 : (match lookupKey s xs with | some x => (x.withFl f, []) | none => errOut site : Out).2 = []) :
    relV (match lookupKey s xs with | some x => (x.withFl f, []) | none => errOut site : Out).1
      (match lookupKey s ys with | some x => (x.withFl g, []) | none => errOut site : Out).1 = true := by
  rcases relF_lookup hl s with ⟨e1, e2⟩ | ⟨x, y, e1, e2, hxy⟩
  · simp [e1] at h1
  · simp [e1, e2]; exact relV_withFl hxy _ _

theorem lookupAt_marked (xs : List (String × Val)) (s : String) (f : Fl) (site : String) (hf : f.m = true)
    (h1 : (match lookupKey s xs with | some x => (x.withFl f, []) | none => errOut site : Out).2 = []) :
    (match lookupKey s xs with | some x => (x.withFl f, []) | none => errOut site : Out).1.fl.m = true := by
  split <;> simp_all

theorem indexSeq_rel (coll coll' k2 k2' : Val) (hc : relC coll coll' = true) (hk : KeyPair k2 k2')
    (h1 : (indexSeq coll k2).2 = []) (h2 : (indexSeq coll' k2').2 = []) :
    relV (indexSeq coll k2).1 (indexSeq coll' k2').1 = true := by
  cases hk with
  | unk f f' t =>
    cases coll <;> cases coll' <;> simp [relC] at hc <;> simp [indexSeq, typeOf, relV, relV_refl, dynVal, withFl, setFl]
    all_goals (first | (subst hc; split <;> simp [relV]; done) | (simp [hc]; done))
  | num f f' q q' h =>
    cases coll <;> cases coll' <;> simp [relC] at hc
    case unk.unk f1 t1 f2 t2 =>
      subst hc
      cases t1 <;> simp [indexSeq, typeOf, relV, relV_refl, dynVal, withFl, setFl] at h1 h2 ⊢
      rename_i ts
      apply unkTupleAt_rel ts q q' _ _ _ h1 h2
      rcases h with h | h <;> simp [h]
    case null.null f1 t1 f2 t2 =>
      subst hc
      cases t1 <;> simp [indexSeq, typeOf, relV, relV_refl, dynVal, withFl, setFl]
    case list.list f1 t1 xs f2 t2 ys =>
      simp [indexSeq] at h1 h2 ⊢
      rcases h with rfl | h
      · exact elemAt_rel _ _ _ _ _ hc.2 h1 h2
      · exact relV_top (elemAt_marked _ _ _ (by simp [h]) h1) (elemAt_marked _ _ _ (by simp [h]) h2)
    case tuple.tuple f1 xs f2 ys =>
      simp [indexSeq] at h1 h2 ⊢
      rcases h with rfl | h
      · exact elemAt_rel _ _ _ _ _ hc h1 h2
      · exact relV_top (elemAt_marked _ _ _ (by simp [h]) h1) (elemAt_marked _ _ _ (by simp [h]) h2)
    all_goals (simp [indexSeq, typeOf, relV, relV_refl, dynVal, withFl, setFl, hc])
  | str f f' s s' h =>
    cases coll <;> cases coll' <;> simp [relC] at hc
    case unk.unk f1 t1 f2 t2 =>
      subst hc
      cases t1 <;> simp [indexSeq, typeOf, relV, relV_refl, dynVal, withFl, setFl] at h1 h2 ⊢
    case null.null f1 t1 f2 t2 =>
      subst hc
      cases t1 <;> simp [indexSeq, typeOf, relV, relV_refl, dynVal, withFl, setFl]
    case map.map f1 t1 xs f2 t2 ys =>
      simp only [indexSeq] at h1 h2 ⊢
      rcases h with rfl | h
      · exact lookupAt_rel _ _ _ _ _ _ hc.2 h1
      · exact relV_top (lookupAt_marked _ _ _ _ (by simp [h]) h1) (lookupAt_marked _ _ _ _ (by simp [h]) h2)
    all_goals (simp [indexSeq, typeOf, relV, relV_refl, dynVal, withFl, setFl, hc])

theorem indexObj_rel (coll coll' k2 k2' : Val) (fs fs' : List (String × Ty)) (hc : relC coll coll' = true)
    (hfs : coll.typeOf = .object fs) (hfs' : coll'.typeOf = .object fs') (hk : KeyPair k2 k2')
    (h1 : (indexObj coll fs k2).2 = []) (h2 : (indexObj coll' fs' k2').2 = []) :
    relV (indexObj coll fs k2).1 (indexObj coll' fs' k2').1 = true := by
  rcases hk with ⟨f, f', q, q', h⟩ | ⟨f, f', s, s', h⟩ | ⟨f, f', t⟩
  · simp [indexObj, dynVal, withFl, setFl, relV]
  · rcases h with rfl | h
    · cases coll <;> cases coll' <;> simp [relC] at hc <;> simp [typeOf] at hfs hfs'
      case unk.unk f1 t1 f2 t2 =>
        subst hc; subst hfs; cases hfs'
        simp [indexObj] at h1 h2 ⊢
        split <;> simp_all [relV]
      case null.null f1 t1 f2 t2 =>
        subst hc; subst hfs; cases hfs'
        simp [indexObj] at h1 h2 ⊢
        split <;> simp_all [relV]
      case object.object f1 xs f2 ys =>
        subst hfs; subst hfs'
        simp only [indexObj, lookup_typeOfFields] at h1 h2 ⊢
        rcases relF_lookup hc s with ⟨e1, e2⟩ | ⟨x, y, e1, e2, hxy⟩
        · simp [e1] at h1
        · simp [e1, e2]; exact relV_withFl hxy _ _
    · have m : ∀ (c : Val) (fs : List (String × Ty)) (s : String) (f : Fl), f.m = true →
          (indexObj c fs (.str f s)).2 = [] → (indexObj c fs (.str f s)).1.fl.m = true := by
        intro c fs s f hf hh
        simp only [indexObj] at hh ⊢
        split
        · simp_all
        · split
          · split <;> simp_all
          · simp_all
      exact relV_top (m _ _ _ _ h.1 h1) (m _ _ _ _ h.2 h2)
  · simp [indexObj, dynVal, withFl, setFl, relV]

theorem relC_typeOf_dyn {a b : Val} (h : relC a b = true) : (a.typeOf == Ty.dyn) = (b.typeOf == Ty.dyn) := by
  cases a <;> cases b <;> simp_all [relC, typeOf] <;> simp [BEq.beq, Ty.beq]

theorem keyPair_of {key key' k2 k2' : Val} {want : Ty} (hw : want = .num ∨ want = .str)
    (hk : relV key key' = true) (hs : key.isKnown = key'.isKnown)
    (hn : key.isNull = false) (hn' : key'.isNull = false)
    (c1 : tryConvert key want = .ok k2) (c2 : tryConvert key' want = .ok k2') : KeyPair k2 k2' := by
  rcases hw with rfl | rfl
  · rcases key_num_pair hk hs hn hn' c1 c2 with ⟨q, q', rfl, rfl, h⟩ | ⟨rfl, rfl⟩
    · exact .num _ _ _ _ h
    · exact .unk _ _ _
  · rcases key_str_pair hk hs hn hn' c1 c2 with ⟨q, q', rfl, rfl, h⟩ | ⟨rfl, rfl⟩
    · exact .str _ _ _ _ h
    · exact .unk _ _ _

theorem index_rel (coll coll' key key' : Val) (hc : relV coll coll' = true) (hk : relV key key' = true)
    (hs : shapeEq key key') (h1 : (index true coll key).2 = []) (h2 : (index true coll' key').2 = []) :
    relV (index true coll key).1 (index true coll' key').1 = true := by
  rcases relV_cases hc with ⟨m1, m2⟩ | hcc
  · exact relV_top (index_coll_marked _ _ m1 h1) (index_coll_marked _ _ m2 h2)
  clear hc
  have hc := hcc
  clear hcc
  rw [index_eq] at h1 h2
  rw [index_eq, index_eq]
  by_cases hn1 : coll.isNull = true
  · simp [hn1] at h1
  by_cases hn1' : coll'.isNull = true
  · simp [hn1'] at h2
  by_cases hn2 : key.isNull = true
  · simp [hn1, hn2] at h1
  by_cases hn2' : key'.isNull = true
  · simp [hn1', hn2'] at h2
  simp only [hn1, hn1', hn2, hn2', if_false, Bool.false_eq_true, ↓reduceIte] at h1 h2 ⊢
  have hd1 := hs.2
  have hd2 := relC_typeOf_dyn hc
  by_cases hd : (key.typeOf == Ty.dyn) = true ∨ (coll.typeOf == Ty.dyn) = true
  · have hd' : (key'.typeOf == Ty.dyn) = true ∨ (coll'.typeOf == Ty.dyn) = true := by
      rw [← hd1, ← hd2]; exact hd
    rw [if_pos hd, if_pos hd']
    simp [dynVal, withFl, setFl, relV]
  have hd' : ¬((key'.typeOf == Ty.dyn) = true ∨ (coll'.typeOf == Ty.dyn) = true) := by
    rw [← hd1, ← hd2]; exact hd
  rw [if_neg hd] at h1 ⊢
  rw [if_neg hd'] at h2 ⊢
  simp only [Bool.not_eq_true] at hn2 hn2'
  have seqcase : ∀ (want : Ty), want = .num ∨ want = .str → relC coll coll' = true →
      (keyConv key want (indexSeq coll)).2 = [] → (keyConv key' want (indexSeq coll')).2 = [] →
      relV (keyConv key want (indexSeq coll)).1 (keyConv key' want (indexSeq coll')).1 = true := by
    intro want hw hc h1 h2
    obtain ⟨k2, c1, e1⟩ := keyConv_nil h1
    obtain ⟨k2', c2, e2⟩ := keyConv_nil h2
    rw [e1] at h1 ⊢; rw [e2] at h2 ⊢
    exact indexSeq_rel _ _ _ _ hc (keyPair_of hw hk hs.1 hn2 hn2' c1 c2) h1 h2
  have objcase : ∀ fs fs', coll.typeOf = .object fs → coll'.typeOf = .object fs' → relC coll coll' = true →
      (keyConv key .str (indexObj coll fs)).2 = [] → (keyConv key' .str (indexObj coll' fs')).2 = [] →
      relV (keyConv key .str (indexObj coll fs)).1 (keyConv key' .str (indexObj coll' fs')).1 = true := by
    intro fs fs' hfs hfs' hc h1 h2
    obtain ⟨k2, c1, e1⟩ := keyConv_nil h1
    obtain ⟨k2', c2, e2⟩ := keyConv_nil h2
    rw [e1] at h1 ⊢; rw [e2] at h2 ⊢
    exact indexObj_rel _ _ _ _ _ _ hc hfs hfs' (keyPair_of (Or.inr rfl) hk hs.1 hn2 hn2' c1 c2) h1 h2
  have hc0 := hc
  cases coll <;> cases coll' <;> simp [relC] at hc
  case unk.unk f t g u =>
    subst hc
    cases t <;> simp only [typeOf] at h1 h2 ⊢ <;> (try (simp at h1; done))
    · exact seqcase _ (Or.inl rfl) hc0 h1 h2
    · exact seqcase _ (Or.inr rfl) hc0 h1 h2
    · exact seqcase _ (Or.inl rfl) hc0 h1 h2
    · exact objcase _ _ rfl rfl hc0 h1 h2
  case null.null => simp [isNull] at hn1
  case str.str => simp [typeOf] at h1
  case num.num => simp [typeOf] at h1
  case bool.bool => simp [typeOf] at h1
  case list.list => simp only [typeOf] at h1 h2 ⊢; exact seqcase _ (Or.inl rfl) hc0 h1 h2
  case tuple.tuple => simp only [typeOf] at h1 h2 ⊢; exact seqcase _ (Or.inl rfl) hc0 h1 h2
  case map.map => simp only [typeOf] at h1 h2 ⊢; exact seqcase _ (Or.inr rfl) hc0 h1 h2
  case object.object => simp only [typeOf] at h1 h2 ⊢; exact objcase _ _ rfl rfl hc0 h1 h2

theorem indexOut_nil {co ko : Out} (h : (indexOut true co ko).2 = []) :
    co.2 = [] ∧ ko.2 = [] ∧ (index true co.1 ko.1).2 = [] := by
  obtain ⟨cv, cd⟩ := co
  obtain ⟨kv, kd⟩ := ko
  simpa [indexOut, and_assoc] using h

theorem indexOut_rel (co co' ko ko' : Out) (hc : relV co.1 co'.1 = true) (hk : relV ko.1 ko'.1 = true)
    (hs : shapeEq ko.1 ko'.1) (h1 : (indexOut true co ko).2 = []) (h2 : (indexOut true co' ko').2 = []) :
    relV (indexOut true co ko).1 (indexOut true co' ko').1 = true := by
  have a := indexOut_nil h1
  have b := indexOut_nil h2
  obtain ⟨cv, cd⟩ := co
  obtain ⟨kv, kd⟩ := ko
  obtain ⟨cv', cd'⟩ := co'
  obtain ⟨kv', kd'⟩ := ko'
  exact index_rel _ _ _ _ hc hk hs a.2.2 b.2.2

/-! ### unary operators -/

theorem evalUn_nil {op : UnOp} {g : Val} {ds : List Diag} (h : (evalUn op (g, ds)).2 = []) :
    ds = [] ∧ ∃ v r, tryConvert g op.paramTy = .ok v ∧ callUn op v = .ok r ∧ evalUn op (g, ds) = (r, []) := by
  unfold evalUn at h ⊢
  simp only [] at h ⊢
  split at h
  · simp at h
  · rename_i v hv
    cases ds with
    | cons d ds => simp [hasErrors] at h
    | nil =>
      simp only [hasErrors, List.isEmpty_nil, Bool.not_true, Bool.false_eq_true, if_false] at h ⊢
      split at h
      · rename_i r hr
        refine ⟨by simp, v, r, hv, hr, ?_⟩
        simp [hr]
      · simp at h
      · simp at h

theorem evalUn_rel (op : UnOp) (o o' : Out) (hr : relV o.1 o'.1 = true) (hs : shapeEq o.1 o'.1)
    (h1 : (evalUn op o).2 = []) (h2 : (evalUn op o').2 = []) :
    relV (evalUn op o).1 (evalUn op o').1 = true := by
  obtain ⟨g, ds⟩ := o
  obtain ⟨g', ds'⟩ := o'
  obtain ⟨-, v, r, c1, u1, e1⟩ := evalUn_nil h1
  obtain ⟨-, v', r', c2, u2, e2⟩ := evalUn_nil h2
  rw [e1, e2]
  simp only [] at hr hs ⊢
  have hv := tryConvert_rel hr c1 c2
  have k1 := tryConvert_isKnown c1
  have k2 := tryConvert_isKnown c2
  have hk : v.isKnown = v'.isKnown := by rw [k1, k2]; exact hs.1
  have n1 : v.isNull = false := by
    unfold callUn at u1; split at u1 <;> simp_all
  have n2 : v'.isNull = false := by
    unfold callUn at u2; split at u2 <;> simp_all
  have n1' := tryConvert_isNull c1
  have n2' := tryConvert_isNull c2
  cases op with
  | neg =>
    simp only [UnOp.paramTy] at c1 c2
    rcases convert_num_cases _ _ (tryConvert_ok c1) (by rw [← n1', n1]) with ⟨q, rfl⟩ | rfl <;>
    rcases convert_num_cases _ _ (tryConvert_ok c2) (by rw [← n2', n2]) with ⟨q', rfl⟩ | rfl
    · simp only [callUn, isNull, Bool.false_eq_true, if_false] at u1 u2
      by_cases hq : q = 0
      · exc
      by_cases hq' : q' = 0
      · exc
      simp [hq, hq', pure, Except.pure] at u1 u2
      subst u1; subst u2
      simp [relV] at hv ⊢
      rcases hv with hv | hv <;> simp [hv]
    · simp [isKnown] at hk
    · simp [isKnown] at hk
    · simp [callUn, isNull, pure, Except.pure] at u1 u2
      subst u1; subst u2; simp [relV]
  | not =>
    simp only [UnOp.paramTy] at c1 c2
    rcases convert_bool_cases _ _ (tryConvert_ok c1) (by rw [← n1', n1]) with ⟨q, rfl⟩ | rfl <;>
    rcases convert_bool_cases _ _ (tryConvert_ok c2) (by rw [← n2', n2]) with ⟨q', rfl⟩ | rfl
    · simp [callUn, isNull, pure, Except.pure] at u1 u2
      subst u1; subst u2
      simp [relV] at hv ⊢
      rcases hv with hv | hv <;> simp [hv]
    · simp [isKnown] at hk
    · simp [isKnown] at hk
    · simp [callUn, isNull, pure, Except.pure] at u1 u2
      subst u1; subst u2; simp [relV]

/-! ### binary operators -/

theorem shortCircuit_relC (op : BinOp) {l l' r r' : Val} (hl : relC l l' = true) (hr : relC r r' = true) :
    shortCircuit op l r [] [] = shortCircuit op l' r' [] [] := by
  cases l <;> cases l' <;> simp [relC] at hl <;> cases r <;> cases r' <;> simp [relC] at hr <;>
    (try subst hl) <;> (try subst hr) <;> (try simp [shortCircuit, isKnown, hasErrors])
  all_goals ((try cases ‹Bool›) <;> (try cases ‹Bool›) <;> simp)

end HclModel.Proofs
