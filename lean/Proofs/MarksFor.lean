import Proofs.MarksTmpl
/-!
C06: `for` expressions.
-/
set_option linter.unusedSimpArgs false
namespace HclModel.Proofs
open Val

/-! ### `elements` -/

def idxFrom (kf : Fl) : Nat → List Val → List (Val × Val)
  | _, [] => []
  | n, x :: xs => (Val.num kf (n : Rat), x) :: idxFrom kf (n + 1) xs

theorem idx_eq (kf : Fl) (xs : List Val) :
    ((List.range xs.length).zip xs |>.map fun (i, x) => (Val.num kf (i : Rat), x)) = idxFrom kf 0 xs := by
  rw [List.range_eq_range']
  generalize 0 = n
  induction xs generalizing n with
  | nil => simp [idxFrom]
  | cons x xs ih =>
    simp only [List.length_cons, List.range'_succ, List.zip_cons_cons, List.map_cons, idxFrom]
    rw [ih]

def keyed (kf : Fl) (kvs : List (String × Val)) : List (Val × Val) := kvs.map fun (k, x) => (Val.str kf k, x)

theorem elements_eq (v : Val) : elements v =
    match v with
    | .list f _ xs => some (idxFrom ⟨false, f.g⟩ 0 xs)
    | .tuple f xs => some (idxFrom ⟨false, f.g⟩ 0 xs)
    | .map f _ kvs => some (keyed ⟨false, f.g⟩ kvs)
    | .object f kvs => some (keyed ⟨false, f.g⟩ kvs)
    | _ => none := by
  cases v <;> simp [elements, idx_eq, keyed]

/-- element pairs of the two runs -/
def relEl (p p' : Val × Val) : Prop := relV p.1 p'.1 = true ∧ relV p.2 p'.2 = true

theorem idxFrom_rel (kf kf' : Fl) : ∀ (xs ys : List Val) (n : Nat), relL xs ys = true →
    All2 relEl (idxFrom kf n xs) (idxFrom kf' n ys)
  | [], [], _, _ => .nil
  | [], _ :: _, _, h => by simp [relL] at h
  | _ :: _, [], _, h => by simp [relL] at h
  | x :: xs, y :: ys, n, h => by
    simp only [relL, Bool.and_eq_true] at h
    exact .cons ⟨by simp [relV], h.1⟩ (idxFrom_rel kf kf' xs ys (n + 1) h.2)

theorem keyed_rel (kf kf' : Fl) : ∀ (xs ys : List (String × Val)), relF xs ys = true →
    All2 relEl (keyed kf xs) (keyed kf' ys)
  | [], [], _ => .nil
  | [], _ :: _, h => by simp [relF] at h
  | _ :: _, [], h => by simp [relF] at h
  | (k, x) :: xs, (l, y) :: ys, h => by
    simp only [relF, Bool.and_eq_true, beq_iff_eq] at h
    exact .cons ⟨by simp [relV, h.1.1], h.1.2⟩ (keyed_rel kf kf' xs ys h.2)

theorem elements_rel {v v' : Val} (h : relC v v' = true) :
    (elements v = none ∧ elements v' = none) ∨
      ∃ els els', elements v = some els ∧ elements v' = some els' ∧ All2 relEl els els' := by
  rw [elements_eq, elements_eq]
  cases v <;> cases v' <;> simp [relC] at h <;> simp
  · exact idxFrom_rel _ _ _ _ _ h.2
  · exact keyed_rel _ _ _ _ h.2
  · exact idxFrom_rel _ _ _ _ _ h
  · exact keyed_rel _ _ _ _ h

theorem All2.length {α β : Type} {R : α → β → Prop} {xs : List α} {ys : List β} (h : All2 R xs ys) :
    xs.length = ys.length := by
  induction h with
  | nil => rfl
  | cons _ _ ih => simp [ih]

theorem All2.zip {α β : Type} {R : α → β → Prop} {xs : List α} {ys : List β} (h : All2 R xs ys) :
    ∀ p ∈ xs.zip ys, R p.1 p.2 := by
  induction h with
  | nil => simp
  | cons hab _ ih =>
    intro p hp
    simp only [List.zip_cons_cons, List.mem_cons] at hp
    rcases hp with rfl | hp
    · exact hab
    · exact ih p hp

/-- the grouped key/value lists of the two runs -/
def relKvs (a b : List (String × List Val)) : Prop := All2 (fun p p' => p.1 = p'.1 ∧ relL p.2 p'.2 = true) a b

/-- the loop states of the two runs: marked in both, or same `known` and related accumulated values -/
def FInv (st st' : ForSt) : Prop :=
  (st.marks.m = true ∧ st'.marks.m = true) ∨ (st.known = false ∧ st'.known = false) ∨
    (st.known = true ∧ st'.known = true ∧ relL st.vals st'.vals = true ∧ relKvs st.kvs st'.kvs)

theorem forFold_diags (stepf : ForSt → Val × Val → ForSt)
    (hdiag : ∀ st kv, (stepf st kv).diags = [] → st.diags = []) :
    ∀ (els : List (Val × Val)) (st : ForSt), (els.foldl stepf st).diags = [] → st.diags = []
  | [], _, h => h
  | kv :: els, st, h => hdiag st kv (forFold_diags stepf hdiag els _ h)

theorem forFold_marked (stepf : ForSt → Val × Val → ForSt)
    (hmono : ∀ st kv, st.marks.m = true → (stepf st kv).marks.m = true) :
    ∀ (els : List (Val × Val)) (st : ForSt), st.marks.m = true → (els.foldl stepf st).marks.m = true
  | [], _, h => h
  | kv :: els, st, h => forFold_marked stepf hmono els _ (hmono st kv h)

theorem forFold_inv (stepf stepf' : ForSt → Val × Val → ForSt)
    (hdiag : ∀ st kv, (stepf st kv).diags = [] → st.diags = [])
    (hdiag' : ∀ st kv, (stepf' st kv).diags = [] → st.diags = [])
    (hmono : ∀ st kv, st.marks.m = true → (stepf st kv).marks.m = true)
    (hmono' : ∀ st kv, st.marks.m = true → (stepf' st kv).marks.m = true)
    (hknown : ∀ st kv, st.known = false → (stepf st kv).known = false)
    (hknown' : ∀ st kv, st.known = false → (stepf' st kv).known = false) :
    ∀ (els els' : List (Val × Val)), els.length = els'.length →
      (∀ p ∈ els.zip els', ∀ st st', st.known = true → st'.known = true → relL st.vals st'.vals = true →
        relKvs st.kvs st'.kvs → (stepf st p.1).diags = [] → (stepf' st' p.2).diags = [] →
        FInv (stepf st p.1) (stepf' st' p.2)) →
      ∀ st st', FInv st st' → (els.foldl stepf st).diags = [] → (els'.foldl stepf' st').diags = [] →
      FInv (els.foldl stepf st) (els'.foldl stepf' st')
  | [], [], _, _, _, _, hi, _, _ => hi
  | [], _ :: _, hl, _, _, _, _, _, _ => by simp at hl
  | _ :: _, [], hl, _, _, _, _, _, _ => by simp at hl
  | kv :: els, kv' :: els', hl, hstep, st, st', hi, h1, h2 => by
    simp only [List.foldl_cons] at h1 h2 ⊢
    have a := forFold_diags stepf hdiag els _ h1
    have b := forFold_diags stepf' hdiag' els' _ h2
    apply forFold_inv stepf stepf' hdiag hdiag' hmono hmono' hknown hknown' els els' (by simpa using hl)
      (fun p hp => hstep p (by simp [hp])) _ _ _ h1 h2
    rcases hi with hi | hi | hi
    · exact Or.inl ⟨hmono _ _ hi.1, hmono' _ _ hi.2⟩
    · exact Or.inr (Or.inl ⟨hknown _ _ hi.1, hknown' _ _ hi.2⟩)
    · exact hstep (kv, kv') (by simp) st st' hi.1 hi.2.1 hi.2.2.1 hi.2.2.2 a b

theorem probe_diags (probe : Option Out) :
    ((probe.map probeCond).map (·.1)).getD [] = [] → ∀ o, probe = some o → o.2 = [] := by
  intro h o ho
  subst ho
  obtain ⟨r, pd⟩ := o
  simp only [Option.map_some, Option.getD_some, probeCond] at h
  split at h
  · simp at h
  · split at h
    · simp at h
    · exact h

theorem probe_stop (probe : Option Out) :
    ((probe.map probeCond).map (·.2.2)).getD false = true → ((probe.map probeCond).map (·.1)).getD [] ≠ [] := by
  intro h
  cases probe with
  | none => simp at h
  | some o =>
    obtain ⟨r, pd⟩ := o
    simp only [Option.map_some, Option.getD_some, probeCond] at h ⊢
    split
    · simp
    · split
      · simp
      · cases pd <;> simp_all [hasErrors]

theorem forOut_rel (co co' : Out) (probe probe' : Option Out) (stepf stepf' : ForSt → Val × Val → ForSt)
    (fin : ForSt → Out) (hr : relV co.1 co'.1 = true) (hs : shapeEq co.1 co'.1)
    (hfind : ∀ st, (fin st).2 = st.diags)
    (hdiag : ∀ st kv, (stepf st kv).diags = [] → st.diags = [])
    (hdiag' : ∀ st kv, (stepf' st kv).diags = [] → st.diags = [])
    (hmono : ∀ st kv, st.marks.m = true → (stepf st kv).marks.m = true)
    (hmono' : ∀ st kv, st.marks.m = true → (stepf' st kv).marks.m = true)
    (hknown : ∀ st kv, st.known = false → (stepf st kv).known = false)
    (hknown' : ∀ st kv, st.known = false → (stepf' st kv).known = false)
    (hfinm : ∀ st, st.marks.m = true → (fin st).1.fl.m = true)
    (hfinrel : ∀ st st', FInv st st' → relV (fin st).1 (fin st').1 = true)
    (hstep : ¬ bm co.1 co'.1 → ∀ els els', elements co.1.unmark.1 = some els → elements co'.1.unmark.1 = some els' →
      ∀ p ∈ els.zip els', relEl p.1 p.2 → ∀ st st', st.known = true → st'.known = true →
        relL st.vals st'.vals = true → relKvs st.kvs st'.kvs →
        (stepf st p.1).diags = [] → (stepf' st' p.2).diags = [] → FInv (stepf st p.1) (stepf' st' p.2))
    (h1 : (forOut co probe stepf fin).2 = []) (h2 : (forOut co' probe' stepf' fin).2 = []) :
    relV (forOut co probe stepf fin).1 (forOut co' probe' stepf' fin).1 = true := by
  obtain ⟨cv, cd⟩ := co
  obtain ⟨cv', cd'⟩ := co'
  simp only [] at hr hs hstep
  unfold forOut at h1 h2 ⊢
  simp only [] at h1 h2 ⊢
  cases hn : cv.isNull
  · cases hn' : cv'.isNull
    · simp only [hn, hn', Bool.false_eq_true, if_false] at h1 h2 ⊢
      rw [← hs.2] at h2 ⊢
      cases hd : (cv.typeOf == Ty.dyn)
      · simp only [hd, Bool.false_eq_true, if_false, unmark, typeOf_setFl] at h1 h2 ⊢
        cases hc : canIterate cv.typeOf
        · simp [hc] at h1
        cases hc' : canIterate cv'.typeOf
        · simp [hc'] at h2
        simp only [hc, hc', Bool.not_true, Bool.false_eq_true, if_false] at h1 h2 ⊢
        cases hp : ((probe.map probeCond).map (·.2.2)).getD false
        · cases hp' : ((probe'.map probeCond).map (·.2.2)).getD false
          · simp only [hp, hp', Bool.false_eq_true, if_false] at h1 h2 ⊢
            by_cases hb : bm cv cv'
            · apply relV_top
              · split
                · simp [hb.1]
                · exact hfinm _ (forFold_marked _ hmono _ _ hb.1)
              · split
                · simp [hb.2]
                · exact hfinm _ (forFold_marked _ hmono' _ _ hb.2)
            · have rc : relC (cv.setFl cv.fl.unmark) (cv'.setFl cv'.fl.unmark) = true := by
                rcases relV_cases hr with hb' | rc
                · exact absurd hb' hb
                · simpa using rc
              rcases elements_rel rc with ⟨e1, e2⟩ | ⟨els, els', e1, e2, ha⟩
              · simp only [e1, e2]; simp [relV, dynVal, withFl, setFl]
              · simp only [e1, e2] at h1 h2 ⊢
                rw [hfind] at h1 h2
                apply hfinrel
                apply forFold_inv stepf stepf' hdiag hdiag' hmono hmono' hknown hknown' els els' ha.length
                  (fun p hp => hstep hb els els' e1 e2 p hp (ha.zip p hp)) _ _ _ h1 h2
                right; right
                exact ⟨rfl, rfl, by simp [relL], .nil⟩
          · have := probe_stop _ hp'
            simp only [hp', if_true, List.append_eq_nil_iff] at h2
            exact absurd h2.2 this
        · have := probe_stop _ hp
          simp only [hp, if_true, List.append_eq_nil_iff] at h1
          exact absurd h1.2 this
      · simp [hd, relV_refl]
    · simp [hn'] at h2
  · simp [hn] at h1
/-! ### the tuple form -/

theorem forTupleStep_diags (ev : Val → Val → Out) (ec : Option (Val → Val → Out)) (st : ForSt) (kv : Val × Val)
    (h : (forTupleStep ev ec st kv).diags = []) : st.diags = [] := by
  unfold forTupleStep at h
  simp only [] at h
  split at h
  · simp only [List.append_eq_nil_iff] at h; exact h.1
  · split at h
    · split at h <;> simp_all
    · split at h
      · simp_all
      · split at h
        · split at h <;> simp_all
        · simp_all
        · simp_all

theorem forTupleStep_marks (ev : Val → Val → Out) (ec : Option (Val → Val → Out)) (st : ForSt) (kv : Val × Val)
    (h : st.marks.m = true) : (forTupleStep ev ec st kv).marks.m = true := by
  unfold forTupleStep
  simp only []
  split
  · exact h
  · split
    · exact h
    · split
      · simp [h]
      · split <;> simp [h]

theorem forTupleStep_known (ev : Val → Val → Out) (ec : Option (Val → Val → Out)) (st : ForSt) (kv : Val × Val)
    (h : st.known = false) : (forTupleStep ev ec st kv).known = false := by
  unfold forTupleStep
  simp only []
  split
  · exact h
  · split
    · rfl
    · split
      · rfl
      · split <;> simp [h]

/-- the unconditional part of the tuple-`for` body -/
def tupStep (ev : Val → Val → Out) (st : ForSt) (kv : Val × Val) : ForSt :=
  { st with diags := st.diags ++ (ev kv.1 kv.2).2, vals := st.vals ++ [(ev kv.1 kv.2).1] }

theorem tupStep_inv (ev ev' : Val → Val → Out) (st st' : ForSt) (kv kv' : Val × Val)
    (hev : (ev kv.1 kv.2).2 = [] → (ev' kv'.1 kv'.2).2 = [] → relV (ev kv.1 kv.2).1 (ev' kv'.1 kv'.2).1 = true)
    (hk : st.known = true) (hk' : st'.known = true) (hv : relL st.vals st'.vals = true) (hkv : relKvs st.kvs st'.kvs)
    (h1 : (tupStep ev st kv).diags = []) (h2 : (tupStep ev' st' kv').diags = []) :
    FInv (tupStep ev st kv) (tupStep ev' st' kv') := by
  simp only [tupStep, List.append_eq_nil_iff] at h1 h2
  right; right
  refine ⟨hk, hk', ?_, hkv⟩
  simp only [tupStep]
  exact relL_append hv (by simp [relL, hev h1.2 h2.2])

theorem forTupleStep_none (ev : Val → Val → Out) (st : ForSt) (kv : Val × Val) :
    forTupleStep ev none st kv = tupStep ev st kv := rfl

theorem forTupleStep_some (ev c : Val → Val → Out) (st : ForSt) (kv : Val × Val) :
    forTupleStep ev (some c) st kv =
      (let inc := (c kv.1 kv.2).1
       let st1 : ForSt := { st with diags := st.diags ++ (c kv.1 kv.2).2 }
       if inc.isNull then
         { st1 with diags := if st1.known then st1.diags ++ [⟨"Invalid 'for' condition: null", []⟩] else st1.diags, known := false }
       else
         let st2 : ForSt := { st1 with marks := st1.marks.join inc.fl }
         if !inc.isKnown then { st2 with known := false }
         else match tryConvert inc .bool with
           | .error d =>
             { st2 with diags := if st2.known then st2.diags ++ [if d.isUnsupported then d else ⟨"Invalid 'for' condition", []⟩] else st2.diags, known := false }
           | .ok (.bool _ false) => st2
           | .ok _ => tupStep ev st2 kv) := rfl

theorem forTupleStep_inv (ev ev' : Val → Val → Out) (ec ec' : Option (Val → Val → Out)) (st st' : ForSt)
    (kv kv' : Val × Val) (hopt : ec.isSome = ec'.isSome)
    (hev : (ev kv.1 kv.2).2 = [] → (ev' kv'.1 kv'.2).2 = [] → relV (ev kv.1 kv.2).1 (ev' kv'.1 kv'.2).1 = true)
    (hec : ∀ c c', ec = some c → ec' = some c' → (c kv.1 kv.2).2 = [] → (c' kv'.1 kv'.2).2 = [] →
      relV (c kv.1 kv.2).1 (c' kv'.1 kv'.2).1 = true)
    (hk : st.known = true) (hk' : st'.known = true) (hv : relL st.vals st'.vals = true) (hkv : relKvs st.kvs st'.kvs)
    (h1 : (forTupleStep ev ec st kv).diags = []) (h2 : (forTupleStep ev' ec' st' kv').diags = []) :
    FInv (forTupleStep ev ec st kv) (forTupleStep ev' ec' st' kv') := by
  cases ec with
  | none =>
    cases ec' with
    | some c' => simp at hopt
    | none =>
      rw [forTupleStep_none] at h1 h2 ⊢
      exact tupStep_inv ev ev' st st' kv kv' hev hk hk' hv hkv h1 h2
  | some c =>
    cases ec' with
    | none => simp at hopt
    | some c' =>
      have hd := forTupleStep_diags _ _ _ _ h1
      have hd' := forTupleStep_diags _ _ _ _ h2
      rw [forTupleStep_some] at h1 h2
      rw [forTupleStep_some, forTupleStep_some]
      simp only [hk, hk', hd, hd', List.nil_append, if_true] at h1 h2 ⊢
      cases hn : (c kv.1 kv.2).1.isNull
      · cases hn' : (c' kv'.1 kv'.2).1.isNull
        · simp only [hn, hn', Bool.false_eq_true, if_false] at h1 h2 ⊢
          have hid : (c kv.1 kv.2).2 = [] := by
            split at h1
            · exact h1
            · split at h1
              · simp at h1
              · exact h1
              · simp only [tupStep, List.append_eq_nil_iff] at h1; exact h1.1
          have hid' : (c' kv'.1 kv'.2).2 = [] := by
            split at h2
            · exact h2
            · split at h2
              · simp at h2
              · exact h2
              · simp only [tupStep, List.append_eq_nil_iff] at h2; exact h2.1
          have hrel := hec c c' rfl rfl hid hid'
          by_cases hb : bm (c kv.1 kv.2).1 (c' kv'.1 kv'.2).1
          · left
            constructor
            · split
              · simp [hb.1]
              · split <;> simp [hb.1, tupStep]
            · split
              · simp [hb.2]
              · split <;> simp [hb.2, tupStep]
          · have rc : relC (c kv.1 kv.2).1 (c' kv'.1 kv'.2).1 = true := by
              rcases relV_cases hrel with hb' | rc
              · exact absurd hb' hb
              · exact rc
            have hkn := relC_isKnown rc
            rw [← hkn] at h2 ⊢
            cases hk1 : (c kv.1 kv.2).1.isKnown
            · right; left; simp
            · simp only [hk1, Bool.not_true, Bool.false_eq_true, if_false] at h1 h2 ⊢
              cases c1 : tryConvert (c kv.1 kv.2).1 .bool with
              | error d => simp [c1] at h1
              | ok cb =>
                cases c2 : tryConvert (c' kv'.1 kv'.2).1 .bool with
                | error d => simp [c2] at h2
                | ok cb' =>
                  simp only [c1, c2] at h1 h2 ⊢
                  have r := tryConvert_rel hrel c1 c2
                  have f1 := tryConvert_fl c1
                  have f2 := tryConvert_fl c2
                  have rc2 : relC cb cb' = true := by
                    rcases relV_cases r with hb' | rc2
                    · rw [f1, f2] at hb'; exact absurd hb' hb
                    · exact rc2
                  cases cb <;> cases cb' <;> simp [relC] at rc2
                  case bool.bool f b f' b' =>
                    subst rc2
                    cases b
                    · right; right; exact ⟨rfl, rfl, hv, hkv⟩
                    · exact tupStep_inv ev ev' _ _ kv kv' hev rfl rfl hv hkv h1 h2
                  all_goals exact tupStep_inv ev ev' _ _ kv kv' hev rfl rfl hv hkv h1 h2
        · simp [hn'] at h2
      · simp [hn] at h1
theorem forTupleFin_diags (st : ForSt) : (forTupleFin st).2 = st.diags := by
  unfold forTupleFin; split <;> rfl

theorem forTupleFin_marked (st : ForSt) (h : st.marks.m = true) : (forTupleFin st).1.fl.m = true := by
  unfold forTupleFin; split <;> simp [h]

theorem forTupleFin_rel (st st' : ForSt) (h : FInv st st') : relV (forTupleFin st).1 (forTupleFin st').1 = true := by
  rcases h with h | h | h
  · exact relV_top (forTupleFin_marked _ h.1) (forTupleFin_marked _ h.2)
  · simp [forTupleFin, h.1, h.2, relV, dynVal, withFl, setFl]
  · simp [forTupleFin, h.1, h.2.1, relV, h.2.2.1]

/-- tuple-`for`: the relational lemma -/
theorem forTuple_rel (co co' : Out) (probe probe' : Option Out) (ev ev' : Val → Val → Out)
    (ec ec' : Option (Val → Val → Out)) (hr : relV co.1 co'.1 = true) (hs : shapeEq co.1 co'.1)
    (hopt : ec.isSome = ec'.isSome)
    (hbody : ¬ bm co.1 co'.1 → ∀ els els', elements co.1.unmark.1 = some els → elements co'.1.unmark.1 = some els' →
      ∀ p ∈ els.zip els', relEl p.1 p.2 →
        ((ev p.1.1 p.1.2).2 = [] → (ev' p.2.1 p.2.2).2 = [] → relV (ev p.1.1 p.1.2).1 (ev' p.2.1 p.2.2).1 = true) ∧
        (∀ c c', ec = some c → ec' = some c' → (c p.1.1 p.1.2).2 = [] → (c' p.2.1 p.2.2).2 = [] →
          relV (c p.1.1 p.1.2).1 (c' p.2.1 p.2.2).1 = true))
    (h1 : (forOut co probe (forTupleStep ev ec) forTupleFin).2 = [])
    (h2 : (forOut co' probe' (forTupleStep ev' ec') forTupleFin).2 = []) :
    relV (forOut co probe (forTupleStep ev ec) forTupleFin).1
      (forOut co' probe' (forTupleStep ev' ec') forTupleFin).1 = true := by
  apply forOut_rel co co' probe probe' _ _ _ hr hs forTupleFin_diags
    (forTupleStep_diags ev ec) (forTupleStep_diags ev' ec') (forTupleStep_marks ev ec) (forTupleStep_marks ev' ec')
    (forTupleStep_known ev ec) (forTupleStep_known ev' ec') forTupleFin_marked forTupleFin_rel _ h1 h2
  intro hb els els' e1 e2 p hp hrel st st' hk hk' hv hkv d1 d2
  obtain ⟨b1, b2⟩ := hbody hb els els' e1 e2 p hp hrel
  exact forTupleStep_inv ev ev' ec ec' st st' p.1 p.2 hopt b1 b2 hk hk' hv hkv d1 d2

theorem forOut_nil {co : Out} {probe : Option Out} {stepf : ForSt → Val × Val → ForSt} {fin : ForSt → Out}
    (hfind : ∀ st, (fin st).2 = st.diags) (hdiag : ∀ st kv, (stepf st kv).diags = [] → st.diags = [])
    (h : (forOut co probe stepf fin).2 = []) : co.2 = [] := by
  obtain ⟨cv, cd⟩ := co
  unfold forOut at h
  simp only [] at h ⊢
  split at h
  · simp at h
  split at h
  · exact h
  simp only [unmark, typeOf_setFl] at h
  cases hc : canIterate cv.typeOf
  · simp [hc] at h
  simp only [hc, Bool.not_true, Bool.false_eq_true, if_false] at h
  cases hp : ((probe.map probeCond).map (·.2.2)).getD false
  · simp only [hp, Bool.false_eq_true, if_false] at h
    cases he : elements (cv.setFl cv.fl.unmark) with
    | none => simp only [he, List.append_eq_nil_iff] at h; exact h.1
    | some els =>
      simp only [he] at h
      rw [hfind] at h
      have := forFold_diags stepf hdiag _ _ h
      simp only [List.append_eq_nil_iff] at this; exact this.1
  · simp only [hp, if_true, List.append_eq_nil_iff] at h; exact h.1
/-! ### the object form -/

theorem groupInsert_rel (k : String) (v v' : Val) (hv : relV v v' = true) {a b : List (String × List Val)}
    (h : relKvs a b) : relKvs (groupInsert k v a) (groupInsert k v' b) := by
  induction h with
  | nil => exact .cons ⟨rfl, by simp [relL, hv]⟩ .nil
  | @cons p p' as bs hp hr ih =>
    obtain ⟨k1, vs⟩ := p
    obtain ⟨k2, vs'⟩ := p'
    obtain ⟨rfl, hvs⟩ := hp
    simp only [groupInsert]
    split
    · exact .cons ⟨rfl, by simp [relL, hv]⟩ (.cons ⟨rfl, hvs⟩ hr)
    · split
      · exact .cons ⟨rfl, relL_append hvs (by simp [relL, hv])⟩ hr
      · exact .cons ⟨rfl, hvs⟩ ih

theorem lookupKey_relKvs (k : String) {a b : List (String × List Val)} (h : relKvs a b) :
    (lookupKey k a).isSome = (lookupKey k b).isSome := by
  induction h with
  | nil => rfl
  | @cons p p' as bs hp hr ih =>
    obtain ⟨k1, vs⟩ := p
    obtain ⟨k2, vs'⟩ := p'
    obtain ⟨rfl, hvs⟩ := hp
    simp only [lookupKey]
    split
    · rfl
    · exact ih

theorem relKvs_tuples {a b : List (String × List Val)} (h : relKvs a b) :
    relF (a.map fun (k, vs) => (k, Val.tuple Fl.none vs)) (b.map fun (k, vs) => (k, Val.tuple Fl.none vs)) = true := by
  induction h with
  | nil => simp [relF]
  | @cons p p' as bs hp hr ih =>
    obtain ⟨k1, vs⟩ := p
    obtain ⟨k2, vs'⟩ := p'
    obtain ⟨rfl, hvs⟩ := hp
    simp [relF, relV, hvs, ih]

theorem relL_headD {vs vs' : List Val} (h : relL vs vs' = true) :
    relV (vs.headD Val.dynVal) (vs'.headD Val.dynVal) = true := by
  cases vs <;> cases vs' <;> simp [relL] at h
  · simp [relV_refl]
  · simp [h.1]

theorem relKvs_heads {a b : List (String × List Val)} (h : relKvs a b) :
    relF (a.map fun (k, vs) => (k, vs.headD Val.dynVal)) (b.map fun (k, vs) => (k, vs.headD Val.dynVal)) = true := by
  induction h with
  | nil => simp [relF]
  | @cons p p' as bs hp hr ih =>
    obtain ⟨k1, vs⟩ := p
    obtain ⟨k2, vs'⟩ := p'
    obtain ⟨rfl, hvs⟩ := hp
    simp only [List.map_cons, relF, Bool.and_eq_true, beq_self_eq_true, true_and]
    exact ⟨relL_headD hvs, ih⟩

theorem forObjectFin_diags (g : Bool) (st : ForSt) : (forObjectFin g st).2 = st.diags := by
  unfold forObjectFin; split <;> (try split) <;> rfl

theorem forObjectFin_marked (g : Bool) (st : ForSt) (h : st.marks.m = true) : (forObjectFin g st).1.fl.m = true := by
  unfold forObjectFin; split <;> (try split) <;> simp [h]

theorem forObjectFin_rel (g : Bool) (st st' : ForSt) (h : FInv st st') :
    relV (forObjectFin g st).1 (forObjectFin g st').1 = true := by
  rcases h with h | h | h
  · exact relV_top (forObjectFin_marked _ _ h.1) (forObjectFin_marked _ _ h.2)
  · simp [forObjectFin, h.1, h.2, relV, dynVal, withFl, setFl]
  · cases g
    · simp only [forObjectFin, h.1, h.2.1, Bool.not_true, Bool.false_eq_true, if_false, relV, relKvs_heads h.2.2.2, Bool.or_true]
    · simp only [forObjectFin, h.1, h.2.1, Bool.not_true, Bool.false_eq_true, if_false, if_true, relV, relKvs_tuples h.2.2.2, Bool.or_true]

/-- the unconditional part of the object-`for` body -/
def objStep (group : Bool) (ek ev : Val → Val → Out) (st : ForSt) (kv : Val × Val) : ForSt :=
  let kr := (ek kv.1 kv.2).1
  let st : ForSt := { st with diags := st.diags ++ (ek kv.1 kv.2).2 }
  if kr.isNull then
    { st with diags := if st.known then st.diags ++ [⟨"Invalid object key: null", []⟩] else st.diags, known := false }
  else
    let st : ForSt := { st with marks := st.marks.join kr.fl }
    if !kr.isKnown then { st with known := false }
    else match tryConvert kr .str with
      | .error d =>
        { st with diags := if st.known then st.diags ++ [if d.isUnsupported then d else ⟨"Invalid object key", []⟩] else st.diags, known := false }
      | .ok ks =>
        match ks.unmark.1 with
        | .str kf k =>
          let v := (ev kv.1 kv.2).1
          let st : ForSt := { st with diags := st.diags ++ (ev kv.1 kv.2).2 }
          if group then { st with kvs := groupInsert k v st.kvs }
          else if (lookupKey k st.kvs).isSome then
            { st with diags := st.diags ++ [⟨"Duplicate object key", if st.marks.m then [] else [.str kf k]⟩] }
          else { st with kvs := groupInsert k v st.kvs }
        | _ => { st with known := false }

theorem forObjectStep_none (g : Bool) (ek ev : Val → Val → Out) (st : ForSt) (kv : Val × Val) :
    forObjectStep g ek ev none st kv = objStep g ek ev st kv := rfl

theorem forObjectStep_some (g : Bool) (ek ev c : Val → Val → Out) (st : ForSt) (kv : Val × Val) :
    forObjectStep g ek ev (some c) st kv =
      (let inc := (c kv.1 kv.2).1
       let st1 : ForSt := { st with diags := st.diags ++ (c kv.1 kv.2).2 }
       if inc.isNull then
         { st1 with diags := if st1.known then st1.diags ++ [⟨"Invalid 'for' condition: null", []⟩] else st1.diags, known := false }
       else
         let st2 : ForSt := { st1 with marks := st1.marks.join inc.fl }
         match tryConvert inc .bool with
         | .error d =>
           { st2 with diags := if st2.known then st2.diags ++ [if d.isUnsupported then d else ⟨"Invalid 'for' condition", []⟩] else st2.diags, known := false }
         | .ok b =>
           if !b.isKnown then { st2 with known := false }
           else match b with
             | .bool _ false => st2
             | _ => objStep g ek ev st2 kv) := rfl

theorem objStep_diags (g : Bool) (ek ev : Val → Val → Out) (st : ForSt) (kv : Val × Val)
    (h : (objStep g ek ev st kv).diags = []) : st.diags = [] ∧ (ek kv.1 kv.2).2 = [] := by
  unfold objStep at h
  simp only [] at h
  split at h
  · split at h <;> simp_all
  · split at h
    · simp_all
    · split at h
      · split at h <;> simp_all
      · split at h
        · split at h
          · simp_all
          · split at h <;> simp_all
        · simp_all

theorem objStep_marks (g : Bool) (ek ev : Val → Val → Out) (st : ForSt) (kv : Val × Val)
    (h : st.marks.m = true) : (objStep g ek ev st kv).marks.m = true := by
  unfold objStep
  simp only []
  split
  · exact h
  · split
    · simp [h]
    · split
      · simp [h]
      · split
        · split
          · simp [h]
          · split <;> simp [h]
        · simp [h]

theorem objStep_known (g : Bool) (ek ev : Val → Val → Out) (st : ForSt) (kv : Val × Val)
    (h : st.known = false) : (objStep g ek ev st kv).known = false := by
  unfold objStep
  simp only []
  split
  · rfl
  · split
    · rfl
    · split
      · rfl
      · split
        · split
          · simp [h]
          · split <;> simp [h]
        · rfl

theorem forObjectStep_diags (g : Bool) (ek ev : Val → Val → Out) (ec : Option (Val → Val → Out)) (st : ForSt)
    (kv : Val × Val) (h : (forObjectStep g ek ev ec st kv).diags = []) : st.diags = [] := by
  cases ec with
  | none => rw [forObjectStep_none] at h; exact (objStep_diags _ _ _ _ _ h).1
  | some c =>
    rw [forObjectStep_some] at h
    simp only [] at h
    split at h
    · split at h <;> simp_all
    · split at h
      · split at h <;> simp_all
      · split at h
        · simp_all
        · split at h
          · simp_all
          · have := (objStep_diags _ _ _ _ _ h).1; simp_all

theorem forObjectStep_marks (g : Bool) (ek ev : Val → Val → Out) (ec : Option (Val → Val → Out)) (st : ForSt)
    (kv : Val × Val) (h : st.marks.m = true) : (forObjectStep g ek ev ec st kv).marks.m = true := by
  cases ec with
  | none => rw [forObjectStep_none]; exact objStep_marks _ _ _ _ _ h
  | some c =>
    rw [forObjectStep_some]
    simp only []
    split
    · exact h
    · split
      · simp [h]
      · split
        · simp [h]
        · split
          · simp [h]
          · exact objStep_marks _ _ _ _ _ (by simp [h])

theorem forObjectStep_known (g : Bool) (ek ev : Val → Val → Out) (ec : Option (Val → Val → Out)) (st : ForSt)
    (kv : Val × Val) (h : st.known = false) : (forObjectStep g ek ev ec st kv).known = false := by
  cases ec with
  | none => rw [forObjectStep_none]; exact objStep_known _ _ _ _ _ h
  | some c =>
    rw [forObjectStep_some]
    simp only []
    split
    · rfl
    · split
      · rfl
      · split
        · rfl
        · split
          · exact h
          · exact objStep_known _ _ _ _ _ h

theorem objStep_inv (g : Bool) (ek ek' ev ev' : Val → Val → Out) (st st' : ForSt) (kv kv' : Val × Val)
    (hek : (ek kv.1 kv.2).2 = [] → (ek' kv'.1 kv'.2).2 = [] → relV (ek kv.1 kv.2).1 (ek' kv'.1 kv'.2).1 = true)
    (hev : (ev kv.1 kv.2).2 = [] → (ev' kv'.1 kv'.2).2 = [] → relV (ev kv.1 kv.2).1 (ev' kv'.1 kv'.2).1 = true)
    (hk : st.known = true) (hk' : st'.known = true) (hv : relL st.vals st'.vals = true) (hkv : relKvs st.kvs st'.kvs)
    (h1 : (objStep g ek ev st kv).diags = []) (h2 : (objStep g ek' ev' st' kv').diags = []) :
    FInv (objStep g ek ev st kv) (objStep g ek' ev' st' kv') := by
  obtain ⟨hd, hkd⟩ := objStep_diags _ _ _ _ _ h1
  obtain ⟨hd', hkd'⟩ := objStep_diags _ _ _ _ _ h2
  have hrel := hek hkd hkd'
  unfold objStep at h1 h2 ⊢
  simp only [hk, hk', hd, hd', hkd, hkd', List.nil_append, List.append_nil, if_true] at h1 h2 ⊢
  cases hn : (ek kv.1 kv.2).1.isNull
  · cases hn' : (ek' kv'.1 kv'.2).1.isNull
    · simp only [hn, hn', Bool.false_eq_true, if_false] at h1 h2 ⊢
      by_cases hb : bm (ek kv.1 kv.2).1 (ek' kv'.1 kv'.2).1
      · left
        constructor
        · split
          · simp [hb.1]
          · split
            · simp [hb.1]
            · split
              · split
                · simp [hb.1]
                · split <;> simp [hb.1]
              · simp [hb.1]
        · split
          · simp [hb.2]
          · split
            · simp [hb.2]
            · split
              · split
                · simp [hb.2]
                · split <;> simp [hb.2]
              · simp [hb.2]
      · have rc : relC (ek kv.1 kv.2).1 (ek' kv'.1 kv'.2).1 = true := by
          rcases relV_cases hrel with hb' | rc
          · exact absurd hb' hb
          · exact rc
        have hkn := relC_isKnown rc
        rw [← hkn] at h2 ⊢
        cases hk1 : (ek kv.1 kv.2).1.isKnown
        · right; left; simp
        · simp only [hk1, Bool.not_true, Bool.false_eq_true, if_false] at h1 h2 ⊢
          cases c1 : tryConvert (ek kv.1 kv.2).1 .str with
          | error d => simp [c1] at h1
          | ok ks =>
            cases c2 : tryConvert (ek' kv'.1 kv'.2).1 .str with
            | error d => simp [c2] at h2
            | ok ks' =>
              simp only [c1, c2, unmark] at h1 h2 ⊢
              have r := tryConvert_rel hrel c1 c2
              have f1 := tryConvert_fl c1
              have f2 := tryConvert_fl c2
              have rc2 : relC ks ks' = true := by
                rcases relV_cases r with hb' | rc2
                · rw [f1, f2] at hb'; exact absurd hb' hb
                · exact rc2
              cases ks <;> cases ks' <;> simp [relC] at rc2 <;> simp only [setFl] at h1 h2 ⊢
              case str.str f s f' s' =>
                subst rc2
                have hvd : (ev kv.1 kv.2).2 = [] := by
                  cases g
                  · simp only [Bool.false_eq_true, if_false] at h1
                    split at h1 <;> simp_all
                  · simpa using h1
                have hvd' : (ev' kv'.1 kv'.2).2 = [] := by
                  cases g
                  · simp only [Bool.false_eq_true, if_false] at h2
                    split at h2 <;> simp_all
                  · simpa using h2
                have hvr := hev hvd hvd'
                have gi := groupInsert_rel s _ _ hvr hkv
                cases g
                · simp only [Bool.false_eq_true, if_false, hvd, hvd', List.append_nil] at h1 h2 ⊢
                  rw [← lookupKey_relKvs s hkv] at h2 ⊢
                  cases hl : (lookupKey s st.kvs).isSome
                  · simp only [Bool.false_eq_true, if_false]
                    right; right; exact ⟨rfl, rfl, hv, gi⟩
                  · simp [hl] at h1
                · simp only [if_true]
                  right; right; exact ⟨rfl, rfl, hv, gi⟩
              all_goals (right; left; exact ⟨rfl, rfl⟩)
    · simp [hn'] at h2
  · simp [hn] at h1

theorem forObjectStep_inv (g : Bool) (ek ek' ev ev' : Val → Val → Out) (ec ec' : Option (Val → Val → Out))
    (st st' : ForSt) (kv kv' : Val × Val) (hopt : ec.isSome = ec'.isSome)
    (hek : (ek kv.1 kv.2).2 = [] → (ek' kv'.1 kv'.2).2 = [] → relV (ek kv.1 kv.2).1 (ek' kv'.1 kv'.2).1 = true)
    (hev : (ev kv.1 kv.2).2 = [] → (ev' kv'.1 kv'.2).2 = [] → relV (ev kv.1 kv.2).1 (ev' kv'.1 kv'.2).1 = true)
    (hec : ∀ c c', ec = some c → ec' = some c' → (c kv.1 kv.2).2 = [] → (c' kv'.1 kv'.2).2 = [] →
      relV (c kv.1 kv.2).1 (c' kv'.1 kv'.2).1 = true)
    (hk : st.known = true) (hk' : st'.known = true) (hv : relL st.vals st'.vals = true) (hkv : relKvs st.kvs st'.kvs)
    (h1 : (forObjectStep g ek ev ec st kv).diags = []) (h2 : (forObjectStep g ek' ev' ec' st' kv').diags = []) :
    FInv (forObjectStep g ek ev ec st kv) (forObjectStep g ek' ev' ec' st' kv') := by
  cases ec with
  | none =>
    cases ec' with
    | some c' => simp at hopt
    | none =>
      rw [forObjectStep_none] at h1 h2 ⊢
      exact objStep_inv g ek ek' ev ev' st st' kv kv' hek hev hk hk' hv hkv h1 h2
  | some c =>
    cases ec' with
    | none => simp at hopt
    | some c' =>
      have hd := forObjectStep_diags _ _ _ _ _ _ h1
      have hd' := forObjectStep_diags _ _ _ _ _ _ h2
      rw [forObjectStep_some] at h1 h2
      rw [forObjectStep_some, forObjectStep_some]
      simp only [hk, hk', hd, hd', List.nil_append, if_true] at h1 h2 ⊢
      cases hn : (c kv.1 kv.2).1.isNull
      · cases hn' : (c' kv'.1 kv'.2).1.isNull
        · simp only [hn, hn', Bool.false_eq_true, if_false] at h1 h2 ⊢
          have hid : (c kv.1 kv.2).2 = [] := by
            split at h1
            · simp at h1
            · split at h1
              · exact h1
              · split at h1
                · exact h1
                · have := (objStep_diags _ _ _ _ _ h1).1; exact this
          have hid' : (c' kv'.1 kv'.2).2 = [] := by
            split at h2
            · simp at h2
            · split at h2
              · exact h2
              · split at h2
                · exact h2
                · have := (objStep_diags _ _ _ _ _ h2).1; exact this
          have hrel := hec c c' rfl rfl hid hid'
          by_cases hb : bm (c kv.1 kv.2).1 (c' kv'.1 kv'.2).1
          · left
            constructor
            · split
              · simp [hb.1]
              · split
                · simp [hb.1]
                · split
                  · simp [hb.1]
                  · exact objStep_marks _ _ _ _ _ (by simp [hb.1])
            · split
              · simp [hb.2]
              · split
                · simp [hb.2]
                · split
                  · simp [hb.2]
                  · exact objStep_marks _ _ _ _ _ (by simp [hb.2])
          · cases c1 : tryConvert (c kv.1 kv.2).1 .bool with
            | error d => simp [c1] at h1
            | ok cb =>
              cases c2 : tryConvert (c' kv'.1 kv'.2).1 .bool with
              | error d => simp [c2] at h2
              | ok cb' =>
                simp only [c1, c2] at h1 h2 ⊢
                have r := tryConvert_rel hrel c1 c2
                have f1 := tryConvert_fl c1
                have f2 := tryConvert_fl c2
                have rc2 : relC cb cb' = true := by
                  rcases relV_cases r with hb' | rc2
                  · rw [f1, f2] at hb'; exact absurd hb' hb
                  · exact rc2
                have hkn := relC_isKnown rc2
                rw [← hkn] at h2 ⊢
                cases hk1 : cb.isKnown
                · right; left; simp
                · simp only [hk1, Bool.not_true, Bool.false_eq_true, if_false] at h1 h2 ⊢
                  cases cb <;> cases cb' <;> simp [relC] at rc2
                  case bool.bool f b f' b' =>
                    subst rc2
                    cases b
                    · right; right; exact ⟨rfl, rfl, hv, hkv⟩
                    · exact objStep_inv g ek ek' ev ev' _ _ kv kv' hek hev rfl rfl hv hkv h1 h2
                  all_goals exact objStep_inv g ek ek' ev ev' _ _ kv kv' hek hev rfl rfl hv hkv h1 h2
        · simp [hn'] at h2
      · simp [hn] at h1

/-- object-`for`: the relational lemma -/
theorem forObject_rel (g : Bool) (co co' : Out) (probe probe' : Option Out) (ek ek' ev ev' : Val → Val → Out)
    (ec ec' : Option (Val → Val → Out)) (hr : relV co.1 co'.1 = true) (hs : shapeEq co.1 co'.1)
    (hopt : ec.isSome = ec'.isSome)
    (hbody : ¬ bm co.1 co'.1 → ∀ els els', elements co.1.unmark.1 = some els → elements co'.1.unmark.1 = some els' →
      ∀ p ∈ els.zip els', relEl p.1 p.2 →
        ((ek p.1.1 p.1.2).2 = [] → (ek' p.2.1 p.2.2).2 = [] → relV (ek p.1.1 p.1.2).1 (ek' p.2.1 p.2.2).1 = true) ∧
        ((ev p.1.1 p.1.2).2 = [] → (ev' p.2.1 p.2.2).2 = [] → relV (ev p.1.1 p.1.2).1 (ev' p.2.1 p.2.2).1 = true) ∧
        (∀ c c', ec = some c → ec' = some c' → (c p.1.1 p.1.2).2 = [] → (c' p.2.1 p.2.2).2 = [] →
          relV (c p.1.1 p.1.2).1 (c' p.2.1 p.2.2).1 = true))
    (h1 : (forOut co probe (forObjectStep g ek ev ec) (forObjectFin g)).2 = [])
    (h2 : (forOut co' probe' (forObjectStep g ek' ev' ec') (forObjectFin g)).2 = []) :
    relV (forOut co probe (forObjectStep g ek ev ec) (forObjectFin g)).1
      (forOut co' probe' (forObjectStep g ek' ev' ec') (forObjectFin g)).1 = true := by
  apply forOut_rel co co' probe probe' _ _ _ hr hs (forObjectFin_diags g)
    (forObjectStep_diags g ek ev ec) (forObjectStep_diags g ek' ev' ec') (forObjectStep_marks g ek ev ec)
    (forObjectStep_marks g ek' ev' ec') (forObjectStep_known g ek ev ec) (forObjectStep_known g ek' ev' ec')
    (forObjectFin_marked g) (forObjectFin_rel g) _ h1 h2
  intro hb els els' e1 e2 p hp hrel st st' hk hk' hv hkv d1 d2
  obtain ⟨b1, b2, b3⟩ := hbody hb els els' e1 e2 p hp hrel
  exact forObjectStep_inv g ek ek' ev ev' ec ec' st st' p.1 p.2 hopt b1 b2 b3 hk hk' hv hkv d1 d2
end HclModel.Proofs
