import Proofs.DynLevel
/-!
Well-formedness of source bodies and schema trees (the same definitions as `SBody.wf` / `STree.wf` in
`Props/C18.lean`, which are tied to these by `SBody.wf_eq_ok` / `STree.wf_eq_ok` there), and what follows from it.
-/
namespace HclModel.Dyn
open HclModel HclModel.Body

mutual
/-- attribute names unique in each body, no static block is called `dynamic`, no dynamic block gives an empty
    `labels` list -/
def SBody.ok : SBody → Bool
  | .mk attrs blocks => (attrs.map (·.1)).eraseDups.length == attrs.length && okAll blocks
def okAll : List SBlock → Bool
  | [] => true
  | .static t _ b :: rest => t != "dynamic" && b.ok && okAll rest
  | .dyn _ _ _ labels c :: rest => (match labels with | some [] => false | _ => true) && c.ok && okAll rest
end

mutual
/-- schemas name each attribute and block type once, and never the type `dynamic` -/
def STree.ok : STree → Bool
  | .mk attrs blocks =>
    (attrs.map (·.name)).eraseDups.length == attrs.length &&
    (blocks.map (·.1.type)).eraseDups.length == blocks.length &&
    stOkAll blocks
def stOkAll : List (BlockSchema × STree) → Bool
  | [] => true
  | (bs, st) :: rest => bs.type != "dynamic" && st.ok && stOkAll rest
end

namespace Proofs
open HclModel.Body.Proofs

/-- what `okAll` says about one block -/
def BlockOk : SBlock → Prop
  | .static t _ b => t ≠ "dynamic" ∧ b.ok = true
  | .dyn _ _ _ labels c => labels ≠ some [] ∧ c.ok = true

theorem okAll_iff (blocks : List SBlock) : okAll blocks = true ↔ ∀ blk ∈ blocks, BlockOk blk := by
  induction blocks with
  | nil => simp [okAll]
  | cons blk rest ih =>
    cases blk with
    | static t ls b =>
      simp only [okAll, Bool.and_eq_true, ih, List.mem_cons, forall_eq_or_imp, BlockOk, bne_iff_ne, ne_eq, and_assoc]
    | dyn t fe itn labels c =>
      simp only [okAll, Bool.and_eq_true, ih, List.mem_cons, forall_eq_or_imp, BlockOk, and_assoc]
      apply and_congr _ Iff.rfl
      cases labels with
      | none => simp
      | some l => cases l <;> simp

theorem SBody.ok_blocks {b : SBody} (h : b.ok = true) : okAll b.blocks = true := by
  cases b with
  | mk attrs blocks =>
    simp only [SBody.ok, Bool.and_eq_true] at h
    exact h.2

theorem staticOk_of_okAll {blocks : List SBlock} (h : okAll blocks = true) : StaticOk blocks := by
  intro blk hblk
  have := (okAll_iff blocks).1 h blk hblk
  cases blk with
  | static t ls b => exact this.1
  | dyn => trivial

theorem stOkAll_iff (blocks : List (BlockSchema × STree)) :
    stOkAll blocks = true ↔ ∀ p ∈ blocks, p.1.type ≠ "dynamic" ∧ p.2.ok = true := by
  induction blocks with
  | nil => simp [stOkAll]
  | cons p rest ih =>
    obtain ⟨bs, st⟩ := p
    simp only [stOkAll, Bool.and_eq_true, ih, List.mem_cons, forall_eq_or_imp, bne_iff_ne, ne_eq, and_assoc]

theorem STree.ok_nodup {st : STree} (h : st.ok = true) : st.schema.nodup := by
  cases st with
  | mk attrs blocks =>
    simp only [STree.ok, Bool.and_eq_true, beq_iff_eq] at h
    constructor
    · simp only [STree.schema]
      exact nodup_of_eraseDups_length _ (by simpa using h.1.1)
    · simp only [STree.schema, List.map_map]
      exact nodup_of_eraseDups_length _ (by simpa [Function.comp_def] using h.1.2)

theorem STree.ok_no_dynamic {st : STree} (h : st.ok = true) : ∀ bs ∈ st.schema.blocks, bs.type ≠ "dynamic" := by
  cases st with
  | mk attrs blocks =>
    simp only [STree.ok, Bool.and_eq_true] at h
    intro bs hbs
    simp only [STree.schema, List.mem_map] at hbs
    obtain ⟨p, hp, rfl⟩ := hbs
    exact ((stOkAll_iff blocks).1 h.2 p hp).1

theorem STree.ok_child {st cst : STree} {ty : String} (h : st.ok = true) (hc : st.child ty = some cst) :
    cst.ok = true := by
  cases st with
  | mk attrs blocks =>
    simp only [STree.ok, Bool.and_eq_true] at h
    simp only [STree.child, Option.map_eq_some_iff] at hc
    obtain ⟨p, hp, rfl⟩ := hc
    exact ((stOkAll_iff blocks).1 h.2 p (List.mem_of_find?_eq_some hp)).2

theorem find?_map_fst (blocks : List (BlockSchema × STree)) (ty : String) :
    (blocks.map (·.1)).find? (fun b => b.type == ty) = (blocks.find? (fun p => p.1.type == ty)).map (·.1) := by
  induction blocks with
  | nil => rfl
  | cons p rest ih =>
    simp only [List.map_cons, List.find?_cons]
    split <;> simp_all

/-- a block type has a child schema exactly when the level's schema names it -/
theorem STree.child_isSome (st : STree) (ty : String) :
    (st.child ty).isSome = (st.schema.blocks.find? (fun b => b.type == ty)).isSome := by
  cases st with
  | mk attrs blocks =>
    simp only [STree.child, STree.schema, find?_map_fst, Option.isSome_map]

theorem STree.child_none_of_find? {st : STree} {ty : String}
    (h : st.schema.blocks.find? (fun b => b.type == ty) = none) : st.child ty = none := by
  have := STree.child_isSome st ty
  rw [h] at this
  simpa using this

end Proofs
end HclModel.Dyn
