import Proofs.TaintOps
import Proofs.MarksRel
import HclModel.Diag.TextWriter
/-!
C19: the variable summary of the text diagnostic writer (`HclModel/Diag/TextWriter.lean`).
Traversal steps preserve "nothing tainted is exposed" (`getAttr_tw`, `index_tw`: the result of a step into a
marked collection is marked at the top, `WithSameMarks`), so the value a traversal resolves to is either marked
at the top (and skipped) or every taint in it lies at or below a deeper mark, where `valueFrags` never looks.
-/
set_option linter.unusedSimpArgs false
set_option linter.unusedVariables false
namespace HclModel.Proofs
open Val HclModel.TextW

/-! ### scopes and traversals -/

theorem lookupRoot_tw {ctxs : List Env} (hρ : ∀ ρ ∈ ctxs, twEnv ρ) {x : String} {v : Val}
    (h : lookupRoot ctxs x = some v) : tw false v = true := by
  induction ctxs with
  | nil => cases h
  | cons ρ rest ih =>
    simp only [lookupRoot] at h
    cases hl : Env.lookup ρ x with
    | some w =>
      rw [hl] at h
      simp only [Option.some.injEq] at h
      subst h
      obtain ⟨k', hk'⟩ := lookupKey_mem hl
      exact hρ ρ (List.mem_cons_self ..) _ hk'
    | none =>
      rw [hl] at h
      exact ih (fun σ hσ => hρ σ (List.mem_cons_of_mem _ hσ)) h

theorem stepOut_tw (v : Val) (s : Step) (hv : tw false v = true)
    (hk : ∀ k, s = .index k → tw false k = true) : tw false (stepOut v s).1 = true := by
  cases s with
  | attr n => exact getAttr_tw v n hv
  | index k => exact index_tw false v k hv (hk k rfl)

theorem traverseRel_tw : ∀ (steps : List Step) (v x : Val), tw false v = true →
    (∀ k, Step.index k ∈ steps → tw false k = true) → traverseRel v steps = some x → tw false x = true
  | [], v, x, hv, _, h => by
    simp only [traverseRel, Option.some.injEq] at h
    exact h ▸ hv
  | s :: rest, v, x, hv, hk, h => by
    have hs := stepOut_tw v s hv (fun k hk' => hk k (hk' ▸ List.mem_cons_self ..))
    simp only [traverseRel] at h
    rcases ho : stepOut v s with ⟨y, ds⟩
    rw [ho] at h hs
    cases ds with
    | nil => exact traverseRel_tw rest y x hs (fun k hk' => hk k (List.mem_cons_of_mem _ hk')) h
    | cons d ds => cases h

theorem mem_keys {t : Trav} {k : Val} : k ∈ t.keys ↔ Step.index k ∈ t.steps := by
  unfold Trav.keys
  rw [List.mem_filterMap]
  constructor
  · rintro ⟨s, hs, h⟩
    cases s with
    | attr n => cases h
    | index k' => cases h; exact hs
  · intro h
    exact ⟨_, h, rfl⟩

theorem traverseAbs_tw {ctxs : List Env} (hρ : ∀ ρ ∈ ctxs, twEnv ρ) {t : Trav}
    (hk : ∀ k ∈ t.keys, tw false k = true) {v : Val} (h : traverseAbs ctxs t = some v) : tw false v = true := by
  unfold traverseAbs at h
  cases hl : lookupRoot ctxs t.root with
  | none => rw [hl] at h; cases h
  | some w =>
    rw [hl] at h
    exact traverseRel_tw t.steps w v (lookupRoot_tw hρ hl) (fun k hk' => hk k (mem_keys.mpr hk')) h

/-! ### fragments -/

/-- the fragment of a key is the key itself (a primitive) -/
theorem keyFrags_sub (k f : Val) (h : f ∈ keyFrags k) : f = k := by
  cases k <;> simp [keyFrags] at h <;> exact h

theorem travFrags_untainted (t : Trav) (hk : ∀ k ∈ t.keys, untainted k = true) :
    ∀ f ∈ travFrags t, untainted f = true := by
  intro f hf
  unfold travFrags at hf
  rw [List.mem_flatMap] at hf
  obtain ⟨s, hs, hfs⟩ := hf
  cases s with
  | attr n => simp [stepFrags] at hfs
  | index k =>
    simp only [stepFrags] at hfs
    rw [keyFrags_sub k f hfs]
    exact hk k (mem_keys.mpr hs)

/-- **The top-level mark test is enough.**  A value that exposes no taint and is not marked at the top shows
    only untainted content: primitives carry their flags at the top; the name of a single attribute is content
    of the object node; nothing else is shown. -/
theorem valueFrags_untainted (v : Val) (hv : tw false v = true) (hm : v.isMarked = false) :
    ∀ f ∈ valueFrags v, untainted f = true := by
  intro f hf
  have hg : v.fl.g = false := by
    cases hgg : v.fl.g with
    | false => rfl
    | true =>
      rcases tw_top hv hgg with h | h
      · cases h
      · simp [Val.isMarked, h] at hm
  cases v with
  | str fl s | num fl q | bool fl b =>
    simp only [valueFrags, List.mem_singleton] at hf
    subst hf
    simpa [untainted, flagsDeep, Val.fl] using hg
  | object fl kvs =>
    match kvs, hf with
    | [(k, x)], hf =>
      simp only [valueFrags, List.mem_singleton] at hf
      subst hf
      simpa [untainted, flagsDeep, Val.fl] using hg
    | [], hf => simp [valueFrags] at hf
    | _ :: _ :: _, hf => simp [valueFrags] at hf
  | unk | null | list | map | tuple => simp [valueFrags] at hf

theorem shownOf_untainted (t : Trav) (v : Val) (hv : tw false v = true)
    (hk : ∀ k ∈ t.keys, untainted k = true) : ∀ f ∈ (shownOf t v).frags, untainted f = true := by
  intro f hf
  unfold shownOf at hf
  by_cases h1 : (!v.isKnown) = true
  · simp [h1, Shown.frags] at hf
  · rw [if_neg h1] at hf
    by_cases h2 : v.isNull = true
    · rw [if_pos h2] at hf
      exact travFrags_untainted t hk f hf
    · rw [if_neg h2] at hf
      by_cases h3 : v.isMarked = true
      · simp [h3, Shown.frags] at hf
      · rw [if_neg h3] at hf
        simp only [Shown.frags, List.mem_append] at hf
        rcases hf with hf | hf
        · exact travFrags_untainted t hk f hf
        · exact valueFrags_untainted v hv (by simpa using h3) f hf

theorem textwriter_clean (ctxs : List Env) (t : Trav) (hρ : ∀ ρ ∈ ctxs, twEnv ρ)
    (hk : ∀ k ∈ t.keys, untainted k = true) : ∀ f ∈ (stmtOf ctxs t).frags, untainted f = true := by
  intro f hf
  unfold stmtOf at hf
  cases h : traverseAbs ctxs t with
  | none => rw [h] at hf; simp [Shown.frags] at hf
  | some v =>
    rw [h] at hf
    have hv := traverseAbs_tw hρ (fun k hk' => tw_of_untainted k false (by simpa [untainted] using hk k hk')) h
    exact shownOf_untainted t v hv hk f hf

theorem shownOf_marked (t : Trav) (v : Val) (hm : v.isMarked = true) :
    shownOf t v = .skip ∨ (v.isNull = true ∧ shownOf t v = .null (travFrags t)) := by
  unfold shownOf
  by_cases h1 : (!v.isKnown) = true
  · simp [h1]
  · by_cases h2 : v.isNull = true
    · simp [h1, h2]
    · simp [h1, h2, hm]

/-! ### steps through a marked value -/

/-- the object case of `index false` after the key conversion (the key's flags are dropped) -/
def indexObjGo (coll : Val) (fs : List (String × Ty)) (key : Val) : Out :=
  let cm := coll.fl
  match key with
  | .str _ s =>
    (match lookupKey s fs with
     | none => errOut "Invalid index: no such attribute"
     | some aty =>
       match coll with
       | .object _ kvs =>
         (match lookupKey s kvs with
          | some x => (x.withFl cm, [])
          | none => errOut "Invalid index: no such attribute")
       | _ => (Val.unk cm aty, []))
  | _ => (Val.dynVal.withFl cm, [])

theorem index_false_eq (coll key : Val) : index false coll key =
    if coll.isNull then errOut "Attempt to index null value"
    else if key.isNull then errOut "Invalid index: null key"
    else if key.typeOf == .dyn ∨ coll.typeOf == .dyn then (Val.dynVal.withFl coll.fl, [])
    else match coll.typeOf with
      | .list _ | .tuple _ => keyConv key .num (indexSeq coll)
      | .map _ => keyConv key .str (indexSeq coll)
      | .object fs => keyConv key .str (indexObjGo coll fs)
      | _ => errOut "Invalid index: not indexable" := by
  unfold index
  split
  · rfl
  split
  · rfl
  split
  · rfl
  cases h : coll.typeOf <;> (simp only [keyConv, indexSeq, indexObjGo, elemAt, h, ite_true]) <;> (try rfl)

theorem indexObjGo_marked (coll : Val) (fs : List (String × Ty)) (k2 : Val) (hm : coll.fl.m = true)
    (h : (indexObjGo coll fs k2).2 = []) : (indexObjGo coll fs k2).1.fl.m = true := by
  unfold indexObjGo at h ⊢
  split
  · split
    · simp_all
    · split
      · split <;> simp_all
      · simp_all
  · simp_all [dynVal]

/-- `hcl.Index` (Go configuration) on a collection that is marked at the top: when there is no diagnostic the
    result is marked at the top (`WithSameMarks(collection)`, `collection.Index`, `collection.GetAttr`) -/
theorem index_marked (coll key : Val) (hm : coll.fl.m = true) (h : (index false coll key).2 = []) :
    (index false coll key).1.fl.m = true := by
  rw [index_false_eq] at h ⊢
  by_cases hn1 : coll.isNull = true
  · simp [hn1] at h
  by_cases hn2 : key.isNull = true
  · simp [hn1, hn2] at h
  by_cases hd : (key.typeOf == Ty.dyn) = true ∨ (coll.typeOf == Ty.dyn) = true
  · simp only [hn1, hn2, if_false]; rw [if_pos hd]; simp [hm]
  simp only [hn1, hn2, hd, if_false] at h ⊢
  cases hty : coll.typeOf <;> simp only [hty] at h ⊢ <;> (try (simp at h; done))
  all_goals
    obtain ⟨k2, hk2, he⟩ := keyConv_nil h
    rw [he] at h ⊢
  · exact indexSeq_marked _ _ hm (by simp [hty, seqTy]) h
  · exact indexSeq_marked _ _ hm (by simp [hty, seqTy]) h
  · exact indexSeq_marked _ _ hm (by simp [hty, seqTy]) h
  · exact indexObjGo_marked _ _ _ hm h

theorem stepOut_marked (v : Val) (s : Step) (hm : v.fl.m = true) (h : (stepOut v s).2 = []) :
    (stepOut v s).1.fl.m = true := by
  cases s with
  | attr n => exact getAttr_marked v n hm h
  | index k => exact index_marked v k hm h

theorem traverseRel_marked : ∀ (steps : List Step) (v x : Val), v.fl.m = true →
    traverseRel v steps = some x → x.fl.m = true
  | [], v, x, hm, h => by
    simp only [traverseRel, Option.some.injEq] at h
    exact h ▸ hm
  | s :: rest, v, x, hm, h => by
    simp only [traverseRel] at h
    rcases ho : stepOut v s with ⟨y, ds⟩
    rw [ho] at h
    cases ds with
    | nil =>
      have := stepOut_marked v s hm (by rw [ho])
      rw [ho] at this
      exact traverseRel_marked rest y x this h
    | cons d ds => cases h

end HclModel.Proofs
