import Proofs.UnknownsLoops
/-!
Monotonicity for `conc`: object constructors, templates, `tjoin`, function calls.
-/
set_option linter.unusedSimpArgs false
set_option linter.unusedSectionVars false
set_option linter.unnecessarySimpa false
namespace HclModel.Proofs.Unk
open Val

section
variable (F : Funcs)

theorem conc_items_step (ρc ρa : Env) (ke ve : Expr) (rest : List (Expr × Expr))
    (ihk : (eval (strictCx F) ρc ke).2 = [] → (eval (strictCx F) ρa ke).2 = [] →
      conc (eval (strictCx F) ρc ke).1 (eval (strictCx F) ρa ke).1 = true)
    (ihv : (eval (strictCx F) ρc ve).2 = [] → (eval (strictCx F) ρa ve).2 = [] →
      conc (eval (strictCx F) ρc ve).1 (eval (strictCx F) ρa ve).1 = true)
    (ihr : (evalItems (strictCx F) ρc rest).1.diags = [] → (evalItems (strictCx F) ρa rest).1.diags = [] →
      (evalItems (strictCx F) ρa rest).2 = true →
        (evalItems (strictCx F) ρc rest).2 = true ∧
          All2 GRel (evalItems (strictCx F) ρc rest).1.kvs (evalItems (strictCx F) ρa rest).1.kvs)
    (hc : (evalItems (strictCx F) ρc ((ke, ve) :: rest)).1.diags = [])
    (ha : (evalItems (strictCx F) ρa ((ke, ve) :: rest)).1.diags = [])
    (hk : (evalItems (strictCx F) ρa ((ke, ve) :: rest)).2 = true) :
    (evalItems (strictCx F) ρc ((ke, ve) :: rest)).2 = true ∧
      All2 GRel (evalItems (strictCx F) ρc ((ke, ve) :: rest)).1.kvs
        (evalItems (strictCx F) ρa ((ke, ve) :: rest)).1.kvs := by
  simp only [evalItems] at hc ha hk ⊢
  generalize eval (strictCx F) ρc ke = koc at *
  generalize eval (strictCx F) ρc ve = voc at *
  generalize evalItems (strictCx F) ρc rest = roc at *
  generalize eval (strictCx F) ρa ke = koa at *
  generalize eval (strictCx F) ρa ve = voa at *
  generalize evalItems (strictCx F) ρa rest = roa at *
  obtain ⟨kc, kdc⟩ := koc; obtain ⟨vc, vdc⟩ := voc; obtain ⟨stc, knc⟩ := roc
  obtain ⟨ka, kda⟩ := koa; obtain ⟨va, vda⟩ := voa; obtain ⟨sta, kna⟩ := roa
  simp only at hc ha hk ihk ihv ihr ⊢
  -- abstract side
  by_cases hea : hasErrors kda = true
  · simp [hea] at hk
  · have hkda := hasErrors_false (by simpa using hea)
    subst hkda
    simp only [hea, Bool.false_eq_true, if_false] at ha hk ⊢
    by_cases hna : ka.isNull = true
    · simp [hna] at hk
    · simp only [hna, Bool.false_eq_true, if_false] at ha hk ⊢
      rcases tryConvert_cases ka.unmark.1 .str with ⟨ksa, h1a, h1a'⟩ | ⟨d, h1a⟩
      · rw [h1a] at ha hk ⊢
        simp only at ha hk ⊢
        cases ksa <;> simp only at hk <;> (try (cases hk; done))
        rename_i fa s
        simp only [List.nil_append, List.append_eq_nil_iff] at ha
        -- concrete side
        by_cases hec : hasErrors kdc = true
        · simp only [hec, if_true, List.append_eq_nil_iff] at hc
          rw [hc.1.1] at hec; cases hec
        · have hkdc := hasErrors_false (by simpa using hec)
          subst hkdc
          simp only [hec, Bool.false_eq_true, if_false] at hc ⊢
          have hck := ihk rfl rfl
          have hkna : ka.isKnown = true := by
            have := (convert_props _ _ _ h1a').1
            rw [isKnown_unmark] at this
            rw [← this]; rfl
          have hknc := conc_isKnown hck hkna
          have hnc : kc.isNull = false := (conc_isNull hck hkna).trans (by simpa using hna)
          simp only [hnc, Bool.false_eq_true, if_false] at hc ⊢
          rcases tryConvert_cases kc.unmark.1 .str with ⟨ksc, h1c, h1c'⟩ | ⟨d, h1c⟩
          · have hbb := convert_conc ka.unmark.1 kc.unmark.1 .str _ _ (by simpa using hck) rfl h1c' h1a'
            obtain ⟨fc, rfl⟩ := conc_str_inv hbb
            rw [h1c] at hc ⊢
            simp only [List.nil_append, List.append_eq_nil_iff] at hc ⊢
            obtain ⟨r1, r2⟩ := ihr hc.2 ha.2 hk
            refine ⟨r1, ?_⟩
            have hl := concG_lookup (k := s) r2
            cases hls : (lookupKey s sta.kvs).isSome
            · rw [hls] at hl
              simp only [hl, Bool.false_eq_true, if_false]
              exact concG_groupInsert (ihv hc.1 ha.1) r2
            · rw [hls] at hl
              simp only [hl, if_true]
              exact r2
          · rw [h1c] at hc; simp at hc
      · rw [h1a] at hk; cases hk
end

/-! ### templates -/

def RelOut (oc oa : Out) : Prop := oc.2 = [] → oa.2 = [] → conc oc.1 oa.1 = true

def RTm (stc sta : List Diag × Bool × Fl × String) : Prop :=
  sta.2.1 = true → stc.2.1 = true ∧ stc.2.2.2 = sta.2.2.2

theorem tmplStep_known_mono (st : List Diag × Bool × Fl × String) (o : Out)
    (h : (tmplStep st o).2.1 = true) : st.2.1 = true := by
  obtain ⟨ds, known, ms, buf⟩ := st
  obtain ⟨pv, pd⟩ := o
  unfold tmplStep at h
  simp only at h ⊢
  split at h
  · exact h
  · split at h
    · simp at h
    · split at h <;> exact h

theorem tmplStep_diag (st : List Diag × Bool × Fl × String) (o : Out) (h : (tmplStep st o).1 = []) :
    st.1 = [] ∧ o.2 = [] := by
  obtain ⟨ds, known, ms, buf⟩ := st
  obtain ⟨pv, pd⟩ := o
  unfold tmplStep at h
  simp only at h ⊢
  split at h
  · simp at h
  · split at h
    · simpa using h
    · split at h
      · simp at h
      · simpa using h
      · simpa using h

theorem conc_tmplStep (stc sta : List Diag × Bool × Fl × String) (oc oa : Out) (hrel : RelOut oc oa)
    (hr : RTm stc sta) (hdc : (tmplStep stc oc).1 = []) (hda : (tmplStep sta oa).1 = []) :
    RTm (tmplStep stc oc) (tmplStep sta oa) := by
  intro hka
  have ksa := tmplStep_known_mono _ _ hka
  obtain ⟨kc, hbuf⟩ := hr ksa
  obtain ⟨hsc, hoc⟩ := tmplStep_diag _ _ hdc
  obtain ⟨hsa, hoa⟩ := tmplStep_diag _ _ hda
  have hcc := hrel hoc hoa
  obtain ⟨dsc, knc, msc, bufc⟩ := stc
  obtain ⟨dsa, kna, msa, bufa⟩ := sta
  obtain ⟨pvc, pdc⟩ := oc
  obtain ⟨pva, pda⟩ := oa
  simp only at ksa kc hbuf hsc hoc hsa hoa hcc
  subst hsc hoc hsa hoa ksa kc hbuf
  unfold tmplStep at hdc hda hka ⊢
  simp only at hdc hda hka ⊢
  by_cases hna : pva.isNull = true
  · simp [hna] at hda
  · simp only [hna, Bool.false_eq_true, if_false] at hda hka ⊢
    by_cases hkna : pva.isKnown = true
    · simp only [hkna, Bool.not_true, Bool.false_eq_true, if_false] at hda hka ⊢
      have hknc := conc_isKnown hcc hkna
      have hnc : pvc.isNull = false := (conc_isNull hcc hkna).trans (by simpa using hna)
      simp only [hnc, hknc, Bool.false_eq_true, if_false, Bool.not_true] at hdc ⊢
      rcases tryConvert_cases pva.unmark.1 .str with ⟨sa, hba, hba'⟩ | ⟨d, hba⟩
      · obtain ⟨fa, s, rfl⟩ := conv_str_known (by rw [isKnown_unmark]; exact hkna)
          (by rw [isNull_unmark]; simpa using hna) hba'
        rcases tryConvert_cases pvc.unmark.1 .str with ⟨sc, hbc, hbc'⟩ | ⟨d, hbc⟩
        · have hbb := convert_conc pva.unmark.1 pvc.unmark.1 .str _ _ (by simpa using hcc) rfl hbc' hba'
          obtain ⟨fc, rfl⟩ := conc_str_inv hbb
          rw [hba]; rw [hbc]
          simp [hasErrors]
        · rw [hbc] at hdc; simp at hdc
      · rw [hba] at hda; simp at hda
    · simp only [Bool.not_eq_true] at hkna
      simp [hkna] at hka

theorem tmpl_fold_rel : ∀ (outsc outsa : List Out), All2 RelOut outsc outsa →
    ∀ stc sta, RTm stc sta → (outsc.foldl tmplStep stc).1 = [] → (outsa.foldl tmplStep sta).1 = [] →
      RTm (outsc.foldl tmplStep stc) (outsa.foldl tmplStep sta)
  | [], [], _, _, _, hr, _, _ => hr
  | oc :: outsc, oa :: outsa, h, stc, sta, hr, hdc, hda => by
    cases h with
    | cons h1 h2 =>
      have d1 := tmpl_fold_diag outsc (tmplStep stc oc) hdc
      have d2 := tmpl_fold_diag outsa (tmplStep sta oa) hda
      exact tmpl_fold_rel outsc outsa h2 _ _ (conc_tmplStep stc sta oc oa h1 hr d1 d2) hdc hda

section
variable (F : Funcs)

theorem conc_template (ρc ρa : Env) (parts : List Expr)
    (ih : All2 RelOut (evalEach (strictCx F) ρc parts) (evalEach (strictCx F) ρa parts))
    (hc : (eval (strictCx F) ρc (.template parts)).2 = [])
    (ha : (eval (strictCx F) ρa (.template parts)).2 = []) :
    conc (eval (strictCx F) ρc (.template parts)).1 (eval (strictCx F) ρa (.template parts)).1 = true := by
  have hty := (template_type (strictCx F) ρc parts).1
  rw [eval_template] at hc ha hty ⊢
  rw [eval_template]
  simp only at hc ha hty ⊢
  have hdc : ((evalEach (strictCx F) ρc parts).foldl tmplStep (([] : List Diag), true, Fl.none, "")).1 = [] := by
    split at hc <;> exact hc
  have hda : ((evalEach (strictCx F) ρa parts).foldl tmplStep (([] : List Diag), true, Fl.none, "")).1 = [] := by
    split at ha <;> exact ha
  have hR := tmpl_fold_rel _ _ ih _ _ (fun _ => ⟨rfl, rfl⟩) hdc hda
  generalize (evalEach (strictCx F) ρc parts).foldl tmplStep (([] : List Diag), true, Fl.none, "") = stc at *
  generalize (evalEach (strictCx F) ρa parts).foldl tmplStep (([] : List Diag), true, Fl.none, "") = sta at *
  cases hka : sta.2.1
  · simp only [Bool.false_eq_true, if_false]
    exact conc_of_type hty
  · obtain ⟨kc, hb⟩ := hR hka
    simp only [kc, if_true, conc, hb, beq_self_eq_true]
end

/-! ### `tjoin` -/

theorem tjoinLoop_diag (tm : Fl) (xs : List Val) (ds : List Diag) (ms : Fl) (buf : String)
    (h : (tjoinLoop tm xs ds ms buf).2 = []) : ds = [] := by
  obtain ⟨l, hl⟩ := tjoinLoop_ext tm xs ds ms buf
  rw [hl] at h; exact (List.append_eq_nil_iff.mp h).1

theorem tjoinLoop_conc (tmc tma : Fl) : ∀ (xsa xsc : List Val) (dsc dsa : List Diag) (msc msa : Fl) (buf : String),
    concL xsc xsa = true → (tjoinLoop tmc xsc dsc msc buf).2 = [] → (tjoinLoop tma xsa dsa msa buf).2 = [] →
      conc (tjoinLoop tmc xsc dsc msc buf).1 (tjoinLoop tma xsa dsa msa buf).1 = true
  | [], [], _, _, _, _, _, _, _, _ => by simp [tjoinLoop, conc]
  | [], _ :: _, _, _, _, _, _, h, _, _ => by simp [concL] at h
  | _ :: _, [], _, _, _, _, _, h, _, _ => by simp [concL] at h
  | xa :: xsa, xc :: xsc, dsc, dsa, msc, msa, buf, h, hc, ha => by
    simp only [concL, Bool.and_eq_true] at h
    obtain ⟨hx, hrest⟩ := h
    have hty := (tjoinLoop_type tmc (xc :: xsc) dsc msc buf).1
    unfold tjoinLoop at hc ha ⊢
    by_cases hna : xa.isNull = true
    · simp only [hna, if_true] at ha
      have := tjoinLoop_diag _ _ _ _ _ ha
      simp at this
    · simp only [hna, Bool.false_eq_true, if_false] at ha ⊢
      by_cases hda : (xa.typeOf == Ty.dyn) = true
      · simp only [hda, if_true]
        unfold tjoinLoop at hty
        exact conc_of_type hty
      · simp only [hda, Bool.false_eq_true, if_false] at ha ⊢
        rcases tryConvert_cases xa .str with ⟨sa, hba, hba'⟩ | ⟨d, hba⟩
        · rw [hba] at ha ⊢
          simp only at ha ⊢
          by_cases hka : xa.isKnown = true
          · simp only [hka, Bool.not_true, Bool.false_eq_true, if_false] at ha ⊢
            obtain ⟨fa, s, rfl⟩ := conv_str_known hka (by simpa using hna) hba'
            simp only at ha ⊢
            have hkc := conc_isKnown hx hka
            have hnc : xc.isNull = false := (conc_isNull hx hka).trans (by simpa using hna)
            have hdc : (xc.typeOf == Ty.dyn) = false := by simpa using typeOf_ne_dyn hkc hnc
            simp only [hnc, hdc, hkc, Bool.false_eq_true, if_false, Bool.not_true] at hc ⊢
            rcases tryConvert_cases xc .str with ⟨sc, hbc, hbc'⟩ | ⟨d, hbc⟩
            · have hbb := convert_conc xa xc .str _ _ hx rfl hbc' hba'
              obtain ⟨fc, rfl⟩ := conc_str_inv hbb
              rw [hbc] at hc ⊢
              exact tjoinLoop_conc tmc tma xsa xsc dsc dsa _ _ _ hrest hc ha
            · rw [hbc] at hc
              have := tjoinLoop_diag _ _ _ _ _ hc
              simp at this
          · simp only [Bool.not_eq_true] at hka
            simp only [hka, Bool.not_false, if_true]
            unfold tjoinLoop at hty
            exact conc_of_type hty
        · rw [hba] at ha
          have := tjoinLoop_diag _ _ _ _ _ ha
          simp at this

section
variable (F : Funcs)

theorem conc_tjoin (ρc ρa : Env) (t : Expr)
    (ih : (eval (strictCx F) ρc t).2 = [] → (eval (strictCx F) ρa t).2 = [] →
      conc (eval (strictCx F) ρc t).1 (eval (strictCx F) ρa t).1 = true)
    (hc : (eval (strictCx F) ρc (.tjoin t)).2 = [])
    (ha : (eval (strictCx F) ρa (.tjoin t)).2 = []) :
    conc (eval (strictCx F) ρc (.tjoin t)).1 (eval (strictCx F) ρa (.tjoin t)).1 = true := by
  have hty := (tjoin_type (strictCx F) ρc t hc).1
  rw [eval_tjoin] at hc ha hty ⊢
  rw [eval_tjoin]
  generalize eval (strictCx F) ρc t = toc at *
  generalize eval (strictCx F) ρa t = toa at *
  obtain ⟨tvc, dsc⟩ := toc; obtain ⟨tva, dsa⟩ := toa
  simp only at hc ha hty ih ⊢
  by_cases h1 : (tva.typeOf == .dyn) = true
  · simp only [h1, if_true]; exact conc_of_type hty
  · simp only [h1, Bool.false_eq_true, if_false] at ha ⊢
    by_cases h2 : tva.isKnown = true
    · simp only [h2, Bool.not_true, Bool.false_eq_true, if_false] at ha ⊢
      cases htva : tva.unmark.1 <;> simp only [htva] at ha ⊢ <;> (try (simp [unsupportedOut] at ha; done))
      rename_i g xsa
      have hdsa := tjoinLoop_diag _ _ _ _ _ ha
      -- the concrete side
      have hdsc : dsc = [] := by
        by_cases c1 : (tvc.typeOf == .dyn) = true
        · simpa [c1] using hc
        · simp only [c1, Bool.false_eq_true, if_false] at hc
          by_cases c2 : tvc.isKnown = true
          · simp only [c2, Bool.not_true, Bool.false_eq_true, if_false] at hc
            cases htvc : tvc.unmark.1 <;> simp only [htvc] at hc <;> (try (simp [unsupportedOut] at hc; done))
            exact tjoinLoop_diag _ _ _ _ _ hc
          · simp only [Bool.not_eq_true] at c2
            simpa [c2] using hc
      have hcc := ih hdsc hdsa
      have hcu : conc tvc.unmark.1 tva.unmark.1 = true := by simpa using hcc
      rw [htva] at hcu
      obtain ⟨f, xsc, htvc, hl⟩ := conc_tuple_inv hcu
      have hkc := conc_isKnown hcc h2
      have hdc : (tvc.typeOf == Ty.dyn) = false := by
        have : tvc.unmark.1.typeOf = .tuple (typeOfList xsc) := by rw [htvc]; rfl
        simp only [unmark_fst, typeOf_setFl] at this
        simp [this]
      simp only [hdc, hkc, Bool.false_eq_true, if_false, Bool.not_true, htvc] at hc ⊢
      exact tjoinLoop_conc _ _ xsa xsc dsc dsa _ _ _ hl hc ha
    · simp only [Bool.not_eq_true] at h2
      simp only [h2, Bool.not_false, if_true]; exact conc_of_type hty
end

/-! ### function calls -/

theorem convertArgs_conc (spec : FuncSpec) (hv : ∀ t, spec.varParam = some t → t.paramOk = true) :
    ∀ (vsa vsc : List Val) (ps : List Ty), (∀ t ∈ ps, t.paramOk = true) → concL vsc vsa = true →
      (convertArgs spec vsc ps).2 = [] → (convertArgs spec vsa ps).2 = [] →
      concL (convertArgs spec vsc ps).1 (convertArgs spec vsa ps).1 = true
  | [], [], _, _, _, _, _ => by simp [convertArgs, concL]
  | [], _ :: _, _, _, h, _, _ => by simp [concL] at h
  | _ :: _, [], _, _, h, _, _ => by simp [concL] at h
  | va :: vsa, vc :: vsc, ps, hp, h, hc, ha => by
    simp only [concL, Bool.and_eq_true] at h
    rw [convertArgs_cons] at hc ha ⊢
    rw [convertArgs_cons]
    have ih := convertArgs_conc spec hv vsa vsc ps.tail (fun t ht => hp t (List.mem_of_mem_tail ht)) h.2
    have hat := argTy_ok spec ps hp hv
    cases hpt : argTy spec ps with
    | none =>
      simp only [hpt] at hc ha ⊢
      simp only [concL, Bool.and_eq_true]
      exact ⟨h.1, ih hc ha⟩
    | some t =>
      simp only [hpt] at hc ha ⊢
      rcases tryConvert_cases vc t with ⟨vc', hbc, hbc'⟩ | ⟨d, hbc⟩
      · rcases tryConvert_cases va t with ⟨va', hba, hba'⟩ | ⟨d, hba⟩
        · rw [hbc] at hc ⊢; rw [hba] at ha ⊢
          simp only at hc ha ⊢
          simp only [concL, Bool.and_eq_true]
          exact ⟨convert_mono h.1 (hat t hpt) hbc' hba', ih hc ha⟩
        · rw [hba] at ha; simp at ha
      · rw [hbc] at hc; simp at hc

theorem concL_any {p q : Val → Bool} (hpq : ∀ v a, conc v a = true → p v = true → q a = true) :
    ∀ {xs ys : List Val}, concL xs ys = true → xs.any p = true → ys.any q = true
  | [], [], _, h => by simp at h
  | [], _ :: _, h, _ => by simp [concL] at h
  | _ :: _, [], h, _ => by simp [concL] at h
  | x :: xs, y :: ys, h, ha => by
    simp only [concL, Bool.and_eq_true] at h
    simp only [List.any_cons, Bool.or_eq_true] at ha ⊢
    rcases ha with ha | ha
    · exact Or.inl (hpq x y h.1 ha)
    · exact Or.inr (concL_any hpq h.2 ha)

theorem concL_any' {p q : Val → Bool} (hpq : ∀ v a, conc v a = true → q a = true → p v = true) :
    ∀ {xs ys : List Val}, concL xs ys = true → ys.any q = true → xs.any p = true
  | [], [], _, h => by simp at h
  | [], _ :: _, h, _ => by simp [concL] at h
  | _ :: _, [], h, _ => by simp [concL] at h
  | x :: xs, y :: ys, h, ha => by
    simp only [concL, Bool.and_eq_true] at h
    simp only [List.any_cons, Bool.or_eq_true] at ha ⊢
    rcases ha with ha | ha
    · exact Or.inl (hpq x y h.1 ha)
    · exact Or.inr (concL_any' hpq h.2 ha)

theorem concL_map_unmarkDeep {xs ys : List Val} (h : concL xs ys = true) :
    concL (xs.map Val.unmarkDeep) (ys.map Val.unmarkDeep) = true := by
  rw [← unmarkDeepList_eq_map, ← unmarkDeepList_eq_map, concL_unmarkDeep]; exact h

theorem callFunc_conc {F : Funcs} (hS : SoundFuncsS F) {fn : String} {spec : FuncSpec} (hf : F fn = some spec)
    {valsc valsa : List Val} {rc ra : Val} (hl : concL valsc valsa = true)
    (hc : callFunc spec valsc = .ok rc) (ha : callFunc spec valsa = .ok ra) : conc rc ra = true := by
  unfold callFunc at hc ha
  split at ha
  · simp [throw, throwThe, MonadExceptOf.throw] at ha
  · rename_i hnulla
    split at hc
    · simp [throw, throwThe, MonadExceptOf.throw] at hc
    · rename_i hnullc
      split at ha
      · simp [pure, Except.pure] at ha; subst ha
        simp [withFl, setFl, conc_unk]
      · rename_i hdyna
        have hdync : ¬ (valsc.any fun a => a.typeOf == Ty.dyn) = true := by
          intro hh
          apply hdyna
          refine concL_any (p := fun a => a.typeOf == Ty.dyn) (q := fun a => a.typeOf == Ty.dyn) ?_ hl hh
          intro v a hva hv
          simp only [beq_iff_eq] at hv ⊢
          exact conc_dyn hva hv
        rw [if_neg hdync] at hc
        have hargs := concL_map_unmarkDeep hl
        split at ha
        · -- some abstract argument is unknown
          simp [pure, Except.pure] at ha; subst ha
          rw [conc_withFl_right, conc_unk_iff]
          split at hc
          · simp [pure, Except.pure] at hc; subst hc
            simp only [typeOf_withFl, typeOf]
            rcases hS.retTy_mono fn spec hf _ _ hargs with h1 | h1
            · exact Or.inl h1
            · exact Or.inr h1
          · obtain ⟨r', hr', hc⟩ := bind_ok.mp hc
            simp [pure, Except.pure] at hc; subst hc
            simp only [typeOf_withFl]
            exact hS.sound.retTy fn spec hf _ _ r' hargs hr'
        · rename_i hunka
          have hunkc : ¬ (valsc.any fun a => !a.isKnown) = true := by
            intro hh
            apply hunka
            refine concL_any (p := fun a => !a.isKnown) (q := fun a => !a.isKnown) ?_ hl hh
            intro v a hva hv
            cases hka : a.isKnown
            · rfl
            · simp [conc_isKnown hva hka] at hv
          rw [if_neg hunkc] at hc
          obtain ⟨r1, hr1, hc⟩ := bind_ok.mp hc
          obtain ⟨r2, hr2, ha⟩ := bind_ok.mp ha
          simp [pure, Except.pure] at hc ha; subst hc; subst ha
          rw [conc_withFl]
          have := hS.sound.mono fn spec hf _ _ hargs
          rw [hr1, hr2] at this
          exact this

theorem splatItems_conc {vc va : Val} (h : conc vc va = true) (hk : va.isKnown = true) :
    concL (splatItems vc) (splatItems va) = true := by
  cases va <;> simp [isKnown] at hk
  case null => obtain ⟨f, rfl⟩ := conc_null_inv h; rfl
  case str => obtain ⟨f, rfl⟩ := conc_str_inv h; rfl
  case num => obtain ⟨f, rfl⟩ := conc_num_inv h; rfl
  case bool => obtain ⟨f, rfl⟩ := conc_bool_inv h; rfl
  case list => obtain ⟨f, xs, rfl, hl⟩ := conc_list_inv h; exact hl
  case map => obtain ⟨f, xs, rfl, hl⟩ := conc_map_inv h; rfl
  case tuple => obtain ⟨f, xs, rfl, hl⟩ := conc_tuple_inv h; exact hl
  case object => obtain ⟨f, xs, rfl, hl⟩ := conc_object_inv h; rfl

section
variable (F : Funcs)

theorem callExpand_error_val (ρ : Env) (expand : Option Expr) (o : Out)
    (h : callExpand (strictCx F) ρ expand = .error o) : o.1 = Val.dynVal := by
  cases expand with
  | none => simp [callExpand] at h
  | some le =>
    simp only [callExpand] at h
    repeat' split at h
    all_goals (cases h <;> rfl)

theorem callExpand_conc (ρc ρa : Env) (expand : Option Expr)
    (ih : ∀ le, expand = some le → (eval (strictCx F) ρc le).2 = [] → (eval (strictCx F) ρa le).2 = [] →
      conc (eval (strictCx F) ρc le).1 (eval (strictCx F) ρa le).1 = true)
    (extraa : List Val) (ha : callExpand (strictCx F) ρa expand = .ok (extraa, [])) :
    (∀ o, callExpand (strictCx F) ρc expand = .error o → o.2 ≠ []) ∧
    (∀ extrac, callExpand (strictCx F) ρc expand = .ok (extrac, []) → concL extrac extraa = true) := by
  cases expand with
  | none =>
    simp only [callExpand, Except.ok.injEq, Prod.mk.injEq] at ha ⊢
    constructor
    · intro o h; cases h
    · intro extrac h; rw [← h.1, ← ha.1]; rfl
  | some le =>
    have ih := ih le rfl
    simp only [callExpand] at ha ⊢
    generalize eval (strictCx F) ρc le = eoc at *
    generalize eval (strictCx F) ρa le = eoa at *
    obtain ⟨evc, edc⟩ := eoc; obtain ⟨eva, eda⟩ := eoa
    simp only at ih ha ⊢
    -- abstract: known, non-null list / tuple
    have hA : eda = [] ∧ eva.isNull = false ∧ eva.isKnown = true ∧ (eva.typeOf == Ty.dyn) = false ∧
        extraa = (splatItems eva.unmark.1).map (fun x => x.withFl eva.unmark.2) := by
      repeat' split at ha
      all_goals first
        | (cases ha; done)
        | skip
      all_goals
        simp only [Except.ok.injEq, Prod.mk.injEq] at ha
        simp_all [splatItems]
    obtain ⟨heda, hna, hka, hda, rfl⟩ := hA
    subst heda
    constructor
    · intro o h
      by_cases hec : hasErrors edc = true
      · simp only [hec, if_true] at h; cases h
        intro e; simp only at e; rw [e] at hec; cases hec
      · have hedc := hasErrors_false (by simpa using hec)
        subst hedc
        have hcc := ih rfl rfl
        have hkc := conc_isKnown hcc hka
        have hnc : evc.isNull = false := (conc_isNull hcc hka).trans hna
        have hdc : (evc.typeOf == Ty.dyn) = false := by simpa using typeOf_ne_dyn hkc hnc
        simp only [hec, hdc, hnc, hkc, Bool.false_eq_true, if_false, Bool.not_true] at h
        split at h
        · cases h
        · cases h
        · cases h; simp
    · intro extrac h
      by_cases hec : hasErrors edc = true
      · simp only [hec, if_true] at h; cases h
      · have hedc := hasErrors_false (by simpa using hec)
        subst hedc
        have hcc := ih rfl rfl
        have hkc := conc_isKnown hcc hka
        have hnc : evc.isNull = false := (conc_isNull hcc hka).trans hna
        have hdc : (evc.typeOf == Ty.dyn) = false := by simpa using typeOf_ne_dyn hkc hnc
        simp only [hec, hdc, hnc, hkc, Bool.false_eq_true, if_false, Bool.not_true] at h
        have hit := splatItems_conc (vc := evc.unmark.1) (va := eva.unmark.1) (by simpa using hcc)
          (by simpa using hka)
        have hres := concL_map_withFl evc.unmark.2 eva.unmark.2 hit
        split at h
        all_goals first
          | (cases h; done)
          | skip
        all_goals
          simp only [Except.ok.injEq, Prod.mk.injEq, and_true] at h
          rw [← h]
          exact hres

theorem all2_outs_concL : ∀ {outsc outsa : List Out}, All2 RelOut outsc outsa →
    outsc.flatMap (·.2) = [] → outsa.flatMap (·.2) = [] →
    concL (outsc.map (·.1)) (outsa.map (·.1)) = true
  | [], [], _, _, _ => rfl
  | oc :: outsc, oa :: outsa, h, hc, ha => by
    cases h with
    | cons h1 h2 =>
      simp only [List.flatMap_cons, List.append_eq_nil_iff] at hc ha
      simp only [List.map_cons, concL, Bool.and_eq_true]
      exact ⟨h1 hc.1 ha.1, all2_outs_concL h2 hc.2 ha.2⟩

theorem conc_call (hS : SoundFuncsS F) (ρc ρa : Env) (fn : String) (args : List Expr) (expand : Option Expr)
    (iha : All2 RelOut (evalEach (strictCx F) ρc args) (evalEach (strictCx F) ρa args))
    (ihe : ∀ le, expand = some le → (eval (strictCx F) ρc le).2 = [] → (eval (strictCx F) ρa le).2 = [] →
      conc (eval (strictCx F) ρc le).1 (eval (strictCx F) ρa le).1 = true)
    (hc : (eval (strictCx F) ρc (.call fn args expand)).2 = [])
    (ha : (eval (strictCx F) ρa (.call fn args expand)).2 = []) :
    conc (eval (strictCx F) ρc (.call fn args expand)).1 (eval (strictCx F) ρa (.call fn args expand)).1 = true := by
  rw [eval_call] at hc ha ⊢
  rw [eval_call]
  simp only [strict_funcs] at hc ha ⊢
  cases hf : F fn with
  | none => simp [hf, errOut] at ha
  | some spec =>
    simp only [hf] at hc ha ⊢
    cases hcea : callExpand (strictCx F) ρa expand with
    | error o =>
      simp only [hcea]
      rw [callExpand_error_val F ρa expand o hcea]
      exact conc_dynVal _
    | ok pa =>
      obtain ⟨extraa, eda⟩ := pa
      simp only [hcea] at ha ⊢
      -- abstract body
      unfold callBody at ha ⊢
      simp only at ha ⊢
      split at ha
      · simp at ha
      · split at ha
        · simp at ha
        · rename_i ha1 ha2
          generalize hcaa : convertArgs spec ((evalEach (strictCx F) ρa args).map (·.1) ++ extraa) spec.params = caa at ha ⊢
          obtain ⟨valsa, cdsa⟩ := caa
          simp only at ha ⊢
          split at ha
          · rename_i he; simp only at ha; rw [ha] at he; cases he
          · rename_i hea
            have hdsa := hasErrors_false (by simpa using hea)
            simp only [List.append_eq_nil_iff] at hdsa
            obtain ⟨heda, hfma, hcdsa⟩ := hdsa
            subst heda
            cases hcfa : callFunc spec valsa with
            | error e => rw [hcfa] at ha; cases e <;> simp at ha
            | ok ra =>
              obtain ⟨hx1, hx2⟩ := callExpand_conc F ρc ρa expand ihe extraa hcea
              cases hcec : callExpand (strictCx F) ρc expand with
              | error o => simp only [hcec] at hc; exact absurd hc (hx1 o hcec)
              | ok pc =>
                obtain ⟨extrac, edc⟩ := pc
                simp only [hcec] at hc ⊢
                unfold callBody at hc
                simp only at hc ⊢
                split at hc
                · simp at hc
                · split at hc
                  · simp at hc
                  · rename_i hc1 hc2
                    generalize hcac : convertArgs spec ((evalEach (strictCx F) ρc args).map (·.1) ++ extrac) spec.params = cac at hc ⊢
                    obtain ⟨valsc, cdsc⟩ := cac
                    simp only at hc ⊢
                    split at hc
                    · rename_i he; simp only at hc; rw [hc] at he; cases he
                    · rename_i hec
                      have hdsc := hasErrors_false (by simpa using hec)
                      simp only [List.append_eq_nil_iff] at hdsc
                      obtain ⟨hedc, hfmc, hcdsc⟩ := hdsc
                      subst hedc
                      cases hcfc : callFunc spec valsc with
                      | error e => rw [hcfc] at hc; cases e <;> simp at hc
                      | ok rc =>
                        have hargs : concL ((evalEach (strictCx F) ρc args).map (·.1) ++ extrac)
                            ((evalEach (strictCx F) ρa args).map (·.1) ++ extraa) = true :=
                          concL_append (all2_outs_concL iha hfmc hfma) (hx2 extrac hcec)
                        have hvals : concL valsc valsa = true := by
                          have := convertArgs_conc spec (hS.params_ok fn spec hf).2 _ _ spec.params
                            (hS.params_ok fn spec hf).1 hargs (by rw [hcac]; exact hcdsc) (by rw [hcaa]; exact hcdsa)
                          rw [hcac, hcaa] at this; exact this
                        simp only [ha1, ha2, hc1, hc2, hea, hec, if_false]
                        exact callFunc_conc hS hf hvals hcfc hcfa
end

end HclModel.Proofs.Unk
