import Proofs.MarksCall
import Proofs.MarksCond
/-!
The side condition of the noninterference theorem (C06).

`Stable F e ρ σ` relates the evaluations of `e` in two scopes.  It says that at every place where the
evaluator looks at the *shape* of a value and then returns a result that does not carry that value's marks,
the two runs see the same shape:

* **known-ness** (`shapeEq`: both known or both unknown, both of the dynamic pseudo-type or neither) of
  the operand of a unary operator, an index key, an object-constructor key, the collection of a `for`
  expression, the tuple (and its elements) of a template join, the expanded final argument of a call
  (and, for that argument, whether it is empty);
* **types**: the unified result type of a conditional, and the type of a splat result
  — in both cases unless a value marked in both runs (`bm`) makes the result marked in both runs anyway.

Sub-expressions evaluated in a loop are compared iteration by iteration (`zip` of the elements of the two
collections), again unless the collection is marked in both runs.
-/
namespace HclModel.Proofs
open Val

/-- the elements a `for` expression iterates over -/
def iterEls (v : Val) : List (Val × Val) := (elements v.unmark.1).getD []

mutual
def Stable (F : Cx) : Expr → Env → Env → Prop
  | .lit _, _, _ => True
  | .var _, _, _ => True
  | .getAttr e _, ρ, σ => Stable F e ρ σ
  | .index e k, ρ, σ => Stable F e ρ σ ∧ Stable F k ρ σ ∧ shapeEq (eval F ρ k).1 (eval F σ k).1
  | .bin _ l r, ρ, σ => Stable F l ρ σ ∧ Stable F r ρ σ
  | .un _ e, ρ, σ => Stable F e ρ σ ∧ shapeEq (eval F ρ e).1 (eval F σ e).1
  | .cond c t f, ρ, σ =>
    Stable F c ρ σ ∧ Stable F t ρ σ ∧ Stable F f ρ σ ∧
    (bm (eval F ρ c).1 (eval F σ c).1 ∨ bm (eval F ρ t).1 (eval F σ t).1 ∨ bm (eval F ρ f).1 (eval F σ f).1 ∨
      unifyCond (eval F ρ t).1 (eval F ρ f).1 = unifyCond (eval F σ t).1 (eval F σ f).1)
  | .tuple es, ρ, σ => StableList F es ρ σ
  | .object items, ρ, σ => StableItems F items ρ σ
  | .forTuple kv vv coll val none, ρ, σ =>
    Stable F coll ρ σ ∧ shapeEq (eval F ρ coll).1 (eval F σ coll).1 ∧
    (¬ bm (eval F ρ coll).1 (eval F σ coll).1 →
      ∀ p ∈ (iterEls (eval F ρ coll).1).zip (iterEls (eval F σ coll).1),
        Stable F val (bindIter ρ kv vv p.1.1 p.1.2) (bindIter σ kv vv p.2.1 p.2.2))
  | .forTuple kv vv coll val (some ce), ρ, σ =>
    Stable F coll ρ σ ∧ shapeEq (eval F ρ coll).1 (eval F σ coll).1 ∧
    (¬ bm (eval F ρ coll).1 (eval F σ coll).1 →
      ∀ p ∈ (iterEls (eval F ρ coll).1).zip (iterEls (eval F σ coll).1),
        Stable F val (bindIter ρ kv vv p.1.1 p.1.2) (bindIter σ kv vv p.2.1 p.2.2) ∧
        Stable F ce (bindIter ρ kv vv p.1.1 p.1.2) (bindIter σ kv vv p.2.1 p.2.2))
  | .forObject kv vv coll key val none _, ρ, σ =>
    Stable F coll ρ σ ∧ shapeEq (eval F ρ coll).1 (eval F σ coll).1 ∧
    (¬ bm (eval F ρ coll).1 (eval F σ coll).1 →
      ∀ p ∈ (iterEls (eval F ρ coll).1).zip (iterEls (eval F σ coll).1),
        Stable F key (bindIter ρ kv vv p.1.1 p.1.2) (bindIter σ kv vv p.2.1 p.2.2) ∧
        Stable F val (bindIter ρ kv vv p.1.1 p.1.2) (bindIter σ kv vv p.2.1 p.2.2))
  | .forObject kv vv coll key val (some ce) _, ρ, σ =>
    Stable F coll ρ σ ∧ shapeEq (eval F ρ coll).1 (eval F σ coll).1 ∧
    (¬ bm (eval F ρ coll).1 (eval F σ coll).1 →
      ∀ p ∈ (iterEls (eval F ρ coll).1).zip (iterEls (eval F σ coll).1),
        Stable F key (bindIter ρ kv vv p.1.1 p.1.2) (bindIter σ kv vv p.2.1 p.2.2) ∧
        Stable F val (bindIter ρ kv vv p.1.1 p.1.2) (bindIter σ kv vv p.2.1 p.2.2) ∧
        Stable F ce (bindIter ρ kv vv p.1.1 p.1.2) (bindIter σ kv vv p.2.1 p.2.2))
  | .splat anon src each, ρ, σ =>
    Stable F src ρ σ ∧
    (bm (eval F ρ src).1 (eval F σ src).1 ∨
      typeOf (eval F ρ (.splat anon src each)).1 = typeOf (eval F σ (.splat anon src each)).1) ∧
    (¬ bm (eval F ρ src).1 (eval F σ src).1 →
      ∀ p ∈ (splatElems (eval F ρ src).1).zip (splatElems (eval F σ src).1),
        Stable F each ((anon, p.1) :: ρ) ((anon, p.2) :: σ))
  | .template parts, ρ, σ => StableList F parts ρ σ
  | .tjoin t, ρ, σ =>
    Stable F t ρ σ ∧ shapeEq (eval F ρ t).1 (eval F σ t).1 ∧
    (¬ bm (eval F ρ t).1 (eval F σ t).1 →
      ∀ p ∈ (tupleElems (eval F ρ t).1).zip (tupleElems (eval F σ t).1), shapeEq p.1 p.2)
  | .call _ args none, ρ, σ => StableList F args ρ σ
  | .call _ args (some le), ρ, σ =>
    StableList F args ρ σ ∧ Stable F le ρ σ ∧ shapeEq (eval F ρ le).1 (eval F σ le).1 ∧
    (bm (eval F ρ le).1 (eval F σ le).1 →
      (expandElems (eval F ρ le).1 = [] ↔ expandElems (eval F σ le).1 = []))
def StableList (F : Cx) : List Expr → Env → Env → Prop
  | [], _, _ => True
  | e :: es, ρ, σ => Stable F e ρ σ ∧ StableList F es ρ σ
def StableItems (F : Cx) : List (Expr × Expr) → Env → Env → Prop
  | [], _, _ => True
  | (ke, ve) :: rest, ρ, σ =>
    Stable F ke ρ σ ∧ Stable F ve ρ σ ∧ shapeEq (eval F ρ ke).1 (eval F σ ke).1 ∧ StableItems F rest ρ σ
end

end HclModel.Proofs
