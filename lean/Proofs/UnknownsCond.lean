import Proofs.UnknownsAccess
/-!
Conditionals (`evalCond`): known-in-known-out in general; result type, well-typedness and monotonicity for
`conc` when both results have the same static primitive type.
-/
set_option linter.unusedSimpArgs false
namespace HclModel.Proofs.Unk
open Val

theorem evalCond_diag {co to fo : Out} (h : (evalCond true co to fo).2 = []) :
    (evalCondCore co to fo).2 = [] ∧ to.2 = [] ∧ fo.2 = [] ∧
      (evalCond true co to fo).1 = (evalCondCore co to fo).1 := by
  unfold evalCond at h ⊢
  simp only [if_true] at h ⊢
  simp only [List.append_eq_nil_iff] at h
  exact ⟨h.1.1, h.1.2, h.2, trivial⟩

/-- a known, non-null condition converts to a boolean constant -/
theorem cond_bool {cv cb : Val} (hk : cv.isKnown = true) (hn : cv.isNull = false)
    (h : convert cv .bool = .ok cb) : ∃ f b, cb = .bool f b := by
  obtain ⟨p1, p2, _, p4⟩ := convert_props cv .bool cb h
  rcases shape_bool (p4 rfl).1 with ⟨f, rfl⟩ | ⟨f, rfl⟩ | h
  · rw [hk] at p1; simp [isKnown] at p1
  · rw [hn] at p2; simp [isNull] at p2
  · exact h

theorem evalCondCore_known {cv tv fv : Val} {cd td fd : List Diag}
    (h : (evalCondCore (cv, cd) (tv, td) (fv, fd)).2 = [])
    (kc : whollyKnown cv = true) (kt : whollyKnown tv = true) (kf : whollyKnown fv = true) :
    whollyKnown (evalCondCore (cv, cd) (tv, td) (fv, fd)).1 = true := by
  unfold evalCondCore at h ⊢
  simp only at h ⊢
  split at h
  · simp [unsupportedOut] at h
  · simp [errOut] at h
  · simp [errOut] at h
  · rename_i rty hu
    by_cases hn : cv.isNull = true
    · simp [hn] at h
    · have hk : cv.isKnown = true := isKnown_of_whollyKnown kc
      simp only [hn, Bool.false_eq_true, if_false, unmark_fst, isKnown_setFl, hk, Bool.not_true] at h ⊢
      rcases tryConvert_cases (cv.setFl cv.fl.unmark) .bool with ⟨cb, hcb, hcb'⟩ | ⟨d, hcb⟩
      · obtain ⟨f, b, rfl⟩ := cond_bool (by simpa using hk) (by simpa using hn) hcb'
        simp only [hcb] at h ⊢
        cases b
        · simp only at h ⊢
          rcases tryConvert_cases (fv.setFl fv.fl.unmark) rty with ⟨v', hv, hv'⟩ | ⟨d, hv⟩
          · simp only [hv, whollyKnown_withFl]
            exact (convert_props _ _ _ hv').2.2.1 (by simpa using kf)
          · simp [hv] at h
        · simp only at h ⊢
          rcases tryConvert_cases (tv.setFl tv.fl.unmark) rty with ⟨v', hv, hv'⟩ | ⟨d, hv⟩
          · simp only [hv, whollyKnown_withFl]
            exact (convert_props _ _ _ hv').2.2.1 (by simpa using kt)
          · simp [hv] at h
      · simp [hcb] at h

/-- the two results of a conditional have the primitive type `T` (one of them may be the unmarked `null`) -/
def CondTy (T : Ty) (tv fv : Val) : Prop :=
  T.isPrim = true ∧
  ((typeOf tv = T ∧ typeOf fv = T) ∨ ((∃ fl, tv = .null fl .dyn ∧ fl.m = false) ∧ typeOf fv = T) ∨
   (typeOf tv = T ∧ ∃ fl, fv = .null fl .dyn ∧ fl.m = false))

theorem isFlat_of_prim {v : Val} (h : v.typeOf.isPrim = true) : isFlat v = true := by
  cases v <;> simp_all [typeOf, Ty.isPrim, isFlat]

theorem noDyn_of_prim {T : Ty} (h : T.isPrim = true) : T.noDyn = true := by
  cases T <;> simp_all [Ty.isPrim, Ty.noDyn]

theorem condTy_facts {T : Ty} {tv fv : Val} (h : CondTy T tv fv) :
    unifyCond tv fv = .ok (some T) ∧ isFlat tv = true ∧ isFlat fv = true ∧ T.noDyn = true := by
  obtain ⟨hp, h⟩ := h
  have hT : T ≠ .dyn := by intro e; subst e; simp [Ty.isPrim] at hp
  refine ⟨?_, ?_, ?_, noDyn_of_prim hp⟩
  · rcases h with ⟨h1, h2⟩ | ⟨⟨fl, rfl, hm⟩, h2⟩ | ⟨h1, ⟨fl, rfl, hm⟩⟩
    · subst h1
      cases tv <;> cases fv <;> simp_all [unifyCond, typeOf, Ty.isPrim, pure, Except.pure]
    · subst h2
      cases fv <;> simp_all [unifyCond, typeOf, Ty.isPrim, pure, Except.pure]
    · subst h1
      cases tv <;> simp_all [unifyCond, typeOf, Ty.isPrim, pure, Except.pure]
  · rcases h with ⟨h1, _⟩ | ⟨⟨fl, rfl, _⟩, _⟩ | ⟨h1, _⟩
    · exact isFlat_of_prim (h1 ▸ hp)
    · rfl
    · exact isFlat_of_prim (h1 ▸ hp)
  · rcases h with ⟨_, h1⟩ | ⟨_, h1⟩ | ⟨_, ⟨fl, rfl, _⟩⟩
    · exact isFlat_of_prim (h1 ▸ hp)
    · exact isFlat_of_prim (h1 ▸ hp)
    · rfl

@[simp] theorem isFlat_setFl (v : Val) (f : Fl) : isFlat (v.setFl f) = isFlat v := by
  cases v <;> rfl
@[simp] theorem isFlat_withFl (v : Val) (f : Fl) : isFlat (v.withFl f) = isFlat v := by simp [withFl]

theorem isKnown_unmark (v : Val) : v.unmark.1.isKnown = v.isKnown := by simp
theorem isNull_unmark (v : Val) : v.unmark.1.isNull = v.isNull := by simp
theorem isFlat_unmark (v : Val) : isFlat v.unmark.1 = isFlat v := by simp

theorem condCore_spec {T : Ty} {cv tv fv : Val} {cd td fd : List Diag} (hT : CondTy T tv fv)
    (h : (evalCondCore (cv, cd) (tv, td) (fv, fd)).2 = []) :
    cv.isNull = false ∧
    ((cv.isKnown = false ∧ tv.isNull = true ∧ fv.isNull = true ∧
        ∃ g, (evalCondCore (cv, cd) (tv, td) (fv, fd)).1 = .null g T) ∨
     (cv.isKnown = false ∧ ¬ (tv.isNull = true ∧ fv.isNull = true) ∧
        ∃ g, (evalCondCore (cv, cd) (tv, td) (fv, fd)).1 = .unk g T) ∨
     (cv.isKnown = true ∧ ∃ f b v' g, convert cv.unmark.1 .bool = .ok (.bool f b) ∧
        convert (if b then tv else fv).unmark.1 T = .ok v' ∧
        (evalCondCore (cv, cd) (tv, td) (fv, fd)).1 = v'.withFl g)) := by
  obtain ⟨hu, ft, ff, _⟩ := condTy_facts hT
  unfold evalCondCore at h ⊢
  simp only [hu] at h ⊢
  by_cases hn : cv.isNull = true
  · simp [hn] at h
  · simp only [Bool.not_eq_true] at hn
    refine ⟨hn, ?_⟩
    simp only [hn, Bool.false_eq_true, if_false] at h ⊢
    by_cases hk : cv.isKnown = true
    · refine Or.inr (Or.inr ⟨hk, ?_⟩)
      simp only [isKnown_unmark, hk, Bool.not_true, Bool.false_eq_true, if_false] at h ⊢
      rcases tryConvert_cases cv.unmark.1 .bool with ⟨cb, hcb, hcb'⟩ | ⟨d, hcb⟩
      · obtain ⟨f, b, rfl⟩ := cond_bool (by simpa using hk) (by simpa using hn) hcb'
        simp only [hcb] at h ⊢
        cases b
        · simp only at h ⊢
          rcases tryConvert_cases fv.unmark.1 T with ⟨v', hv, hv'⟩ | ⟨d, hv⟩
          · simp only [hv]
            exact ⟨f, false, v', _, hcb', hv', rfl⟩
          · rw [hv] at h; simp at h
        · simp only at h ⊢
          rcases tryConvert_cases tv.unmark.1 T with ⟨v', hv, hv'⟩ | ⟨d, hv⟩
          · simp only [hv]
            exact ⟨f, true, v', _, hcb', hv', rfl⟩
          · rw [hv] at h; simp at h
      · rw [hcb] at h; simp at h
    · simp only [Bool.not_eq_true] at hk
      have ft' : isFlat tv.unmark.1 = true := by rw [isFlat_unmark]; exact ft
      have ff' : isFlat fv.unmark.1 = true := by rw [isFlat_unmark]; exact ff
      by_cases hnn : tv.isNull = true ∧ fv.isNull = true
      · refine Or.inl ⟨hk, hnn.1, hnn.2, ?_⟩
        simp only [isKnown_unmark, hk, Bool.not_false, if_true, isNull_unmark, hnn.1, hnn.2,
          Bool.and_self]
        exact ⟨_, rfl⟩
      · refine Or.inr (Or.inl ⟨hk, hnn, ?_⟩)
        have : (tv.isNull && fv.isNull) = false := by
          cases h1 : tv.isNull <;> cases h2 : fv.isNull <;> simp_all
        simp only [isKnown_unmark, hk, Bool.not_false, if_true, isNull_unmark, this,
          Bool.false_eq_true, if_false] at h ⊢
        split at h
        all_goals first
          | exact ⟨_, rfl⟩
          | (simp_all [isFlat]; done)
          | skip
        all_goals
          by_cases hc : (tv.unmark.1.typeOf == Ty.num && fv.unmark.1.typeOf == Ty.num) = true
          · rw [if_pos hc] at h; simp [unsupportedOut] at h
          · rw [if_neg hc]; exact ⟨_, rfl⟩

theorem evalCondCore_type {T : Ty} {co to fo : Out} (hT : CondTy T to.1 fo.1)
    (h : (evalCondCore co to fo).2 = []) :
    typeOf (evalCondCore co to fo).1 = T ∧ isFlat (evalCondCore co to fo).1 = true := by
  obtain ⟨cv, cd⟩ := co; obtain ⟨tv, td⟩ := to; obtain ⟨fv, fd⟩ := fo
  obtain ⟨_, ft, ff, hn⟩ := condTy_facts hT
  obtain ⟨_, hs⟩ := condCore_spec hT h
  rcases hs with ⟨_, _, _, g, he⟩ | ⟨_, _, g, he⟩ | ⟨_, f, b, v', g, _, hv, he⟩
  · rw [he]; exact ⟨rfl, rfl⟩
  · rw [he]; exact ⟨rfl, rfl⟩
  · rw [he]
    have hfl : isFlat (if b = true then tv else fv).unmark.1 = true := by
      cases b <;> simp [ft, ff]
    exact ⟨by simpa using ((convert_props _ _ _ hv).2.2.2 hn).1, by simpa using (convert_flat hfl hv).1⟩

theorem evalCondCore_conc {T : Ty} {co to fo coa toa foa : Out} (hT : CondTy T to.1 fo.1)
    (hTa : CondTy T toa.1 foa.1) (cc : conc co.1 coa.1 = true) (ct : conc to.1 toa.1 = true)
    (cf : conc fo.1 foa.1 = true)
    (h : (evalCondCore co to fo).2 = []) (ha : (evalCondCore coa toa foa).2 = []) :
    conc (evalCondCore co to fo).1 (evalCondCore coa toa foa).1 = true := by
  have hty := (evalCondCore_type hT h).1
  obtain ⟨cv, cd⟩ := co; obtain ⟨tv, td⟩ := to; obtain ⟨fv, fd⟩ := fo
  obtain ⟨cva, cda⟩ := coa; obtain ⟨tva, tda⟩ := toa; obtain ⟨fva, fda⟩ := foa
  simp only at cc ct cf hT hTa
  obtain ⟨_, _, _, hn⟩ := condTy_facts hT
  have hTd : T ≠ .dyn := by intro e; subst e; simp [Ty.noDyn] at hn
  obtain ⟨nca, hsa⟩ := condCore_spec hTa ha
  obtain ⟨nc, hs⟩ := condCore_spec hT h
  rcases hsa with ⟨_, nta, nfa, ga, hea⟩ | ⟨_, _, ga, hea⟩ | ⟨ka, fa, ba, va', ga, hcba, hva, hea⟩
  · -- abstract: null of the unified type
    have nt := conc_null_right ct nta
    have nf := conc_null_right cf nfa
    rw [hea]
    rcases hs with ⟨_, _, _, g, he⟩ | ⟨_, hnn, _⟩ | ⟨_, f, b, v', g, _, hv, he⟩
    · rw [he]; simp [conc]
    · exact absurd ⟨nt, nf⟩ hnn
    · rw [he]
      have : ∃ fl s, (if b = true then tv else fv).unmark.1 = .null fl s := by
        cases b
        · cases fv <;> simp [isNull] at nf; exact ⟨_, _, rfl⟩
        · cases tv <;> simp [isNull] at nt; exact ⟨_, _, rfl⟩
      obtain ⟨fl, s, hb⟩ := this
      rw [hb] at hv
      rcases convert_null_inv hv with ⟨h1, _⟩ | rfl
      · exact absurd h1 hTd
      · simp [withFl, setFl, conc]
  · rw [hea]; exact conc_of_type hty
  · -- known condition
    have k := conc_isKnown cc ka
    rcases hs with ⟨k', _⟩ | ⟨k', _⟩ | ⟨_, f, b, v', g, hcb, hv, he⟩
    · rw [k] at k'; cases k'
    · rw [k] at k'; cases k'
    · rw [he, hea, conc_withFl]
      have hb := convert_conc cva.unmark.1 cv.unmark.1 .bool _ _ (by simpa using cc) rfl hcb hcba
      simp only [conc, beq_iff_eq] at hb
      subst hb
      refine convert_conc _ _ T v' va' ?_ hn hv hva
      cases b <;> simpa using (by assumption)

theorem evalCondCore_diag {co to fo : Out} (h : (evalCondCore co to fo).2 = []) : co.2 = [] := by
  obtain ⟨cv, cd⟩ := co; obtain ⟨tv, td⟩ := to; obtain ⟨fv, fd⟩ := fo
  unfold evalCondCore at h
  simp only at h
  repeat' split at h
  all_goals simp [unsupportedOut, errOut] at h
  all_goals first | exact h | exact h.1 | exact h.1.1

end HclModel.Proofs.Unk
