import Proofs.TaintVal
import Proofs.MarksCond
import Mathlib.Tactic.SplitIfs
/-!
C19: `getAttr`, `index`, the operators and the conditional: results expose no taint when the operands do not
(`tw false`), and the only diagnostics they add carry no fragments (`NoNew`).
-/
set_option linter.unusedSimpArgs false
set_option linter.unusedVariables false
set_option linter.unusedTactic false
namespace HclModel.Proofs
open Val

theorem tw_under_withFl {x : Val} {f g : Fl} (hx : tw f.m x = true) (hf : flOK f) (hg : flOK g) :
    tw false (x.withFl (f.join g)) = true :=
  tw_withFl_cover hx (by intro h; simp [h]) (flOK_join hf hg)

theorem tw_under_withFl' {x : Val} {f : Fl} (hx : tw f.m x = true) (hf : flOK f) :
    tw false (x.withFl f) = true :=
  tw_withFl_cover hx (fun h => h) hf

theorem tw_object_field {f : Fl} {kvs : List (String × Val)} {s : String} {x : Val}
    (h : tw false (.object f kvs) = true) (hl : lookupKey s kvs = some x) : tw f.m x = true := by
  rw [tw_object_iff, Bool.and_eq_true] at h
  exact twF_lookup (by simpa using h.2) hl

theorem tw_map_field {f : Fl} {t : Ty} {kvs : List (String × Val)} {s : String} {x : Val}
    (h : tw false (.map f t kvs) = true) (hl : lookupKey s kvs = some x) : tw f.m x = true := by
  rw [tw_map_iff, Bool.and_eq_true] at h
  exact twF_lookup (by simpa using h.2) hl

theorem tw_list_elem {f : Fl} {t : Ty} {xs : List Val} {n : Nat} {x : Val}
    (h : tw false (.list f t xs) = true) (hl : xs[n]? = some x) : tw f.m x = true := by
  rw [tw_list_iff, Bool.and_eq_true] at h
  exact twL_getElem? (by simpa using h.2) hl

theorem tw_tuple_elem {f : Fl} {xs : List Val} {n : Nat} {x : Val}
    (h : tw false (.tuple f xs) = true) (hl : xs[n]? = some x) : tw f.m x = true := by
  rw [tw_tuple_iff, Bool.and_eq_true] at h
  exact twL_getElem? (by simpa using h.2) hl

theorem tw_unk_of {f : Fl} (hf : flOK f) (t : Ty) : tw false (.unk f t) = true := by
  simp only [tw, Bool.false_or, Bool.or_eq_true, Bool.not_eq_true']
  cases hg : f.g
  · exact Or.inl rfl
  · exact Or.inr (hf hg)

theorem tw_dyn_withFl {f : Fl} (hf : flOK f) : tw false (Val.dynVal.withFl f) = true :=
  tw_withFl (tw_dynVal _) hf

theorem getAttr_tw (v : Val) (name : String) (h : tw false v = true) : tw false (getAttr v name).1 = true := by
  have hf := tw_flOK h
  unfold getAttr
  split
  · exact tw_dynVal _
  · simp only []
    split
    · split
      · exact tw_dynVal _
      · split
        · split
          · exact tw_under_withFl' (tw_object_field h ‹_›) hf
          · exact tw_dynVal _
        · exact tw_unk_of hf _
    · split
      · split
        · exact tw_under_withFl' (tw_map_field h ‹_›) hf
        · exact tw_dynVal _
      · exact tw_unk_of hf _
    · exact tw_dyn_withFl hf
    · exact tw_dynVal _

theorem getAttr_frags (v : Val) (name : String) : ∀ d ∈ (getAttr v name).2, d.frags = [] := by
  unfold getAttr
  repeat' split
  all_goals simp [errOut]

theorem flOK_of_tryConvert {key k' : Val} {t : Ty} (hk : flOK key.fl) (h : tryConvert key t = .ok k') :
    flOK k'.fl := by rw [tryConvert_fl h]; exact hk

theorem index_tw (kk : Bool) (c k : Val) (hc : tw false c = true) (hk : tw false k = true) :
    tw false (index kk c k).1 = true := by
  have hcf := tw_flOK hc
  have hkf := tw_flOK hk
  unfold index
  repeat' (first | split | dsimp only)
  all_goals first
    | exact tw_dynVal _
    | exact tw_dyn_withFl hcf
    | exact tw_unk_of hcf _
    | exact tw_under_withFl (tw_list_elem hc ‹_›) hcf (flOK_of_tryConvert hkf ‹_›)
    | exact tw_under_withFl (tw_tuple_elem hc ‹_›) hcf (flOK_of_tryConvert hkf ‹_›)
    | exact tw_under_withFl (tw_map_field hc ‹_›) hcf (flOK_of_tryConvert hkf ‹_›)
    | exact tw_unk_of (flOK_join hcf (flOK_of_tryConvert hkf ‹_›)) _
    | exact tw_under_withFl (tw_object_field hc ‹_›) hcf (flOK_of_tryConvert (k' := .str _ _) hkf ‹_›)
    | exact tw_under_withFl' (tw_object_field hc ‹_›) hcf

theorem index_frags (kk : Bool) (c k : Val) : ∀ d ∈ (index kk c k).2, d.frags = [] := by
  unfold index
  repeat' (first | split | dsimp only)
  all_goals first
    | (simp [errOut]; done)
    | (intro d hd; simp only [List.mem_singleton] at hd; subst hd; exact tryConvert_err_frags ‹_›)

/-! ### diagnostics: nothing but fragment-free additions -/

/-- every diagnostic in `ds` is fragment-free or comes from `ins` -/
def NoNew (ds ins : List Diag) : Prop := ∀ d ∈ ds, d.frags = [] ∨ d ∈ ins

theorem NoNew.refl (ds : List Diag) : NoNew ds ds := fun _ hd => Or.inr hd
theorem NoNew.nil (ins : List Diag) : NoNew [] ins := fun _ hd => by cases hd
theorem NoNew.of_sub {ds ins : List Diag} (h : ∀ d ∈ ds, d ∈ ins) : NoNew ds ins := fun d hd => Or.inr (h d hd)
theorem NoNew.append {a b ins : List Diag} (ha : NoNew a ins) (hb : NoNew b ins) : NoNew (a ++ b) ins := by
  intro d hd
  rcases List.mem_append.mp hd with hd | hd
  · exact ha d hd
  · exact hb d hd
theorem NoNew.free {ds ins : List Diag} (h : ∀ d ∈ ds, d.frags = []) : NoNew ds ins := fun d hd => Or.inl (h d hd)
theorem NoNew.mono {ds ins ins' : List Diag} (h : NoNew ds ins) (hs : ∀ d ∈ ins, d ∈ ins') : NoNew ds ins' := by
  intro d hd
  rcases h d hd with h | h
  · exact Or.inl h
  · exact Or.inr (hs d h)
theorem NoNew.trans {a b c : List Diag} (h : NoNew a b) (h' : NoNew b c) : NoNew a c := by
  intro d hd
  rcases h d hd with h | h
  · exact Or.inl h
  · exact h' d h

theorem fragsClean_nil : fragsClean [] := fun _ hd => by cases hd
theorem fragsClean_append {a b : List Diag} (ha : fragsClean a) (hb : fragsClean b) : fragsClean (a ++ b) := by
  intro d hd
  rcases List.mem_append.mp hd with hd | hd
  · exact ha d hd
  · exact hb d hd
theorem fragsClean_of_NoNew {ds ins : List Diag} (h : NoNew ds ins) (hi : fragsClean ins) : fragsClean ds := by
  intro d hd f hf
  rcases h d hd with h | h
  · rw [h] at hf; cases hf
  · exact hi d h f hf
theorem fragsClean_free {ds : List Diag} (h : ∀ d ∈ ds, d.frags = []) : fragsClean ds :=
  fragsClean_of_NoNew (NoNew.free h) fragsClean_nil
theorem fragsClean_left {a b : List Diag} (h : fragsClean (a ++ b)) : fragsClean a :=
  fun d hd => h d (List.mem_append_left _ hd)
theorem fragsClean_right {a b : List Diag} (h : fragsClean (a ++ b)) : fragsClean b :=
  fun d hd => h d (List.mem_append_right _ hd)

theorem frags_single_free {x : Diag} (h : x.frags = []) : ∀ d ∈ [x], d.frags = [] := by
  intro d hd; simp only [List.mem_singleton] at hd; subst hd; exact h

theorem frags_ite_free {c : Prop} [Decidable c] {x y : Diag} (hx : x.frags = []) (hy : y.frags = []) :
    (if c then x else y).frags = [] := by split <;> assumption

/-- closes `NoNew`-goals about concatenations of parts of the input lists and fragment-free diagnostics -/
syntax "nonew" : tactic
macro_rules
  | `(tactic| nonew) => `(tactic| first
      | exact NoNew.nil _
      | exact NoNew.refl _
      | (apply NoNew.append <;> nonew)
      | (refine NoNew.of_sub ?_; intro d hd; simp [hd]; done)
      | exact NoNew.free (frags_single_free rfl)
      | exact NoNew.free (frags_single_free (frags_ite_free rfl rfl))
      | exact NoNew.free (frags_single_free (tryConvert_err_frags ‹_›))
      | exact NoNew.free (frags_single_free (frags_ite_free (tryConvert_err_frags ‹_›) rfl)))

theorem getAttrOut_tw (o : Out) (name : String) (h : tw false o.1 = true) :
    tw false (getAttrOut o name).1 = true := by
  obtain ⟨v, ds⟩ := o
  unfold getAttrOut
  dsimp only
  split
  · exact tw_dynVal _
  · exact getAttr_tw v name h

theorem getAttrOut_NoNew (o : Out) (name : String) : NoNew (getAttrOut o name).2 o.2 := by
  obtain ⟨v, ds⟩ := o
  unfold getAttrOut
  dsimp only
  split
  · exact NoNew.refl _
  · exact NoNew.append (NoNew.refl _) (NoNew.free (getAttr_frags v name))

theorem indexOut_tw (kk : Bool) (co ko : Out) (hc : tw false co.1 = true) (hk : tw false ko.1 = true) :
    tw false (indexOut kk co ko).1 = true := by
  obtain ⟨cv, cd⟩ := co
  obtain ⟨kv, kd⟩ := ko
  exact index_tw kk cv kv hc hk

theorem indexOut_NoNew (kk : Bool) (co ko : Out) : NoNew (indexOut kk co ko).2 (co.2 ++ ko.2) := by
  obtain ⟨cv, cd⟩ := co
  obtain ⟨kv, kd⟩ := ko
  exact NoNew.append (NoNew.refl _) (NoNew.free (index_frags kk cv kv))


/-! ### unary operators -/

theorem callUn_tw {op : UnOp} {a v : Val} (h : tw false a = true) (hv : callUn op a = .ok v) :
    tw false v = true := by
  unfold callUn at hv
  split at hv
  · cases hv
  · split at hv
    · split at hv
      · cases hv
      · cases hv; simpa [tw] using h
    · cases hv; simpa [tw] using h
    · cases hv; simp [tw, Fl.none]
    · cases hv; simp [tw, Fl.none]

theorem evalUn_tw (op : UnOp) (o : Out) (h : tw false o.1 = true) : tw false (evalUn op o).1 = true := by
  obtain ⟨g, ds⟩ := o
  unfold evalUn
  dsimp only
  split
  · simp [tw, Fl.none]
  · split
    · simp [tw, Fl.none]
    · split
      · exact callUn_tw (tryConvert_tw h ‹_›) ‹_›
      · simp [tw, Fl.none]
      · exact tw_dynVal _

theorem evalUn_NoNew (op : UnOp) (o : Out) : NoNew (evalUn op o).2 o.2 := by
  obtain ⟨g, ds⟩ := o
  unfold evalUn
  dsimp only
  repeat' split
  all_goals nonew

/-! ### binary operators -/

theorem callBin_fl (op : BinOp) (a b v : Val) (h : callBin op a b = .ok v) :
    isLeaf v = true ∧ (v.fl = (flagsDeep a).join (flagsDeep b) ∨ v.fl = a.fl.join b.fl) := by
  by_cases hop : op = .eq ∨ op = .ne
  · rcases callBin_eq_form op hop a b v h with ⟨rfl, _⟩ | ⟨r, rfl, _⟩ <;> exact ⟨rfl, Or.inl rfl⟩
  · cases op <;> simp at hop <;>
      simp only [callBin, pure, Except.pure, throw, throwThe, MonadExceptOf.throw] at h <;>
      (repeat' (split at h)) <;> (try (cases h; done)) <;>
      (cases h; exact ⟨rfl, Or.inr rfl⟩)

theorem callBin_tw {op : BinOp} {a b v : Val} {i j : Bool} (ha : tw i a = true) (hb : tw j b = true)
    (h : callBin op a b = .ok v) : tw (i || j) v = true := by
  obtain ⟨hl, hf⟩ := callBin_fl op a b v h
  rw [tw_eq, twKids_leaf hl, Bool.and_true]
  cases hg : v.fl.g
  · rfl
  · simp only [Bool.not_true, Bool.false_or, Bool.or_eq_true]
    rcases hf with hf | hf <;> rw [hf] at hg ⊢ <;> simp only [join_g, join_m, Bool.or_eq_true] at hg ⊢
    · rcases hg with hg | hg
      · rcases flagsDeep_tw a i ha hg with h1 | h1
        · exact Or.inl (Or.inl h1)
        · exact Or.inr (Or.inl h1)
      · rcases flagsDeep_tw b j hb hg with h1 | h1
        · exact Or.inl (Or.inr h1)
        · exact Or.inr (Or.inr h1)
    · rcases hg with hg | hg
      · rcases tw_top ha hg with h1 | h1
        · exact Or.inl (Or.inl h1)
        · exact Or.inr (Or.inl h1)
      · rcases tw_top hb hg with h1 | h1
        · exact Or.inl (Or.inr h1)
        · exact Or.inr (Or.inr h1)

theorem shortCircuit_val {op : BinOp} {l r v : Val} {ld rd ds : List Diag}
    (h : shortCircuit op l r ld rd = some (v, ds)) : tw false v = true ∧ (ds = ld ∨ ds = rd) := by
  unfold shortCircuit at h
  dsimp only at h
  cases op
  case or =>
    dsimp only at h
    split_ifs at h
    all_goals first
      | (cases h; done)
      | (cases h; exact ⟨by simp [tw, Fl.none], Or.inl rfl⟩)
      | (cases h; exact ⟨by simp [tw, Fl.none], Or.inr rfl⟩)
  case and =>
    dsimp only at h
    split_ifs at h
    all_goals first
      | (cases h; done)
      | (cases h; exact ⟨by simp [tw, Fl.none], Or.inl rfl⟩)
      | (cases h; exact ⟨by simp [tw, Fl.none], Or.inr rfl⟩)
  all_goals (cases h)

theorem unsupOnly_sub (all kept : List Diag) : ∀ d ∈ unsupOnly all kept, d ∈ all := by
  intro d hd
  unfold unsupOnly at hd
  split at hd
  · cases hd
  · exact (List.mem_filter.mp (List.mem_of_mem_take hd)).1

theorem evalBin_tw (keep : Bool) (op : BinOp) (lo ro : Out) (hl : tw false lo.1 = true) (hr : tw false ro.1 = true) :
    tw false (evalBin keep op lo ro).1 = true := by
  obtain ⟨gl, ld⟩ := lo
  obtain ⟨gr, rd⟩ := ro
  unfold evalBin
  dsimp only
  split
  · rename_i l r hcl hcr
    have hl' := tryConvert_tw hl hcl
    have hr' := tryConvert_tw hr hcr
    have hlf := tw_flOK hl'
    have hrf := tw_flOK hr'
    dsimp only [unmark]
    split
    · rename_i v ds hs
      exact tw_withFl (shortCircuit_val hs).1 (flOK_join hlf hrf)
    · split
      · exact tw_withFl (tw_unk_of flOK_none _) (flOK_join hlf hrf)
      · split
        · rename_i v hv
          have := callBin_tw (tw_unmark hl') (tw_unmark hr') hv
          exact tw_withFl_cover this (by intro h; simpa using h) (flOK_join hlf hrf)
        · simp [tw, Fl.none]
        · exact tw_dynVal _
  · simp [tw, Fl.none]

theorem evalBin_NoNew (keep : Bool) (op : BinOp) (lo ro : Out) : NoNew (evalBin keep op lo ro).2 (lo.2 ++ ro.2) := by
  obtain ⟨gl, ld⟩ := lo
  obtain ⟨gr, rd⟩ := ro
  unfold evalBin
  dsimp only
  split
  · dsimp only [unmark]
    split
    · rename_i v ds hs
      dsimp only
      split
      · nonew
      · have hds := (shortCircuit_val hs).2
        apply NoNew.append
        · rcases hds with rfl | rfl <;> nonew
        · exact NoNew.of_sub (unsupOnly_sub _ _)
    · repeat' split
      all_goals nonew
  · dsimp only
    apply NoNew.append
    · apply NoNew.append
      · apply NoNew.append
        · split <;> nonew
        · split <;> nonew
      · nonew
    · nonew

/-! ### the conditional -/

theorem twL_replicate_unk (i : Bool) (n : Nat) (t : Ty) : twL i (List.replicate n (Val.unk Fl.none t)) = true := by
  induction n with
  | zero => simp [twL]
  | succ n ih => simp only [List.replicate_succ, twL, tw, none_g, Bool.not_false, Bool.true_or, ih, Bool.and_self]

theorem tw_null_none (t : Ty) : tw false (Val.null Fl.none t) = true := by simp [tw]
theorem tw_list_replicate (t : Ty) (n : Nat) :
    tw false (Val.list Fl.none t (List.replicate n (Val.unk Fl.none t))) = true := by
  simp [tw, twL_replicate_unk]
theorem tw_map_nil (t : Ty) : tw false (Val.map Fl.none t []) = true := by simp [tw, twF]

theorem condUnknown_tw (rty : Ty) (ms : Fl) (tv fv : Val) (cd : List Diag) (hms : flOK ms) :
    tw false (condUnknown rty ms tv fv cd).1 = true := by
  unfold condUnknown
  repeat' (first | split | dsimp only)
  all_goals first
    | exact tw_dynVal _
    | exact tw_withFl (tw_unk_of flOK_none _) hms
    | exact tw_withFl (tw_null_none _) hms
    | exact tw_withFl (tw_list_replicate _ _) hms
    | exact tw_withFl (tw_map_nil _) hms

theorem frags_unsupportedOut (w : String) : ∀ d ∈ (unsupportedOut w).2, d.frags = [] := by
  intro d hd; simp only [unsupportedOut, List.mem_singleton] at hd; subst hd; rfl
theorem frags_errOut (w : String) : ∀ d ∈ (errOut w).2, d.frags = [] := by
  intro d hd; simp only [errOut, List.mem_singleton] at hd; subst hd; rfl

theorem condUnknown_NoNew (rty : Ty) (ms : Fl) (tv fv : Val) (cd : List Diag) :
    NoNew (condUnknown rty ms tv fv cd).2 cd := by
  unfold condUnknown
  repeat' (first | split | dsimp only)
  all_goals first
    | nonew
    | exact NoNew.free (frags_unsupportedOut _)

theorem condPick_tw (rty : Ty) (ms : Fl) (cd : List Diag) (v : Val) (ds : List Diag) (site : String) {i : Bool}
    (hv : tw i v = true) (hi : i = true → ms.m = true) (hms : flOK ms) :
    tw false (condPick rty ms cd v ds site).1 = true := by
  unfold condPick
  split
  · exact tw_withFl_cover (tryConvert_tw hv ‹_›) hi hms
  · exact tw_withFl (tw_unk_of flOK_none _) hms

theorem condPick_NoNew (rty : Ty) (ms : Fl) (cd : List Diag) (v : Val) (ds : List Diag) (site : String) :
    NoNew (condPick rty ms cd v ds site).2 (cd ++ ds) := by
  unfold condPick
  split <;> nonew

theorem condKnown_tw (rty : Ty) (ms : Fl) (cv tv fv : Val) (cd td fd : List Diag) {i j : Bool}
    (ht : tw i tv = true) (hf : tw j fv = true) (hi : i = true → ms.m = true) (hj : j = true → ms.m = true)
    (hms : flOK ms) : tw false (condKnown rty ms cv tv fv cd td fd).1 = true := by
  unfold condKnown
  split
  · exact tw_unk_of flOK_none _
  · split
    · exact condPick_tw _ _ _ _ _ _ ht hi hms
    · exact condPick_tw _ _ _ _ _ _ hf hj hms
    · exact tw_withFl (tw_unk_of flOK_none _) hms

theorem condKnown_NoNew (rty : Ty) (ms : Fl) (cv tv fv : Val) (cd td fd : List Diag) :
    NoNew (condKnown rty ms cv tv fv cd td fd).2 (cd ++ td ++ fd) := by
  unfold condKnown
  split
  · nonew
  · split
    · refine (condPick_NoNew _ _ _ _ _ _).mono ?_
      intro d hd; simp only [List.mem_append] at hd ⊢; rcases hd with h | h <;> simp [h]
    · refine (condPick_NoNew _ _ _ _ _ _).mono ?_
      intro d hd; simp only [List.mem_append] at hd ⊢; rcases hd with h | h <;> simp [h]
    · nonew

theorem cover2 {a b c : Fl} : (false || b.m) = true → ((a.join b).join c).m = true := by
  intro h; simp at h; simp [h]
theorem cover3 {a b c : Fl} : (false || c.m) = true → ((a.join b).join c).m = true := by
  intro h; simp at h; simp [h]

theorem evalCondCore_tw (co to fo : Out) (hc : tw false co.1 = true) (ht : tw false to.1 = true)
    (hf : tw false fo.1 = true) : tw false (evalCondCore co to fo).1 = true := by
  obtain ⟨cv, cd⟩ := co
  obtain ⟨tv, td⟩ := to
  obtain ⟨fv, fd⟩ := fo
  rw [evalCondCore_eq]
  have hms : flOK ((cv.fl.join tv.fl).join fv.fl) := flOK_join (flOK_join (tw_flOK hc) (tw_flOK ht)) (tw_flOK hf)
  repeat' (first | split | dsimp only)
  all_goals first
    | exact tw_dynVal _
    | exact tw_unk_of flOK_none _
    | exact condUnknown_tw _ _ _ _ _ hms
    | exact condKnown_tw _ _ _ _ _ _ _ _ (tw_unmark ht) (tw_unmark hf) cover2 cover3 hms

theorem evalCondCore_NoNew (co to fo : Out) : NoNew (evalCondCore co to fo).2 (co.2 ++ to.2 ++ fo.2) := by
  obtain ⟨cv, cd⟩ := co
  obtain ⟨tv, td⟩ := to
  obtain ⟨fv, fd⟩ := fo
  rw [evalCondCore_eq]
  repeat' (first | split | dsimp only)
  all_goals first
    | nonew
    | exact NoNew.free (frags_unsupportedOut _)
    | exact NoNew.free (frags_errOut _)
    | (refine (condUnknown_NoNew _ _ _ _ _).mono ?_; intro d hd; simp [hd]; done)
    | exact condKnown_NoNew _ _ _ _ _ _ _ _

theorem evalCond_fst (keep : Bool) (co to fo : Out) : (evalCond keep co to fo).1 = (evalCondCore co to fo).1 := by
  unfold evalCond
  cases evalCondCore co to fo
  dsimp only
  split <;> rfl

theorem evalCond_snd (keep : Bool) (co to fo : Out) : (evalCond keep co to fo).2 =
    if keep then (evalCondCore co to fo).2 ++ to.2 ++ fo.2
    else (evalCondCore co to fo).2 ++ unsupOnly (co.2 ++ to.2 ++ fo.2) (evalCondCore co to fo).2 := by
  unfold evalCond
  cases evalCondCore co to fo
  dsimp only
  split <;> rfl

theorem evalCond_tw (keep : Bool) (co to fo : Out) (hc : tw false co.1 = true) (ht : tw false to.1 = true)
    (hf : tw false fo.1 = true) : tw false (evalCond keep co to fo).1 = true := by
  rw [evalCond_fst]; exact evalCondCore_tw co to fo hc ht hf

theorem evalCond_NoNew (keep : Bool) (co to fo : Out) : NoNew (evalCond keep co to fo).2 (co.2 ++ to.2 ++ fo.2) := by
  rw [evalCond_snd]
  split
  · apply NoNew.append
    · apply NoNew.append
      · exact evalCondCore_NoNew co to fo
      · nonew
    · nonew
  · apply NoNew.append
    · exact evalCondCore_NoNew co to fo
    · exact NoNew.of_sub (unsupOnly_sub _ _)

end HclModel.Proofs
