import Proofs.GohclAttr
import Proofs.GohclSchema
import Proofs.GohclEqns
/-!
C16: the struct round trip.  `BlockRT fuel sty` = a value of `sty`, encoded as a block and decoded with `fuel`,
is itself.  `fieldsRT` is the induction over the fields of one struct (what each field contributes to the
body, and that the decoder finds exactly that in the `Content`), `contentRT` the step through `Content`
(`Proofs/BodyNative.lean`), `blockRT` the induction over the nesting depth.
-/
namespace HclModel.Gohcl.Proofs
open HclModel HclModel.Body HclModel.Body.Proofs

def BlockRT (fuel : Nat) (sty : STy) : Prop :=
  ∀ (type : String) (s : SVal), s.ok sty = true →
    ∃ blk, encodeBlock type sty s = some blk ∧ decodeBlock fuel sty blk = some s

/-! ### one attribute field -/

theorem fromCty_ptr (t : GTy) (x : GVal) (c : Val) (hp : noPtr t = true) (ht : hasTy t x = true)
    (hc : toCty t x = some c) :
    fromCty (.ptr t) c = some (.ptr (some x)) := by
  have h := fromCty_toCty t x c hp ht hc
  cases t with
  | str => cases x <;> simp [toCty] at hc; subst hc; simp [fromCty]
  | int =>
    cases x <;> simp [toCty] at hc; subst hc
    simp only [hasTy, decide_eq_true_eq] at ht
    simp [fromCty, ht]
  | bool => cases x <;> simp [toCty] at hc; subst hc; simp [fromCty]
  | slice t' => rw [fromCty, h] <;> first | rfl | (intro _ _ _ h'; cases h')
  | map t' => rw [fromCty, h] <;> first | rfl | (intro _ _ _ h'; cases h')
  | ptr t' => simp [noPtr] at hp

theorem noPtr_of_noInnerPtr {t : GTy} (h : noInnerPtr t = true) (hn : isPtr t = false) : noPtr t = true := by
  cases t <;> simp_all [noInnerPtr, noPtr, isPtr]

theorem attrRT (name : String) (t : GTy) (v : GVal) (hw : noInnerPtr t = true) (ht : hasTy t v = true) :
    ∃ a, encAttr name t v = some a ∧
      ((a = [] ∧ isPtr t = true ∧ v = zeroOf t) ∨
       ∃ c, a = [(name, c)] ∧ decodeExpr t (reparse c) = some v) := by
  by_cases hp : isPtr t = true
  · cases t with
    | ptr t' =>
      cases v with
      | ptr o =>
        cases o with
        | none => exact ⟨[], rfl, Or.inl ⟨rfl, rfl, rfl⟩⟩
        | some x =>
          simp only [hasTy] at ht
          simp only [noInnerPtr] at hw
          obtain ⟨c, hc⟩ := Option.isSome_iff_exists.1 (toCty_isSome t' x ht)
          refine ⟨[(name, c)], by cases t' <;> simp_all [encAttr, noPtr], Or.inr ⟨c, rfl, ?_⟩⟩
          simp only [decodeExpr, ctyTy, convert_reparse t' x c hc, fromCty_ptr t' x c hw ht hc]
      | _ => simp [hasTy] at ht
    | _ => simp [isPtr] at hp
  · have hp' : isPtr t = false := by simpa using hp
    have hnp := noPtr_of_noInnerPtr hw hp'
    obtain ⟨c, hc⟩ := Option.isSome_iff_exists.1 (toCty_isSome t v ht)
    refine ⟨[(name, c)], ?_, Or.inr ⟨c, rfl, attr_roundtrip t v c ht hnp hc⟩⟩
    cases t <;> simp_all [encAttr, isPtr]

/-! ### one block field -/

theorem encodeBlock_shape {type : String} {sty : STy} {s : SVal} {blk : GBlock}
    (h : encodeBlock type sty s = some blk) (hok : s.ok sty = true) :
    blk.type = type ∧ blk.labels.length = (labelNames sty.fields).length := by
  obtain ⟨fields⟩ := sty
  obtain ⟨vals⟩ := s
  unfold encodeBlock at h
  split at h
  · simp only [Option.some.injEq] at h; subst h
    rw [ok_mk] at hok
    exact ⟨rfl, labelVals_length fields vals hok⟩
  · simp at h

theorem blocksRT {fuel : Nat} {sty : STy} (hP : BlockRT fuel sty) (type : String) :
    ∀ xs : List SVal, allOk sty xs = true →
      ∃ bl, encodeBlocks type sty xs = some bl ∧ decodeBlocks fuel sty bl = some xs ∧ bl.length = xs.length ∧
        ∀ b ∈ bl, b.type = type ∧ b.labels.length = (labelNames sty.fields).length
  | [], _ => ⟨[], by unfold encodeBlocks; rfl, by unfold decodeBlocks; rfl, rfl, by simp⟩
  | s :: rest, h => by
    rw [allOk_cons, Bool.and_eq_true] at h
    obtain ⟨blk, he, hd⟩ := hP type s h.1
    obtain ⟨bl, he', hd', hl, hall⟩ := blocksRT hP type rest h.2
    refine ⟨blk :: bl, ?_, ?_, by simp [hl], ?_⟩
    · unfold encodeBlocks; simp only [he, he']
    · unfold decodeBlocks; simp only [hd, hd']
    · intro b hb
      simp only [List.mem_cons] at hb
      rcases hb with rfl | hb
      · exact encodeBlock_shape he h.1
      · exact hall b hb

theorem toB_body (bl : List GBlock) : (bl.map toB).map (·.body) = bl := by
  induction bl with
  | nil => rfl
  | cons b bl ih => simp only [List.map_cons, ih]; rfl

theorem hereRT {fuel : Nat} {sty : STy} (hP : BlockRT fuel sty) (type : String) (shape : Shape) (v : FVal)
    (hok : fieldOk (.block type shape sty) v = true) :
    ∃ bl, encHere type shape sty v = some bl ∧
      (∀ b ∈ bl, b.type = type ∧ b.labels.length = (labelNames sty.fields).length) ∧
      decShape fuel shape sty (bl.map toB) = some v := by
  cases shape <;> rcases v with _ | _ | s | (_ | s) | (_ | xs) | (_ | xs) <;>
    simp only [fieldOk, Bool.false_eq_true, Bool.and_eq_true, Bool.not_eq_true'] at hok
  · -- T
    obtain ⟨blk, he, hd⟩ := hP type s hok
    refine ⟨[blk], by simp [encHere, he], ?_, ?_⟩
    · intro b hb; simp only [List.mem_singleton] at hb; subst hb; exact encodeBlock_shape he hok
    · simp only [decShape, List.map_cons, List.map_nil]
      show Option.map FVal.one (decodeBlock fuel sty blk) = _
      rw [hd]; rfl
  · -- *T, nil
    exact ⟨[], rfl, by simp, rfl⟩
  · -- *T
    obtain ⟨blk, he, hd⟩ := hP type s hok
    refine ⟨[blk], by simp [encHere, he], ?_, ?_⟩
    · intro b hb; simp only [List.mem_singleton] at hb; subst hb; exact encodeBlock_shape he hok
    · simp only [decShape, List.map_cons, List.map_nil]
      show Option.map (fun s => FVal.ptr (some s)) (decodeBlock fuel sty blk) = _
      rw [hd]; rfl
  · -- []T, nil
    exact ⟨[], rfl, by simp, rfl⟩
  · -- []T
    obtain ⟨bl, he, hd, hl, hall⟩ := blocksRT hP type xs hok.2
    refine ⟨bl, by simp [encHere, he], hall, ?_⟩
    cases bl with
    | nil => cases xs <;> simp at hl hok
    | cons b bl =>
      simp only [decShape, List.map_cons]
      rw [← List.map_cons, ← List.map_cons, toB_body, hd]; rfl
  · -- []*T, nil
    exact ⟨[], rfl, by simp, rfl⟩
  · -- []*T
    obtain ⟨bl, he, hd, hl, hall⟩ := blocksRT hP type xs hok.2
    refine ⟨bl, by simp [encHere, he], hall, ?_⟩
    cases bl with
    | nil => cases xs <;> simp at hl hok
    | cons b bl =>
      simp only [decShape, List.map_cons]
      rw [← List.map_cons, ← List.map_cons, toB_body, hd]; rfl

/-! ### the fields of one struct -/

/-- the labels handed to `decodeFields` are those of the value, or there are none and the value's are empty -/
def LabelsFit (labels vals : List String) : Prop :=
  labels = vals ∨ (labels = [] ∧ ∀ s ∈ vals, s = "")

theorem filter_type_self {bl : List GBlock} {type : String} (h : ∀ b ∈ bl, b.type = type) :
    bl.filter (·.type == type) = bl :=
  List.filter_eq_self.2 fun b hb => by simp [h b hb]

theorem filter_type_other {bl : List GBlock} {t : String} (h : ∀ b ∈ bl, b.type ≠ t) :
    bl.filter (·.type == t) = [] :=
  List.filter_eq_nil_iff.2 fun b hb => by simp [h b hb]

theorem fieldsRT (fuel : Nat) (IH : ∀ sty : STy, sty.wf = true → sty.depth ≤ fuel → BlockRT fuel sty) :
    ∀ (fs : List Field) (vs : List FVal), fieldsOk fs vs = true → fieldsWf fs = true → (names fs).Nodup →
      fieldsDepth fs ≤ fuel →
      ∃ as bs, encodeFields fs vs = some (as, bs) ∧
        (as.map (·.1)).Sublist (attrNames fs) ∧
        (∀ a ∈ attrSchemas fs, a.required = true → (findAttr a.name as).isSome = true) ∧
        (∀ b ∈ bs, ∃ sh sty, Field.block b.type sh sty ∈ fs ∧
          b.labels.length = (labelNames sty.fields).length) ∧
        ∀ (c : Content Val GBlock) (labels : List String),
          (∀ n ∈ attrNames fs, findAttr n c.attrs = findAttr n as) →
          (∀ t ∈ blockTypes fs, c.blocks.filter (·.type == t) = (bs.filter (·.type == t)).map toB) →
          LabelsFit labels (labelVals fs vs) →
          decodeFields fuel fs c labels = some vs
  | [], vs, hok, _, _, _ => by
    rw [fieldsOk_nil_left vs hok]
    exact ⟨[], [], encodeFields_nil, by simp [attrNames], by simp [attrSchemas], by simp,
      fun c labels _ _ _ => decodeFields_nil fuel c labels⟩
  | f :: fs, [], hok, _, _, _ => by rw [fieldsOk_nil_right] at hok; exact absurd hok (by decide)
  | f :: fs, v :: vs, hok, hwf, hnd, hdep => by
    rw [fieldsOk_cons, Bool.and_eq_true] at hok
    rw [fieldsWf_cons, Bool.and_eq_true] at hwf
    rw [fieldsDepth_cons] at hdep
    have hnd' : (names fs).Nodup := by
      cases f
      · rw [names_cons_attr, List.nodup_cons] at hnd; exact hnd.2
      · rw [names_cons_label] at hnd; exact hnd
      · rw [names_cons_block, List.nodup_cons] at hnd; exact hnd.2
    obtain ⟨as', bs', henc, hsub, hreq, hblk, hdec⟩ :=
      fieldsRT fuel IH fs vs hok.2 hwf.2 hnd' (by omega)
    have hbt : ∀ b ∈ bs', b.type ∈ blockTypes fs := fun b hb => by
      obtain ⟨sh, sty, hm, _⟩ := hblk b hb
      exact mem_blockTypes_of_field hm
    cases f with
    | attr name o t =>
      cases v with
      | attr g =>
        have hname : name ∉ names fs := by
          rw [names_cons_attr, List.nodup_cons] at hnd; exact hnd.1
        have hname' : name ∉ as'.map (·.1) := fun hm => hname (mem_names_of_mem_attrNames (hsub.subset hm))
        obtain ⟨a, hea, hcase⟩ := attrRT name t g hwf.1 hok.1
        refine ⟨a ++ as', bs', ?_, ?_, ?_, ?_, ?_⟩
        · rw [encodeFields_cons, henc]; simp [encField, hea]
        · rw [List.map_append]
          simp only [attrNames]
          rcases hcase with ⟨rfl, -, -⟩ | ⟨c, rfl, -⟩
          · exact hsub.cons _
          · exact hsub.cons_cons _
        · intro a' ha' hr
          simp only [attrSchemas, List.mem_cons] at ha'
          rcases ha' with rfl | ha'
          · simp only [Bool.and_eq_true, Bool.not_eq_true'] at hr
            rcases hcase with ⟨-, hp, -⟩ | ⟨c, rfl, -⟩
            · rw [hp] at hr; exact absurd hr.2 (by decide)
            · simp [findAttr]
          · have := hreq a' ha' hr
            rw [findAttr_isSome_iff] at this ⊢
            obtain ⟨p, hp, e⟩ := this
            exact ⟨p, List.mem_append_right _ hp, e⟩
        · intro b hb
          obtain ⟨sh, sty, hm, hl⟩ := hblk b hb
          exact ⟨sh, sty, List.mem_cons_of_mem _ hm, hl⟩
        · intro c labels hA hB hL
          rw [decodeFields_cons]
          have h1 : decField fuel (.attr name o t) c labels = some (.attr g) := by
            simp only [decField]
            rw [hA name (by simp [attrNames])]
            rcases hcase with ⟨rfl, -, hz⟩ | ⟨c', rfl, hd⟩
            · rw [List.nil_append, findAttr_eq_none hname', hz]
            · simp only [List.singleton_append, findAttr, beq_self_eq_true, if_true, hd, Option.map_some]
          have h2 : decodeFields fuel fs c (restLabels (.attr name o t) labels) = some vs := by
            apply hdec c labels
            · intro n hn
              rw [hA n (by simp [attrNames, hn])]
              have hne : ¬ name = n := fun e => hname (e ▸ mem_names_of_mem_attrNames hn)
              rcases hcase with ⟨rfl, -, -⟩ | ⟨c', rfl, -⟩
              · rfl
              · simp [findAttr, hne]
            · intro ty hty
              exact hB ty (by simpa [blockTypes] using hty)
            · simpa [labelVals_cons, labelOf] using hL
          rw [h1, h2]
      | label _ | one _ | ptr _ | slice _ | slicePtr _ => simp [fieldOk] at hok
    | label n =>
      cases v with
      | label s =>
        refine ⟨as', bs', ?_, ?_, ?_, ?_, ?_⟩
        · rw [encodeFields_label, henc]
        · simpa only [attrNames] using hsub
        · simpa only [attrSchemas] using hreq
        · intro b hb
          obtain ⟨sh, sty, hm, hl⟩ := hblk b hb
          exact ⟨sh, sty, List.mem_cons_of_mem _ hm, hl⟩
        · intro c labels hA hB hL
          rw [decodeFields_cons]
          rw [labelVals_cons] at hL
          simp only [labelOf, List.singleton_append] at hL
          have h1 : decField fuel (.label n) c labels = some (.label s) := by
            simp only [decField]
            rcases hL with rfl | ⟨rfl, hb⟩
            · rfl
            · rw [hb s (by simp)]; rfl
          have h2 : decodeFields fuel fs c (restLabels (.label n) labels) = some vs := by
            apply hdec c
            · intro m hm; exact hA m (by simpa [attrNames] using hm)
            · intro ty hty; exact hB ty (by simpa [blockTypes] using hty)
            · simp only [restLabels]
              rcases hL with rfl | ⟨rfl, hb⟩
              · exact Or.inl rfl
              · exact Or.inr ⟨rfl, fun x hx => hb x (List.mem_cons_of_mem _ hx)⟩
          rw [h1, h2]
      | attr _ | one _ | ptr _ | slice _ | slicePtr _ => simp [fieldOk] at hok
    | block type shape sty =>
      have htype : type ∉ names fs := by
        rw [names_cons_block, List.nodup_cons] at hnd; exact hnd.1
      have htype' : type ∉ blockTypes fs := fun hm => htype (mem_names_of_mem_blockTypes hm)
      have hP : BlockRT fuel sty := IH sty hwf.1 (by simp only [fieldDepth] at hdep; omega)
      obtain ⟨bl, heh, hall, hds⟩ := hereRT hP type shape v hok.1
      refine ⟨as', bl ++ bs', ?_, ?_, ?_, ?_, ?_⟩
      · rw [encodeFields_cons, henc]; simp [encField, heh]
      · simpa only [attrNames] using hsub
      · simpa only [attrSchemas] using hreq
      · intro b hb
        rw [List.mem_append] at hb
        rcases hb with hb | hb
        · obtain ⟨e, hl⟩ := hall b hb
          exact ⟨shape, sty, by rw [e]; exact List.mem_cons_self, hl⟩
        · obtain ⟨sh', sty', hm, hl⟩ := hblk b hb
          exact ⟨sh', sty', List.mem_cons_of_mem _ hm, hl⟩
      · intro c labels hA hB hL
        rw [decodeFields_cons]
        have h1 : decField fuel (.block type shape sty) c labels = some v := by
          simp only [decField]
          rw [hB type (by simp [blockTypes]), List.filter_append,
            filter_type_self (fun b hb => (hall b hb).1),
            filter_type_other (t := type) (fun b hb e => htype' (e ▸ hbt b hb)), List.append_nil, hds]
        have h2 : decodeFields fuel fs c (restLabels (.block type shape sty) labels) = some vs := by
          apply hdec c labels
          · intro m hm; exact hA m (by simpa [attrNames] using hm)
          · intro ty hty
            rw [hB ty (by simp [blockTypes, hty]), List.filter_append,
              filter_type_other (t := ty) (fun b hb e => htype' (by rw [← (hall b hb).1, e]; exact hty)),
              List.nil_append]
          · have : labelOf (.block type shape sty) v = [] := by cases v <;> rfl
            simpa [labelVals_cons, this] using hL
        rw [h1, h2]

/-! ### through `Content` -/

/-- `Content` with the implied schema accepts an encoded body and returns all of it -/
theorem contentRT {fields : List Field} (hnd : (names fields).Nodup) {as : List (String × Val)} {bs : List GBlock}
    (hsub : (as.map (·.1)).Sublist (attrNames fields))
    (hreq : ∀ a ∈ attrSchemas fields, a.required = true → (findAttr a.name as).isSome = true)
    (hblk : ∀ b ∈ bs, ∃ sh sty, Field.block b.type sh sty ∈ fields ∧
      b.labels.length = (labelNames sty.fields).length) :
    let r := (GBody.mk as bs).native.content (impliedSchema (.mk fields))
    r.2 = [] ∧ (∀ n ∈ attrNames fields, findAttr n r.1.attrs = findAttr n as) ∧ r.1.blocks = bs.map toB := by
  have hs := schema_nodup hnd
  have hfresh : (GBody.mk as bs).native.hiddenAttrs = [] ∧ (GBody.mk as bs).native.hiddenBlocks = [] ∧
      ((GBody.mk as bs).native.attrs.map (·.1)).Nodup :=
    ⟨rfl, rfl, hsub.nodup (attrNames_nodup hnd)⟩
  have hw : ∀ blk ∈ (GBody.mk as bs).native.blocks,
      ∃ s, wanted (impliedSchema (.mk fields)) blk.type = some s ∧ blk.labels.length = s.labelCount := by
    intro blk hb
    rw [native_mk] at hb
    simp only [List.mem_map] at hb
    obtain ⟨b, hb, rfl⟩ := hb
    obtain ⟨sh, sty, hm, hl⟩ := hblk b hb
    exact ⟨_, wanted_of_field hnd hm, hl⟩
  have hex := content_exact (GBody.mk as bs).native (impliedSchema (.mk fields)) hfresh hs
  refine ⟨?_, ?_, ?_⟩
  · rw [content_error_iff _ _ hfresh hs]
    refine ⟨?_, hw, ?_⟩
    · intro a ha hr
      exact hreq a ((mem_schema_attrs fields a).1 ha) hr
    · intro p hp
      exact (mem_attrNames_iff fields p.1).1 (hsub.subset (List.mem_map.2 ⟨p, hp, rfl⟩))
  · intro n hn
    rw [hex.1]
    exact findAttr_content _ n _ ((mem_attrNames_iff fields n).1 hn)
  · rw [hex.2]
    apply List.filter_eq_self.2
    intro blk hb
    obtain ⟨s, h1, h2⟩ := hw blk hb
    simp [h1, h2]

/-! ### all depths -/

theorem filter_toB (bs : List GBlock) (t : String) :
    (bs.map toB).filter (·.type == t) = (bs.filter (·.type == t)).map toB := by
  induction bs with
  | nil => rfl
  | cons b bs ih =>
    simp only [List.map_cons, List.filter_cons, ih]
    have : (toB b).type = b.type := rfl
    rw [this]
    split <;> rfl

theorem blockRT : ∀ (fuel : Nat) (sty : STy), sty.wf = true → sty.depth ≤ fuel → BlockRT fuel sty
  | 0, sty, _, hd => by
    obtain ⟨fields⟩ := sty
    rw [depth_mk] at hd; omega
  | fuel + 1, sty, hwf, hd => by
    obtain ⟨fields⟩ := sty
    intro type s hok
    obtain ⟨vals⟩ := s
    rw [ok_mk] at hok
    rw [depth_mk] at hd
    have hnd := names_nodup_of_wf hwf
    obtain ⟨as, bs, henc, hsub, hreq, hblk, hdec⟩ :=
      fieldsRT fuel (fun sty h1 h2 => blockRT fuel sty h1 h2) fields vals hok (fieldsWf_of_wf hwf) hnd
        (by omega)
    obtain ⟨h1, h2, h3⟩ := contentRT hnd hsub hreq hblk
    refine ⟨.mk type (labelVals fields vals) (.mk as bs), ?_, ?_⟩
    · unfold encodeBlock; simp only [henc]
    · unfold decodeBlock
      simp only [GBlock.body, GBlock.labels, h1, List.isEmpty_nil, Bool.not_true, Bool.false_eq_true, if_false,
        STy.fields]
      rw [hdec _ _ h2 (fun t _ => by rw [h3]; exact filter_toB bs t) (Or.inl rfl)]
      rfl

/-- the body-level round trip: as `blockRT`, the labels of the value being empty -/
theorem bodyRT (fuel : Nat) (fields : List Field) (vals : List FVal) (hwf : STy.wf (.mk fields) = true)
    (hok : fieldsOk fields vals = true) (hd : (STy.mk fields).depth ≤ fuel)
    (hl : ∀ s ∈ labelVals fields vals, s = "") :
    ∃ b, encodeBody (.mk fields) (.mk vals) = some b ∧ decodeBody fuel (.mk fields) b = some (.mk vals) := by
  rw [depth_mk] at hd
  obtain ⟨fuel, rfl⟩ : ∃ k, fuel = k + 1 := ⟨fuel - 1, by omega⟩
  have hnd := names_nodup_of_wf hwf
  obtain ⟨as, bs, henc, hsub, hreq, hblk, hdec⟩ :=
    fieldsRT fuel (fun sty h1 h2 => blockRT fuel sty h1 h2) fields vals hok (fieldsWf_of_wf hwf) hnd
      (by omega)
  obtain ⟨h1, h2, h3⟩ := contentRT hnd hsub hreq hblk
  refine ⟨.mk as bs, ?_, ?_⟩
  · simp only [encodeBody, STy.fields, SVal.fields, henc, Option.map_some]
  · unfold decodeBody
    simp only [h1, List.isEmpty_nil, Bool.not_true, Bool.false_eq_true, if_false, STy.fields]
    rw [hdec _ _ h2 (fun t _ => by rw [h3]; exact filter_toB bs t) (Or.inr ⟨rfl, hl⟩)]
    rfl

/-! ### the side condition is necessary -/

/-- whatever `decodeBody` returns has empty label fields -/
theorem decodeFields_nolabels (fuel : Nat) (c : Content Val GBlock) : ∀ (fs : List Field) (vs : List FVal),
    decodeFields fuel fs c [] = some vs → ∀ s ∈ labelVals fs vs, s = ""
  | [], vs, h => by
    rw [decodeFields_nil, Option.some.injEq] at h; subst h; simp [labelVals_nil]
  | f :: fs, vs, h => by
    rw [decodeFields_cons] at h
    have hr : restLabels f [] = [] := by cases f <;> rfl
    rw [hr] at h
    split at h
    · rename_i v rest hv hrest
      rw [Option.some.injEq] at h; subst h
      have ih := decodeFields_nolabels fuel c fs rest hrest
      rw [labelVals_cons]
      intro s hs
      rw [List.mem_append] at hs
      rcases hs with hs | hs
      · cases f with
        | label n =>
          simp only [decField, List.headD_nil, Option.some.injEq] at hv; subst hv
          simpa [labelOf] using hs
        | attr n o t =>
          simp only [decField] at hv
          split at hv
          · simp only [Option.some.injEq] at hv; subst hv; simp [labelOf] at hs
          · simp only [Option.map_eq_some_iff] at hv
            obtain ⟨g, -, rfl⟩ := hv
            simp [labelOf] at hs
        | block t sh sty => cases v <;> simp [labelOf] at hs
      · exact ih s hs
    · simp at h

theorem decodeBody_labels_blank (fuel : Nat) (fields : List Field) (vals : List FVal) (b : GBody)
    (h : decodeBody fuel (.mk fields) b = some (.mk vals)) : ∀ s ∈ labelVals fields vals, s = "" := by
  unfold decodeBody at h
  split at h
  · simp at h
  · simp only at h
    split at h
    · simp at h
    · simp only [Option.map_eq_some_iff, SVal.mk.injEq] at h
      obtain ⟨vs, hvs, rfl⟩ := h
      exact decodeFields_nolabels _ _ _ _ hvs

end HclModel.Gohcl.Proofs
