import Proofs.UnknownsOps
/-!
Binary and unary operators (`evalBin`, `evalUn`): decomposition of a diagnostic-free evaluation,
known-in-known-out, result types, monotonicity for `conc`.
-/
set_option linter.unusedSimpArgs false
namespace HclModel.Proofs.Unk
open Val

theorem tryConvert_ok {v : Val} {t : Ty} {x : Val} : tryConvert v t = .ok x ↔ convert v t = .ok x := by
  unfold tryConvert
  cases h : convert v t with
  | ok y => simp
  | error e => cases e <;> simp

theorem tryConvert_cases (v : Val) (t : Ty) :
    (∃ x, tryConvert v t = .ok x ∧ convert v t = .ok x) ∨ (∃ d, tryConvert v t = .error d) := by
  unfold tryConvert
  cases h : convert v t with
  | ok y => exact Or.inl ⟨y, rfl, rfl⟩
  | error e => cases e <;> exact Or.inr ⟨_, rfl⟩

/-- the value computed by a binary operator once both operands are converted and unmarked -/
def binCore (op : BinOp) (l r : Val) : R Val :=
  match shortCircuit op l r [] [] with
  | some (v, _) => .ok v
  | none => callBin op l r

theorem shortCircuit_val (op : BinOp) (l r : Val) (ld rd : List Diag) (hl : ld = []) :
    (shortCircuit op l r ld rd).map (·.1) = (shortCircuit op l r [] []).map (·.1) := by
  subst hl
  unfold shortCircuit
  cases op <;> simp only [hasErrors, List.isEmpty_nil, Bool.not_true, Bool.false_eq_true, if_false] <;>
    (repeat' split) <;> simp

theorem evalBin_nodiag {op : BinOp} {gl gr : Val} {ld rd : List Diag}
    (h : (evalBin true op (gl, ld) (gr, rd)).2 = []) :
    ld = [] ∧ rd = [] ∧ ∃ l r v, convert gl op.paramTy = .ok l ∧ convert gr op.paramTy = .ok r ∧
      binCore op l.unmark.1 r.unmark.1 = .ok v ∧
      (evalBin true op (gl, ld) (gr, rd)).1 = v.withFl (l.unmark.2.join r.unmark.2) := by
  unfold evalBin at h ⊢
  simp only at h ⊢
  rcases tryConvert_cases gl op.paramTy with ⟨l, hl, hl'⟩ | ⟨d, hl⟩
  · rcases tryConvert_cases gr op.paramTy with ⟨r, hr, hr'⟩ | ⟨d, hr⟩
    · simp only [hl, hr] at h ⊢
      have hd : ld = [] ∧ rd = [] := by
        split at h
        · simpa using h
        · split at h
          · simpa using h
          · split at h <;> simp at h <;> (try exact h)
      obtain ⟨rfl, rfl⟩ := hd
      refine ⟨rfl, rfl, l, r, ?_⟩
      simp only [binCore]
      cases hs : shortCircuit op l.unmark.1 r.unmark.1 [] [] with
      | some p =>
        obtain ⟨v, ds⟩ := p
        exact ⟨v, hl', hr', rfl, rfl⟩
      | none =>
        simp only [hs, hasErrors, List.append_nil, List.isEmpty_nil, Bool.not_true, Bool.false_eq_true,
          if_false] at h ⊢
        cases hc : callBin op l.unmark.1 r.unmark.1 with
        | ok v => exact ⟨v, hl', hr', rfl, rfl⟩
        | error e => cases e <;> (rw [hc] at h; simp at h)
    · simp [hl, hr] at h
  · rcases tryConvert_cases gr op.paramTy with ⟨r, hr, hr'⟩ | ⟨d', hr⟩ <;> simp [hl, hr] at h


theorem shortCircuit_type {op : BinOp} {l r : Val} {ld rd : List Diag} {v : Val} {ds : List Diag}
    (h : shortCircuit op l r ld rd = some (v, ds)) : typeOf v = .bool ∧ isFlat v = true ∧ op.resultTy = .bool := by
  unfold shortCircuit at h
  cases op <;> simp only [] at h
  case or | and =>
    repeat' split at h
    all_goals simp at h
    all_goals (obtain ⟨rfl, _⟩ := h; simp [typeOf, isFlat, BinOp.resultTy])
  all_goals simp at h

theorem callBin_type {op : BinOp} {l r v : Val} (h : callBin op l r = .ok v) :
    typeOf v = op.resultTy ∧ isFlat v = true := by
  unfold callBin at h
  cases op <;> simp only [] at h
  case eq | ne =>
    obtain ⟨o, _, h⟩ := bind_ok.mp h
    cases o <;> simp [pure, Except.pure] at h <;> subst h <;> simp [typeOf, isFlat, BinOp.resultTy]
  all_goals
    split at h
    · simp [throw, throwThe, MonadExceptOf.throw] at h
    · repeat' split at h
      all_goals simp [pure, Except.pure, throw, throwThe, MonadExceptOf.throw] at h
      all_goals (subst h; simp [typeOf, isFlat, BinOp.resultTy])

theorem equalsKnown_known {a b : Val} {o : Option Bool} (ha : whollyKnown a = true) (hb : whollyKnown b = true)
    (h : equalsKnown a b = .ok o) : o.isSome = true := by
  have ka := isKnown_of_whollyKnown ha
  have kb := isKnown_of_whollyKnown hb
  unfold equalsKnown at h
  simp only [ka, kb, ha, hb, and_self, if_true] at h
  repeat' split at h
  all_goals simp [pure, Except.pure] at h
  all_goals (subst h; rfl)

theorem shape_bool_known {v : Val} (h : v.typeOf = .bool) (hk : whollyKnown v = true) :
    (∃ f, v = .null f .bool) ∨ (∃ f b, v = .bool f b) := by
  rcases shape_bool h with ⟨f, rfl⟩ | h | h
  · simp [whollyKnown] at hk
  · exact Or.inl h
  · exact Or.inr h
theorem shape_num_known {v : Val} (h : v.typeOf = .num) (hk : whollyKnown v = true) :
    (∃ f, v = .null f .num) ∨ (∃ f b, v = .num f b) := by
  rcases shape_num h with ⟨f, rfl⟩ | h | h
  · simp [whollyKnown] at hk
  · exact Or.inl h
  · exact Or.inr h

theorem binCore_known {op : BinOp} {l r v : Val} (hl : whollyKnown l = true) (hr : whollyKnown r = true)
    (ht : op.paramTy ≠ .dyn → typeOf l = op.paramTy ∧ typeOf r = op.paramTy)
    (h : binCore op l r = .ok v) : whollyKnown v = true := by
  cases op
  case eq | ne =>
    simp only [binCore, shortCircuit] at h
    unfold callBin at h
    simp only [] at h
    obtain ⟨o, ho, h⟩ := bind_ok.mp h
    have := equalsKnown_known (by rwa [whollyKnown_unmarkDeep]) (by rwa [whollyKnown_unmarkDeep]) ho
    cases o <;> simp [pure, Except.pure] at h this
    subst h; rfl
  case or | and =>
    obtain ⟨h1, h2⟩ := ht (by simp [BinOp.paramTy])
    simp only [BinOp.paramTy] at h1 h2
    rcases shape_bool_known h1 hl with ⟨f, rfl⟩ | ⟨f, (_ | _), rfl⟩ <;>
      rcases shape_bool_known h2 hr with ⟨g, rfl⟩ | ⟨g, (_ | _), rfl⟩ <;>
      simp [binCore, shortCircuit, callBin, isKnown, isNull, hasErrors, pure, Except.pure, throw, throwThe,
        MonadExceptOf.throw] at h <;> subst h <;> rfl
  all_goals
    obtain ⟨h1, h2⟩ := ht (by simp [BinOp.paramTy])
    simp only [BinOp.paramTy] at h1 h2
    rcases shape_num_known h1 hl with ⟨f, rfl⟩ | ⟨f, x, rfl⟩ <;>
      rcases shape_num_known h2 hr with ⟨g, rfl⟩ | ⟨g, y, rfl⟩ <;>
      simp [binCore, shortCircuit, callBin, isKnown, isNull, hasErrors, pure, Except.pure, throw, throwThe,
        MonadExceptOf.throw] at h
    all_goals ((repeat' split at h) <;> (try simp at h) <;> subst h <;> rfl)

theorem conc_of_type {v : Val} {f : Fl} {t : Ty} (h : typeOf v = t) : conc v (.unk f t) = true := by
  rw [conc_unk_iff]; exact Or.inr h

theorem binCore_type {op : BinOp} {l r v : Val} (h : binCore op l r = .ok v) :
    typeOf v = op.resultTy ∧ isFlat v = true := by
  unfold binCore at h
  split at h
  · rename_i v' ds hs
    cases h
    obtain ⟨h1, h2, h3⟩ := shortCircuit_type hs
    exact ⟨h1.trans h3.symm, h2⟩
  · exact callBin_type h

set_option maxHeartbeats 1000000 in
theorem binCore_conc_logic {op : BinOp} (hop : op = .or ∨ op = .and) {l r la ra v va : Val}
    (h1 : conc l la = true) (h2 : conc r ra = true)
    (tl : typeOf l = .bool) (tr : typeOf r = .bool) (tla : typeOf la = .bool) (tra : typeOf ra = .bool)
    (hv : binCore op l r = .ok v) (ha : binCore op la ra = .ok va) : conc v va = true := by
  rcases hop with rfl | rfl <;>
  rcases shape_bool tla with ⟨f, rfl⟩ | ⟨f, rfl⟩ | ⟨f, (_|_), rfl⟩ <;>
  rcases shape_bool tra with ⟨f, rfl⟩ | ⟨f, rfl⟩ | ⟨f, (_|_), rfl⟩ <;>
  rcases shape_bool tl with ⟨f, rfl⟩ | ⟨f, rfl⟩ | ⟨f, (_|_), rfl⟩ <;>
  rcases shape_bool tr with ⟨f, rfl⟩ | ⟨f, rfl⟩ | ⟨f, (_|_), rfl⟩ <;>
  simp [conc, typeOf] at h1 h2 <;>
  simp [binCore, shortCircuit, callBin, isKnown, isNull, hasErrors, pure, Except.pure, throw, throwThe,
        MonadExceptOf.throw] at hv ha <;>
  (try subst hv) <;> (try subst ha) <;> simp [conc, typeOf]

set_option maxHeartbeats 1000000 in
theorem binCore_conc_num {op : BinOp} (hop : op.paramTy = .num) {l r la ra v va : Val}
    (h1 : conc l la = true) (h2 : conc r ra = true)
    (tla : typeOf la = .num) (tra : typeOf ra = .num)
    (hv : binCore op l r = .ok v) (ha : binCore op la ra = .ok va) : conc v va = true := by
  have hty := (binCore_type hv).1
  rcases shape_num tla with ⟨f, rfl⟩ | ⟨f, rfl⟩ | ⟨f, x, rfl⟩ <;>
  rcases shape_num tra with ⟨g, rfl⟩ | ⟨g, rfl⟩ | ⟨g, y, rfl⟩
  case inr.inr.inr.inr =>
    obtain ⟨f', rfl⟩ := conc_num_inv h1
    obtain ⟨g', rfl⟩ := conc_num_inv h2
    cases op <;> simp [BinOp.paramTy] at hop <;>
      simp [binCore, shortCircuit, callBin, isKnown, isNull, hasErrors, pure, Except.pure, throw, throwThe,
        MonadExceptOf.throw] at hv ha <;>
      (repeat' split at hv) <;> (repeat' split at ha) <;> (try simp at hv) <;> (try simp at ha) <;>
      (try subst hv) <;> (try subst ha) <;> simp_all [conc]
  all_goals
    cases op <;> simp [BinOp.paramTy] at hop <;>
      simp [binCore, shortCircuit, callBin, isKnown, isNull, hasErrors, pure, Except.pure, throw, throwThe,
        MonadExceptOf.throw] at ha <;> subst ha <;> exact conc_of_type hty

theorem whollyKnown_of_prim {v : Val} (hk : v.isKnown = true) (ht : v.typeOf.isPrim = true) :
    whollyKnown v = true := by
  cases v <;> simp_all [isKnown, typeOf, Ty.isPrim, whollyKnown]

theorem eqk_nn {a b : Val} (na : a.isNull = true) (nb : b.isNull = true) :
    equalsKnown a b = .ok (some true) := by
  unfold equalsKnown; simp [na, nb, pure, Except.pure]
theorem eqk_nk {a b : Val} (na : a.isNull = true) (nb : b.isNull = false) (kb : b.isKnown = true) :
    equalsKnown a b = .ok (some false) := by
  unfold equalsKnown; simp [na, nb, kb, pure, Except.pure]
theorem eqk_kn {a b : Val} (na : a.isNull = false) (nb : b.isNull = true) (ka : a.isKnown = true) :
    equalsKnown a b = .ok (some false) := by
  unfold equalsKnown; simp [na, nb, ka, pure, Except.pure]
theorem eqk_kk {a b : Val} (na : a.isNull = false) (nb : b.isNull = false) (wa : whollyKnown a = true)
    (wb : whollyKnown b = true) :
    equalsKnown a b = .ok (some (if a.typeOf == b.typeOf then eqErased a b else false)) := by
  unfold equalsKnown
  simp only [na, nb, isKnown_of_whollyKnown wa, isKnown_of_whollyKnown wb, wa, wb, and_self, if_true]
  split <;> rfl
theorem eqk_ku {a b : Val} (na : a.isNull = false) (nb : b.isNull = false) (ka : a.isKnown = true)
    (kb : b.isKnown = false) (hd : b.typeOf ≠ .dyn) (hne : a.typeOf ≠ b.typeOf)
    (pa : a.typeOf.isPrim = true) (pb : b.typeOf.isPrim = true) :
    equalsKnown a b = .ok (some false) := by
  unfold equalsKnown
  simp [na, nb, ka, kb, hd, hne, pa, pb, pure, Except.pure]
theorem eqk_uk {a b : Val} (na : a.isNull = false) (nb : b.isNull = false) (ka : a.isKnown = false)
    (kb : b.isKnown = true) (hd : a.typeOf ≠ .dyn) (hne : b.typeOf ≠ a.typeOf)
    (pa : a.typeOf.isPrim = true) (pb : b.typeOf.isPrim = true) :
    equalsKnown a b = .ok (some false) := by
  unfold equalsKnown
  simp [na, nb, ka, kb, hd, hne, pa, pb, pure, Except.pure]

theorem typeOf_of_conc_unknown {v a : Val} (h : conc v a = true) (ka : a.isKnown = false)
    (hd : a.typeOf ≠ .dyn) : typeOf v = typeOf a := by
  cases a <;> simp [isKnown] at ka
  rw [conc_unk_iff] at h
  simp only [typeOf] at hd ⊢
  rcases h with h | h
  · exact absurd h hd
  · exact h

/-- a known prim against an unknown / null / known prim of another prim type is never equal -/
theorem eqk_prim_ne {a b : Val} (na : a.isNull = false) (ka : a.isKnown = true)
    (hne : a.typeOf ≠ b.typeOf) (pa : a.typeOf.isPrim = true) (pb : b.typeOf.isPrim = true) :
    equalsKnown a b = .ok (some false) ∧ equalsKnown b a = .ok (some false) := by
  have hd : b.typeOf ≠ .dyn := by intro e; rw [e] at pb; simp [Ty.isPrim] at pb
  have wa := whollyKnown_of_prim ka pa
  by_cases nb : b.isNull = true
  · exact ⟨eqk_kn na nb ka, eqk_nk nb na ka⟩
  · simp only [Bool.not_eq_true] at nb
    by_cases kb : b.isKnown = true
    · have wb := whollyKnown_of_prim kb pb
      rw [eqk_kk na nb wa wb, eqk_kk nb na wb wa]
      have h1 : (a.typeOf == b.typeOf) = false := by simpa using hne
      have h2 : (b.typeOf == a.typeOf) = false := by simpa using fun e => hne e.symm
      simp [h1, h2]
    · simp only [Bool.not_eq_true] at kb
      exact ⟨eqk_ku na nb ka kb hd hne pa pb, eqk_uk nb na kb ka hd hne pb pa⟩

theorem equalsKnown_mono {a b a' b' : Val} {r : Bool} {o : Option Bool} (h1 : conc a' a = true)
    (h2 : conc b' b = true) (ha : equalsKnown a b = .ok (some r)) (hv : equalsKnown a' b' = .ok o) :
    o = some r := by
  suffices hs : equalsKnown a' b' = .ok (some r) by
    rw [hs] at hv; cases hv; rfl
  clear hv
  unfold equalsKnown at ha
  split at ha
  · rename_i na nb
    simp [pure, Except.pure] at ha; subst ha
    exact eqk_nn (conc_null_right h1 na) (conc_null_right h2 nb)
  · rename_i na nb
    split at ha
    · rename_i kb
      simp [pure, Except.pure] at ha; subst ha
      exact eqk_nk (conc_null_right h1 na) ((conc_isNull h2 kb).trans nb) (conc_isKnown h2 kb)
    · simp [throw, throwThe, MonadExceptOf.throw] at ha
  · rename_i na nb
    split at ha
    · rename_i ka
      simp [pure, Except.pure] at ha; subst ha
      exact eqk_kn ((conc_isNull h1 ka).trans na) (conc_null_right h2 nb) (conc_isKnown h1 ka)
    · simp [throw, throwThe, MonadExceptOf.throw] at ha
  · rename_i na nb
    split at ha
    · simp [pure, Except.pure] at ha
    · -- a known, b unknown
      rename_i ka kb
      simp only [ka, if_true] at ha
      split at ha
      · simp [pure, Except.pure] at ha
      · rename_i hdyn
        split at ha
        · rename_i hne
          split at ha
          · rename_i hprim
            simp [pure, Except.pure] at ha
            subst ha
            simp at hdyn hne
            have wa : whollyKnown a = true := whollyKnown_of_prim ka hprim.1
            obtain ⟨ta', _⟩ := conc_whollyKnown h1 wa
            have tb' := typeOf_of_conc_unknown h2 kb hdyn
            exact (eqk_prim_ne ((conc_isNull h1 ka).trans na) (conc_isKnown h1 ka)
              (by rw [ta', tb']; exact hne) (by rw [ta']; exact hprim.1) (by rw [tb']; exact hprim.2)).1
          · simp [throw, throwThe, MonadExceptOf.throw] at ha
        · split at ha
          · simp [pure, Except.pure] at ha
          · simp [throw, throwThe, MonadExceptOf.throw] at ha
    · -- a unknown, b known
      rename_i ka kb
      simp only [ka, Bool.false_eq_true, if_false] at ha
      split at ha
      · simp [pure, Except.pure] at ha
      · rename_i hdyn
        split at ha
        · rename_i hne
          split at ha
          · rename_i hprim
            simp [pure, Except.pure] at ha
            subst ha
            simp at hdyn hne
            have wb : whollyKnown b = true := whollyKnown_of_prim kb hprim.1
            obtain ⟨tb', _⟩ := conc_whollyKnown h2 wb
            have ta' := typeOf_of_conc_unknown h1 ka hdyn
            exact (eqk_prim_ne ((conc_isNull h2 kb).trans nb) (conc_isKnown h2 kb)
              (by rw [ta', tb']; exact hne) (by rw [tb']; exact hprim.1) (by rw [ta']; exact hprim.2)).2
          · simp [throw, throwThe, MonadExceptOf.throw] at ha
        · split at ha
          · simp [pure, Except.pure] at ha
          · simp [throw, throwThe, MonadExceptOf.throw] at ha
    · -- both known
      rename_i ka kb
      split at ha
      · rename_i hw
        obtain ⟨ta', wa'⟩ := conc_whollyKnown h1 hw.1
        obtain ⟨tb', wb'⟩ := conc_whollyKnown h2 hw.2
        have he := eqErased_conc h1 hw.1 h2 hw.2
        rw [eqk_kk ((conc_isNull h1 ka).trans na) ((conc_isNull h2 kb).trans nb) wa' wb', ta', tb', he]
        split at ha <;> rename_i hte <;> simp [pure, Except.pure] at ha <;> simp [hte, ha]
      · simp [throw, throwThe, MonadExceptOf.throw] at ha

theorem binCore_eq_inv {op : BinOp} (hop : op = .eq ∨ op = .ne) {l r v : Val} (h : binCore op l r = .ok v) :
    ∃ o f, equalsKnown l.unmarkDeep r.unmarkDeep = .ok o ∧
      v = (match o with | none => .unk f .bool | some x => .bool f (if op = .eq then x else !x)) := by
  rcases hop with rfl | rfl <;>
  · simp only [binCore, shortCircuit] at h
    unfold callBin at h
    simp only [] at h
    obtain ⟨o, ho, h⟩ := bind_ok.mp h
    refine ⟨o, (l.flagsDeep.join r.flagsDeep), ho, ?_⟩
    cases o <;> simp [pure, Except.pure] at h <;> simp [← h]

theorem binCore_conc_eq {op : BinOp} (hop : op = .eq ∨ op = .ne) {l r la ra v va : Val}
    (h1 : conc l la = true) (h2 : conc r ra = true)
    (hv : binCore op l r = .ok v) (ha : binCore op la ra = .ok va) : conc v va = true := by
  obtain ⟨o, f, ho, rfl⟩ := binCore_eq_inv hop hv
  obtain ⟨oa, g, hoa, rfl⟩ := binCore_eq_inv hop ha
  cases oa with
  | none => cases o <;> simp [conc, typeOf]
  | some x =>
    have := equalsKnown_mono (by rwa [conc_unmarkDeep]) (by rwa [conc_unmarkDeep]) hoa ho
    subst this
    simp [conc]

theorem binCore_conc {op : BinOp} {l r la ra v va : Val}
    (h1 : conc l la = true) (h2 : conc r ra = true)
    (ht : op.paramTy ≠ .dyn → typeOf l = op.paramTy ∧ typeOf r = op.paramTy ∧
      typeOf la = op.paramTy ∧ typeOf ra = op.paramTy)
    (hv : binCore op l r = .ok v) (ha : binCore op la ra = .ok va) : conc v va = true := by
  cases op
  case eq => exact binCore_conc_eq (Or.inl rfl) h1 h2 hv ha
  case ne => exact binCore_conc_eq (Or.inr rfl) h1 h2 hv ha
  case or =>
    obtain ⟨a, b, c, d⟩ := ht (by simp [BinOp.paramTy])
    exact binCore_conc_logic (Or.inl rfl) h1 h2 a b c d hv ha
  case and =>
    obtain ⟨a, b, c, d⟩ := ht (by simp [BinOp.paramTy])
    exact binCore_conc_logic (Or.inr rfl) h1 h2 a b c d hv ha
  all_goals
    obtain ⟨a, b, c, d⟩ := ht (by simp [BinOp.paramTy])
    exact binCore_conc_num rfl h1 h2 c d hv ha

/-! ### `evalBin` -/

theorem paramTy_cases (op : BinOp) : op.paramTy = .dyn ∨ op.paramTy.noDyn = true := by
  cases op <;> simp [BinOp.paramTy, Ty.noDyn]

theorem convert_typeOf_param {op : BinOp} {g x : Val} (h : convert g op.paramTy = .ok x)
    (hd : op.paramTy ≠ .dyn) : typeOf x = op.paramTy := by
  rcases paramTy_cases op with h1 | h1
  · exact absurd h1 hd
  · exact ((convert_props g _ x h).2.2.2 h1).1

theorem evalBin_diag {op : BinOp} {lo ro : Out} (h : (evalBin true op lo ro).2 = []) :
    lo.2 = [] ∧ ro.2 = [] := by
  obtain ⟨gl, ld⟩ := lo; obtain ⟨gr, rd⟩ := ro
  obtain ⟨h1, h2, _⟩ := evalBin_nodiag h
  exact ⟨h1, h2⟩

theorem evalBin_type {op : BinOp} {lo ro : Out} (h : (evalBin true op lo ro).2 = []) :
    typeOf (evalBin true op lo ro).1 = op.resultTy ∧ wfVal (evalBin true op lo ro).1 = true := by
  obtain ⟨gl, ld⟩ := lo; obtain ⟨gr, rd⟩ := ro
  obtain ⟨_, _, l, r, v, _, _, hv, he⟩ := evalBin_nodiag h
  rw [he]
  obtain ⟨h1, h2⟩ := binCore_type hv
  exact ⟨by simpa using h1, by simpa using wfVal_flat h2⟩

theorem evalBin_known {op : BinOp} {lo ro : Out} (h : (evalBin true op lo ro).2 = [])
    (kl : whollyKnown lo.1 = true) (kr : whollyKnown ro.1 = true) :
    whollyKnown (evalBin true op lo ro).1 = true := by
  obtain ⟨gl, ld⟩ := lo; obtain ⟨gr, rd⟩ := ro
  obtain ⟨_, _, l, r, v, hl, hr, hv, he⟩ := evalBin_nodiag h
  rw [he, whollyKnown_withFl]
  refine binCore_known ?_ ?_ ?_ hv
  · simpa using (convert_props gl _ l hl).2.2.1 kl
  · simpa using (convert_props gr _ r hr).2.2.1 kr
  · intro hd
    simp only [unmark_fst, typeOf_setFl]
    exact ⟨convert_typeOf_param hl hd, convert_typeOf_param hr hd⟩

theorem paramTy_ok (op : BinOp) : op.paramTy.paramOk = true := by
  cases op <;> rfl

theorem evalBin_conc {op : BinOp} {lo ro loa roa : Out} (h : (evalBin true op lo ro).2 = [])
    (ha : (evalBin true op loa roa).2 = []) (cl : conc lo.1 loa.1 = true) (cr : conc ro.1 roa.1 = true) :
    conc (evalBin true op lo ro).1 (evalBin true op loa roa).1 = true := by
  obtain ⟨gl, ld⟩ := lo; obtain ⟨gr, rd⟩ := ro
  obtain ⟨gla, lda⟩ := loa; obtain ⟨gra, rda⟩ := roa
  obtain ⟨_, _, l, r, v, hl, hr, hv, he⟩ := evalBin_nodiag h
  obtain ⟨_, _, la, ra, va, hla, hra, hva, hea⟩ := evalBin_nodiag ha
  rw [he, hea, conc_withFl]
  refine binCore_conc ?_ ?_ ?_ hv hva
  · simpa using convert_mono cl (paramTy_ok op) hl hla
  · simpa using convert_mono cr (paramTy_ok op) hr hra
  · intro hd
    simp only [unmark_fst, typeOf_setFl]
    exact ⟨convert_typeOf_param hl hd, convert_typeOf_param hr hd, convert_typeOf_param hla hd,
      convert_typeOf_param hra hd⟩

/-! ### `evalUn` -/

theorem evalUn_nodiag {op : UnOp} {g : Val} {ds : List Diag} (h : (evalUn op (g, ds)).2 = []) :
    ds = [] ∧ ∃ x v, convert g op.paramTy = .ok x ∧ callUn op x = .ok v ∧ (evalUn op (g, ds)).1 = v := by
  unfold evalUn at h ⊢
  simp only at h ⊢
  rcases tryConvert_cases g op.paramTy with ⟨x, hx, hx'⟩ | ⟨d, hx⟩
  · simp only [hx] at h ⊢
    split at h
    · rename_i he
      simp only at h; subst h; simp [hasErrors] at he
    · rename_i he
      simp only [he]
      cases hc : callUn op x with
      | ok v =>
        rw [hc] at h
        simp only at h
        exact ⟨h, x, v, hx', hc, by simp⟩
      | error e => cases e <;> (rw [hc] at h; simp at h)
  · simp [hx] at h

theorem callUn_type {op : UnOp} {a v : Val} (h : callUn op a = .ok v) :
    typeOf v = op.resultTy ∧ isFlat v = true := by
  unfold callUn at h
  split at h
  · simp [throw, throwThe, MonadExceptOf.throw] at h
  · repeat' split at h
    all_goals simp [pure, Except.pure, throw, throwThe, MonadExceptOf.throw] at h
    all_goals (subst h; simp [typeOf, isFlat, UnOp.resultTy])

theorem callUn_known {op : UnOp} {a v : Val} (ht : typeOf a = op.paramTy) (hk : whollyKnown a = true)
    (h : callUn op a = .ok v) : whollyKnown v = true := by
  cases op <;> simp only [UnOp.paramTy] at ht
  · rcases shape_num_known ht hk with ⟨f, rfl⟩ | ⟨f, x, rfl⟩ <;>
      simp [callUn, isNull, pure, Except.pure, throw, throwThe, MonadExceptOf.throw] at h
    split at h <;> simp at h
    subst h; rfl
  · rcases shape_bool_known ht hk with ⟨f, rfl⟩ | ⟨f, x, rfl⟩ <;>
      simp [callUn, isNull, pure, Except.pure, throw, throwThe, MonadExceptOf.throw] at h
    subst h; rfl

theorem callUn_conc {op : UnOp} {a aa v va : Val} (hc : conc a aa = true) (hta : typeOf aa = op.paramTy)
    (h : callUn op a = .ok v) (ha : callUn op aa = .ok va) : conc v va = true := by
  have hty := (callUn_type h).1
  cases op <;> simp only [UnOp.paramTy] at hta
  · rcases shape_num hta with ⟨f, rfl⟩ | ⟨f, rfl⟩ | ⟨f, x, rfl⟩
    · simp [callUn, isNull, pure, Except.pure] at ha; subst ha; exact conc_of_type hty
    · simp [callUn, isNull, throw, throwThe, MonadExceptOf.throw] at ha
    · obtain ⟨f', rfl⟩ := conc_num_inv hc
      simp [callUn, isNull, pure, Except.pure, throw, throwThe, MonadExceptOf.throw] at h ha
      split at h <;> simp at h
      split at ha <;> simp at ha
      subst h; subst ha; simp [conc]
  · rcases shape_bool hta with ⟨f, rfl⟩ | ⟨f, rfl⟩ | ⟨f, x, rfl⟩
    · simp [callUn, isNull, pure, Except.pure] at ha; subst ha; exact conc_of_type hty
    · simp [callUn, isNull, throw, throwThe, MonadExceptOf.throw] at ha
    · obtain ⟨f', rfl⟩ := conc_bool_inv hc
      simp [callUn, isNull, pure, Except.pure, throw, throwThe, MonadExceptOf.throw] at h ha
      subst h; subst ha; simp [conc]

theorem unParamTy_noDyn (op : UnOp) : op.paramTy.noDyn = true := by cases op <;> rfl

theorem evalUn_diag {op : UnOp} {o : Out} (h : (evalUn op o).2 = []) : o.2 = [] := by
  obtain ⟨g, ds⟩ := o; exact (evalUn_nodiag h).1

theorem evalUn_type {op : UnOp} {o : Out} (h : (evalUn op o).2 = []) :
    typeOf (evalUn op o).1 = op.resultTy ∧ wfVal (evalUn op o).1 = true := by
  obtain ⟨g, ds⟩ := o
  obtain ⟨_, x, v, _, hv, he⟩ := evalUn_nodiag h
  rw [he]
  exact ⟨(callUn_type hv).1, wfVal_flat (callUn_type hv).2⟩

theorem evalUn_known {op : UnOp} {o : Out} (h : (evalUn op o).2 = []) (hk : whollyKnown o.1 = true) :
    whollyKnown (evalUn op o).1 = true := by
  obtain ⟨g, ds⟩ := o
  obtain ⟨_, x, v, hx, hv, he⟩ := evalUn_nodiag h
  rw [he]
  obtain ⟨_, _, p3, p4⟩ := convert_props g _ x hx
  exact callUn_known (p4 (unParamTy_noDyn op)).1 (p3 hk) hv

theorem evalUn_conc {op : UnOp} {o oa : Out} (h : (evalUn op o).2 = []) (ha : (evalUn op oa).2 = [])
    (hc : conc o.1 oa.1 = true) : conc (evalUn op o).1 (evalUn op oa).1 = true := by
  obtain ⟨g, ds⟩ := o; obtain ⟨ga, dsa⟩ := oa
  obtain ⟨_, x, v, hx, hv, he⟩ := evalUn_nodiag h
  obtain ⟨_, xa, va, hxa, hva, hea⟩ := evalUn_nodiag ha
  rw [he, hea]
  have hn := unParamTy_noDyn op
  exact callUn_conc (convert_conc ga g _ x xa hc hn hx hxa) ((convert_props ga _ xa hxa).2.2.2 hn).1 hv hva

end HclModel.Proofs.Unk
