import HclModel.Expr.Rel
/-!
Value-level lemmas for C06: `Ty` equality, `relV` / `relL` / `relF`, flags, erasure.
-/
namespace HclModel.Proofs
open Val

/-! ### `Ty.beq` is equality -/

mutual
theorem Ty.beq_refl : ∀ a : Ty, Ty.beq a a = true
  | .str | .num | .bool | .dyn => by simp [Ty.beq]
  | .list a => by simp [Ty.beq, Ty.beq_refl a]
  | .map a => by simp [Ty.beq, Ty.beq_refl a]
  | .tuple as => by simp [Ty.beq, Ty.beqList_refl as]
  | .object fs => by simp [Ty.beq, Ty.beqFields_refl fs]
theorem Ty.beqList_refl : ∀ as : List Ty, Ty.beqList as as = true
  | [] => by simp [Ty.beqList]
  | a :: as => by simp [Ty.beqList, Ty.beq_refl a, Ty.beqList_refl as]
theorem Ty.beqFields_refl : ∀ as : List (String × Ty), Ty.beqFields as as = true
  | [] => by simp [Ty.beqFields]
  | (k, a) :: as => by simp [Ty.beqFields, Ty.beq_refl a, Ty.beqFields_refl as]
end

mutual
theorem Ty.beq_eq : ∀ a b : Ty, Ty.beq a b = true → a = b
  | .str, b => by cases b <;> simp [Ty.beq]
  | .num, b => by cases b <;> simp [Ty.beq]
  | .bool, b => by cases b <;> simp [Ty.beq]
  | .dyn, b => by cases b <;> simp [Ty.beq]
  | .list a, b => by
    cases b <;> simp [Ty.beq]
    exact Ty.beq_eq a _
  | .map a, b => by
    cases b <;> simp [Ty.beq]
    exact Ty.beq_eq a _
  | .tuple as, b => by
    cases b <;> simp [Ty.beq]
    exact Ty.beqList_eq as _
  | .object fs, b => by
    cases b <;> simp [Ty.beq]
    exact Ty.beqFields_eq fs _
theorem Ty.beqList_eq : ∀ as bs : List Ty, Ty.beqList as bs = true → as = bs
  | [], bs => by cases bs <;> simp [Ty.beqList]
  | a :: as, bs => by
    cases bs with
    | nil => simp [Ty.beqList]
    | cons b bs =>
      simp only [Ty.beqList, Bool.and_eq_true, List.cons.injEq]
      exact fun h => ⟨Ty.beq_eq a b h.1, Ty.beqList_eq as bs h.2⟩
theorem Ty.beqFields_eq : ∀ as bs : List (String × Ty), Ty.beqFields as bs = true → as = bs
  | [], bs => by cases bs <;> simp [Ty.beqFields]
  | (k, a) :: as, bs => by
    cases bs with
    | nil => simp [Ty.beqFields]
    | cons b bs =>
      obtain ⟨l, b⟩ := b
      simp only [Ty.beqFields, Bool.and_eq_true, List.cons.injEq, Prod.mk.injEq, beq_iff_eq]
      exact fun h => ⟨⟨h.1.1, Ty.beq_eq a b h.1.2⟩, Ty.beqFields_eq as bs h.2⟩
end

instance : LawfulBEq Ty where
  rfl := Ty.beq_refl _
  eq_of_beq := Ty.beq_eq _ _

/-! ### flags -/

@[simp] theorem fl_unk (f : Fl) (t : Ty) : (Val.unk f t).fl = f := rfl
@[simp] theorem fl_null (f : Fl) (t : Ty) : (Val.null f t).fl = f := rfl
@[simp] theorem fl_str (f : Fl) (s : String) : (Val.str f s).fl = f := rfl
@[simp] theorem fl_num (f : Fl) (q : Rat) : (Val.num f q).fl = f := rfl
@[simp] theorem fl_bool (f : Fl) (b : Bool) : (Val.bool f b).fl = f := rfl
@[simp] theorem fl_list (f : Fl) (t : Ty) (xs : List Val) : (Val.list f t xs).fl = f := rfl
@[simp] theorem fl_map (f : Fl) (t : Ty) (xs : List (String × Val)) : (Val.map f t xs).fl = f := rfl
@[simp] theorem fl_tuple (f : Fl) (xs : List Val) : (Val.tuple f xs).fl = f := rfl
@[simp] theorem fl_object (f : Fl) (xs : List (String × Val)) : (Val.object f xs).fl = f := rfl
@[simp] theorem fl_dynVal : Val.dynVal.fl = Fl.none := rfl
@[simp] theorem fl_setFl (v : Val) (f : Fl) : (v.setFl f).fl = f := by cases v <;> rfl
@[simp] theorem setFl_setFl (v : Val) (f g : Fl) : (v.setFl f).setFl g = v.setFl g := by cases v <;> rfl
@[simp] theorem setFl_fl (v : Val) : v.setFl v.fl = v := by cases v <;> rfl
@[simp] theorem fl_withFl (v : Val) (f : Fl) : (v.withFl f).fl = v.fl.join f := by simp [withFl]
@[simp] theorem typeOf_setFl (v : Val) (f : Fl) : (v.setFl f).typeOf = v.typeOf := by
  cases v <;> simp [setFl, typeOf]
@[simp] theorem typeOf_withFl (v : Val) (f : Fl) : (v.withFl f).typeOf = v.typeOf := by simp [withFl]
@[simp] theorem isNull_setFl (v : Val) (f : Fl) : (v.setFl f).isNull = v.isNull := by cases v <;> rfl
@[simp] theorem isNull_withFl (v : Val) (f : Fl) : (v.withFl f).isNull = v.isNull := by simp [withFl]
@[simp] theorem isKnown_setFl (v : Val) (f : Fl) : (v.setFl f).isKnown = v.isKnown := by cases v <;> rfl
@[simp] theorem isKnown_withFl (v : Val) (f : Fl) : (v.withFl f).isKnown = v.isKnown := by simp [withFl]
@[simp] theorem unmark_fst (v : Val) : v.unmark.1 = v.setFl v.fl.unmark := rfl
@[simp] theorem unmark_snd (v : Val) : v.unmark.2 = v.fl := rfl
@[simp] theorem join_m (a b : Fl) : (a.join b).m = (a.m || b.m) := rfl
@[simp] theorem join_g (a b : Fl) : (a.join b).g = (a.g || b.g) := rfl
@[simp] theorem unmark_m (a : Fl) : a.unmark.m = false := rfl
@[simp] theorem none_m : Fl.none.m = false := rfl
@[simp] theorem join_none (a : Fl) : a.join Fl.none = a := by cases a; simp [Fl.join, Fl.none]
@[simp] theorem none_join (a : Fl) : Fl.none.join a = a := by cases a; simp [Fl.join, Fl.none]
theorem join_assoc (a b c : Fl) : (a.join b).join c = a.join (b.join c) := by
  simp [Fl.join, Bool.or_assoc]
@[simp] theorem withFl_withFl (v : Val) (f g : Fl) : (v.withFl f).withFl g = v.withFl (f.join g) := by
  simp [withFl, join_assoc]

/-! ### the content part of `relV` -/

/-- same constructor, equal content at the top, related children -/
def relC : Val → Val → Bool
  | .unk _ t, .unk _ u => t == u
  | .null _ t, .null _ u => t == u
  | .str _ s, .str _ s' => s == s'
  | .num _ q, .num _ q' => q == q'
  | .bool _ b, .bool _ b' => b == b'
  | .list _ t xs, .list _ u ys => t == u && relL xs ys
  | .tuple _ xs, .tuple _ ys => relL xs ys
  | .map _ t xs, .map _ u ys => t == u && relF xs ys
  | .object _ xs, .object _ ys => relF xs ys
  | _, _ => false

theorem relV_eq (a b : Val) : relV a b = ((a.fl.m && b.fl.m) || relC a b) := by
  cases a <;> cases b <;> simp [relV, relC, Val.fl]

theorem relV_top {a b : Val} (h : a.fl.m = true) (h' : b.fl.m = true) : relV a b = true := by
  simp [relV_eq, h, h']

theorem relV_of_relC {a b : Val} (h : relC a b = true) : relV a b = true := by
  simp [relV_eq, h]

theorem relV_cases {a b : Val} (h : relV a b = true) :
    (a.fl.m = true ∧ b.fl.m = true) ∨ relC a b = true := by
  simpa [relV_eq] using h

@[simp] theorem relC_setFl (a b : Val) (f g : Fl) : relC (a.setFl f) (b.setFl g) = relC a b := by
  cases a <;> cases b <;> simp [relC, setFl]

theorem relC_isKnown {a b : Val} (h : relC a b = true) : a.isKnown = b.isKnown := by
  cases a <;> cases b <;> simp_all [relC, isKnown]

theorem relC_isNull {a b : Val} (h : relC a b = true) : a.isNull = b.isNull := by
  cases a <;> cases b <;> simp_all [relC, isNull]

theorem relV_withFl {a b : Val} (h : relV a b = true) (f g : Fl) :
    relV (a.withFl f) (b.withFl g) = true := by
  rcases relV_cases h with ⟨h1, h2⟩ | h
  · apply relV_top <;> simp [h1, h2]
  · apply relV_of_relC; simp [withFl, h]

theorem relV_withFl_top (a b : Val) {f g : Fl} (hf : f.m = true) (hg : g.m = true) :
    relV (a.withFl f) (b.withFl g) = true := by
  apply relV_top <;> simp [hf, hg]

theorem relV_setFl {a b : Val} (h : relV a b = true) (f g : Fl)
    (hm : a.fl.m = true → b.fl.m = true → (f.m = true ∧ g.m = true)) :
    relV (a.setFl f) (b.setFl g) = true := by
  rcases relV_cases h with ⟨h1, h2⟩ | h
  · apply relV_top <;> simp [hm h1 h2]
  · apply relV_of_relC; simp [h]

/-! ### reflexivity -/

mutual
theorem relV_refl : ∀ a : Val, relV a a = true
  | .unk _ _ | .null _ _ | .str _ _ | .num _ _ | .bool _ _ => by simp [relV]
  | .list _ _ xs => by simp [relV, relL_refl xs]
  | .tuple _ xs => by simp [relV, relL_refl xs]
  | .map _ _ xs => by simp [relV, relF_refl xs]
  | .object _ xs => by simp [relV, relF_refl xs]
theorem relL_refl : ∀ xs : List Val, relL xs xs = true
  | [] => by simp [relL]
  | x :: xs => by simp [relL, relV_refl x, relL_refl xs]
theorem relF_refl : ∀ xs : List (String × Val), relF xs xs = true
  | [] => by simp [relF]
  | (k, x) :: xs => by simp [relF, relV_refl x, relF_refl xs]
end

theorem relC_refl (a : Val) : relC a a = true := by
  cases a <;> simp [relC, relL_refl, relF_refl]

/-! ### lists and fields -/

theorem relL_length : ∀ {xs ys : List Val}, relL xs ys = true → xs.length = ys.length
  | [], [], _ => rfl
  | [], _ :: _, h => by simp [relL] at h
  | _ :: _, [], h => by simp [relL] at h
  | _ :: xs, _ :: ys, h => by
    simp only [relL, Bool.and_eq_true] at h
    simp [relL_length h.2]

theorem relL_getElem? : ∀ {xs ys : List Val}, relL xs ys = true → ∀ i : Nat,
    (xs[i]? = none ∧ ys[i]? = none) ∨ ∃ x y, xs[i]? = some x ∧ ys[i]? = some y ∧ relV x y = true
  | [], [], _, i => by simp
  | [], _ :: _, h, _ => by simp [relL] at h
  | _ :: _, [], h, _ => by simp [relL] at h
  | x :: xs, y :: ys, h, i => by
    simp only [relL, Bool.and_eq_true] at h
    cases i with
    | zero => right; exact ⟨x, y, by simp, by simp, h.1⟩
    | succ i => simpa using relL_getElem? h.2 i

theorem relF_lookup : ∀ {xs ys : List (String × Val)}, relF xs ys = true → ∀ k,
    (lookupKey k xs = none ∧ lookupKey k ys = none) ∨
      ∃ x y, lookupKey k xs = some x ∧ lookupKey k ys = some y ∧ relV x y = true
  | [], [], _, k => by simp [lookupKey]
  | [], _ :: _, h, _ => by simp [relF] at h
  | _ :: _, [], h, _ => by simp [relF] at h
  | (k1, x) :: xs, (k2, y) :: ys, h, k => by
    simp only [relF, Bool.and_eq_true, beq_iff_eq] at h
    obtain ⟨⟨rfl, hxy⟩, hr⟩ := h
    simp only [lookupKey]
    by_cases hk : k = k1
    · right; exact ⟨x, y, by simp [hk], by simp [hk], hxy⟩
    · simpa [hk] using relF_lookup hr k

theorem relL_append : ∀ {xs ys xs' ys' : List Val}, relL xs ys = true → relL xs' ys' = true →
    relL (xs ++ xs') (ys ++ ys') = true
  | [], [], _, _, _, h => by simpa using h
  | [], _ :: _, _, _, h, _ => by simp [relL] at h
  | _ :: _, [], _, _, h, _ => by simp [relL] at h
  | x :: xs, y :: ys, _, _, h, h' => by
    simp only [relL, Bool.and_eq_true] at h
    simp [relL, h.1, relL_append h.2 h']

/-- the type of a value is not changed by the flags; for values related by content the types of primitives agree -/
theorem relF_typeOf_keys : ∀ {xs ys : List (String × Val)}, relF xs ys = true → ∀ k,
    (lookupKey k (typeOfFields xs)).isSome = (lookupKey k (typeOfFields ys)).isSome
  | [], [], _, k => by simp [typeOfFields, lookupKey]
  | [], _ :: _, h, _ => by simp [relF] at h
  | _ :: _, [], h, _ => by simp [relF] at h
  | (k1, x) :: xs, (k2, y) :: ys, h, k => by
    simp only [relF, Bool.and_eq_true, beq_iff_eq] at h
    obtain ⟨⟨rfl, _⟩, hr⟩ := h
    simp only [typeOfFields, lookupKey]
    by_cases hk : k = k1
    · simp [hk]
    · simpa [hk] using relF_typeOf_keys hr k

theorem lookup_typeOfFields : ∀ (xs : List (String × Val)) (k : String),
    lookupKey k (typeOfFields xs) = (lookupKey k xs).map typeOf
  | [], k => by simp [typeOfFields, lookupKey]
  | (k1, x) :: xs, k => by
    simp only [typeOfFields, lookupKey]
    by_cases hk : k = k1
    · simp [hk]
    · simpa [hk] using lookup_typeOfFields xs k

/-! ### related values that differ carry the mark -/

theorem hasMarkDeep_of_top {a : Val} (h : a.fl.m = true) : hasMarkDeep a = true := by
  cases a <;> simp_all [hasMarkDeep, Val.fl]

mutual
theorem rel_differ_markedV : ∀ (a b : Val), relV a b = true → eqErased a b = false →
    hasMarkDeep a = true ∧ hasMarkDeep b = true
  | .unk f t, b, h, hd => by
    cases b <;> simp_all [relV, eqErased, hasMarkDeep, Val.fl]
  | .null f t, b, h, hd => by
    cases b <;> simp_all [relV, eqErased, hasMarkDeep, Val.fl]
  | .str f t, b, h, hd => by
    cases b <;> simp_all [relV, eqErased, hasMarkDeep, Val.fl]
  | .num f t, b, h, hd => by
    cases b <;> simp_all [relV, eqErased, hasMarkDeep, Val.fl]
  | .bool f t, b, h, hd => by
    cases b <;> simp_all [relV, eqErased, hasMarkDeep, Val.fl]
  | .list f t xs, b, h, hd => by
    cases b with
    | list g u ys =>
      simp only [relV, Bool.or_eq_true, Bool.and_eq_true, beq_iff_eq] at h
      simp only [eqErased, Bool.and_eq_false_iff] at hd
      simp only [hasMarkDeep, Bool.or_eq_true]
      rcases h with h | ⟨rfl, h⟩
      · exact ⟨Or.inl h.1, Or.inl h.2⟩
      · have := rel_differ_markedL xs ys h (by simpa using hd)
        exact ⟨Or.inr this.1, Or.inr this.2⟩
    | _ => simp_all [relV, hasMarkDeep, Val.fl]
  | .tuple f xs, b, h, hd => by
    cases b with
    | tuple g ys =>
      simp only [relV, Bool.or_eq_true, Bool.and_eq_true] at h
      simp only [eqErased] at hd
      simp only [hasMarkDeep, Bool.or_eq_true]
      rcases h with h | h
      · exact ⟨Or.inl h.1, Or.inl h.2⟩
      · have := rel_differ_markedL xs ys h hd
        exact ⟨Or.inr this.1, Or.inr this.2⟩
    | _ => simp_all [relV, hasMarkDeep, Val.fl]
  | .map f t xs, b, h, hd => by
    cases b with
    | map g u ys =>
      simp only [relV, Bool.or_eq_true, Bool.and_eq_true, beq_iff_eq] at h
      simp only [eqErased, Bool.and_eq_false_iff] at hd
      simp only [hasMarkDeep, Bool.or_eq_true]
      rcases h with h | ⟨rfl, h⟩
      · exact ⟨Or.inl h.1, Or.inl h.2⟩
      · have := rel_differ_markedF xs ys h (by simpa using hd)
        exact ⟨Or.inr this.1, Or.inr this.2⟩
    | _ => simp_all [relV, hasMarkDeep, Val.fl]
  | .object f xs, b, h, hd => by
    cases b with
    | object g ys =>
      simp only [relV, Bool.or_eq_true, Bool.and_eq_true] at h
      simp only [eqErased] at hd
      simp only [hasMarkDeep, Bool.or_eq_true]
      rcases h with h | h
      · exact ⟨Or.inl h.1, Or.inl h.2⟩
      · have := rel_differ_markedF xs ys h hd
        exact ⟨Or.inr this.1, Or.inr this.2⟩
    | _ => simp_all [relV, hasMarkDeep, Val.fl]
theorem rel_differ_markedL : ∀ (xs ys : List Val), relL xs ys = true → eqErasedList xs ys = false →
    hasMarkDeepList xs = true ∧ hasMarkDeepList ys = true
  | [], [], _, hd => by simp [eqErasedList] at hd
  | [], _ :: _, h, _ => by simp [relL] at h
  | _ :: _, [], h, _ => by simp [relL] at h
  | x :: xs, y :: ys, h, hd => by
    simp only [relL, Bool.and_eq_true] at h
    simp only [eqErasedList, Bool.and_eq_false_iff] at hd
    simp only [hasMarkDeepList, Bool.or_eq_true]
    rcases hd with hd | hd
    · have := rel_differ_markedV x y h.1 hd
      exact ⟨Or.inl this.1, Or.inl this.2⟩
    · have := rel_differ_markedL xs ys h.2 hd
      exact ⟨Or.inr this.1, Or.inr this.2⟩
theorem rel_differ_markedF : ∀ (xs ys : List (String × Val)), relF xs ys = true → eqErasedFields xs ys = false →
    hasMarkDeepFields xs = true ∧ hasMarkDeepFields ys = true
  | [], [], _, hd => by simp [eqErasedFields] at hd
  | [], _ :: _, h, _ => by simp [relF] at h
  | _ :: _, [], h, _ => by simp [relF] at h
  | (k, x) :: xs, (l, y) :: ys, h, hd => by
    simp only [relF, Bool.and_eq_true, beq_iff_eq] at h
    simp only [eqErasedFields, Bool.and_eq_false_iff, beq_eq_false_iff_ne] at hd
    simp only [hasMarkDeepFields, Bool.or_eq_true]
    rcases hd with (hd | hd) | hd
    · exact absurd h.1.1 hd
    · have := rel_differ_markedV x y h.1.2 hd
      exact ⟨Or.inl this.1, Or.inl this.2⟩
    · have := rel_differ_markedF xs ys h.2 hd
      exact ⟨Or.inr this.1, Or.inr this.2⟩
end

theorem rel_differ_marked (a b : Val) (h : relV a b = true) (hd : Val.eqErased a b = false) :
    Val.hasMarkDeep a = true ∧ Val.hasMarkDeep b = true := rel_differ_markedV a b h hd

/-! ### erasure of all flags -/

mutual
/-- the value with every flag cleared -/
def er : Val → Val
  | .list _ t xs => .list Fl.none t (erL xs)
  | .tuple _ xs => .tuple Fl.none (erL xs)
  | .map _ t kvs => .map Fl.none t (erF kvs)
  | .object _ kvs => .object Fl.none (erF kvs)
  | .unk _ t => .unk Fl.none t
  | .null _ t => .null Fl.none t
  | .str _ s => .str Fl.none s
  | .num _ q => .num Fl.none q
  | .bool _ b => .bool Fl.none b
def erL : List Val → List Val
  | [] => []
  | x :: xs => er x :: erL xs
def erF : List (String × Val) → List (String × Val)
  | [] => []
  | (k, x) :: xs => (k, er x) :: erF xs
end

mutual
theorem er_eq_of_eqErased : ∀ (a b : Val), eqErased a b = true → er a = er b
  | .unk _ _, b, h | .null _ _, b, h | .str _ _, b, h | .num _ _, b, h | .bool _ _, b, h => by
    cases b <;> simp_all [eqErased, er]
  | .list _ t xs, b, h => by
    cases b <;> simp_all [eqErased, er]
    exact erL_eq_of_eqErased xs _ h.2
  | .tuple _ xs, b, h => by
    cases b <;> simp_all [eqErased, er]
    exact erL_eq_of_eqErased xs _ h
  | .map _ t xs, b, h => by
    cases b <;> simp_all [eqErased, er]
    exact erF_eq_of_eqErased xs _ h.2
  | .object _ xs, b, h => by
    cases b <;> simp_all [eqErased, er]
    exact erF_eq_of_eqErased xs _ h
theorem erL_eq_of_eqErased : ∀ (xs ys : List Val), eqErasedList xs ys = true → erL xs = erL ys
  | [], ys, h => by cases ys <;> simp_all [eqErasedList, erL]
  | x :: xs, ys, h => by
    cases ys with
    | nil => simp [eqErasedList] at h
    | cons y ys =>
      simp only [eqErasedList, Bool.and_eq_true] at h
      simp [erL, er_eq_of_eqErased x y h.1, erL_eq_of_eqErased xs ys h.2]
theorem erF_eq_of_eqErased : ∀ (xs ys : List (String × Val)), eqErasedFields xs ys = true → erF xs = erF ys
  | [], ys, h => by cases ys <;> simp_all [eqErasedFields, erF]
  | (k, x) :: xs, ys, h => by
    cases ys with
    | nil => simp [eqErasedFields] at h
    | cons y ys =>
      obtain ⟨l, y⟩ := y
      simp only [eqErasedFields, Bool.and_eq_true, beq_iff_eq] at h
      simp [erF, h.1.1, er_eq_of_eqErased x y h.1.2, erF_eq_of_eqErased xs ys h.2]
end

mutual
theorem eqErased_er_left : ∀ (a b : Val), eqErased (er a) b = eqErased a b
  | .unk _ _, b | .null _ _, b | .str _ _, b | .num _ _, b | .bool _ _, b => by
    cases b <;> simp [eqErased, er]
  | .list _ t xs, b => by cases b <;> simp [eqErased, er, eqErasedList_er_left xs]
  | .tuple _ xs, b => by cases b <;> simp [eqErased, er, eqErasedList_er_left xs]
  | .map _ t xs, b => by cases b <;> simp [eqErased, er, eqErasedFields_er_left xs]
  | .object _ xs, b => by cases b <;> simp [eqErased, er, eqErasedFields_er_left xs]
theorem eqErasedList_er_left : ∀ (xs ys : List Val), eqErasedList (erL xs) ys = eqErasedList xs ys
  | [], ys => by cases ys <;> simp [eqErasedList, erL]
  | x :: xs, ys => by
    cases ys <;> simp [eqErasedList, erL, eqErased_er_left x, eqErasedList_er_left xs]
theorem eqErasedFields_er_left : ∀ (xs ys : List (String × Val)), eqErasedFields (erF xs) ys = eqErasedFields xs ys
  | [], ys => by cases ys <;> simp [eqErasedFields, erF]
  | (k, x) :: xs, ys => by
    cases ys <;> simp [eqErasedFields, erF, eqErased_er_left x, eqErasedFields_er_left xs]
end

mutual
theorem eqErased_er_right : ∀ (a b : Val), eqErased a (er b) = eqErased a b
  | .unk _ _, b | .null _ _, b | .str _ _, b | .num _ _, b | .bool _ _, b => by
    cases b <;> simp [eqErased, er]
  | .list _ t xs, b => by cases b <;> simp [eqErased, er, eqErasedList_er_right xs]
  | .tuple _ xs, b => by cases b <;> simp [eqErased, er, eqErasedList_er_right xs]
  | .map _ t xs, b => by cases b <;> simp [eqErased, er, eqErasedFields_er_right xs]
  | .object _ xs, b => by cases b <;> simp [eqErased, er, eqErasedFields_er_right xs]
theorem eqErasedList_er_right : ∀ (xs ys : List Val), eqErasedList xs (erL ys) = eqErasedList xs ys
  | [], ys => by cases ys <;> simp [eqErasedList, erL]
  | x :: xs, ys => by
    cases ys <;> simp [eqErasedList, erL, eqErased_er_right x, eqErasedList_er_right xs]
theorem eqErasedFields_er_right : ∀ (xs ys : List (String × Val)), eqErasedFields xs (erF ys) = eqErasedFields xs ys
  | [], ys => by cases ys <;> simp [eqErasedFields, erF]
  | (k, x) :: xs, ys => by
    cases ys with
    | nil => simp [eqErasedFields, erF]
    | cons y ys =>
      obtain ⟨l, y⟩ := y
      simp [eqErasedFields, erF, eqErased_er_right x, eqErasedFields_er_right xs]
end

mutual
theorem typeOf_er : ∀ a : Val, typeOf (er a) = typeOf a
  | .unk _ _ | .null _ _ | .str _ _ | .num _ _ | .bool _ _ => by simp [er, typeOf]
  | .list _ _ _ | .map _ _ _ => by simp [er, typeOf]
  | .tuple _ xs => by simp [er, typeOf, typeOfList_er xs]
  | .object _ xs => by simp [er, typeOf, typeOfFields_er xs]
theorem typeOfList_er : ∀ xs : List Val, typeOfList (erL xs) = typeOfList xs
  | [] => by simp [erL, typeOfList]
  | x :: xs => by simp [erL, typeOfList, typeOf_er x, typeOfList_er xs]
theorem typeOfFields_er : ∀ xs : List (String × Val), typeOfFields (erF xs) = typeOfFields xs
  | [] => by simp [erF, typeOfFields]
  | (k, x) :: xs => by simp [erF, typeOfFields, typeOf_er x, typeOfFields_er xs]
end

mutual
theorem whollyKnown_er : ∀ a : Val, whollyKnown (er a) = whollyKnown a
  | .unk _ _ | .null _ _ | .str _ _ | .num _ _ | .bool _ _ => by simp [er, whollyKnown]
  | .list _ _ xs => by simp [er, whollyKnown, whollyKnownList_er xs]
  | .tuple _ xs => by simp [er, whollyKnown, whollyKnownList_er xs]
  | .map _ _ xs => by simp [er, whollyKnown, whollyKnownFields_er xs]
  | .object _ xs => by simp [er, whollyKnown, whollyKnownFields_er xs]
theorem whollyKnownList_er : ∀ xs : List Val, whollyKnownList (erL xs) = whollyKnownList xs
  | [] => by simp [erL, whollyKnownList]
  | x :: xs => by simp [erL, whollyKnownList, whollyKnown_er x, whollyKnownList_er xs]
theorem whollyKnownFields_er : ∀ xs : List (String × Val), whollyKnownFields (erF xs) = whollyKnownFields xs
  | [] => by simp [erF, whollyKnownFields]
  | (k, x) :: xs => by simp [erF, whollyKnownFields, whollyKnown_er x, whollyKnownFields_er xs]
end

@[simp] theorem isNull_er (a : Val) : (er a).isNull = a.isNull := by cases a <;> simp [er, isNull]
@[simp] theorem isKnown_er (a : Val) : (er a).isKnown = a.isKnown := by cases a <;> simp [er, isKnown]

mutual
theorem er_unmarkDeep : ∀ a : Val, er (unmarkDeep a) = er a
  | .unk _ _ | .null _ _ | .str _ _ | .num _ _ | .bool _ _ => by simp [er, unmarkDeep, setFl]
  | .list _ _ xs => by simp [er, unmarkDeep, erL_unmarkDeep xs]
  | .tuple _ xs => by simp [er, unmarkDeep, erL_unmarkDeep xs]
  | .map _ _ xs => by simp [er, unmarkDeep, erF_unmarkDeep xs]
  | .object _ xs => by simp [er, unmarkDeep, erF_unmarkDeep xs]
theorem erL_unmarkDeep : ∀ xs : List Val, erL (unmarkDeepList xs) = erL xs
  | [] => by simp [erL, unmarkDeepList]
  | x :: xs => by simp [erL, unmarkDeepList, er_unmarkDeep x, erL_unmarkDeep xs]
theorem erF_unmarkDeep : ∀ xs : List (String × Val), erF (unmarkDeepFields xs) = erF xs
  | [] => by simp [erF, unmarkDeepFields]
  | (k, x) :: xs => by simp [erF, unmarkDeepFields, er_unmarkDeep x, erF_unmarkDeep xs]
end

theorem er_setFl (a : Val) (f : Fl) : er (a.setFl f) = er a := by cases a <;> simp [er, setFl]
theorem er_withFl (a : Val) (f : Fl) : er (a.withFl f) = er a := er_setFl _ _

theorem eqErased_eq_er (a b : Val) : eqErased a b = eqErased (er a) (er b) := by
  rw [eqErased_er_left, eqErased_er_right]

theorem eqErased_unmarkDeep (a b : Val) : eqErased (unmarkDeep a) (unmarkDeep b) = eqErased a b := by
  rw [eqErased_eq_er, er_unmarkDeep, er_unmarkDeep, ← eqErased_eq_er]

mutual
theorem hasMarkDeep_eq : ∀ a : Val, hasMarkDeep a = (flagsDeep a).m
  | .unk _ _ | .null _ _ | .str _ _ | .num _ _ | .bool _ _ => by simp [hasMarkDeep, flagsDeep]
  | .list _ _ xs => by simp [hasMarkDeep, flagsDeep, hasMarkDeepList_eq xs]
  | .tuple _ xs => by simp [hasMarkDeep, flagsDeep, hasMarkDeepList_eq xs]
  | .map _ _ xs => by simp [hasMarkDeep, flagsDeep, hasMarkDeepFields_eq xs]
  | .object _ xs => by simp [hasMarkDeep, flagsDeep, hasMarkDeepFields_eq xs]
theorem hasMarkDeepList_eq : ∀ xs : List Val, hasMarkDeepList xs = (flagsDeepList xs).m
  | [] => by simp [hasMarkDeepList, flagsDeepList]
  | x :: xs => by simp [hasMarkDeepList, flagsDeepList, hasMarkDeep_eq x, hasMarkDeepList_eq xs]
theorem hasMarkDeepFields_eq : ∀ xs : List (String × Val), hasMarkDeepFields xs = (flagsDeepFields xs).m
  | [] => by simp [hasMarkDeepFields, flagsDeepFields]
  | (k, x) :: xs => by simp [hasMarkDeepFields, flagsDeepFields, hasMarkDeep_eq x, hasMarkDeepFields_eq xs]
end

theorem flagsDeep_top (a : Val) (h : a.fl.m = true) : (flagsDeep a).m = true := by
  rw [← hasMarkDeep_eq]; exact hasMarkDeep_of_top h

end HclModel.Proofs
