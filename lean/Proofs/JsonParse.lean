import HclModel.Json.Grammar
/-!
Parser-only lemmas for C13: one-step characterisation of `parseValue`/`parseElems`/`parseMembers` as
inductive relations, fuel monotonicity, and sufficiency of `toks.length` fuel.
-/
namespace HclModel.Json.Proofs
open HclModel.Json

/-! ### one-step characterisation of the parser functions -/

/-- the possible ways `parseValue (f+1)` succeeds -/
inductive PV (f : Nat) : List Token → Node → List Token → Prop
  | emptyObj (t c : Token) (rest : List Token) : t.ty = .braceO → c.ty = .braceC → PV f (t :: c :: rest) (.obj []) rest
  | obj (t c : Token) (rest ts : List Token) (ms) : t.ty = .braceO → c.ty ≠ .braceC →
      parseMembers f (c :: rest) = some (ms, ts) → PV f (t :: c :: rest) (.obj ms) ts
  | emptyArr (t c : Token) (rest : List Token) : t.ty = .brackO → c.ty = .brackC → PV f (t :: c :: rest) (.arr []) rest
  | arr (t c : Token) (rest ts : List Token) (ns) : t.ty = .brackO → c.ty ≠ .brackC →
      parseElems f (c :: rest) = some (ns, ts) → PV f (t :: c :: rest) (.arr ns) ts
  | num (t : Token) (rest : List Token) (m e : Int) : t.ty = .number → parseNumberBytes t.bytes = some (m, e) →
      PV f (t :: rest) (.num m e) rest
  | str (t : Token) (rest : List Token) (d : List Byte) : t.ty = .string → parseStringBytes t.bytes = some d →
      PV f (t :: rest) (.str d) rest
  | ktrue (t : Token) (rest : List Token) : t.ty = .keyword → t.bytes = kwTrue → PV f (t :: rest) (.bool true) rest
  | kfalse (t : Token) (rest : List Token) : t.ty = .keyword → t.bytes = kwFalse → PV f (t :: rest) (.bool false) rest
  | knull (t : Token) (rest : List Token) : t.ty = .keyword → t.bytes = kwNull → PV f (t :: rest) .null rest

theorem parseValue_iff (f : Nat) (toks : List Token) (n : Node) (ts : List Token) :
    parseValue (f+1) toks = some (n, ts) ↔ PV f toks n ts := by
  constructor
  · intro h
    unfold parseValue at h
    split at h
    · cases h
    · rename_i t rest
      split at h
      · rename_i hty
        split at h
        · rename_i c rest'
          split at h
          · rename_i hc
            cases h
            exact PV.emptyObj _ _ _ (by assumption) (by assumption)
          · rename_i hc
            simp at h
            obtain ⟨a, hm, rfl⟩ := h
            exact PV.obj _ _ _ _ _ (by assumption) (by assumption) hm
        · cases h
      · rename_i hty
        split at h
        · rename_i c rest'
          split at h
          · rename_i hc
            cases h
            exact PV.emptyArr _ _ _ (by assumption) (by assumption)
          · rename_i hc
            simp at h
            obtain ⟨a, hm, rfl⟩ := h
            exact PV.arr _ _ _ _ _ (by assumption) (by assumption) hm
        · cases h
      · rename_i hty
        simp at h
        obtain ⟨a, b, hm, rfl, rfl⟩ := h
        exact PV.num _ _ _ _ (by assumption) hm
      · rename_i hty
        simp at h
        obtain ⟨a, hm, rfl, rfl⟩ := h
        exact PV.str _ _ _ (by assumption) hm
      · rename_i hty
        split at h
        · rename_i hb; cases h; exact PV.ktrue _ _ (by assumption) (by assumption)
        · split at h
          · rename_i hb; cases h; exact PV.kfalse _ _ (by assumption) (by assumption)
          · split at h
            · rename_i hb; cases h; exact PV.knull _ _ (by assumption) (by assumption)
            · cases h
      · cases h
  · intro h
    unfold parseValue
    cases h <;> simp_all [kwTrue, kwFalse, kwNull]

/-- the possible ways `parseElems (f+1)` succeeds -/
inductive PE (f : Nat) : List Token → List Node → List Token → Prop
  | one (toks : List Token) (v : Node) (sep : Token) (rest : List Token) :
      parseValue f toks = some (v, sep :: rest) → sep.ty = .brackC → PE f toks [v] rest
  | cons (toks : List Token) (v : Node) (sep : Token) (rest ts : List Token) (ns : List Node) :
      parseValue f toks = some (v, sep :: rest) → sep.ty = .comma →
      parseElems f rest = some (ns, ts) → PE f toks (v :: ns) ts

theorem parseElems_iff (f : Nat) (toks : List Token) (ns : List Node) (ts : List Token) :
    parseElems (f+1) toks = some (ns, ts) ↔ PE f toks ns ts := by
  constructor
  · intro h
    unfold parseElems at h
    split at h
    · cases h
    · rename_i v rest' hv
      split at h
      · rename_i sep rest''
        split at h
        · rename_i hc; cases h; exact PE.one _ _ _ _ (by assumption) (by assumption)
        · split at h
          · rename_i hc
            simp at h
            obtain ⟨a, hm, rfl⟩ := h
            exact PE.cons _ _ _ _ _ _ (by assumption) (by assumption) hm
          · cases h
      · cases h
  · intro h
    unfold parseElems
    cases h <;> simp_all

/-- the possible ways `parseMembers (f+1)` succeeds -/
inductive PM (f : Nat) : List Token → List (List Byte × Node) → List Token → Prop
  | one (k colon : Token) (toks : List Token) (name : List Byte) (v : Node) (sep : Token) (rest : List Token) :
      k.ty = .string → colon.ty = .colon → parseStringBytes k.bytes = some name →
      parseValue f toks = some (v, sep :: rest) → sep.ty = .braceC → PM f (k :: colon :: toks) [(name, v)] rest
  | cons (k colon : Token) (toks : List Token) (name : List Byte) (v : Node) (sep : Token) (rest ts : List Token)
      (ms : List (List Byte × Node)) :
      k.ty = .string → colon.ty = .colon → parseStringBytes k.bytes = some name →
      parseValue f toks = some (v, sep :: rest) → sep.ty = .comma →
      parseMembers f rest = some (ms, ts) → PM f (k :: colon :: toks) ((name, v) :: ms) ts

theorem parseMembers_iff (f : Nat) (toks : List Token) (ms : List (List Byte × Node)) (ts : List Token) :
    parseMembers (f+1) toks = some (ms, ts) ↔ PM f toks ms ts := by
  constructor
  · intro h
    unfold parseMembers at h
    split at h
    · rename_i k colon rest
      split at h
      · rename_i hkc
        split at h
        · cases h
        · rename_i name hname
          split at h
          · cases h
          · rename_i v rest' hv
            split at h
            · rename_i sep rest''
              split at h
              · rename_i hc; cases h; exact PM.one _ _ _ _ _ _ _ hkc.1 hkc.2 (by assumption) (by assumption) (by assumption)
              · split at h
                · rename_i hc
                  simp at h
                  obtain ⟨a, hm, rfl⟩ := h
                  exact PM.cons _ _ _ _ _ _ _ _ _ hkc.1 hkc.2 (by assumption) (by assumption) (by assumption) hm
                · cases h
            · cases h
      · cases h
    · cases h
  · intro h
    unfold parseMembers
    cases h <;> simp_all


/-! ### fuel: monotonicity and sufficiency of `toks.length` -/

theorem parseValue_zero (toks : List Token) : parseValue 0 toks = none := by unfold parseValue; rfl
theorem parseElems_zero (toks : List Token) : parseElems 0 toks = none := by unfold parseElems; rfl
theorem parseMembers_zero (toks : List Token) : parseMembers 0 toks = none := by unfold parseMembers; rfl

theorem parse_mono : ∀ f,
    (∀ toks n ts, parseValue f toks = some (n, ts) → parseValue (f+1) toks = some (n, ts)) ∧
    (∀ toks n ts, parseElems f toks = some (n, ts) → parseElems (f+1) toks = some (n, ts)) ∧
    (∀ toks n ts, parseMembers f toks = some (n, ts) → parseMembers (f+1) toks = some (n, ts)) := by
  intro f
  induction f with
  | zero => simp [parseValue_zero, parseElems_zero, parseMembers_zero]
  | succ f ih =>
    obtain ⟨ihv, ihe, ihm⟩ := ih
    refine ⟨?_, ?_, ?_⟩
    · intro toks n ts h
      rw [parseValue_iff] at h ⊢
      cases h
      case emptyObj h1 h2 => exact PV.emptyObj _ _ _ h1 h2
      case obj h1 h2 h3 => exact PV.obj _ _ _ _ _ h1 h2 (ihm _ _ _ h3)
      case emptyArr h1 h2 => exact PV.emptyArr _ _ _ h1 h2
      case arr h1 h2 h3 => exact PV.arr _ _ _ _ _ h1 h2 (ihe _ _ _ h3)
      case num h1 h2 => exact PV.num _ _ _ _ h1 h2
      case str h1 h2 => exact PV.str _ _ _ h1 h2
      case ktrue h1 h2 => exact PV.ktrue _ _ h1 h2
      case kfalse h1 h2 => exact PV.kfalse _ _ h1 h2
      case knull h1 h2 => exact PV.knull _ _ h1 h2
    · intro toks n ts h
      rw [parseElems_iff] at h ⊢
      cases h
      case one h2 h1 => exact PE.one _ _ _ _ (ihv _ _ _ h1) h2
      case cons h1 h2 h3 => exact PE.cons _ _ _ _ _ _ (ihv _ _ _ h1) h2 (ihe _ _ _ h3)
    · intro toks n ts h
      rw [parseMembers_iff] at h ⊢
      cases h
      case one h1 h2 h3 h5 h4 => exact PM.one _ _ _ _ _ _ _ h1 h2 h3 (ihv _ _ _ h4) h5
      case cons h1 h2 h3 h4 h5 h6 =>
        exact PM.cons _ _ _ _ _ _ _ _ _ h1 h2 h3 (ihv _ _ _ h4) h5 (ihm _ _ _ h6)

theorem parseValue_mono {f f' : Nat} (hle : f ≤ f') {toks n ts} (h : parseValue f toks = some (n, ts)) :
    parseValue f' toks = some (n, ts) := by
  induction hle with
  | refl => exact h
  | step _ ih => exact (parse_mono _).1 _ _ _ ih

theorem parseElems_mono {f f' : Nat} (hle : f ≤ f') {toks n ts} (h : parseElems f toks = some (n, ts)) :
    parseElems f' toks = some (n, ts) := by
  induction hle with
  | refl => exact h
  | step _ ih => exact (parse_mono _).2.1 _ _ _ ih

theorem parseMembers_mono {f f' : Nat} (hle : f ≤ f') {toks n ts} (h : parseMembers f toks = some (n, ts)) :
    parseMembers f' toks = some (n, ts) := by
  induction hle with
  | refl => exact h
  | step _ ih => exact (parse_mono _).2.2 _ _ _ ih

theorem parse_suff : ∀ f,
    (∀ toks n ts, parseValue f toks = some (n, ts) → ts.length < toks.length ∧
      ∀ f', toks.length - ts.length ≤ f' → parseValue f' toks = some (n, ts)) ∧
    (∀ toks n ts, parseElems f toks = some (n, ts) → ts.length + 1 < toks.length ∧
      ∀ f', toks.length - ts.length ≤ f' → parseElems f' toks = some (n, ts)) ∧
    (∀ toks n ts, parseMembers f toks = some (n, ts) → ts.length + 1 < toks.length ∧
      ∀ f', toks.length - ts.length ≤ f' → parseMembers f' toks = some (n, ts)) := by
  intro f
  induction f with
  | zero => simp [parseValue_zero, parseElems_zero, parseMembers_zero]
  | succ f ih =>
    obtain ⟨ihv, ihe, ihm⟩ := ih
    refine ⟨?_, ?_, ?_⟩
    · intro toks n ts h
      rw [parseValue_iff] at h
      cases h
      case emptyObj h1 h2 =>
        refine ⟨by simp only [List.length_cons]; omega, fun f' hf' => ?_⟩
        cases f' with
        | zero => simp only [List.length_cons] at hf'; omega
        | succ f' => rw [parseValue_iff]; exact PV.emptyObj _ _ _ h1 h2
      case obj h1 h2 h3 =>
        obtain ⟨hl, hf⟩ := ihm _ _ _ h3
        simp only [List.length_cons] at hl
        refine ⟨by simp only [List.length_cons]; omega, fun f' hf' => ?_⟩
        simp only [List.length_cons] at hf'
        cases f' with
        | zero => omega
        | succ f' =>
          rw [parseValue_iff]
          exact PV.obj _ _ _ _ _ h1 h2 (hf f' (by simp only [List.length_cons]; omega))
      case emptyArr h1 h2 =>
        refine ⟨by simp only [List.length_cons]; omega, fun f' hf' => ?_⟩
        cases f' with
        | zero => simp only [List.length_cons] at hf'; omega
        | succ f' => rw [parseValue_iff]; exact PV.emptyArr _ _ _ h1 h2
      case arr h1 h2 h3 =>
        obtain ⟨hl, hf⟩ := ihe _ _ _ h3
        simp only [List.length_cons] at hl
        refine ⟨by simp only [List.length_cons]; omega, fun f' hf' => ?_⟩
        simp only [List.length_cons] at hf'
        cases f' with
        | zero => omega
        | succ f' =>
          rw [parseValue_iff]
          exact PV.arr _ _ _ _ _ h1 h2 (hf f' (by simp only [List.length_cons]; omega))
      case num h1 h2 =>
        refine ⟨by simp only [List.length_cons]; omega, fun f' hf' => ?_⟩
        cases f' with
        | zero => simp only [List.length_cons] at hf'; omega
        | succ f' => rw [parseValue_iff]; exact PV.num _ _ _ _ h1 h2
      case str h1 h2 =>
        refine ⟨by simp only [List.length_cons]; omega, fun f' hf' => ?_⟩
        cases f' with
        | zero => simp only [List.length_cons] at hf'; omega
        | succ f' => rw [parseValue_iff]; exact PV.str _ _ _ h1 h2
      case ktrue h1 h2 =>
        refine ⟨by simp only [List.length_cons]; omega, fun f' hf' => ?_⟩
        cases f' with
        | zero => simp only [List.length_cons] at hf'; omega
        | succ f' => rw [parseValue_iff]; exact PV.ktrue _ _ h1 h2
      case kfalse h1 h2 =>
        refine ⟨by simp only [List.length_cons]; omega, fun f' hf' => ?_⟩
        cases f' with
        | zero => simp only [List.length_cons] at hf'; omega
        | succ f' => rw [parseValue_iff]; exact PV.kfalse _ _ h1 h2
      case knull h1 h2 =>
        refine ⟨by simp only [List.length_cons]; omega, fun f' hf' => ?_⟩
        cases f' with
        | zero => simp only [List.length_cons] at hf'; omega
        | succ f' => rw [parseValue_iff]; exact PV.knull _ _ h1 h2
    · intro toks n ts h
      rw [parseElems_iff] at h
      cases h
      case one h2 h1 =>
        obtain ⟨hl, hf⟩ := ihv _ _ _ h1
        simp only [List.length_cons] at hl hf
        refine ⟨by omega, fun f' hf' => ?_⟩
        cases f' with
        | zero => omega
        | succ f' => rw [parseElems_iff]; exact PE.one _ _ _ _ (hf f' (by omega)) h2
      case cons h1 h2 h3 =>
        obtain ⟨hl, hf⟩ := ihv _ _ _ h1
        obtain ⟨hl2, hf2⟩ := ihe _ _ _ h3
        simp only [List.length_cons] at hl hf
        refine ⟨by omega, fun f' hf' => ?_⟩
        cases f' with
        | zero => omega
        | succ f' => rw [parseElems_iff]; exact PE.cons _ _ _ _ _ _ (hf f' (by omega)) h2 (hf2 f' (by omega))
    · intro toks n ts h
      rw [parseMembers_iff] at h
      cases h
      case one h1 h2 h3 h5 h4 =>
        obtain ⟨hl, hf⟩ := ihv _ _ _ h4
        simp only [List.length_cons] at hl hf ⊢
        refine ⟨by omega, fun f' hf' => ?_⟩
        cases f' with
        | zero => omega
        | succ f' => rw [parseMembers_iff]; exact PM.one _ _ _ _ _ _ _ h1 h2 h3 (hf f' (by omega)) h5
      case cons h1 h2 h3 h4 h5 h6 =>
        obtain ⟨hl, hf⟩ := ihv _ _ _ h4
        obtain ⟨hl2, hf2⟩ := ihm _ _ _ h6
        simp only [List.length_cons] at hl hf ⊢
        refine ⟨by omega, fun f' hf' => ?_⟩
        cases f' with
        | zero => omega
        | succ f' =>
          rw [parseMembers_iff]
          exact PM.cons _ _ _ _ _ _ _ _ _ h1 h2 h3 (hf f' (by omega)) h5 (hf2 f' (by omega))

theorem parseValue_suff {f : Nat} {toks n ts} (h : parseValue f toks = some (n, ts)) :
    parseValue (toks.length + 1) toks = some (n, ts) :=
  ((parse_suff f).1 _ _ _ h).2 _ (by omega)

end HclModel.Json.Proofs
