import Proofs.TaintEnv
/-!
C19: the induction over expressions.
-/
set_option linter.unusedSimpArgs false
set_option linter.unusedVariables false
set_option linter.unusedTactic false
namespace HclModel.Proofs
open Val

/-! ### values: the `for` and splat cases, with the sub-evaluations as hypotheses -/

theorem forTuple_tw (C : Cx) (ρ : Env) (L : List String) (kv vv : String) (coll val : Expr) (cond : Option Expr)
    (hρ : envOK L ρ) (ihc : tw false (eval C ρ coll).1 = true)
    (ihv : ∀ ρ', envOK (dropIter kv vv L) ρ' → tw false (eval C ρ' val).1 = true)
    (ihce : ∀ ce, cond = some ce → ∀ ρ', envOK (dropIter kv vv L) ρ' → tw false (eval C ρ' ce).1 = true) :
    tw false (eval C ρ (.forTuple kv vv coll val cond)).1 = true := by
  rw [eval_forTuple]
  apply forOut_tw _ _ _ _ ihc
  · intro po hpo
    cases cond with
    | none => cases hpo
    | some ce =>
      simp only [Option.map_some, Option.some.injEq] at hpo
      subst hpo
      exact ihce ce rfl _ (envOK_bindIter_clean kv vv hρ (tw_dynVal _) (tw_dynVal _))
  · intro els hels st p hp hinv
    apply forTupleStep_VInv _ _ _ hinv
    cases hm : (eval C ρ coll).1.fl.m
    · right
      have hel := elements_tw ihc hm hels p hp
      have hρ' := envOK_bindIter_clean kv vv hρ hel.1 hel.2
      refine ⟨ihv _ hρ', ?_⟩
      intro c hc
      cases cond with
      | none => cases hc
      | some ce =>
        simp only [Option.map_some, Option.some.injEq] at hc
        subst hc
        exact ihce ce rfl _ hρ'
    · left; rfl
  · intro st h; exact forTupleFin_tw h

theorem forObject_tw (C : Cx) (ρ : Env) (L : List String) (kv vv : String) (coll key val : Expr)
    (cond : Option Expr) (g : Bool)
    (hρ : envOK L ρ) (ihc : tw false (eval C ρ coll).1 = true)
    (ihk : ∀ ρ', envOK (dropIter kv vv L) ρ' → tw false (eval C ρ' key).1 = true)
    (ihv : ∀ ρ', envOK (dropIter kv vv L) ρ' → tw false (eval C ρ' val).1 = true)
    (ihce : ∀ ce, cond = some ce → ∀ ρ', envOK (dropIter kv vv L) ρ' → tw false (eval C ρ' ce).1 = true) :
    tw false (eval C ρ (.forObject kv vv coll key val cond g)).1 = true := by
  rw [eval_forObject]
  apply forOut_tw _ _ _ _ ihc
  · intro po hpo
    cases cond with
    | none => cases hpo
    | some ce =>
      simp only [Option.map_some, Option.some.injEq] at hpo
      subst hpo
      exact ihce ce rfl _ (envOK_bindIter_clean kv vv hρ (tw_dynVal _) (tw_dynVal _))
  · intro els hels st p hp hinv
    apply forObjectStep_VInv _ _ _ _ _ hinv
    cases hm : (eval C ρ coll).1.fl.m
    · right
      have hel := elements_tw ihc hm hels p hp
      have hρ' := envOK_bindIter_clean kv vv hρ hel.1 hel.2
      refine ⟨ihk _ hρ', ihv _ hρ', ?_⟩
      intro c hc
      cases cond with
      | none => cases hc
      | some ce =>
        simp only [Option.map_some, Option.some.injEq] at hc
        subst hc
        exact ihce ce rfl _ hρ'
    · left; rfl
  · intro st h; exact forObjectFin_tw g h

theorem splat_tw (C : Cx) (ρ : Env) (L : List String) (anon : String) (src each : Expr)
    (hρ : envOK L ρ) (ihs : tw false (eval C ρ src).1 = true)
    (ihe : ∀ ρ', envOK (L.filter (· != anon)) ρ' → tw false (eval C ρ' each).1 = true) :
    tw false (eval C ρ (.splat anon src each)).1 = true := by
  rw [eval_splat]
  apply splatOut_tw _ _ _ ihs
  cases hm : (eval C ρ src).1.fl.m
  · right
    intro it hit
    apply ihe
    apply envOK_cons_clean anon hρ
    have h2 := splatSrc_tw ihs
    have h3 := splatItems_tw (tw_unmark h2) it hit
    rw [splatSrc_fl, hm] at h3
    simpa using h3
  · left; rfl

/-! ### values: the induction -/

mutual
theorem vsound (C : Cx) (hF : TaintFuncs C.funcs) : ∀ (e : Expr) (L : List String) (ρ : Env), envOK L ρ →
    vclean L e = true → tw false (eval C ρ e).1 = true
  | .lit v, L, ρ, hρ, h => by
    rw [eval_lit]; simpa [vclean] using h
  | .var x, L, ρ, hρ, h => by
    rw [eval_var]
    split
    · rename_i v hv
      exact hρ x v hv (by simpa [vclean] using h)
    · exact tw_dynVal _
  | .getAttr e name, L, ρ, hρ, h => by
    rw [eval_getAttr]
    exact getAttrOut_tw _ _ (vsound C hF e L ρ hρ (by simpa [vclean] using h))
  | .index e k, L, ρ, hρ, h => by
    simp only [vclean, Bool.and_eq_true] at h
    rw [eval_index]
    exact indexOut_tw _ _ _ (vsound C hF e L ρ hρ h.1) (vsound C hF k L ρ hρ h.2)
  | .bin op l r, L, ρ, hρ, h => by
    simp only [vclean, Bool.and_eq_true] at h
    rw [eval_bin]
    exact evalBin_tw _ _ _ _ (vsound C hF l L ρ hρ h.1) (vsound C hF r L ρ hρ h.2)
  | .un op e, L, ρ, hρ, h => by
    rw [eval_un]
    exact evalUn_tw _ _ (vsound C hF e L ρ hρ (by simpa [vclean] using h))
  | .cond c t f, L, ρ, hρ, h => by
    simp only [vclean, Bool.and_eq_true] at h
    rw [eval_cond]
    exact evalCond_tw _ _ _ _ (vsound C hF c L ρ hρ h.1.1) (vsound C hF t L ρ hρ h.1.2) (vsound C hF f L ρ hρ h.2)
  | .tuple es, L, ρ, hρ, h => by
    rw [eval_tuple]
    exact tw_tuple_none (Or.inr (vsoundList C hF es L ρ hρ (by simpa [vclean] using h)))
  | .object items, L, ρ, hρ, h => by
    rw [eval_object]
    exact objectOut_tw (vsoundItems C hF items L ρ hρ (by simpa [vclean] using h))
  | .forTuple kv vv coll val none, L, ρ, hρ, h => by
    simp only [vclean, Bool.and_eq_true, Bool.and_true] at h
    exact forTuple_tw C ρ L kv vv coll val none hρ (vsound C hF coll L ρ hρ h.1)
      (fun ρ' hρ' => vsound C hF val _ ρ' hρ' h.2) (fun ce hce => by cases hce)
  | .forTuple kv vv coll val (some ce), L, ρ, hρ, h => by
    simp only [vclean, Bool.and_eq_true] at h
    exact forTuple_tw C ρ L kv vv coll val (some ce) hρ (vsound C hF coll L ρ hρ h.1.1)
      (fun ρ' hρ' => vsound C hF val _ ρ' hρ' h.1.2)
      (fun ce' hce ρ' hρ' => by cases hce; exact vsound C hF ce _ ρ' hρ' h.2)
  | .forObject kv vv coll key val none g, L, ρ, hρ, h => by
    simp only [vclean, Bool.and_eq_true, Bool.and_true] at h
    exact forObject_tw C ρ L kv vv coll key val none g hρ (vsound C hF coll L ρ hρ h.1.1)
      (fun ρ' hρ' => vsound C hF key _ ρ' hρ' h.1.2)
      (fun ρ' hρ' => vsound C hF val _ ρ' hρ' h.2) (fun ce hce => by cases hce)
  | .forObject kv vv coll key val (some ce) g, L, ρ, hρ, h => by
    simp only [vclean, Bool.and_eq_true] at h
    exact forObject_tw C ρ L kv vv coll key val (some ce) g hρ (vsound C hF coll L ρ hρ h.1.1.1)
      (fun ρ' hρ' => vsound C hF key _ ρ' hρ' h.1.1.2)
      (fun ρ' hρ' => vsound C hF val _ ρ' hρ' h.1.2)
      (fun ce' hce ρ' hρ' => by cases hce; exact vsound C hF ce _ ρ' hρ' h.2)
  | .splat anon src each, L, ρ, hρ, h => by
    simp only [vclean, Bool.and_eq_true] at h
    exact splat_tw C ρ L anon src each hρ (vsound C hF src L ρ hρ h.1)
      (fun ρ' hρ' => vsound C hF each _ ρ' hρ' h.2)
  | .template parts, L, ρ, hρ, h => by
    rw [eval_template]
    exact template_tw _ (vsoundEach C hF parts L ρ hρ (by simpa [vclean] using h))
  | .tjoin t, L, ρ, hρ, h => by
    rw [eval_tjoin]
    exact tjoinOut_tw _ (vsound C hF t L ρ hρ (by simpa [vclean] using h))
  | .call fn args none, L, ρ, hρ, h => by
    simp only [vclean, Bool.and_eq_true, Bool.and_true] at h
    rw [eval_call]
    split
    · exact tw_dynVal _
    · rename_i spec hs
      exact callOut_tw spec _ _ (by intro a ha; cases ha) (vsoundEach C hF args L ρ hρ h) (hF fn spec hs)
  | .call fn args (some ex), L, ρ, hρ, h => by
    simp only [vclean, Bool.and_eq_true] at h
    rw [eval_call]
    split
    · exact tw_dynVal _
    · rename_i spec hs
      exact callOut_tw spec _ _ (expandOut_tw _ (vsound C hF ex L ρ hρ h.2)) (vsoundEach C hF args L ρ hρ h.1)
        (hF fn spec hs)
theorem vsoundList (C : Cx) (hF : TaintFuncs C.funcs) : ∀ (es : List Expr) (L : List String) (ρ : Env), envOK L ρ →
    vcleanList L es = true → ∀ v ∈ (evalList C ρ es).1, tw false v = true
  | [], L, ρ, hρ, h => by simp [evalList]
  | e :: es, L, ρ, hρ, h => by
    simp only [vcleanList, Bool.and_eq_true] at h
    rw [evalList_cons]
    intro v hv
    rcases List.mem_cons.mp hv with rfl | hv
    · exact vsound C hF e L ρ hρ h.1
    · exact vsoundList C hF es L ρ hρ h.2 v hv
theorem vsoundEach (C : Cx) (hF : TaintFuncs C.funcs) : ∀ (es : List Expr) (L : List String) (ρ : Env), envOK L ρ →
    vcleanList L es = true → ∀ o ∈ evalEach C ρ es, tw false o.1 = true
  | [], L, ρ, hρ, h => by simp [evalEach]
  | e :: es, L, ρ, hρ, h => by
    simp only [vcleanList, Bool.and_eq_true] at h
    rw [evalEach_cons]
    intro o ho
    rcases List.mem_cons.mp ho with rfl | ho
    · exact vsound C hF e L ρ hρ h.1
    · exact vsoundEach C hF es L ρ hρ h.2 o ho
theorem vsoundItems (C : Cx) (hF : TaintFuncs C.funcs) : ∀ (items : List (Expr × Expr)) (L : List String) (ρ : Env),
    envOK L ρ → vcleanItems L items = true → OInv (evalItems C ρ items)
  | [], L, ρ, hρ, h => by simp only [evalItems]; exact OInv_init
  | (ke, ve) :: rest, L, ρ, hρ, h => by
    simp only [vcleanItems, Bool.and_eq_true] at h
    rw [evalItems_cons]
    exact itemStep_OInv (vsound C hF ke L ρ hρ h.1.1) (vsound C hF ve L ρ hρ h.1.2)
      (vsoundItems C hF rest L ρ hρ h.2)
end

/-! ### diagnostics: the `for` and splat cases -/

theorem forTuple_frags (C : Cx) (ρ : Env) (Lb : List String) (kv vv : String) (coll val : Expr) (cond : Option Expr)
    (hprobe : envOK Lb (bindIter ρ kv vv Val.dynVal Val.dynVal))
    (hels : ∀ els, elements (eval C ρ coll).1.unmark.1 = some els → ∀ p ∈ els, envOK Lb (bindIter ρ kv vv p.1 p.2))
    (ihc : fragsClean (eval C ρ coll).2)
    (ihv : ∀ ρ', envOK Lb ρ' → fragsClean (eval C ρ' val).2)
    (ihce : ∀ ce, cond = some ce → ∀ ρ', envOK Lb ρ' → fragsClean (eval C ρ' ce).2) :
    fragsClean (eval C ρ (.forTuple kv vv coll val cond)).2 := by
  rw [eval_forTuple]
  apply forOut_frags _ _ _ _ ihc
  · intro po hpo
    cases cond with
    | none => cases hpo
    | some ce =>
      simp only [Option.map_some, Option.some.injEq] at hpo
      subst hpo
      exact ihce ce rfl _ hprobe
  · intro els hels' st p hp hinv
    apply forTupleStep_DInv _ _ _ hinv (ihv _ (hels els hels' p hp))
    intro c hc
    cases cond with
    | none => cases hc
    | some ce =>
      simp only [Option.map_some, Option.some.injEq] at hc
      subst hc
      exact ihce ce rfl _ (hels els hels' p hp)
  · exact forTupleFin_snd

theorem forObject_frags (C : Cx) (ρ : Env) (L Lb : List String) (kv vv : String) (coll key val : Expr)
    (cond : Option Expr) (g : Bool) (hρ : envOK L ρ)
    (hprobe : envOK Lb (bindIter ρ kv vv Val.dynVal Val.dynVal))
    (hels : ∀ els, elements (eval C ρ coll).1.unmark.1 = some els → ∀ p ∈ els, envOK Lb (bindIter ρ kv vv p.1 p.2))
    (ihc : fragsClean (eval C ρ coll).2)
    (ihk : ∀ ρ', envOK Lb ρ' → fragsClean (eval C ρ' key).2)
    (ihv : ∀ ρ', envOK Lb ρ' → fragsClean (eval C ρ' val).2)
    (ihce : ∀ ce, cond = some ce → ∀ ρ', envOK Lb ρ' → fragsClean (eval C ρ' ce).2)
    (hkey : g = true ∨ (∀ ρ', envOK (iterNames kv vv ++ L) ρ' → tw false (eval C ρ' key).1 = true) ∨
      (tw false (eval C ρ coll).1 = true ∧ ∀ ρ', envOK (dropIter kv vv L) ρ' → tw false (eval C ρ' key).1 = true)) :
    fragsClean (eval C ρ (.forObject kv vv coll key val cond g)).2 := by
  rw [eval_forObject]
  apply forOut_frags _ _ _ _ ihc
  · intro po hpo
    cases cond with
    | none => cases hpo
    | some ce =>
      simp only [Option.map_some, Option.some.injEq] at hpo
      subst hpo
      exact ihce ce rfl _ hprobe
  · intro els hels' st p hp hinv
    apply forObjectStep_DInv _ _ _ _ _ hinv (ihk _ (hels els hels' p hp)) (ihv _ (hels els hels' p hp))
    · intro c hc
      cases cond with
      | none => cases hc
      | some ce =>
        simp only [Option.map_some, Option.some.injEq] at hc
        subst hc
        exact ihce ce rfl _ (hels els hels' p hp)
    · rcases hkey with hg | hk | ⟨hcoll, hk⟩
      · exact Or.inl hg
      · right
        intro hgk
        exact Or.inr (tw_flOK (hk _ (envOK_bindIter_any kv vv _ _ hρ)) hgk)
      · right
        intro hgk
        cases hm : (eval C ρ coll).1.fl.m
        · have hel := elements_tw hcoll hm hels' p hp
          exact Or.inr (tw_flOK (hk _ (envOK_bindIter_clean kv vv hρ hel.1 hel.2)) hgk)
        · exact Or.inl rfl
  · exact forObjectFin_snd g

theorem staticUnmarked_sound (C : Cx) (ρ : Env) (e : Expr) (h : staticUnmarked e = true) :
    (eval C ρ e).1.fl.m = false := by
  cases e <;> simp only [staticUnmarked] at h <;> (try (cases h; done))
  · rw [eval_lit]; simpa using h
  · rw [eval_tuple]; rfl

/-- the scopes of the loop body (probe and iterations) satisfy `envOK (bodyVars …)` -/
theorem bodyVars_env (C : Cx) (hF : TaintFuncs C.funcs) (L : List String) (ρ : Env) (kv vv : String) (coll : Expr)
    (hρ : envOK L ρ) :
    envOK (bodyVars L kv vv coll) (bindIter ρ kv vv Val.dynVal Val.dynVal) ∧
    ∀ els, elements (eval C ρ coll).1.unmark.1 = some els → ∀ p ∈ els,
      envOK (bodyVars L kv vv coll) (bindIter ρ kv vv p.1 p.2) := by
  unfold bodyVars
  split
  · rename_i h
    simp only [Bool.and_eq_true] at h
    refine ⟨envOK_bindIter_clean kv vv hρ (tw_dynVal _) (tw_dynVal _), ?_⟩
    intro els hels p hp
    have hel := elements_tw (vsound C hF coll L ρ hρ h.2) (staticUnmarked_sound C ρ coll h.1) hels p hp
    exact envOK_bindIter_clean kv vv hρ hel.1 hel.2
  · exact ⟨envOK_bindIter_any kv vv _ _ hρ, fun els _ p _ => envOK_bindIter_any kv vv _ _ hρ⟩

theorem splat_frags (C : Cx) (ρ : Env) (L : List String) (anon : String) (src each : Expr)
    (hρ : envOK L ρ) (ihs : fragsClean (eval C ρ src).2)
    (ihe : ∀ ρ', envOK (anon :: L) ρ' → fragsClean (eval C ρ' each).2) :
    fragsClean (eval C ρ (.splat anon src each)).2 := by
  rw [eval_splat]
  exact splatOut_frags _ _ _ ihs (fun it => ihe _ (envOK_cons_any anon it hρ))

/-! ### diagnostics: the induction -/

mutual
theorem fsound (C : Cx) (hF : TaintFuncs C.funcs) : ∀ (e : Expr) (L : List String) (ρ : Env), envOK L ρ →
    fclean L e = true → fragsClean (eval C ρ e).2
  | .lit v, L, ρ, hρ, h => by
    rw [eval_lit]; exact fragsClean_nil
  | .var x, L, ρ, hρ, h => by
    rw [eval_var]
    split
    · exact fragsClean_nil
    · exact fragsClean_free (frags_errOut _)
  | .getAttr e name, L, ρ, hρ, h => by
    rw [eval_getAttr]
    exact fragsClean_of_NoNew (getAttrOut_NoNew _ _) (fsound C hF e L ρ hρ (by simpa [fclean] using h))
  | .index e k, L, ρ, hρ, h => by
    simp only [fclean, Bool.and_eq_true] at h
    rw [eval_index]
    exact fragsClean_of_NoNew (indexOut_NoNew _ _ _)
      (fragsClean_append (fsound C hF e L ρ hρ h.1) (fsound C hF k L ρ hρ h.2))
  | .bin op l r, L, ρ, hρ, h => by
    simp only [fclean, Bool.and_eq_true] at h
    rw [eval_bin]
    exact fragsClean_of_NoNew (evalBin_NoNew _ _ _ _)
      (fragsClean_append (fsound C hF l L ρ hρ h.1) (fsound C hF r L ρ hρ h.2))
  | .un op e, L, ρ, hρ, h => by
    rw [eval_un]
    exact fragsClean_of_NoNew (evalUn_NoNew _ _) (fsound C hF e L ρ hρ (by simpa [fclean] using h))
  | .cond c t f, L, ρ, hρ, h => by
    simp only [fclean, Bool.and_eq_true] at h
    rw [eval_cond]
    exact fragsClean_of_NoNew (evalCond_NoNew _ _ _ _)
      (fragsClean_append (fragsClean_append (fsound C hF c L ρ hρ h.1.1) (fsound C hF t L ρ hρ h.1.2))
        (fsound C hF f L ρ hρ h.2))
  | .tuple es, L, ρ, hρ, h => by
    rw [eval_tuple]
    exact fsoundList C hF es L ρ hρ (by simpa [fclean] using h)
  | .object items, L, ρ, hρ, h => by
    rw [eval_object, objectOut_snd]
    exact fsoundItems C hF items L ρ hρ (by simpa [fclean] using h)
  | .forTuple kv vv coll val none, L, ρ, hρ, h => by
    simp only [fclean, Bool.and_eq_true, Bool.and_true] at h
    have hb := bodyVars_env C hF L ρ kv vv coll hρ
    exact forTuple_frags C ρ _ kv vv coll val none hb.1 hb.2 (fsound C hF coll L ρ hρ h.1)
      (fun ρ' hρ' => fsound C hF val _ ρ' hρ' h.2) (fun ce hce => by cases hce)
  | .forTuple kv vv coll val (some ce), L, ρ, hρ, h => by
    simp only [fclean, Bool.and_eq_true] at h
    have hb := bodyVars_env C hF L ρ kv vv coll hρ
    exact forTuple_frags C ρ _ kv vv coll val (some ce) hb.1 hb.2 (fsound C hF coll L ρ hρ h.1.1)
      (fun ρ' hρ' => fsound C hF val _ ρ' hρ' h.1.2)
      (fun ce' hce ρ' hρ' => by cases hce; exact fsound C hF ce _ ρ' hρ' h.2)
  | .forObject kv vv coll key val none g, L, ρ, hρ, h => by
    simp only [fclean, Bool.and_eq_true, Bool.and_true, Bool.or_eq_true] at h
    have hb := bodyVars_env C hF L ρ kv vv coll hρ
    refine forObject_frags C ρ L _ kv vv coll key val none g hρ hb.1 hb.2 (fsound C hF coll L ρ hρ h.1.1.1)
      (fun ρ' hρ' => fsound C hF key _ ρ' hρ' h.1.1.2)
      (fun ρ' hρ' => fsound C hF val _ ρ' hρ' h.1.2) (fun ce hce => by cases hce) ?_
    rcases h.2 with (hg | hk) | hk
    · exact Or.inl hg
    · exact Or.inr (Or.inl fun ρ' hρ' => vsound C hF key _ ρ' hρ' hk)
    · exact Or.inr (Or.inr ⟨vsound C hF coll L ρ hρ hk.1, fun ρ' hρ' => vsound C hF key _ ρ' hρ' hk.2⟩)
  | .forObject kv vv coll key val (some ce) g, L, ρ, hρ, h => by
    simp only [fclean, Bool.and_eq_true, Bool.or_eq_true] at h
    have hb := bodyVars_env C hF L ρ kv vv coll hρ
    refine forObject_frags C ρ L _ kv vv coll key val (some ce) g hρ hb.1 hb.2 (fsound C hF coll L ρ hρ h.1.1.1.1)
      (fun ρ' hρ' => fsound C hF key _ ρ' hρ' h.1.1.1.2)
      (fun ρ' hρ' => fsound C hF val _ ρ' hρ' h.1.1.2)
      (fun ce' hce ρ' hρ' => by cases hce; exact fsound C hF ce _ ρ' hρ' h.1.2) ?_
    rcases h.2 with (hg | hk) | hk
    · exact Or.inl hg
    · exact Or.inr (Or.inl fun ρ' hρ' => vsound C hF key _ ρ' hρ' hk)
    · exact Or.inr (Or.inr ⟨vsound C hF coll L ρ hρ hk.1, fun ρ' hρ' => vsound C hF key _ ρ' hρ' hk.2⟩)
  | .splat anon src each, L, ρ, hρ, h => by
    simp only [fclean, Bool.and_eq_true] at h
    exact splat_frags C ρ L anon src each hρ (fsound C hF src L ρ hρ h.1)
      (fun ρ' hρ' => fsound C hF each _ ρ' hρ' h.2)
  | .template parts, L, ρ, hρ, h => by
    rw [eval_template]
    exact template_frags _ (fsoundEach C hF parts L ρ hρ (by simpa [fclean] using h))
  | .tjoin t, L, ρ, hρ, h => by
    rw [eval_tjoin]
    exact tjoinOut_frags _ (fsound C hF t L ρ hρ (by simpa [fclean] using h))
  | .call fn args none, L, ρ, hρ, h => by
    simp only [fclean, Bool.and_eq_true, Bool.and_true] at h
    rw [eval_call]
    split
    · exact fragsClean_free (frags_errOut _)
    · rename_i spec hs
      exact callOut_frags spec _ _ fragsClean_nil (fsoundEach C hF args L ρ hρ h)
  | .call fn args (some ex), L, ρ, hρ, h => by
    simp only [fclean, Bool.and_eq_true] at h
    rw [eval_call]
    split
    · exact fragsClean_free (frags_errOut _)
    · rename_i spec hs
      exact callOut_frags spec _ _ (expandOut_frags _ (fsound C hF ex L ρ hρ h.2)) (fsoundEach C hF args L ρ hρ h.1)
theorem fsoundList (C : Cx) (hF : TaintFuncs C.funcs) : ∀ (es : List Expr) (L : List String) (ρ : Env), envOK L ρ →
    fcleanList L es = true → fragsClean (evalList C ρ es).2
  | [], L, ρ, hρ, h => by simp only [evalList]; exact fragsClean_nil
  | e :: es, L, ρ, hρ, h => by
    simp only [fcleanList, Bool.and_eq_true] at h
    rw [evalList_cons]
    exact fragsClean_append (fsound C hF e L ρ hρ h.1) (fsoundList C hF es L ρ hρ h.2)
theorem fsoundEach (C : Cx) (hF : TaintFuncs C.funcs) : ∀ (es : List Expr) (L : List String) (ρ : Env), envOK L ρ →
    fcleanList L es = true → ∀ o ∈ evalEach C ρ es, fragsClean o.2
  | [], L, ρ, hρ, h => by simp [evalEach]
  | e :: es, L, ρ, hρ, h => by
    simp only [fcleanList, Bool.and_eq_true] at h
    rw [evalEach_cons]
    intro o ho
    rcases List.mem_cons.mp ho with rfl | ho
    · exact fsound C hF e L ρ hρ h.1
    · exact fsoundEach C hF es L ρ hρ h.2 o ho
theorem fsoundItems (C : Cx) (hF : TaintFuncs C.funcs) : ∀ (items : List (Expr × Expr)) (L : List String) (ρ : Env),
    envOK L ρ → fcleanItems L items = true → fragsClean (evalItems C ρ items).1.diags
  | [], L, ρ, hρ, h => by simp only [evalItems]; exact fragsClean_nil
  | (ke, ve) :: rest, L, ρ, hρ, h => by
    simp only [fcleanItems, Bool.and_eq_true] at h
    rw [evalItems_cons]
    exact fragsClean_of_NoNew (itemStep_NoNew _ _ _)
      (fragsClean_append (fragsClean_append (fsound C hF ke L ρ hρ h.1.1) (fsound C hF ve L ρ hρ h.1.2))
        (fsoundItems C hF rest L ρ hρ h.2))
end


end HclModel.Proofs
