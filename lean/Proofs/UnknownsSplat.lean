import Proofs.UnknownsSound
/-!
Monotonicity for `conc`: splat expressions whose body has a static primitive type.
-/
set_option linter.unusedSimpArgs false
set_option linter.unusedSectionVars false
set_option linter.unnecessarySimpa false
namespace HclModel.Proofs.Unk
open Val

/-- the splat of a known (possibly upgraded) list / tuple `sv` -/
def splatKnown (F : Cx) (ρ : Env) (anon : String) (each : Expr) (sv : Val) (upg : Bool)
    (resultTy : Ty × List Diag) (sd : List Diag) : Out :=
  let items : List Val := splatItems sv.unmark.1
  let rs := items.map fun it => eval F ((anon, it) :: ρ) each
  let ds := sd ++ rs.flatMap (·.2)
  let vals := rs.map (·.1)
  let ok := rs.all fun r => !hasErrors r.2
  if upg then (Val.dynVal.withFl sv.unmark.2, ds)
  else if !ok then ((Val.unk Fl.none resultTy.1).withFl sv.unmark.2, if F.keepDropped then ds ++ resultTy.2 else ds)
  else match sv.unmark.1 with
    | .list _ _ _ =>
      (match vals with
       | [] => (match resultTy.1 with
          | .list t => ((Val.list Fl.none t []).withFl sv.unmark.2, ds ++ resultTy.2)
          | _ => unsupportedOut "splat empty list")
       | v :: vs =>
         if vs.all (fun w => w.typeOf == v.typeOf) then ((Val.list Fl.none v.typeOf vals).withFl sv.unmark.2, ds)
         else unsupportedOut "splat: list elements of different types")
    | _ => ((Val.tuple Fl.none vals).withFl sv.unmark.2, ds)

/-- the splat of a non-null value whose type is not the dynamic pseudo-type -/
def splatCore (F : Cx) (ρ : Env) (anon : String) (each : Expr) (sv0 : Val) (sd : List Diag) : Out :=
  let sv : Val := if splatAutoUp sv0.typeOf then (Val.tuple Fl.none [sv0]).withFl sv0.fl else sv0
  if !sv.isKnown then
    ((Val.unk Fl.none (splatResultTy F ρ anon each sv).1).withFl sv.fl, sd ++ (splatResultTy F ρ anon each sv).2)
  else splatKnown F ρ anon each sv (splatAutoUp sv0.typeOf && !sv0.isKnown) (splatResultTy F ρ anon each sv) sd

theorem eval_splat' (F : Cx) (ρ : Env) (anon : String) (src each : Expr) :
    eval F ρ (.splat anon src each) =
      if hasErrors (eval F ρ src).2 then (Val.dynVal, (eval F ρ src).2)
      else if (eval F ρ src).1.isNull then
        (if splatAutoUp (eval F ρ src).1.typeOf then ((Val.tuple Fl.none []).withFl (eval F ρ src).1.fl, (eval F ρ src).2)
         else (Val.dynVal, (eval F ρ src).2 ++ [⟨"Splat of null value", []⟩]))
      else if (eval F ρ src).1.typeOf == .dyn then (Val.dynVal.withFl (eval F ρ src).1.fl, (eval F ρ src).2)
      else splatCore F ρ anon each (eval F ρ src).1 (eval F ρ src).2 := by
  rw [eval_splat]; rfl

def sVals (F : Cx) (ρ : Env) (anon : String) (each : Expr) (sv : Val) : List Val :=
  (splatItems sv.unmark.1).map fun it => (eval F ((anon, it) :: ρ) each).1

section
variable (F : Funcs)

theorem splatKnown_upg (ρ : Env) (anon : String) (each : Expr) (sv : Val) (rty : Ty × List Diag)
    (sd : List Diag) : ∃ g, (splatKnown (strictCx F) ρ anon each sv true rty sd).1 = .unk g .dyn := by
  unfold splatKnown
  simp only [if_true]
  exact ⟨_, rfl⟩

theorem splatKnown_nodiag (ρ : Env) (anon : String) (each : Expr) (sv : Val) (rty : Ty × List Diag)
    (sd : List Diag) (h : (splatKnown (strictCx F) ρ anon each sv false rty sd).2 = []) :
    sd = [] ∧ (∀ it ∈ splatItems sv.unmark.1, (eval (strictCx F) ((anon, it) :: ρ) each).2 = []) ∧
    ((∃ f t xs, sv.unmark.1 = .list f t xs ∧
        ((sVals (strictCx F) ρ anon each sv = [] ∧ ∃ t0, rty = (.list t0, []) ∧
            (splatKnown (strictCx F) ρ anon each sv false rty sd).1 = (Val.list Fl.none t0 []).withFl sv.unmark.2) ∨
         (∃ v vs, sVals (strictCx F) ρ anon each sv = v :: vs ∧ (∀ w ∈ vs, w.typeOf = v.typeOf) ∧
            (splatKnown (strictCx F) ρ anon each sv false rty sd).1 =
              (Val.list Fl.none v.typeOf (v :: vs)).withFl sv.unmark.2))) ∨
     ((∀ f t xs, sv.unmark.1 ≠ .list f t xs) ∧
        (splatKnown (strictCx F) ρ anon each sv false rty sd).1 =
          (Val.tuple Fl.none (sVals (strictCx F) ρ anon each sv)).withFl sv.unmark.2)) := by
  unfold splatKnown at h ⊢
  simp only [Bool.false_eq_true, if_false, strict_kd, if_true] at h ⊢
  generalize hrs : (splatItems sv.unmark.1).map (fun it => eval (strictCx F) ((anon, it) :: ρ) each) = rs at h ⊢
  have hvals : sVals (strictCx F) ρ anon each sv = rs.map (·.1) := by
    rw [← hrs]; simp [sVals, List.map_map]
  rw [hvals]
  by_cases hok : (rs.all fun r => !hasErrors r.2) = true
  · simp only [hok, Bool.not_true, Bool.false_eq_true, if_false] at h ⊢
    have hall : ∀ r ∈ rs, r.2 = [] := by
      intro r hr
      have := List.all_eq_true.mp hok r hr
      exact hasErrors_false (by simpa using this)
    have hfm : rs.flatMap (·.2) = [] := List.flatMap_eq_nil_iff.mpr hall
    have hits : ∀ it ∈ splatItems sv.unmark.1, (eval (strictCx F) ((anon, it) :: ρ) each).2 = [] := by
      intro it hit
      exact hall _ (by rw [← hrs]; exact List.mem_map.mpr ⟨it, hit, rfl⟩)
    cases hsv : sv.unmark.1
    case list f t xs =>
      rw [hsv] at hits
      simp only [hsv] at h ⊢
      cases hvs : rs.map (·.1) with
      | nil =>
        simp only [hvs] at h ⊢
        obtain ⟨r1, r2⟩ := rty
        cases r1 <;> simp only at h ⊢ <;> (try (simp [unsupportedOut] at h; done))
        rename_i t0
        simp only [hfm, List.append_nil, List.append_eq_nil_iff] at h
        obtain ⟨h1, h2⟩ := h
        subst h1; subst h2
        exact ⟨rfl, hits, Or.inl ⟨f, t, xs, by first | rfl | trivial, Or.inl ⟨by first | rfl | trivial, t0, by first | rfl | trivial, by first | rfl | trivial⟩⟩⟩
      | cons v vs =>
        simp only [hvs] at h ⊢
        by_cases hsame : (vs.all fun w => w.typeOf == v.typeOf) = true
        · simp only [hsame, if_true, hfm, List.append_nil] at h ⊢
          subst h
          refine ⟨rfl, hits, Or.inl ⟨f, t, xs, by first | rfl | trivial, Or.inr ⟨v, vs, by first | rfl | trivial, ?_, by first | rfl | trivial⟩⟩⟩
          intro w hw
          simpa using List.all_eq_true.mp hsame w hw
        · simp only [hsame, Bool.false_eq_true, if_false] at h
          simp [unsupportedOut] at h
    all_goals
      rw [hsv] at hits
      simp only [hsv] at h ⊢
      simp only [hfm, List.append_nil] at h
      subst h
      refine ⟨rfl, hits, Or.inr ⟨?_, by first | rfl | trivial⟩⟩
      intro f t xs hh; cases hh
  · simp only [hok, Bool.not_false, if_true] at h
    exfalso
    simp only [List.append_eq_nil_iff] at h
    apply hok
    rw [List.all_eq_true]
    intro r hr
    have := List.flatMap_eq_nil_iff.mp h.1.2 r hr
    simp [this, hasErrors]
end

def splatRT (T : Ty) (ty : Ty) : Ty :=
  match ty with
  | .list _ => .list T
  | .tuple ts => .tuple (ts.map fun _ => T)
  | _ => .dyn

theorem typeOfList_map_const {T : Ty} (g : Val → Val) : ∀ (xs : List Val), (∀ x ∈ xs, typeOf (g x) = T) →
    typeOfList (xs.map g) = (typeOfList xs).map fun _ => T
  | [], _ => rfl
  | x :: xs, h => by
    simp only [List.map_cons, typeOfList]
    rw [h x (by simp), typeOfList_map_const g xs (fun y hy => h y (by simp [hy]))]

section
variable (F : Funcs)

theorem resultTy_sty (ρ : Env) (anon : String) (each : Expr) (T : Ty) (hsty : staticTy each = some T)
    (sv : Val) (h : (splatResultTy (strictCx F) ρ anon each sv).2 = []) :
    (splatResultTy (strictCx F) ρ anon each sv).1 = splatRT T sv.typeOf := by
  unfold splatResultTy at h ⊢
  cases hty : sv.typeOf <;> simp only [hty, splatRT] at h ⊢
  case list t =>
    simp only [splatEachTy] at h ⊢
    rw [sty_eval F each T _ hsty h]
  case tuple ts =>
    simp only [List.map_map, Ty.tuple.injEq]
    apply List.map_congr_left
    intro t ht
    have := List.flatMap_eq_nil_iff.mp h _ (List.mem_map.mpr ⟨t, ht, rfl⟩)
    simp only [Function.comp, splatEachTy] at this ⊢
    exact sty_eval F each T _ hsty this

theorem splatCore_type (ρ : Env) (anon : String) (each : Expr) (T : Ty) (hsty : staticTy each = some T)
    (sv0 : Val) (sd : List Diag) (hau : splatAutoUp sv0.typeOf = false) (hn : sv0.isNull = false)
    (h : (splatCore (strictCx F) ρ anon each sv0 sd).2 = []) :
    typeOf (splatCore (strictCx F) ρ anon each sv0 sd).1 = splatRT T sv0.typeOf := by
  unfold splatCore at h ⊢
  simp only [hau, Bool.false_eq_true, if_false, Bool.false_and] at h ⊢
  by_cases hk : sv0.isKnown = true
  · simp only [hk, Bool.not_true, Bool.false_eq_true, if_false] at h ⊢
    obtain ⟨_, hits, hcase⟩ := splatKnown_nodiag F ρ anon each sv0 _ _ h
    rcases hcase with ⟨f, t, xs, hsv, hc⟩ | ⟨hnl, he⟩
    · have hty : sv0.typeOf = .list t := by
        have : sv0.unmark.1.typeOf = .list t := by rw [hsv]; rfl
        simpa using this
      rcases hc with ⟨_, t0, hr, he⟩ | ⟨v, vs, hv, _, he⟩
      · rw [he, typeOf_withFl, hty]
        have := resultTy_sty F ρ anon each T hsty sv0 (by rw [hr])
        rw [hr, hty] at this
        simp only [splatRT] at this ⊢
        simp only [typeOf]; exact this
      · rw [he, typeOf_withFl, hty]
        simp only [typeOf, splatRT, Ty.list.injEq]
        have hmem : v ∈ sVals (strictCx F) ρ anon each sv0 := by rw [hv]; simp
        obtain ⟨it, hit, rfl⟩ := List.mem_map.mp hmem
        exact sty_eval F each T _ hsty (hits it hit)
    · rw [he, typeOf_withFl]
      -- a known non-null value of list / tuple type that is not a list is a tuple
      cases hsv0 : sv0 <;> simp only [hsv0, splatAutoUp, typeOf, isNull, isKnown] at hau hn hk
      case unk f t => cases hk
      case list f t xs => exact absurd (by rw [hsv0]; rfl) (hnl f.unmark t xs)
      case tuple f xs =>
        simp only [typeOf, splatRT, sVals, unmark_fst, setFl, splatItems, Ty.tuple.injEq]
        apply typeOfList_map_const
        intro x hx
        exact sty_eval F each T _ hsty (hits x (by simpa [hsv0, splatItems, setFl] using hx))
      all_goals (first | cases hau | cases hn)
  · simp only [Bool.not_eq_true] at hk
    simp only [hk, Bool.not_false, if_true, List.append_eq_nil_iff] at h ⊢
    rw [typeOf_withFl]
    simp only [typeOf]
    exact resultTy_sty F ρ anon each T hsty sv0 h.2
end

theorem conc_autoUp {v a : Val} (h : conc v a = true) (hd : a.typeOf ≠ .dyn) :
    splatAutoUp v.typeOf = splatAutoUp a.typeOf := by
  cases a
  case unk g t =>
    rcases conc_unk_iff.mp h with h1 | h1
    · exact absurd h1 hd
    · rw [h1]; rfl
  case null => obtain ⟨f, rfl⟩ := conc_null_inv h; rfl
  case str => obtain ⟨f, rfl⟩ := conc_str_inv h; rfl
  case num => obtain ⟨f, rfl⟩ := conc_num_inv h; rfl
  case bool => obtain ⟨f, rfl⟩ := conc_bool_inv h; rfl
  case list => obtain ⟨f, xs, rfl, _⟩ := conc_list_inv h; rfl
  case map => obtain ⟨f, xs, rfl, _⟩ := conc_map_inv h; rfl
  case tuple => obtain ⟨f, xs, rfl, _⟩ := conc_tuple_inv h; rfl
  case object => obtain ⟨f, xs, rfl, _⟩ := conc_object_inv h; rfl

section
variable (F : Funcs)

theorem conc_sVals (ρc ρa : Env) (anon : String) (each : Expr)
    (ihe : ∀ ρc' ρa', concEnv ρc' ρa' → wfEnv ρc' → (eval (strictCx F) ρc' each).2 = [] →
      (eval (strictCx F) ρa' each).2 = [] → conc (eval (strictCx F) ρc' each).1 (eval (strictCx F) ρa' each).1 = true)
    (henv : concEnv ρc ρa) (hw : wfEnv ρc) : ∀ (xsa xsc : List Val), concL xsc xsa = true →
    (∀ it ∈ xsc, wfVal it = true) →
    (∀ it ∈ xsc, (eval (strictCx F) ((anon, it) :: ρc) each).2 = []) →
    (∀ it ∈ xsa, (eval (strictCx F) ((anon, it) :: ρa) each).2 = []) →
    concL (xsc.map fun it => (eval (strictCx F) ((anon, it) :: ρc) each).1)
      (xsa.map fun it => (eval (strictCx F) ((anon, it) :: ρa) each).1) = true
  | [], [], _, _, _, _ => rfl
  | [], _ :: _, h, _, _, _ => by simp [concL] at h
  | _ :: _, [], h, _, _, _ => by simp [concL] at h
  | xa :: xsa, xc :: xsc, h, hwf, hc, ha => by
    simp only [concL, Bool.and_eq_true] at h
    simp only [List.map_cons, concL, Bool.and_eq_true]
    exact ⟨ihe _ _ (concEnv_cons henv anon h.1) (wfEnv_cons hw (hwf xc (by simp))) (hc xc (by simp)) (ha xa (by simp)),
      conc_sVals ρc ρa anon each ihe henv hw xsa xsc h.2 (fun it hit => hwf it (by simp [hit]))
        (fun it hit => hc it (by simp [hit])) (fun it hit => ha it (by simp [hit]))⟩
end

section
variable (F : Funcs)

theorem conc_splatKnown (ρc ρa : Env) (anon : String) (each : Expr) (T : Ty) (hsty : staticTy each = some T)
    (ihe : ∀ ρc' ρa', concEnv ρc' ρa' → wfEnv ρc' → (eval (strictCx F) ρc' each).2 = [] →
      (eval (strictCx F) ρa' each).2 = [] → conc (eval (strictCx F) ρc' each).1 (eval (strictCx F) ρa' each).1 = true)
    (henv : concEnv ρc ρa) (hw : wfEnv ρc) (svc sva : Val) (sdc sda : List Diag)
    (hcc : conc svc sva = true) (hka : sva.isKnown = true) (hwf : wfVal svc = true)
    (hc : (splatKnown (strictCx F) ρc anon each svc false (splatResultTy (strictCx F) ρc anon each svc) sdc).2 = [])
    (ha : (splatKnown (strictCx F) ρa anon each sva false (splatResultTy (strictCx F) ρa anon each sva) sda).2 = []) :
    conc (splatKnown (strictCx F) ρc anon each svc false (splatResultTy (strictCx F) ρc anon each svc) sdc).1
      (splatKnown (strictCx F) ρa anon each sva false (splatResultTy (strictCx F) ρa anon each sva) sda).1 = true := by
  obtain ⟨_, hitsc, hcasec⟩ := splatKnown_nodiag F ρc anon each svc _ _ hc
  obtain ⟨_, hitsa, hcasea⟩ := splatKnown_nodiag F ρa anon each sva _ _ ha
  have hcu : conc svc.unmark.1 sva.unmark.1 = true := by simpa using hcc
  have hitems := splatItems_conc hcu (by simpa using hka)
  have hvals : concL (sVals (strictCx F) ρc anon each svc) (sVals (strictCx F) ρa anon each sva) = true :=
    conc_sVals F ρc ρa anon each ihe henv hw _ _ hitems (items_wf (by simpa using hwf)) hitsc hitsa
  rcases hcasea with ⟨g, t, ys, hsva, hca⟩ | ⟨hnla, hea⟩
  · rw [hsva] at hcu
    obtain ⟨f, xs, hsvc, _⟩ := conc_list_inv hcu
    have htya : sva.typeOf = .list t := by
      have : sva.unmark.1.typeOf = .list t := by rw [hsva]; rfl
      simpa using this
    have htyc : svc.typeOf = .list t := by
      have : svc.unmark.1.typeOf = .list t := by rw [hsvc]; rfl
      simpa using this
    rcases hcasec with ⟨f', t', xs', hsvc', hcc'⟩ | ⟨hnlc, _⟩
    · rcases hca with ⟨hva, t0a, hra, hea⟩ | ⟨va, vsa, hva, _, hea⟩
      · rcases hcc' with ⟨hvc, t0c, hrc, hec⟩ | ⟨vc, vsc, hvc, _, _⟩
        · rw [hea, hec, conc_withFl]
          have h1 := resultTy_sty F ρa anon each T hsty sva (by rw [hra])
          have h2 := resultTy_sty F ρc anon each T hsty svc (by rw [hrc])
          rw [hra, htya] at h1; rw [hrc, htyc] at h2
          simp only [splatRT, Ty.list.injEq] at h1 h2
          subst h1; subst h2
          simp [conc, concL]
        · rw [hva, hvc] at hvals; simp [concL] at hvals
      · rcases hcc' with ⟨hvc, _, _, _⟩ | ⟨vc, vsc, hvc, _, hec⟩
        · rw [hva, hvc] at hvals; simp [concL] at hvals
        · rw [hea, hec, conc_withFl]
          have t1 : va.typeOf = T := by
            have hmem : va ∈ sVals (strictCx F) ρa anon each sva := by rw [hva]; simp
            obtain ⟨it, hit, rfl⟩ := List.mem_map.mp hmem
            exact sty_eval F each T _ hsty (hitsa it hit)
          have t2 : vc.typeOf = T := by
            have hmem : vc ∈ sVals (strictCx F) ρc anon each svc := by rw [hvc]; simp
            obtain ⟨it, hit, rfl⟩ := List.mem_map.mp hmem
            exact sty_eval F each T _ hsty (hitsc it hit)
          rw [hva, hvc] at hvals
          simp [conc, t1, t2, hvals]
    · exact absurd hsvc (hnlc f t xs)
  · rcases hcasec with ⟨f', t', xs', hsvc', _⟩ | ⟨_, hec⟩
    · exfalso
      rw [hsvc'] at hcu
      -- the abstract value is known, so it is a list as well
      have hka' : sva.unmark.1.isKnown = true := by simpa using hka
      cases hs : sva.unmark.1 <;> rw [hs] at hcu hka' <;> simp [conc, isKnown] at hcu hka'
      exact hnla _ _ _ hs
    · rw [hea, hec, conc_withFl]
      simpa [conc] using hvals
end

section
variable (F : Funcs)

theorem splatCore_upg (ρ : Env) (anon : String) (each : Expr) (sv0 : Val) (sd : List Diag)
    (hau : splatAutoUp sv0.typeOf = true) (hk : sv0.isKnown = false) :
    ∃ g, (splatCore (strictCx F) ρ anon each sv0 sd).1 = .unk g .dyn := by
  unfold splatCore
  simp only [hau, if_true, hk, Bool.not_false, Bool.and_self]
  have : ((Val.tuple Fl.none [sv0]).withFl sv0.fl).isKnown = true := rfl
  simp only [this, Bool.not_true, Bool.false_eq_true, if_false]
  exact splatKnown_upg F ρ anon each _ _ _

theorem conc_splat (ρc ρa : Env) (anon : String) (src each : Expr) (T : Ty) (hsty : staticTy each = some T)
    (ihs : (eval (strictCx F) ρc src).2 = [] → (eval (strictCx F) ρa src).2 = [] →
      conc (eval (strictCx F) ρc src).1 (eval (strictCx F) ρa src).1 = true)
    (ihw : (eval (strictCx F) ρc src).2 = [] → wfVal (eval (strictCx F) ρc src).1 = true)
    (ihe : ∀ ρc' ρa', concEnv ρc' ρa' → wfEnv ρc' → (eval (strictCx F) ρc' each).2 = [] →
      (eval (strictCx F) ρa' each).2 = [] → conc (eval (strictCx F) ρc' each).1 (eval (strictCx F) ρa' each).1 = true)
    (henv : concEnv ρc ρa) (hw : wfEnv ρc)
    (hc : (eval (strictCx F) ρc (.splat anon src each)).2 = [])
    (ha : (eval (strictCx F) ρa (.splat anon src each)).2 = []) :
    conc (eval (strictCx F) ρc (.splat anon src each)).1 (eval (strictCx F) ρa (.splat anon src each)).1 = true := by
  rw [eval_splat'] at hc ha ⊢
  rw [eval_splat']
  generalize eval (strictCx F) ρc src = soc at *
  generalize eval (strictCx F) ρa src = soa at *
  obtain ⟨svc, sdc⟩ := soc; obtain ⟨sva, sda⟩ := soa
  simp only at hc ha ihs ihw ⊢
  by_cases hea : hasErrors sda = true
  · simp only [hea, if_true] at ha; rw [ha] at hea; cases hea
  · have hsda := hasErrors_false (by simpa using hea)
    subst hsda
    by_cases hec : hasErrors sdc = true
    · simp only [hec, if_true] at hc; rw [hc] at hec; cases hec
    · have hsdc := hasErrors_false (by simpa using hec)
      subst hsdc
      have hcc := ihs rfl rfl
      have hwf := ihw rfl
      simp only [hea, hec, Bool.false_eq_true, if_false] at hc ha ⊢
      by_cases hna : sva.isNull = true
      · -- both null, of the same type
        have hnc := conc_null_right hcc hna
        simp only [hna, hnc, if_true] at hc ha ⊢
        cases sva <;> simp [isNull] at hna
        obtain ⟨f, rfl⟩ := conc_null_inv hcc
        simp only [typeOf] at hc ha ⊢
        rename_i t
        by_cases hh : splatAutoUp t = true
        · simp only [hh, if_true]; rfl
        · simp only [hh, if_false] at ha; simp at ha
      · simp only [hna, Bool.false_eq_true, if_false] at ha ⊢
        by_cases hda : (sva.typeOf == Ty.dyn) = true
        · simp only [hda, if_true]; exact conc_dynVal_withFl _ _
        · simp only [hda, Bool.false_eq_true, if_false] at ha ⊢
          have hda' : sva.typeOf ≠ .dyn := by simpa using hda
          have hau := conc_autoUp hcc hda'
          by_cases hnc : svc.isNull = true
          · -- concrete null below an unknown: the abstract result is dynamic
            simp only [hnc, if_true] at hc ⊢
            have hka : sva.isKnown = false := by
              cases hk : sva.isKnown
              · rfl
              · have := conc_isNull hcc hk
                rw [hnc] at this
                simp [← this] at hna
            cases hauc : splatAutoUp svc.typeOf
            · simp [hauc] at hc
            · obtain ⟨g, he⟩ := splatCore_upg F ρa anon each sva [] (by rw [← hau]; exact hauc) hka
              rw [he]; simp [conc_unk]
          · have hdc : (svc.typeOf == Ty.dyn) = false := by
              cases hh : (svc.typeOf == Ty.dyn)
              · rfl
              · exact absurd (conc_dyn hcc (by simpa using hh)) hda'
            simp only [hnc, hdc, Bool.false_eq_true, if_false] at hc ⊢
            -- both go through `splatCore`
            cases haua : splatAutoUp sva.typeOf
            · -- no upgrade: the values themselves are lists / tuples
              have hauc : splatAutoUp svc.typeOf = false := by rw [hau]; exact haua
              by_cases hka : sva.isKnown = true
              · have hkc := conc_isKnown hcc hka
                unfold splatCore at hc ha ⊢
                simp only [haua, hauc, Bool.false_eq_true, if_false, Bool.false_and, hka, hkc, Bool.not_true] at hc ha ⊢
                exact conc_splatKnown F ρc ρa anon each T hsty ihe henv hw svc sva [] [] hcc hka hwf hc ha
              · simp only [Bool.not_eq_true] at hka
                have hty := splatCore_type F ρc anon each T hsty svc [] hauc (by simpa using hnc) hc
                have htyeq : svc.typeOf = sva.typeOf := typeOf_of_conc_unknown hcc hka hda'
                unfold splatCore at ha ⊢
                simp only [haua, Bool.false_eq_true, if_false, hka, Bool.not_false, if_true, List.nil_append] at ha ⊢
                rw [conc_withFl_right, conc_unk_iff]
                right
                rw [resultTy_sty F ρa anon each T hsty sva ha, ← htyeq]
                unfold splatCore at hty
                exact hty
            · have hauc : splatAutoUp svc.typeOf = true := by rw [hau]; exact haua
              by_cases hka : sva.isKnown = true
              · have hkc := conc_isKnown hcc hka
                unfold splatCore at hc ha ⊢
                have k1 : ((Val.tuple Fl.none [svc]).withFl svc.fl).isKnown = true := rfl
                have k2 : ((Val.tuple Fl.none [sva]).withFl sva.fl).isKnown = true := rfl
                simp only [haua, hauc, if_true, hka, hkc, Bool.not_true, Bool.and_false, k1, k2,
                  Bool.false_eq_true, if_false] at hc ha ⊢
                refine conc_splatKnown F ρc ρa anon each T hsty ihe henv hw _ _ [] [] ?_ rfl ?_ hc ha
                · simp [conc, concL, hcc]
                · simp [wfVal, wfList, hwf]
              · simp only [Bool.not_eq_true] at hka
                obtain ⟨g, he⟩ := splatCore_upg F ρa anon each sva [] haua hka
                rw [he]; simp [conc_unk]
end

end HclModel.Proofs.Unk
