import Proofs.UnknownsSplat
/-!
# C05 — evaluation with unknown values

* `known_in_known_out_partial`: without unknown values in the scope (and in the literals), a diagnostic-free
  evaluation yields a wholly known value
* `abs_sound_partial`: the abstract evaluation (some values unknown) is consistent (`conc`) with every concrete
  one, for the fragment `okExpr` of expressions, well-typed values and the function-table laws `SoundFuncsS`

Both are proved for the strict configuration by mutual structural recursion over `Expr`
(`kiko`, `wf_eval`, `sty_eval`, `conc_eval` in `HclModel.Proofs.Unk`).  The statements as originally planned
(`AbsSoundFull`, `KnownInKnownOutFull` in `Props/C05.lean`) are false; see the counterexamples there.
-/
set_option linter.unusedSimpArgs false
set_option linter.unusedSectionVars false
set_option linter.unnecessarySimpa false
namespace HclModel.Proofs.Unk
open Val

section
variable (F : Funcs) (hS : SoundFuncsS F)
include hS

mutual
theorem conc_eval : ∀ (e : Expr) (ρc ρa : Env), okExpr e = true → concEnv ρc ρa → wfEnv ρc →
    (eval (strictCx F) ρc e).2 = [] → (eval (strictCx F) ρa e).2 = [] →
    conc (eval (strictCx F) ρc e).1 (eval (strictCx F) ρa e).1 = true
  | .lit v, ρc, ρa, _, _, _, _, _ => by rw [eval_lit, eval_lit]; exact conc_refl v
  | .var x, ρc, ρa, _, henv, _, hc, ha => by
    rw [eval_var] at hc ⊢; rw [eval_var] at ha ⊢
    have := concEnv_lookup henv x
    cases h1 : ρc.lookup x <;> cases h2 : ρa.lookup x <;> simp [h1, h2, errOut] at this hc ha ⊢
    exact this
  | .getAttr e n, ρc, ρa, ho, henv, hw, hc, ha => by
    simp only [okExpr] at ho
    rw [eval_getAttr] at hc ⊢; rw [eval_getAttr] at ha ⊢
    by_cases h1 : hasErrors (eval (strictCx F) ρc e).2 = true
    · simp only [h1, if_true] at hc; rw [hc] at h1; cases h1
    · by_cases h2 : hasErrors (eval (strictCx F) ρa e).2 = true
      · simp only [h2, if_true] at ha; rw [ha] at h2; cases h2
      · have h1' : hasErrors (eval (strictCx F) ρc e).2 = false := by simpa using h1
        have h2' : hasErrors (eval (strictCx F) ρa e).2 = false := by simpa using h2
        simp only [h1', h2', Bool.false_eq_true, if_false, List.append_eq_nil_iff] at hc ha ⊢
        exact getAttr_conc (conc_eval e ρc ρa ho henv hw hc.1 ha.1) (wf_eval F hS e ρc ho hw hc.1) hc.2 ha.2
  | .index e k, ρc, ρa, ho, henv, hw, hc, ha => by
    simp only [okExpr, Bool.and_eq_true] at ho
    rw [eval_index] at hc ⊢; rw [eval_index] at ha ⊢
    simp only [List.append_eq_nil_iff] at hc ha
    exact index_conc (conc_eval e ρc ρa ho.1 henv hw hc.1.1 ha.1.1) (conc_eval k ρc ρa ho.2 henv hw hc.1.2 ha.1.2)
      (wf_eval F hS e ρc ho.1 hw hc.1.1) hc.2 ha.2
  | .bin op l r, ρc, ρa, ho, henv, hw, hc, ha => by
    simp only [okExpr, Bool.and_eq_true] at ho
    rw [eval_bin] at hc ⊢; rw [eval_bin] at ha ⊢
    have d1 := evalBin_diag hc
    have d2 := evalBin_diag ha
    exact evalBin_conc hc ha (conc_eval l ρc ρa ho.1 henv hw d1.1 d2.1) (conc_eval r ρc ρa ho.2 henv hw d1.2 d2.2)
  | .un op e, ρc, ρa, ho, henv, hw, hc, ha => by
    simp only [okExpr] at ho
    rw [eval_un] at hc ⊢; rw [eval_un] at ha ⊢
    exact evalUn_conc hc ha (conc_eval e ρc ρa ho henv hw (evalUn_diag hc) (evalUn_diag ha))
  | .cond c t f, ρc, ρa, ho, henv, hw, hc, ha => by
    simp only [okExpr, Bool.and_eq_true] at ho
    obtain ⟨T, hT⟩ := Option.isSome_iff_exists.mp ho.2
    rw [eval_cond] at hc ⊢; rw [eval_cond] at ha ⊢
    simp only [strict_kd] at hc ha ⊢
    obtain ⟨c1, c2, c3, c4⟩ := evalCond_diag hc
    obtain ⟨a1, a2, a3, a4⟩ := evalCond_diag ha
    rw [c4, a4]
    exact evalCondCore_conc (cond_condTy F c t f T ρc hT c2 c3) (cond_condTy F c t f T ρa hT a2 a3)
      (conc_eval c ρc ρa ho.1.1.1 henv hw (evalCondCore_diag c1) (evalCondCore_diag a1))
      (conc_eval t ρc ρa ho.1.1.2 henv hw c2 a2) (conc_eval f ρc ρa ho.1.2 henv hw c3 a3) c1 a1
  | .tuple es, ρc, ρa, ho, henv, hw, hc, ha => by
    simp only [okExpr] at ho
    rw [eval_tuple] at hc ⊢; rw [eval_tuple] at ha ⊢
    simpa [conc] using conc_list es ρc ρa ho henv hw hc ha
  | .object items, ρc, ρa, ho, henv, hw, hc, ha => by
    simp only [okExpr] at ho
    rw [eval_object] at hc ⊢; rw [eval_object] at ha ⊢
    have dc : (evalItems (strictCx F) ρc items).1.diags = [] := by split at hc <;> exact hc
    have da : (evalItems (strictCx F) ρa items).1.diags = [] := by split at ha <;> exact ha
    cases hka : (evalItems (strictCx F) ρa items).2
    · simp only [Bool.not_false, if_true]; exact conc_dynVal _
    · obtain ⟨k1, k2⟩ := conc_items items ρc ρa ho henv hw dc da hka
      simp only [k1, Bool.not_true, Bool.false_eq_true, if_false, conc]
      exact concG_headD k2
  | .forTuple kv vv coll val none, ρc, ρa, ho, henv, hw, hc, ha => by
    simp only [okExpr, Bool.and_eq_true] at ho
    exact conc_forTuple F ρc ρa kv vv coll val none (conc_eval coll ρc ρa ho.1.1 henv hw)
      (wf_eval F hS coll ρc ho.1.1 hw) (fun ρc' ρa' => conc_eval val ρc' ρa' ho.1.2)
      (fun ce hce => by cases hce) henv hw hc ha
  | .forTuple kv vv coll val (some ce), ρc, ρa, ho, henv, hw, hc, ha => by
    simp only [okExpr, Bool.and_eq_true] at ho
    exact conc_forTuple F ρc ρa kv vv coll val (some ce) (conc_eval coll ρc ρa ho.1.1 henv hw)
      (wf_eval F hS coll ρc ho.1.1 hw) (fun ρc' ρa' => conc_eval val ρc' ρa' ho.1.2)
      (fun ce' hce => by cases hce; exact fun ρc' ρa' => conc_eval ce ρc' ρa' ho.2) henv hw hc ha
  | .forObject kv vv coll key val none g, ρc, ρa, ho, henv, hw, hc, ha => by
    simp only [okExpr, Bool.and_eq_true] at ho
    exact conc_forObject F ρc ρa kv vv coll key val none g (conc_eval coll ρc ρa ho.1.1.1 henv hw)
      (wf_eval F hS coll ρc ho.1.1.1 hw) (fun ρc' ρa' => conc_eval key ρc' ρa' ho.1.1.2)
      (fun ρc' ρa' => conc_eval val ρc' ρa' ho.1.2)
      (fun ce hce => by cases hce) henv hw hc ha
  | .forObject kv vv coll key val (some ce) g, ρc, ρa, ho, henv, hw, hc, ha => by
    simp only [okExpr, Bool.and_eq_true] at ho
    exact conc_forObject F ρc ρa kv vv coll key val (some ce) g (conc_eval coll ρc ρa ho.1.1.1 henv hw)
      (wf_eval F hS coll ρc ho.1.1.1 hw) (fun ρc' ρa' => conc_eval key ρc' ρa' ho.1.1.2)
      (fun ρc' ρa' => conc_eval val ρc' ρa' ho.1.2)
      (fun ce' hce => by cases hce; exact fun ρc' ρa' => conc_eval ce ρc' ρa' ho.2) henv hw hc ha
  | .splat anon src each, ρc, ρa, ho, henv, hw, hc, ha => by
    simp only [okExpr, Bool.and_eq_true] at ho
    obtain ⟨T, hT⟩ := Option.isSome_iff_exists.mp ho.2
    exact conc_splat F ρc ρa anon src each T hT (conc_eval src ρc ρa ho.1.1 henv hw)
      (wf_eval F hS src ρc ho.1.1 hw) (fun ρc' ρa' => conc_eval each ρc' ρa' ho.1.2) henv hw hc ha
  | .template parts, ρc, ρa, ho, henv, hw, hc, ha => by
    simp only [okExpr] at ho
    exact conc_template F ρc ρa parts (conc_each parts ρc ρa ho henv hw) hc ha
  | .tjoin t, ρc, ρa, ho, henv, hw, hc, ha => by
    simp only [okExpr] at ho
    exact conc_tjoin F ρc ρa t (conc_eval t ρc ρa ho henv hw) hc ha
  | .call fn args none, ρc, ρa, ho, henv, hw, hc, ha => by
    simp only [okExpr, Bool.and_eq_true] at ho
    exact conc_call F hS ρc ρa fn args none (conc_each args ρc ρa ho.1 henv hw) (fun le hle => by cases hle) hc ha
  | .call fn args (some le), ρc, ρa, ho, henv, hw, hc, ha => by
    simp only [okExpr, Bool.and_eq_true] at ho
    exact conc_call F hS ρc ρa fn args (some le) (conc_each args ρc ρa ho.1 henv hw)
      (fun le' hle => by cases hle; exact conc_eval le ρc ρa ho.2 henv hw) hc ha
theorem conc_list : ∀ (es : List Expr) (ρc ρa : Env), okList es = true → concEnv ρc ρa → wfEnv ρc →
    (evalList (strictCx F) ρc es).2 = [] → (evalList (strictCx F) ρa es).2 = [] →
    concL (evalList (strictCx F) ρc es).1 (evalList (strictCx F) ρa es).1 = true
  | [], _, _, _, _, _, _, _ => by simp [evalList, concL]
  | e :: es, ρc, ρa, ho, henv, hw, hc, ha => by
    simp only [okList, Bool.and_eq_true] at ho
    simp only [evalList, List.append_eq_nil_iff] at hc ha ⊢
    simp only [concL, Bool.and_eq_true]
    exact ⟨conc_eval e ρc ρa ho.1 henv hw hc.1 ha.1, conc_list es ρc ρa ho.2 henv hw hc.2 ha.2⟩
theorem conc_each : ∀ (es : List Expr) (ρc ρa : Env), okList es = true → concEnv ρc ρa → wfEnv ρc →
    All2 RelOut (evalEach (strictCx F) ρc es) (evalEach (strictCx F) ρa es)
  | [], _, _, _, _, _ => by simp only [evalEach]; exact All2.nil
  | e :: es, ρc, ρa, ho, henv, hw => by
    simp only [okList, Bool.and_eq_true] at ho
    simp only [evalEach]
    exact All2.cons (conc_eval e ρc ρa ho.1 henv hw) (conc_each es ρc ρa ho.2 henv hw)
theorem conc_items : ∀ (items : List (Expr × Expr)) (ρc ρa : Env), okItems items = true → concEnv ρc ρa →
    wfEnv ρc → (evalItems (strictCx F) ρc items).1.diags = [] → (evalItems (strictCx F) ρa items).1.diags = [] →
    (evalItems (strictCx F) ρa items).2 = true →
      (evalItems (strictCx F) ρc items).2 = true ∧
        All2 GRel (evalItems (strictCx F) ρc items).1.kvs (evalItems (strictCx F) ρa items).1.kvs
  | [], _, _, _, _, _, _, _, _ => by simp [evalItems]; exact All2.nil
  | (ke, ve) :: rest, ρc, ρa, ho, henv, hw, hc, ha, hk => by
    simp only [okItems, Bool.and_eq_true] at ho
    exact conc_items_step F ρc ρa ke ve rest (conc_eval ke ρc ρa ho.1.1 henv hw) (conc_eval ve ρc ρa ho.1.2 henv hw)
      (conc_items rest ρc ρa ho.2 henv hw) hc ha hk
end
end

end HclModel.Proofs.Unk

namespace HclModel.Proofs

/-- Known in, known out: with a scope and literals free of unknown values (and every `tjoin` applied to a
    tuple-forming expression, as the template parser does), an evaluation without diagnostics in the strict
    configuration yields a wholly known value. -/
theorem known_in_known_out_partial (F : Funcs) (hF : SoundFuncs F) (e : Expr) (ρ : Env)
    (ho : knownOk e = true) (hk : knownEnv ρ) (h : (eval (strictCx F) ρ e).2 = []) :
    Val.whollyKnown (eval (strictCx F) ρ e).1 = true :=
  Unk.kiko F hF e ρ ho hk h

/-- Abstraction soundness for the fragment `okExpr`: if the abstract evaluation and a concrete instantiation
    (with well-typed values) are both free of diagnostics in the strict configuration, the concrete result is
    consistent with the abstract one. -/
theorem abs_sound_partial (F : Funcs) (hS : SoundFuncsS F) (e : Expr) (ρc ρa : Env) (ho : okExpr e = true)
    (h : concEnv ρc ρa) (hw : wfEnv ρc)
    (hc : (eval (strictCx F) ρc e).2 = []) (ha : (eval (strictCx F) ρa e).2 = []) :
    conc (eval (strictCx F) ρc e).1 (eval (strictCx F) ρa e).1 = true :=
  Unk.conc_eval F hS e ρc ρa ho h hw hc ha

/-- evaluation preserves well-typedness of collection values (used by `abs_sound_partial`) -/
theorem eval_wf (F : Funcs) (hS : SoundFuncsS F) (e : Expr) (ρ : Env) (ho : okExpr e = true) (hw : wfEnv ρ)
    (h : (eval (strictCx F) ρ e).2 = []) : wfVal (eval (strictCx F) ρ e).1 = true :=
  Unk.wf_eval F hS e ρ ho hw h

/-- the static type of an expression is the type of its value (in every scope) -/
theorem staticTy_sound (F : Funcs) (e : Expr) (T : Ty) (ρ : Env) (hT : staticTy e = some T)
    (h : (eval (strictCx F) ρ e).2 = []) : Val.typeOf (eval (strictCx F) ρ e).1 = T :=
  Unk.sty_eval F e T ρ hT h

end HclModel.Proofs
