import HclModel.Expr.Rel
import Proofs.FreeVars
/-!
`eval`, constructor by constructor, in terms of named functions: the loop bodies that `eval` writes as
anonymous closures are given names here (with the sub-evaluations abstracted as function arguments), so that
the lemmas about them can be stated and proved separately from the recursion over `Expr`.
Every equation is checked by `rfl` against the definition of `eval`.
-/
namespace HclModel.Proofs
open Val

def getAttrOut (o : Out) (name : String) : Out :=
  let (v, ds) := o
  if hasErrors ds then (Val.dynVal, ds)
  else let (r, ds') := getAttr v name; (r, ds ++ ds')

def indexOut (keepKeyMarks : Bool) (co ko : Out) : Out :=
  let (cv, cd) := co
  let (kv, kd) := ko
  let (r, ds') := index keepKeyMarks cv kv
  (r, cd ++ kd ++ ds')

def objectOut (r : ForSt × Bool) : Out :=
  let (st, known) := r
  if !known then (Val.dynVal, st.diags)
  else (Val.object st.marks (st.kvs.map fun (k, vs) => (k, vs.headD Val.dynVal)), st.diags)

def itemStep (ko vo : Out) (r : ForSt × Bool) : ForSt × Bool :=
  let (k, kd) := ko
  let (v, vd) := vo
  let (st, known) := r
  let pre := kd ++ vd
  if hasErrors kd then ({ st with diags := pre ++ st.diags }, false)
  else if k.isNull then ({ st with diags := pre ++ [⟨"Null value as key", []⟩] ++ st.diags }, false)
  else
    let (k, km) := k.unmark
    match tryConvert k .str with
    | .error d => ({ st with diags := pre ++ [if d.isUnsupported then d else ⟨"Incorrect key type", []⟩] ++ st.diags, marks := st.marks.join km }, false)
    | .ok ks =>
      match ks with
      | .str _ s =>
        let kvs := if (lookupKey s st.kvs).isSome then st.kvs else groupInsert s v st.kvs
        ({ st with diags := pre ++ st.diags, marks := st.marks.join km, kvs := kvs }, known)
      | _ => ({ st with diags := pre ++ st.diags, marks := st.marks.join km }, false)

/-- the body of the `for` loop, tuple form; `ev k v` evaluates the value expression with the iterators bound,
    `ec` the condition -/
def forTupleStep (ev : Val → Val → Out) (ec : Option (Val → Val → Out)) (st : ForSt) (kv : Val × Val) : ForSt :=
  let step (st : ForSt) : ForSt :=
    let (v, vd) := ev kv.1 kv.2
    { st with diags := st.diags ++ vd, vals := st.vals ++ [v] }
  match ec with
  | none => step st
  | some ec =>
    let (inc, id) := ec kv.1 kv.2
    let st := { st with diags := st.diags ++ id }
    if inc.isNull then
      { st with diags := if st.known then st.diags ++ [⟨"Invalid 'for' condition: null", []⟩] else st.diags, known := false }
    else
      let st := { st with marks := st.marks.join inc.fl }
      if !inc.isKnown then { st with known := false }
      else match tryConvert inc .bool with
        | .error d =>
          { st with diags := if st.known then st.diags ++ [if d.isUnsupported then d else ⟨"Invalid 'for' condition", []⟩] else st.diags, known := false }
        | .ok (.bool _ false) => st
        | .ok _ => step st

def forObjectStep (group : Bool) (ek ev : Val → Val → Out) (ec : Option (Val → Val → Out)) (st : ForSt) (kv : Val × Val) : ForSt :=
  let step (st : ForSt) : ForSt :=
    let (kr, kd) := ek kv.1 kv.2
    let st := { st with diags := st.diags ++ kd }
    if kr.isNull then
      { st with diags := if st.known then st.diags ++ [⟨"Invalid object key: null", []⟩] else st.diags, known := false }
    else
      let st := { st with marks := st.marks.join kr.fl }
      if !kr.isKnown then { st with known := false }
      else match tryConvert kr .str with
        | .error d =>
          { st with diags := if st.known then st.diags ++ [if d.isUnsupported then d else ⟨"Invalid object key", []⟩] else st.diags, known := false }
        | .ok ks =>
          match ks.unmark.1 with
          | .str kf k =>
            let (v, vd) := ev kv.1 kv.2
            let st := { st with diags := st.diags ++ vd }
            if group then { st with kvs := groupInsert k v st.kvs }
            else if (lookupKey k st.kvs).isSome then
              { st with diags := st.diags ++ [⟨"Duplicate object key", if st.marks.m then [] else [.str kf k]⟩] }
            else { st with kvs := groupInsert k v st.kvs }
          | _ => { st with known := false }
  match ec with
  | none => step st
  | some ec =>
    let (inc, id) := ec kv.1 kv.2
    let st := { st with diags := st.diags ++ id }
    if inc.isNull then
      { st with diags := if st.known then st.diags ++ [⟨"Invalid 'for' condition: null", []⟩] else st.diags, known := false }
    else
      let st := { st with marks := st.marks.join inc.fl }
      match tryConvert inc .bool with
      | .error d =>
        { st with diags := if st.known then st.diags ++ [if d.isUnsupported then d else ⟨"Invalid 'for' condition", []⟩] else st.diags, known := false }
      | .ok b =>
        if !b.isKnown then { st with known := false }
        else match b with
          | .bool _ false => st
          | _ => step st

/-- everything in `ForExpr.Value` around the loop; `fin` builds the result from the final state -/
def forOut (co : Out) (probe : Option Out) (stepf : ForSt → Val × Val → ForSt) (fin : ForSt → Out) : Out :=
  let (cv, cd) := co
  if cv.isNull then (Val.dynVal, cd ++ [⟨"Iteration over null value", []⟩])
  else if cv.typeOf == .dyn then (Val.dynVal, cd)
  else
    let (cv, cm) := cv.unmark
    if !canIterate cv.typeOf then (Val.dynVal, cd ++ [⟨"Iteration over non-iterable value", []⟩])
    else
      let probe : Option (List Diag × Fl × Bool) := probe.map probeCond
      let pd := (probe.map (·.1)).getD []
      let pm := (probe.map (·.2.1)).getD Fl.none
      let pstop := (probe.map (·.2.2)).getD false
      if pstop then (Val.dynVal, cd ++ pd)
      else
        match elements cv with
        | none => (Val.dynVal.withFl (cm.join ⟨pm.m, pm.g⟩), cd ++ pd)
        | some els => fin (els.foldl stepf ({ diags := cd ++ pd, marks := cm } : ForSt))

def forTupleFin (st : ForSt) : Out :=
  if !st.known then (Val.dynVal.withFl st.marks, st.diags)
  else (Val.tuple st.marks st.vals, st.diags)

def forObjectFin (group : Bool) (st : ForSt) : Out :=
  if !st.known then (Val.dynVal.withFl st.marks, st.diags)
  else if group then
    (Val.object st.marks (st.kvs.map fun (k, vs) => (k, Val.tuple Fl.none vs)), st.diags)
  else (Val.object st.marks (st.kvs.map fun (k, vs) => (k, vs.headD Val.dynVal)), st.diags)

def splatOut (keepDropped : Bool) (so : Out) (each : Val → Out) : Out :=
  let (sv, sd) := so
  if hasErrors sd then (Val.dynVal, sd)
  else
    let sty := sv.typeOf
    let autoUp : Bool := match sty with | .tuple _ | .list _ => false | _ => true
    if sv.isNull then
      if autoUp then ((Val.tuple Fl.none []).withFl sv.fl, sd) else (Val.dynVal, sd ++ [⟨"Splat of null value", []⟩])
    else if sty == .dyn then (Val.dynVal.withFl sv.fl, sd)
    else
      let upgradedUnknown := autoUp && !sv.isKnown
      let sv : Val := if autoUp then (Val.tuple Fl.none [sv]).withFl sv.fl else sv
      let eachTy (t : Ty) : Ty × List Diag :=
        let (v, ds) := each (Val.unk Fl.none t)
        (v.typeOf, ds)
      let resultTy : Ty × List Diag :=
        match sv.typeOf with
        | .list t => let (rt, ds) := eachTy t; (.list rt, ds)
        | .tuple ts =>
          let rs := ts.map eachTy
          (.tuple (rs.map (·.1)), rs.flatMap (·.2))
        | _ => (.dyn, [])
      if !sv.isKnown then
        ((Val.unk Fl.none resultTy.1).withFl sv.fl, sd ++ resultTy.2)
      else
        let (sv, sm) := sv.unmark
        let items : List Val := match sv with | .list _ _ xs => xs | .tuple _ xs => xs | _ => []
        let rs := items.map fun it => each it
        let ds := sd ++ rs.flatMap (·.2)
        let vals := rs.map (·.1)
        let ok := rs.all fun r => !hasErrors r.2
        if upgradedUnknown then (Val.dynVal.withFl sm, ds)
        else if !ok then ((Val.unk Fl.none resultTy.1).withFl sm, if keepDropped then ds ++ resultTy.2 else ds)
        else match sv with
          | .list _ _ _ =>
            (match vals with
             | [] => (match resultTy.1 with
                | .list t => ((Val.list Fl.none t []).withFl sm, ds ++ resultTy.2)
                | _ => unsupportedOut "splat empty list")
             | v :: vs =>
               if vs.all (fun w => w.typeOf == v.typeOf) then ((Val.list Fl.none v.typeOf vals).withFl sm, ds)
               else unsupportedOut "splat: list elements of different types")
          | _ => ((Val.tuple Fl.none vals).withFl sm, ds)

abbrev TSt := List Diag × Bool × Fl × String

def tmplStep (st : TSt) (o : Out) : TSt :=
  let (ds, known, ms, buf) := st
  let (pv, pd) := o
  let ds := ds ++ pd
  if pv.isNull then (ds ++ [⟨"Invalid template interpolation value: null", []⟩], known, ms, buf)
  else
    let (uv, pm) := pv.unmark
    let ms := ms.join pm
    if !pv.isKnown then (ds, false, ms, buf)
    else match tryConvert uv .str with
      | .error d => (ds ++ [if d.isUnsupported then d else ⟨"Invalid template interpolation value", []⟩], known, ms, buf)
      | .ok (.str _ s) => (ds, known, ms, if known && !hasErrors ds then buf ++ s else buf)
      | .ok _ => (ds, known, ms, buf)

def tmplOut (st : TSt) : Out :=
  let (ds, known, ms, buf) := st
  if known then (Val.str ms buf, ds) else (Val.unk ms .str, ds)

def tjoinOut (o : Out) : Out :=
  let (tv, ds) := o
  if tv.typeOf == .dyn then (Val.unk Fl.none .str, ds)
  else if !tv.isKnown then (Val.unk Fl.none .str, ds)
  else
    let (tv, tm) := tv.unmark
    match tv with
    | .tuple _ xs => tjoinLoop tm xs ds tm ""
    | _ => unsupportedOut "tjoin of non-tuple"

/-- the expansion of the final `...` argument of a call -/
def expandOut (eo : Out) : Except Out (List Val × List Diag) :=
  let (ev, ed) := eo
  if hasErrors ed then .error (Val.dynVal, ed)
  else if ev.typeOf == .dyn then
    (if ev.isNull then .error (Val.dynVal, ed ++ [⟨"Invalid expanding argument value: null", []⟩]) else .error (Val.dynVal, ed))
  else match ev.typeOf with
    | .tuple _ | .list _ =>
      if ev.isNull then .error (Val.dynVal, ed ++ [⟨"Invalid expanding argument value: null", []⟩])
      else if !ev.isKnown then .error (Val.dynVal, ed)
      else
        let (uv, em) := ev.unmark
        let xs : List Val := match uv with | .list _ _ xs => xs | .tuple _ xs => xs | _ => []
        .ok (xs.map fun x => x.withFl em, ed)
    | _ => .error (Val.dynVal, ed ++ [⟨"Invalid expanding argument value", []⟩])

def callOut (spec : FuncSpec) (expanded : Except Out (List Val × List Diag)) (outs : List Out) : Out :=
  match expanded with
  | .error o => o
  | .ok (extra, ed) =>
    let argVals := outs.map (·.1) ++ extra
    let n := argVals.length
    if n < spec.params.length then (Val.dynVal, ed ++ [⟨"Not enough function arguments", []⟩])
    else if spec.varParam.isNone && n > spec.params.length then (Val.dynVal, ed ++ [⟨"Too many function arguments", []⟩])
    else
      let (vals, cds) := convertArgs spec argVals spec.params
      let ds := ed ++ outs.flatMap (·.2) ++ cds
      if hasErrors ds then (Val.dynVal, ds)
      else match callFunc spec vals with
        | .ok v => (v, ds)
        | .error (.fail _) => (Val.dynVal, ds ++ [⟨"Error in function call", []⟩])
        | .error (.unsupported w) => (Val.dynVal, ds ++ [⟨"UNSUPPORTED " ++ w, []⟩])

/-! ### the equations -/

theorem eval_lit (F : Cx) (ρ : Env) (v : Val) : eval F ρ (.lit v) = (v, []) := rfl

theorem eval_var (F : Cx) (ρ : Env) (x : String) :
    eval F ρ (.var x) = match ρ.lookup x with | some v => (v, []) | none => errOut "Unknown variable" := by
  rw [eval_unfold]; unfold eval._sunfold; rfl

theorem eval_getAttr (F : Cx) (ρ : Env) (e : Expr) (name : String) :
    eval F ρ (.getAttr e name) = getAttrOut (eval F ρ e) name := by
  rw [eval_unfold]; unfold eval._sunfold; rfl

theorem eval_index (F : Cx) (ρ : Env) (e k : Expr) :
    eval F ρ (.index e k) = indexOut F.keepKeyMarks (eval F ρ e) (eval F ρ k) := by
  rw [eval_unfold]; unfold eval._sunfold; rfl

theorem eval_bin (F : Cx) (ρ : Env) (op : BinOp) (l r : Expr) :
    eval F ρ (.bin op l r) = evalBin F.keepDropped op (eval F ρ l) (eval F ρ r) := by
  rw [eval_unfold]; unfold eval._sunfold; rfl

theorem eval_un (F : Cx) (ρ : Env) (op : UnOp) (e : Expr) :
    eval F ρ (.un op e) = evalUn op (eval F ρ e) := by
  rw [eval_unfold]; unfold eval._sunfold; rfl

theorem eval_cond (F : Cx) (ρ : Env) (c t f : Expr) :
    eval F ρ (.cond c t f) = evalCond F.keepDropped (eval F ρ c) (eval F ρ t) (eval F ρ f) := by
  rw [eval_unfold]; unfold eval._sunfold; rfl

theorem eval_tuple (F : Cx) (ρ : Env) (es : List Expr) :
    eval F ρ (.tuple es) = (.tuple Fl.none (evalList F ρ es).1, (evalList F ρ es).2) := by
  rw [eval_unfold]; unfold eval._sunfold; rfl

theorem eval_object (F : Cx) (ρ : Env) (items : List (Expr × Expr)) :
    eval F ρ (.object items) = objectOut (evalItems F ρ items) := by
  rw [eval_unfold]; unfold eval._sunfold; rfl

theorem evalItems_cons (F : Cx) (ρ : Env) (ke ve : Expr) (rest : List (Expr × Expr)) :
    evalItems F ρ ((ke, ve) :: rest) = itemStep (eval F ρ ke) (eval F ρ ve) (evalItems F ρ rest) := by
  simp only [evalItems]; rfl

theorem evalList_cons (F : Cx) (ρ : Env) (e : Expr) (es : List Expr) :
    evalList F ρ (e :: es) = ((eval F ρ e).1 :: (evalList F ρ es).1, (eval F ρ e).2 ++ (evalList F ρ es).2) := by
  simp only [evalList]

theorem eval_forTuple (F : Cx) (ρ : Env) (kv vv : String) (coll val : Expr) (cond : Option Expr) :
    eval F ρ (.forTuple kv vv coll val cond) =
      forOut (eval F ρ coll) (cond.map fun ce => eval F (bindIter ρ kv vv Val.dynVal Val.dynVal) ce)
        (forTupleStep (fun k v => eval F (bindIter ρ kv vv k v) val)
          (cond.map fun ce k v => eval F (bindIter ρ kv vv k v) ce)) forTupleFin := by
  rw [eval_unfold]; cases cond <;> (unfold eval._sunfold; rfl)

theorem eval_forObject (F : Cx) (ρ : Env) (kv vv : String) (coll key val : Expr) (cond : Option Expr) (group : Bool) :
    eval F ρ (.forObject kv vv coll key val cond group) =
      forOut (eval F ρ coll) (cond.map fun ce => eval F (bindIter ρ kv vv Val.dynVal Val.dynVal) ce)
        (forObjectStep group (fun k v => eval F (bindIter ρ kv vv k v) key) (fun k v => eval F (bindIter ρ kv vv k v) val)
          (cond.map fun ce k v => eval F (bindIter ρ kv vv k v) ce)) (forObjectFin group) := by
  rw [eval_unfold]; cases cond <;> (unfold eval._sunfold; rfl)

theorem eval_splat (F : Cx) (ρ : Env) (anon : String) (src each : Expr) :
    eval F ρ (.splat anon src each) =
      splatOut F.keepDropped (eval F ρ src) (fun it => eval F ((anon, it) :: ρ) each) := by
  rw [eval_unfold]; unfold eval._sunfold; rfl

theorem eval_template (F : Cx) (ρ : Env) (parts : List Expr) :
    eval F ρ (.template parts) =
      tmplOut ((evalEach F ρ parts).foldl tmplStep (([] : List Diag), true, Fl.none, "")) := by
  rw [eval_unfold]; unfold eval._sunfold; rfl

theorem eval_tjoin (F : Cx) (ρ : Env) (t : Expr) :
    eval F ρ (.tjoin t) = tjoinOut (eval F ρ t) := by
  rw [eval_unfold]; unfold eval._sunfold; rfl

theorem eval_call (F : Cx) (ρ : Env) (fn : String) (args : List Expr) (expand : Option Expr) :
    eval F ρ (.call fn args expand) =
      match F.funcs fn with
      | none => errOut "Call to unknown function"
      | some spec =>
        callOut spec (match expand with | none => .ok ([], []) | some le => expandOut (eval F ρ le))
          (evalEach F ρ args) := by
  rw [eval_unfold]; cases expand <;> (unfold eval._sunfold; rfl)

theorem evalEach_cons (F : Cx) (ρ : Env) (e : Expr) (es : List Expr) :
    evalEach F ρ (e :: es) = eval F ρ e :: evalEach F ρ es := by
  simp only [evalEach]

end HclModel.Proofs
