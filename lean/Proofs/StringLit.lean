import HclModel.Write.StringLit
/-!
Round trip `parseQuoted (escape isPrint s) = some s` for quoted string literals.

The statement needs `isPrint '{' = true`: `escape` decides whether to double a `$` / `%` by looking at
the *original* next character, so if `{` were not printable it would be written `\u007b` and the doubled
introducer in front of it would read back as two characters (`escape_not_roundtrip_of_brace_unprintable`).
Go's `unicode.IsPrint('{')` is true, so the real code is not affected.
-/
namespace HclModel.StringLit.Proofs
open HclModel.StringLit

/-! ## hex digits -/

theorem hexVal_hexDigit_fin : ∀ d : Fin 16, hexVal? (hexDigit d.val) = some d.val := by decide

theorem hexVal_hexDigit (d : Nat) (h : d < 16) : hexVal? (hexDigit d) = some d :=
  hexVal_hexDigit_fin ⟨d, h⟩

theorem hexN_length (k n : Nat) : (hexN k n).length = k := by
  induction k generalizing n with
  | zero => simp [hexN]
  | succ k ih => simp [hexN, ih]

/-- `hexNum?` reading `k` digits followed by one more digit -/
theorem hexNum_snoc (k : Nat) (ds : List Char) (c : Char) (rest : List Char) (n d : Nat)
    (h : ∀ rest', hexNum? k (ds ++ rest') = some (n, rest')) (hc : hexVal? c = some d) :
    hexNum? (k+1) (ds ++ c :: rest) = some (n * 16 + d, rest) := by
  induction k generalizing ds n with
  | zero =>
    have h0 := h []
    cases ds with
    | nil =>
      simp [hexNum?] at h0
      subst h0
      simp [hexNum?, hc]
    | cons x xs => simp [hexNum?] at h0
  | succ k ih =>
    cases ds with
    | nil => simpa [hexNum?] using h []
    | cons x xs =>
      have h1 := h []
      simp only [hexNum?, List.append_nil] at h1
      cases hx : hexVal? x with
      | none => simp [hx] at h1
      | some dx =>
        cases hxs : hexNum? k xs with
        | none => simp [hx, hxs] at h1
        | some p =>
          obtain ⟨m, r⟩ := p
          simp [hx, hxs] at h1
          obtain ⟨hn, hr⟩ := h1
          subst hr
          have hm : ∀ rest', hexNum? k (xs ++ rest') = some (m, rest') := by
            intro rest'
            have h2 := h rest'
            simp only [List.cons_append, hexNum?] at h2
            cases hxs' : hexNum? k (xs ++ rest') with
            | none => simp [hx, hxs'] at h2
            | some p' =>
              obtain ⟨m', r'⟩ := p'
              simp [hx, hxs'] at h2
              obtain ⟨hn', hr'⟩ := h2
              subst hr'
              have : m' = m := by omega
              subst this; rfl
          have h3 := ih xs m hm
          simp only [List.cons_append]
          rw [hexNum?.eq_2, hx, h3]
          simp [Nat.pow_succ]
          rw [← hn, Nat.add_mul, Nat.mul_assoc]
          omega

theorem hexNum_hexN (k n : Nat) (h : n < 16 ^ k) (rest : List Char) :
    hexNum? k (hexN k n ++ rest) = some (n, rest) := by
  induction k generalizing n rest with
  | zero =>
    have : n = 0 := by simpa using h
    subst this
    simp [hexN, hexNum?]
  | succ k ih =>
    have hq : n / 16 < 16 ^ k := by
      rw [Nat.pow_succ] at h
      exact (Nat.div_lt_iff_lt_mul (by decide)).2 h
    have h1 := hexNum_snoc k (hexN k (n / 16)) (hexDigit (n % 16)) rest (n / 16) (n % 16)
      (fun rest' => ih (n / 16) hq rest') (hexVal_hexDigit _ (Nat.mod_lt _ (by decide)))
    simp only [hexN, List.append_assoc, List.singleton_append]
    rw [h1]
    congr 2
    omega

theorem scalar_toNat (c : Char) : scalar? c.toNat = some c := by
  have hv : c.toNat.isValidChar := c.valid
  simp [scalar?, hv, Char.ofNat_toNat]

/-! ## unfolding -/

/-- what `escape` writes for `c` when followed by `rest` -/
def pre (isPrint : Char → Bool) (c : Char) (rest : List Char) : List Char :=
  if c = '\n' then ['\\', 'n']
  else if c = '\r' then ['\\', 'r']
  else if c = '\t' then ['\\', 't']
  else if c = '"' then ['\\', '"']
  else if c = '\\' then ['\\', '\\']
  else if c = '$' ∨ c = '%' then
    (match rest with
     | '{' :: _ => [c, c]
     | _ => [c])
  else if !isPrint c then
    (if c.toNat < 65536 then '\\' :: 'u' :: hexN 4 c.toNat else '\\' :: 'U' :: hexN 8 c.toNat)
  else [c]

theorem escape_cons (isPrint : Char → Bool) (c : Char) (rest : List Char) :
    escape isPrint (c :: rest) = pre isPrint c rest ++ escape isPrint rest := rfl

theorem pre_length_pos (isPrint : Char → Bool) (c : Char) (rest : List Char) :
    0 < (pre isPrint c rest).length := by
  unfold pre
  repeat' split
  all_goals simp

theorem unescape_cons (fuel : Nat) (c : Char) (rest : List Char) :
    unescape (fuel+1) (c :: rest) =
      if c = '\\' then
        match rest with
        | 'n' :: r => ('\n' :: ·) <$> unescape fuel r
        | 'r' :: r => ('\r' :: ·) <$> unescape fuel r
        | 't' :: r => ('\t' :: ·) <$> unescape fuel r
        | '"' :: r => ('"' :: ·) <$> unescape fuel r
        | '\\' :: r => ('\\' :: ·) <$> unescape fuel r
        | 'u' :: r =>
          (match hexNum? 4 r with
           | some (n, r') => (match scalar? n with
              | some ch => (ch :: ·) <$> unescape fuel r'
              | none => none)
           | none => none)
        | 'U' :: r =>
          (match hexNum? 8 r with
           | some (n, r') => (match scalar? n with
              | some ch => (ch :: ·) <$> unescape fuel r'
              | none => none)
           | none => none)
        | _ => none
      else if c = '$' ∨ c = '%' then
        match rest with
        | '{' :: _ => none
        | c' :: '{' :: r => if c' = c then (fun t => c :: '{' :: t) <$> unescape fuel r
                            else (c :: ·) <$> unescape fuel rest
        | _ => (c :: ·) <$> unescape fuel rest
      else if c = '"' ∨ c = '\n' ∨ c = '\r' then none
      else (c :: ·) <$> unescape fuel rest := by
  rw [unescape.eq_def]
  rfl

/-- an ordinary character is read as itself -/
theorem unescape_raw (fuel : Nat) (c : Char) (E : List Char) (h1 : c ≠ '\\')
    (h2 : ¬ (c = '$' ∨ c = '%')) (h3 : c ≠ '"') (h4 : c ≠ '\n') (h5 : c ≠ '\r') :
    unescape (fuel+1) (c :: E) = (c :: ·) <$> unescape fuel E := by
  rw [unescape_cons]; simp [h1, h2, h3, h4, h5]

/-! ## what `escape` starts with -/

/-- `E` does not start an interpolation after a `c`: not `{…` and not `c{…` -/
def Safe (c : Char) (E : List Char) : Prop :=
  (∀ r, E ≠ '{' :: r) ∧ (∀ r, E ≠ c :: '{' :: r)

theorem unescape_intro_safe (fuel : Nat) (c : Char) (hc : c = '$' ∨ c = '%') (E : List Char)
    (hE : Safe c E) : unescape (fuel+1) (c :: E) = (c :: ·) <$> unescape fuel E := by
  have hbs : c ≠ '\\' := by rcases hc with h | h <;> subst h <;> decide
  rw [unescape_cons]
  simp only [hbs, if_false, hc, if_true]
  split
  · next r => exact absurd rfl (hE.1 _)
  · next c' r _ =>
    split
    · next h => subst h; exact absurd rfl (hE.2 r)
    · rfl
  · rfl

theorem unescape_intro_doubled (fuel : Nat) (c : Char) (hc : c = '$' ∨ c = '%') (E : List Char) :
    unescape (fuel+1) (c :: c :: '{' :: E) = (fun t => c :: '{' :: t) <$> unescape fuel E := by
  rcases hc with h | h <;> subst h <;> (rw [unescape_cons]; simp)

theorem pre_head_bs (isPrint : Char → Bool) (d : Char) (t : List Char)
    (hd : ¬ (d = '$' ∨ d = '%')) (hp : ¬ (isPrint d = true ∧ d ≠ '\n' ∧ d ≠ '\r' ∧ d ≠ '\t' ∧ d ≠ '"' ∧ d ≠ '\\')) :
    ∃ x r, pre isPrint d t = '\\' :: x :: r := by
  unfold pre
  repeat' split
  all_goals first
    | exact ⟨_, _, rfl⟩
    | (exfalso; apply hp; simp_all)

theorem escape_head_brace (isPrint : Char → Bool) (s : List Char) (r : List Char)
    (h : escape isPrint s = '{' :: r) : ∃ t, s = '{' :: t := by
  cases s with
  | nil => simp [escape] at h
  | cons d t =>
    rw [escape_cons] at h
    by_cases hd : d = '$' ∨ d = '%'
    · have hne : d ≠ '{' := by rcases hd with e | e <;> subst e <;> decide
      have : ∃ r', pre isPrint d t = d :: r' := by
        have h1 : d ≠ '\n' := by rcases hd with e | e <;> subst e <;> decide
        have h2 : d ≠ '\r' := by rcases hd with e | e <;> subst e <;> decide
        have h3 : d ≠ '\t' := by rcases hd with e | e <;> subst e <;> decide
        have h4 : d ≠ '"' := by rcases hd with e | e <;> subst e <;> decide
        have h5 : d ≠ '\\' := by rcases hd with e | e <;> subst e <;> decide
        unfold pre
        simp only [h1, h2, h3, h4, h5, hd, if_false, if_true]
        split <;> exact ⟨_, rfl⟩
      obtain ⟨r', hr'⟩ := this
      rw [hr'] at h
      simp at h
      exact absurd h.1 hne
    · by_cases hp : isPrint d = true ∧ d ≠ '\n' ∧ d ≠ '\r' ∧ d ≠ '\t' ∧ d ≠ '"' ∧ d ≠ '\\'
      · have : pre isPrint d t = [d] := by
          unfold pre; simp [hp, hd]
        rw [this] at h
        simp at h
        exact ⟨t, by rw [h.1]⟩
      · obtain ⟨x, r', hr'⟩ := pre_head_bs isPrint d t hd hp
        rw [hr'] at h
        simp at h

theorem escape_safe (isPrint : Char → Bool) (c : Char)
    (hc : c = '$' ∨ c = '%') (s : List Char) (hs : ∀ t, s ≠ '{' :: t) :
    Safe c (escape isPrint s) := by
  refine ⟨fun r h => ?_, fun r h => ?_⟩
  · obtain ⟨t, ht⟩ := escape_head_brace isPrint s r h
    exact hs t ht
  · have hbs : c ≠ '\\' := by rcases hc with h | h <;> subst h <;> decide
    cases s with
    | nil => simp [escape] at h
    | cons d t =>
      rw [escape_cons] at h
      by_cases hd : d = '$' ∨ d = '%'
      · have h1 : d ≠ '\n' := by rcases hd with e | e <;> subst e <;> decide
        have h2 : d ≠ '\r' := by rcases hd with e | e <;> subst e <;> decide
        have h3 : d ≠ '\t' := by rcases hd with e | e <;> subst e <;> decide
        have h4 : d ≠ '"' := by rcases hd with e | e <;> subst e <;> decide
        have h5 : d ≠ '\\' := by rcases hd with e | e <;> subst e <;> decide
        have hne : d ≠ '{' := by rcases hd with e | e <;> subst e <;> decide
        unfold pre at h
        simp only [h1, h2, h3, h4, h5, hd, if_false, if_true] at h
        split at h
        · simp at h
          exact hne h.2.1
        · next hnb =>
          simp at h
          obtain ⟨t', ht'⟩ := escape_head_brace isPrint t r h.2
          exact hnb _ ht'
      · by_cases hp : isPrint d = true ∧ d ≠ '\n' ∧ d ≠ '\r' ∧ d ≠ '\t' ∧ d ≠ '"' ∧ d ≠ '\\'
        · have : pre isPrint d t = [d] := by
            unfold pre; simp [hp, hd]
          rw [this] at h
          simp at h
          rw [h.1] at hd
          exact hd hc
        · obtain ⟨x, r', hr'⟩ := pre_head_bs isPrint d t hd hp
          rw [hr'] at h
          simp at h
          exact hbs h.1.symm

/-! ## the round trip -/

theorem unescape_escape_aux (isPrint : Char → Bool) (hb : isPrint '{' = true) (n : Nat) :
    ∀ s : List Char, s.length ≤ n →
      ∀ fuel, (escape isPrint s).length < fuel → unescape fuel (escape isPrint s) = some s := by
  induction n with
  | zero =>
    intro s hs fuel h
    have : s = [] := List.eq_nil_of_length_eq_zero (by omega)
    subst this
    cases fuel with
    | zero => simp at h
    | succ f => simp [escape, unescape]
  | succ n ih =>
    intro s hs fuel h
    cases s with
    | nil =>
      cases fuel with
      | zero => simp at h
      | succ f => simp [escape, unescape]
    | cons c rest =>
    rw [escape_cons] at h ⊢
    have hpos := pre_length_pos isPrint c rest
    rw [List.length_append] at h
    obtain ⟨f, rfl, hf⟩ : ∃ f', fuel = f' + 1 ∧ (escape isPrint rest).length < f' :=
      ⟨fuel - 1, by omega, by omega⟩
    have ihf := ih rest (by simpa using hs) f hf
    unfold pre
    split
    · next hc => subst hc; rw [List.cons_append, unescape_cons]; simp [ihf]
    split
    · next hc => subst hc; rw [List.cons_append, unescape_cons]; simp [ihf]
    split
    · next hc => subst hc; rw [List.cons_append, unescape_cons]; simp [ihf]
    split
    · next hc => subst hc; rw [List.cons_append, unescape_cons]; simp [ihf]
    split
    · next hc => subst hc; rw [List.cons_append, unescape_cons]; simp [ihf]
    next hn1 hn2 hn3 hn4 hn5 =>
    split
    · next hd =>
      -- `$` / `%`
      split
      · next t =>
        -- followed by `{`: doubled
        have hE : escape isPrint ('{' :: t) = '{' :: escape isPrint t := by
          rw [escape_cons]; unfold pre; simp [hb]
        rw [hE] at hf ⊢
        simp only [List.cons_append, List.nil_append]
        rw [unescape_intro_doubled f c hd]
        simp [ih t (by simp at hs; omega) f (by simp at hf; omega)]
      · next hnb =>
        simp only [List.cons_append, List.nil_append]
        rw [unescape_intro_safe f c hd _ (escape_safe isPrint c hd rest hnb)]
        simp [ihf]
    next hd =>
    split
    · next hp =>
      -- not printable: `\uXXXX` / `\UXXXXXXXX`
      split
      · next hlt =>
        simp only [List.cons_append]
        rw [unescape_cons]
        simp [hexNum_hexN 4 c.toNat (by simpa using hlt), scalar_toNat, ihf]
      · next hlt =>
        have hv : c.toNat < 16 ^ 8 := by
          have hv : c.toNat.isValidChar := c.valid
          unfold Nat.isValidChar at hv
          omega
        simp only [List.cons_append]
        rw [unescape_cons]
        simp [hexNum_hexN 8 c.toNat hv, scalar_toNat, ihf]
    · next hp =>
      -- printable, not special: raw
      simp only [List.cons_append, List.nil_append]
      rw [unescape_raw f c _ hn5 hd hn4 hn1 hn2]
      simp [ihf]

theorem unescape_escape (isPrint : Char → Bool) (hb : isPrint '{' = true) (s : List Char)
    (fuel : Nat) (h : (escape isPrint s).length < fuel) :
    unescape fuel (escape isPrint s) = some s :=
  unescape_escape_aux isPrint hb s.length s (Nat.le_refl _) fuel h

theorem parseQuoted_escape (isPrint : Char → Bool) (hb : isPrint '{' = true) (s : List Char) :
    parseQuoted (escape isPrint s) = some s :=
  unescape_escape isPrint hb s _ (Nat.lt_succ_self _)

/-- without `isPrint '{'` the round trip fails: `${` is written `$${`, which reads back as `$${` -/
theorem escape_not_roundtrip_of_brace_unprintable :
    parseQuoted (escape (fun _ => false) ['$', '{']) = some ['$', '$', '{'] := by
  decide

end HclModel.StringLit.Proofs
