import HclModel.Expr.Taint
/-!
C19: the definitions (`tw`, `untainted`, `fragsClean`, `twEnv`, `exactEnv`, `TaintFuncs`, `vclean`, `fclean`,
`simple`, `litsFree`) live in `HclModel/Expr/Taint.lean`, so that the driver can evaluate the side condition.
-/
