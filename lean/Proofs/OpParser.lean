import HclModel.Syntax.OpParser
namespace HclModel.OpParser

theorem loopLevel_below (T : Tbl) (fuel d : Nat) (lhs : E) (toks : List Tok)
    (h : Below T (d+1) toks) : loopLevel T fuel d lhs toks = some (lhs, toks) := by
  cases toks with
  | nil => unfold loopLevel; simp
  | cons t rest =>
    cases t with
    | op k =>
      have : T.lv k ≠ some d := by
        intro hk; have := h d hk; omega
      unfold loopLevel; simp [this]
    | atom n => unfold loopLevel; simp
    | lp => unfold loopLevel; simp
    | rp => unfold loopLevel; simp

theorem Below_mono (T : Tbl) {i j : Nat} (hij : i ≤ j) {toks} (h : Below T j toks) : Below T i toks := by
  cases toks with
  | nil => trivial
  | cons t rest =>
    cases t with
    | op k =>
      simp only [Below] at h ⊢
      intro a ha; have := h a ha; omega
    | atom n => trivial
    | lp => trivial
    | rp => trivial

theorem loops_below (T : Tbl) (fuel : Nat) : ∀ (n a : Nat) (lhs : E) (toks : List Tok),
    Below T (a + n) toks → loops T fuel a n lhs toks = some (lhs, toks)
  | 0, a, lhs, toks, _ => by simp [loops]
  | n+1, a, lhs, toks, h => by
    have h1 : Below T (a+1) toks := Below_mono T (by omega) h
    simp [loops, loopLevel_below T fuel a lhs toks h1]
    exact loops_below T fuel n (a+1) lhs toks (by simpa [Nat.add_assoc, Nat.add_comm 1 n] using h)

/-- unrolling: parseLevel at depth a+n = parseLevel at depth a, then loops a+1 … a+n -/
theorem parseLevel_unroll (T : Tbl) (fuel : Nat) : ∀ (n a : Nat) (toks : List Tok),
    parseLevel T fuel (a + n) toks =
      match parseLevel T fuel a toks with
      | none => none
      | some (lhs, r) => loops T fuel (a+1) n lhs r
  | 0, a, toks => by
    simp [loops]; cases parseLevel T fuel a toks <;> simp
  | n+1, a, toks => by
    have ih := parseLevel_unroll T fuel n a toks
    rw [show a + (n+1) = (a + n) + 1 by omega, parseLevel.eq_def]; simp only []; rw [ih]
    cases h : parseLevel T fuel a toks with
    | none => simp
    | some p =>
      obtain ⟨lhs, r⟩ := p
      simp only []
      have key : ∀ (m b : Nat) (x : E) (ts : List Tok),
          (match loops T fuel b m x ts with
            | none => none
            | some (l', r') => loopLevel T fuel (b + m) l' r') = loops T fuel b (m+1) x ts := by
        intro m
        induction m with
        | zero => intro b x ts; simp [loops]; cases loopLevel T fuel b x ts <;> simp
        | succ m ihm =>
          intro b x ts
          simp only [loops]
          cases hl : loopLevel T fuel b x ts with
          | none => simp
          | some q =>
            obtain ⟨l', r'⟩ := q
            simp only []
            have := ihm (b+1) l' r'
            rw [show b + 1 + m = b + (m+1) by omega] at this
            rw [this]; simp [loops]
      have := key n (a+1) lhs r
      rw [show a + 1 + n = a + n + 1 by omega] at this
      exact this

/-- a completed parse at depth 0 followed by tokens that no loop ≤ d touches -/
theorem parseLevel_of_term (T : Tbl) (fuel d : Nat) (toks rest : List Tok) (e : E)
    (ht : parseTerm T fuel toks = some (e, rest)) (hb : Below T (d+1) rest) :
    parseLevel T fuel d toks = some (e, rest) := by
  have := parseLevel_unroll T fuel d 0 toks
  simp only [Nat.zero_add] at this
  rw [this, parseLevel.eq_def]; simp only [ht]
  exact loops_below T fuel d 1 e rest (by simpa [Nat.add_comm] using hb)

/-! ### left spine decomposition -/

def size : E → Nat
  | .atom _ => 1
  | .bin _ l r => size l + size r + 1
  | .paren e => size e + 1

def spine (T : Tbl) (j : Nat) : E → E × List (Nat × E)
  | .bin k l r =>
    if T.lv k = some j then ((spine T j l).1, (spine T j l).2 ++ [(k, r)]) else (.bin k l r, [])
  | .atom n => (.atom n, [])
  | .paren e => (.paren e, [])

def flat : List (Nat × E) → List Tok
  | [] => []
  | (k, r) :: ps => Tok.op k :: (render r ++ flat ps)

def rebuild (b : E) (ps : List (Nat × E)) : E := ps.foldl (fun acc p => E.bin p.1 acc p.2) b

def costs : List (Nat × E) → Nat
  | [] => 0
  | (_, r) :: ps => 1 + cost r + costs ps

theorem flat_append (ps qs : List (Nat × E)) : flat (ps ++ qs) = flat ps ++ flat qs := by
  induction ps with
  | nil => simp [flat]
  | cons p ps ih => obtain ⟨k, r⟩ := p; simp [flat, ih]

theorem costs_append (ps qs : List (Nat × E)) : costs (ps ++ qs) = costs ps + costs qs := by
  induction ps with
  | nil => simp [costs]
  | cons p ps ih => obtain ⟨k, r⟩ := p; simp [costs, ih]; omega

theorem spine_render (T : Tbl) (j : Nat) (e : E) :
    render e = render (spine T j e).1 ++ flat (spine T j e).2 := by
  induction e with
  | atom n => simp [spine, flat]
  | paren e _ => simp [spine, flat]
  | bin k l r ihl _ =>
    simp only [spine]
    split
    · simp only [render, flat_append, flat, List.append_nil]
      rw [ihl]; simp
    · simp [flat]

theorem spine_rebuild (T : Tbl) (j : Nat) (e : E) :
    rebuild (spine T j e).1 (spine T j e).2 = e := by
  induction e with
  | atom n => simp [spine, rebuild]
  | paren e _ => simp [spine, rebuild]
  | bin k l r ihl _ =>
    simp only [spine]
    split
    · simp only [rebuild, List.foldl_append, List.foldl_cons, List.foldl_nil]
      have := ihl; simp only [rebuild] at this; rw [this]
    · simp [rebuild]

theorem spine_cost (T : Tbl) (j : Nat) (e : E) :
    cost e = cost (spine T j e).1 + costs (spine T j e).2 := by
  induction e with
  | atom n => simp [spine, costs]
  | paren e _ => simp [spine, costs]
  | bin k l r ihl _ =>
    simp only [spine]
    split
    · simp only [cost, costs_append, costs]; rw [ihl]; omega
    · simp [costs]

theorem WP_bin_inv {T : Tbl} {d k : Nat} {l r : E} (h : WP T d (.bin k l r)) :
    ∃ j, T.lv k = some j ∧ j ≤ d ∧ WP T j l ∧ WP T (j-1) r := by
  cases h with
  | bin _ _ j _ _ h1 h2 h3 h4 => exact ⟨j, h1, h2, h3, h4⟩

theorem WP_paren_inv {T : Tbl} {d : Nat} {e : E} (h : WP T d (.paren e)) : WP T T.L e := by
  cases h with
  | paren _ _ h1 => exact h1

/-- facts about the spine of a term that is printable at depth j -/
theorem spine_facts (T : Tbl) (j : Nat) (hj : 1 ≤ j) : ∀ (e : E), WP T j e →
    WP T (j-1) (spine T j e).1 ∧ size (spine T j e).1 ≤ size e ∧
    ((spine T j e).2 ≠ [] → size (spine T j e).1 < size e) ∧
    (∀ p ∈ (spine T j e).2, T.lv p.1 = some j ∧ WP T (j-1) p.2 ∧ size p.2 < size e) := by
  intro e
  induction e with
  | atom n => intro _; simp [spine]; exact WP.atom _ _
  | paren e _ => intro h; simp [spine]; exact WP.paren _ _ (WP_paren_inv h)
  | bin k l r ihl _ =>
    intro h
    obtain ⟨j', hk, hle, hl, hr⟩ := WP_bin_inv h
    simp only [spine]
    by_cases hkj : T.lv k = some j
    · have : j' = j := by rw [hk] at hkj; exact Option.some.inj hkj
      subst this
      obtain ⟨b1, b2, b3, b4⟩ := ihl hl
      simp only [hkj, if_true]
      refine ⟨b1, ?_, ?_, ?_⟩
      · simp only [size]; omega
      · intro _; simp only [size]; omega
      · intro p hp
        rcases List.mem_append.mp hp with hp | hp
        · obtain ⟨c1, c2, c3⟩ := b4 p hp
          exact ⟨c1, c2, by simp only [size]; omega⟩
        · simp at hp; subst hp
          exact ⟨hkj, hr, by simp only [size]; omega⟩
    · simp only [hkj, if_false]
      have hlt : j' ≤ j - 1 := by
        have : j' ≠ j := by intro e; apply hkj; rw [hk, e]
        omega
      refine ⟨WP.bin _ k j' l r hk hlt hl hr, Nat.le_refl _, ?_, ?_⟩
      · intro h; exact absurd rfl h
      · intro p hp; simp at hp

theorem flat_below (T : Tbl) (j : Nat) (ps : List (Nat × E)) (rest : List Tok)
    (hps : ∀ p ∈ ps, T.lv p.1 = some j) (hr : Below T j rest) : Below T j (flat ps ++ rest) := by
  cases ps with
  | nil => simpa [flat] using hr
  | cons p ps =>
    obtain ⟨k, r⟩ := p
    simp only [flat, List.cons_append, Below]
    intro i hi
    have := hps (k, r) (by simp)
    simp only at this
    rw [this] at hi; have := Option.some.inj hi; omega

theorem loop_pairs (T : Tbl) (j : Nat) (hj : 1 ≤ j) (P : E → Prop)
    (IH : ∀ r, P r → ∀ fuel rest, cost r ≤ fuel → Below T j rest →
        parseLevel T fuel (j-1) (render r ++ rest) = some (r, rest)) :
    ∀ (ps : List (Nat × E)) (acc : E) (fuel : Nat) (rest : List Tok),
      (∀ p ∈ ps, T.lv p.1 = some j ∧ P p.2) → costs ps ≤ fuel → Below T (j+1) rest →
      loopLevel T fuel j acc (flat ps ++ rest) = some (rebuild acc ps, rest) := by
  intro ps
  induction ps with
  | nil =>
    intro acc fuel rest _ _ hb
    simpa [flat, rebuild] using loopLevel_below T fuel j acc rest hb
  | cons p ps ih =>
    intro acc fuel rest hps hc hb
    obtain ⟨k, r⟩ := p
    have hk := (hps (k, r) (by simp)).1
    have hPr := (hps (k, r) (by simp)).2
    simp only at hk hPr
    simp only [costs] at hc
    obtain ⟨f, rfl⟩ : ∃ f, fuel = f + 1 := ⟨fuel - 1, by omega⟩
    obtain ⟨j', rfl⟩ : ∃ j', j = j' + 1 := ⟨j - 1, by omega⟩
    have hps' : ∀ p ∈ ps, T.lv p.1 = some (j'+1) ∧ P p.2 := fun p hp => hps p (by simp [hp])
    have hbelow : Below T (j'+1) (flat ps ++ rest) :=
      flat_below T (j'+1) ps rest (fun p hp => (hps' p hp).1) (Below_mono T (by omega) hb)
    have hr := IH r hPr f (flat ps ++ rest) (by omega) hbelow
    simp only [Nat.add_sub_cancel] at hr
    unfold loopLevel
    simp only [flat, List.cons_append, List.append_assoc, hk, if_true, hr]
    have := ih (E.bin k acc r) f rest hps' (by omega) hb
    simpa [rebuild] using this

theorem main (T : Tbl) : ∀ (n : Nat) (e : E), size e ≤ n → ∀ (d fuel : Nat) (rest : List Tok),
    WP T d e → cost e ≤ fuel → Below T (d+1) rest →
    parseLevel T fuel d (render e ++ rest) = some (e, rest) := by
  intro n
  induction n with
  | zero => intro e h; cases e <;> simp [size] at h
  | succ n ih =>
    intro e hs d fuel rest hwp hc hb
    cases e with
    | atom m =>
      apply parseLevel_of_term T fuel d _ rest _ _ hb
      unfold parseTerm; simp [render]
    | paren e' =>
      simp only [cost] at hc
      obtain ⟨f, rfl⟩ : ∃ f, fuel = f + 1 := ⟨fuel - 1, by omega⟩
      have hin := ih e' (by simp only [size] at hs; omega) T.L f (Tok.rp :: rest)
        (WP_paren_inv hwp) (by omega) (by simp [Below])
      apply parseLevel_of_term T (f+1) d _ rest _ _ hb
      unfold parseTerm
      simp only [render, List.cons_append, List.append_assoc, List.nil_append, hin]
    | bin k l r =>
      obtain ⟨j, hk, hle, hl, hr⟩ := WP_bin_inv hwp
      have hj : 1 ≤ j := (T.ok k j hk).1
      have hwpj : WP T j (E.bin k l r) := WP.bin _ k j l r hk (Nat.le_refl _) hl hr
      obtain ⟨b1, b2, b3, b4⟩ := spine_facts T j hj _ hwpj
      have hne : (spine T j (E.bin k l r)).2 ≠ [] := by simp [spine, hk]
      have hrender := spine_render T j (E.bin k l r)
      have hcost := spine_cost T j (E.bin k l r)
      have hreb := spine_rebuild T j (E.bin k l r)
      generalize hsp : spine T j (E.bin k l r) = sp at *
      obtain ⟨b, ps⟩ := sp
      simp only at b1 b2 b3 b4 hne hrender hcost hreb
      have hbs : size b ≤ n := by have := b3 hne; omega
      obtain ⟨j', rfl⟩ : ∃ j', j = j' + 1 := ⟨j - 1, by omega⟩
      simp only [Nat.add_sub_cancel] at b1 b4
      -- parse the base at depth j'
      have hbase := ih b hbs j' fuel (flat ps ++ rest) b1 (by omega)
        (flat_below T (j'+1) ps rest (fun p hp => (b4 p hp).1) (Below_mono T (by omega) hb))
      -- then the loop at depth j'+1 eats all the pairs
      have hloop := loop_pairs T (j'+1) hj (fun r => WP T j' r ∧ size r ≤ n)
        (by
          intro r ⟨h1, h2⟩ fuel' rest' hc' hb'
          simpa using ih r h2 j' fuel' rest' h1 hc' (by simpa using hb'))
        ps b fuel rest
        (by intro p hp; obtain ⟨c1, c2, c3⟩ := b4 p hp; exact ⟨c1, c2, by omega⟩)
        (by omega) (Below_mono T (by omega) hb)
      have hlevel : parseLevel T fuel (j'+1) (render b ++ (flat ps ++ rest)) = some (E.bin k l r, rest) := by
        rw [parseLevel.eq_def]; simp only [hbase, hloop, hreb]
      -- outer loops do nothing
      have hun := parseLevel_unroll T fuel (d - (j'+1)) (j'+1) (render b ++ (flat ps ++ rest))
      rw [show j' + 1 + (d - (j'+1)) = d by omega] at hun
      rw [hrender, List.append_assoc, hun, hlevel]
      exact loops_below T fuel _ _ _ _ (by rw [show j' + 1 + 1 + (d - (j'+1)) = d + 1 by omega]; exact hb)

theorem cost_le_length (e : E) : cost e ≤ (render e).length := by
  induction e with
  | atom n => simp [cost, render]
  | paren e ih => simp [cost, render]; omega
  | bin k l r ihl ihr => simp [cost, render]; omega

/-- ROUND TRIP: for every level table and every well-parenthesised AST -/
theorem parse_render (T : Tbl) (e : E) (h : WP T T.L e) : parse T (render e) = some e := by
  have := main T (size e) e (Nat.le_refl _) T.L (render e).length [] h (cost_le_length e) (by simp [Below])
  simp only [List.append_nil] at this
  simp [parse, this]


end HclModel.OpParser
