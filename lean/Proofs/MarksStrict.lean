import Proofs.MarksNI
/-!
C06: when no sub-evaluation fails, dropping the discarded diagnostics changes nothing (`strict_agrees`).
-/
set_option linter.unusedSimpArgs false
namespace HclModel.Proofs
open Val

theorem unsupOnly_nil (kept : List Diag) : unsupOnly [] kept = [] := by
  unfold unsupOnly; split <;> simp

theorem shortCircuit_ds {op : BinOp} {l r v : Val} {ds : List Diag}
    (h : shortCircuit op l r [] [] = some (v, ds)) : ds = [] := by
  unfold shortCircuit at h
  simp only [] at h
  split at h
  · repeat' (split at h)
    all_goals (first | (cases h; rfl) | cases h)
  · repeat' (split at h)
    all_goals (first | (cases h; rfl) | cases h)
  · cases h

theorem evalBin_keep (op : BinOp) (lo ro : Out) (hl : lo.2 = []) (hr : ro.2 = []) :
    evalBin false op lo ro = evalBin true op lo ro := by
  obtain ⟨gl, ld⟩ := lo
  obtain ⟨gr, rd⟩ := ro
  simp only [] at hl hr
  subst hl; subst hr
  unfold evalBin
  simp only []
  split
  · simp only [unmark]
    split
    · rename_i v ds hs
      simp [shortCircuit_ds hs, unsupOnly_nil]
    · rfl
  · rfl

theorem evalCond_keep (co to fo : Out) (hc : co.2 = []) (ht : to.2 = []) (hf : fo.2 = []) :
    evalCond false co to fo = evalCond true co to fo := by
  unfold evalCond
  simp [hc, ht, hf, unsupOnly_nil]

theorem forFold_agree (stepf stepf' : ForSt → Val × Val → ForSt)
    (hdiag : ∀ st kv, (stepf st kv).diags = [] → st.diags = [])
    (hstep : ∀ st kv, (stepf st kv).diags = [] → stepf' st kv = stepf st kv) :
    ∀ (els : List (Val × Val)) (st : ForSt), (els.foldl stepf st).diags = [] → els.foldl stepf' st = els.foldl stepf st
  | [], _, _ => rfl
  | kv :: els, st, h => by
    simp only [List.foldl_cons] at h ⊢
    rw [hstep st kv (forFold_diags stepf hdiag els _ h)]
    exact forFold_agree stepf stepf' hdiag hstep els _ h

theorem forOut_agree (co : Out) (probe probe' : Option Out) (stepf stepf' : ForSt → Val × Val → ForSt)
    (fin : ForSt → Out) (hfind : ∀ st, (fin st).2 = st.diags)
    (hdiag : ∀ st kv, (stepf st kv).diags = [] → st.diags = [])
    (hprobe : (∀ o, probe = some o → o.2 = []) → probe' = probe)
    (hstep : ∀ st kv, (stepf st kv).diags = [] → stepf' st kv = stepf st kv)
    (h : (forOut co probe stepf fin).2 = []) : forOut co probe' stepf' fin = forOut co probe stepf fin := by
  obtain ⟨cv, cd⟩ := co
  unfold forOut at h ⊢
  simp only [] at h ⊢
  split
  · rfl
  rename_i hn
  simp only [hn, if_false] at h
  split
  · rfl
  rename_i hd
  simp only [hd, if_false, unmark, typeOf_setFl] at h ⊢
  cases hc : canIterate cv.typeOf
  · simp [hc]
  simp only [hc, Bool.not_true, Bool.false_eq_true, if_false] at h ⊢
  have hpd : ((probe.map probeCond).map (·.1)).getD [] = [] := by
    cases hp : ((probe.map probeCond).map (·.2.2)).getD false
    · simp only [hp, Bool.false_eq_true, if_false] at h
      cases he : elements (cv.setFl cv.fl.unmark) with
      | none => simp only [he, List.append_eq_nil_iff] at h; exact h.2
      | some els =>
        simp only [he] at h
        rw [hfind] at h
        have := forFold_diags stepf hdiag _ _ h
        simp only [List.append_eq_nil_iff] at this; exact this.2
    · simp only [hp, if_true, List.append_eq_nil_iff] at h; exact h.2
  have := hprobe (probe_diags probe hpd)
  subst this
  split
  · rfl
  rename_i hp
  simp only [hp, if_false, Bool.false_eq_true] at h
  cases he : elements (cv.setFl cv.fl.unmark) with
  | none => rfl
  | some els =>
    simp only [he] at h ⊢
    rw [hfind] at h
    rw [forFold_agree stepf stepf' hdiag hstep els _ h]

/-- the sub-evaluations of the other configuration agree wherever this one is error-free -/
def AgreeOpt (ec ec' : Option (Val → Val → Out)) : Prop :=
  match ec, ec' with
  | none, none => True
  | some c, some c' => ∀ k v, (c k v).2 = [] → c' k v = c k v
  | _, _ => False

theorem tupStep_agree (ev ev' : Val → Val → Out) (hev : ∀ k v, (ev k v).2 = [] → ev' k v = ev k v)
    (st : ForSt) (kv : Val × Val) (h : (tupStep ev st kv).diags = []) : tupStep ev' st kv = tupStep ev st kv := by
  simp only [tupStep, List.append_eq_nil_iff] at h
  simp only [tupStep, hev _ _ h.2]

theorem forTupleStep_agree (ev ev' : Val → Val → Out) (ec ec' : Option (Val → Val → Out))
    (hev : ∀ k v, (ev k v).2 = [] → ev' k v = ev k v) (hec : AgreeOpt ec ec')
    (st : ForSt) (kv : Val × Val) (h : (forTupleStep ev ec st kv).diags = []) :
    forTupleStep ev' ec' st kv = forTupleStep ev ec st kv := by
  cases ec with
  | none =>
    cases ec' with
    | some c' => exact absurd hec (by simp [AgreeOpt])
    | none => rw [forTupleStep_none] at h ⊢; rw [forTupleStep_none]; exact tupStep_agree ev ev' hev st kv h
  | some c =>
    cases ec' with
    | none => exact absurd hec (by simp [AgreeOpt])
    | some c' =>
      simp only [AgreeOpt] at hec
      rw [forTupleStep_some] at h ⊢
      rw [forTupleStep_some]
      have hid : (c kv.1 kv.2).2 = [] := by
        simp only [] at h
        split at h
        · split at h <;> simp_all
        · split at h
          · simp_all
          · split at h
            · split at h <;> simp_all
            · simp_all
            · simp only [tupStep, List.append_eq_nil_iff] at h; exact h.1.2
      rw [hec _ _ hid]
      simp only [] at h ⊢
      split
      · rfl
      · rename_i hn
        simp only [hn, if_false] at h
        split
        · rfl
        · rename_i hk
          simp only [hk, if_false] at h
          split
          · rfl
          · rfl
          · rename_i hc1 hc2
            apply tupStep_agree ev ev' hev
            split at h
            all_goals (first | exact h | simp_all)

theorem objStep_agree (g : Bool) (ek ek' ev ev' : Val → Val → Out)
    (hek : ∀ k v, (ek k v).2 = [] → ek' k v = ek k v) (hev : ∀ k v, (ev k v).2 = [] → ev' k v = ev k v)
    (st : ForSt) (kv : Val × Val) (h : (objStep g ek ev st kv).diags = []) :
    objStep g ek' ev' st kv = objStep g ek ev st kv := by
  have hkd := (objStep_diags _ _ _ _ _ h).2
  unfold objStep at h ⊢
  rw [hek _ _ hkd]
  simp only [] at h ⊢
  split
  · rfl
  · rename_i hn
    simp only [hn, if_false] at h
    split
    · rfl
    · rename_i hk
      simp only [hk, if_false] at h
      split
      · rfl
      · rename_i ks hc
        simp only [hc] at h
        split
        · rename_i kf k hks
          simp only [hks] at h
          have hvd : (ev kv.1 kv.2).2 = [] := by
            (repeat' split at h) <;> simp_all
          rw [hev _ _ hvd]
        · rfl

theorem forObjectStep_agree (g : Bool) (ek ek' ev ev' : Val → Val → Out) (ec ec' : Option (Val → Val → Out))
    (hek : ∀ k v, (ek k v).2 = [] → ek' k v = ek k v) (hev : ∀ k v, (ev k v).2 = [] → ev' k v = ev k v)
    (hec : AgreeOpt ec ec') (st : ForSt) (kv : Val × Val) (h : (forObjectStep g ek ev ec st kv).diags = []) :
    forObjectStep g ek' ev' ec' st kv = forObjectStep g ek ev ec st kv := by
  cases ec with
  | none =>
    cases ec' with
    | some c' => exact absurd hec (by simp [AgreeOpt])
    | none =>
      rw [forObjectStep_none] at h ⊢; rw [forObjectStep_none]
      exact objStep_agree g ek ek' ev ev' hek hev st kv h
  | some c =>
    cases ec' with
    | none => exact absurd hec (by simp [AgreeOpt])
    | some c' =>
      simp only [AgreeOpt] at hec
      rw [forObjectStep_some] at h ⊢
      rw [forObjectStep_some]
      have hid : (c kv.1 kv.2).2 = [] := by
        simp only [] at h
        split at h
        · split at h <;> simp_all
        · split at h
          · split at h <;> simp_all
          · split at h
            · simp_all
            · split at h
              · simp_all
              · have := (objStep_diags _ _ _ _ _ h).1; simp_all
      rw [hec _ _ hid]
      simp only [] at h ⊢
      split
      · rfl
      · rename_i hn
        simp only [hn, if_false] at h
        split
        · rfl
        · rename_i b hc
          simp only [hc] at h
          split
          · rfl
          · rename_i hk
            simp only [hk, if_false] at h
            split
            · rfl
            · apply objStep_agree g ek ek' ev ev' hek hev
              split at h
              all_goals (first | exact h | simp_all)

theorem splatResultTy_agree (each each' : Val → Out) (hag : ∀ it, (each it).2 = [] → each' it = each it)
    (sv : Val) (h : (splatResultTy each sv).2 = []) : splatResultTy each' sv = splatResultTy each sv := by
  unfold splatResultTy at h ⊢
  simp only [] at h ⊢
  split
  · rename_i t ht
    simp only [ht] at h
    rw [hag _ h]
  · rename_i ts hts
    simp only [hts] at h
    have : ts.map (fun t => (((each' (Val.unk Fl.none t)).1.typeOf, (each' (Val.unk Fl.none t)).2) : Ty × List Diag)) =
        ts.map (fun t => ((each (Val.unk Fl.none t)).1.typeOf, (each (Val.unk Fl.none t)).2)) := by
      apply List.map_congr_left
      intro t ht
      simp only [List.flatMap_eq_nil_iff, List.mem_map, forall_exists_index, and_imp, forall_apply_eq_imp_iff₂] at h
      rw [hag _ (h t ht)]
    simp only [this]
  · rfl

theorem splatFinish_agree (sv : Val) (sm : Fl) (rt rt' : Ty × List Diag) (vals : List Val) (ds : List Diag)
    (hrt : rt.2 = [] → rt' = rt) (h : (splatFinish sv sm rt vals ds).2 = []) :
    splatFinish sv sm rt' vals ds = splatFinish sv sm rt vals ds := by
  unfold splatFinish at h ⊢
  split
  · split
    · simp only [] at h
      have : rt.2 = [] := by
        split at h
        · simp only [List.append_eq_nil_iff] at h; exact h.2
        · simp at h
      rw [hrt this]
    · rfl
  · rfl

theorem splatOut_agree (sv : Val) (sd : List Diag) (each each' : Val → Out)
    (hag : ∀ it, (each it).2 = [] → each' it = each it) (h : (splatOut true (sv, sd) each).2 = []) :
    splatOut false (sv, sd) each' = splatOut true (sv, sd) each := by
  have hsd : sd = [] := splatOut_nil (so := (sv, sd)) h
  subst hsd
  rw [splatOut_eq] at h ⊢
  rw [splatOut_eq]
  simp only [hasErrors, List.isEmpty_nil, Bool.not_true, Bool.false_eq_true, if_false, List.nil_append] at h ⊢
  rcases Bool.eq_false_or_eq_true sv.isNull with hn | hn
  · simp only [hn, if_true]
  simp only [hn, Bool.false_eq_true, if_false] at h ⊢
  rcases Bool.eq_false_or_eq_true (sv.typeOf == Ty.dyn) with hd | hd
  · simp only [hd, if_true]
  simp only [hd, Bool.false_eq_true, if_false] at h ⊢
  cases hk : (splatSrc sv).isKnown
  · simp only [hk, Bool.not_false, if_true] at h ⊢
    rw [splatResultTy_agree each each' hag _ h]
  simp only [hk, Bool.not_true, Bool.false_eq_true, if_false] at h ⊢
  have hds : ((splatItems (splatSrc sv).unmark.1).map each).flatMap (·.2) = [] := by
    split at h
    · exact h
    · split at h
      · simp only [if_true, List.append_eq_nil_iff] at h; exact h.1
      · exact splatFinish_diags _ _ _ _ _ h
  have hrs : (splatItems (splatSrc sv).unmark.1).map each' = (splatItems (splatSrc sv).unmark.1).map each := by
    apply List.map_congr_left
    intro it hit
    simp only [List.flatMap_eq_nil_iff, List.mem_map, forall_exists_index, and_imp, forall_apply_eq_imp_iff₂] at hds
    exact hag it (hds it hit)
  rw [hrs]
  rcases Bool.eq_false_or_eq_true (splatAutoUp sv && !sv.isKnown) with hu | hu
  · simp only [hu, if_true]
  simp only [hu, Bool.false_eq_true, if_false] at h ⊢
  have hall := flatMap_nil_all _ hds
  simp only [hasErrors] at hall
  simp only [hall, Bool.not_true, Bool.false_eq_true, if_false] at h ⊢
  exact splatFinish_agree _ _ _ _ _ _ (fun hrt => splatResultTy_agree each each' hag _ hrt) h

/-- the Go configuration with the key-mark repair -/
abbrev goCx (F : Funcs) : Cx := { funcs := F, keepKeyMarks := true, keepDropped := false }

mutual
theorem sa_eval (F : Funcs) : ∀ (e : Expr) (ρ : Env), (eval (strictCx F) ρ e).2 = [] →
    eval (goCx F) ρ e = eval (strictCx F) ρ e
  | .lit v, ρ, _ => rfl
  | .var x, ρ, _ => by rw [eval_var, eval_var]
  | .getAttr e name, ρ, h => by
    rw [eval_getAttr] at h
    rw [eval_getAttr, eval_getAttr, sa_eval F e ρ (getAttrOut_nil' h)]
  | .index e k, ρ, h => by
    rw [eval_index] at h
    have a := indexOut_nil h
    rw [eval_index, eval_index, sa_eval F e ρ a.1, sa_eval F k ρ a.2.1]
    rfl
  | .bin op l r, ρ, h => by
    rw [eval_bin] at h
    have a := evalBin_nil' h
    rw [eval_bin, eval_bin, sa_eval F l ρ a.1, sa_eval F r ρ a.2]
    exact evalBin_keep op _ _ a.1 a.2
  | .un op e, ρ, h => by
    rw [eval_un] at h
    rw [eval_un, eval_un, sa_eval F e ρ (evalUn_nil' h)]
  | .cond c t f, ρ, h => by
    rw [eval_cond] at h
    have a := evalCond_nil' h
    rw [eval_cond, eval_cond, sa_eval F c ρ a.1, sa_eval F t ρ a.2.1, sa_eval F f ρ a.2.2]
    exact evalCond_keep _ _ _ a.1 a.2.1 a.2.2
  | .tuple es, ρ, h => by
    rw [eval_tuple] at h
    rw [eval_tuple, eval_tuple, sa_list F es ρ h]
  | .object items, ρ, h => by
    rw [eval_object, objectOut_diags] at h
    rw [eval_object, eval_object, sa_items F items ρ h]
  | .forTuple kv vv coll val none, ρ, h => by
    rw [eval_forTuple] at h
    rw [eval_forTuple, eval_forTuple]
    simp only [Option.map_none] at h ⊢
    rw [sa_eval F coll ρ (forOut_nil forTupleFin_diags (forTupleStep_diags _ _) h)]
    refine forOut_agree _ _ _ _ _ _ forTupleFin_diags (forTupleStep_diags _ _) (fun _ => rfl) ?_ h
    intro st kv hd
    exact forTupleStep_agree _ _ _ _ (fun k v hkv => sa_eval F val _ hkv) (by simp [AgreeOpt]) st kv hd
  | .forTuple kv vv coll val (some ce), ρ, h => by
    rw [eval_forTuple] at h
    rw [eval_forTuple, eval_forTuple]
    simp only [Option.map_some] at h ⊢
    rw [sa_eval F coll ρ (forOut_nil forTupleFin_diags (forTupleStep_diags _ _) h)]
    refine forOut_agree _ _ _ _ _ _ forTupleFin_diags (forTupleStep_diags _ _) ?_ ?_ h
    · intro hp
      rw [sa_eval F ce _ (hp _ rfl)]
    · intro st kv hd
      exact forTupleStep_agree _ _ _ _ (fun k v hkv => sa_eval F val _ hkv)
        (by simp only [AgreeOpt]; exact fun k v hkv => sa_eval F ce _ hkv) st kv hd
  | .forObject kv vv coll key val none g, ρ, h => by
    rw [eval_forObject] at h
    rw [eval_forObject, eval_forObject]
    simp only [Option.map_none] at h ⊢
    rw [sa_eval F coll ρ (forOut_nil (forObjectFin_diags g) (forObjectStep_diags _ _ _ _) h)]
    refine forOut_agree _ _ _ _ _ _ (forObjectFin_diags g) (forObjectStep_diags _ _ _ _) (fun _ => rfl) ?_ h
    intro st kv hd
    exact forObjectStep_agree g _ _ _ _ _ _ (fun k v hkv => sa_eval F key _ hkv)
      (fun k v hkv => sa_eval F val _ hkv) (by simp [AgreeOpt]) st kv hd
  | .forObject kv vv coll key val (some ce) g, ρ, h => by
    rw [eval_forObject] at h
    rw [eval_forObject, eval_forObject]
    simp only [Option.map_some] at h ⊢
    rw [sa_eval F coll ρ (forOut_nil (forObjectFin_diags g) (forObjectStep_diags _ _ _ _) h)]
    refine forOut_agree _ _ _ _ _ _ (forObjectFin_diags g) (forObjectStep_diags _ _ _ _) ?_ ?_ h
    · intro hp
      rw [sa_eval F ce _ (hp _ rfl)]
    · intro st kv hd
      exact forObjectStep_agree g _ _ _ _ _ _ (fun k v hkv => sa_eval F key _ hkv)
        (fun k v hkv => sa_eval F val _ hkv)
        (by simp only [AgreeOpt]; exact fun k v hkv => sa_eval F ce _ hkv) st kv hd
  | .splat anon src each, ρ, h => by
    rw [eval_splat] at h
    rw [eval_splat, eval_splat, sa_eval F src ρ (splatOut_nil h)]
    exact splatOut_agree _ _ _ _ (fun it hit => sa_eval F each _ hit) h
  | .template parts, ρ, h => by
    rw [eval_template] at h
    rw [eval_template, eval_template, sa_each F parts ρ (template_nil _ h)]
  | .tjoin t, ρ, h => by
    rw [eval_tjoin] at h
    rw [eval_tjoin, eval_tjoin, sa_eval F t ρ (tjoinOut_nil h)]
  | .call fn args none, ρ, h => by
    rw [eval_call] at h
    rw [eval_call, eval_call]
    cases hfn : F fn with
    | none => simp only [show (strictCx F).funcs = F from rfl, show (goCx F).funcs = F from rfl, hfn]
    | some spec =>
      simp only [show (strictCx F).funcs = F from rfl, show (goCx F).funcs = F from rfl, hfn] at h ⊢
      rw [sa_each F args ρ (callOut_outs_nil h (by intro o ho; cases ho))]
  | .call fn args (some le), ρ, h => by
    rw [eval_call] at h
    rw [eval_call, eval_call]
    cases hfn : F fn with
    | none => simp only [show (strictCx F).funcs = F from rfl, show (goCx F).funcs = F from rfl, hfn]
    | some spec =>
      simp only [show (strictCx F).funcs = F from rfl, show (goCx F).funcs = F from rfl, hfn] at h ⊢
      rw [sa_eval F le ρ (callOut_expand_nil h)]
      cases hx : expandOut (eval (strictCx F) ρ le) with
      | error o => rfl
      | ok p =>
        rw [hx] at h
        rw [sa_each F args ρ (callOut_outs_nil h (by intro o ho; cases ho))]
theorem sa_list (F : Funcs) : ∀ (es : List Expr) (ρ : Env), (evalList (strictCx F) ρ es).2 = [] →
    evalList (goCx F) ρ es = evalList (strictCx F) ρ es
  | [], _, _ => by simp only [evalList]
  | e :: es, ρ, h => by
    rw [evalList_cons] at h
    simp only [List.append_eq_nil_iff] at h
    rw [evalList_cons, evalList_cons, sa_eval F e ρ h.1, sa_list F es ρ h.2]
theorem sa_each (F : Funcs) : ∀ (es : List Expr) (ρ : Env), (∀ o ∈ evalEach (strictCx F) ρ es, o.2 = []) →
    evalEach (goCx F) ρ es = evalEach (strictCx F) ρ es
  | [], _, _ => by simp only [evalEach]
  | e :: es, ρ, h => by
    rw [evalEach_cons] at h
    rw [evalEach_cons, evalEach_cons, sa_eval F e ρ (h _ (by simp)), sa_each F es ρ (fun o ho => h o (by simp [ho]))]
theorem sa_items (F : Funcs) : ∀ (items : List (Expr × Expr)) (ρ : Env),
    (evalItems (strictCx F) ρ items).1.diags = [] → evalItems (goCx F) ρ items = evalItems (strictCx F) ρ items
  | [], _, _ => by simp only [evalItems]
  | (ke, ve) :: rest, ρ, h => by
    rw [evalItems_cons] at h
    obtain ⟨a1, a2, a3⟩ := itemStep_diags h
    rw [evalItems_cons, evalItems_cons, sa_eval F ke ρ a1, sa_eval F ve ρ a2, sa_items F rest ρ a3]
end

theorem strict_agrees (F : Funcs) (e : Expr) (ρ : Env) (h : (eval (strictCx F) ρ e).2 = []) :
    eval { funcs := F, keepKeyMarks := true, keepDropped := false } ρ e = ((eval (strictCx F) ρ e).1, []) := by
  have := sa_eval F e ρ h
  rw [this]
  exact Prod.ext rfl h
end HclModel.Proofs
