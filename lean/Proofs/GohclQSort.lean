import Batteries.Tactic.OpenPrivate
/-!
`Array.qsort` returns a permutation of its input (core has no such lemma in this version): every step of
`qpartition` and `qsort.sort` is a `Vector.swap`.
Used by `Proofs/GohclSchema.lean` to characterise `impliedSchema` by membership only.
-/
namespace HclModel.Gohcl.Proofs
open Vector
open private Array.qsort.sort Array.qpartition.loop from Init.Data.Array.QSort.Basic

theorem qpartition_loop_perm {α : Type} {n : Nat} (lt : α → α → Bool) (lo hi : Nat) (hhi : hi < n) (pivot : α)
    (as : Vector α n) (i k : Nat) (ilo : lo ≤ i) (ik : i ≤ k) (w : k ≤ hi) :
    (Array.qpartition.loop lt lo hi hhi pivot as i k ilo ik w).2 ~ as := by
  fun_induction Array.qpartition.loop lt lo hi hhi pivot as i k ilo ik w with
  | case1 as i k ilo ik w h hlt ih => exact ih.trans (swap_perm _ _)
  | case2 as i k ilo ik w h hlt ih => exact ih
  | case3 as i k ilo ik w h => exact swap_perm (by omega) (by omega)

theorem qpartition_perm {α : Type} {n : Nat} (as : Vector α n) (lt : α → α → Bool) (lo hi : Nat)
    (w : lo ≤ hi) (hlo : lo < n) (hhi : hi < n) :
    (Array.qpartition as lt lo hi w hlo hhi).2 ~ as := by
  unfold Array.qpartition
  refine (qpartition_loop_perm ..).trans ?_
  have p1 : (if lt as[(lo + hi) / 2] as[lo] then as.swap lo ((lo + hi) / 2) else as) ~ as := by
    split
    · exact swap_perm _ _
    · exact .rfl
  generalize (if lt as[(lo + hi) / 2] as[lo] then as.swap lo ((lo + hi) / 2) else as) = as1 at p1 ⊢
  have p2 : (if lt as1[hi] as1[lo] then as1.swap lo hi else as1) ~ as := by
    split
    · exact (swap_perm _ _).trans p1
    · exact p1
  generalize (if lt as1[hi] as1[lo] then as1.swap lo hi else as1) = as2 at p2 ⊢
  split
  · exact (swap_perm _ _).trans p2
  · exact p2

theorem qsort_sort_perm {α : Type} {n : Nat} (lt : α → α → Bool) (as : Vector α n) (lo hi : Nat)
    (w : lo ≤ hi) (hlo : lo < n) (hhi : hi < n) :
    Array.qsort.sort lt as lo hi w hlo hhi ~ as := by
  fun_induction Array.qsort.sort lt as lo hi w hlo hhi with
  | case1 as lo hi w hlo hhi h₁ mid hmid as' heq h₂ =>
    have := qpartition_perm as lt lo hi w hlo hhi
    rw [heq] at this
    exact this
  | case2 as lo hi w hlo hhi h₁ mid hmid as' heq h₂ ih1 _ ih3 =>
    have := qpartition_perm as lt lo hi w hlo hhi
    rw [heq] at this
    exact ih3.trans (ih1.trans this)
  | case3 as lo hi w hlo hhi h₁ => exact .rfl

theorem qsort_perm {α : Type} (as : Array α) (lt : α → α → Bool) (lo hi : Nat) :
    (as.qsort lt lo hi).toList.Perm as.toList := by
  unfold Array.qsort
  split
  · exact .refl _
  · have := (qsort_sort_perm lt as.toVector (min lo (as.size - 1))
      (max (min lo (as.size - 1)) (min hi (as.size - 1))) (by omega) (by omega) (by omega))
    exact Array.perm_iff_toList_perm.1 this.toArray

theorem mem_qsort {α : Type} (as : Array α) (lt : α → α → Bool) (x : α) :
    x ∈ (as.qsort lt).toList ↔ x ∈ as.toList := (qsort_perm as lt _ _).mem_iff

end HclModel.Gohcl.Proofs
