import Proofs.DynWrite
/-!
One level of an expanded body, described per source block: the blocks `XBody.contentCore` hands out are the
concatenation, in source order, of what each source block stands for (`xSeg`); the attributes are the schema's
attributes found in the source body.  Well-formedness predicates of `Props/C18.lean` are stated here as
hypotheses on lists (`StaticOk`, `Schema.nodup`).
-/
namespace HclModel.Dyn.Proofs
open HclModel HclModel.Body HclModel.Dyn HclModel.Body.Proofs

/-! ## lists without duplicates -/

theorem eraseDups_length_le_aux {α : Type} [BEq α] (n : Nat) :
    ∀ l : List α, l.length ≤ n → l.eraseDups.length ≤ l.length := by
  induction n with
  | zero =>
    intro l hl
    cases l with
    | nil => simp
    | cons a as => simp at hl
  | succ n ih =>
    intro l hl
    cases l with
    | nil => simp
    | cons a as =>
      rw [List.eraseDups_cons]
      simp only [List.length_cons] at hl ⊢
      have h1 := List.length_filter_le (fun b => !b == a) as
      have := ih (as.filter fun b => !b == a) (by omega)
      omega

theorem eraseDups_length_le {α : Type} [BEq α] (l : List α) : l.eraseDups.length ≤ l.length :=
  eraseDups_length_le_aux l.length l (Nat.le_refl _)

theorem nodup_of_eraseDups_length {α : Type} [BEq α] [LawfulBEq α] (l : List α)
    (h : l.eraseDups.length = l.length) : l.Nodup := by
  induction l with
  | nil => simp
  | cons a as ih =>
    rw [List.eraseDups_cons] at h
    simp only [List.length_cons, Nat.add_right_cancel_iff] at h
    have h1 := eraseDups_length_le (as.filter fun b => !b == a)
    have h2 := List.length_filter_le (fun b => !b == a) as
    have h3 : (as.filter fun b => !b == a).length = as.length := by omega
    have h4 : as.filter (fun b => !b == a) = as := List.length_filter_eq_length_iff.1 h3 |> List.filter_eq_self.2
    rw [h4] at h
    rw [List.nodup_cons]
    refine ⟨?_, ih h⟩
    intro hm
    have := List.filter_eq_self.1 h4 a hm
    simp at this

/-! ## `wanted` vs. first match -/

theorem find?_reverse_of_nodup (l : List BlockSchema) (ty : String) (h : (l.map (·.type)).Nodup) :
    l.reverse.find? (fun b => b.type == ty) = l.find? (fun b => b.type == ty) := by
  induction l with
  | nil => rfl
  | cons a l ih =>
    simp only [List.map_cons, List.nodup_cons, List.mem_map, not_exists, not_and] at h
    rw [List.reverse_cons, List.find?_append, ih h.2]
    by_cases ha : a.type = ty
    · have : l.find? (fun b => b.type == ty) = none := by
        rw [List.find?_eq_none]
        intro x hx
        have := h.1 x hx
        simp only [beq_iff_eq]
        intro e
        exact this (e.trans ha.symm)
      simp [this, ha]
    · simp [ha]

theorem wanted_eq_find? (s : Schema) (ty : String) (h : (s.blocks.map (·.type)).Nodup) :
    wanted s ty = s.blocks.find? (fun b => b.type == ty) :=
  find?_reverse_of_nodup s.blocks ty h

/-- `wanted` for the extended schema, for a type that is neither `dynamic` nor hidden -/
theorem wanted_ext_of_ne (s : Schema) (hA : List String) (hB : List BlockSchema) (ty : String)
    (h1 : ty ≠ "dynamic") (h2 : ∀ bs ∈ hB, bs.type ≠ ty) :
    wanted (extendSchema s hA hB) ty = wanted s ty := by
  have e1 : hB.reverse.find? (fun b => b.type == ty) = none := by
    rw [List.find?_eq_none]
    intro x hx
    simpa using h2 x (List.mem_reverse.1 hx)
  have e2 : ("dynamic" == ty) = false := by simpa using Ne.symm h1
  simp [wanted, extendSchema, List.reverse_append, List.find?_append, e1, e2]

theorem wanted_ext_dynamic (s : Schema) (hA : List String) (hB : List BlockSchema)
    (h2 : ∀ bs ∈ hB, bs.type ≠ "dynamic") :
    wanted (extendSchema s hA hB) "dynamic" = some ⟨"dynamic", 1⟩ := by
  have e1 : hB.reverse.find? (fun b => b.type == "dynamic") = none := by
    rw [List.find?_eq_none]
    intro x hx
    simpa using h2 x (List.mem_reverse.1 hx)
  simp [wanted, extendSchema, List.reverse_append, List.find?_append, e1]

/-! ## `expandBlocks`, block by block -/

/-- what one raw block stands for (`here` in `expandBlocks`) -/
def xHere (ev : Env → Expr → Out) (ρf : Env) (its : Iters) (hiddenBlocks : List BlockSchema) (s : Schema)
    (raw : Body.Block SBlock) : List XBlock :=
  match raw.body with
  | .dyn type fe itn labels content =>
    if hiddenBlocks.any (·.type == type) then []
    else match s.blocks.find? (·.type == type) with
      | none => []
      | some bs => (expandDyn ev ρf its bs.labelCount type fe itn labels content).1
  | .static _ _ body =>
    if hiddenBlocks.any (·.type == raw.type) then []
    else [⟨raw.type, raw.labels, { src := body, its := its, marks := Fl.none }⟩]

theorem expandBlocks_fst (ev : Env → Expr → Out) (ρf : Env) (its : Iters) (hB : List BlockSchema) (s : Schema)
    (pm : Bool) (l : List (Body.Block SBlock)) :
    (expandBlocks ev ρf its hB s pm l).1 = l.flatMap (xHere ev ρf its hB s) := by
  induction l with
  | nil => rfl
  | cons raw rest ih =>
    rw [List.flatMap_cons, ← ih]
    simp only [expandBlocks, xHere]
    congr 1
    cases raw.body with
    | dyn type fe itn labels content =>
      simp only
      split
      · rfl
      · cases s.blocks.find? (fun x => x.type == type) <;> rfl
    | static t ls body =>
      simp only
      split <;> rfl

/-- what one source block stands for at a level processed with schema `s` while `hB` is hidden -/
def xSeg (ev : Env → Expr → Out) (ρf : Env) (its : Iters) (hB : List BlockSchema) (s : Schema) :
    SBlock → List XBlock
  | .static t ls body =>
    if hB.any (·.type == t) then []
    else match wanted s t with
      | some bs => if ls.length = bs.labelCount then [⟨t, ls, { src := body, its := its, marks := Fl.none }⟩] else []
      | none => []
  | .dyn t fe itn labels content =>
    if hB.any (·.type == t) then []
    else match s.blocks.find? (·.type == t) with
      | none => []
      | some bs => (expandDyn ev ρf its bs.labelCount t fe itn labels content).1

/-- no static block is called `dynamic` -/
def StaticOk (blocks : List SBlock) : Prop :=
  ∀ blk ∈ blocks, match blk with | .static t _ _ => t ≠ "dynamic" | .dyn .. => True

theorem StaticOk.tail {blk : SBlock} {rest : List SBlock} (h : StaticOk (blk :: rest)) : StaticOk rest :=
  fun b hb => h b (by simp [hb])

theorem flatMap_filter_native (ev : Env → Expr → Out) (ρf : Env) (its : Iters) (hA : List String)
    (hB : List BlockSchema) (s : Schema) (blocks : List SBlock)
    (hdyn : ∀ bs ∈ hB, bs.type ≠ "dynamic") (hst : StaticOk blocks) :
    ((blocks.map SBlock.native).filter (bgood [] (extendSchema s hA hB))).flatMap (xHere ev ρf its hB s) =
      blocks.flatMap (xSeg ev ρf its hB s) := by
  induction blocks with
  | nil => rfl
  | cons blk rest ih =>
    rw [List.map_cons, List.filter_cons, List.flatMap_cons, ← ih hst.tail]
    have hblk := hst blk (by simp)
    cases blk with
    | dyn t fe itn labels content =>
      have : bgood [] (extendSchema s hA hB) (SBlock.native (.dyn t fe itn labels content)) = true := by
        simp [bgood, SBlock.native, wanted_ext_dynamic s hA hB hdyn]
      rw [if_pos this, List.flatMap_cons]
      rfl
    | static t ls body =>
      simp only at hblk
      by_cases hh : hB.any (·.type == t) = true
      · have e1 : xSeg ev ρf its hB s (.static t ls body) = [] := by simp only [xSeg, if_pos hh]
        rw [e1, List.nil_append]
        split
        · rw [List.flatMap_cons]
          have : xHere ev ρf its hB s (SBlock.native (.static t ls body)) = [] := by
            simp [xHere, SBlock.native, hh]
          rw [this, List.nil_append]
        · rfl
      · have hnh : ∀ bs ∈ hB, bs.type ≠ t := by
          intro bs hbs e
          apply hh
          rw [List.any_eq_true]
          exact ⟨bs, hbs, by simp [e]⟩
        have ew := wanted_ext_of_ne s hA hB t hblk hnh
        have eg : bgood [] (extendSchema s hA hB) (SBlock.native (.static t ls body)) =
            (match wanted s t with | some bs => ls.length == bs.labelCount | none => false) := by
          unfold bgood
          simp only [SBlock.native, ew]
          cases wanted s t <;> simp
        rw [eg]
        simp only [xSeg, if_neg hh]
        cases hw : wanted s t with
        | none => simp
        | some bs =>
          by_cases hl : ls.length = bs.labelCount
          · simp [hl, xHere, SBlock.native, hh]
          · simp [hl]

/-! ## one level of `contentCore` -/

/-- the blocks of one level, before the `unknownBody` fix-up -/
theorem contentCore_blocks (ev : Env → Expr → Out) (ρf : Env) (b : XBody) (s : Schema) (pm : Bool)
    (hu : b.unknown = none) (hdyn : ∀ bs ∈ b.hiddenBlocks, bs.type ≠ "dynamic") (hst : StaticOk b.src.blocks) :
    (b.contentCore ev ρf s pm).1.blocks = b.src.blocks.flatMap (xSeg ev ρf b.its b.hiddenBlocks s) := by
  have hraw : (if pm = true then
        ((b.src.native.partialContent (extendSchema s b.hiddenAttrs b.hiddenBlocks)).1,
          (b.src.native.partialContent (extendSchema s b.hiddenAttrs b.hiddenBlocks)).2.2)
      else b.src.native.content (extendSchema s b.hiddenAttrs b.hiddenBlocks)).1 =
      (b.src.native.partialContent (extendSchema s b.hiddenAttrs b.hiddenBlocks)).1 := by
    cases pm <;> rfl
  simp only [XBody.contentCore, hu, hraw, expandBlocks_fst, partial_blocks]
  exact flatMap_filter_native ev ρf b.its b.hiddenAttrs b.hiddenBlocks s b.src.blocks hdyn hst

theorem findAttr_map {α β : Type} (f : α → β) (n : String) (l : List (String × α)) :
    findAttr n (l.map fun p => (p.1, f p.2)) = (findAttr n l).map f := by
  induction l with
  | nil => rfl
  | cons p rest ih =>
    obtain ⟨m, a⟩ := p
    simp only [List.map_cons, findAttr]
    split <;> simp [ih]

/-- the attributes of one level, before the `unknownBody` fix-up -/
theorem contentCore_attrs (ev : Env → Expr → Out) (ρf : Env) (b : XBody) (s : Schema) (pm : Bool)
    (hu : b.unknown = none)
    (hnd : ((s.attrs.map (·.name)) ++ b.hiddenAttrs).Nodup) :
    (b.contentCore ev ρf s pm).1.attrs =
      s.attrs.filterMap (fun as => (findAttr as.name b.src.attrs).map fun e =>
        (as.name, ({ expr := e, its := b.its, marks := b.marks } : XAttr))) := by
  have hraw : (if pm = true then
        ((b.src.native.partialContent (extendSchema s b.hiddenAttrs b.hiddenBlocks)).1,
          (b.src.native.partialContent (extendSchema s b.hiddenAttrs b.hiddenBlocks)).2.2)
      else b.src.native.content (extendSchema s b.hiddenAttrs b.hiddenBlocks)).1 =
      (b.src.native.partialContent (extendSchema s b.hiddenAttrs b.hiddenBlocks)).1 := by
    cases pm <;> rfl
  have hnd' : ((extendSchema s b.hiddenAttrs b.hiddenBlocks).attrs.map (·.name)).Nodup := by
    simpa [extendSchema, Function.comp_def] using hnd
  have hpa := partial_attrs b.src.native (extendSchema s b.hiddenAttrs b.hiddenBlocks) hnd'
    (by intro as _; simp [SBody.native])
  simp only [XBody.contentCore, hu, hraw, hpa]
  simp only [extendSchema, List.filterMap_append, List.filter_append, List.map_append]
  have e2 : (List.filter (fun p => !b.hiddenAttrs.contains p.1)
      (List.filterMap (fun as => Option.map (fun a => (as.name, a)) (findAttr as.name b.src.native.attrs))
        (List.map (fun n => ({ name := n, required := false } : AttrSchema)) b.hiddenAttrs))) = [] := by
    rw [List.filter_eq_nil_iff]
    intro p hp
    simp only [List.mem_filterMap, List.mem_map, Option.map_eq_some_iff] at hp
    obtain ⟨as, ⟨n, hn, rfl⟩, a, _, rfl⟩ := hp
    simp [hn]
  have e1 : (List.filter (fun p => !b.hiddenAttrs.contains p.1)
      (List.filterMap (fun as => Option.map (fun a => (as.name, a)) (findAttr as.name b.src.native.attrs)) s.attrs)) =
      List.filterMap (fun as => Option.map (fun a => (as.name, a)) (findAttr as.name b.src.native.attrs)) s.attrs := by
    rw [List.filter_eq_self]
    intro p hp
    simp only [List.mem_filterMap, Option.map_eq_some_iff] at hp
    obtain ⟨as, has, a, _, rfl⟩ := hp
    rw [List.nodup_append] at hnd
    have := hnd.2.2 as.name (List.mem_map.2 ⟨as, has, rfl⟩)
    simp only [Bool.not_eq_true', List.contains_eq_mem, decide_eq_false_iff_not]
    intro hm
    exact this as.name hm rfl
  rw [e1, e2, List.map_nil, List.append_nil, List.map_filterMap]
  congr 1
  funext as
  simp only [SBody.native]
  cases findAttr as.name b.src.attrs <;> rfl

end HclModel.Dyn.Proofs
