import Proofs.DynWf
/-!
The main theorem of C18: a consumer sees through the expanded body exactly what it sees through the
written-out body (`resolveX = resolveW`).
-/
namespace HclModel.Dyn.Proofs
open HclModel HclModel.Body HclModel.Dyn HclModel.Body.Proofs

/-! ## `decodeSpec` when the collection is known -/

theorem elements_some {u : Val} {kvs : List (Val × Val)} (h : elements u = some kvs) :
    canIterate u.typeOf = true ∧ u.isNull = false ∧ u.isKnown = true := by
  cases u <;> simp [elements] at h <;> simp [canIterate, Val.typeOf, Val.isNull, Val.isKnown]

theorem decodeSpec_known (ev : Env → Expr → Out) (ρf : Env) (its : Iters) (lc : Nat) (t : String) (fe : Expr)
    (itn : Option String) (labels : Option (List Expr)) (kvs : List (Val × Val))
    (hd : (ev (iterEnv its ++ ρf) fe).2.isEmpty = true)
    (he : elements (ev (iterEnv its ++ ρf) fe).1.unmark.1 = some kvs)
    (hl : labels ≠ some []) (hlc : (labels.getD []).length = lc) :
    decodeSpec ev ρf its lc t fe itn labels =
      .known (itn.getD t) (ev (iterEnv its ++ ρf) fe).1.unmark.2 (labels.getD []) kvs := by
  obtain ⟨h1, h2, h3⟩ := elements_some he
  have c1 : (decide (lc = 0) && labels.isSome) = false := by
    cases labels with
    | none => simp
    | some l =>
      cases l with
      | nil => exact absurd rfl hl
      | cons a l => simp at hlc; simp [← hlc]
  have c2 : (decide (lc ≠ 0) && labels.isNone) = false := by
    cases labels with
    | none => simp at hlc; simp [← hlc]
    | some l => simp
  unfold decodeSpec
  simp only [c1, c2, hd, h1, h2, h3, he, hlc]
  simp

theorem decodeSpec_label_mismatch (ev : Env → Expr → Out) (ρf : Env) (its : Iters) (lc : Nat) (t : String) (fe : Expr)
    (itn : Option String) (labels : Option (List Expr))
    (hlc : (labels.getD []).length ≠ lc) :
    ∃ k, decodeSpec ev ρf its lc t fe itn labels = .err k := by
  unfold decodeSpec
  split
  · exact ⟨_, rfl⟩
  · split
    · exact ⟨_, rfl⟩
    · simp only
      split
      · exact ⟨_, rfl⟩
      · split
        · exact ⟨_, rfl⟩
        · split
          · exact ⟨_, rfl⟩
          · split
            · exact ⟨_, rfl⟩
            · split
              · exact ⟨_, rfl⟩
              · omega

/-- the blocks of a dynamic block whose collection is known: one per element if the number of label
    expressions fits, none otherwise -/
theorem expandDyn_known (ev : Env → Expr → Out) (ρf : Env) (its : Iters) (lc : Nat) (t : String) (fe : Expr)
    (itn : Option String) (labels : Option (List Expr)) (content : SBody) (kvs : List (Val × Val))
    (hd : (ev (iterEnv its ++ ρf) fe).2.isEmpty = true)
    (he : elements (ev (iterEnv its ++ ρf) fe).1.unmark.1 = some kvs)
    (hl : labels ≠ some []) :
    (expandDyn ev ρf its lc t fe itn labels content).1 =
      if (labels.getD []).length = lc then
        (genBlocks ev ρf its (itn.getD t) (ev (iterEnv its ++ ρf) fe).1.unmark.2 (labels.getD []) t content none kvs).1
      else [] := by
  unfold expandDyn
  by_cases hlc : (labels.getD []).length = lc
  · rw [decodeSpec_known ev ρf its lc t fe itn labels kvs hd he hl hlc, if_pos hlc]
  · obtain ⟨k, hk⟩ := decodeSpec_label_mismatch ev ρf its lc t fe itn labels hlc
    rw [hk, if_neg hlc]

/-! ## the consumer's view of one level -/

/-- a written-out block as a block of the native body -/
def wNative (b : WBlock) : Body.Block WBlock := ⟨b.type, b.labels, b⟩

abbrev RBlock := String × List String × Fl × RTree

def fX (F : STree → XBody → RTree) (st : STree) (blk : XBlock) : Option RBlock :=
  (st.child blk.type).map fun cst => (blk.type, blk.labels, blk.body.bodyMarks, F cst blk.body)

def fW (G : STree → WBody → RTree) (st : STree) (blk : Body.Block WBlock) : Option RBlock :=
  (st.child blk.type).map fun cst => (blk.type, blk.labels, blk.body.marks, G cst blk.body.body)

theorem fX_eq_fW (F : STree → XBody → RTree) (G : STree → WBody → RTree) (st : STree) (xb : XBlock) (wb : WBlock)
    (h1 : xb.type = wb.type) (h2 : xb.labels = wb.labels) (h3 : xb.body.marks = wb.marks)
    (h4 : ∀ cst, st.child xb.type = some cst → F cst xb.body = G cst wb.body) :
    fX F st xb = fW G st (wNative wb) := by
  simp only [fX, fW, wNative, XBody.bodyMarks, ← h1, ← h2, ← h3]
  cases hc : st.child xb.type with
  | none => rfl
  | some cst => simp [h4 cst hc]

section level
variable (ev : Env → Expr → Out) (ρf : Env) (F : STree → XBody → RTree) (G : STree → WBody → RTree)
  (st : STree) (fuel : Nat)

/-- what is known about the next level down -/
def Rec : Prop :=
  ∀ (cst : STree) (its : Iters) (m : Fl) (src : SBody) (w : WBody), cst.ok = true → src.ok = true →
    writeOut ev ρf fuel its m src = some w → F cst { src := src, its := its, marks := m } = G cst w

theorem wElem_some {its : Iters} {t name : String} {m : Fl} {lexprs : List Expr} {content : SBody} {kv : Val × Val}
    {wb : WBlock} (h : wElem ev ρf fuel its t name m lexprs content kv = some wb) :
    ∃ ls w, (evalLabels ev (iterEnv ((name, kv.1, kv.2) :: its) ++ ρf) lexprs).1 = some ls ∧
      writeOut ev ρf fuel ((name, kv.1, kv.2) :: its) m content = some w ∧ wb = WBlock.mk t ls m w := by
  unfold wElem at h
  split at h
  · rename_i ls w h1 h2
    exact ⟨ls, w, h1, h2, by simpa using h.symm⟩
  · simp at h

/-- the written-out blocks of one dynamic block all have its type and as many labels as label expressions -/
theorem wElems_mem {its : Iters} {t name : String} {m : Fl} {lexprs : List Expr} {content : SBody}
    {kvs : List (Val × Val)} {ws : List WBlock}
    (h : allSome (kvs.map (wElem ev ρf fuel its t name m lexprs content)) = some ws) :
    ∀ wb ∈ ws, wb.type = t ∧ wb.labels.length = lexprs.length := by
  induction kvs generalizing ws with
  | nil =>
    simp only [List.map_nil, allSome_nil, Option.some.injEq] at h
    subst h; simp
  | cons kv rest ih =>
    rw [List.map_cons, allSome_cons_eq_some] at h
    obtain ⟨x, xs, h1, h2, rfl⟩ := h
    intro wb hwb
    rcases List.mem_cons.1 hwb with rfl | hwb
    · obtain ⟨ls, w, hl, _, rfl⟩ := wElem_some ev ρf fuel h1
      exact ⟨rfl, evalLabels_length _ _ _ _ hl⟩
    · exact ih h2 wb hwb

theorem gen_vs_elems {its : Iters} {t name : String} {m : Fl} {lexprs : List Expr} {content : SBody}
    {kvs : List (Val × Val)} {ws : List WBlock}
    (h : allSome (kvs.map (wElem ev ρf fuel its t name m lexprs content)) = some ws)
    (hrec : ∀ cst, st.child t = some cst → ∀ its' w, writeOut ev ρf fuel its' m content = some w →
      F cst { src := content, its := its', marks := m } = G cst w) :
    (genBlocks ev ρf its name m lexprs t content none kvs).1.filterMap (fX F st) =
      (ws.map wNative).filterMap (fW G st) := by
  induction kvs generalizing ws with
  | nil =>
    simp only [List.map_nil, allSome_nil, Option.some.injEq] at h
    subst h; rfl
  | cons kv rest ih =>
    obtain ⟨k, v⟩ := kv
    rw [List.map_cons, allSome_cons_eq_some] at h
    obtain ⟨x, xs, h1, h2, rfl⟩ := h
    obtain ⟨ls, w, hl, hw, rfl⟩ := wElem_some ev ρf fuel h1
    rw [genBlocks_cons_fst, hl, List.filterMap_append, ih h2, List.map_cons, List.filterMap_cons,
      List.filterMap_cons, List.filterMap_nil]
    rw [fX_eq_fW F G st _ (WBlock.mk t ls m w) rfl rfl rfl (fun cst hc => hrec cst hc _ _ hw)]
    cases fW G st (wNative (WBlock.mk t ls m w)) <;> rfl

/-- one source block: what the consumer gets from its expansion = what it gets from its written-out blocks -/
theorem seg_eq (hst : st.ok = true) (hrec : Rec ev ρf F G fuel) (its : Iters) (blk : SBlock) (hblk : BlockOk blk)
    (ws : List WBlock) (hws : wPer ev ρf fuel its blk = some ws) :
    (xSeg ev ρf its [] st.schema blk).filterMap (fX F st) =
      ((ws.map wNative).filter (bgood [] st.schema)).filterMap (fW G st) := by
  have hnd := (STree.ok_nodup hst).2
  cases blk with
  | static t ls body =>
    simp only [wPer, Option.map_eq_some_iff] at hws
    obtain ⟨w, hw, rfl⟩ := hws
    have hg : bgood [] st.schema (wNative (WBlock.mk t ls Fl.none w)) =
        (match wanted st.schema t with | some bs => ls.length == bs.labelCount | none => false) := by
      unfold bgood
      simp only [wNative, WBlock.type, WBlock.labels]
      cases wanted st.schema t <;> simp
    simp only [xSeg, List.any_nil, Bool.false_eq_true, if_false, List.map_cons, List.map_nil, List.filter_cons,
      List.filter_nil, hg]
    cases hwt : wanted st.schema t with
    | none => simp
    | some bs =>
      by_cases hl : ls.length = bs.labelCount
      · simp only [hl, if_true, beq_self_eq_true, List.filterMap_cons, List.filterMap_nil]
        rw [fX_eq_fW F G st _ (WBlock.mk t ls Fl.none w) rfl rfl rfl
          (fun cst hc => hrec cst its Fl.none body w (STree.ok_child hst hc) hblk.2 hw)]
      · simp [hl]
  | dyn t fe itn labels content =>
    simp only [wPer] at hws
    split at hws
    · simp at hws
    · rename_i hd
      split at hws
      · simp at hws
      · split at hws
        · simp at hws
        · rename_i kvs he
          have hd' : (ev (iterEnv its ++ ρf) fe).2.isEmpty = true := by simpa using hd
          have hmem := wElems_mem ev ρf fuel hws
          simp only [xSeg, List.any_nil, Bool.false_eq_true, if_false]
          cases hf : st.schema.blocks.find? (fun b => b.type == t) with
          | none =>
            have hw : wanted st.schema t = none := by rw [wanted_eq_find? _ _ hnd, hf]
            have : (ws.map wNative).filter (bgood [] st.schema) = [] := by
              rw [List.filter_eq_nil_iff]
              intro b hb
              obtain ⟨wb, hwb, rfl⟩ := List.mem_map.1 hb
              simp [bgood, wNative, (hmem wb hwb).1, hw]
            rw [this]; rfl
          | some bs =>
            have hw : wanted st.schema t = some bs := by rw [wanted_eq_find? _ _ hnd, hf]
            simp only
            rw [expandDyn_known ev ρf its bs.labelCount t fe itn labels content kvs hd' he hblk.1]
            by_cases hlc : (labels.getD []).length = bs.labelCount
            · have : (ws.map wNative).filter (bgood [] st.schema) = ws.map wNative := by
                rw [List.filter_eq_self]
                intro b hb
                obtain ⟨wb, hwb, rfl⟩ := List.mem_map.1 hb
                simp [bgood, wNative, (hmem wb hwb).1, (hmem wb hwb).2, hw, hlc]
              rw [this, if_pos hlc]
              exact gen_vs_elems ev ρf F G st fuel hws
                (fun cst hc its' w hw' => hrec cst its' _ content w (STree.ok_child hst hc) hblk.2 hw')
            · have : (ws.map wNative).filter (bgood [] st.schema) = [] := by
                rw [List.filter_eq_nil_iff]
                intro b hb
                obtain ⟨wb, hwb, rfl⟩ := List.mem_map.1 hb
                simp [bgood, wNative, (hmem wb hwb).1, (hmem wb hwb).2, hw, hlc]
              rw [this, if_neg hlc]; rfl

/-- all the blocks of one level -/
theorem level_blocks (hst : st.ok = true) (hrec : Rec ev ρf F G fuel) (its : Iters) (blocks : List SBlock)
    (hb : okAll blocks = true) (bss : List (List WBlock))
    (hall : allSome (blocks.map (wPer ev ρf fuel its)) = some bss) :
    (blocks.flatMap (xSeg ev ρf its [] st.schema)).filterMap (fX F st) =
      ((bss.flatten.map wNative).filter (bgood [] st.schema)).filterMap (fW G st) := by
  induction blocks generalizing bss with
  | nil =>
    simp only [List.map_nil, allSome_nil, Option.some.injEq] at hall
    subst hall; rfl
  | cons blk rest ih =>
    rw [List.map_cons, allSome_cons_eq_some] at hall
    obtain ⟨ws, wss, h1, h2, rfl⟩ := hall
    have hb' := (okAll_iff _).1 hb
    have hrest : okAll rest = true := (okAll_iff _).2 fun b hb => hb' b (by simp [hb])
    rw [List.flatMap_cons, List.filterMap_append, List.flatten_cons, List.map_append, List.filter_append,
      List.filterMap_append, ih hrest wss h2,
      seg_eq ev ρf F G st fuel hst hrec its blk (hb' blk (by simp)) ws h1]

end level

/-! ## the main theorem -/

theorem resolveX_succ (ev : Env → Expr → Out) (ρf ρ : Env) (n : Nat) (st : STree) (b : XBody) :
    resolveX ev ρf ρ (n + 1) st b =
      .mk ((b.content ev ρf st.schema).1.attrs.map fun p => (p.1, p.2.value ev ρ))
        ((b.content ev ρf st.schema).1.blocks.filterMap (fX (resolveX ev ρf ρ n) st)) := rfl

theorem resolveW_succ (ev : Env → Expr → Out) (ρ : Env) (n : Nat) (st : STree) (w : WBody) :
    resolveW ev ρ (n + 1) st w =
      .mk ((w.native.content st.schema).1.attrs.map fun p => (p.1, p.2.value ev ρ))
        ((w.native.content st.schema).1.blocks.filterMap (fW (resolveW ev ρ n) st)) := rfl

theorem expand_eq_written_out_gen (ev : Env → Expr → Out) (ρf ρ : Env) (n : Nat) :
    ∀ (st : STree) (its : Iters) (m : Fl) (src : SBody) (w : WBody) (fuel : Nat), st.ok = true → src.ok = true →
      writeOut ev ρf fuel its m src = some w →
      resolveX ev ρf ρ n st { src := src, its := its, marks := m } = resolveW ev ρ n st w := by
  induction n with
  | zero => intros; rfl
  | succ n ih =>
    intro st its m src w fuel hst hsrc hw
    cases fuel with
    | zero => rw [writeOut_zero] at hw; simp at hw
    | succ fuel =>
      obtain ⟨attrs, blocks⟩ := src
      rw [writeOut_succ] at hw
      simp only [Option.map_eq_some_iff] at hw
      obtain ⟨bss, hall, rfl⟩ := hw
      have hb : okAll blocks = true := SBody.ok_blocks hsrc
      have hnd := STree.ok_nodup hst
      rw [resolveX_succ, resolveW_succ]
      congr 1
      · -- attributes
        have ha := contentCore_attrs ev ρf { src := .mk attrs blocks, its := its, marks := m } st.schema false rfl
          (by simpa using hnd.1)
        simp only [XBody.content, ha, content_fst]
        rw [partial_attrs _ _ hnd.1 (by intro as _; simp [WBody.native])]
        simp only [WBody.native, WBody.attrs, SBody.attrs, List.map_filterMap]
        congr 1
        funext as
        rw [findAttr_map (fun e => (⟨e, its, m, false⟩ : XAttr))]
        cases findAttr as.name attrs <;> rfl
      · -- blocks
        have hbk := contentCore_blocks ev ρf { src := .mk attrs blocks, its := its, marks := m } st.schema false rfl
          (by simp) (staticOk_of_okAll hb)
        simp only [XBody.content, hbk, content_fst, partial_blocks]
        exact level_blocks ev ρf _ _ st fuel hst
          (fun cst its m src w h1 h2 h3 => ih cst its m src w fuel h1 h2 h3) its blocks hb bss hall

theorem expand_eq_written_out (ev : Env → Expr → Out) (ρf ρ : Env) (st : STree) (src : SBody) (w : WBody)
    (fuel n : Nat) (hst : st.ok = true) (hsrc : src.ok = true)
    (hw : writeOut ev ρf fuel [] Fl.none src = some w) :
    resolveX ev ρf ρ n st { src := src } = resolveW ev ρ n st w :=
  expand_eq_written_out_gen ev ρf ρ n st [] Fl.none src w fuel hst hsrc hw

end HclModel.Dyn.Proofs
