import HclModel.Body.Native
/-!
Proofs about `HclModel/Body/Native.lean` (`NBody.partialContent` / `NBody.content`), used by `Props/C04.lean`.
-/
namespace HclModel.Body.Proofs
open HclModel.Body
variable {α β : Type}

/-! ## the two fold steps as top-level functions -/

/-- attribute step of `partialContent` -/
def astep (attrs : List (String × α)) (acc : List (String × α) × List String × List ErrKind) (as : AttrSchema) :
    List (String × α) × List String × List ErrKind :=
  match findAttr as.name attrs with
  | some a =>
    if acc.2.1.contains as.name then
      (acc.1, acc.2.1, if as.required then acc.2.2 ++ [.missingRequired as.name] else acc.2.2)
    else (acc.1 ++ [(as.name, a)], as.name :: acc.2.1, acc.2.2)
  | none => (acc.1, acc.2.1, if as.required then acc.2.2 ++ [.missingRequired as.name] else acc.2.2)

/-- block step of `partialContent` -/
def bstep (hidden : List String) (s : Schema) (acc : List (Block β) × List ErrKind) (blk : Block β) :
    List (Block β) × List ErrKind :=
  if hidden.contains blk.type then (acc.1, acc.2)
  else match wanted s blk.type with
    | none => (acc.1, acc.2)
    | some bs =>
      if blk.labels.length > bs.labelCount then (acc.1, acc.2 ++ [.extraneousLabel blk.type])
      else if blk.labels.length < bs.labelCount then (acc.1, acc.2 ++ [.missingLabel blk.type])
      else (acc.1 ++ [blk], acc.2)

def hideBlocks (h : List String) (l : List BlockSchema) : List String :=
  l.foldl (fun h bs => bs.type :: h) h

theorem partialContent_eq (b : NBody α β) (s : Schema) :
    b.partialContent s =
      (⟨(s.attrs.foldl (astep b.attrs) ([], b.hiddenAttrs, [])).1,
        (b.blocks.foldl (bstep b.hiddenBlocks s) ([], [])).1⟩,
       { b with hiddenAttrs := (s.attrs.foldl (astep b.attrs) ([], b.hiddenAttrs, [])).2.1,
                hiddenBlocks := hideBlocks b.hiddenBlocks s.blocks },
       (s.attrs.foldl (astep b.attrs) ([], b.hiddenAttrs, [])).2.2 ++
        (b.blocks.foldl (bstep b.hiddenBlocks s) ([], [])).2) := by
  rfl

theorem content_eq (b : NBody α β) (s : Schema) :
    b.content s =
      ((b.partialContent s).1,
       (b.partialContent s).2.2 ++
        ((b.attrs.filter fun p => !(b.partialContent s).2.1.hiddenAttrs.contains p.1).map
          fun p => ErrKind.unsupportedArgument p.1) ++
        ((b.blocks.filter fun blk => !(b.partialContent s).2.1.hiddenBlocks.contains blk.type).map
          fun blk => ErrKind.unsupportedBlock blk.type)) := by
  rfl

/-! ## basic facts -/

theorem findAttr_isSome_iff (n : String) (attrs : List (String × α)) :
    (findAttr n attrs).isSome ↔ ∃ p ∈ attrs, p.1 = n := by
  induction attrs with
  | nil => simp [findAttr]
  | cons p rest ih =>
    obtain ⟨m, a⟩ := p
    by_cases h : m = n
    · simp [findAttr, h]
    · simp [findAttr, h, ih]

theorem findAttr_isSome_of_mem {attrs : List (String × α)} {p : String × α} (h : p ∈ attrs) :
    (findAttr p.1 attrs).isSome := (findAttr_isSome_iff _ _).2 ⟨p, h, rfl⟩

/-! ## attribute fold -/

theorem astep_hidden_mem (attrs : List (String × α)) (l : List AttrSchema)
    (acc : List (String × α) × List String × List ErrKind) (x : String) :
    x ∈ (l.foldl (astep attrs) acc).2.1 ↔
      x ∈ acc.2.1 ∨ ∃ as ∈ l, as.name = x ∧ (findAttr x attrs).isSome := by
  induction l generalizing acc with
  | nil => simp
  | cons as l ih =>
    simp only [List.foldl_cons]
    rw [ih]
    unfold astep
    split
    · split <;> grind
    · grind

/-- the missing-required error of one schema attribute -/
def areq (attrs : List (String × α)) (as : AttrSchema) : Option ErrKind :=
  if as.required = true ∧ (findAttr as.name attrs).isSome = false then some (.missingRequired as.name) else none

theorem astep_fold (attrs : List (String × α)) (l : List AttrSchema)
    (acc : List (String × α) × List String × List ErrKind)
    (hnd : (l.map (·.name)).Nodup) (hdis : ∀ as ∈ l, as.name ∉ acc.2.1) :
    (l.foldl (astep attrs) acc).1 =
        acc.1 ++ l.filterMap (fun as => (findAttr as.name attrs).map fun a => (as.name, a)) ∧
    (l.foldl (astep attrs) acc).2.2 = acc.2.2 ++ l.filterMap (areq attrs) := by
  induction l generalizing acc with
  | nil => simp
  | cons as l ih =>
    simp only [List.foldl_cons]
    have hn : as.name ∉ acc.2.1 := hdis as (by simp)
    simp only [List.map_cons, List.nodup_cons, List.mem_map, not_exists, not_and] at hnd
    have hdis' : ∀ as' ∈ l, as'.name ∉ (astep attrs acc as).2.1 := by
      intro as' h'
      have h1 := hdis as' (by simp [h'])
      have h2 := hnd.1 as' h'
      unfold astep
      split
      · split <;> grind
      · grind
    obtain ⟨e1, e2⟩ := ih (astep attrs acc as) hnd.2 hdis'
    rw [e1, e2]
    unfold astep areq
    cases hf : findAttr as.name attrs with
    | none => constructor <;> simp [List.filterMap_cons, hf] <;> split <;> simp
    | some a => simp [hf, hn]

/-! ## block fold -/

/-- a block returned by `partialContent` -/
def bgood (hidden : List String) (s : Schema) (blk : Block β) : Bool :=
  !hidden.contains blk.type &&
    match wanted s blk.type with
    | some bs => blk.labels.length == bs.labelCount
    | none => false

/-- the label-count error of one block -/
def berr (hidden : List String) (s : Schema) (blk : Block β) : Option ErrKind :=
  if hidden.contains blk.type then none
  else match wanted s blk.type with
    | none => none
    | some bs =>
      if blk.labels.length > bs.labelCount then some (.extraneousLabel blk.type)
      else if blk.labels.length < bs.labelCount then some (.missingLabel blk.type)
      else none

theorem bstep_fold (hidden : List String) (s : Schema) (l : List (Block β))
    (acc : List (Block β) × List ErrKind) :
    l.foldl (bstep hidden s) acc = (acc.1 ++ l.filter (bgood hidden s), acc.2 ++ l.filterMap (berr hidden s)) := by
  induction l generalizing acc with
  | nil => simp
  | cons blk l ih =>
    simp only [List.foldl_cons]
    rw [ih]
    unfold bstep
    by_cases hh : blk.type ∈ hidden
    · simp [hh, bgood, berr]
    · cases hw : wanted s blk.type with
      | none => simp [hh, hw, bgood, berr]
      | some bs =>
        by_cases h1 : blk.labels.length > bs.labelCount
        · have : ¬ blk.labels.length = bs.labelCount := by omega
          simp [hh, hw, bgood, berr, h1, this]
        · by_cases h2 : blk.labels.length < bs.labelCount
          · have : ¬ blk.labels.length = bs.labelCount := by omega
            simp [hh, hw, bgood, berr, h1, h2, this]
          · have : blk.labels.length = bs.labelCount := by omega
            simp [hh, hw, bgood, berr, this]

theorem berr_eq_none_iff (hidden : List String) (s : Schema) (blk : Block β) :
    berr hidden s blk = none ↔
      (hidden.contains blk.type = true ∨ wanted s blk.type = none ∨
        ∃ bs, wanted s blk.type = some bs ∧ blk.labels.length = bs.labelCount) := by
  unfold berr
  by_cases hh : blk.type ∈ hidden
  · simp [hh]
  · cases hw : wanted s blk.type with
    | none => simp [hh]
    | some bs =>
      by_cases h1 : blk.labels.length > bs.labelCount
      · have : ¬ blk.labels.length = bs.labelCount := by omega
        simp [hh, h1, this]
      · by_cases h2 : blk.labels.length < bs.labelCount
        · have : ¬ blk.labels.length = bs.labelCount := by omega
          simp [hh, h1, h2, this]
        · have : blk.labels.length = bs.labelCount := by omega
          simp [hh, this]

theorem mem_hideBlocks (h : List String) (l : List BlockSchema) (x : String) :
    x ∈ hideBlocks h l ↔ x ∈ h ∨ ∃ bs ∈ l, bs.type = x := by
  unfold hideBlocks
  induction l generalizing h with
  | nil => simp
  | cons bs l ih => simp only [List.foldl_cons]; rw [ih]; grind

/-! ## `wanted` -/

theorem wanted_eq_none_iff (s : Schema) (ty : String) :
    wanted s ty = none ↔ ∀ bs ∈ s.blocks, bs.type ≠ ty := by
  simp [wanted]

theorem wanted_some {s : Schema} {ty : String} {bs : BlockSchema} (h : wanted s ty = some bs) :
    bs ∈ s.blocks ∧ bs.type = ty := by
  unfold wanted at h
  have h1 := List.mem_of_find?_eq_some h
  have h2 := List.find?_some h
  simp at h1 h2
  exact ⟨h1, h2⟩

theorem wanted_isSome_iff (s : Schema) (ty : String) :
    (∃ bs, wanted s ty = some bs) ↔ ∃ bs ∈ s.blocks, bs.type = ty := by
  constructor
  · rintro ⟨bs, h⟩; exact ⟨bs, wanted_some h⟩
  · rintro ⟨bs, hm, ht⟩
    cases hw : wanted s ty with
    | none => exact absurd ht ((wanted_eq_none_iff s ty).1 hw bs hm)
    | some bs' => exact ⟨bs', rfl⟩

theorem wanted_union (s₁ s₂ : Schema) (ty : String) :
    wanted (s₁.union s₂) ty = (wanted s₂ ty).or (wanted s₁ ty) := by
  simp [wanted, Schema.union, List.reverse_append, List.find?_append]

/-! ## `partialContent` / `content`, componentwise (arbitrary hidden state) -/

section general
variable (b : NBody α β) (s : Schema)

theorem remain_attrs : (b.partialContent s).2.1.attrs = b.attrs := rfl
theorem remain_blocks : (b.partialContent s).2.1.blocks = b.blocks := rfl

theorem mem_remain_hiddenAttrs (x : String) :
    x ∈ (b.partialContent s).2.1.hiddenAttrs ↔
      x ∈ b.hiddenAttrs ∨ ∃ as ∈ s.attrs, as.name = x ∧ (findAttr x b.attrs).isSome := by
  rw [partialContent_eq]; exact astep_hidden_mem _ _ _ _

theorem mem_remain_hiddenBlocks (x : String) :
    x ∈ (b.partialContent s).2.1.hiddenBlocks ↔ x ∈ b.hiddenBlocks ∨ ∃ bs ∈ s.blocks, bs.type = x := by
  rw [partialContent_eq]; exact mem_hideBlocks _ _ _

theorem partial_blocks :
    (b.partialContent s).1.blocks = b.blocks.filter (bgood b.hiddenBlocks s) := by
  rw [partialContent_eq]; simp [bstep_fold]

theorem partial_attrs (hnd : (s.attrs.map (·.name)).Nodup) (hdis : ∀ as ∈ s.attrs, as.name ∉ b.hiddenAttrs) :
    (b.partialContent s).1.attrs =
      s.attrs.filterMap (fun as => (findAttr as.name b.attrs).map fun a => (as.name, a)) := by
  rw [partialContent_eq]
  simpa using (astep_fold b.attrs s.attrs ([], b.hiddenAttrs, []) hnd hdis).1

theorem partial_errs_nil_iff (hnd : (s.attrs.map (·.name)).Nodup)
    (hdis : ∀ as ∈ s.attrs, as.name ∉ b.hiddenAttrs) :
    (b.partialContent s).2.2 = [] ↔
      (∀ as ∈ s.attrs, as.required = true → (findAttr as.name b.attrs).isSome) ∧
      (∀ blk ∈ b.blocks, blk.type ∈ b.hiddenBlocks ∨ wanted s blk.type = none ∨
        ∃ bs, wanted s blk.type = some bs ∧ blk.labels.length = bs.labelCount) := by
  rw [partialContent_eq]
  simp only [List.append_eq_nil_iff]
  rw [(astep_fold b.attrs s.attrs ([], b.hiddenAttrs, []) hnd hdis).2, bstep_fold]
  simp only [List.nil_append, List.filterMap_eq_nil_iff, berr_eq_none_iff, List.contains_iff_mem]
  apply and_congr _ Iff.rfl
  apply forall_congr'; intro as
  apply imp_congr_right; intro _
  unfold areq
  cases h : (findAttr as.name b.attrs).isSome <;> simp

theorem content_fst : (b.content s).1 = (b.partialContent s).1 := rfl

theorem content_errs_nil_iff (hnd : (s.attrs.map (·.name)).Nodup)
    (hdis : ∀ as ∈ s.attrs, as.name ∉ b.hiddenAttrs) :
    (b.content s).2 = [] ↔
      ((∀ as ∈ s.attrs, as.required = true → (findAttr as.name b.attrs).isSome) ∧
       (∀ blk ∈ b.blocks, blk.type ∈ b.hiddenBlocks ∨ wanted s blk.type = none ∨
        ∃ bs, wanted s blk.type = some bs ∧ blk.labels.length = bs.labelCount)) ∧
      (∀ p ∈ b.attrs, p.1 ∈ b.hiddenAttrs ∨ ∃ as ∈ s.attrs, as.name = p.1) ∧
      (∀ blk ∈ b.blocks, blk.type ∈ b.hiddenBlocks ∨ ∃ bs ∈ s.blocks, bs.type = blk.type) := by
  rw [content_eq]
  simp only [List.append_eq_nil_iff, partial_errs_nil_iff b s hnd hdis, List.map_eq_nil_iff,
    List.filter_eq_nil_iff, and_assoc]
  apply and_congr Iff.rfl
  apply and_congr Iff.rfl
  apply and_congr
  · apply forall_congr'; intro p
    apply imp_congr_right; intro hp
    have := findAttr_isSome_of_mem hp
    simp [mem_remain_hiddenAttrs, this]
    by_cases hh : p.1 ∈ b.hiddenAttrs <;> simp [hh]
  · apply forall_congr'; intro blk
    apply imp_congr_right; intro _
    simp [mem_remain_hiddenBlocks]
    by_cases hh : blk.type ∈ b.hiddenBlocks <;> simp [hh]

end general

/-! ## the results used by `Props/C04.lean` -/

theorem content_exact (b : NBody α β) (s : Schema)
    (hb : b.hiddenAttrs = [] ∧ b.hiddenBlocks = [] ∧ (b.attrs.map (·.1)).Nodup)
    (hs : s.nodup) :
    (b.content s).1.attrs = s.attrs.filterMap (fun as => (findAttr as.name b.attrs).map fun a => (as.name, a)) ∧
    (b.content s).1.blocks = b.blocks.filter (fun blk =>
      match wanted s blk.type with
      | some bs => blk.labels.length == bs.labelCount
      | none => false) := by
  rw [content_fst]
  refine ⟨partial_attrs b s hs.1 (by simp [hb.1]), ?_⟩
  rw [partial_blocks, hb.2.1]
  apply List.filter_congr
  intro blk _
  simp [bgood]

theorem content_error_iff (b : NBody α β) (s : Schema)
    (hb : b.hiddenAttrs = [] ∧ b.hiddenBlocks = [] ∧ (b.attrs.map (·.1)).Nodup)
    (hs : s.nodup) :
    (b.content s).2 = [] ↔
      ((∀ as ∈ s.attrs, as.required = true → (findAttr as.name b.attrs).isSome) ∧
       (∀ blk ∈ b.blocks, ∃ bs, wanted s blk.type = some bs ∧ blk.labels.length = bs.labelCount) ∧
       (∀ p ∈ b.attrs, ∃ as ∈ s.attrs, as.name = p.1)) := by
  rw [content_errs_nil_iff b s hs.1 (by simp [hb.1]), hb.1, hb.2.1]
  simp only [List.not_mem_nil, false_or]
  constructor
  · rintro ⟨⟨h1, h2⟩, h3, h4⟩
    refine ⟨h1, ?_, h3⟩
    intro blk hblk
    rcases h2 blk hblk with hn | h
    · obtain ⟨bs, hm, ht⟩ := h4 blk hblk
      exact absurd ht ((wanted_eq_none_iff s blk.type).1 hn bs hm)
    · exact h
  · rintro ⟨h1, h2, h3⟩
    refine ⟨⟨h1, fun blk hblk => Or.inr (h2 blk hblk)⟩, h3, ?_⟩
    intro blk hblk
    obtain ⟨bs, hw, _⟩ := h2 blk hblk
    exact ⟨bs, wanted_some hw⟩

theorem partial_remain (b : NBody α β) (s : Schema)
    (hb : b.hiddenAttrs = [] ∧ b.hiddenBlocks = [] ∧ (b.attrs.map (·.1)).Nodup) :
    (b.partialContent s).2.1.visibleAttrs = b.attrs.filter (fun p => !(s.attrs.any fun as => as.name == p.1)) ∧
    (b.partialContent s).2.1.visibleBlocks = b.blocks.filter (fun blk => !(s.blocks.any fun bs => bs.type == blk.type)) := by
  simp only [NBody.visibleAttrs, NBody.visibleBlocks, remain_attrs, remain_blocks]
  constructor
  · apply List.filter_congr
    intro p hp
    have := findAttr_isSome_of_mem hp
    rw [Bool.eq_iff_iff]
    simp [mem_remain_hiddenAttrs, hb.1, this]
  · apply List.filter_congr
    intro blk _
    rw [Bool.eq_iff_iff]
    simp [mem_remain_hiddenBlocks, hb.2.1]

theorem wanted_union_left {s₁ s₂ : Schema} (hd : s₁.disjoint s₂) {ty : String}
    (h : ∃ bs ∈ s₁.blocks, bs.type = ty) : wanted (s₁.union s₂) ty = wanted s₁ ty := by
  have : wanted s₂ ty = none := by
    rw [wanted_eq_none_iff]
    intro bs' hbs' e
    obtain ⟨bs, hbs, e'⟩ := h
    exact hd.2 bs hbs bs' hbs' (e'.trans e.symm)
  simp [wanted_union, this]

theorem wanted_union_right {s₁ s₂ : Schema} {ty : String}
    (h : ¬ ∃ bs ∈ s₁.blocks, bs.type = ty) : wanted (s₁.union s₂) ty = wanted s₂ ty := by
  have : wanted s₁ ty = none := by
    rw [wanted_eq_none_iff]
    intro bs hbs e
    exact h ⟨bs, hbs, e⟩
  simp [wanted_union, this]

theorem two_step (b : NBody α β) (s₁ s₂ : Schema)
    (hb : b.hiddenAttrs = [] ∧ b.hiddenBlocks = [] ∧ (b.attrs.map (·.1)).Nodup)
    (h₁ : s₁.nodup) (h₂ : s₂.nodup) (hd : s₁.disjoint s₂) :
    let p := b.partialContent s₁
    let c₂ := p.2.1.content s₂
    let c := b.content (s₁.union s₂)
    c.1.attrs = p.1.attrs ++ c₂.1.attrs ∧
    (∀ ty, c.1.blocks.filter (·.type == ty) = (p.1.blocks ++ c₂.1.blocks).filter (·.type == ty)) ∧
    (c.2 = [] ↔ (p.2.2 = [] ∧ c₂.2 = [])) := by
  -- the union schema has no duplicate attribute names
  have hU : ((s₁.union s₂).attrs.map (·.name)).Nodup := by
    simp only [Schema.union, List.map_append]
    rw [List.nodup_append]
    refine ⟨h₁.1, h₂.1, ?_⟩
    intro x hx y hy
    simp only [List.mem_map] at hx hy
    obtain ⟨a, ha, rfl⟩ := hx
    obtain ⟨a', ha', rfl⟩ := hy
    exact hd.1 a ha a' ha'
  have hU0 : ∀ as ∈ (s₁.union s₂).attrs, as.name ∉ b.hiddenAttrs := by simp [hb.1]
  have h10 : ∀ as ∈ s₁.attrs, as.name ∉ b.hiddenAttrs := by simp [hb.1]
  -- the remainder `b'` of step one, and what it hides
  obtain ⟨b', hb'⟩ : ∃ b', b' = (b.partialContent s₁).2.1 := ⟨_, rfl⟩
  have hHA : ∀ x, x ∈ b'.hiddenAttrs ↔ ∃ as ∈ s₁.attrs, as.name = x ∧ (findAttr x b.attrs).isSome := by
    intro x; simp [hb', mem_remain_hiddenAttrs, hb.1]
  have hHB : ∀ x, x ∈ b'.hiddenBlocks ↔ ∃ bs ∈ s₁.blocks, bs.type = x := by
    intro x; simp [hb', mem_remain_hiddenBlocks, hb.2.1]
  have h20 : ∀ as ∈ s₂.attrs, as.name ∉ b'.hiddenAttrs := by
    intro as has hmem
    obtain ⟨a, ha, e, _⟩ := (hHA _).1 hmem
    exact hd.1 a ha as has e
  have hpa : b'.attrs = b.attrs := by rw [hb']; rfl
  have hpb : b'.blocks = b.blocks := by rw [hb']; rfl
  simp only [← hb', content_fst]
  refine ⟨?_, ?_, ?_⟩
  · -- attributes
    rw [partial_attrs b _ hU hU0, partial_attrs b' s₂ h₂.1 h20, hpa, partial_attrs b s₁ h₁.1 h10]
    simp [Schema.union, List.filterMap_append]
  · -- blocks, per type
    intro ty
    rw [partial_blocks b, partial_blocks b' s₂, hpb, partial_blocks b s₁, List.filter_append,
      List.filter_filter, List.filter_filter, List.filter_filter, hb.2.1]
    by_cases hty : ∃ bs ∈ s₁.blocks, bs.type = ty
    · have e2 : List.filter (fun a => (a.type == ty) && bgood b'.hiddenBlocks s₂ a) b.blocks = [] := by
        rw [List.filter_eq_nil_iff]
        intro blk _
        have : ∀ h : blk.type = ty, blk.type ∈ b'.hiddenBlocks := fun h => (hHB _).2 (h ▸ hty)
        simp only [bgood, Bool.and_eq_true, beq_iff_eq, not_and]
        intro h
        simp [this h]
      rw [e2, List.append_nil]
      apply List.filter_congr
      intro blk _
      by_cases h : blk.type = ty
      · simp [bgood, h, wanted_union_left hd hty]
      · have : (blk.type == ty) = false := by simpa using h
        simp [this]
    · have e1 : List.filter (fun a => (a.type == ty) && bgood [] s₁ a) b.blocks = [] := by
        rw [List.filter_eq_nil_iff]
        intro blk _
        have : wanted s₁ ty = none := by
          rw [wanted_eq_none_iff]; intro bs hbs e; exact hty ⟨bs, hbs, e⟩
        simp only [bgood, Bool.and_eq_true, beq_iff_eq, not_and]
        intro h
        simp [h, this]
      rw [e1, List.nil_append]
      apply List.filter_congr
      intro blk _
      by_cases h : blk.type = ty
      · have hn : ty ∉ b'.hiddenBlocks := fun hm => hty ((hHB _).1 hm)
        simp [bgood, h, wanted_union_right hty, hn]
      · have : (blk.type == ty) = false := by simpa using h
        simp [this]
  · -- errors
    rw [content_errs_nil_iff b _ hU hU0, content_errs_nil_iff b' s₂ h₂.1 h20, hpa, hpb,
      partial_errs_nil_iff b s₁ h₁.1 h10]
    simp only [hb.1, hb.2.1, List.not_mem_nil, false_or]
    have hA : (∀ as ∈ (s₁.union s₂).attrs, as.required = true → (findAttr as.name b.attrs).isSome = true) ↔
        (∀ as ∈ s₁.attrs, as.required = true → (findAttr as.name b.attrs).isSome = true) ∧
        (∀ as ∈ s₂.attrs, as.required = true → (findAttr as.name b.attrs).isSome = true) := by
      simp only [Schema.union, List.mem_append]
      constructor
      · intro h; exact ⟨fun as has => h as (Or.inl has), fun as has => h as (Or.inr has)⟩
      · rintro ⟨h1, h2⟩ as (has | has)
        · exact h1 as has
        · exact h2 as has
    have hBpt : ∀ blk : Block β,
        (wanted (s₁.union s₂) blk.type = none ∨
          ∃ bs, wanted (s₁.union s₂) blk.type = some bs ∧ blk.labels.length = bs.labelCount) ↔
        (wanted s₁ blk.type = none ∨ ∃ bs, wanted s₁ blk.type = some bs ∧ blk.labels.length = bs.labelCount) ∧
        (blk.type ∈ b'.hiddenBlocks ∨ wanted s₂ blk.type = none ∨
          ∃ bs, wanted s₂ blk.type = some bs ∧ blk.labels.length = bs.labelCount) := by
      intro blk
      by_cases hty : ∃ bs ∈ s₁.blocks, bs.type = blk.type
      · have : blk.type ∈ b'.hiddenBlocks := (hHB _).2 hty
        rw [wanted_union_left hd hty]
        simp [this]
      · have hn : blk.type ∉ b'.hiddenBlocks := fun hm => hty ((hHB _).1 hm)
        have : wanted s₁ blk.type = none := by
          rw [wanted_eq_none_iff]; intro bs hbs e; exact hty ⟨bs, hbs, e⟩
        rw [wanted_union_right hty]
        simp [hn, this]
    have hCpt : ∀ p ∈ b.attrs, (∃ as ∈ (s₁.union s₂).attrs, as.name = p.1) ↔
        (p.1 ∈ b'.hiddenAttrs ∨ ∃ as ∈ s₂.attrs, as.name = p.1) := by
      intro p hp
      have := findAttr_isSome_of_mem hp
      rw [hHA]
      simp only [Schema.union, List.mem_append, this, and_true]
      constructor
      · rintro ⟨as, has | has, e⟩
        · exact Or.inl ⟨as, has, e⟩
        · exact Or.inr ⟨as, has, e⟩
      · rintro (⟨as, has, e⟩ | ⟨as, has, e⟩)
        · exact ⟨as, Or.inl has, e⟩
        · exact ⟨as, Or.inr has, e⟩
    have hDpt : ∀ blk : Block β, (∃ bs ∈ (s₁.union s₂).blocks, bs.type = blk.type) ↔
        (blk.type ∈ b'.hiddenBlocks ∨ ∃ bs ∈ s₂.blocks, bs.type = blk.type) := by
      intro blk
      rw [hHB]
      simp only [Schema.union, List.mem_append]
      constructor
      · rintro ⟨bs, hbs | hbs, e⟩
        · exact Or.inl ⟨bs, hbs, e⟩
        · exact Or.inr ⟨bs, hbs, e⟩
      · rintro (⟨bs, hbs, e⟩ | ⟨bs, hbs, e⟩)
        · exact ⟨bs, Or.inl hbs, e⟩
        · exact ⟨bs, Or.inr hbs, e⟩
    rw [hA]
    constructor
    · rintro ⟨⟨⟨a1, a2⟩, hB⟩, hC, hD⟩
      exact ⟨⟨a1, fun blk hblk => ((hBpt blk).1 (hB blk hblk)).1⟩,
        ⟨a2, fun blk hblk => ((hBpt blk).1 (hB blk hblk)).2⟩,
        fun p hp => (hCpt p hp).1 (hC p hp), fun blk hblk => (hDpt blk).1 (hD blk hblk)⟩
    · rintro ⟨⟨a1, b1⟩, ⟨a2, b2⟩, hC, hD⟩
      exact ⟨⟨⟨a1, a2⟩, fun blk hblk => (hBpt blk).2 ⟨b1 blk hblk, b2 blk hblk⟩⟩,
        fun p hp => (hCpt p hp).2 (hC p hp), fun blk hblk => (hDpt blk).2 (hD blk hblk)⟩

end HclModel.Body.Proofs
