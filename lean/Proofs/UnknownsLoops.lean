import Proofs.UnknownsWf
/-!
Monotonicity for `conc`: scopes, the binary loop invariant, `for` expressions.
-/
set_option linter.unusedSimpArgs false
set_option linter.unusedSectionVars false
set_option linter.unnecessarySimpa false
namespace HclModel.Proofs.Unk
open Val

/-! ### scopes -/

theorem concEnv_lookup : ∀ {ρc ρa : Env}, concEnv ρc ρa → ∀ x : String,
    match ρc.lookup x, ρa.lookup x with
    | some v, some a => conc v a = true
    | none, none => True
    | _, _ => False
  | [], [], _, x => by simp [Env.lookup, lookupKey]
  | [], _ :: _, h, _ => by simp [concEnv] at h
  | _ :: _, [], h, _ => by simp [concEnv] at h
  | (k1, v) :: ρc, (k2, a) :: ρa, h, x => by
    obtain ⟨h1, h2, h3⟩ := h
    subst h1
    simp only [Env.lookup, lookupKey]
    by_cases hk : x = k1
    · simp [hk, h2]
    · simp only [beq_iff_eq, hk, if_false]
      exact concEnv_lookup h3 x

theorem concEnv_cons {ρc ρa : Env} (h : concEnv ρc ρa) (x : String) {v a : Val} (hv : conc v a = true) :
    concEnv ((x, v) :: ρc) ((x, a) :: ρa) := ⟨rfl, hv, h⟩

theorem concEnv_bindIter {ρc ρa : Env} (h : concEnv ρc ρa) (kv vv : String) {k v ka va : Val}
    (hk : conc k ka = true) (hv : conc v va = true) :
    concEnv (bindIter ρc kv vv k v) (bindIter ρa kv vv ka va) := by
  unfold bindIter
  split
  · exact concEnv_cons h _ hv
  · exact concEnv_cons (concEnv_cons h _ hk) _ hv

theorem conc_dynVal (v : Val) : conc v Val.dynVal = true := by simp [dynVal, conc_unk]

/-! ### binary loop invariant -/

inductive All2 {α : Type} (R : α → α → Prop) : List α → List α → Prop
  | nil : All2 R [] []
  | cons {x y : α} {xs ys : List α} : R x y → All2 R xs ys → All2 R (x :: xs) (y :: ys)


theorem foldl_rel {α : Type} (stepc stepa : ForSt → α → ForSt)
    (hextc : ∀ st x, ∃ l, (stepc st x).diags = st.diags ++ l)
    (hexta : ∀ st x, ∃ l, (stepa st x).diags = st.diags ++ l)
    (R : ForSt → ForSt → Prop) (Rel : α → α → Prop) :
    ∀ (xs ys : List α), All2 Rel xs ys →
      (∀ sc sa x y, x ∈ xs → Rel x y → R sc sa → (stepc sc x).diags = [] → (stepa sa y).diags = [] →
        R (stepc sc x) (stepa sa y)) →
      ∀ sc sa, R sc sa → (xs.foldl stepc sc).diags = [] → (ys.foldl stepa sa).diags = [] →
        R (xs.foldl stepc sc) (ys.foldl stepa sa)
  | [], [], _, _, sc, sa, hr, _, _ => hr
  | x :: xs, y :: ys, hf, hstep, sc, sa, hr, hc, ha => by
    cases hf with
    | cons hxy hrest =>
      have h1 := foldl_diags_nil stepc hextc xs (stepc sc x) hc
      have h2 := foldl_diags_nil stepa hexta ys (stepa sa y) ha
      exact foldl_rel stepc stepa hextc hexta R Rel xs ys hrest
        (fun sc sa x' y' hx' => hstep sc sa x' y' (by simp [hx']))
        _ _ (hstep sc sa x y (by simp) hxy hr h1 h2) hc ha

/-! ### elements of related collections -/

def RelEl (x y : Val × Val) : Prop := conc x.1 y.1 = true ∧ conc x.2 y.2 = true

theorem idx_rel (kf kg : Fl) : ∀ (xs ys : List Val) (s : Nat), concL xs ys = true →
    All2 RelEl (((List.range' s xs.length).zip xs).map fun (i, x) => (Val.num kf (i : Rat), x))
      (((List.range' s ys.length).zip ys).map fun (i, x) => (Val.num kg (i : Rat), x))
  | [], [], _, _ => All2.nil
  | [], _ :: _, _, h => by simp [concL] at h
  | _ :: _, [], _, h => by simp [concL] at h
  | x :: xs, y :: ys, s, h => by
    simp only [concL, Bool.and_eq_true] at h
    simp only [List.length_cons, List.range'_succ, List.zip_cons_cons, List.map_cons]
    exact All2.cons ⟨by simp [conc], h.1⟩ (idx_rel kf kg xs ys (s + 1) h.2)

theorem fields_rel (kf kg : Fl) : ∀ (xs ys : List (String × Val)), concF xs ys = true →
    All2 RelEl (xs.map fun (k, x) => (Val.str kf k, x)) (ys.map fun (k, x) => (Val.str kg k, x))
  | [], [], _ => All2.nil
  | [], _ :: _, h => by simp [concF] at h
  | _ :: _, [], h => by simp [concF] at h
  | (k, x) :: xs, (l, y) :: ys, h => by
    simp only [concF, Bool.and_eq_true, beq_iff_eq] at h
    simp only [List.map_cons]
    exact All2.cons ⟨by simp [conc, h.1.1], h.1.2⟩ (fields_rel kf kg xs ys h.2)

theorem elements_conc {vc va : Val} {elsa : List (Val × Val)} (h : conc vc va = true)
    (he : elements va = some elsa) :
    ∃ elsc, elements vc = some elsc ∧ All2 RelEl elsc elsa := by
  cases va <;> simp [elements] at he
  case list g t ys =>
    obtain ⟨f, xs, rfl, hl⟩ := conc_list_inv h
    subst he
    refine ⟨_, rfl, ?_⟩
    simp only [List.range_eq_range']
    exact idx_rel _ _ xs ys 0 hl
  case tuple g ys =>
    obtain ⟨f, xs, rfl, hl⟩ := conc_tuple_inv h
    subst he
    refine ⟨_, rfl, ?_⟩
    simp only [List.range_eq_range']
    exact idx_rel _ _ xs ys 0 hl
  case map g t ys =>
    obtain ⟨f, xs, rfl, hl⟩ := conc_map_inv h
    subst he
    exact ⟨_, rfl, fields_rel _ _ xs ys hl⟩
  case object g ys =>
    obtain ⟨f, xs, rfl, hl⟩ := conc_object_inv h
    subst he
    exact ⟨_, rfl, fields_rel _ _ xs ys hl⟩

section
variable (F : Funcs)

def forInit (F : Cx) (ρ : Env) (kv vv : String) (cond : Option Expr) (co : Out) : ForSt :=
  { diags := co.2 ++ ((forProbe F ρ kv vv cond).map (·.1)).getD [], marks := co.1.unmark.2 }

theorem forShell_dyn_cases (ρ : Env) (kv vv : String) (co : Out) (cond : Option Expr)
    (step : ForSt → Val × Val → ForSt) (fin : ForSt → Val)
    (hext : ∀ st x, ∃ l, (step st x).diags = st.diags ++ l)
    (h : (forShell (strictCx F) ρ kv vv co cond step fin).2 = []) :
    (((co.1.typeOf == .dyn) = true ∨ elements co.1.unmark.1 = none) ∧
      ∃ g, (forShell (strictCx F) ρ kv vv co cond step fin).1 = .unk g .dyn) ∨
    (co.2 = [] ∧ co.1.isNull = false ∧ ∃ els, elements co.1.unmark.1 = some els ∧
      (els.foldl step (forInit (strictCx F) ρ kv vv cond co)).diags = [] ∧
      ((els.foldl step (forInit (strictCx F) ρ kv vv cond co)).known = false →
        ∃ g, (forShell (strictCx F) ρ kv vv co cond step fin).1 = .unk g .dyn) ∧
      ((els.foldl step (forInit (strictCx F) ρ kv vv cond co)).known = true →
        (forShell (strictCx F) ρ kv vv co cond step fin).1 =
          fin (els.foldl step (forInit (strictCx F) ρ kv vv cond co)))) := by
  unfold forShell at h ⊢
  obtain ⟨cv, cd⟩ := co
  simp only [forInit] at h ⊢
  by_cases hn : cv.isNull = true
  · simp [hn] at h
  · simp only [hn, Bool.false_eq_true, if_false] at h ⊢
    by_cases hd : (cv.typeOf == Ty.dyn) = true
    · simp only [hd, if_true]; exact Or.inl ⟨Or.inl trivial, _, rfl⟩
    · simp only [hd, Bool.false_eq_true, if_false] at h ⊢
      by_cases hci : canIterate cv.unmark.1.typeOf = true
      · simp only [hci, Bool.not_true, Bool.false_eq_true, if_false] at h ⊢
        by_cases hs : ((forProbe (strictCx F) ρ kv vv cond).map (·.2.2)).getD false = true
        · simp only [hs, if_true] at h
          exact absurd (List.append_eq_nil_iff.mp h).2 (forProbe_stop _ _ _ _ _ hs)
        · simp only [hs, Bool.false_eq_true, if_false] at h ⊢
          cases hel : elements cv.unmark.1 with
          | none => exact Or.inl ⟨Or.inr rfl, _, rfl⟩
          | some els =>
            simp only [hel] at h ⊢
            have hfd : (els.foldl step
                  ({ diags := cd ++ ((forProbe (strictCx F) ρ kv vv cond).map (·.1)).getD [],
                     marks := cv.unmark.2 } : ForSt)).diags = [] := by
              split at h <;> exact h
            have hcd : cd = [] := by
              have := foldl_diags_nil _ hext _ _ hfd
              exact (List.append_eq_nil_iff.mp this).1
            refine Or.inr ⟨hcd, by simpa using hn, els, rfl, hfd, ?_, ?_⟩
            · intro hk
              simp only [hk, Bool.not_false, if_true]
              exact ⟨_, rfl⟩
            · intro hk
              simp only [hk, Bool.not_true, Bool.false_eq_true, if_false]
      · have hci' : canIterate cv.unmark.1.typeOf = false := by simpa using hci
        simp only [hci', Bool.not_false, if_true] at h
        simp at h

theorem elements_typeOf {v : Val} {els : List (Val × Val)} (h : elements v = some els) :
    (v.typeOf == Ty.dyn) = false := by
  cases v <;> simp [elements] at h <;> simp [typeOf]

theorem shell_conc (ρc ρa : Env) (kv vv : String) (coc coa : Out) (cond : Option Expr)
    (stepc stepa : ForSt → Val × Val → ForSt) (finc fina : ForSt → Val) (R : ForSt → ForSt → Prop)
    (hextc : ∀ st x, ∃ l, (stepc st x).diags = st.diags ++ l)
    (hexta : ∀ st x, ∃ l, (stepa st x).diags = st.diags ++ l)
    (ihc : coc.2 = [] → coa.2 = [] → conc coc.1 coa.1 = true)
    (ihw : coc.2 = [] → wfVal coc.1 = true)
    (hstep : ∀ sc sa x y, wfVal x.1 = true ∧ wfVal x.2 = true → RelEl x y → R sc sa →
      (stepc sc x).diags = [] → (stepa sa y).diags = [] → R (stepc sc x) (stepa sa y))
    (hinit : R (forInit (strictCx F) ρc kv vv cond coc) (forInit (strictCx F) ρa kv vv cond coa))
    (hfin : ∀ sc sa, R sc sa → sa.known = true → sc.known = true ∧ conc (finc sc) (fina sa) = true)
    (hc : (forShell (strictCx F) ρc kv vv coc cond stepc finc).2 = [])
    (ha : (forShell (strictCx F) ρa kv vv coa cond stepa fina).2 = []) :
    conc (forShell (strictCx F) ρc kv vv coc cond stepc finc).1
      (forShell (strictCx F) ρa kv vv coa cond stepa fina).1 = true := by
  rcases forShell_dyn_cases F ρa kv vv coa cond stepa fina hexta ha with
    ⟨_, g, he⟩ | ⟨hcda, nna, elsa, hela, hfda, hka0, hka1⟩
  · rw [he]; simp [conc_unk]
  · cases hkn : (elsa.foldl stepa (forInit (strictCx F) ρa kv vv cond coa)).known
    · obtain ⟨g, he⟩ := hka0 hkn
      rw [he]; simp [conc_unk]
    · rw [hka1 hkn]
      rcases forShell_dyn_cases F ρc kv vv coc cond stepc finc hextc hc with
        ⟨hcause, _⟩ | ⟨hcdc, nnc, elsc, helc, hfdc, hkc0, hkc1⟩
      · -- impossible: the concrete collection has the constructor of the abstract one
        exfalso
        have hcc := ihc (by
          -- concrete collection diagnostics
          obtain ⟨cvc, cdc⟩ := coc
          unfold forShell at hc
          simp only at hc
          repeat' split at hc
          all_goals first
            | exact hc
            | exact (List.append_eq_nil_iff.mp hc).1
            | (rename_i hh; exact (List.append_eq_nil_iff.mp (foldl_diags_nil _ hextc _ _ hc)).1)) hcda
        have hcu : conc coc.1.unmark.1 coa.1.unmark.1 = true := by simpa using hcc
        obtain ⟨elsc, helc, _⟩ := elements_conc hcu hela
        rcases hcause with h1 | h1
        · have := elements_typeOf helc
          simp only [unmark_fst, typeOf_setFl] at this
          rw [this] at h1; cases h1
        · rw [helc] at h1; cases h1
      · have hcc := ihc hcdc hcda
        have hcu : conc coc.1.unmark.1 coa.1.unmark.1 = true := by simpa using hcc
        obtain ⟨elsc', helc', hrel⟩ := elements_conc hcu hela
        rw [helc] at helc'; cases helc'
        have hwf := elements_wf (cv := coc.1.unmark.1) (by simpa using ihw hcdc) helc
        have hR := foldl_rel stepc stepa hextc hexta R RelEl elsc elsa hrel
          (fun sc sa x y hx hxy hr h1 h2 => hstep sc sa x y (hwf x hx) hxy hr h1 h2) _ _ hinit hfdc hfda
        obtain ⟨f1, f2⟩ := hfin _ _ hR hkn
        rw [hkc1 f1]
        exact f2
end

/-! ### the tuple `for` loop -/

theorem ftStep_diag (F : Cx) (ρ : Env) (kv vv : String) (val ce : Expr) (st : ForSt) (x : Val × Val)
    (h : (ftStep F ρ kv vv val (some ce) st x).diags = []) :
    st.diags = [] ∧ (eval F (bindIter ρ kv vv x.1 x.2) ce).2 = [] := by
  unfold ftStep at h
  simp only at h
  have key : ∀ l : List Diag, st.diags ++ (eval F (bindIter ρ kv vv x.1 x.2) ce).2 ++ l = [] →
      st.diags = [] ∧ (eval F (bindIter ρ kv vv x.1 x.2) ce).2 = [] := by
    intro l hl
    simp only [List.append_eq_nil_iff] at hl
    exact ⟨hl.1.1, hl.1.2⟩
  split at h
  · split at h
    · exact key _ h
    · exact key [] (by simpa using h)
  · split at h
    · exact key [] (by simpa using h)
    · split at h
      · split at h
        · exact key _ h
        · exact key [] (by simpa using h)
      · exact key [] (by simpa using h)
      · simp only [ftVal] at h
        exact key _ h

theorem ftStep_known_mono (F : Cx) (ρ : Env) (kv vv : String) (val : Expr) (cond : Option Expr) (st : ForSt)
    (x : Val × Val) (h : (ftStep F ρ kv vv val cond st x).known = true) : st.known = true := by
  unfold ftStep at h
  cases cond with
  | none => simpa [ftVal] using h
  | some ce =>
    simp only at h
    split at h
    · simp at h
    · split at h
      · simp at h
      · split at h
        · simp at h
        · exact h
        · simpa [ftVal] using h

section
variable (F : Funcs)

/-- the loop invariant of the tuple form -/
def RT (sc sa : ForSt) : Prop := sa.known = true → sc.known = true ∧ concL sc.vals sa.vals = true

theorem conc_ftVal (ρc' ρa' : Env) (val : Expr) (sc sa : ForSt)
    (ihv : (eval (strictCx F) ρc' val).2 = [] → (eval (strictCx F) ρa' val).2 = [] →
      conc (eval (strictCx F) ρc' val).1 (eval (strictCx F) ρa' val).1 = true)
    (kc : sc.known = true) (cl : concL sc.vals sa.vals = true)
    (hdc : (ftVal (strictCx F) ρc' val sc).diags = []) (hda : (ftVal (strictCx F) ρa' val sa).diags = []) :
    RT (ftVal (strictCx F) ρc' val sc) (ftVal (strictCx F) ρa' val sa) := by
  intro _
  simp only [ftVal] at hdc hda ⊢
  simp only [List.append_eq_nil_iff] at hdc hda
  exact ⟨kc, concL_append cl (concL_singleton (ihv hdc.2 hda.2))⟩

theorem conc_ftStep (ρc ρa : Env) (kv vv : String) (val : Expr) (cond : Option Expr)
    (ihv : ∀ ρc' ρa', concEnv ρc' ρa' → wfEnv ρc' → (eval (strictCx F) ρc' val).2 = [] →
      (eval (strictCx F) ρa' val).2 = [] → conc (eval (strictCx F) ρc' val).1 (eval (strictCx F) ρa' val).1 = true)
    (ihce : ∀ ce, cond = some ce → ∀ ρc' ρa', concEnv ρc' ρa' → wfEnv ρc' → (eval (strictCx F) ρc' ce).2 = [] →
      (eval (strictCx F) ρa' ce).2 = [] → conc (eval (strictCx F) ρc' ce).1 (eval (strictCx F) ρa' ce).1 = true)
    (henv : concEnv ρc ρa) (hw : wfEnv ρc) (sc sa : ForSt) (x y : Val × Val)
    (hwx : wfVal x.1 = true ∧ wfVal x.2 = true) (hxy : RelEl x y) (hr : RT sc sa)
    (hdc : (ftStep (strictCx F) ρc kv vv val cond sc x).diags = [])
    (hda : (ftStep (strictCx F) ρa kv vv val cond sa y).diags = []) :
    RT (ftStep (strictCx F) ρc kv vv val cond sc x) (ftStep (strictCx F) ρa kv vv val cond sa y) := by
  intro hka
  have ksa := ftStep_known_mono _ _ _ _ _ _ _ _ hka
  obtain ⟨kc, cl⟩ := hr ksa
  have henv' := concEnv_bindIter henv kv vv hxy.1 hxy.2
  have hw' := wfEnv_bindIter (kv := kv) (vv := vv) hw hwx.1 hwx.2
  cases cond with
  | none =>
    unfold ftStep at hdc hda hka ⊢
    exact conc_ftVal F _ _ val sc sa (ihv _ _ henv' hw') kc cl hdc hda hka
  | some ce =>
    obtain ⟨_, hidc⟩ := ftStep_diag _ _ _ _ _ _ _ _ hdc
    obtain ⟨_, hida⟩ := ftStep_diag _ _ _ _ _ _ _ _ hda
    have hcinc := ihce ce rfl _ _ henv' hw' hidc hida
    unfold ftStep at hdc hda hka ⊢
    simp only at hdc hda hka ⊢
    generalize eval (strictCx F) (bindIter ρc kv vv x.1 x.2) ce = coc at *
    generalize eval (strictCx F) (bindIter ρa kv vv y.1 y.2) ce = coa at *
    obtain ⟨incc, idc⟩ := coc; obtain ⟨inca, ida⟩ := coa
    simp only at hdc hda hka hcinc hidc hida ⊢
    subst hidc; subst hida
    by_cases hna : inca.isNull = true
    · simp [hna, ksa] at hda
    · simp only [hna, Bool.false_eq_true, if_false] at hda hka ⊢
      by_cases hkna : inca.isKnown = true
      · simp only [hkna, Bool.not_true, Bool.false_eq_true, if_false] at hda hka ⊢
        have hknc := conc_isKnown hcinc hkna
        have hnc : incc.isNull = false := (conc_isNull hcinc hkna).trans (by simpa using hna)
        simp only [hnc, hknc, Bool.false_eq_true, if_false, Bool.not_true] at hdc ⊢
        rcases tryConvert_cases inca .bool with ⟨ba, hba, hba'⟩ | ⟨d, hba⟩
        · obtain ⟨fa, b, rfl⟩ := cond_bool hkna (by simpa using hna) hba'
          rcases tryConvert_cases incc .bool with ⟨bc, hbc, hbc'⟩ | ⟨d, hbc⟩
          · have hbb := convert_conc inca incc .bool _ _ hcinc rfl hbc' hba'
            obtain ⟨fc, rfl⟩ := conc_bool_inv hbb
            rw [hba] at hda hka ⊢
            rw [hbc] at hdc ⊢
            cases b
            · exact ⟨kc, cl⟩
            · exact conc_ftVal F _ _ val _ _ (ihv _ _ henv' hw') kc cl hdc hda hka
          · rw [hbc] at hdc; simp [kc] at hdc
        · rw [hba] at hda; simp [ksa] at hda
      · simp only [Bool.not_eq_true] at hkna
        simp [hkna] at hka
end

/-! ### the object `for` loop -/

def GRel (p q : String × List Val) : Prop := p.1 = q.1 ∧ concL p.2 q.2 = true

theorem concG_groupInsert {k : String} {v w : Val} (hvw : conc v w = true) :
    ∀ {a b : List (String × List Val)}, All2 GRel a b → All2 GRel (groupInsert k v a) (groupInsert k w b)
  | [], [], _ => All2.cons ⟨rfl, concL_singleton hvw⟩ All2.nil
  | (k1, vs) :: a, (k2, ws) :: b, h => by
    cases h with
    | cons h1 h2 =>
      obtain ⟨hk, hl⟩ := h1
      simp only at hk hl
      subst hk
      simp only [groupInsert]
      split
      · exact All2.cons ⟨rfl, concL_singleton hvw⟩ (All2.cons ⟨rfl, hl⟩ h2)
      · split
        · exact All2.cons ⟨rfl, concL_append hl (concL_singleton hvw)⟩ h2
        · exact All2.cons ⟨rfl, hl⟩ (concG_groupInsert hvw h2)

theorem concG_lookup {k : String} : ∀ {a b : List (String × List Val)}, All2 GRel a b →
    (lookupKey k a).isSome = (lookupKey k b).isSome
  | [], [], _ => rfl
  | (k1, vs) :: a, (k2, ws) :: b, h => by
    cases h with
    | cons h1 h2 =>
      obtain ⟨hk, _⟩ := h1
      simp only at hk
      subst hk
      simp only [lookupKey]
      split
      · rfl
      · exact concG_lookup h2

theorem concG_headD : ∀ {a b : List (String × List Val)}, All2 GRel a b →
    concF (a.map fun (k, vs) => (k, vs.headD Val.dynVal)) (b.map fun (k, vs) => (k, vs.headD Val.dynVal)) = true
  | [], [], _ => rfl
  | (k1, vs) :: a, (k2, ws) :: b, h => by
    cases h with
    | cons h1 h2 =>
      obtain ⟨hk, hl⟩ := h1
      simp only at hk hl
      subst hk
      simp only [List.map_cons, concF, beq_self_eq_true, Bool.true_and, Bool.and_eq_true]
      refine ⟨?_, concG_headD h2⟩
      cases vs <;> cases ws <;> simp [concL] at hl ⊢
      · exact conc_dynVal _
      · exact hl.1

theorem concG_tuple : ∀ {a b : List (String × List Val)}, All2 GRel a b →
    concF (a.map fun (k, vs) => (k, Val.tuple Fl.none vs)) (b.map fun (k, vs) => (k, Val.tuple Fl.none vs)) = true
  | [], [], _ => rfl
  | (k1, vs) :: a, (k2, ws) :: b, h => by
    cases h with
    | cons h1 h2 =>
      obtain ⟨hk, hl⟩ := h1
      simp only at hk hl
      subst hk
      simp only [List.map_cons, concF, beq_self_eq_true, Bool.true_and, Bool.and_eq_true, conc]
      exact ⟨hl, concG_tuple h2⟩

theorem foVal_diag (F : Cx) (ρ' : Env) (key val : Expr) (group : Bool) (st : ForSt)
    (h : (foVal F ρ' key val group st).diags = []) : st.diags = [] ∧ (eval F ρ' key).2 = [] := by
  unfold foVal at h
  simp only at h
  have key' : ∀ l : List Diag, st.diags ++ (eval F ρ' key).2 ++ l = [] →
      st.diags = [] ∧ (eval F ρ' key).2 = [] := by
    intro l hl
    simp only [List.append_eq_nil_iff] at hl
    exact ⟨hl.1.1, hl.1.2⟩
  split at h
  · split at h
    · exact key' _ h
    · exact key' [] (by simpa using h)
  · split at h
    · exact key' [] (by simpa using h)
    · split at h
      · split at h
        · exact key' _ h
        · exact key' [] (by simpa using h)
      · split at h
        · split at h
          · exact key' _ h
          · split at h
            · simp at h
            · exact key' _ h
        · exact key' [] (by simpa using h)

theorem foVal_known_mono (F : Cx) (ρ' : Env) (key val : Expr) (group : Bool) (st : ForSt)
    (h : (foVal F ρ' key val group st).known = true) : st.known = true := by
  unfold foVal at h
  simp only at h
  split at h
  · simp at h
  · split at h
    · simp at h
    · split at h
      · simp at h
      · split at h
        · split at h
          · exact h
          · split at h <;> exact h
        · simp at h

theorem foStep_diag (F : Cx) (ρ : Env) (kv vv : String) (key val ce : Expr) (group : Bool) (st : ForSt)
    (x : Val × Val) (h : (foStep F ρ kv vv key val (some ce) group st x).diags = []) :
    st.diags = [] ∧ (eval F (bindIter ρ kv vv x.1 x.2) ce).2 = [] := by
  unfold foStep at h
  simp only at h
  have key' : ∀ l : List Diag, st.diags ++ (eval F (bindIter ρ kv vv x.1 x.2) ce).2 ++ l = [] →
      st.diags = [] ∧ (eval F (bindIter ρ kv vv x.1 x.2) ce).2 = [] := by
    intro l hl
    simp only [List.append_eq_nil_iff] at hl
    exact ⟨hl.1.1, hl.1.2⟩
  split at h
  · split at h
    · exact key' _ h
    · exact key' [] (by simpa using h)
  · split at h
    · split at h
      · exact key' _ h
      · exact key' [] (by simpa using h)
    · split at h
      · exact key' [] (by simpa using h)
      · split at h
        · exact key' [] (by simpa using h)
        · have := (foVal_diag F _ key val group _ h).1
          exact key' [] (by simpa using this)

theorem foStep_known_mono (F : Cx) (ρ : Env) (kv vv : String) (key val : Expr) (cond : Option Expr)
    (group : Bool) (st : ForSt) (x : Val × Val)
    (h : (foStep F ρ kv vv key val cond group st x).known = true) : st.known = true := by
  unfold foStep at h
  cases cond with
  | none => exact foVal_known_mono _ _ _ _ _ _ h
  | some ce =>
    simp only at h
    split at h
    · simp at h
    · split at h
      · simp at h
      · split at h
        · simp at h
        · split at h
          · exact h
          · have := foVal_known_mono F _ key val group _ h
            exact this

section
variable (F : Funcs)

def RO (sc sa : ForSt) : Prop := sa.known = true → sc.known = true ∧ All2 GRel sc.kvs sa.kvs

theorem conc_foVal (ρc' ρa' : Env) (key val : Expr) (group : Bool) (sc sa : ForSt)
    (ihk : (eval (strictCx F) ρc' key).2 = [] → (eval (strictCx F) ρa' key).2 = [] →
      conc (eval (strictCx F) ρc' key).1 (eval (strictCx F) ρa' key).1 = true)
    (ihv : (eval (strictCx F) ρc' val).2 = [] → (eval (strictCx F) ρa' val).2 = [] →
      conc (eval (strictCx F) ρc' val).1 (eval (strictCx F) ρa' val).1 = true)
    (kc : sc.known = true) (ksa : sa.known = true) (cl : All2 GRel sc.kvs sa.kvs)
    (hdc : (foVal (strictCx F) ρc' key val group sc).diags = [])
    (hda : (foVal (strictCx F) ρa' key val group sa).diags = []) :
    RO (foVal (strictCx F) ρc' key val group sc) (foVal (strictCx F) ρa' key val group sa) := by
  intro hka
  obtain ⟨_, hkdc⟩ := foVal_diag _ _ _ _ _ _ hdc
  obtain ⟨_, hkda⟩ := foVal_diag _ _ _ _ _ _ hda
  have hck := ihk hkdc hkda
  unfold foVal at hdc hda hka ⊢
  generalize eval (strictCx F) ρc' key = koc at *
  generalize eval (strictCx F) ρa' key = koa at *
  generalize eval (strictCx F) ρc' val = voc at *
  generalize eval (strictCx F) ρa' val = voa at *
  obtain ⟨krc, kdc⟩ := koc; obtain ⟨kra, kda⟩ := koa
  obtain ⟨vc, vdc⟩ := voc; obtain ⟨va, vda⟩ := voa
  simp only at hdc hda hka hck hkdc hkda ihv ⊢
  subst hkdc; subst hkda
  by_cases hna : kra.isNull = true
  · simp [hna, ksa] at hda
  · simp only [hna, Bool.false_eq_true, if_false] at hda hka ⊢
    by_cases hkna : kra.isKnown = true
    · simp only [hkna, Bool.not_true, Bool.false_eq_true, if_false] at hda hka ⊢
      have hknc := conc_isKnown hck hkna
      have hnc : krc.isNull = false := (conc_isNull hck hkna).trans (by simpa using hna)
      simp only [hnc, hknc, Bool.false_eq_true, if_false, Bool.not_true] at hdc ⊢
      rcases tryConvert_cases kra .str with ⟨ksa', hba, hba'⟩ | ⟨d, hba⟩
      · obtain ⟨fa, s, rfl⟩ := conv_str_known hkna (by simpa using hna) hba'
        rcases tryConvert_cases krc .str with ⟨ksc, hbc, hbc'⟩ | ⟨d, hbc⟩
        · have hbb := convert_conc kra krc .str _ _ hck rfl hbc' hba'
          obtain ⟨fc, rfl⟩ := conc_str_inv hbb
          rw [hba] at hda hka ⊢
          rw [hbc] at hdc ⊢
          simp only [unmark_fst, setFl] at hdc hda hka ⊢
          have hl := concG_lookup (k := s) cl
          cases group
          · simp only [Bool.false_eq_true, if_false] at hdc hda hka ⊢
            cases hls : (lookupKey s sa.kvs).isSome
            · rw [hls] at hl
              simp only [hl, hls, Bool.false_eq_true, if_false, List.append_eq_nil_iff, List.nil_append] at hdc hda ⊢
              exact ⟨kc, concG_groupInsert (ihv hdc.2 hda.2) cl⟩
            · simp [hls] at hda
          · simp only [if_true, List.append_eq_nil_iff, List.nil_append] at hdc hda ⊢
            exact ⟨kc, concG_groupInsert (ihv hdc.2 hda.2) cl⟩
        · rw [hbc] at hdc; simp [kc] at hdc
      · rw [hba] at hda; simp [ksa] at hda
    · simp only [Bool.not_eq_true] at hkna
      simp [hkna] at hka

theorem conc_foStep (ρc ρa : Env) (kv vv : String) (key val : Expr) (cond : Option Expr) (group : Bool)
    (ihk : ∀ ρc' ρa', concEnv ρc' ρa' → wfEnv ρc' → (eval (strictCx F) ρc' key).2 = [] →
      (eval (strictCx F) ρa' key).2 = [] → conc (eval (strictCx F) ρc' key).1 (eval (strictCx F) ρa' key).1 = true)
    (ihv : ∀ ρc' ρa', concEnv ρc' ρa' → wfEnv ρc' → (eval (strictCx F) ρc' val).2 = [] →
      (eval (strictCx F) ρa' val).2 = [] → conc (eval (strictCx F) ρc' val).1 (eval (strictCx F) ρa' val).1 = true)
    (ihce : ∀ ce, cond = some ce → ∀ ρc' ρa', concEnv ρc' ρa' → wfEnv ρc' → (eval (strictCx F) ρc' ce).2 = [] →
      (eval (strictCx F) ρa' ce).2 = [] → conc (eval (strictCx F) ρc' ce).1 (eval (strictCx F) ρa' ce).1 = true)
    (henv : concEnv ρc ρa) (hw : wfEnv ρc) (sc sa : ForSt) (x y : Val × Val)
    (hwx : wfVal x.1 = true ∧ wfVal x.2 = true) (hxy : RelEl x y) (hr : RO sc sa)
    (hdc : (foStep (strictCx F) ρc kv vv key val cond group sc x).diags = [])
    (hda : (foStep (strictCx F) ρa kv vv key val cond group sa y).diags = []) :
    RO (foStep (strictCx F) ρc kv vv key val cond group sc x)
      (foStep (strictCx F) ρa kv vv key val cond group sa y) := by
  intro hka
  have ksa := foStep_known_mono _ _ _ _ _ _ _ _ _ _ hka
  obtain ⟨kc, cl⟩ := hr ksa
  have henv' := concEnv_bindIter henv kv vv hxy.1 hxy.2
  have hw' := wfEnv_bindIter (kv := kv) (vv := vv) hw hwx.1 hwx.2
  cases cond with
  | none =>
    unfold foStep at hdc hda hka ⊢
    exact conc_foVal F _ _ key val group sc sa (ihk _ _ henv' hw') (ihv _ _ henv' hw') kc ksa cl hdc hda hka
  | some ce =>
    obtain ⟨_, hidc⟩ := foStep_diag _ _ _ _ _ _ _ _ _ _ hdc
    obtain ⟨_, hida⟩ := foStep_diag _ _ _ _ _ _ _ _ _ _ hda
    have hcinc := ihce ce rfl _ _ henv' hw' hidc hida
    unfold foStep at hdc hda hka ⊢
    simp only at hdc hda hka ⊢
    generalize eval (strictCx F) (bindIter ρc kv vv x.1 x.2) ce = coc at *
    generalize eval (strictCx F) (bindIter ρa kv vv y.1 y.2) ce = coa at *
    obtain ⟨incc, idc⟩ := coc; obtain ⟨inca, ida⟩ := coa
    simp only at hdc hda hka hcinc hidc hida ⊢
    subst hidc; subst hida
    by_cases hna : inca.isNull = true
    · simp [hna, ksa] at hda
    · simp only [hna, Bool.false_eq_true, if_false] at hda hka ⊢
      rcases tryConvert_cases inca .bool with ⟨ba, hba, hba'⟩ | ⟨d, hba⟩
      · rw [hba] at hda hka ⊢
        simp only at hda hka ⊢
        by_cases hkb : ba.isKnown = true
        · simp only [hkb, Bool.not_true, Bool.false_eq_true, if_false] at hda hka ⊢
          have hkna : inca.isKnown = true := by rw [← (convert_props _ _ _ hba').1]; exact hkb
          obtain ⟨fa, b, rfl⟩ := cond_bool hkna (by simpa using hna) hba'
          have hknc := conc_isKnown hcinc hkna
          have hnc : incc.isNull = false := (conc_isNull hcinc hkna).trans (by simpa using hna)
          simp only [hnc, Bool.false_eq_true, if_false] at hdc ⊢
          rcases tryConvert_cases incc .bool with ⟨bc, hbc, hbc'⟩ | ⟨d, hbc⟩
          · have hbb := convert_conc inca incc .bool _ _ hcinc rfl hbc' hba'
            obtain ⟨fc, rfl⟩ := conc_bool_inv hbb
            rw [hbc] at hdc ⊢
            simp only [isKnown, Bool.not_true, Bool.false_eq_true, if_false] at hdc ⊢
            cases b
            · exact ⟨kc, cl⟩
            · exact conc_foVal F _ _ key val group _ _ (ihk _ _ henv' hw') (ihv _ _ henv' hw') kc ksa cl
                hdc hda hka
          · rw [hbc] at hdc; simp [kc] at hdc
        · simp only [Bool.not_eq_true] at hkb
          simp [hkb] at hka
      · rw [hba] at hda; simp [ksa] at hda

theorem conc_forTuple (ρc ρa : Env) (kv vv : String) (coll val : Expr) (cond : Option Expr)
    (ihc : (eval (strictCx F) ρc coll).2 = [] → (eval (strictCx F) ρa coll).2 = [] →
      conc (eval (strictCx F) ρc coll).1 (eval (strictCx F) ρa coll).1 = true)
    (ihw : (eval (strictCx F) ρc coll).2 = [] → wfVal (eval (strictCx F) ρc coll).1 = true)
    (ihv : ∀ ρc' ρa', concEnv ρc' ρa' → wfEnv ρc' → (eval (strictCx F) ρc' val).2 = [] →
      (eval (strictCx F) ρa' val).2 = [] → conc (eval (strictCx F) ρc' val).1 (eval (strictCx F) ρa' val).1 = true)
    (ihce : ∀ ce, cond = some ce → ∀ ρc' ρa', concEnv ρc' ρa' → wfEnv ρc' → (eval (strictCx F) ρc' ce).2 = [] →
      (eval (strictCx F) ρa' ce).2 = [] → conc (eval (strictCx F) ρc' ce).1 (eval (strictCx F) ρa' ce).1 = true)
    (henv : concEnv ρc ρa) (hw : wfEnv ρc)
    (hc : (eval (strictCx F) ρc (.forTuple kv vv coll val cond)).2 = [])
    (ha : (eval (strictCx F) ρa (.forTuple kv vv coll val cond)).2 = []) :
    conc (eval (strictCx F) ρc (.forTuple kv vv coll val cond)).1
      (eval (strictCx F) ρa (.forTuple kv vv coll val cond)).1 = true := by
  rw [eval_forTuple'] at hc ha ⊢
  rw [eval_forTuple']
  refine shell_conc F ρc ρa kv vv _ _ cond _ _ _ _ (RT) (ftStep_ext _ ρc kv vv val cond)
    (ftStep_ext _ ρa kv vv val cond) ihc ihw
    (fun sc sa x y hwx hxy hr h1 h2 => conc_ftStep F ρc ρa kv vv val cond ihv ihce henv hw sc sa x y hwx hxy hr h1 h2)
    (fun _ => ⟨rfl, rfl⟩) (fun sc sa hr hk => ?_) hc ha
  obtain ⟨h1, h2⟩ := hr hk
  exact ⟨h1, by simpa [conc] using h2⟩

theorem conc_forObject (ρc ρa : Env) (kv vv : String) (coll key val : Expr) (cond : Option Expr) (group : Bool)
    (ihc : (eval (strictCx F) ρc coll).2 = [] → (eval (strictCx F) ρa coll).2 = [] →
      conc (eval (strictCx F) ρc coll).1 (eval (strictCx F) ρa coll).1 = true)
    (ihw : (eval (strictCx F) ρc coll).2 = [] → wfVal (eval (strictCx F) ρc coll).1 = true)
    (ihk : ∀ ρc' ρa', concEnv ρc' ρa' → wfEnv ρc' → (eval (strictCx F) ρc' key).2 = [] →
      (eval (strictCx F) ρa' key).2 = [] → conc (eval (strictCx F) ρc' key).1 (eval (strictCx F) ρa' key).1 = true)
    (ihv : ∀ ρc' ρa', concEnv ρc' ρa' → wfEnv ρc' → (eval (strictCx F) ρc' val).2 = [] →
      (eval (strictCx F) ρa' val).2 = [] → conc (eval (strictCx F) ρc' val).1 (eval (strictCx F) ρa' val).1 = true)
    (ihce : ∀ ce, cond = some ce → ∀ ρc' ρa', concEnv ρc' ρa' → wfEnv ρc' → (eval (strictCx F) ρc' ce).2 = [] →
      (eval (strictCx F) ρa' ce).2 = [] → conc (eval (strictCx F) ρc' ce).1 (eval (strictCx F) ρa' ce).1 = true)
    (henv : concEnv ρc ρa) (hw : wfEnv ρc)
    (hc : (eval (strictCx F) ρc (.forObject kv vv coll key val cond group)).2 = [])
    (ha : (eval (strictCx F) ρa (.forObject kv vv coll key val cond group)).2 = []) :
    conc (eval (strictCx F) ρc (.forObject kv vv coll key val cond group)).1
      (eval (strictCx F) ρa (.forObject kv vv coll key val cond group)).1 = true := by
  rw [eval_forObject'] at hc ha ⊢
  rw [eval_forObject']
  refine shell_conc F ρc ρa kv vv _ _ cond _ _ _ _ (RO) (foStep_ext _ ρc kv vv key val cond group)
    (foStep_ext _ ρa kv vv key val cond group) ihc ihw
    (fun sc sa x y hwx hxy hr h1 h2 =>
      conc_foStep F ρc ρa kv vv key val cond group ihk ihv ihce henv hw sc sa x y hwx hxy hr h1 h2)
    (fun _ => ⟨rfl, All2.nil⟩) (fun sc sa hr hk => ?_) hc ha
  obtain ⟨h1, h2⟩ := hr hk
  refine ⟨h1, ?_⟩
  cases group
  · simpa [conc] using concG_headD h2
  · simpa [conc] using concG_tuple h2
end

end HclModel.Proofs.Unk
