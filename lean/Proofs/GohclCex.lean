import Proofs.GohclStruct
/-!
C16: two concrete evaluations of the decoder (`decodeBody` is defined by well-founded recursion and
`impliedSchema` sorts with `Array.qsort`, so `decide` does not evaluate them: the results are derived from the
lemmas about `Content`):
* a non-nil empty slice of blocks comes back nil;
* a label field of the value passed to `EncodeIntoBody` / `DecodeBody` itself is lost.
-/
namespace HclModel.Gohcl.Proofs
open HclModel HclModel.Body HclModel.Body.Proofs

/-- decoding the empty body: `Content` reports nothing and returns no block, when nothing is required -/
theorem content_empty (fields : List Field) (hnd : (names fields).Nodup)
    (hreq : ∀ a ∈ attrSchemas fields, a.required = false) :
    let r := (GBody.mk [] []).native.content (impliedSchema (.mk fields))
    r.2 = [] ∧ r.1.blocks = [] := by
  have := contentRT (fields := fields) hnd (as := []) (bs := []) (by simp)
    (fun a ha hr => by rw [hreq a ha] at hr; exact absurd hr (by decide)) (by simp)
  exact ⟨this.1, this.2.2⟩

theorem empty_slice_not_preserved :
    let ty : STy := .mk [.block "b" .slice (.mk [])]
    let v : SVal := .mk [.slice (some [])]
    ∃ b, encodeBody ty v = some b ∧ decodeBody 3 ty b = some (.mk [.slice none]) := by
  refine ⟨.mk [] [], rfl, ?_⟩
  obtain ⟨h1, h2⟩ := content_empty [.block "b" .slice (.mk [])] (by simp [names, fieldName])
    (by simp [attrSchemas])
  unfold decodeBody
  simp only [h1, List.isEmpty_nil, Bool.not_true, Bool.false_eq_true, if_false, STy.fields]
  rw [decodeFields_cons, decodeFields_nil]
  simp only [decField, h2, List.filter_nil, decShape, Option.map_some]

/-- the round trip of a root struct with a non-empty label field fails -/
theorem root_label_lost :
    let ty : STy := .mk [.label "n"]
    let v : SVal := .mk [.label "x"]
    ty.wf = true ∧ v.ok ty = true ∧ ty.depth ≤ 1 ∧
    ∃ b, encodeBody ty v = some b ∧ decodeBody 1 ty b = some (.mk [.label ""]) := by
  refine ⟨by decide, by decide, by decide, .mk [] [], rfl, ?_⟩
  obtain ⟨h1, h2⟩ := content_empty [.label "n"] (by rw [names_cons_label]; exact List.nodup_nil) (by simp [attrSchemas])
  unfold decodeBody
  simp only [h1, List.isEmpty_nil, Bool.not_true, Bool.false_eq_true, if_false, STy.fields]
  rw [decodeFields_cons, decodeFields_nil]
  simp only [decField, List.headD_nil, Option.map_some]

end HclModel.Gohcl.Proofs
