import HclModel.Json.ScanPos
import Proofs.JsonScan
/-!
Proofs about the JSON scanner with positions (`HclModel/Json/ScanPos.lean`): forgetting lines and columns gives
the scanner model of C13 (`scan`); every token's end byte is its start byte plus its length; lines are
obtained by counting newline bytes, for every input; on input without tab and carriage return, scanned with
one-byte clusters, columns are obtained by counting bytes since the last newline.
-/
namespace HclModel.Json.Proofs
open HclModel.Json HclModel.Pos

/-! ### the recount `colAt` as a left fold -/

def colF : Nat → List Byte → Nat
  | c, [] => c
  | c, x :: r => if x = 10 then colF 1 r else colF (c + 1) r

theorem colF_append (c : Nat) (a b : List Byte) : colF c (a ++ b) = colF (colF c a) b := by
  induction a generalizing c with
  | nil => rfl
  | cons x a ih =>
    simp only [List.cons_append, colF]
    split <;> exact ih _

theorem colAt_snoc (c : Nat) (pre : List Byte) (x : Byte) :
    colAt c (pre ++ [x]) = if x = 10 then 1 else colAt c pre + 1 := by
  unfold colAt
  by_cases hx : x = 10
  · subst hx; simp
  · have hx' : (10 : Nat) ≠ x := fun h => hx h.symm
    simp only [List.mem_append, List.mem_singleton, hx', or_false, List.reverse_append, List.reverse_cons,
      List.reverse_nil, List.nil_append, List.cons_append, List.takeWhile_cons, bne_iff_ne, ne_eq, hx,
      not_false_eq_true, if_true, List.length_cons, List.length_append, List.length_nil, if_false]
    split <;> omega

theorem colAt_eq_colF_rev (c : Nat) (pre : List Byte) : colAt c pre.reverse = colF c pre.reverse := by
  induction pre with
  | nil => simp [colAt, colF]
  | cons x pre ih =>
    rw [List.reverse_cons, colAt_snoc, colF_append, ← ih]
    simp only [colF]

theorem colAt_eq_colF (c : Nat) (pre : List Byte) : colAt c pre = colF c pre := by
  have := colAt_eq_colF_rev c pre.reverse
  rwa [List.reverse_reverse] at this

theorem colAt_append (c : Nat) (a b : List Byte) : colAt c (a ++ b) = colAt (colAt c a) b := by
  simp only [colAt_eq_colF, colF_append]

theorem colAt_flat (c : Nat) {pre : List Byte} (h : ∀ x ∈ pre, x ≠ 10) : colAt c pre = c + pre.length := by
  unfold colAt
  rw [if_neg]
  intro hm
  exact h 10 hm rfl

/-! ### reaching a position by consuming bytes -/

/-- `q` is the position `pre` bytes after `p`: bytes and lines always; columns under the condition `C`
    (the hypotheses of `jscan_cols_plain`) -/
structure Reach (C : Prop) (pre : List Byte) (p q : P) : Prop where
  byte : q.byte = p.byte + pre.length
  line : q.line = p.line + pre.count 10
  col : C → q.col = colAt p.col pre

theorem Reach.refl {C : Prop} (p : P) : Reach C [] p p :=
  ⟨by simp, by simp, fun _ => by simp [colAt]⟩

theorem Reach.trans {C : Prop} {a b : List Byte} {p q r : P} (h1 : Reach C a p q) (h2 : Reach C b q r) :
    Reach C (a ++ b) p r :=
  ⟨by rw [h2.byte, h1.byte, List.length_append]; omega,
   by rw [h2.line, h1.line, List.count_append]; omega,
   fun c => by rw [h2.col c, h1.col c, colAt_append]⟩

theorem Reach.flat {C : Prop} {pre : List Byte} {p q : P} (hn : ∀ x ∈ pre, x ≠ 10)
    (hb : q.byte = p.byte + pre.length) (hl : q.line = p.line) (hc : C → q.col = p.col + pre.length) :
    Reach C pre p q := by
  refine ⟨hb, ?_, fun c => by rw [hc c, colAt_flat _ hn]⟩
  have : pre.count 10 = 0 := List.count_eq_zero.mpr (fun hm => hn 10 hm rfl)
  rw [hl, this]; rfl

/-- no tab, no carriage return -/
def NoTabCR (l : List Byte) : Prop := ∀ b ∈ l, b ≠ 9 ∧ b ≠ 13

theorem NoTabCR.tail {b : Byte} {l : List Byte} (h : NoTabCR (b :: l)) : NoTabCR l :=
  fun x hx => h x (List.mem_cons_of_mem _ hx)

theorem NoTabCR.right {a l : List Byte} (h : NoTabCR (a ++ l)) : NoTabCR l :=
  fun x hx => h x (List.mem_append.mpr (Or.inr hx))

/-! ### `skipWhitespace` -/

theorem skip_spec (C : Prop) : ∀ (buf : List Byte) (p : P), (C → NoTabCR buf) →
    (skipWhitespaceP buf p).1 = buf.dropWhile isWs ∧
    Reach C (buf.takeWhile isWs) p (skipWhitespaceP buf p).2 := by
  intro buf
  induction buf with
  | nil => intro p _; exact ⟨rfl, Reach.refl p⟩
  | cons b rest ih =>
    intro p hC
    have hC' : C → NoTabCR rest := fun c => (hC c).tail
    have one : ∀ (p' : P), isWs b = true → Reach C [b] p p' →
        (skipWhitespaceP rest p').1 = (b :: rest).dropWhile isWs ∧
        Reach C ((b :: rest).takeWhile isWs) p (skipWhitespaceP rest p').2 := by
      intro p' hw hr
      obtain ⟨h1, h2⟩ := ih p' hC'
      simp only [List.dropWhile_cons, List.takeWhile_cons, hw, if_true]
      exact ⟨h1, hr.trans h2⟩
    simp only [skipWhitespaceP]
    by_cases h32 : b = 32
    · rw [if_pos h32]; subst h32
      exact one _ (by decide) ⟨rfl, rfl, fun _ => by simp [colAt]⟩
    · rw [if_neg h32]
      by_cases h10 : b = 10
      · rw [if_pos h10]; subst h10
        exact one _ (by decide) ⟨rfl, rfl, fun _ => by simp [colAt]⟩
      · rw [if_neg h10]
        by_cases h13 : b = 13
        · rw [if_pos h13]; subst h13
          exact one _ (by decide) ⟨rfl, rfl, fun c => absurd rfl ((hC c) 13 (by simp)).2⟩
        · rw [if_neg h13]
          by_cases h9 : b = 9
          · rw [if_pos h9]; subst h9
            exact one _ (by decide) ⟨rfl, rfl, fun c => absurd rfl ((hC c) 9 (by simp)).1⟩
          · rw [if_neg h9]
            have hw : isWs b = false := by simp [isWs, h32, h10, h13, h9]
            simp only [List.dropWhile_cons, List.takeWhile_cons, hw]
            exact ⟨rfl, Reach.refl p⟩

/-! ### `scanNumber`, `scanKeyword` -/

theorem P_eq {a b c a' b' c' : Nat} (h1 : a = a') (h2 : b = b') (h3 : c = c') : (⟨a, b, c⟩ : P) = ⟨a', b', c'⟩ := by
  subst h1 h2 h3; rfl

theorem scanNumberP_spec : ∀ (buf : List Byte) (p : P),
    scanNumberP buf p = (buf.takeWhile isNumberByte, buf.dropWhile isNumberByte,
      ⟨p.byte + (buf.takeWhile isNumberByte).length, p.line, p.col + (buf.takeWhile isNumberByte).length⟩) := by
  intro buf
  induction buf with
  | nil => intro p; rfl
  | cons b rest ih =>
    intro p
    simp only [scanNumberP]
    by_cases h : isNumberByte b = true
    · simp only [h, if_true, ih, step1, List.takeWhile_cons, List.dropWhile_cons, List.length_cons]
      refine Prod.ext rfl (Prod.ext rfl ?_)
      exact P_eq (by omega) rfl (by omega)
    · simp only [h, List.takeWhile_cons, List.dropWhile_cons]
      rfl

theorem scanKeywordP_spec : ∀ (buf : List Byte) (p : P),
    scanKeywordP buf p = (buf.takeWhile isKeywordByte, buf.dropWhile isKeywordByte,
      ⟨p.byte + (buf.takeWhile isKeywordByte).length, p.line, p.col + (buf.takeWhile isKeywordByte).length⟩) := by
  intro buf
  induction buf with
  | nil => intro p; rfl
  | cons b rest ih =>
    intro p
    simp only [scanKeywordP]
    by_cases h : isKeywordByte b = true
    · simp only [h, if_true, ih, step1, List.takeWhile_cons, List.dropWhile_cons, List.length_cons]
      refine Prod.ext rfl (Prod.ext rfl ?_)
      exact P_eq (by omega) rfl (by omega)
    · simp only [h, List.takeWhile_cons, List.dropWhile_cons]
      rfl

theorem isNumberByte_ne_nl {x : Byte} (h : isNumberByte x = true) : x ≠ 10 := by
  simp only [isNumberByte, isDigit, Bool.or_eq_true, Bool.and_eq_true, decide_eq_true_eq] at h
  simp only [Byte] at *
  omega

theorem isKeywordByte_ne_nl {x : Byte} (h : isKeywordByte x = true) : x ≠ 10 := by
  simp only [isKeywordByte, isAlpha, Bool.or_eq_true, Bool.and_eq_true, decide_eq_true_eq] at h
  simp only [Byte] at *
  omega

theorem run_reach (C : Prop) (f : Byte → Bool) (hf : ∀ x, f x = true → x ≠ 10) (buf : List Byte) (p : P) :
    Reach C (buf.takeWhile f) p
      ⟨p.byte + (buf.takeWhile f).length, p.line, p.col + (buf.takeWhile f).length⟩ :=
  Reach.flat (fun x hx => hf x (mem_takeWhile_imp hx)) rfl rfl (fun _ => rfl)

/-! ### `scanString` -/

theorem mem_take_clamp {a : Nat} {rest : List Byte} (ha : 1 ≤ a) {x : Byte}
    (hx : x ∈ rest.take (clampAdv a rest - 1)) : 32 ≤ x := by
  obtain ⟨_, _, hskip⟩ := clampAdv_spec a rest ha
  obtain ⟨i, hi, hget⟩ := List.mem_iff_getElem.mp hx
  have hi' : i < clampAdv a rest - 1 := by
    simp only [List.length_take] at hi; omega
  have h1 : (rest.take (clampAdv a rest - 1))[i]? = some x := by
    rw [List.getElem?_eq_getElem hi, hget]
  rw [List.getElem?_take_of_lt hi'] at h1
  exact (hskip i hi' x h1).2.2

/-- the string loop: it consumes at most the buffer, the byte offset advances by the bytes consumed, the
    line does not change and no newline byte is consumed; with one-byte clusters the column advances by
    the bytes consumed -/
theorem scanStringBodyP_spec (adv : List Byte → Nat) : ∀ (fuel : Nat) (buf : List Byte) (esc : Bool) (p : P),
    (scanStringBodyP adv fuel buf esc p).1 ≤ buf.length ∧
    (scanStringBodyP adv fuel buf esc p).2.byte = p.byte + (scanStringBodyP adv fuel buf esc p).1 ∧
    (scanStringBodyP adv fuel buf esc p).2.line = p.line ∧
    (∀ x ∈ buf.take (scanStringBodyP adv fuel buf esc p).1, x ≠ 10) ∧
    ((∀ l, adv l = 1) → (scanStringBodyP adv fuel buf esc p).2.col = p.col + (scanStringBodyP adv fuel buf esc p).1) := by
  intro fuel
  induction fuel with
  | zero => intro buf esc p; simp [scanStringBodyP]
  | succ fuel ih =>
    intro buf esc p
    cases buf with
    | nil => simp [scanStringBodyP]
    | cons b rest =>
      simp only [scanStringBodyP, step1]
      simp only [Byte] at *
      by_cases h92 : b = 92
      · simp only [h92, if_true]
        obtain ⟨i1, i2, i3, i4, i5⟩ := ih rest (!esc) ⟨p.byte + 1, p.line, p.col + 1⟩
        simp only at i2 i3 i5
        refine ⟨by simp only [List.length_cons]; omega, by omega, i3, ?_, fun h => by have := i5 h; omega⟩
        intro x hx
        rw [Nat.add_comm 1, List.take_succ_cons] at hx
        rcases List.mem_cons.mp hx with hx | hx
        · omega
        · exact i4 x hx
      · simp only [h92, if_false]
        by_cases h34 : b = 34
        · simp only [h34, if_true]
          cases esc with
          | false =>
            simp only [Bool.not_false, if_true]
            refine ⟨by simp, by simp, by simp, ?_, by simp⟩
            intro x hx
            simp only [List.take_succ_cons, List.take_zero, List.mem_singleton] at hx
            omega
          | true =>
            simp only [Bool.not_true, Bool.false_eq_true, if_false]
            obtain ⟨i1, i2, i3, i4, i5⟩ := ih rest false ⟨p.byte + 1, p.line, p.col + 1⟩
            simp only at i2 i3 i5
            refine ⟨by simp only [List.length_cons]; omega, by omega, i3, ?_, fun h => by have := i5 h; omega⟩
            intro x hx
            rw [Nat.add_comm 1, List.take_succ_cons] at hx
            rcases List.mem_cons.mp hx with hx | hx
            · omega
            · exact i4 x hx
        · simp only [h34, if_false]
          by_cases hlt : b < 32
          · simp only [hlt, if_true]
            exact ⟨by simp, by simp, by simp, by simp, by simp⟩
          · simp only [hlt, if_false]
            generalize ha0 : min (max 1 (adv (b :: rest))) (rest.length + 1) = a0
            have ha01 : 1 ≤ a0 := by omega
            have ha0le : a0 ≤ rest.length + 1 := by omega
            obtain ⟨ha1, ha2, _⟩ := clampAdv_spec a0 rest ha01
            have hmem : ∀ x ∈ rest.take (clampAdv a0 rest - 1), 32 ≤ x := fun x hx => mem_take_clamp ha01 hx
            generalize clampAdv a0 rest = a at ha1 ha2 hmem ⊢
            obtain ⟨i1, i2, i3, i4, i5⟩ := ih (rest.drop (a - 1)) false ⟨p.byte + a, p.line, p.col + 1⟩
            simp only [List.length_drop] at i1
            simp only at i2 i3 i5
            refine ⟨by simp only [List.length_cons]; omega, by omega, i3, ?_, ?_⟩
            · intro x hx
              have e : a + (scanStringBodyP adv fuel (rest.drop (a - 1)) false ⟨p.byte + a, p.line, p.col + 1⟩).1 =
                  ((a - 1) + (scanStringBodyP adv fuel (rest.drop (a - 1)) false ⟨p.byte + a, p.line, p.col + 1⟩).1) + 1 := by
                omega
              rw [e, List.take_succ_cons, List.take_add] at hx
              rcases List.mem_cons.mp hx with hx | hx
              · simp only [Byte] at *; omega
              · rcases List.mem_append.mp hx with hx | hx
                · have := hmem x hx; simp only [Byte] at *; omega
                · exact i4 x hx
            · intro h
              have hone : a = 1 := by
                have := h (b :: rest)
                omega
              have := i5 h
              omega

theorem scanStringP_spec (adv : List Byte → Nat) (C : Prop) (hadv : C → ∀ l, adv l = 1) (rest : List Byte) (p : P) :
    34 :: rest = (scanStringP adv (34 :: rest) p).1 ++ (scanStringP adv (34 :: rest) p).2.1 ∧
    Reach C (scanStringP adv (34 :: rest) p).1 p (scanStringP adv (34 :: rest) p).2.2 := by
  simp only [scanStringP, List.tail_cons]
  obtain ⟨i1, i2, i3, i4, i5⟩ := scanStringBodyP_spec adv ((34 :: rest).length + 1) rest false (step1 p)
  generalize scanStringBodyP adv ((34 :: rest).length + 1) rest false (step1 p) = r at i1 i2 i3 i4 i5 ⊢
  simp only [step1] at i2 i3 i5
  have hn : min (1 + r.1) (34 :: rest).length = r.1 + 1 := by
    rw [List.length_cons]; omega
  rw [hn]
  refine ⟨(List.take_append_drop _ _).symm, ?_⟩
  apply Reach.flat
  · intro x hx
    rw [List.take_succ_cons] at hx
    rcases List.mem_cons.mp hx with hx | hx
    · rw [hx]; decide
    · exact i4 x hx
  · simp only [List.length_take, List.length_cons]; omega
  · exact i3
  · intro c
    have := i5 (hadv c)
    simp only [List.length_take, List.length_cons]; omega

/-! ### every token is where the recount says -/

/-- `q` is a position inside (or at the end of) `buf`, which starts at `p` -/
def At (C : Prop) (buf : List Byte) (p q : P) : Prop := ∃ k, k ≤ buf.length ∧ Reach C (buf.take k) p q

theorem At.here {C : Prop} (buf : List Byte) (p : P) : At C buf p p :=
  ⟨0, Nat.zero_le _, by rw [List.take_zero]; exact Reach.refl p⟩

theorem At.pre {C : Prop} {pre : List Byte} {p q : P} (buf : List Byte) (h : Reach C pre p q) :
    At C (pre ++ buf) p q :=
  ⟨pre.length, by simp, by rw [List.take_left' rfl]; exact h⟩

theorem At.shift {C : Prop} {pre buf : List Byte} {p p' q : P} (h : Reach C pre p p') (h2 : At C buf p' q) :
    At C (pre ++ buf) p q := by
  obtain ⟨k, hk, hr⟩ := h2
  refine ⟨pre.length + k, by simp only [List.length_append]; omega, ?_⟩
  rw [List.take_length_add_append]
  exact h.trans hr

def Good (C : Prop) (buf : List Byte) (p : P) (t : PTok) : Prop :=
  At C buf p t.start ∧ At C buf p t.stop ∧ t.stop.byte = t.start.byte + t.bytes.length

theorem good_eof (C : Prop) (buf : List Byte) (p : P) : Good C buf p ⟨.eof, [], p, p⟩ :=
  ⟨At.here _ _, At.here _ _, rfl⟩

theorem good_cons {C : Prop} {w d tok buf' : List Byte} {p p1 p2 : P} {ty : TT} {ts : List PTok}
    (heq : d = tok ++ buf') (hw : Reach C w p p1) (ht : Reach C tok p1 p2)
    (hts : ∀ t ∈ ts, Good C buf' p2 t) :
    ∀ t ∈ (⟨ty, tok, p1, p2⟩ :: ts : List PTok), Good C (w ++ d) p t := by
  subst heq
  intro t hm
  rw [← List.append_assoc]
  rcases List.mem_cons.mp hm with hm | hm
  · subst hm
    refine ⟨?_, At.pre _ (hw.trans ht), ht.byte⟩
    rw [List.append_assoc]
    exact At.pre _ hw
  · obtain ⟨g1, g2, g3⟩ := hts t hm
    exact ⟨At.shift (hw.trans ht) g1, At.shift (hw.trans ht) g2, g3⟩

theorem dropWhile_head {f : Byte → Bool} : ∀ {l : List Byte} {b : Byte} {r : List Byte},
    l.dropWhile f = b :: r → f b = false := by
  intro l
  induction l with
  | nil => intro b r h; cases h
  | cons a l ih =>
    intro b r h
    rw [List.dropWhile_cons] at h
    by_cases ha : f a = true
    · rw [if_pos ha] at h; exact ih h
    · rw [if_neg ha] at h
      injection h with h1 _
      subst h1
      simpa using ha

theorem punct_ne_nl {b : Byte} {ty : TT} (h : punct b = some ty) : b ≠ 10 := by
  intro h10; subst h10; simp [punct] at h

theorem reach_one {C : Prop} {b : Byte} (hb : b ≠ 10) (p : P) : Reach C [b] p (step1 p) :=
  Reach.flat (fun x hx => by rw [List.mem_singleton.mp hx]; exact hb) rfl rfl (fun _ => rfl)

/-- the invariant of the scanner loop, for every amount of fuel -/
theorem scanFromP_good (adv : List Byte → Nat) (C : Prop) (hadv : C → ∀ l, adv l = 1) :
    ∀ (fuel : Nat) (buf : List Byte) (p : P), (C → NoTabCR buf) →
      ∀ t ∈ scanFromP adv fuel buf p, Good C buf p t := by
  intro fuel
  induction fuel with
  | zero =>
    intro buf p _ t ht
    simp only [scanFromP, List.mem_singleton] at ht
    subst ht
    exact good_eof _ _ _
  | succ fuel ih =>
    intro buf p hC t ht
    obtain ⟨hs1, hs2⟩ := skip_spec C buf p hC
    simp only [scanFromP] at ht
    rw [hs1] at ht
    have hbuf : buf = buf.takeWhile isWs ++ buf.dropWhile isWs := List.takeWhile_append_dropWhile.symm
    have hhead : ∀ b r, buf.dropWhile isWs = b :: r → isWs b = false := fun b r h => dropWhile_head h
    generalize (skipWhitespaceP buf p).2 = p1 at hs2 ht
    generalize buf.takeWhile isWs = w at hbuf hs2
    generalize buf.dropWhile isWs = d at hbuf ht hhead
    subst hbuf
    cases d with
    | nil =>
      simp only [List.mem_singleton] at ht
      subst ht
      exact ⟨At.pre _ hs2, At.pre _ hs2, rfl⟩
    | cons b rest =>
      dsimp only at ht
      have hCd : C → NoTabCR (b :: rest) := fun c => (hC c).right
      have hws : isWs b = false := hhead b rest rfl
      cases hp : punct b with
      | some ty =>
        rw [hp] at ht
        dsimp only at ht
        exact good_cons (tok := [b]) (buf' := rest) rfl hs2 (reach_one (punct_ne_nl hp) p1)
          (ih rest (step1 p1) (fun c => (hCd c).tail)) t ht
      | none =>
        rw [hp] at ht
        dsimp only at ht
        by_cases h34 : b = 34
        · rw [if_pos h34] at ht
          subst h34
          obtain ⟨e1, e2⟩ := scanStringP_spec adv C hadv rest p1
          exact good_cons e1 hs2 e2
            (ih _ _ (fun c => NoTabCR.right (a := (scanStringP adv (34 :: rest) p1).1) (e1 ▸ hCd c))) t ht
        · rw [if_neg h34] at ht
          by_cases hn : canStartNumber b = true
          · rw [if_pos hn, scanNumberP_spec] at ht
            dsimp only at ht
            have e1 : b :: rest = (b :: rest).takeWhile isNumberByte ++ (b :: rest).dropWhile isNumberByte :=
              List.takeWhile_append_dropWhile.symm
            exact good_cons e1 hs2 (run_reach C isNumberByte (fun _ h => isNumberByte_ne_nl h) _ p1)
              (ih _ _ (fun c => NoTabCR.right (a := (b :: rest).takeWhile isNumberByte) (e1 ▸ hCd c))) t ht
          · rw [if_neg hn] at ht
            by_cases ha : isAlpha b = true
            · rw [if_pos ha, scanKeywordP_spec] at ht
              dsimp only at ht
              have e1 : b :: rest = (b :: rest).takeWhile isKeywordByte ++ (b :: rest).dropWhile isKeywordByte :=
                List.takeWhile_append_dropWhile.symm
              exact good_cons e1 hs2 (run_reach C isKeywordByte (fun _ h => isKeywordByte_ne_nl h) _ p1)
                (ih _ _ (fun c => NoTabCR.right (a := (b :: rest).takeWhile isKeywordByte) (e1 ▸ hCd c))) t ht
            · rw [if_neg ha] at ht
              have hb10 : b ≠ 10 := by intro h; subst h; revert hws; decide
              refine good_cons (tok := [b]) (buf' := rest) rfl hs2 (reach_one hb10 p1) ?_ t ht
              intro t' ht'
              rw [List.mem_singleton.mp ht']
              exact good_eof _ _ _

theorem At.offset {C : Prop} {buf : List Byte} {p q : P} (h : At C buf p q) :
    Reach C (buf.take (q.byte - p.byte)) p q := by
  obtain ⟨k, hk, hr⟩ := h
  have hb := hr.byte
  rw [List.length_take, Nat.min_eq_left hk] at hb
  have : q.byte - p.byte = k := by omega
  rw [this]; exact hr

theorem scanP_bytes (adv : List Byte → Nat) (buf : List Byte) (start : P) :
    ∀ t ∈ scanP adv buf start, t.stop.byte = t.start.byte + t.bytes.length :=
  fun t ht => (scanFromP_good adv False (fun c => c.elim) _ buf start (fun c => c.elim) t ht).2.2

theorem scanP_lines (adv : List Byte → Nat) (buf : List Byte) (start : P) :
    ∀ t ∈ scanP adv buf start,
      t.start.line = start.line + nlCount (buf.take (t.start.byte - start.byte)) ∧
      t.stop.line = start.line + nlCount (buf.take (t.stop.byte - start.byte)) := by
  intro t ht
  obtain ⟨g1, g2, _⟩ := scanFromP_good adv False (fun c => c.elim) _ buf start (fun c => c.elim) t ht
  exact ⟨g1.offset.line, g2.offset.line⟩

theorem scanP_cols (adv : List Byte → Nat) (buf : List Byte) (start : P)
    (hbuf : ∀ b ∈ buf, b ≠ 9 ∧ b ≠ 13) (hadv : ∀ l, adv l = 1) :
    ∀ t ∈ scanP adv buf start,
      t.start.col = colAt start.col (buf.take (t.start.byte - start.byte)) ∧
      t.stop.col = colAt start.col (buf.take (t.stop.byte - start.byte)) := by
  intro t ht
  obtain ⟨g1, g2, _⟩ := scanFromP_good adv True (fun _ => hadv) _ buf start (fun _ => hbuf) t ht
  exact ⟨g1.offset.col trivial, g2.offset.col trivial⟩

/-! ### forgetting lines and columns -/

theorem take_length_takeWhile (f : Byte → Bool) (l : List Byte) :
    l.take (l.takeWhile f).length = l.takeWhile f := by
  induction l with
  | nil => rfl
  | cons a l ih => by_cases h : f a <;> simp [h, ih]

theorem skip_fst (buf : List Byte) (p : P) :
    (skipWhitespaceP buf p).1 = buf.drop (buf.takeWhile isWs).length := by
  rw [(skip_spec False buf p (fun c => c.elim)).1, drop_length_takeWhile]

theorem skip_byte (buf : List Byte) (p : P) :
    (skipWhitespaceP buf p).2.byte = p.byte + (buf.takeWhile isWs).length :=
  (skip_spec False buf p (fun c => c.elim)).2.byte

theorem scanStringBodyP_fst (adv : List Byte → Nat) : ∀ (fuel : Nat) (buf : List Byte) (esc : Bool) (p : P),
    (scanStringBodyP adv fuel buf esc p).1 = scanStringBody adv fuel buf esc := by
  intro fuel
  induction fuel with
  | zero => intro buf esc p; simp [scanStringBodyP, scanStringBody]
  | succ fuel ih =>
    intro buf esc p
    cases buf with
    | nil => simp [scanStringBodyP, scanStringBody]
    | cons b rest =>
      simp only [scanStringBodyP, scanStringBody]
      by_cases h92 : b = 92
      · simp only [h92, if_true, ih]
      · simp only [h92, if_false]
        by_cases h34 : b = 34
        · simp only [h34, if_true]
          cases esc with
          | false => simp
          | true => simp [ih]
        · simp only [h34, if_false]
          by_cases hlt : b < 32
          · simp only [hlt, if_true]
          · simp only [hlt, if_false, ih]

/-- what `scanString` returns, in the terms of `Scan.lean` -/
theorem scanStringP_erase (adv : List Byte → Nat) (b : Byte) (rest : List Byte) (p : P) :
    (scanStringP adv (b :: rest) p).1 = (b :: rest).take (min (scanStringLen adv (b :: rest)) (rest.length + 1)) ∧
    (scanStringP adv (b :: rest) p).2.1 = (b :: rest).drop (min (scanStringLen adv (b :: rest)) (rest.length + 1)) ∧
    (scanStringP adv (b :: rest) p).2.2.byte = p.byte + min (scanStringLen adv (b :: rest)) (rest.length + 1) := by
  obtain ⟨i1, i2, _⟩ := scanStringBodyP_spec adv ((b :: rest).length + 1) rest false (step1 p)
  have hs : (step1 p).byte = p.byte + 1 := rfl
  refine ⟨?_, ?_, ?_⟩
  · simp only [scanStringP, scanStringLen, List.tail_cons, scanStringBodyP_fst, List.length_cons]
  · simp only [scanStringP, scanStringLen, List.tail_cons, scanStringBodyP_fst, List.length_cons]
  · simp only [scanStringP, scanStringLen, List.tail_cons]
    rw [scanStringBodyP_fst] at i1 i2
    rw [i2, hs]
    omega

theorem erase_gen (adv : List Byte → Nat) : ∀ (fuel : Nat) (buf : List Byte) (p : P) (d pos : Nat), p.byte = d + pos →
    (scanFromP adv fuel buf p).map (fun t => (t.ty, t.bytes, t.start.byte)) =
      (scanFrom adv fuel buf pos).map (fun t => (t.ty, t.bytes, d + t.start)) := by
  intro fuel
  induction fuel with
  | zero => intro buf p d pos h; simp [scanFromP, scanFrom, h]
  | succ fuel ih =>
    intro buf p d pos h
    simp only [scanFromP, scanFrom]
    rw [skip_fst]
    have hb := skip_byte buf p
    generalize (skipWhitespaceP buf p).2 = p1 at hb ⊢
    generalize (buf.takeWhile isWs).length = ws at hb ⊢
    generalize buf.drop ws = dd
    cases dd with
    | nil => simp only [List.map_cons, List.map_nil]; rw [hb, h, Nat.add_assoc]
    | cons b rest =>
      dsimp only
      have hp1 : p1.byte = d + (pos + ws) := by omega
      cases hp : punct b with
      | some ty =>
        dsimp only
        rw [List.map_cons, List.map_cons, ih rest (step1 p1) d (pos + ws + 1) (by simp only [step1]; omega), hp1]
      | none =>
        dsimp only
        by_cases h34 : b = 34
        · rw [if_pos h34, if_pos h34]
          obtain ⟨e1, e2, e3⟩ := scanStringP_erase adv b rest p1
          rw [List.map_cons, List.map_cons,
            ih _ _ d (pos + ws + min (scanStringLen adv (b :: rest)) (rest.length + 1)) (by rw [e3]; omega), e1, e2, hp1]
        · rw [if_neg h34, if_neg h34]
          by_cases hn : canStartNumber b = true
          · rw [if_pos hn, if_pos hn, scanNumberP_spec]
            dsimp only
            rw [List.map_cons, List.map_cons, ih _ _ d (pos + ws + ((b :: rest).takeWhile isNumberByte).length) (by dsimp only; omega),
              take_length_takeWhile, drop_length_takeWhile, hp1]
          · rw [if_neg hn, if_neg hn]
            by_cases ha : isAlpha b = true
            · rw [if_pos ha, if_pos ha, scanKeywordP_spec]
              dsimp only
              rw [List.map_cons, List.map_cons, ih _ _ d (pos + ws + ((b :: rest).takeWhile isKeywordByte).length) (by dsimp only; omega),
                take_length_takeWhile, drop_length_takeWhile, hp1]
            · rw [if_neg ha, if_neg ha]
              simp only [List.map_cons, List.map_nil, step1, hp1, Nat.add_assoc]

theorem scanP_erase (adv : List Byte → Nat) (buf : List Byte) (start : P) :
    (scanP adv buf start).map (fun t => (t.ty, t.bytes, t.start.byte)) =
      (scan adv buf).map (fun t => (t.ty, t.bytes, start.byte + t.start)) :=
  erase_gen adv _ buf start start.byte 0 rfl

/-! ### the invalid token and the EOF tokens -/

/-- an invalid token covers one byte and one column, and is followed by exactly one EOF token at its end;
    EOF tokens are empty; the last token is an EOF token -/
structure Shape (l : List PTok) : Prop where
  inv : ∀ pre t rest, l = pre ++ t :: rest → t.ty = .invalid →
    t.bytes.length = 1 ∧ t.stop = step1 t.start ∧ rest = [⟨.eof, [], t.stop, t.stop⟩]
  eof : ∀ t ∈ l, t.ty = .eof → t.bytes = [] ∧ t.stop = t.start
  last : l.getLast?.map (·.ty) = some .eof

theorem Shape.eof1 (p : P) : Shape [⟨.eof, [], p, p⟩] := by
  refine ⟨?_, ?_, rfl⟩
  · intro pre t rest e ht
    cases pre with
    | nil =>
      simp only [List.nil_append, List.cons.injEq] at e
      rw [← e.1] at ht; cases ht
    | cons x pre =>
      simp only [List.cons_append, List.cons.injEq] at e
      have := congrArg List.length e.2
      simp at this
  · intro t ht _
    rw [List.mem_singleton.mp ht]
    exact ⟨rfl, rfl⟩

theorem Shape.cons {tok : PTok} {l : List PTok} (h1 : tok.ty ≠ .invalid) (h2 : tok.ty ≠ .eof) (hl : Shape l) :
    Shape (tok :: l) := by
  refine ⟨?_, ?_, ?_⟩
  · intro pre t rest e ht
    cases pre with
    | nil =>
      simp only [List.nil_append, List.cons.injEq] at e
      rw [← e.1] at ht; exact absurd ht h1
    | cons x pre =>
      simp only [List.cons_append, List.cons.injEq] at e
      exact hl.inv pre t rest e.2 ht
  · intro t ht he
    rcases List.mem_cons.mp ht with ht | ht
    · rw [ht] at he; exact absurd he h2
    · exact hl.eof t ht he
  · have := hl.last
    cases l with
    | nil => simp at this
    | cons a l => rw [List.getLast?_cons_cons]; exact this

theorem Shape.invalid (b : Byte) (p : P) :
    Shape [⟨.invalid, [b], p, step1 p⟩, ⟨.eof, [], step1 p, step1 p⟩] := by
  refine ⟨?_, ?_, rfl⟩
  · intro pre t rest e ht
    cases pre with
    | nil =>
      simp only [List.nil_append, List.cons.injEq] at e
      obtain ⟨e1, e2⟩ := e
      subst e1 e2
      exact ⟨rfl, rfl, rfl⟩
    | cons x pre =>
      simp only [List.cons_append, List.cons.injEq] at e
      exact (Shape.eof1 (step1 p)).inv pre t rest e.2 ht
  · intro t ht he
    rcases List.mem_cons.mp ht with ht | ht
    · rw [ht] at he; cases he
    · rw [List.mem_singleton.mp ht]; exact ⟨rfl, rfl⟩

theorem punct_ty {b : Byte} {ty : TT} (h : punct b = some ty) : ty ≠ .invalid ∧ ty ≠ .eof := by
  rcases punct_cases h with h | h | h | h | h | h | h <;> (rw [h.2]; exact ⟨by decide, by decide⟩)

theorem scanFromP_shape (adv : List Byte → Nat) : ∀ (fuel : Nat) (buf : List Byte) (p : P),
    Shape (scanFromP adv fuel buf p) := by
  intro fuel
  induction fuel with
  | zero => intro buf p; exact Shape.eof1 p
  | succ fuel ih =>
    intro buf p
    simp only [scanFromP]
    split
    · exact Shape.eof1 _
    · split
      · rename_i hp
        exact Shape.cons (punct_ty hp).1 (punct_ty hp).2 (ih _ _)
      · split
        · exact Shape.cons (fun h => by cases h) (fun h => by cases h) (ih _ _)
        · split
          · exact Shape.cons (fun h => by cases h) (fun h => by cases h) (ih _ _)
          · split
            · exact Shape.cons (fun h => by cases h) (fun h => by cases h) (ih _ _)
            · exact Shape.invalid _ _

end HclModel.Json.Proofs
