import HclModel.Dyn.Expand
import Proofs.BodyNative
/-!
Basic facts about `HclModel/Dyn/Expand.lean` (model of `ext/dynblock`): the label loop, `genBlocks`,
`decodeSpec` / `expandDyn`, the unknown-body wrapper, and fuel monotonicity of `writeOut`.
Used by `Props/C18.lean`.
-/
namespace HclModel.Dyn.Proofs
open HclModel HclModel.Body HclModel.Dyn

/-! ## `allSome` -/

theorem allSome_eq_some_iff {α : Type} (l : List (Option α)) (r : List α) :
    allSome l = some r ↔ l = r.map some := by
  induction l generalizing r with
  | nil => cases r <;> simp [allSome]
  | cons a l ih =>
    cases a with
    | none => cases r <;> simp [allSome]
    | some a =>
      cases r with
      | nil => simp [allSome]
      | cons b r =>
        simp only [allSome, Option.map_eq_some_iff, List.map_cons, List.cons.injEq, Option.some.injEq]
        constructor
        · rintro ⟨r', h1, h2, h3⟩
          exact ⟨h2, by rw [← h3]; exact (ih r').1 h1⟩
        · rintro ⟨h1, h2⟩
          exact ⟨r, (ih r).2 h2, h1, rfl⟩

theorem allSome_nil {α : Type} : allSome ([] : List (Option α)) = some [] := rfl

theorem allSome_cons_eq_some {α : Type} (a : Option α) (l : List (Option α)) (r : List α) :
    allSome (a :: l) = some r ↔ ∃ x xs, a = some x ∧ allSome l = some xs ∧ r = x :: xs := by
  cases a with
  | none => simp [allSome]
  | some a =>
    simp only [allSome, Option.map_eq_some_iff, Option.some.injEq]
    constructor
    · rintro ⟨xs, h1, h2⟩; exact ⟨a, xs, rfl, h1, h2.symm⟩
    · rintro ⟨x, xs, rfl, h1, h2⟩; exact ⟨xs, h1, h2.symm⟩

/-- monotonicity of `allSome ∘ map` -/
theorem allSome_map_mono {α β : Type} (f g : α → Option β) (l : List α) (r : List β)
    (hfg : ∀ a ∈ l, ∀ b, f a = some b → g a = some b) (h : allSome (l.map f) = some r) :
    allSome (l.map g) = some r := by
  induction l generalizing r with
  | nil => simpa using h
  | cons a l ih =>
    rw [List.map_cons, allSome_cons_eq_some] at h
    obtain ⟨x, xs, h1, h2, rfl⟩ := h
    rw [List.map_cons, allSome_cons_eq_some]
    exact ⟨x, xs, hfg a (by simp) x h1, ih xs (fun a' ha' => hfg a' (by simp [ha'])) h2, rfl⟩

/-! ## the label loop -/

theorem evalLabels_length (ev : Env → Expr → Out) (ρ : Env) (es : List Expr) (l : List String)
    (h : (evalLabels ev ρ es).1 = some l) : l.length = es.length := by
  induction es generalizing l with
  | nil => simp [evalLabels] at h; simp [← h]
  | cons e rest ih =>
    unfold evalLabels at h
    simp only at h
    split at h
    · simp at h
    · split at h
      · simp at h
      · split at h
        · simp at h
        · split at h
          · simp at h
          · split at h
            · simp at h
            · split at h
              · simp only [Option.map_eq_some_iff] at h
                obtain ⟨l', h1, rfl⟩ := h
                simp [ih l' h1]
              · simp at h

/-! ## `genBlocks` -/

theorem genBlocks_nil (ev : Env → Expr → Out) (ρf : Env) (its : Iters) (name : String) (m : Fl) (lexprs : List Expr)
    (type : String) (content : SBody) (unknown : Option Fl) :
    genBlocks ev ρf its name m lexprs type content unknown [] = ([], []) := rfl

theorem genBlocks_cons_fst (ev : Env → Expr → Out) (ρf : Env) (its : Iters) (name : String) (m : Fl) (lexprs : List Expr)
    (type : String) (content : SBody) (unknown : Option Fl) (k v : Val) (rest : List (Val × Val)) :
    (genBlocks ev ρf its name m lexprs type content unknown ((k, v) :: rest)).1 =
      (match (evalLabels ev (iterEnv ((name, k, v) :: its) ++ ρf) lexprs).1 with
        | some l => [⟨type, l, { src := content, its := (name, k, v) :: its, marks := m, unknown := unknown }⟩]
        | none => []) ++
      (genBlocks ev ρf its name m lexprs type content unknown rest).1 := by
  simp only [genBlocks]
  split <;> simp_all

/-- every generated block carries the type, the content body, the collection's marks, the `unknown` flag,
    an iteration of the right name on top of the inherited ones, and as many labels as label expressions -/
theorem genBlocks_mem (ev : Env → Expr → Out) (ρf : Env) (its : Iters) (name : String) (m : Fl) (lexprs : List Expr)
    (type : String) (content : SBody) (unknown : Option Fl) (kvs : List (Val × Val)) (blk : XBlock)
    (h : blk ∈ (genBlocks ev ρf its name m lexprs type content unknown kvs).1) :
    blk.type = type ∧ blk.labels.length = lexprs.length ∧ blk.body.src = content ∧ blk.body.marks = m ∧
    blk.body.unknown = unknown ∧ blk.body.hiddenAttrs = [] ∧ blk.body.hiddenBlocks = [] ∧
    ∃ k v, (k, v) ∈ kvs ∧ blk.body.its = (name, k, v) :: its := by
  induction kvs with
  | nil => simp [genBlocks] at h
  | cons kv rest ih =>
    obtain ⟨k, v⟩ := kv
    rw [genBlocks_cons_fst, List.mem_append] at h
    rcases h with h | h
    · split at h
      · rename_i l hl
        simp only [List.mem_singleton] at h
        subst h
        exact ⟨rfl, evalLabels_length _ _ _ _ hl, rfl, rfl, rfl, rfl, rfl, k, v, by simp, rfl⟩
      · simp at h
    · obtain ⟨h1, h2, h3, h4, h5, h6, h7, k', v', hm, h8⟩ := ih h
      exact ⟨h1, h2, h3, h4, h5, h6, h7, k', v', by simp [hm], h8⟩

theorem genBlocks_length_le (ev : Env → Expr → Out) (ρf : Env) (its : Iters) (name : String) (m : Fl) (lexprs : List Expr)
    (type : String) (content : SBody) (unknown : Option Fl) (kvs : List (Val × Val)) :
    (genBlocks ev ρf its name m lexprs type content unknown kvs).1.length ≤ kvs.length := by
  induction kvs with
  | nil => simp [genBlocks]
  | cons kv rest ih =>
    obtain ⟨k, v⟩ := kv
    rw [genBlocks_cons_fst]
    split <;> simp <;> omega

/-! ## unknown `for_each` -/

theorem unknown_for_each (ev : Env → Expr → Out) (ρf : Env) (its : Iters) (lc : Nat) (type : String)
    (fe : Expr) (itn : Option String) (labels : Option (List Expr)) (content : SBody) (name : String) (m : Fl) (lexprs : List Expr)
    (h : decodeSpec ev ρf its lc type fe itn labels = .unknown name m lexprs) :
    (expandDyn ev ρf its lc type fe itn labels content).1.length ≤ 1 ∧
    ∀ blk ∈ (expandDyn ev ρf its lc type fe itn labels content).1, blk.body.unknown = some m ∧ blk.body.marks = m := by
  unfold expandDyn
  rw [h]
  refine ⟨by simpa using genBlocks_length_le ev ρf its name m lexprs type content (some m) [(Val.dynVal, Val.dynVal)], ?_⟩
  intro blk hblk
  obtain ⟨_, _, _, h4, h5, _⟩ := genBlocks_mem _ _ _ _ _ _ _ _ _ _ _ hblk
  exact ⟨h5, h4⟩

/-! ## the `unknownBody` wrapper -/

/-- the content of a body that is not wrapped -/
theorem contentCore_unknown (ev : Env → Expr → Out) (ρf : Env) (b : XBody) (um : Fl) (s : Schema) (pm : Bool) :
    ({ b with unknown := some um }.contentCore ev ρf s pm).1 =
      fixupUnknown um ({ b with unknown := none }.contentCore ev ρf s pm).1 := by
  simp only [XBody.contentCore]

theorem contentCore_unknown' (ev : Env → Expr → Out) (ρf : Env) (b : XBody) (um : Fl) (s : Schema) (pm : Bool)
    (h : b.unknown = some um) :
    (b.contentCore ev ρf s pm).1 = fixupUnknown um ({ b with unknown := none }.contentCore ev ρf s pm).1 := by
  rw [← contentCore_unknown, ← h]

theorem unknown_part (ev : Env → Expr → Out) (ρf : Env) (b : XBody) (um : Fl) (s : Schema) (partialMode : Bool)
    (h : b.unknown = some um) :
    (∀ a ∈ (b.contentCore ev ρf s partialMode).1.attrs, ∀ ρ, a.2.value ev ρ = (Val.dynVal.withFl um, [])) ∧
    (∀ blk ∈ (b.contentCore ev ρf s partialMode).1.blocks, blk.body.unknown = some um) := by
  rw [contentCore_unknown' ev ρf b um s partialMode h]
  constructor
  · intro a ha ρ
    simp only [fixupUnknown, List.mem_map] at ha
    obtain ⟨a', _, rfl⟩ := ha
    simp [XAttr.value]
  · intro blk hblk
    simp only [fixupUnknown, List.mem_map] at hblk
    obtain ⟨blk', _, rfl⟩ := hblk
    rfl

theorem unknown_shape (ev : Env → Expr → Out) (ρf : Env) (b : XBody) (um : Fl) (s : Schema) (partialMode : Bool) :
    let c := ({ b with unknown := none }.contentCore ev ρf s partialMode).1
    let cu := ({ b with unknown := some um }.contentCore ev ρf s partialMode).1
    cu.attrs.map (·.1) = c.attrs.map (·.1) ∧
    cu.blocks.map (fun x => (x.type, x.labels)) = c.blocks.map (fun x => (x.type, x.labels)) := by
  intro c cu
  have : cu = fixupUnknown um c := contentCore_unknown ev ρf b um s partialMode
  rw [this]
  simp [fixupUnknown, Function.comp_def]

end HclModel.Dyn.Proofs
