import Proofs.MarksFor
/-!
C06: the object constructor (`evalItems`, `objectOut`).
-/
set_option linter.unusedSimpArgs false
namespace HclModel.Proofs
open Val

theorem itemStep_diags {ko vo : Out} {r : ForSt × Bool} (h : (itemStep ko vo r).1.diags = []) :
    ko.2 = [] ∧ vo.2 = [] ∧ r.1.diags = [] := by
  obtain ⟨k, kd⟩ := ko
  obtain ⟨v, vd⟩ := vo
  obtain ⟨st, known⟩ := r
  unfold itemStep at h
  simp only [] at h ⊢
  split at h
  · rename_i he
    simp only [List.append_eq_nil_iff] at h
    rw [h.1.1] at he; simp [hasErrors] at he
  · split at h
    · simp at h
    · simp only [unmark] at h
      split at h
      · simp at h
      · split at h <;> (simp only [List.append_eq_nil_iff] at h; exact ⟨h.1.1, h.1.2, h.2⟩)

/-- the states of the object-constructor loop in the two runs -/
def IInv (r r' : ForSt × Bool) : Prop :=
  r.2 = r'.2 ∧ ((r.1.marks.m = true ∧ r'.1.marks.m = true) ∨ relKvs r.1.kvs r'.1.kvs)

theorem itemStep_inv {ko ko' vo vo' : Out} {r r' : ForSt × Bool} (hi : IInv r r')
    (hk : relV ko.1 ko'.1 = true) (hs : shapeEq ko.1 ko'.1) (hv : relV vo.1 vo'.1 = true)
    (h1 : (itemStep ko vo r).1.diags = []) (h2 : (itemStep ko' vo' r').1.diags = []) :
    IInv (itemStep ko vo r) (itemStep ko' vo' r') := by
  obtain ⟨hkd, hvd, hrd⟩ := itemStep_diags h1
  obtain ⟨hkd', hvd', hrd'⟩ := itemStep_diags h2
  obtain ⟨k, kd⟩ := ko
  obtain ⟨v, vd⟩ := vo
  obtain ⟨st, known⟩ := r
  obtain ⟨k', kd'⟩ := ko'
  obtain ⟨v', vd'⟩ := vo'
  obtain ⟨st', known'⟩ := r'
  simp only [] at hkd hvd hrd hkd' hvd' hrd' hk hs hv
  subst hkd; subst hvd; subst hkd'; subst hvd'
  obtain ⟨hkn, hi⟩ := hi
  simp only [] at hkn hi
  subst hkn
  unfold itemStep at h1 h2 ⊢
  simp only [hasErrors, List.isEmpty_nil, Bool.not_true, Bool.false_eq_true, if_false, List.append_nil,
    List.nil_append, unmark] at h1 h2 ⊢
  cases hn : k.isNull
  · cases hn' : k'.isNull
    · simp only [hn, hn', Bool.false_eq_true, if_false] at h1 h2 ⊢
      cases c1 : tryConvert (k.setFl k.fl.unmark) .str with
      | error d => simp [c1] at h1
      | ok ks =>
        cases c2 : tryConvert (k'.setFl k'.fl.unmark) .str with
        | error d => simp [c2] at h2
        | ok ks' =>
          simp only [c1, c2] at h1 h2 ⊢
          have k1 := tryConvert_isKnown c1
          have k2 := tryConvert_isKnown c2
          simp only [isKnown_setFl] at k1 k2
          have hks : ks.isKnown = ks'.isKnown := by rw [k1, k2]; exact hs.1
          have marks : (st.marks.m = true ∧ st'.marks.m = true) ∨ bm k k' →
              ((st.marks.join k.fl).m = true ∧ (st'.marks.join k'.fl).m = true) := by
            intro h; rcases h with h | h
            · simp [h.1, h.2]
            · simp [h.1, h.2]
          rcases convert_str_cases _ _ (tryConvert_ok c1) (by simpa using hn) with ⟨s, rfl⟩ | rfl <;>
          rcases convert_str_cases _ _ (tryConvert_ok c2) (by simpa using hn') with ⟨s', rfl⟩ | rfl
          · simp only [] at h1 h2 ⊢
            refine ⟨rfl, ?_⟩
            simp only []
            by_cases hb : (st.marks.m = true ∧ st'.marks.m = true) ∨ bm k k'
            · exact Or.inl (marks hb)
            · right
              have hkv : relKvs st.kvs st'.kvs := by
                rcases hi with hi | hi
                · exact absurd (Or.inl hi) hb
                · exact hi
              have rc : relC k k' = true := by
                rcases relV_cases hk with hb' | rc
                · exact absurd (Or.inr hb') hb
                · exact rc
              have r := tryConvert_rel (relV_of_relC (a := k.setFl k.fl.unmark) (b := k'.setFl k'.fl.unmark) (by simpa using rc)) c1 c2
              simp [relV] at r
              subst r
              rw [← lookupKey_relKvs s hkv]
              split
              · exact hkv
              · exact groupInsert_rel s _ _ hv hkv
          · simp [isKnown] at hks
          · simp [isKnown] at hks
          · simp only [] at h1 h2 ⊢
            refine ⟨rfl, ?_⟩
            simp only []
            rcases hi with hi | hi
            · exact Or.inl (marks (Or.inl hi))
            · exact Or.inr hi
    · simp [hn'] at h2
  · simp [hn] at h1

theorem objectOut_diags (r : ForSt × Bool) : (objectOut r).2 = r.1.diags := by
  obtain ⟨st, known⟩ := r
  unfold objectOut; simp only []; split <;> rfl

theorem objectOut_rel {r r' : ForSt × Bool} (hi : IInv r r') : relV (objectOut r).1 (objectOut r').1 = true := by
  obtain ⟨st, known⟩ := r
  obtain ⟨st', known'⟩ := r'
  obtain ⟨hk, hi⟩ := hi
  simp only [] at hk hi
  subst hk
  unfold objectOut
  simp only []
  cases known
  · simp [relV_refl]
  · simp only [Bool.not_true, Bool.false_eq_true, if_false, relV]
    rcases hi with hi | hi
    · simp [hi.1, hi.2]
    · simp only [relKvs_heads hi, Bool.or_true]

theorem IInv_init : IInv (({} : ForSt), true) (({} : ForSt), true) := ⟨rfl, Or.inr .nil⟩
end HclModel.Proofs
