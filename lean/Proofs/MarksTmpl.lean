import Proofs.MarksRel
/-!
C06: templates (`template`, `tjoin`).
-/
set_option linter.unusedSimpArgs false
namespace HclModel.Proofs
open Val

theorem tmplStep_diags {st : TSt} {o : Out} (h : (tmplStep st o).1 = []) : st.1 = [] ∧ o.2 = [] := by
  obtain ⟨ds, known, ms, buf⟩ := st
  obtain ⟨pv, pd⟩ := o
  unfold tmplStep at h
  simp only [] at h
  split at h
  · simp at h
  · split at h
    · simpa using h
    · split at h
      · simp at h
      · simpa using h
      · simpa using h

theorem tmplFold_diags : ∀ {outs : List Out} {st : TSt}, (outs.foldl tmplStep st).1 = [] →
    st.1 = [] ∧ ∀ o ∈ outs, o.2 = []
  | [], st, h => ⟨h, by simp⟩
  | o :: outs, st, h => by
    simp only [List.foldl_cons] at h
    obtain ⟨h1, h2⟩ := tmplFold_diags h
    obtain ⟨h3, h4⟩ := tmplStep_diags h1
    refine ⟨h3, ?_⟩
    intro o' ho
    rcases List.mem_cons.1 ho with rfl | ho
    · exact h4
    · exact h2 o' ho

/-- the states of the template loop in the two runs: marked in both, or same `known` and same buffer -/
def TInv (st st' : TSt) : Prop :=
  (st.2.2.1.m = true ∧ st'.2.2.1.m = true) ∨ (st.2.1 = st'.2.1 ∧ st.2.2.2 = st'.2.2.2)

theorem tmplStep_ms (ds : List Diag) (known : Bool) (ms : Fl) (buf : String) (pv : Val) (pd : List Diag)
    (hn : pv.isNull = false) : (tmplStep (ds, known, ms, buf) (pv, pd)).2.2.1 = ms.join pv.fl := by
  unfold tmplStep
  simp only [hn, Bool.false_eq_true, if_false, unmark]
  split
  · rfl
  · split <;> rfl

theorem tmplStep_inv {st st' : TSt} {o o' : Out} (hi : TInv st st') (ho : relV o.1 o'.1 = true)
    (h1 : (tmplStep st o).1 = []) (h2 : (tmplStep st' o').1 = []) : TInv (tmplStep st o) (tmplStep st' o') := by
  obtain ⟨hd, hpd⟩ := tmplStep_diags h1
  obtain ⟨hd', hpd'⟩ := tmplStep_diags h2
  obtain ⟨ds, known, ms, buf⟩ := st
  obtain ⟨pv, pd⟩ := o
  obtain ⟨ds', known', ms', buf'⟩ := st'
  obtain ⟨pv', pd'⟩ := o'
  simp only [] at hd hpd hd' hpd' ho
  subst hd; subst hpd; subst hd'; subst hpd'
  have hn : pv.isNull = false := by
    cases hn : pv.isNull
    · rfl
    · simp [tmplStep, hn] at h1
  have hn' : pv'.isNull = false := by
    cases hn : pv'.isNull
    · rfl
    · simp [tmplStep, hn] at h2
  have mk : (ms.m = true ∧ ms'.m = true) ∨ (pv.fl.m = true ∧ pv'.fl.m = true) →
      TInv (tmplStep ([], known, ms, buf) (pv, [])) (tmplStep ([], known', ms', buf') (pv', [])) := by
    intro h
    left
    rw [tmplStep_ms _ _ _ _ _ _ hn, tmplStep_ms _ _ _ _ _ _ hn']
    rcases h with h | h <;> simp [h.1, h.2]
  rcases hi with hi | ⟨hk, hb⟩
  · exact mk (Or.inl hi)
  rcases relV_cases ho with hbm | rc
  · exact mk (Or.inr hbm)
  simp only [] at hk hb
  subst hk; subst hb
  right
  have hkn := relC_isKnown rc
  unfold tmplStep at h1 h2 ⊢
  simp only [hn, hn', Bool.false_eq_true, if_false, List.append_nil, unmark] at h1 h2 ⊢
  cases hk1 : pv.isKnown
  · rw [hk1] at hkn
    simp [hk1, ← hkn]
  · rw [hk1] at hkn
    simp only [hk1, ← hkn, Bool.not_true, Bool.false_eq_true, if_false] at h1 h2 ⊢
    cases c1 : tryConvert (pv.setFl pv.fl.unmark) .str with
    | error d => simp [c1] at h1
    | ok x =>
      cases c2 : tryConvert (pv'.setFl pv'.fl.unmark) .str with
      | error d => simp [c2] at h2
      | ok y =>
        have r := tryConvert_rel (relV_of_relC (by simpa using rc)) c1 c2
        have f1 := tryConvert_fl c1
        have rc2 : relC x y = true := by
          rcases relV_cases r with ⟨m, _⟩ | rc2
          · rw [f1] at m; simp at m
          · exact rc2
        cases x <;> cases y <;> simp [relC] at rc2 <;> simp [rc2]

/-- pointwise relation of two lists -/
inductive All2 {α β : Type} (R : α → β → Prop) : List α → List β → Prop
  | nil : All2 R [] []
  | cons {a b as bs} : R a b → All2 R as bs → All2 R (a :: as) (b :: bs)

/-- the outputs of the two runs, value by value -/
def relOuts (outs outs' : List Out) : Prop := All2 (fun o o' => relV o.1 o'.1 = true) outs outs'

theorem tmplFold_inv {outs outs' : List Out} (hr : relOuts outs outs') : ∀ {st st' : TSt}, TInv st st' →
    (outs.foldl tmplStep st).1 = [] → (outs'.foldl tmplStep st').1 = [] →
    TInv (outs.foldl tmplStep st) (outs'.foldl tmplStep st') := by
  induction hr with
  | nil => intro st st' hi _ _; exact hi
  | cons ho _ ih =>
    intro st st' hi h1 h2
    simp only [List.foldl_cons] at h1 h2 ⊢
    have a := (tmplFold_diags h1).1
    have b := (tmplFold_diags h2).1
    exact ih (tmplStep_inv hi ho a b) h1 h2

theorem tmplOut_rel {st st' : TSt} (hi : TInv st st') : relV (tmplOut st).1 (tmplOut st').1 = true := by
  obtain ⟨ds, known, ms, buf⟩ := st
  obtain ⟨ds', known', ms', buf'⟩ := st'
  rcases hi with hi | ⟨hk, hb⟩
  · apply relV_top
    · unfold tmplOut; simp only []; split <;> simpa using hi.1
    · unfold tmplOut; simp only []; split <;> simpa using hi.2
  · simp only [] at hk hb; subst hk; subst hb
    unfold tmplOut; simp only []; split <;> simp [relV]

theorem template_rel (outs outs' : List Out) (hr : relOuts outs outs')
    (h1 : (tmplOut (outs.foldl tmplStep (([] : List Diag), true, Fl.none, ""))).2 = [])
    (h2 : (tmplOut (outs'.foldl tmplStep (([] : List Diag), true, Fl.none, ""))).2 = []) :
    relV (tmplOut (outs.foldl tmplStep (([] : List Diag), true, Fl.none, ""))).1
      (tmplOut (outs'.foldl tmplStep (([] : List Diag), true, Fl.none, ""))).1 = true := by
  have d : ∀ st : TSt, (tmplOut st).2 = st.1 := by
    intro st; obtain ⟨ds, known, ms, buf⟩ := st; unfold tmplOut; simp only []; split <;> rfl
  rw [d] at h1 h2
  exact tmplOut_rel (tmplFold_inv hr (Or.inr ⟨rfl, rfl⟩) h1 h2)

theorem template_nil (outs : List Out)
    (h : (tmplOut (outs.foldl tmplStep (([] : List Diag), true, Fl.none, ""))).2 = []) : ∀ o ∈ outs, o.2 = [] := by
  have d : ∀ st : TSt, (tmplOut st).2 = st.1 := by
    intro st; obtain ⟨ds, known, ms, buf⟩ := st; unfold tmplOut; simp only []; split <;> rfl
  rw [d] at h
  exact (tmplFold_diags h).2
theorem tjoinLoop_diags (tm : Fl) : ∀ (xs : List Val) (ds : List Diag) (ms : Fl) (buf : String),
    (tjoinLoop tm xs ds ms buf).2 = [] → ds = []
  | [], ds, ms, buf, h => by simpa [tjoinLoop] using h
  | x :: xs, ds, ms, buf, h => by
    unfold tjoinLoop at h
    split at h
    · have := tjoinLoop_diags tm xs _ _ _ h; simp at this
    · split at h
      · simpa using h
      · split at h
        · have := tjoinLoop_diags tm xs _ _ _ h; simp at this
        · split at h
          · simpa using h
          · split at h
            · exact tjoinLoop_diags tm xs _ _ _ h
            · exact tjoinLoop_diags tm xs _ _ _ h

theorem tjoinLoop_marked (tm : Fl) (htm : tm.m = true) : ∀ (xs : List Val) (ds : List Diag) (ms : Fl) (buf : String),
    ms.m = true → (tjoinLoop tm xs ds ms buf).1.fl.m = true
  | [], ds, ms, buf, h => by simpa [tjoinLoop] using h
  | x :: xs, ds, ms, buf, h => by
    unfold tjoinLoop
    split
    · exact tjoinLoop_marked tm htm xs _ _ _ h
    · split
      · simp [htm]
      · split
        · exact tjoinLoop_marked tm htm xs _ _ _ h
        · split
          · simp [htm]
          · split
            · exact tjoinLoop_marked tm htm xs _ _ _ (by simp [h])
            · exact tjoinLoop_marked tm htm xs _ _ _ h

theorem shapeEq_of_relC {a b : Val} (h : relC a b = true) : shapeEq a b :=
  ⟨relC_isKnown h, relC_typeOf_dyn h⟩

theorem tjoinLoop_rel (tm tm' : Fl) : ∀ (xs xs' : List Val), relL xs xs' = true →
    (∀ p ∈ xs.zip xs', shapeEq p.1 p.2) → ∀ (ds ds' : List Diag) (ms ms' : Fl) (buf buf' : String),
    ((ms.m = true ∧ ms'.m = true) ∨ buf = buf') →
    (tjoinLoop tm xs ds ms buf).2 = [] → (tjoinLoop tm' xs' ds' ms' buf').2 = [] →
    relV (tjoinLoop tm xs ds ms buf).1 (tjoinLoop tm' xs' ds' ms' buf').1 = true
  | [], [], _, _, ds, ds', ms, ms', buf, buf', hi, _, _ => by
    simp only [tjoinLoop, relV]
    rcases hi with hi | hi <;> simp [hi]
  | [], _ :: _, h, _, _, _, _, _, _, _, _, _, _ => by simp [relL] at h
  | _ :: _, [], h, _, _, _, _, _, _, _, _, _, _ => by simp [relL] at h
  | x :: xs, x' :: xs', h, hs, ds, ds', ms, ms', buf, buf', hi, h1, h2 => by
    simp only [relL, Bool.and_eq_true] at h
    have hsx : shapeEq x x' := hs (x, x') (by simp)
    have hs' : ∀ p ∈ xs.zip xs', shapeEq p.1 p.2 := fun p hp => hs p (by simp [hp])
    have ih := tjoinLoop_rel tm tm' xs xs' h.2 hs'
    unfold tjoinLoop at h1 h2 ⊢
    cases hn : x.isNull
    · cases hn' : x'.isNull
      · simp only [hn, hn', Bool.false_eq_true, if_false] at h1 h2 ⊢
        rw [← hsx.2] at h2 ⊢
        cases hd : (x.typeOf == Ty.dyn)
        · simp only [hd, Bool.false_eq_true, if_false] at h1 h2 ⊢
          cases c1 : tryConvert x .str with
          | error d =>
            simp only [c1] at h1
            have := tjoinLoop_diags _ _ _ _ _ h1; simp at this
          | ok sv =>
            cases c2 : tryConvert x' .str with
            | error d =>
              simp only [c2] at h2
              have := tjoinLoop_diags _ _ _ _ _ h2; simp at this
            | ok sv' =>
              simp only [c1, c2] at h1 h2 ⊢
              rw [← hsx.1] at h2 ⊢
              cases hk : x.isKnown
              · simp [relV, withFl, setFl]
              · simp only [hk, Bool.not_true, Bool.false_eq_true, if_false] at h1 h2 ⊢
                have r := tryConvert_rel h.1 c1 c2
                have f1 := tryConvert_fl c1
                have f2 := tryConvert_fl c2
                have k1 := tryConvert_isKnown c1
                have k2 := tryConvert_isKnown c2
                rcases convert_str_cases _ _ (tryConvert_ok c1) hn with ⟨s, rfl⟩ | rfl
                · rcases convert_str_cases _ _ (tryConvert_ok c2) hn' with ⟨s', rfl⟩ | rfl
                  · simp only [] at h1 h2 ⊢
                    apply ih _ _ _ _ _ _ _ h1 h2
                    simp only [relV, Bool.or_eq_true, Bool.and_eq_true, beq_iff_eq] at r
                    rcases r with r | r
                    · left; simp [r.1, r.2]
                    · subst r
                      rcases hi with hi | hi
                      · left; simp [hi.1, hi.2]
                      · right; rw [hi]
                  · rw [← hsx.1, hk] at k2; simp [isKnown] at k2
                · rw [hk] at k1; simp [isKnown] at k1
        · simp [hd, relV, withFl, setFl]
      · simp only [hn', if_true] at h2
        have := tjoinLoop_diags _ _ _ _ _ h2; simp at this
    · simp only [hn, if_true] at h1
      have := tjoinLoop_diags _ _ _ _ _ h1; simp at this

def tupleElems : Val → List Val
  | .tuple _ xs => xs
  | _ => []

theorem tjoinOut_rel (o o' : Out) (hr : relV o.1 o'.1 = true) (hs : shapeEq o.1 o'.1)
    (he : ¬ bm o.1 o'.1 → ∀ p ∈ (tupleElems o.1).zip (tupleElems o'.1), shapeEq p.1 p.2)
    (h1 : (tjoinOut o).2 = []) (h2 : (tjoinOut o').2 = []) :
    relV (tjoinOut o).1 (tjoinOut o').1 = true := by
  obtain ⟨tv, ds⟩ := o
  obtain ⟨tv', ds'⟩ := o'
  simp only [] at hr hs he
  unfold tjoinOut at h1 h2 ⊢
  simp only [] at h1 h2 ⊢
  rw [← hs.2] at h2 ⊢
  cases hd : (tv.typeOf == Ty.dyn)
  · simp only [hd, Bool.false_eq_true, if_false] at h1 h2 ⊢
    rw [← hs.1] at h2 ⊢
    cases hk : tv.isKnown
    · simp [relV]
    · simp only [hk, Bool.not_true, Bool.false_eq_true, if_false, unmark] at h1 h2 ⊢
      by_cases hb : bm tv tv'
      · apply relV_top
        · cases tv <;> simp only [setFl] at h1 ⊢ <;> (try (simp at h1; done))
          exact tjoinLoop_marked _ hb.1 _ _ _ _ hb.1
        · cases tv' <;> simp only [setFl] at h2 ⊢ <;> (try (simp at h2; done))
          exact tjoinLoop_marked _ hb.2 _ _ _ _ hb.2
      · have he := he hb
        have rc : relC tv tv' = true := by
          rcases relV_cases hr with hb' | rc
          · exact absurd hb' hb
          · exact rc
        cases tv <;> cases tv' <;> simp [relC] at rc <;> simp only [setFl] at h1 h2 ⊢ <;> (try (simp at h1; done))
        exact tjoinLoop_rel _ _ _ _ rc (by simpa [tupleElems] using he) _ _ _ _ _ _ (Or.inr rfl) h1 h2
  · simp [hd, relV]
theorem tjoinOut_nil {o : Out} (h : (tjoinOut o).2 = []) : o.2 = [] := by
  obtain ⟨tv, ds⟩ := o
  unfold tjoinOut at h
  simp only [] at h ⊢
  split at h
  · exact h
  · split at h
    · exact h
    · simp only [unmark] at h
      split at h
      · exact tjoinLoop_diags _ _ _ _ _ h
      · simp at h
end HclModel.Proofs
