import HclModel.Dyn.Expand
import Mathlib.Tactic.SplitIfs
/-!
C06 on the dynamic-block model: where the marks of a `for_each` collection go.

`decodeSpec` unmarks the collection and keeps its flags `m`; every block generated for an element gets
`marks := m` (`valueMarks`); every attribute handed out by such a body is an `exprWrap` with
`resultMarks := m`; its value is the expression's value with `m` added at the top — whatever the expression
evaluates to (a constant, a null, something that does not mention the iterator at all).
-/
namespace HclModel.Dyn.Proofs

theorem withFl_marked (v : Val) (f : Fl) (h : f.m = true) : (v.withFl f).isMarked = true := by
  cases v <;> simp [Val.withFl, Val.setFl, Val.isMarked, Val.fl, Fl.join, h]

/-- `exprWrap.Value`: the result marks are on the value, known or not, null or not, error or not -/
theorem attr_value_marked (ev : Env → Expr → Out) (ρ : Env) (a : XAttr) (h : a.marks.m = true) :
    (a.value ev ρ).1.isMarked = true := by
  unfold XAttr.value
  split
  · exact withFl_marked Val.dynVal _ h
  · exact withFl_marked _ _ h

/-- every block generated from the elements carries the collection's flags as its value marks -/
theorem genBlocks_marks (ev : Env → Expr → Out) (ρf : Env) (its : Iters) (name : String) (m : Fl)
    (lexprs : List Expr) (type : String) (content : SBody) (unknown : Option Fl) (kvs : List (Val × Val)) :
    ∀ blk ∈ (genBlocks ev ρf its name m lexprs type content unknown kvs).1, blk.body.marks = m := by
  induction kvs with
  | nil => intro blk h; simp [genBlocks] at h
  | cons kv rest ih =>
    obtain ⟨k, v⟩ := kv
    intro blk h
    simp only [genBlocks] at h
    split at h
    · rw [List.mem_cons] at h
      rcases h with rfl | h
      · rfl
      · exact ih blk h
    · exact ih blk h

/-- the attributes a body hands out carry the body's value marks (or, inside an `unknownBody`, its marks) -/
theorem contentCore_attr_marks (ev : Env → Expr → Out) (ρf : Env) (b : XBody) (s : Body.Schema) (pm : Bool) :
    ∀ p ∈ (b.contentCore ev ρf s pm).1.attrs,
      p.2.marks = (match b.unknown with | some um => um | none => b.marks) := by
  intro p hp
  unfold XBody.contentCore at hp
  cases hu : b.unknown with
  | none =>
    simp only [hu] at hp
    simp only [List.mem_map] at hp
    obtain ⟨q, _, rfl⟩ := hp
    rfl
  | some um =>
    simp only [hu, fixupUnknown, List.mem_map] at hp
    obtain ⟨q, _, rfl⟩ := hp
    rfl

end HclModel.Dyn.Proofs

namespace HclModel.Dyn.Proofs

/-- the flags a decoded `dynamic` block header carries -/
def specFl : SpecRes → Option Fl
  | .err _ => none
  | .known _ m _ _ => some m
  | .unknown _ m _ => some m

theorem decodeSpec_fl_aux (ev : Env → Expr → Out) (ρf : Env) (its : Iters) (lc : Nat) (type : String)
    (fe : Expr) (itn : Option String) (labels : Option (List Expr)) (r : SpecRes)
    (h : decodeSpec ev ρf its lc type fe itn labels = r) :
    specFl r = none ∨ specFl r = some (ev (iterEnv its ++ ρf) fe).1.fl := by
  generalize hv : ev (iterEnv its ++ ρf) fe = o at *
  obtain ⟨v, ds⟩ := o
  unfold decodeSpec at h
  simp only [hv, Val.unmark] at h
  by_cases c1 : (decide (lc = 0) && labels.isSome) = true
  · simp only [c1] at h; subst h; left; rfl
  simp only [c1] at h
  by_cases c2 : (decide (lc ≠ 0) && labels.isNone) = true
  · simp only [c2] at h; subst h; left; rfl
  simp only [c2] at h
  by_cases c3 : (!ds.isEmpty) = true
  · simp only [c3] at h; subst h; left; rfl
  simp only [c3] at h
  by_cases c4 : (!canIterate (v.setFl v.fl.unmark).typeOf && !(v.setFl v.fl.unmark).typeOf == Ty.dyn) = true
  · simp only [c4] at h; subst h; left; rfl
  simp only [c4] at h
  by_cases c5 : (v.setFl v.fl.unmark).isNull = true
  · simp only [c5] at h; subst h; left; rfl
  simp only [c5] at h
  by_cases c6 : (labels.getD []).length > lc
  · simp only [c6] at h; subst h; left; rfl
  simp only [c6] at h
  by_cases c7 : (labels.getD []).length < lc
  · simp only [c7] at h; subst h; left; rfl
  simp only [c7] at h
  by_cases c8 : (v.setFl v.fl.unmark).isKnown = true
  · simp only [c8] at h
    cases he : elements (v.setFl v.fl.unmark) with
    | none => simp only [he] at h; subst h; left; rfl
    | some kvs => simp only [he] at h; subst h; right; rfl
  · simp only [c8] at h; subst h; right; rfl

theorem decodeSpec_fl (ev : Env → Expr → Out) (ρf : Env) (its : Iters) (lc : Nat) (type : String)
    (fe : Expr) (itn : Option String) (labels : Option (List Expr)) :
    specFl (decodeSpec ev ρf its lc type fe itn labels) = none ∨
    specFl (decodeSpec ev ρf its lc type fe itn labels) = some (ev (iterEnv its ++ ρf) fe).1.fl :=
  decodeSpec_fl_aux ev ρf its lc type fe itn labels _ rfl

theorem decodeSpec_known_marks (ev : Env → Expr → Out) (ρf : Env) (its : Iters) (lc : Nat) (type : String)
    (fe : Expr) (itn : Option String) (labels : Option (List Expr)) (name : String) (m : Fl)
    (lexprs : List Expr) (kvs : List (Val × Val))
    (h : decodeSpec ev ρf its lc type fe itn labels = .known name m lexprs kvs) :
    m = (ev (iterEnv its ++ ρf) fe).1.fl := by
  have := decodeSpec_fl ev ρf its lc type fe itn labels
  rw [h] at this
  simpa [specFl] using this

theorem decodeSpec_unknown_marks (ev : Env → Expr → Out) (ρf : Env) (its : Iters) (lc : Nat) (type : String)
    (fe : Expr) (itn : Option String) (labels : Option (List Expr)) (name : String) (m : Fl)
    (lexprs : List Expr)
    (h : decodeSpec ev ρf its lc type fe itn labels = .unknown name m lexprs) :
    m = (ev (iterEnv its ++ ρf) fe).1.fl := by
  have := decodeSpec_fl ev ρf its lc type fe itn labels
  rw [h] at this
  simpa [specFl] using this

/-- the blocks one dynamic block stands for carry the flags of its `for_each` value — in particular its mark -/
theorem expandDyn_marks (ev : Env → Expr → Out) (ρf : Env) (its : Iters) (lc : Nat) (type : String)
    (fe : Expr) (itn : Option String) (labels : Option (List Expr)) (content : SBody) :
    ∀ blk ∈ (expandDyn ev ρf its lc type fe itn labels content).1,
      blk.body.marks = (ev (iterEnv its ++ ρf) fe).1.fl := by
  intro blk hb
  unfold expandDyn at hb
  split at hb
  · simp at hb
  · rename_i name m lexprs kvs hd
    rw [genBlocks_marks ev ρf its name m lexprs type content none kvs blk hb]
    exact decodeSpec_known_marks ev ρf its lc type fe itn labels name m lexprs kvs hd
  · rename_i name m lexprs hd
    rw [genBlocks_marks ev ρf its name m lexprs type content (some m) _ blk hb]
    exact decodeSpec_unknown_marks ev ρf its lc type fe itn labels name m lexprs hd

end HclModel.Dyn.Proofs
