import Proofs.UnknownsBin
/-!
`getAttr` and `index`: known-in-known-out, well-typedness, monotonicity for `conc`.
-/
set_option linter.unusedSimpArgs false
namespace HclModel.Proofs.Unk
open Val

theorem whollyKnown_dynVal_withFl (f : Fl) : wfVal (Val.dynVal.withFl f) = true := rfl

theorem getAttr_known {obj : Val} {name : String} (hk : whollyKnown obj = true)
    (h : (getAttr obj name).2 = []) : whollyKnown (getAttr obj name).1 = true := by
  unfold getAttr at h ⊢
  cases obj <;> simp [isNull, typeOf, errOut, whollyKnown] at h hk ⊢
  case map f t kvs =>
    cases hl : lookupKey name kvs with
    | none => simp [hl] at h
    | some x => simpa using whollyKnownFields_lookup hk hl
  case object f kvs =>
    cases hl : lookupKey name (typeOfFields kvs) with
    | none => simp [hl] at h
    | some aty =>
      simp only [hl] at h ⊢
      cases hl2 : lookupKey name kvs with
      | none => simp [hl2] at h
      | some x => simpa using whollyKnownFields_lookup hk hl2

theorem wfVal_dynVal : wfVal Val.dynVal = true := rfl

theorem getAttr_wf {obj : Val} {name : String} (hw : wfVal obj = true) :
    wfVal (getAttr obj name).1 = true := by
  unfold getAttr
  cases obj <;> simp [isNull, typeOf, errOut, wfVal, wfVal_dynVal] at hw ⊢
  case unk f t =>
    cases t <;> simp [wfVal, wfVal_dynVal, withFl, dynVal, setFl]
    split <;> simp [wfVal]
  case map f t kvs =>
    cases hl : lookupKey name kvs with
    | none => simp [wfVal_dynVal]
    | some x => simpa using (wfElemsF_lookup hw hl).2
  case object f kvs =>
    cases hl : lookupKey name (typeOfFields kvs) with
    | none => simp [wfVal_dynVal]
    | some aty =>
      simp only
      cases hl2 : lookupKey name kvs with
      | none => simp [wfVal_dynVal]
      | some x => simpa using wfFields_lookup hw hl2

theorem getAttr_conc {obj obja : Val} {name : String} (hc : conc obj obja = true) (hw : wfVal obj = true)
    (h : (getAttr obj name).2 = []) (ha : (getAttr obja name).2 = []) :
    conc (getAttr obj name).1 (getAttr obja name).1 = true := by
  cases obja
  case unk g t =>
    cases t
    case dyn => simp [getAttr, isNull, typeOf, dynVal, withFl, setFl, conc_unk]
    case object fs =>
      simp only [getAttr, isNull, typeOf, Bool.false_eq_true, if_false] at ha ⊢
      cases hl : lookupKey name fs with
      | none => simp [hl, errOut] at ha
      | some aty =>
        simp only [hl]
        apply conc_of_type
        rcases conc_unk_iff.mp hc with h1 | h1
        · simp at h1
        · rcases shape_object h1 with ⟨f, rfl⟩ | ⟨f, rfl⟩ | ⟨f, kvs, rfl, hk⟩
          · simp [getAttr, isNull, typeOf, hl]
          · simp [getAttr, isNull, errOut] at h
          · simp only [getAttr, isNull, typeOf, Bool.false_eq_true, if_false, hk, hl] at h ⊢
            have := typeOfFields_lookup kvs name
            rw [hk, hl] at this
            cases hl2 : lookupKey name kvs with
            | none => simp [hl2] at this
            | some x => simp [hl2] at this ⊢; exact this.symm
    case map t =>
      simp only [getAttr, isNull, typeOf, Bool.false_eq_true, if_false] at ha ⊢
      apply conc_of_type
      rcases conc_unk_iff.mp hc with h1 | h1
      · simp at h1
      · rcases shape_map h1 with ⟨f, rfl⟩ | ⟨f, rfl⟩ | ⟨f, kvs, rfl⟩
        · simp [getAttr, isNull, typeOf]
        · simp [getAttr, isNull, errOut] at h
        · simp only [getAttr, isNull, typeOf, Bool.false_eq_true, if_false] at h ⊢
          cases hl2 : lookupKey name kvs with
          | none => simp [hl2, errOut] at h
          | some x => simpa using (wfElemsF_lookup hw hl2).1
    all_goals simp [getAttr, isNull, typeOf, errOut] at ha
  case null g t => simp [getAttr, isNull, errOut] at ha
  case map g t kvsa =>
    obtain ⟨f, kvs, rfl, hl⟩ := conc_map_inv hc
    simp only [getAttr, isNull, typeOf, Bool.false_eq_true, if_false] at h ha ⊢
    have := concF_lookup hl name
    cases h1 : lookupKey name kvs <;> cases h2 : lookupKey name kvsa <;> simp [h1, h2, errOut] at this h ha ⊢
    exact this
  case object g kvsa =>
    obtain ⟨f, kvs, rfl, hl⟩ := conc_object_inv hc
    simp only [getAttr, isNull, typeOf, Bool.false_eq_true, if_false] at h ha ⊢
    cases h3 : lookupKey name (typeOfFields kvs) with
    | none => simp [h3, errOut] at h
    | some aty =>
    cases h4 : lookupKey name (typeOfFields kvsa) with
    | none => simp [h4, errOut] at ha
    | some atya =>
    simp only [h3, h4] at h ha ⊢
    have := concF_lookup hl name
    cases h1 : lookupKey name kvs <;> cases h2 : lookupKey name kvsa <;> simp [h1, h2, errOut] at this h ha ⊢
    exact this
  all_goals simp [getAttr, isNull, typeOf, errOut] at ha

theorem typeOf_ne_dyn {v : Val} (hk : v.isKnown = true) (hn : v.isNull = false) : v.typeOf ≠ .dyn := by
  cases v <;> simp_all [isKnown, isNull, typeOf]

/-- a non-null value of type `num` / `str` -/
theorem shape_num_nn {v : Val} (h : v.typeOf = .num) (hn : v.isNull = false) :
    (∃ f, v = .unk f .num) ∨ (∃ f q, v = .num f q) := by
  rcases shape_num h with h | ⟨f, rfl⟩ | h
  · exact Or.inl h
  · simp [isNull] at hn
  · exact Or.inr h
theorem shape_str_nn {v : Val} (h : v.typeOf = .str) (hn : v.isNull = false) :
    (∃ f, v = .unk f .str) ∨ (∃ f q, v = .str f q) := by
  rcases shape_str h with h | ⟨f, rfl⟩ | h
  · exact Or.inl h
  · simp [isNull] at hn
  · exact Or.inr h

/-- `index` on a list -/
theorem index_list {f : Fl} {t : Ty} {xs : List Val} {key : Val} (hn : key.isNull = false)
    (hd : key.typeOf ≠ .dyn) :
    index true (.list f t xs) key =
      match tryConvert key .num with
      | .error d => if d.isUnsupported then (Val.dynVal, [d]) else errOut "Invalid index: key conversion"
      | .ok k =>
        match k with
        | .num kf q =>
          (match natIndex? q with
           | some i => match xs[i]? with
             | some x => (x.withFl (f.join kf), [])
             | none => errOut "Invalid index: out of range"
           | none => errOut "Invalid index: not a whole non-negative number")
        | _ => (Val.unk f t, []) := by
  unfold index
  have h1 : (Val.list f t xs).isNull = false := rfl
  simp only [h1, hn, typeOf, Bool.false_eq_true, if_false, beq_iff_eq, hd, reduceCtorEq, or_self, fl]
  cases tryConvert key .num with
  | error d => rfl
  | ok k => cases k <;> rfl

theorem index_tuple {f : Fl} {xs : List Val} {key : Val} (hn : key.isNull = false)
    (hd : key.typeOf ≠ .dyn) :
    index true (.tuple f xs) key =
      match tryConvert key .num with
      | .error d => if d.isUnsupported then (Val.dynVal, [d]) else errOut "Invalid index: key conversion"
      | .ok k =>
        match k with
        | .num kf q =>
          (match natIndex? q with
           | some i => match xs[i]? with
             | some x => (x.withFl (f.join kf), [])
             | none => errOut "Invalid index: out of range"
           | none => errOut "Invalid index: not a whole non-negative number")
        | _ => (Val.dynVal.withFl f, []) := by
  unfold index
  have h1 : (Val.tuple f xs).isNull = false := rfl
  simp only [h1, hn, typeOf, Bool.false_eq_true, if_false, beq_iff_eq, hd, reduceCtorEq, or_self, fl]
  cases tryConvert key .num with
  | error d => rfl
  | ok k => cases k <;> rfl

theorem index_map {f : Fl} {t : Ty} {kvs : List (String × Val)} {key : Val} (hn : key.isNull = false)
    (hd : key.typeOf ≠ .dyn) :
    index true (.map f t kvs) key =
      match tryConvert key .str with
      | .error d => if d.isUnsupported then (Val.dynVal, [d]) else errOut "Invalid index: key conversion"
      | .ok k =>
        match k with
        | .str kf s =>
          (match lookupKey s kvs with
           | some x => (x.withFl (f.join kf), [])
           | none => errOut "Invalid index: no such key")
        | _ => (Val.unk f t, []) := by
  unfold index
  have h1 : (Val.map f t kvs).isNull = false := rfl
  simp only [h1, hn, typeOf, Bool.false_eq_true, if_false, beq_iff_eq, hd, reduceCtorEq, or_self, fl]
  cases tryConvert key .str with
  | error d => rfl
  | ok k => cases k <;> rfl

theorem index_object {f : Fl} {kvs : List (String × Val)} {key : Val} (hn : key.isNull = false)
    (hd : key.typeOf ≠ .dyn) :
    index true (.object f kvs) key =
      match tryConvert key .str with
      | .error d => if d.isUnsupported then (Val.dynVal, [d]) else errOut "Invalid index: key conversion"
      | .ok k =>
        match k with
        | .str kf s =>
          (match lookupKey s (typeOfFields kvs) with
           | none => errOut "Invalid index: no such attribute"
           | some _ =>
             match lookupKey s kvs with
             | some x => (x.withFl (f.join kf), [])
             | none => errOut "Invalid index: no such attribute")
        | _ => (Val.dynVal.withFl f, []) := by
  unfold index
  have h1 : (Val.object f kvs).isNull = false := rfl
  simp only [h1, hn, typeOf, Bool.false_eq_true, if_false, beq_iff_eq, hd, reduceCtorEq, or_self, fl]
  cases tryConvert key .str with
  | error d => rfl
  | ok k => cases k <;> (try rfl) <;> (simp; cases lookupKey _ _ <;> rfl)

theorem index_unk_list {f : Fl} {t : Ty} {key : Val} (hn : key.isNull = false) (hd : key.typeOf ≠ .dyn) :
    index true (.unk f (.list t)) key =
      match tryConvert key .num with
      | .error d => if d.isUnsupported then (Val.dynVal, [d]) else errOut "Invalid index: key conversion"
      | .ok _ => (Val.unk f t, []) := by
  unfold index
  have h1 : (Val.unk f (.list t)).isNull = false := rfl
  simp only [h1, hn, typeOf, Bool.false_eq_true, if_false, beq_iff_eq, hd, reduceCtorEq, or_self, fl]
  cases tryConvert key .num with
  | error d => rfl
  | ok k => cases k <;> rfl

theorem index_unk_map {f : Fl} {t : Ty} {key : Val} (hn : key.isNull = false) (hd : key.typeOf ≠ .dyn) :
    index true (.unk f (.map t)) key =
      match tryConvert key .str with
      | .error d => if d.isUnsupported then (Val.dynVal, [d]) else errOut "Invalid index: key conversion"
      | .ok _ => (Val.unk f t, []) := by
  unfold index
  have h1 : (Val.unk f (.map t)).isNull = false := rfl
  simp only [h1, hn, typeOf, Bool.false_eq_true, if_false, beq_iff_eq, hd, reduceCtorEq, or_self, fl]
  cases tryConvert key .str with
  | error d => rfl
  | ok k => cases k <;> rfl

theorem index_unk_tuple {f : Fl} {ts : List Ty} {key : Val} (hn : key.isNull = false)
    (hd : key.typeOf ≠ .dyn) :
    index true (.unk f (.tuple ts)) key =
      match tryConvert key .num with
      | .error d => if d.isUnsupported then (Val.dynVal, [d]) else errOut "Invalid index: key conversion"
      | .ok k =>
        match k with
        | .num kf q =>
          (match natIndex? q with
           | some i => match ts[i]? with
             | some t => (Val.unk (f.join kf) t, [])
             | none => errOut "Invalid index: out of range"
           | none => errOut "Invalid index: not a whole non-negative number")
        | _ => (Val.dynVal.withFl f, []) := by
  unfold index
  have h1 : (Val.unk f (.tuple ts)).isNull = false := rfl
  simp only [h1, hn, typeOf, Bool.false_eq_true, if_false, beq_iff_eq, hd, reduceCtorEq, or_self, fl]
  cases tryConvert key .num with
  | error d => rfl
  | ok k => cases k <;> rfl

theorem index_unk_object {f : Fl} {fs : List (String × Ty)} {key : Val} (hn : key.isNull = false)
    (hd : key.typeOf ≠ .dyn) :
    index true (.unk f (.object fs)) key =
      match tryConvert key .str with
      | .error d => if d.isUnsupported then (Val.dynVal, [d]) else errOut "Invalid index: key conversion"
      | .ok k =>
        match k with
        | .str kf s =>
          (match lookupKey s fs with
           | none => errOut "Invalid index: no such attribute"
           | some aty => (Val.unk (f.join kf) aty, []))
        | _ => (Val.dynVal.withFl f, []) := by
  unfold index
  have h1 : (Val.unk f (.object fs)).isNull = false := rfl
  simp only [h1, hn, typeOf, Bool.false_eq_true, if_false, beq_iff_eq, hd, reduceCtorEq, or_self, fl]
  cases tryConvert key .str with
  | error d => rfl
  | ok k => cases k <;> (try rfl) <;> (simp; cases lookupKey _ _ <;> rfl)

theorem index_dyn {coll key : Val} (hc : coll.isNull = false) (hn : key.isNull = false)
    (hd : key.typeOf = .dyn ∨ coll.typeOf = .dyn) :
    index true coll key = (Val.dynVal.withFl coll.fl, []) := by
  unfold index
  simp [hc, hn, hd]

theorem index_null_diag {coll key : Val} (h : (index true coll key).2 = []) :
    coll.isNull = false ∧ key.isNull = false := by
  unfold index at h
  by_cases hc : coll.isNull = true
  · simp [hc, errOut] at h
  · by_cases hn : key.isNull = true
    · simp [hc, hn, errOut] at h
    · exact ⟨by simpa using hc, by simpa using hn⟩

theorem index_prim_diag {coll key : Val} (hc : coll.typeOf.isPrim = true) (hk : key.typeOf ≠ .dyn) :
    (index true coll key).2 ≠ [] := by
  unfold index
  have hd : coll.typeOf ≠ .dyn := by intro e; rw [e] at hc; simp [Ty.isPrim] at hc
  split
  · simp [errOut]
  · split
    · simp [errOut]
    · split
      · rename_i h; simp at h; rcases h with h | h
        · exact absurd h hk
        · exact absurd h hd
      · split
        · rename_i h; rw [h] at hc; simp [Ty.isPrim] at hc
        · rename_i h; rw [h] at hc; simp [Ty.isPrim] at hc
        · rename_i h; rw [h] at hc; simp [Ty.isPrim] at hc
        · rename_i h; rw [h] at hc; simp [Ty.isPrim] at hc
        · simp [errOut]

/-- `x` is an element of the collection value -/
def Elem (x : Val) : Val → Prop
  | .list _ _ xs => x ∈ xs
  | .tuple _ xs => x ∈ xs
  | .map _ _ kvs => ∃ k, lookupKey k kvs = some x
  | .object _ kvs => ∃ k, lookupKey k kvs = some x
  | _ => False

theorem Elem_known {x coll : Val} (h : Elem x coll) (hk : whollyKnown coll = true) : whollyKnown x = true := by
  cases coll <;> simp only [Elem, whollyKnown] at h hk
  · exact whollyKnownList_mem hk x h
  · obtain ⟨k, h⟩ := h; exact whollyKnownFields_lookup hk h
  · exact whollyKnownList_mem hk x h
  · obtain ⟨k, h⟩ := h; exact whollyKnownFields_lookup hk h

theorem Elem_wf {x coll : Val} (h : Elem x coll) (hk : wfVal coll = true) : wfVal x = true := by
  cases coll <;> simp only [Elem, wfVal] at h hk
  · exact (wfElems_mem hk x h).2
  · obtain ⟨k, h⟩ := h; exact (wfElemsF_lookup hk h).2
  · exact wfList_mem hk x h
  · obtain ⟨k, h⟩ := h; exact wfFields_lookup hk h

/-- the converted key: non-null, of the wanted type, known iff the key is -/
theorem key_conv {key k : Val} {t : Ty} (ht : t.noDyn = true) (hn : key.isNull = false)
    (h : tryConvert key t = .ok k) : typeOf k = t ∧ k.isNull = false ∧ k.isKnown = key.isKnown := by
  obtain ⟨p1, p2, _, p4⟩ := convert_props key t k (tryConvert_ok.mp h)
  exact ⟨(p4 ht).1, p2.trans hn, p1⟩

theorem unk_of_not_num {k : Val} (ht : typeOf k = .num) (hn : k.isNull = false)
    (h : ∀ f q, k ≠ .num f q) : k.isKnown = false := by
  rcases shape_num_nn ht hn with ⟨f, rfl⟩ | ⟨f, q, rfl⟩
  · rfl
  · exact absurd rfl (h f q)
theorem unk_of_not_str {k : Val} (ht : typeOf k = .str) (hn : k.isNull = false)
    (h : ∀ f q, k ≠ .str f q) : k.isKnown = false := by
  rcases shape_str_nn ht hn with ⟨f, rfl⟩ | ⟨f, q, rfl⟩
  · rfl
  · exact absurd rfl (h f q)

theorem index_shape {coll key : Val} (h : (index true coll key).2 = []) :
    (∃ x g, (index true coll key).1 = x.withFl g ∧ Elem x coll) ∨
      ((index true coll key).1.isKnown = false ∧ isFlat (index true coll key).1 = true ∧
        (coll.isKnown = false ∨ key.isKnown = false)) := by
  obtain ⟨nc, nk⟩ := index_null_diag h
  by_cases hd : key.typeOf = .dyn ∨ coll.typeOf = .dyn
  · rw [index_dyn nc nk hd]
    refine Or.inr ⟨rfl, rfl, ?_⟩
    rcases hd with hd | hd
    · rcases shape_dyn hd with ⟨f, rfl⟩ | ⟨f, rfl⟩
      · exact Or.inr rfl
      · simp [isNull] at nk
    · rcases shape_dyn hd with ⟨f, rfl⟩ | ⟨f, rfl⟩
      · exact Or.inl rfl
      · simp [isNull] at nc
  · have hkd : key.typeOf ≠ .dyn := fun e => hd (Or.inl e)
    have hcd : coll.typeOf ≠ .dyn := fun e => hd (Or.inr e)
    cases coll
    case null => simp [isNull] at nc
    case str => exact absurd h (index_prim_diag rfl hkd)
    case num => exact absurd h (index_prim_diag rfl hkd)
    case bool => exact absurd h (index_prim_diag rfl hkd)
    case list f t xs =>
      rw [index_list nk hkd] at h ⊢
      cases hk : tryConvert key .num with
      | error d => simp only [hk] at h; split at h <;> simp [errOut] at h
      | ok k =>
        obtain ⟨kt, kn, kk⟩ := key_conv rfl nk hk
        simp only [hk] at h ⊢
        split
        · rename_i kf q
          simp only at h
          split at h
          · split at h
            · rename_i i x hx
              rename_i hi
              simp only [hi, hx]
              exact Or.inl ⟨x, _, rfl, List.mem_of_getElem? hx⟩
            · simp [errOut] at h
          · simp [errOut] at h
        · rename_i hnot
          exact Or.inr ⟨rfl, rfl, Or.inr (kk ▸ unk_of_not_num kt kn hnot)⟩
    case tuple f xs =>
      rw [index_tuple nk hkd] at h ⊢
      cases hk : tryConvert key .num with
      | error d => simp only [hk] at h; split at h <;> simp [errOut] at h
      | ok k =>
        obtain ⟨kt, kn, kk⟩ := key_conv rfl nk hk
        simp only [hk] at h ⊢
        split
        · rename_i kf q
          simp only at h
          split at h
          · split at h
            · rename_i i x hx
              rename_i hi
              simp only [hi, hx]
              exact Or.inl ⟨x, _, rfl, List.mem_of_getElem? hx⟩
            · simp [errOut] at h
          · simp [errOut] at h
        · rename_i hnot
          exact Or.inr ⟨rfl, rfl, Or.inr (kk ▸ unk_of_not_num kt kn hnot)⟩
    case map f t kvs =>
      rw [index_map nk hkd] at h ⊢
      cases hk : tryConvert key .str with
      | error d => simp only [hk] at h; split at h <;> simp [errOut] at h
      | ok k =>
        obtain ⟨kt, kn, kk⟩ := key_conv rfl nk hk
        simp only [hk] at h ⊢
        split
        · rename_i kf s
          simp only at h
          split at h
          · rename_i x hx
            simp only [hx]
            exact Or.inl ⟨x, _, rfl, s, hx⟩
          · simp [errOut] at h
        · rename_i hnot
          exact Or.inr ⟨rfl, rfl, Or.inr (kk ▸ unk_of_not_str kt kn hnot)⟩
    case object f kvs =>
      rw [index_object nk hkd] at h ⊢
      cases hk : tryConvert key .str with
      | error d => simp only [hk] at h; split at h <;> simp [errOut] at h
      | ok k =>
        obtain ⟨kt, kn, kk⟩ := key_conv rfl nk hk
        simp only [hk] at h ⊢
        split
        · rename_i kf s
          simp only at h
          split at h
          · simp [errOut] at h
          · split at h
            · rename_i x hx
              exact Or.inl ⟨x, _, rfl, s, hx⟩
            · simp [errOut] at h
        · rename_i hnot
          exact Or.inr ⟨rfl, rfl, Or.inr (kk ▸ unk_of_not_str kt kn hnot)⟩
    case unk f T =>
      cases T
      case dyn => simp [typeOf] at hcd
      case str => exact absurd h (index_prim_diag rfl hkd)
      case num => exact absurd h (index_prim_diag rfl hkd)
      case bool => exact absurd h (index_prim_diag rfl hkd)
      case list t =>
        rw [index_unk_list nk hkd] at h ⊢
        cases hk : tryConvert key .num with
        | error d => simp only [hk] at h; split at h <;> simp [errOut] at h
        | ok k => exact Or.inr ⟨rfl, rfl, Or.inl rfl⟩
      case map t =>
        rw [index_unk_map nk hkd] at h ⊢
        cases hk : tryConvert key .str with
        | error d => simp only [hk] at h; split at h <;> simp [errOut] at h
        | ok k => exact Or.inr ⟨rfl, rfl, Or.inl rfl⟩
      case tuple ts =>
        rw [index_unk_tuple nk hkd] at h ⊢
        cases hk : tryConvert key .num with
        | error d => simp only [hk] at h; split at h <;> simp [errOut] at h
        | ok k =>
          simp only [hk] at h ⊢
          split
          · simp only at h
            split at h
            · split at h
              · rename_i i t ht
                rename_i hi
                simp only [hi, ht]
                exact Or.inr ⟨rfl, rfl, Or.inl rfl⟩
              · simp [errOut] at h
            · simp [errOut] at h
          · exact Or.inr ⟨rfl, rfl, Or.inl rfl⟩
      case object fs =>
        rw [index_unk_object nk hkd] at h ⊢
        cases hk : tryConvert key .str with
        | error d => simp only [hk] at h; split at h <;> simp [errOut] at h
        | ok k =>
          simp only [hk] at h ⊢
          split
          · simp only at h
            split at h
            · simp [errOut] at h
            · rename_i aty ha
              simp only [ha]
              exact Or.inr ⟨rfl, rfl, Or.inl rfl⟩
          · exact Or.inr ⟨rfl, rfl, Or.inl rfl⟩

theorem index_known {coll key : Val} (h : (index true coll key).2 = []) (hc : whollyKnown coll = true)
    (hk : whollyKnown key = true) : whollyKnown (index true coll key).1 = true := by
  rcases index_shape h with ⟨x, g, he, hx⟩ | ⟨_, _, hu⟩
  · rw [he, whollyKnown_withFl]; exact Elem_known hx hc
  · rcases hu with hu | hu
    · rw [isKnown_of_whollyKnown hc] at hu; cases hu
    · rw [isKnown_of_whollyKnown hk] at hu; cases hu

theorem index_wf {coll key : Val} (h : (index true coll key).2 = []) (hc : wfVal coll = true) :
    wfVal (index true coll key).1 = true := by
  rcases index_shape h with ⟨x, g, he, hx⟩ | ⟨_, hf, _⟩
  · rw [he, wfVal_withFl]; exact Elem_wf hx hc
  · exact wfVal_flat hf

theorem conc_dynVal_withFl (v : Val) (f : Fl) : conc v (Val.dynVal.withFl f) = true := by
  simp [dynVal, withFl, setFl, conc_unk]

theorem index_ty_list {coll key : Val} {t : Ty} (ht : typeOf coll = .list t) (hw : wfVal coll = true)
    (h : (index true coll key).2 = []) (hkd : key.typeOf ≠ .dyn) : typeOf (index true coll key).1 = t := by
  obtain ⟨nc, nk⟩ := index_null_diag h
  rcases shape_list ht with ⟨f, rfl⟩ | ⟨f, rfl⟩ | ⟨f, xs, rfl⟩
  · rw [index_unk_list nk hkd] at h ⊢
    cases hk : tryConvert key .num with
    | error d => simp only [hk] at h; split at h <;> simp [errOut] at h
    | ok k => rfl
  · simp [isNull] at nc
  · rcases index_shape h with ⟨x, g, he, hx⟩ | ⟨hu, _, _⟩
    · rw [he, typeOf_withFl]; exact (wfElems_mem hw x hx).1
    · rw [index_list nk hkd] at hu ⊢
      cases hk : tryConvert key .num with
      | error d => rw [index_list nk hkd] at h; simp only [hk] at h; split at h <;> simp [errOut] at h
      | ok k =>
        simp only [hk] at hu ⊢
        split
        · rename_i kf q
          rw [index_list nk hkd] at h
          simp only [hk] at h
          split at h
          · split at h
            · rename_i x hx
              simp only [typeOf_withFl]
              exact (wfElems_mem hw x (List.mem_of_getElem? hx)).1
            · simp [errOut] at h
          · simp [errOut] at h
        · rfl

theorem index_ty_map {coll key : Val} {t : Ty} (ht : typeOf coll = .map t) (hw : wfVal coll = true)
    (h : (index true coll key).2 = []) (hkd : key.typeOf ≠ .dyn) : typeOf (index true coll key).1 = t := by
  obtain ⟨nc, nk⟩ := index_null_diag h
  rcases shape_map ht with ⟨f, rfl⟩ | ⟨f, rfl⟩ | ⟨f, xs, rfl⟩
  · rw [index_unk_map nk hkd] at h ⊢
    cases hk : tryConvert key .str with
    | error d => simp only [hk] at h; split at h <;> simp [errOut] at h
    | ok k => rfl
  · simp [isNull] at nc
  · rw [index_map nk hkd] at h ⊢
    cases hk : tryConvert key .str with
    | error d => simp only [hk] at h; split at h <;> simp [errOut] at h
    | ok k =>
      simp only [hk] at h ⊢
      split
      · rename_i kf s
        simp only at h
        split at h
        · rename_i x hx
          simp only [typeOf_withFl]
          exact (wfElemsF_lookup hw hx).1
        · simp [errOut] at h
      · rfl

theorem index_ty_tuple {coll key : Val} {ts : List Ty} {kf : Fl} {q : Rat} {i : Nat} {t : Ty}
    (ht : typeOf coll = .tuple ts) (h : (index true coll key).2 = []) (hkd : key.typeOf ≠ .dyn)
    (hk : tryConvert key .num = .ok (.num kf q)) (hi : natIndex? q = some i) (hti : ts[i]? = some t) :
    typeOf (index true coll key).1 = t := by
  obtain ⟨nc, nk⟩ := index_null_diag h
  rcases shape_tuple ht with ⟨f, rfl⟩ | ⟨f, rfl⟩ | ⟨f, xs, rfl, hxs⟩
  · rw [index_unk_tuple nk hkd]
    simp [hk, hi, hti, typeOf]
  · simp [isNull] at nc
  · rw [index_tuple nk hkd] at h ⊢
    simp only [hk, hi] at h ⊢
    have := typeOfList_getElem? xs i
    rw [hxs, hti] at this
    cases hx : xs[i]? with
    | none => simp [hx] at this
    | some x => simp [hx] at this ⊢; exact this.symm

theorem index_ty_object {coll key : Val} {fs : List (String × Ty)} {kf : Fl} {s : String} {t : Ty}
    (ht : typeOf coll = .object fs) (h : (index true coll key).2 = []) (hkd : key.typeOf ≠ .dyn)
    (hk : tryConvert key .str = .ok (.str kf s)) (hti : lookupKey s fs = some t) :
    typeOf (index true coll key).1 = t := by
  obtain ⟨nc, nk⟩ := index_null_diag h
  rcases shape_object ht with ⟨f, rfl⟩ | ⟨f, rfl⟩ | ⟨f, xs, rfl, hxs⟩
  · rw [index_unk_object nk hkd]
    simp [hk, hti, typeOf]
  · simp [isNull] at nc
  · rw [index_object nk hkd] at h ⊢
    simp only [hk, hxs, hti] at h ⊢
    have := typeOfFields_lookup xs s
    rw [hxs, hti] at this
    cases hx : lookupKey s xs with
    | none => simp [hx] at this
    | some x => simp [hx] at this ⊢; exact this.symm

/-- without diagnostics the key conversion succeeded -/
theorem index_key_num {coll key : Val} (ht : (∃ t, typeOf coll = .list t) ∨ (∃ ts, typeOf coll = .tuple ts))
    (h : (index true coll key).2 = []) (hkd : key.typeOf ≠ .dyn) : ∃ k, tryConvert key .num = .ok k := by
  obtain ⟨nc, nk⟩ := index_null_diag h
  cases hk : tryConvert key .num with
  | ok k => exact ⟨k, rfl⟩
  | error d =>
    exfalso
    rcases ht with ⟨t, ht⟩ | ⟨ts, ht⟩
    · rcases shape_list ht with ⟨f, rfl⟩ | ⟨f, rfl⟩ | ⟨f, xs, rfl⟩
      · rw [index_unk_list nk hkd] at h; simp only [hk] at h; split at h <;> simp [errOut] at h
      · simp [isNull] at nc
      · rw [index_list nk hkd] at h; simp only [hk] at h; split at h <;> simp [errOut] at h
    · rcases shape_tuple ht with ⟨f, rfl⟩ | ⟨f, rfl⟩ | ⟨f, xs, rfl, _⟩
      · rw [index_unk_tuple nk hkd] at h; simp only [hk] at h; split at h <;> simp [errOut] at h
      · simp [isNull] at nc
      · rw [index_tuple nk hkd] at h; simp only [hk] at h; split at h <;> simp [errOut] at h

theorem index_key_str {coll key : Val} (ht : (∃ t, typeOf coll = .map t) ∨ (∃ ts, typeOf coll = .object ts))
    (h : (index true coll key).2 = []) (hkd : key.typeOf ≠ .dyn) : ∃ k, tryConvert key .str = .ok k := by
  obtain ⟨nc, nk⟩ := index_null_diag h
  cases hk : tryConvert key .str with
  | ok k => exact ⟨k, rfl⟩
  | error d =>
    exfalso
    rcases ht with ⟨t, ht⟩ | ⟨ts, ht⟩
    · rcases shape_map ht with ⟨f, rfl⟩ | ⟨f, rfl⟩ | ⟨f, xs, rfl⟩
      · rw [index_unk_map nk hkd] at h; simp only [hk] at h; split at h <;> simp [errOut] at h
      · simp [isNull] at nc
      · rw [index_map nk hkd] at h; simp only [hk] at h; split at h <;> simp [errOut] at h
    · rcases shape_object ht with ⟨f, rfl⟩ | ⟨f, rfl⟩ | ⟨f, xs, rfl, _⟩
      · rw [index_unk_object nk hkd] at h; simp only [hk] at h; split at h <;> simp [errOut] at h
      · simp [isNull] at nc
      · rw [index_object nk hkd] at h; simp only [hk] at h; split at h <;> simp [errOut] at h

theorem key_pair {key keya k ka : Val} {t : Ty} (ht : t.noDyn = true) (hk : conc key keya = true)
    (h1 : tryConvert key t = .ok k) (h2 : tryConvert keya t = .ok ka) : conc k ka = true :=
  convert_conc keya key t k ka hk ht (tryConvert_ok.mp h1) (tryConvert_ok.mp h2)

theorem index_conc {coll key colla keya : Val} (hc : conc coll colla = true) (hk : conc key keya = true)
    (hw : wfVal coll = true) (h : (index true coll key).2 = []) (ha : (index true colla keya).2 = []) :
    conc (index true coll key).1 (index true colla keya).1 = true := by
  obtain ⟨nc, nk⟩ := index_null_diag h
  obtain ⟨nca, nka⟩ := index_null_diag ha
  by_cases hda : keya.typeOf = .dyn ∨ colla.typeOf = .dyn
  · rw [index_dyn nca nka hda]; exact conc_dynVal_withFl _ _
  · have hkda : keya.typeOf ≠ .dyn := fun e => hda (Or.inl e)
    have hcda : colla.typeOf ≠ .dyn := fun e => hda (Or.inr e)
    have hkd : key.typeOf ≠ .dyn := fun e => hkda (conc_dyn hk e)
    have hcd : coll.typeOf ≠ .dyn := fun e => hcda (conc_dyn hc e)
    cases colla
    case null => simp [isNull] at nca
    case str => exact absurd ha (index_prim_diag rfl hkda)
    case num => exact absurd ha (index_prim_diag rfl hkda)
    case bool => exact absurd ha (index_prim_diag rfl hkda)
    case unk g T =>
      have hT : typeOf coll = T := by
        rcases conc_unk_iff.mp hc with h1 | h1
        · simp [typeOf, h1] at hcda
        · exact h1
      cases T
      case dyn => simp [typeOf] at hcda
      case str => exact absurd ha (index_prim_diag rfl hkda)
      case num => exact absurd ha (index_prim_diag rfl hkda)
      case bool => exact absurd ha (index_prim_diag rfl hkda)
      case list t =>
        rw [index_unk_list nka hkda] at ha ⊢
        cases hka : tryConvert keya .num with
        | error d => simp only [hka] at ha; split at ha <;> simp [errOut] at ha
        | ok ka => exact conc_of_type (index_ty_list hT hw h hkd)
      case map t =>
        rw [index_unk_map nka hkda] at ha ⊢
        cases hka : tryConvert keya .str with
        | error d => simp only [hka] at ha; split at ha <;> simp [errOut] at ha
        | ok ka => exact conc_of_type (index_ty_map hT hw h hkd)
      case tuple ts =>
        rw [index_unk_tuple nka hkda] at ha ⊢
        cases hka : tryConvert keya .num with
        | error d => simp only [hka] at ha; split at ha <;> simp [errOut] at ha
        | ok ka =>
          obtain ⟨k, hk'⟩ := index_key_num (Or.inr ⟨ts, hT⟩) h hkd
          have hkk := key_pair rfl hk hk' hka
          simp only [hka] at ha ⊢
          split
          · rename_i kf q
            obtain ⟨kf', rfl⟩ := conc_num_inv hkk
            simp only at ha
            split at ha
            · rename_i i hi
              split at ha
              · rename_i t hti
                simp only [hi, hti]
                exact conc_of_type (index_ty_tuple hT h hkd hk' hi hti)
              · simp [errOut] at ha
            · simp [errOut] at ha
          · exact conc_dynVal_withFl _ _
      case object fs =>
        rw [index_unk_object nka hkda] at ha ⊢
        cases hka : tryConvert keya .str with
        | error d => simp only [hka] at ha; split at ha <;> simp [errOut] at ha
        | ok ka =>
          obtain ⟨k, hk'⟩ := index_key_str (Or.inr ⟨fs, hT⟩) h hkd
          have hkk := key_pair rfl hk hk' hka
          simp only [hka] at ha ⊢
          split
          · rename_i kf s
            obtain ⟨kf', rfl⟩ := conc_str_inv hkk
            simp only at ha
            split at ha
            · simp [errOut] at ha
            · rename_i t hti
              exact conc_of_type (index_ty_object hT h hkd hk' hti)
          · exact conc_dynVal_withFl _ _
    case list g t ys =>
      obtain ⟨f, xs, rfl, hl⟩ := conc_list_inv hc
      have hty := index_ty_list (coll := .list f t xs) rfl hw h hkd
      rw [index_list nk hkd] at h hty ⊢
      rw [index_list nka hkda] at ha ⊢
      cases hka : tryConvert keya .num with
      | error d => simp only [hka] at ha; split at ha <;> simp [errOut] at ha
      | ok ka =>
      cases hk' : tryConvert key .num with
      | error d => simp only [hk'] at h; split at h <;> simp [errOut] at h
      | ok k =>
        have hkk := key_pair rfl hk hk' hka
        obtain ⟨kat, kan, _⟩ := key_conv rfl nka hka
        simp only [hka, hk'] at h ha hty ⊢
        rcases shape_num_nn kat kan with ⟨kf, rfl⟩ | ⟨kf, q, rfl⟩
        · exact conc_of_type hty
        · obtain ⟨kf', rfl⟩ := conc_num_inv hkk
          simp only at h ha ⊢
          cases hi : natIndex? q with
          | none => simp [hi, errOut] at ha
          | some i =>
            simp only [hi] at h ha ⊢
            have := concL_getElem? hl i
            cases hx : xs[i]? <;> cases hy : ys[i]? <;> simp [hx, hy, errOut] at this h ha ⊢
            exact this
    case tuple g ys =>
      obtain ⟨f, xs, rfl, hl⟩ := conc_tuple_inv hc
      rw [index_tuple nk hkd] at h ⊢
      rw [index_tuple nka hkda] at ha ⊢
      cases hka : tryConvert keya .num with
      | error d => simp only [hka] at ha; split at ha <;> simp [errOut] at ha
      | ok ka =>
      cases hk' : tryConvert key .num with
      | error d => simp only [hk'] at h; split at h <;> simp [errOut] at h
      | ok k =>
        have hkk := key_pair rfl hk hk' hka
        obtain ⟨kat, kan, _⟩ := key_conv rfl nka hka
        simp only [hka, hk'] at h ha ⊢
        rcases shape_num_nn kat kan with ⟨kf, rfl⟩ | ⟨kf, q, rfl⟩
        · exact conc_dynVal_withFl _ _
        · obtain ⟨kf', rfl⟩ := conc_num_inv hkk
          simp only at h ha ⊢
          cases hi : natIndex? q with
          | none => simp [hi, errOut] at ha
          | some i =>
            simp only [hi] at h ha ⊢
            have := concL_getElem? hl i
            cases hx : xs[i]? <;> cases hy : ys[i]? <;> simp [hx, hy, errOut] at this h ha ⊢
            exact this
    case map g t ys =>
      obtain ⟨f, xs, rfl, hl⟩ := conc_map_inv hc
      have hty := index_ty_map (coll := .map f t xs) rfl hw h hkd
      rw [index_map nk hkd] at h hty ⊢
      rw [index_map nka hkda] at ha ⊢
      cases hka : tryConvert keya .str with
      | error d => simp only [hka] at ha; split at ha <;> simp [errOut] at ha
      | ok ka =>
      cases hk' : tryConvert key .str with
      | error d => simp only [hk'] at h; split at h <;> simp [errOut] at h
      | ok k =>
        have hkk := key_pair rfl hk hk' hka
        obtain ⟨kat, kan, _⟩ := key_conv rfl nka hka
        simp only [hka, hk'] at h ha hty ⊢
        rcases shape_str_nn kat kan with ⟨kf, rfl⟩ | ⟨kf, s, rfl⟩
        · exact conc_of_type hty
        · obtain ⟨kf', rfl⟩ := conc_str_inv hkk
          simp only at h ha ⊢
          have := concF_lookup hl s
          cases hx : lookupKey s xs <;> cases hy : lookupKey s ys <;> simp [hx, hy, errOut] at this h ha ⊢
          exact this
    case object g ys =>
      obtain ⟨f, xs, rfl, hl⟩ := conc_object_inv hc
      rw [index_object nk hkd] at h ⊢
      rw [index_object nka hkda] at ha ⊢
      cases hka : tryConvert keya .str with
      | error d => simp only [hka] at ha; split at ha <;> simp [errOut] at ha
      | ok ka =>
      cases hk' : tryConvert key .str with
      | error d => simp only [hk'] at h; split at h <;> simp [errOut] at h
      | ok k =>
        have hkk := key_pair rfl hk hk' hka
        obtain ⟨kat, kan, _⟩ := key_conv rfl nka hka
        simp only [hka, hk'] at h ha ⊢
        rcases shape_str_nn kat kan with ⟨kf, rfl⟩ | ⟨kf, s, rfl⟩
        · exact conc_dynVal_withFl _ _
        · obtain ⟨kf', rfl⟩ := conc_str_inv hkk
          simp only at h ha ⊢
          have := concF_lookup hl s
          cases hx1 : lookupKey s (typeOfFields xs) <;> cases hy1 : lookupKey s (typeOfFields ys) <;>
            simp [hx1, hy1, errOut] at h ha ⊢
          cases hx : lookupKey s xs <;> cases hy : lookupKey s ys <;> simp [hx, hy, errOut] at this h ha ⊢
          exact this

end HclModel.Proofs.Unk
