import Proofs.JBodyLevel
/-!
C03, one level: `JBodyV.partialContent` / `content` of the rendering of an admissible layout — attributes,
blocks, names used and errors in terms of the layout's properties.
-/
namespace HclModel.JBody.Proofs
open HclModel HclModel.Body HclModel.Body.Proofs

/-! ### the fold step as a top-level function -/

abbrev JAcc := List (String × JV) × List (Block JBodyV) × List String × List JErr

def jstep (hidden : List String) (s : Schema) (acc : JAcc) (p : String × JV) : JAcc :=
  if hidden.contains p.1 then acc
  else if s.attrs.any (·.name == p.1) then
    if acc.1.any (·.1 == p.1) then (acc.1, acc.2.1, acc.2.2.1, acc.2.2.2 ++ [.duplicateArgument p.1])
    else (acc.1 ++ [p], acc.2.1, p.1 :: acc.2.2.1, acc.2.2.2)
  else match wanted s p.1 with
    | some bs =>
      (acc.1, acc.2.1 ++ (unpackBlock bs.type bs.labelCount [] p.2).1, p.1 :: acc.2.2.1,
        acc.2.2.2 ++ (unpackBlock bs.type bs.labelCount [] p.2).2)
    | none => acc

/-- the state of `partialContent` after its loop -/
def jfold (b : JBodyV) (s : Schema) : JAcc :=
  (collectDeepAttrs b.val).1.foldl (jstep b.hidden s)
    ([], [], b.hidden, if (collectDeepAttrs b.val).2 then [JErr.incorrectType] else [])

theorem partialContent_eq (b : JBodyV) (s : Schema) :
    b.partialContent s =
      (⟨(jfold b s).1, (jfold b s).2.1⟩, ⟨b.val, (jfold b s).2.2.1⟩,
       (jfold b s).2.2.2 ++
        (s.attrs.filter fun as => as.required && !((jfold b s).1.any (·.1 == as.name))).map
          fun as => JErr.missingRequired as.name) := by
  rfl

theorem content_eq (b : JBodyV) (s : Schema) :
    b.content s =
      ((b.partialContent s).1,
       (b.partialContent s).2.2 ++ (if (collectDeepAttrs b.val).2 then [JErr.incorrectType] else []) ++
        ((collectDeepAttrs b.val).1.filter fun p =>
          p.1 != "//" && !(b.partialContent s).2.1.hidden.contains p.1).map fun p => JErr.extraneous p.1) := by
  rfl

/-! ### one step, by kind of property -/

section steps
variable (s : Schema) (acc : JAcc)

theorem jstep_ignored (n : String) (v : JV) (h1 : s.attrs.any (·.name == n) = false)
    (h2 : wanted s n = none) : jstep [] s acc (n, v) = acc := by
  simp [jstep, h1, h2]

theorem jstep_attr (n : String) (v : JV) (h1 : s.attrs.any (·.name == n) = true)
    (h2 : acc.1.any (·.1 == n) = false) :
    jstep [] s acc (n, v) = (acc.1 ++ [(n, v)], acc.2.1, n :: acc.2.2.1, acc.2.2.2) := by
  simp [jstep, h1, h2]

theorem jstep_block (t : String) (v : JV) (bs : BlockSchema) (h1 : s.attrs.any (·.name == t) = false)
    (h2 : wanted s t = some bs) :
    jstep [] s acc (t, v) =
      (acc.1, acc.2.1 ++ (unpackBlock t bs.labelCount [] v).1, t :: acc.2.2.1,
        acc.2.2.2 ++ (unpackBlock t bs.labelCount [] v).2) := by
  have := (wanted_some h2).2
  simp [jstep, h1, h2, this]

end steps

/-! ### the whole loop over a rendered admissible property list -/

def propName : PropL → String
  | .comment _ => "//"
  | .attr n _ => n
  | .blocks t _ => t

/-- the name is used up by `partialContent` -/
def usedP (s : Schema) (p : PropL) : Bool :=
  s.attrs.any (·.name == propName p) || (wanted s (propName p)).isSome

/-- the errors of `unpackBlock` for the block-type properties the schema wants -/
def unpackErrs (s : Schema) : List PropL → List JErr
  | [] => []
  | .blocks t u :: rest =>
    (match wanted s t with
     | some bs => (unpackBlock t bs.labelCount [] (renderUnder u)).2
     | none => []) ++ unpackErrs s rest
  | _ :: rest => unpackErrs s rest

theorem renderProps_names (ps : List PropL) : (renderProps ps).map (·.1) = ps.map propName := by
  induction ps with
  | nil => simp [renderProps]
  | cons p rest ih => cases p <;> simp [renderProps, propName, ih]

theorem fold_rendered (st : STree) (hst : st.wf = true) (ps : List PropL) (hadm : admProps st ps = true)
    (acc : JAcc) (hnd : ((denoteAttrs ps).map (·.1)).Nodup)
    (hacc : ∀ p ∈ denoteAttrs ps, ∀ q ∈ acc.1, q.1 ≠ p.1) :
    (renderProps ps).foldl (jstep [] st.schema) acc =
      (acc.1 ++ (denoteAttrs ps).filter (fun p => st.schema.attrs.any (·.name == p.1)),
       acc.2.1 ++ ((flatBlocks ps).filter (fun fb => (wanted st.schema fb.1).isSome)).map toJ,
       ((ps.filter (usedP st.schema)).map propName).reverse ++ acc.2.2.1,
       acc.2.2.2 ++ unpackErrs st.schema ps) := by
  induction ps generalizing acc with
  | nil => simp [renderProps, denoteAttrs, flatBlocks, unpackErrs]
  | cons p rest ih =>
    have hp := (admProps_iff st _).1 hadm p (by simp)
    have hrest : admProps st rest = true :=
      (admProps_iff st _).2 fun q hq => (admProps_iff st _).1 hadm q (by simp [hq])
    cases p with
    | comment v =>
      simp only [renderProps, List.foldl_cons]
      rw [jstep_ignored _ _ _ _ (wf_comment_attr hst) (wf_comment_block hst)]
      simp only [denoteAttrs] at hnd hacc
      rw [ih hrest acc hnd hacc]
      simp [denoteAttrs, flatBlocks, unpackErrs, usedP, propName, wf_comment_attr hst, wf_comment_block hst]
    | attr n v =>
      obtain ⟨_, hnb, _⟩ := hp.attr n v rfl
      have hwn : wanted st.schema n = none := by
        rw [wanted_eq_none_iff]
        intro bs hbs e
        simp only [List.any_eq_false, beq_iff_eq] at hnb
        exact hnb bs hbs e
      simp only [renderProps, List.foldl_cons]
      simp only [denoteAttrs, List.map_cons, List.nodup_cons] at hnd
      simp only [denoteAttrs, List.mem_cons, forall_eq_or_imp] at hacc
      by_cases hin : st.schema.attrs.any (·.name == n) = true
      · have hfresh : acc.1.any (·.1 == n) = false := by
          simp only [List.any_eq_false, beq_iff_eq]
          intro q hq
          exact hacc.1 q hq
        rw [jstep_attr _ _ _ _ hin hfresh]
        rw [ih hrest _ hnd.2 (by
          intro p hp q hq
          simp only [List.mem_append, List.mem_singleton] at hq
          rcases hq with hq | rfl
          · exact hacc.2 p hp q hq
          · intro e
            exact hnd.1 (by rw [show n = p.1 from e]; exact List.mem_map_of_mem hp))]
        simp [denoteAttrs, flatBlocks, unpackErrs, usedP, propName, hin]
      · have hin' : st.schema.attrs.any (·.name == n) = false := by simpa using hin
        rw [jstep_ignored _ _ _ _ hin' hwn]
        rw [ih hrest acc hnd.2 hacc.2]
        simp [denoteAttrs, flatBlocks, unpackErrs, usedP, propName, hin', hwn]
    | blocks t u =>
      obtain ⟨_, hna, hu⟩ := hp.blocks t u rfl
      simp only [renderProps, List.foldl_cons]
      simp only [denoteAttrs] at hnd hacc
      cases hw : wanted st.schema t with
      | none =>
        rw [jstep_ignored _ _ _ _ hna hw]
        rw [ih hrest acc hnd hacc]
        have hf : (flatUnder t [] u).filter (fun fb => (wanted st.schema fb.1).isSome) = [] := by
          rw [List.filter_eq_nil_iff]
          intro fb hfb
          rw [flatUnder_type t [] u fb hfb, hw]
          simp
        simp [denoteAttrs, flatBlocks, unpackErrs, usedP, propName, hna, hw, hf]
      | some bs =>
        obtain ⟨cst, _, _, hadmu⟩ := adm_block hst hw hu
        rw [jstep_block _ _ _ _ bs hna hw]
        have hf : (flatUnder t [] u).filter (fun fb => (wanted st.schema fb.1).isSome) = flatUnder t [] u := by
          rw [List.filter_eq_self]
          intro fb hfb
          rw [flatUnder_type t [] u fb hfb, hw]
          simp
        refine (ih hrest _ hnd ?_).trans ?_
        · exact hacc
        simp [denoteAttrs, flatBlocks, unpackErrs, usedP, propName, hna, hw, hf,
          unpack_blocks cst t bs.labelCount [] u hadmu]

/-! ### `partialContent` / `content` of a rendered admissible body -/

section rendered
variable (st : STree) (L : BodyL) (hst : st.wf = true) (hL : admBody st L = true)
include hst hL

omit hst in
theorem adm_props : admProps st (bodyProps L) = true := by
  rw [admBody_eq, Bool.and_eq_true] at hL; exact hL.1

omit hst in
theorem adm_nodup : ((denoteAttrs (bodyProps L)).map (·.1)).Nodup := by
  rw [admBody_eq, Bool.and_eq_true] at hL
  exact nodup_map_of_eraseDups_length _ _ hL.2

theorem jfold_rendered :
    jfold ⟨renderBody L, []⟩ st.schema =
      ((denoteAttrs (bodyProps L)).filter (fun p => st.schema.attrs.any (·.name == p.1)),
       ((flatBlocks (bodyProps L)).filter (fun fb => (wanted st.schema fb.1).isSome)).map toJ,
       (((bodyProps L).filter (usedP st.schema)).map propName).reverse,
       unpackErrs st.schema (bodyProps L)) := by
  unfold jfold
  simp only [collect_renderBody]
  rw [fold_rendered st hst _ (adm_props st L hL) _ (adm_nodup st L hL) (by simp)]
  simp

/-- the attributes found: those the layout writes under names the schema has -/
theorem content_attrs :
    ((⟨renderBody L, []⟩ : JBodyV).content st.schema).1.attrs =
      (denoteAttrs (bodyProps L)).filter (fun p => st.schema.attrs.any (·.name == p.1)) := by
  rw [content_eq, partialContent_eq, jfold_rendered st L hst hL]

/-- the blocks found: those the layout writes under types the schema has -/
theorem content_blocks :
    ((⟨renderBody L, []⟩ : JBodyV).content st.schema).1.blocks =
      ((flatBlocks (bodyProps L)).filter (fun fb => (wanted st.schema fb.1).isSome)).map toJ := by
  rw [content_eq, partialContent_eq, jfold_rendered st L hst hL]

/-- the errors -/
theorem content_errs :
    ((⟨renderBody L, []⟩ : JBodyV).content st.schema).2 =
      unpackErrs st.schema (bodyProps L) ++
      (st.schema.attrs.filter fun as => as.required &&
        !(((denoteAttrs (bodyProps L)).filter (fun p => st.schema.attrs.any (·.name == p.1))).any
          (·.1 == as.name))).map (fun as => JErr.missingRequired as.name) ++
      ((renderProps (bodyProps L)).filter fun p => p.1 != "//" &&
        !((((bodyProps L).filter (usedP st.schema)).map propName).reverse.contains p.1)).map
          fun p => JErr.extraneous p.1 := by
  rw [content_eq, partialContent_eq, jfold_rendered st L hst hL]
  simp only [collect_renderBody]
  simp

end rendered

end HclModel.JBody.Proofs
