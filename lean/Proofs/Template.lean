import HclModel.Syntax.Template
/-!
Template white-space processing: strip markers, flush heredocs and melding remove white space only, and the
flush rule removes exactly the smallest counted indentation.
-/
namespace HclModel.Template.Proofs
open HclModel.Template

/-! ## trimming removes white space only -/

theorem filter_dropWhile (sp : Char → Bool) (s : List Char) :
    (s.dropWhile sp).filter (fun c => !sp c) = s.filter (fun c => !sp c) := by
  induction s with
  | nil => rfl
  | cons c s ih =>
    by_cases h : sp c = true
    · simp [List.dropWhile, h, ih]
    · simp [List.dropWhile, h]

theorem filter_trimLeft (sp : Char → Bool) (s : List Char) :
    (trimLeft sp s).filter (fun c => !sp c) = s.filter (fun c => !sp c) := filter_dropWhile sp s

theorem filter_trimRight (sp : Char → Bool) (s : List Char) :
    (trimRight sp s).filter (fun c => !sp c) = s.filter (fun c => !sp c) := by
  unfold trimRight
  rw [List.filter_reverse, filter_dropWhile, ← List.filter_reverse, List.reverse_reverse]

theorem filter_drop_le_indent (sp : Char → Bool) (s : List Char) (m : Nat) (h : m ≤ indentOf sp s) :
    (s.drop m).filter (fun c => !sp c) = s.filter (fun c => !sp c) := by
  induction s generalizing m with
  | nil => simp
  | cons c s ih =>
    cases m with
    | zero => rfl
    | succ m =>
      by_cases hc : sp c = true
      · have : m ≤ indentOf sp s := by
          simp [indentOf, List.takeWhile, hc] at h; exact h
        simp [hc, ih m this]
      · simp [indentOf, List.takeWhile, hc] at h

/-! ## skeleton -/

theorem skel_append (sp : Char → Bool) (a b : List Part) : skel sp (a ++ b) = skel sp a ++ skel sp b := by
  induction a with
  | nil => rfl
  | cons p a ih => cases p <;> simp [skel, ih]

theorem skel_trimLast (sp : Char → Bool) : ∀ ps : List Part, skel sp (trimLast sp ps) = skel sp ps
  | [] => rfl
  | [.lit s] => by simp [trimLast, skel, filter_trimRight]
  | [.seq k id] => rfl
  | p :: q :: rest => by
    have ih := skel_trimLast sp (q :: rest)
    cases p <;> simp [trimLast, skel, ih]

theorem skel_fold (sp : Char → Bool) (raws : List Raw) (st : StripSt) :
    skel sp (raws.foldl (stripStep sp) st).acc = skel sp st.acc ++ skel sp (naive raws) := by
  induction raws generalizing st with
  | nil => simp [naive, skel]
  | cons r raws ih =>
    cases r with
    | lit s =>
      simp only [List.foldl_cons, ih, stripStep, naive, skel_append, skel]
      split <;> simp [filter_trimLeft]
    | seq k id l rr =>
      simp only [List.foldl_cons, ih, stripStep, naive, skel_append, skel]
      split <;> simp [skel_trimLast]

/-- Strip markers remove white space only: the non-space characters and the sequences come out as written. -/
theorem skel_parts (sp : Char → Bool) (raws : List Raw) : skel sp (parts sp raws) = skel sp (naive raws) := by
  have h := skel_fold sp raws {}
  simp only [skel, List.nil_append] at h
  unfold parts
  split
  · rename_i he
    rw [he] at h
    simp [skel] at h ⊢
    exact h
  · exact h

/-! ## without markers nothing is trimmed -/

def noStrip : Raw → Bool
  | .lit _ => true
  | .seq _ _ l r => !l && !r

theorem fold_noStrip (sp : Char → Bool) (raws : List Raw) (st : StripSt) (h : raws.all noStrip = true)
    (hl : st.ltrimNext = false) : (raws.foldl (stripStep sp) st).acc = st.acc ++ naive raws := by
  induction raws generalizing st with
  | nil => simp [naive]
  | cons r raws ih =>
    simp only [List.all_cons, Bool.and_eq_true] at h
    cases r with
    | lit s =>
      rw [List.foldl_cons, ih _ h.2 (by simp [stripStep])]
      simp [stripStep, hl, naive]
    | seq k id l rr =>
      simp only [noStrip, Bool.and_eq_true, Bool.not_eq_true'] at h
      rw [List.foldl_cons, ih _ h.2 (by simp [stripStep, h.1.2])]
      simp [stripStep, h.1.1, naive]

/-- A template without strip markers is taken as written (an empty one is one empty literal). -/
theorem parts_noStrip (sp : Char → Bool) (raws : List Raw) (h : raws.all noStrip = true) :
    parts sp raws = (match naive raws with | [] => [.lit []] | ps => ps) := by
  unfold parts
  rw [fold_noStrip sp raws {} h rfl]
  simp only [List.nil_append]
  cases naive raws <;> rfl

/-! ## the flush rule -/

/-- the indentations that count, in order -/
def counted (sp : Char → Bool) : Bool → List Part → List Nat
  | _, [] => []
  | nl, p :: rest =>
    (match (if nl then lineIndent sp p else none) with
     | some n => [n]
     | none => []) ++ counted sp (nextNl p) rest

theorem omin_some_le {a b : Option Nat} {x : Nat} (h : omin a b = some x) :
    (∀ y, a = some y → x ≤ y) ∧ (∀ y, b = some y → x ≤ y) := by
  cases a <;> cases b <;> simp_all [omin] <;> omega

/-- `minSpaces` is the minimum of the counted indentations. -/
theorem minIndent_eq_min (sp : Char → Bool) (nl : Bool) (ps : List Part) :
    minIndent sp nl ps = (counted sp nl ps).min? := by
  induction ps generalizing nl with
  | nil => rfl
  | cons p rest ih =>
    simp only [minIndent, counted, ih]
    cases h : (if nl then lineIndent sp p else none) with
    | none => simp [omin]
    | some n =>
      cases hr : (counted sp (nextNl p) rest).min? with
      | none =>
        have : counted sp (nextNl p) rest = [] := by simpa using hr
        simp [omin, this]
      | some k =>
        simp only [omin, List.singleton_append]
        rw [List.min?_cons, hr]
        simp

theorem skel_adjust (sp : Char → Bool) (m : Nat) (nl : Bool) (ps : List Part)
    (h : ∀ x, minIndent sp nl ps = some x → m ≤ x) : skel sp (adjust sp m nl ps) = skel sp ps := by
  induction ps generalizing nl with
  | nil => rfl
  | cons p rest ih =>
    have hrest : ∀ x, minIndent sp (nextNl p) rest = some x → m ≤ x := by
      intro x hx
      cases hh : (if nl then lineIndent sp p else none) with
      | none =>
        apply h x
        simp [minIndent, hh, omin, hx]
      | some n =>
        have := h (min n x) (by simp [minIndent, hh, omin, hx])
        omega
    cases p with
    | seq k id => simp [adjust, skel, ih _ hrest]
    | lit s =>
      simp only [adjust]
      split
      · rename_i hc
        simp only [Bool.and_eq_true, Bool.not_eq_true'] at hc
        have hm : m ≤ indentOf sp s := by
          cases hr : minIndent sp (nextNl (.lit s)) rest with
          | none =>
            apply h (indentOf sp s)
            simp [minIndent, hc.1, lineIndent, hc.2, omin, hr]
          | some y =>
            have := h (min (indentOf sp s) y) (by simp [minIndent, hc.1, lineIndent, hc.2, omin, hr])
            omega
        simp only [skel, filter_drop_le_indent sp s m hm]
        rw [ih _ hrest]
      · simp only [skel]
        rw [ih _ hrest]

/-- The flush rule removes white space only. -/
theorem skel_flush (sp : Char → Bool) (ps : List Part) : skel sp (flush sp ps) = skel sp ps := by
  unfold flush
  split
  · rfl
  · rename_i m hm
    exact skel_adjust sp m true ps (by intro x hx; rw [hm] at hx; cases hx; exact Nat.le_refl _)

/-! ## melding keeps all the text -/

theorem text_meld (ps : List Part) : text (meld ps) = text ps := by
  fun_induction meld ps with
  | case1 => rfl
  | case2 p => rfl
  | case3 a b rest ih => simp [ih, text]
  | case4 p q rest _ ih => cases p <;> simp [text, ih]

theorem skel_meld (sp : Char → Bool) (ps : List Part) : skel sp (meld ps) = skel sp ps := by
  fun_induction meld ps with
  | case1 => rfl
  | case2 p => rfl
  | case3 a b rest ih => simp [ih, skel]
  | case4 p q rest _ ih => cases p <;> simp [skel, ih]

/-- no two literals are adjacent after melding -/
def noAdjacentLits : List Part → Bool
  | .lit _ :: .lit b :: rest => false && noAdjacentLits (.lit b :: rest)
  | _ :: rest => noAdjacentLits rest
  | [] => true

theorem meld_noAdjacent (ps : List Part) : noAdjacentLits (meld ps) = true := by
  fun_induction meld ps with
  | case1 => rfl
  | case2 p => cases p <;> rfl
  | case3 a b rest ih => exact ih
  | case4 p q rest hne ih =>
    cases hq : meld (q :: rest) with
    | nil => cases p <;> rfl
    | cons q' rest' =>
      rw [hq] at ih
      cases p with
      | seq k id => simpa [noAdjacentLits] using ih
      | lit a =>
        cases q' with
        | seq k id => simpa [noAdjacentLits] using ih
        | lit b' =>
          -- `q` is not a literal (else case 3 applies), and melding keeps the first non-literal first
          cases q with
          | lit b => exact (hne a b rfl rfl).elim
          | seq k id =>
            cases rest with
            | nil => simp [meld] at hq
            | cons r rest2 => cases r <;> simp [meld] at hq

/-! ## flushing twice is flushing once -/

theorem adjust_zero (sp : Char → Bool) (nl : Bool) (ps : List Part) : adjust sp 0 nl ps = ps := by
  induction ps generalizing nl with
  | nil => rfl
  | cons p rest ih =>
    cases p with
    | seq k id => simp [adjust, ih]
    | lit s => simp only [adjust, List.drop_zero, ih]; split <;> rfl

theorem indentOf_le_length (sp : Char → Bool) (s : List Char) : indentOf sp s ≤ s.length := by
  unfold indentOf
  induction s with
  | nil => simp
  | cons c s ih =>
    by_cases hc : sp c = true
    · simp [List.takeWhile, hc]; exact ih
    · simp [List.takeWhile, hc]

theorem indentOf_drop (sp : Char → Bool) (s : List Char) (m : Nat) (h : m ≤ indentOf sp s) :
    indentOf sp (s.drop m) = indentOf sp s - m := by
  induction s generalizing m with
  | nil => simp [indentOf]
  | cons c s ih =>
    cases m with
    | zero => simp
    | succ m =>
      by_cases hc : sp c = true
      · have h' : m ≤ indentOf sp s := by simp [indentOf, List.takeWhile, hc] at h; exact h
        have := ih m h'
        simp [indentOf, List.takeWhile, hc] at this ⊢
        omega
      · simp [indentOf, List.takeWhile, hc] at h

theorem all_drop_of_indent (sp : Char → Bool) (s : List Char) (m : Nat) (h : m ≤ indentOf sp s) :
    (s.drop m).all sp = s.all sp := by
  induction s generalizing m with
  | nil => simp
  | cons c s ih =>
    cases m with
    | zero => rfl
    | succ m =>
      by_cases hc : sp c = true
      · have h' : m ≤ indentOf sp s := by simp [indentOf, List.takeWhile, hc] at h; exact h
        simp [hc, ih m h']
      · simp [indentOf, List.takeWhile, hc] at h

theorem indent_eq_length_of_all (sp : Char → Bool) (s : List Char) (h : s.all sp = true) :
    indentOf sp s = s.length := by
  induction s with
  | nil => rfl
  | cons c s ih =>
    simp only [List.all_cons, Bool.and_eq_true] at h
    simp [indentOf, List.takeWhile, h.1]
    exact ih h.2

theorem all_of_indent_eq_length (sp : Char → Bool) (s : List Char) (h : indentOf sp s = s.length) :
    s.all sp = true := by
  induction s with
  | nil => rfl
  | cons c s ih =>
    by_cases hc : sp c = true
    · simp [indentOf, List.takeWhile, hc] at h
      simp [hc, ih h]
    · simp [indentOf, List.takeWhile, hc] at h

/-- dropping at most the indentation of a line that is not blank keeps its line ending and keeps it non-blank -/
theorem endsNl_drop (sp : Char → Bool) (s : List Char) (m : Nat) (h : m ≤ indentOf sp s)
    (hb : isBlankLine sp s = false) : endsNl (s.drop m) = endsNl s := by
  by_cases hlt : m < s.length
  · unfold endsNl
    rw [List.getLast?_drop]
    simp [Nat.not_le.mpr hlt]
  · have hlen := indentOf_le_length sp s
    have hm : m = s.length := by omega
    have hall : s.all sp = true := all_of_indent_eq_length sp s (by omega)
    have : endsNl s = false := by
      simp only [isBlankLine, hall, Bool.true_and] at hb; exact hb
    subst hm
    rw [this]
    simp [endsNl]

theorem isBlankLine_drop (sp : Char → Bool) (s : List Char) (m : Nat) (h : m ≤ indentOf sp s)
    (hb : isBlankLine sp s = false) : isBlankLine sp (s.drop m) = false := by
  have h1 := endsNl_drop sp s m h hb
  have h2 := all_drop_of_indent sp s m h
  unfold isBlankLine at hb ⊢
  rw [h1, h2]; exact hb

theorem omin_map_sub (a b : Option Nat) (m : Nat) (ha : ∀ x, a = some x → m ≤ x) (hb : ∀ x, b = some x → m ≤ x) :
    omin (a.map (· - m)) (b.map (· - m)) = (omin a b).map (· - m) := by
  cases a <;> cases b <;> simp [omin]
  rename_i x y
  have := ha x rfl; have := hb y rfl
  omega

/-- after the adjustment every counted indentation is smaller by `m` -/
theorem minIndent_adjust (sp : Char → Bool) (m : Nat) (nl : Bool) (ps : List Part)
    (h : ∀ x, minIndent sp nl ps = some x → m ≤ x) :
    minIndent sp nl (adjust sp m nl ps) = (minIndent sp nl ps).map (· - m) := by
  induction ps generalizing nl with
  | nil => rfl
  | cons p rest ih =>
    have hparts := fun x (hx : minIndent sp nl (p :: rest) = some x) => omin_some_le (a := if nl then lineIndent sp p else none) (b := minIndent sp (nextNl p) rest) (x := x) (by simpa [minIndent] using hx)
    have hrest : ∀ x, minIndent sp (nextNl p) rest = some x → m ≤ x := by
      intro x hx
      cases hh : (if nl then lineIndent sp p else none) with
      | none => exact h x (by simp [minIndent, hh, omin, hx])
      | some n =>
        have := h (min n x) (by simp [minIndent, hh, omin, hx])
        omega
    have hhere : ∀ x, (if nl then lineIndent sp p else none) = some x → m ≤ x := by
      intro x hx
      cases hr : minIndent sp (nextNl p) rest with
      | none => exact h x (by simp [minIndent, hx, omin, hr])
      | some y =>
        have := h (min x y) (by simp [minIndent, hx, omin, hr])
        omega
    cases p with
    | seq k id =>
      have : m = 0 ∨ nl = false := by
        cases nl with
        | false => exact Or.inr rfl
        | true => exact Or.inl (by have := hhere 0 (by simp [lineIndent]); omega)
      rcases this with h0 | h0
      · subst h0
        simp [adjust_zero]
      · subst h0
        simp only [adjust, minIndent, nextNl, Bool.false_eq_true, if_false, omin]
        exact ih false hrest
    | lit s =>
      simp only [adjust]
      by_cases hc : (nl && !isBlankLine sp s) = true
      · simp only [hc, if_true]
        simp only [Bool.and_eq_true, Bool.not_eq_true'] at hc
        have hm : m ≤ indentOf sp s := hhere _ (by simp [hc.1, lineIndent, hc.2])
        have hnl : nextNl (.lit (s.drop m)) = nextNl (.lit s) := by
          simp only [nextNl]; exact endsNl_drop sp s m hm hc.2
        simp only [minIndent, hc.1, if_true, lineIndent, isBlankLine_drop sp s m hm hc.2, hc.2,
          Bool.false_eq_true, if_false, hnl, indentOf_drop sp s m hm]
        rw [ih _ hrest]
        exact omin_map_sub (some (indentOf sp s)) _ m (by intro x hx; cases hx; exact hm) hrest
      · simp only [hc, Bool.false_eq_true, if_false]
        simp only [minIndent]
        rw [ih _ hrest]
        have hnone : (if nl then lineIndent sp (.lit s) else none) = none := by
          cases nl with
          | false => rfl
          | true =>
            simp only [Bool.true_and, Bool.not_eq_true', Bool.not_eq_false] at hc
            simp [lineIndent, hc]
        rw [hnone]
        simp [omin]

/-- Flushing is idempotent: after the smallest indentation has been removed, the smallest indentation is 0. -/
theorem flush_idem (sp : Char → Bool) (ps : List Part) : flush sp (flush sp ps) = flush sp ps := by
  unfold flush
  cases hm : minIndent sp true ps with
  | none => simp [hm]
  | some m =>
    have h := minIndent_adjust sp m true ps (by intro x hx; rw [hm] at hx; cases hx; exact Nat.le_refl _)
    simp only [h, hm, Option.map_some, Nat.sub_self, adjust_zero]

end HclModel.Template.Proofs
